/-
  C08 (extension) — the characters `%.6g` prints (`Model/FormatsExt.lean: fmtG`) are read back by the tab
  reader's number parser (`parseDec`) to exactly the rounded value `sigRound p q`, and the rounded value is
  printed with the same characters.
-/
import CnvVerif.Model.FormatsExt
import CnvVerif.Lemmas.FormatsNum
import CnvVerif.Lemmas.Formats
namespace CnvVerif.Fmt
open CnvVerif CnvVerif.Generated

/-! ### the significant digits and the exponent -/

theorem sigParts_spec (p : Nat) (hp : 1 ≤ p) (a : ℚ) (ha : 0 < a) :
    10 ^ (p - 1) ≤ (sigParts p a).1 ∧ (sigParts p a).1 < 10 ^ p ∧
    sigRound p a = ((sigParts p a).1 : ℚ) * (10 : ℚ) ^ ((sigParts p a).2 - ((p : ℤ) - 1)) := by
  obtain ⟨b1, b2⟩ := mantissa_bounds p hp a ha
  rw [sigRound_of_pos p a ha]
  unfold sigParts
  simp only [pow10_eq]
  generalize roundHE (a / (10 : ℚ) ^ (dexp a - ((p : ℤ) - 1))) = r at b1 b2
  have hr0 : 0 ≤ r := le_trans (by positivity) b1
  have hcast : ((r.toNat : ℕ) : ℤ) = r := Int.toNat_of_nonneg hr0
  have hlt : 10 ^ (p - 1) < 10 ^ p := Nat.pow_lt_pow_right (by norm_num) (by omega)
  by_cases h : r.toNat = 10 ^ p
  · simp only [h, beq_self_eq_true, if_true]
    refine ⟨le_rfl, hlt, ?_⟩
    have hr : (r : ℚ) = (10 : ℚ) ^ p := by
      have : (r : ℤ) = ((10 ^ p : ℕ) : ℤ) := by rw [← hcast, h]
      rw [this]; push_cast; rfl
    rw [hr, show dexp a + 1 - ((p : ℤ) - 1) = (dexp a - ((p : ℤ) - 1)) + 1 by ring, zpow_add₀ (by norm_num), zpow_one]
    obtain ⟨j, rfl⟩ : ∃ j, p = j + 1 := ⟨p - 1, by omega⟩
    simp only [Nat.add_sub_cancel]
    push_cast
    ring
  · have hb : (r.toNat == 10 ^ p) = false := by simpa using h
    simp only [hb, Bool.false_eq_true, if_false]
    refine ⟨?_, ?_, ?_⟩
    · have : ((10 ^ (p - 1) : ℕ) : ℤ) ≤ (r.toNat : ℤ) := by rw [hcast]; push_cast; exact b1
      exact_mod_cast this
    · have h2 : (r.toNat : ℤ) ≤ ((10 ^ p : ℕ) : ℤ) := by rw [hcast]; push_cast; exact b2
      have h3 : r.toNat ≤ 10 ^ p := by exact_mod_cast h2
      omega
    · have : ((r.toNat : ℕ) : ℚ) = (r : ℚ) := by rw [← hcast]; push_cast; rfl
      rw [this]

/-- a decimal that already has `p` significant digits is taken apart into exactly these digits -/
theorem sigParts_fix (p : Nat) (hp : 1 ≤ p) (m : ℕ) (X : ℤ) (hlo : 10 ^ (p - 1) ≤ m) (hhi : m < 10 ^ p) :
    sigParts p ((m : ℚ) * (10 : ℚ) ^ (X - ((p : ℤ) - 1))) = (m, X) := by
  set k := X - ((p : ℤ) - 1) with hk'
  have hk : (0 : ℚ) < (10 : ℚ) ^ k := zpow_pos (by norm_num) k
  have hm1 : 1 ≤ m := le_trans (Nat.one_le_pow _ _ (by norm_num)) hlo
  have hmq : (0 : ℚ) < (m : ℚ) := by exact_mod_cast hm1
  have ha : (0 : ℚ) < (m : ℚ) * (10 : ℚ) ^ k := mul_pos hmq hk
  have hloq : (10 : ℚ) ^ (p - 1) ≤ (m : ℚ) := by exact_mod_cast hlo
  have hhiq : (m : ℚ) < (10 : ℚ) ^ p := by exact_mod_cast hhi
  have hd : dexp ((m : ℚ) * (10 : ℚ) ^ k) = X := by
    apply dexp_unique _ ha
    · rw [show X = ((p - 1 : ℕ) : ℤ) + k by omega, zpow_add₀ (by norm_num), zpow_natCast]
      exact mul_le_mul_of_nonneg_right hloq hk.le
    · rw [show X + 1 = ((p : ℕ) : ℤ) + k by omega, zpow_add₀ (by norm_num), zpow_natCast]
      exact mul_lt_mul_of_pos_right hhiq hk
  unfold sigParts
  simp only [hd, pow10_eq, ← hk']
  rw [mul_div_assoc, div_self hk.ne', mul_one]
  have : roundHE ((m : ℕ) : ℚ) = (m : ℤ) := by
    have := roundHE_intCast (m : ℤ)
    simpa using this
  rw [this, Int.toNat_natCast]
  have hne : (m == 10 ^ p) = false := by
    simp only [beq_eq_false_iff_ne, ne_eq]; omega
  simp only [hne, Bool.false_eq_true, if_false]

theorem sigParts_sigRound (p : Nat) (hp : 1 ≤ p) (a : ℚ) (ha : 0 < a) :
    sigParts p (sigRound p a) = sigParts p a := by
  obtain ⟨h1, h2, h3⟩ := sigParts_spec p hp a ha
  rw [h3]
  exact sigParts_fix p hp _ _ h1 h2

theorem spellPos_sigRound (p : Nat) (hp : 1 ≤ p) (a : ℚ) (ha : 0 < a) :
    spellPos p (sigRound p a) = spellPos p a := by
  unfold spellPos
  rw [sigParts_sigRound p hp a ha]

/-- printing the rounded value gives the same characters as printing the value itself -/
theorem fmtGL_sigRound (p : Nat) (hp : 1 ≤ p) (q : ℚ) : fmtGL p (sigRound p q) = fmtGL p q := by
  rcases lt_trichotomy q 0 with h | h | h
  · have hpos : 0 < -q := by linarith
    have h1 := sigRound_pos_of_pos p hp (-q) hpos
    have hneg : sigRound p q < 0 := by rw [sigRound_of_neg p q h]; linarith
    unfold fmtGL
    have e1 : (sigRound p q == 0) = false := by simpa using ne_of_lt hneg
    have e2 : (q == 0) = false := by simpa using ne_of_lt h
    simp only [e1, e2, hneg, h, Bool.false_eq_true, if_false, if_true]
    rw [sigRound_of_neg p q h, neg_neg, spellPos_sigRound p hp _ hpos]
  · rw [h, sigRound_zero]
  · have h1 := sigRound_pos_of_pos p hp q h
    unfold fmtGL
    have e1 : (sigRound p q == 0) = false := by simpa using ne_of_gt h1
    have e2 : (q == 0) = false := by simpa using ne_of_gt h
    have n1 : ¬ sigRound p q < 0 := not_lt.mpr h1.le
    have n2 : ¬ q < 0 := not_lt.mpr h.le
    simp only [e1, e2, n1, n2, Bool.false_eq_true, if_false]
    exact spellPos_sigRound p hp q h

/-! ### digit lists -/

theorem digitsVal_eq (l : List Char) : digitsVal l = Nat.ofDigitChars 10 l 0 := rfl

theorem digitsVal_toDigits (n : Nat) : digitsVal (Nat.toDigits 10 n) = n := by
  rw [digitsVal_eq]; exact Nat.ofDigitChars_ten_toDigits

theorem digitsVal_append (a b : List Char) :
    digitsVal (a ++ b) = 10 ^ b.length * digitsVal a + digitsVal b := by
  rw [digitsVal_eq, Nat.ofDigitChars_append, Nat.ofDigitChars_eq_ofDigitChars_zero]; rfl

theorem digitsVal_replicate_zero (n : Nat) : digitsVal (List.replicate n '0') = 0 := by
  rw [digitsVal_eq, Nat.ofDigitChars_replicate_zero]; simp

/-- digits of a `p`-digit number -/
theorem toDigits_length (p : Nat) (hp : 1 ≤ p) (m : Nat) (hlo : 10 ^ (p - 1) ≤ m) (hhi : m < 10 ^ p) :
    (Nat.toDigits 10 m).length = p := by
  have h1 : (Nat.toDigits 10 m).length ≤ p := (Nat.length_toDigits_le_iff (by norm_num) (by omega)).mpr hhi
  by_cases hp1 : p = 1
  · have := @Nat.length_toDigits_pos 10 m
    omega
  · have h2 : ¬ (Nat.toDigits 10 m).length ≤ p - 1 := by
      rw [Nat.length_toDigits_le_iff (by norm_num) (by omega)]
      omega
    omega

theorem stripZ_spec (l : List Char) : ∃ z, l = stripZ l ++ List.replicate z '0' := by
  refine ⟨(l.reverse.takeWhile (· == '0')).length, ?_⟩
  have h := List.takeWhile_append_dropWhile (p := (· == '0')) (l := l.reverse)
  have hrep : l.reverse.takeWhile (· == '0') = List.replicate (l.reverse.takeWhile (· == '0')).length '0' := by
    rw [List.eq_replicate_iff]
    refine ⟨rfl, ?_⟩
    intro c hc
    have hall := List.all_takeWhile (l := l.reverse) (p := (· == '0'))
    rw [List.all_eq_true] at hall
    simpa using hall c hc
  have h2 : l = (l.reverse.dropWhile (· == '0')).reverse ++ (l.reverse.takeWhile (· == '0')).reverse := by
    rw [← List.reverse_append, h, List.reverse_reverse]
  unfold stripZ
  conv_lhs => rw [h2]
  congr 1
  rw [hrep, List.reverse_replicate, List.length_replicate]

theorem stripZ_mem (l : List Char) (c : Char) (h : c ∈ stripZ l) : c ∈ l := by
  unfold stripZ at h
  rw [List.mem_reverse] at h
  have := (List.dropWhile_sublist (· == '0')).mem h
  simpa using this

/-! ### the number parser on `digits [. digits] [e±digits]` -/

/-- `parseDec` after the optional sign -/
def parseU (neg : Bool) (l : List Char) : Option Rat :=
  let ip := l.takeWhile Char.isDigit
  let r1 := l.dropWhile Char.isDigit
  let (fp, r2) : List Char × List Char := match r1 with
    | '.' :: r => (r.takeWhile Char.isDigit, r.dropWhile Char.isDigit)
    | r => ([], r)
  if ip.isEmpty && fp.isEmpty then none else
  let mant : Rat := (digitsVal (ip ++ fp) : Rat) / (10 : Rat) ^ fp.length
  let ex : Option Int := match r2 with
    | [] => some 0
    | c :: r =>
      if c == 'e' || c == 'E' then
        let (eneg, r) : Bool × List Char := match r with
          | '-' :: t => (true, t)
          | '+' :: t => (false, t)
          | t => (false, t)
        if r.isEmpty || !r.all Char.isDigit then none
        else some (if eneg then -(digitsVal r : Int) else (digitsVal r : Int))
      else none
  ex.map fun e => (if neg then -1 else 1) * mant * pow10 e

theorem parseDec_minus (l : List Char) : parseDec ('-' :: l) = parseU true l := rfl

theorem parseDec_digit (c : Char) (l : List Char) (hc : c.isDigit = true) :
    parseDec (c :: l) = parseU false (c :: l) := by
  have h1 : c ≠ '-' := digit_ne_minus hc
  have h2 : c ≠ '+' := by rintro rfl; revert hc; decide
  unfold parseDec
  split
  rename_i x eneg r heq
  split at heq
  · rename_i h; simp at h; exact absurd h.1 h1
  · rename_i h; simp at h; exact absurd h.1 h2
  · cases heq; rfl

/-- the exponent part `e±dd` (or nothing) -/
def expPart : Option (Bool × List Char) → List Char
  | none => []
  | some (b, ed) => 'e' :: (if b then '-' else '+') :: ed

def expVal : Option (Bool × List Char) → Int
  | none => 0
  | some (b, ed) => if b then -(digitsVal ed : Int) else (digitsVal ed : Int)

theorem expPart_head (ex : Option (Bool × List Char)) : ∀ c ∈ (expPart ex).head?, c.isDigit = false ∧ c ≠ '.' := by
  intro c hc
  cases ex with
  | none => simp [expPart] at hc
  | some be => obtain ⟨b, ed⟩ := be; simp [expPart] at hc; subst hc; decide

theorem takeWhile_append_head {α} (p : α → Bool) (a rest : List α) (ha : ∀ x ∈ a, p x = true)
    (hr : ∀ x ∈ rest.head?, p x = false) : (a ++ rest).takeWhile p = a := by
  cases rest with
  | nil => simpa using takeWhile_eq_self_of_all p a ha
  | cons y b => exact takeWhile_append_stop p a y b ha (hr y (by simp))

theorem dropWhile_append_head {α} (p : α → Bool) (a rest : List α) (ha : ∀ x ∈ a, p x = true)
    (hr : ∀ x ∈ rest.head?, p x = false) : (a ++ rest).dropWhile p = rest := by
  cases rest with
  | nil => simpa using dropWhile_eq_nil_of_all p a ha
  | cons y b => exact dropWhile_append_stop p a y b ha (hr y (by simp))

theorem parseU_shape (neg : Bool) (ip fp : List Char) (ex : Option (Bool × List Char))
    (hip : ip ≠ []) (hipd : ∀ c ∈ ip, c.isDigit = true) (hfpd : ∀ c ∈ fp, c.isDigit = true)
    (hex : ∀ b ed, ex = some (b, ed) → ed ≠ [] ∧ ∀ c ∈ ed, c.isDigit = true) :
    parseU neg (ip ++ dotPart fp ++ expPart ex) =
      some ((if neg then -1 else 1) * ((digitsVal (ip ++ fp) : ℚ) / (10 : ℚ) ^ fp.length) * pow10 (expVal ex)) := by
  have hexh : ∀ x ∈ (expPart ex).head?, Char.isDigit x = false := fun x hx => (expPart_head ex x hx).1
  have hrest : ∀ x ∈ (dotPart fp ++ expPart ex).head?, Char.isDigit x = false := by
    intro x hx
    cases fp with
    | nil => simp only [dotPart, List.isEmpty_nil, if_true, List.nil_append] at hx; exact hexh x hx
    | cons f fs => simp [dotPart] at hx; subst hx; decide
  have hT : (ip ++ dotPart fp ++ expPart ex).takeWhile Char.isDigit = ip := by
    rw [List.append_assoc]; exact takeWhile_append_head _ _ _ hipd hrest
  have hD : (ip ++ dotPart fp ++ expPart ex).dropWhile Char.isDigit = dotPart fp ++ expPart ex := by
    rw [List.append_assoc]; exact dropWhile_append_head _ _ _ hipd hrest
  have hfrac : ((match dotPart fp ++ expPart ex with
      | '.' :: r => (r.takeWhile Char.isDigit, r.dropWhile Char.isDigit)
      | r => ([], r)) : List Char × List Char) = (fp, expPart ex) := by
    cases fp with
    | nil =>
      simp only [dotPart, List.isEmpty_nil, if_true, List.nil_append]
      split
      · rename_i r h
        have := (expPart_head ex '.' (by rw [h]; simp)).2
        exact absurd rfl this
      · rfl
    | cons f fs =>
      simp only [dotPart, List.isEmpty_cons, Bool.false_eq_true, if_false, List.cons_append]
      rw [← List.cons_append, takeWhile_append_head _ _ _ hfpd hexh, dropWhile_append_head _ _ _ hfpd hexh]
  have hipe : ip.isEmpty = false := by cases ip with
    | nil => exact absurd rfl hip
    | cons _ _ => rfl
  unfold parseU
  simp only [hT, hD, hfrac, hipe, Bool.false_and, Bool.false_eq_true, if_false]
  cases ex with
  | none => simp [expPart, expVal]
  | some be =>
    obtain ⟨b, ed⟩ := be
    obtain ⟨hne, hd⟩ := hex b ed rfl
    have hede : ed.isEmpty = false := by cases ed with
      | nil => exact absurd rfl hne
      | cons _ _ => rfl
    have hall : ed.all Char.isDigit = true := by rw [List.all_eq_true]; exact hd
    cases b <;> simp [expPart, expVal, hede, hall]

/-! ### the characters of `%.{p}g` are read back to the rounded value -/

theorem mant_strip (ip rest : List Char) :
    (digitsVal (ip ++ stripZ rest) : ℚ) / (10 : ℚ) ^ (stripZ rest).length =
      (digitsVal (ip ++ rest) : ℚ) / (10 : ℚ) ^ rest.length := by
  obtain ⟨z, hz⟩ := stripZ_spec rest
  have hlen : rest.length = (stripZ rest).length + z := by
    conv_lhs => rw [hz]
    simp
  have hv : digitsVal (ip ++ rest) = 10 ^ z * digitsVal (ip ++ stripZ rest) := by
    conv_lhs => rw [hz, ← List.append_assoc]
    rw [digitsVal_append, digitsVal_replicate_zero, List.length_replicate, Nat.add_zero]
  rw [hv, hlen, pow_add]
  push_cast
  have h10 : (10 : ℚ) ^ z ≠ 0 := by positivity
  have h11 : (10 : ℚ) ^ (stripZ rest).length ≠ 0 := by positivity
  field_simp

theorem expDigits_spec (n : Nat) :
    expDigits n ≠ [] ∧ (∀ c ∈ expDigits n, c.isDigit = true) ∧ digitsVal (expDigits n) = n := by
  unfold expDigits
  have hd := toDigits_digits n
  have hv := digitsVal_toDigits n
  have hne : Nat.toDigits 10 n ≠ [] := Nat.toDigits_ne_nil
  by_cases h : (Nat.toDigits 10 n).length < 2
  · simp only [h, if_true]
    refine ⟨by simp, ?_, ?_⟩
    · intro c hc
      rcases List.mem_cons.mp hc with rfl | hc
      · decide
      · exact hd c hc
    · have := digitsVal_append ['0'] (Nat.toDigits 10 n)
      simp only [List.singleton_append] at this
      rw [this, hv]
      have : digitsVal ['0'] = 0 := by decide
      rw [this]; simp
  · simp only [h, if_false]
    exact ⟨hne, hd, hv⟩

theorem parseU_spellPos (neg : Bool) (p : Nat) (hp : 1 ≤ p) (a : ℚ) (ha : 0 < a) :
    parseU neg (spellPos p a) = some ((if neg then -1 else 1) * sigRound p a) := by
  obtain ⟨hlo, hhi, hval⟩ := sigParts_spec p hp a ha
  rw [hval]
  unfold spellPos
  simp only []
  generalize (sigParts p a).1 = m at hlo hhi
  generalize (sigParts p a).2 = X
  have hlen := toDigits_length p hp m hlo hhi
  have hdig := toDigits_digits m
  have hv := digitsVal_toDigits m
  generalize Nat.toDigits 10 m = ds at hlen hdig hv
  have h10 : (10 : ℚ) ≠ 0 := by norm_num
  by_cases hsci : X < -4 ∨ (p : ℤ) ≤ X
  · simp only [hsci, if_true]
    obtain ⟨e1, e2, e3⟩ := expDigits_spec X.natAbs
    have hshape := parseU_shape neg (ds.take 1) (stripZ (ds.drop 1)) (some (decide (X < 0), expDigits X.natAbs))
      (by intro h; have := congrArg List.length h; rw [List.length_take, List.length_nil] at this; omega)
      (fun c hc => hdig c (List.mem_of_mem_take hc))
      (fun c hc => hdig c (List.mem_of_mem_drop (stripZ_mem _ c hc)))
      (by intro b ed h; cases h; exact ⟨e1, e2⟩)
    have hform : (if X < 0 then '-' else '+') = (if decide (X < 0) = true then '-' else '+') := by simp
    simp only [expPart] at hshape
    rw [hform, hshape, mant_strip, List.take_append_drop, hv]
    simp only [expVal, e3, List.length_drop, hlen, pow10_eq]
    congr 1
    have hX : (if decide (X < 0) = true then -((X.natAbs : ℕ) : ℤ) else ((X.natAbs : ℕ) : ℤ)) = X := by
      by_cases h : X < 0
      · simp only [h, decide_true, if_true]; omega
      · simp only [h, decide_false, Bool.false_eq_true, if_false]; omega
    rw [hX, zpow_sub₀ h10, show ((p : ℤ) - 1) = ((p - 1 : ℕ) : ℤ) by omega, zpow_natCast]
    ring
  · simp only [hsci, if_false]
    have hX1 : -4 ≤ X := by omega
    have hX2 : X < (p : ℤ) := by omega
    by_cases hneg : X < 0
    · simp only [hneg, if_true]
      set k := (-X).toNat - 1 with hk
      have hshape : parseU neg (['0'] ++ dotPart (List.replicate k '0' ++ stripZ ds) ++ []) = _ :=
        parseU_shape neg ['0'] (List.replicate k '0' ++ stripZ ds) none (by simp)
        (by intro c hc; simp at hc; subst hc; decide)
        (by
          intro c hc
          rcases List.mem_append.mp hc with h | h
          · rw [List.mem_replicate] at h; rw [h.2]; decide
          · exact hdig c (stripZ_mem _ c h))
        (by intro b ed h; cases h)
      rw [hshape]
      simp only [expVal, pow10_eq, zpow_zero, mul_one, List.length_append, List.length_replicate]
      congr 1
      have hz : ['0'] ++ (List.replicate k '0' ++ stripZ ds) = List.replicate (k + 1) '0' ++ stripZ ds := by
        rw [← List.append_assoc]; congr 1
      have hz2 : digitsVal (List.replicate (k + 1) '0' ++ ds) = m := by
        rw [digitsVal_append, digitsVal_replicate_zero, hv]; simp
      rw [hz, pow_add, ← div_div, div_right_comm, mant_strip, hz2, hlen, div_div, ← pow_add]
      have hkX : X - ((p : ℤ) - 1) = -(((p + k : ℕ)) : ℤ) := by
        have : ((-X).toNat : ℤ) = -X := Int.toNat_of_nonneg (by omega)
        have hk1 : 1 ≤ (-X).toNat := by omega
        push_cast
        omega
      rw [hkX, zpow_neg, zpow_natCast]
      ring
    · simp only [hneg, if_false]
      have hXn : ((X.toNat : ℕ) : ℤ) = X := Int.toNat_of_nonneg (by omega)
      have hXp : X.toNat + 1 ≤ p := by omega
      have hshape : parseU neg (ds.take (X.toNat + 1) ++ dotPart (stripZ (ds.drop (X.toNat + 1))) ++ []) = _ :=
        parseU_shape neg (ds.take (X.toNat + 1)) (stripZ (ds.drop (X.toNat + 1))) none
        (by intro h; have := congrArg List.length h; rw [List.length_take, List.length_nil] at this; omega)
        (fun c hc => hdig c (List.mem_of_mem_take hc))
        (fun c hc => hdig c (List.mem_of_mem_drop (stripZ_mem _ c hc)))
        (by intro b ed h; cases h)
      rw [hshape, mant_strip, List.take_append_drop, hv]
      simp only [expVal, pow10_eq, zpow_zero, mul_one, List.length_drop, hlen]
      congr 1
      have hkX : X - ((p : ℤ) - 1) = -(((p - (X.toNat + 1) : ℕ)) : ℤ) := by omega
      rw [hkX, zpow_neg, zpow_natCast]
      ring

/-- `'%.{p}g' % q` is read back (pandas' number parser, `parseDec`) to exactly the `p`-digit rounding of `q` -/
theorem parseDec_fmtGL (p : Nat) (hp : 1 ≤ p) (q : ℚ) : parseDec (fmtGL p q) = some (sigRound p q) := by
  rcases lt_trichotomy q 0 with h | h | h
  · have hpos : 0 < -q := by linarith
    have e2 : (q == 0) = false := by simpa using ne_of_lt h
    unfold fmtGL
    simp only [e2, h, Bool.false_eq_true, if_false, if_true]
    rw [parseDec_minus, parseU_spellPos true p hp _ hpos, sigRound_of_neg p q h]
    simp
  · subst h
    rw [sigRound_zero]
    unfold fmtGL
    simp only [beq_self_eq_true, if_true]
    rw [parseDec_digit '0' [] (by decide)]
    have := parseU_shape false ['0'] [] none (by simp) (by intro c hc; simp at hc; subst hc; decide) (by simp)
      (by intro b ed h; cases h)
    simp only [dotPart, expPart, List.isEmpty_nil, if_true, List.append_nil] at this
    rw [this]
    have : digitsVal ['0'] = 0 := by decide
    simp [this, expVal, pow10_eq]
  · have e2 : (q == 0) = false := by simpa using ne_of_gt h
    have n2 : ¬ q < 0 := not_lt.mpr h.le
    unfold fmtGL
    simp only [e2, n2, Bool.false_eq_true, if_false]
    have hU := parseU_spellPos false p hp q h
    -- the first character is a digit
    have hhead : ∃ c l, spellPos p q = c :: l ∧ c.isDigit = true := by
      obtain ⟨hlo, hhi, _⟩ := sigParts_spec p hp q h
      have hlen := toDigits_length p hp _ hlo hhi
      have hdig := toDigits_digits (sigParts p q).1
      unfold spellPos
      simp only []
      generalize Nat.toDigits 10 (sigParts p q).1 = ds at hlen hdig
      cases ds with
      | nil => simp at hlen; omega
      | cons d ds' =>
        have hd : d.isDigit = true := hdig d (by simp)
        split
        · exact ⟨d, _, rfl, hd⟩
        · split
          · exact ⟨'0', _, rfl, by decide⟩
          · exact ⟨d, _, rfl, hd⟩
    obtain ⟨c, l, hcl, hc⟩ := hhead
    rw [hcl, parseDec_digit c l hc, ← hcl, hU]
    simp

theorem parseDec_fmt6g (q : ℚ) : parseDec (fmt6g q).toList = some (sixg q) := by
  unfold fmt6g fmtG sixg
  rw [String.toList_ofList]
  exact parseDec_fmtGL SIG_DIGITS (by decide) q

theorem fmt6g_sixg (q : ℚ) : fmt6g (sixg q) = fmt6g q := by
  unfold fmt6g fmtG sixg
  rw [fmtGL_sigRound SIG_DIGITS (by decide) q]

/-! ### when the characters are an integer literal: the canonical decimal of that integer -/

theorem toDigits_mul_pow10 (n : Nat) (hn : 0 < n) (z : Nat) :
    Nat.toDigits 10 (n * 10 ^ z) = Nat.toDigits 10 n ++ List.replicate z '0' := by
  induction z with
  | zero => simp
  | succ z ih =>
    have hpos : 0 < n * 10 ^ z := Nat.mul_pos hn (by positivity)
    have h := @Nat.toDigits_append_toDigits 10 (n * 10 ^ z) 0 (by norm_num) hpos (by norm_num)
    rw [Nat.toDigits_zero, ih] at h
    rw [show n * 10 ^ (z + 1) = 10 * (n * 10 ^ z) + 0 by ring, ← h, List.append_assoc, List.replicate_succ']

theorem spellPos_head (p : Nat) (hp : 1 ≤ p) (a : ℚ) (ha : 0 < a) :
    ∃ c l, spellPos p a = c :: l ∧ c.isDigit = true := by
  obtain ⟨hlo, hhi, _⟩ := sigParts_spec p hp a ha
  have hlen := toDigits_length p hp _ hlo hhi
  have hdig := toDigits_digits (sigParts p a).1
  unfold spellPos
  simp only []
  generalize Nat.toDigits 10 (sigParts p a).1 = ds at hlen hdig
  cases ds with
  | nil => simp at hlen; omega
  | cons d ds' =>
    have hd : d.isDigit = true := hdig d (by simp)
    split
    · exact ⟨d, _, rfl, hd⟩
    · split
      · exact ⟨'0', _, rfl, by decide⟩
      · exact ⟨d, _, rfl, hd⟩

theorem dotPart_mem (fp : List Char) (h : fp ≠ []) : '.' ∈ dotPart fp := by
  cases fp with
  | nil => exact absurd rfl h
  | cons f fs => simp [dotPart]

/-- all characters are digits only for an integer below `10^p`, printed without leading zeros -/
theorem spellPos_int (p : Nat) (hp : 1 ≤ p) (a : ℚ) (ha : 0 < a)
    (h : ∀ c ∈ spellPos p a, c.isDigit = true) :
    ∃ n : ℕ, 0 < n ∧ spellPos p a = Nat.toDigits 10 n ∧ (n : ℚ) = sigRound p a := by
  obtain ⟨hlo, hhi, hval⟩ := sigParts_spec p hp a ha
  rw [hval]
  unfold spellPos at h ⊢
  simp only [] at h ⊢
  generalize (sigParts p a).1 = m at hlo hhi h ⊢
  generalize (sigParts p a).2 = X at h ⊢
  have hlen := toDigits_length p hp m hlo hhi
  have hv := digitsVal_toDigits m
  have hm1 : 1 ≤ m := le_trans (Nat.one_le_pow _ _ (by norm_num)) hlo
  by_cases hsci : X < -4 ∨ (p : ℤ) ≤ X
  · simp only [hsci, if_true] at h
    have := h 'e' (by simp)
    exact absurd this (by decide)
  · simp only [hsci, if_false] at h ⊢
    by_cases hneg : X < 0
    · simp only [hneg, if_true] at h
      have hne : List.replicate ((-X).toNat - 1) '0' ++ stripZ (Nat.toDigits 10 m) ≠ [] := by
        intro h0
        have hs : stripZ (Nat.toDigits 10 m) = [] := (List.append_eq_nil_iff.mp h0).2
        obtain ⟨z, hz⟩ := stripZ_spec (Nat.toDigits 10 m)
        rw [hs, List.nil_append] at hz
        rw [hz, digitsVal_replicate_zero] at hv
        omega
      have := h '.' (by
        simp only [List.append_nil, List.mem_append]
        right; exact dotPart_mem _ hne)
      exact absurd this (by decide)
    · simp only [hneg, if_false] at h ⊢
      have hXn : ((X.toNat : ℕ) : ℤ) = X := Int.toNat_of_nonneg (by omega)
      have hXp : X.toNat + 1 ≤ p := by omega
      have hs : stripZ ((Nat.toDigits 10 m).drop (X.toNat + 1)) = [] := by
        by_contra hne
        have := h '.' (by
          simp only [List.append_nil, List.mem_append]
          right; exact dotPart_mem _ hne)
        exact absurd this (by decide)
      obtain ⟨z, hz⟩ := stripZ_spec ((Nat.toDigits 10 m).drop (X.toNat + 1))
      rw [hs, List.nil_append] at hz
      have hzlen : z = p - (X.toNat + 1) := by
        have := congrArg List.length hz
        simp only [List.length_drop, List.length_replicate, hlen] at this
        omega
      set ip := (Nat.toDigits 10 m).take (X.toNat + 1) with hip
      have hsplit : Nat.toDigits 10 m = ip ++ List.replicate z '0' := by
        rw [← hz, hip, List.take_append_drop]
      set n := digitsVal ip with hn
      have hmn : m = n * 10 ^ z := by
        have := congrArg digitsVal hsplit
        rw [hv, digitsVal_append, digitsVal_replicate_zero, List.length_replicate] at this
        rw [this]; ring
      have hnpos : 0 < n := by
        rcases Nat.eq_zero_or_pos n with h0 | h0
        · rw [h0] at hmn; omega
        · exact h0
      have hipn : ip = Nat.toDigits 10 n := by
        have h2 := toDigits_mul_pow10 n hnpos z
        rw [← hmn, hsplit] at h2
        exact List.append_cancel_right h2
      refine ⟨n, hnpos, ?_, ?_⟩
      · rw [hs]; simp [dotPart, hipn]
      · rw [hmn]
        have hkX : X - ((p : ℤ) - 1) = -((z : ℕ) : ℤ) := by omega
        rw [hkX, zpow_neg, zpow_natCast]
        push_cast
        have h10 : (10 : ℚ) ^ z ≠ 0 := by positivity
        field_simp

theorem isIntLit_digit_head (c : Char) (l : List Char) (hc : c.isDigit = true) (h : isIntLit (c :: l) = true) :
    ∀ x ∈ c :: l, x.isDigit = true := by
  have hcm : c ≠ '-' := digit_ne_minus hc
  unfold isIntLit at h
  split at h
  · rename_i ds heq
    exact absurd (List.cons.inj heq).1 hcm
  · simp only [List.isEmpty_cons, Bool.not_false, Bool.true_and, List.all_eq_true] at h
    exact h

/-- if `'%.{p}g' % q` is an integer literal, it is the canonical decimal of an integer equal to the rounded value -/
theorem fmtGL_int (p : Nat) (hp : 1 ≤ p) (q : ℚ) (h : isIntLit (fmtGL p q) = true) :
    ∃ i : ℤ, fmtGL p q = (toString i).toList ∧ (i : ℚ) = sigRound p q := by
  rcases lt_trichotomy q 0 with hq | hq | hq
  · have hpos : 0 < -q := by linarith
    have e2 : (q == 0) = false := by simpa using ne_of_lt hq
    unfold fmtGL at h ⊢
    simp only [e2, hq, Bool.false_eq_true, if_false, if_true] at h ⊢
    have hall : ∀ c ∈ spellPos p (-q), c.isDigit = true := by
      unfold isIntLit at h
      simp only [List.all_eq_true, Bool.and_eq_true] at h
      exact h.2
    obtain ⟨n, hnpos, hsp, hnv⟩ := spellPos_int p hp (-q) hpos hall
    refine ⟨-(n : ℤ), ?_, ?_⟩
    · rw [toString_toList_neg _ (by omega), hsp]
      congr 2
      omega
    · rw [sigRound_of_neg p q hq, ← hnv]; push_cast; rfl
  · subst hq
    refine ⟨0, ?_, ?_⟩
    · unfold fmtGL; simp only [beq_self_eq_true, if_true]; decide
    · rw [sigRound_zero]; simp
  · have e2 : (q == 0) = false := by simpa using ne_of_gt hq
    have n2 : ¬ q < 0 := not_lt.mpr hq.le
    unfold fmtGL at h ⊢
    simp only [e2, n2, Bool.false_eq_true, if_false] at h ⊢
    obtain ⟨c, l, hcl, hc⟩ := spellPos_head p hp q hq
    have hall : ∀ x ∈ spellPos p q, x.isDigit = true := by
      rw [hcl] at h ⊢
      exact isIntLit_digit_head c l hc h
    obtain ⟨n, hnpos, hsp, hnv⟩ := spellPos_int p hp q hq hall
    refine ⟨(n : ℤ), ?_, ?_⟩
    · rw [toString_toList_nonneg _ (by omega), hsp]; simp
    · rw [← hnv]; simp

/-- a float cell whose spelling is an integer literal comes back as that integer, prints identically -/
theorem fmt6g_int (q : ℚ) (h : isIntLit (fmt6g q).toList = true) :
    ∃ i : ℤ, fmt6g q = toString i ∧ parseInt (fmt6g q) = some i ∧ (i : ℚ) = sixg q := by
  unfold fmt6g fmtG at h
  rw [String.toList_ofList] at h
  obtain ⟨i, h1, h2⟩ := fmtGL_int SIG_DIGITS (by decide) q h
  have hs : fmt6g q = toString i := by
    unfold fmt6g fmtG
    rw [h1, String.ofList_toList]
  exact ⟨i, hs, by rw [hs, parseInt_toString], h2⟩

theorem na_strings_not_numbers : ∀ s ∈ NA_STRINGS, parseDec s.toList = none := by
  decide

theorem fmt6g_not_na (q : ℚ) : isNA (fmt6g q) = false := by
  unfold isNA
  rw [List.contains_eq_mem, decide_eq_false_iff_not]
  intro h
  have := na_strings_not_numbers _ h
  rw [parseDec_fmt6g] at this
  exact absurd this (by simp)

end CnvVerif.Fmt
