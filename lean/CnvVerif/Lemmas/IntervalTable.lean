/-
  Table-level (multi-chromosome) versions of the C06 theorems: the pandas-style wrappers
  (`sort_values`, `groupby(sort=False)`, the stable re-sort of chromosomes, `by_shared_chroms`,
  `by_ranges`) around the per-chromosome algorithms preserve the per-chromosome statements.
-/
import CnvVerif.Model.Interval
import CnvVerif.Model.IntervalSpec
import CnvVerif.Lemmas.Interval
import CnvVerif.Lemmas.Interval2
import CnvVerif.Lemmas.Ranges
namespace CnvVerif

/-! ### the two comparison functions are total preorders -/

theorem it_string_trichotomy (a b : String) : a < b ∨ a = b ∨ b < a := by
  by_cases h1 : a < b
  · exact Or.inl h1
  · by_cases h2 : b < a
    · exact Or.inr (Or.inr h2)
    · exact Or.inr (Or.inl (String.le_antisymm (String.not_lt.mp h2) (String.not_lt.mp h1)))

theorem it_lexLe_iff (a b : Row) :
    lexLe a b = true ↔
      a.chrom < b.chrom ∨ (a.chrom = b.chrom ∧ (a.s < b.s ∨ (a.s = b.s ∧ a.e ≤ b.e))) := by
  simp only [lexLe, Bool.or_eq_true, Bool.and_eq_true, beq_iff_eq, decide_eq_true_eq]

theorem it_lexLe_total (a b : Row) : (lexLe a b || lexLe b a) = true := by
  rw [Bool.or_eq_true, it_lexLe_iff, it_lexLe_iff]
  rcases it_string_trichotomy a.chrom b.chrom with h | h | h
  · left; left; exact h
  · by_cases h1 : a.s < b.s
    · left; right; exact ⟨h, Or.inl h1⟩
    · by_cases h2 : b.s < a.s
      · right; right; exact ⟨h.symm, Or.inl h2⟩
      · have hs : a.s = b.s := by omega
        by_cases h3 : a.e ≤ b.e
        · left; right; exact ⟨h, Or.inr ⟨hs, h3⟩⟩
        · right; right; exact ⟨h.symm, Or.inr ⟨hs.symm, by omega⟩⟩
  · right; left; exact h

theorem it_lexLe_trans (a b c : Row) (h1 : lexLe a b = true) (h2 : lexLe b c = true) :
    lexLe a c = true := by
  rw [it_lexLe_iff] at *
  rcases h1 with h1 | ⟨k1, h1⟩ <;> rcases h2 with h2 | ⟨k2, h2⟩
  · left; exact String.lt_trans h1 h2
  · left; rw [← k2]; exact h1
  · left; rw [k1]; exact h2
  · right
    refine ⟨k1.trans k2, ?_⟩
    rcases h1 with h1 | ⟨h1, h1'⟩ <;> rcases h2 with h2 | ⟨h2, h2'⟩
    · left; omega
    · left; omega
    · left; omega
    · right; exact ⟨by omega, by omega⟩

theorem it_sortLex_sorted (t : Table) : (sortLex t).Pairwise (fun a b => lexLe a b = true) :=
  List.pairwise_mergeSort it_lexLe_trans it_lexLe_total t

theorem it_chromKeyLe_iff (a b : Nat × String) :
    chromKeyLe a b = true ↔ a.1 < b.1 ∨ (a.1 = b.1 ∧ a.2 ≤ b.2) := by
  simp [chromKeyLe]

theorem it_chromOnlyLe_total (a b : Row) : (chromOnlyLe a b || chromOnlyLe b a) = true := by
  simp only [chromOnlyLe, Bool.or_eq_true, it_chromKeyLe_iff]
  rcases Nat.lt_trichotomy (sorterChrom a.chrom).1 (sorterChrom b.chrom).1 with h | h | h
  · left; left; exact h
  · rcases String.le_total (sorterChrom a.chrom).2 (sorterChrom b.chrom).2 with h2 | h2
    · left; right; exact ⟨h, h2⟩
    · right; right; exact ⟨h.symm, h2⟩
  · right; left; exact h

theorem it_chromOnlyLe_trans (a b c : Row) (h1 : chromOnlyLe a b = true)
    (h2 : chromOnlyLe b c = true) : chromOnlyLe a c = true := by
  simp only [chromOnlyLe, it_chromKeyLe_iff] at *
  rcases h1 with h1 | ⟨h1, h1'⟩ <;> rcases h2 with h2 | ⟨h2, h2'⟩
  · left; omega
  · left; omega
  · left; omega
  · right; exact ⟨by omega, String.le_trans h1' h2'⟩

theorem it_chromOnlyLe_same (a b : Row) (h : a.chrom = b.chrom) : chromOnlyLe a b = true := by
  rw [chromOnlyLe, it_chromKeyLe_iff, h]
  right; exact ⟨rfl, String.le_refl _⟩

/-! ### coverage of one chromosome's rows only depends on membership -/

theorem cov_rowsOf (t : Table) (c : String) (p : Int) :
    cov (rowsOf t c) p ↔ ∃ r ∈ t, r.chrom = c ∧ r.s ≤ p ∧ p < r.e := by
  simp only [cov, rowsOf, List.mem_filter, beq_iff_eq]
  constructor
  · rintro ⟨r, ⟨h1, h2⟩, h3⟩; exact ⟨r, h1, h2, h3⟩
  · rintro ⟨r, h1, h2, h3⟩; exact ⟨r, ⟨h1, h2⟩, h3⟩

theorem rowsOf_chrom (t : Table) (c : String) : ∀ r ∈ rowsOf t c, r.chrom = c := by
  intro r hr
  simpa using (List.mem_filter.mp hr).2

theorem rowsOf_idem (t : Table) (c : String) : rowsOf (rowsOf t c) c = rowsOf t c := by
  unfold rowsOf
  rw [List.filter_filter]
  simp

theorem rowsOf_eq_self (t : Table) (c : String) (h : ∀ r ∈ t, r.chrom = c) : rowsOf t c = t := by
  unfold rowsOf
  apply List.filter_eq_self.mpr
  intro r hr
  simp [h r hr]

theorem rowsOf_eq_nil (t : Table) (c : String) (h : ∀ r ∈ t, r.chrom ≠ c) : rowsOf t c = [] := by
  unfold rowsOf
  apply List.filter_eq_nil_iff.mpr
  intro r hr
  simp [h r hr]

/-- the stable re-sort of chromosomes keeps every chromosome's rows in their relative order -/
theorem rowsOf_resortChrom (X : Table) (c : String) : rowsOf (resortChrom X) c = rowsOf X c := by
  have hpw : (rowsOf X c).Pairwise (fun a b => chromOnlyLe a b = true) := by
    apply List.Pairwise.imp_of_mem (R := fun _ _ => True)
    · intro a b ha hb _
      exact it_chromOnlyLe_same a b ((rowsOf_chrom X c a ha).trans (rowsOf_chrom X c b hb).symm)
    · exact List.pairwise_of_forall (fun _ _ => trivial)
  have h1 : (rowsOf X c).Sublist (resortChrom X) :=
    List.sublist_mergeSort it_chromOnlyLe_trans it_chromOnlyLe_total hpw List.filter_sublist
  have h2 : (rowsOf (rowsOf X c) c).Sublist (rowsOf (resortChrom X) c) := h1.filter _
  rw [rowsOf_idem] at h2
  have h3 : (rowsOf (resortChrom X) c).Perm (rowsOf X c) := (List.mergeSort_perm _ _).filter _
  exact (h2.eq_of_length h3.length_eq.symm).symm

/-- `sort_values` leaves every chromosome's rows sorted by start -/
theorem rowsOf_sortLex_sorted (t : Table) (c : String) : StartSorted (rowsOf (sortLex t) c) := by
  have h := (it_sortLex_sorted t).filter (fun r => r.chrom == c)
  refine List.Pairwise.imp_of_mem ?_ h
  intro a b ha hb hab
  have hac := rowsOf_chrom _ c a ha
  have hbc := rowsOf_chrom _ c b hb
  rw [it_lexLe_iff, hac, hbc] at hab
  rcases hab with h | ⟨_, h⟩
  · exact absurd h (String.lt_irrefl _)
  · omega

theorem mem_rowsOf_sortLex (t : Table) (c : String) (r : Row) :
    r ∈ rowsOf (sortLex t) c ↔ r ∈ rowsOf t c := by
  simp only [rowsOf, List.mem_filter, sortLex, List.mem_mergeSort]

/-! ### `groupby(sort=False)` + concatenation -/

theorem it_nodup_eraseDups (l : List String) : l.eraseDups.Nodup := by
  match l with
  | [] => simp
  | a :: l =>
    have hlen : (l.filter (fun b => !b == a)).length < (a :: l).length :=
      Nat.lt_succ_of_le (List.length_filter_le _ _)
    rw [List.eraseDups_cons, List.nodup_cons]
    refine ⟨?_, it_nodup_eraseDups _⟩
    rw [List.mem_eraseDups, List.mem_filter]
    simp
termination_by l.length

theorem mem_chromsInOrder_tbl (t : Table) (c : String) : c ∈ chromsInOrder t ↔ ∃ r ∈ t, r.chrom = c := by
  simp [chromsInOrder, List.mem_eraseDups]

theorem flatMap_keys_filter (f : Table → Table) (S : Table)
    (hf : ∀ c l, (∀ r ∈ l, r.chrom = c) → ∀ r ∈ f l, r.chrom = c) (c : String)
    (ks : List String) (hks : ks.Nodup) :
    rowsOf (ks.flatMap (fun k => f (rowsOf S k))) c = if c ∈ ks then f (rowsOf S c) else [] := by
  induction ks with
  | nil => rfl
  | cons k ks ih =>
    obtain ⟨hk, hks'⟩ := List.nodup_cons.mp hks
    have ih := ih hks'
    unfold rowsOf at ih ⊢
    rw [List.flatMap_cons, List.filter_append, ih]
    by_cases hkc : k = c
    · subst hkc
      have : (f (S.filter (fun r => r.chrom == k))).filter (fun r => r.chrom == k) =
          f (S.filter (fun r => r.chrom == k)) :=
        rowsOf_eq_self _ k (hf k _ (rowsOf_chrom S k))
      simp [this, hk]
    · have : (f (S.filter (fun r => r.chrom == k))).filter (fun r => r.chrom == c) = [] :=
        rowsOf_eq_nil _ c (fun r hr => by
          have := hf k _ (rowsOf_chrom S k) r hr
          rw [this]; exact hkc)
      have hck : ¬ c = k := fun h => hkc h.symm
      simp [this, hck]

/-- per-chromosome processing of the groups, seen from one chromosome -/
theorem rowsOf_groups (f : Table → Table) (S : Table) (hnil : f [] = [])
    (hf : ∀ c l, (∀ r ∈ l, r.chrom = c) → ∀ r ∈ f l, r.chrom = c) (c : String) :
    rowsOf ((groupByChrom S).flatMap (fun g => f g.2)) c = f (rowsOf S c) := by
  unfold groupByChrom
  rw [List.flatMap_map]
  have := flatMap_keys_filter f S hf c (chromsInOrder S) (it_nodup_eraseDups _)
  unfold rowsOf at this ⊢
  rw [this]
  split
  · rfl
  · rename_i hc
    have : S.filter (fun r => r.chrom == c) = [] :=
      rowsOf_eq_nil S c (fun r hr h => hc ((mem_chromsInOrder_tbl S c).mpr ⟨r, hr, h⟩))
    rw [this, hnil]

theorem mergeGo_chrom_tbl (bp : Int) (cur : Row) (genes : List String) (l : List Row) (c : String)
    (hc : cur.chrom = c) (hl : ∀ r ∈ l, r.chrom = c) : ∀ r ∈ mergeGo bp cur genes l, r.chrom = c := by
  induction l generalizing cur genes with
  | nil =>
    intro r hr
    simp only [mergeGo, List.mem_singleton] at hr
    subst hr; exact hc
  | cons x xs ih =>
    unfold mergeGo
    have hx : x.chrom = c := hl x (by simp)
    have hxs : ∀ r ∈ xs, r.chrom = c := fun r hr => hl r (by simp [hr])
    split
    · intro r hr
      rcases List.mem_cons.mp hr with h | h
      · subst h; exact hc
      · exact ih x _ hx hxs r h
    · exact ih _ _ hc hxs

theorem mergeChrom_chrom_tbl (bp : Int) (c : String) (l : List Row) (hl : ∀ r ∈ l, r.chrom = c) :
    ∀ r ∈ mergeChrom bp l, r.chrom = c := by
  cases l with
  | nil => intro r hr; simp [mergeChrom] at hr
  | cons x xs =>
    exact mergeGo_chrom_tbl bp x _ xs c (hl x (by simp)) (fun r hr => hl r (by simp [hr]))

/-- the general (sorting) path of `merge`, seen from one chromosome -/
theorem rowsOf_mergeGeneral (bp : Int) (t : Table) (c : String) :
    rowsOf (resortChrom ((groupByChrom (sortLex t)).flatMap (fun g => mergeChrom bp g.2))) c =
      mergeChrom bp (rowsOf (sortLex t) c) := by
  rw [rowsOf_resortChrom]
  exact rowsOf_groups (mergeChrom bp) (sortLex t) rfl (fun c l => mergeChrom_chrom_tbl bp c l) c

/-! ### the fast path of `merge`: every start exceeds the running maximum of the earlier ends -/

theorem gapsGo_pairwise (m : Int) (l : List Row)
    (h : ((l.map (·.s)).zip (m :: cummaxGo m (l.map (·.e)))).all (fun p => p.1 - p.2 > 0) = true) :
    (∀ r ∈ l, m < r.s) ∧ l.Pairwise (fun a b => a.e < b.s) := by
  induction l generalizing m with
  | nil => exact ⟨by simp, List.Pairwise.nil⟩
  | cons y ys ih =>
    simp only [List.map_cons, List.zip_cons_cons, cummaxGo, List.all_cons, Bool.and_eq_true,
      decide_eq_true_eq] at h
    obtain ⟨h1, h2⟩ := ih (max m y.e) h.2
    refine ⟨?_, List.pairwise_cons.mpr ⟨?_, h2⟩⟩
    · intro r hr
      rcases List.mem_cons.mp hr with rfl | hr
      · omega
      · have := h1 r hr; omega
    · intro r hr
      have := h1 r hr; omega

theorem gapSizes_pairwise (t : Table) (h : (gapSizes t).all (fun g => g > -0) = true) :
    t.Pairwise (fun a b => a.e < b.s) := by
  cases t with
  | nil => exact List.Pairwise.nil
  | cons x xs =>
    simp only [gapSizes, List.map_cons, List.drop_one, List.tail_cons, cummax, List.all_map] at h
    have h' : (((xs.map (·.s)).zip (x.e :: cummaxGo x.e (xs.map (·.e)))).all
        (fun p => p.1 - p.2 > 0)) = true := by
      rw [← h]
      rfl
    obtain ⟨h1, h2⟩ := gapsGo_pairwise x.e xs h'
    exact List.pairwise_cons.mpr ⟨fun r hr => h1 r hr, h2⟩

/-- merge never loses or invents a base on any chromosome, for every `bp ≥ 0`, whatever the row
    order of the table and however many chromosomes it holds -/
theorem mergeTable_cov (bp : Int) (hbp : 0 ≤ bp) (t : Table) (c : String) (p : Int) :
    cov (rowsOf (mergeTable bp t) c) p ↔ cov (rowsOf t c) p := by
  unfold mergeTable
  split
  · rfl
  · split
    · rfl
    · simp only
      rw [rowsOf_mergeGeneral, mergeChrom_cov bp hbp _ (rowsOf_sortLex_sorted t c)]
      simp only [cov, mem_rowsOf_sortLex]

/-- merge (bp = 0) leaves, on every chromosome, sorted positive-length disjoint non-abutting rows -/
theorem mergeTable_canon (t : Table) (hp : ∀ r ∈ t, r.s < r.e) (c : String) :
    Canon (rowsOf (mergeTable 0 t) c) := by
  unfold mergeTable
  split
  · rename_i he
    have : t = [] := by simpa using he
    subst this
    exact ⟨by simp [rowsOf], by simp [rowsOf]⟩
  · split
    · rename_i hg
      exact ⟨fun r hr => hp r (List.mem_filter.mp hr).1,
        (gapSizes_pairwise t hg).sublist List.filter_sublist⟩
    · simp only
      rw [rowsOf_mergeGeneral]
      apply mergeChrom_canon _ (rowsOf_sortLex_sorted t c)
      intro r hr
      rw [mem_rowsOf_sortLex] at hr
      exact hp r (List.mem_filter.mp hr).1

/-! ### `by_ranges` over several chromosomes -/
theorem selectRange_nil (qs qe : Option Int) (mode : Mode) : selectRange [] qs qe mode = [] := by
  cases mode <;> simp [selectRange, idxSelect, trimRows]

theorem chromsInOrder_single (t : Table) (c0 : String) (h : chromsInOrder t = [c0]) :
    ∀ r ∈ t, r.chrom = c0 := by
  intro r hr
  have : r.chrom ∈ chromsInOrder t := (mem_chromsInOrder_tbl t _).mpr ⟨r, hr, rfl⟩
  rw [h] at this
  simpa using this

/-- one chromosome group of `by_shared_chroms(keep_empty=True)` followed by the per-bin selection -/
def grpSel (om : Table) (mode : Mode) (g : String × Table) : List (Row × Table) :=
  g.2.map (fun b => (b, selectRange (rowsOf om g.1) (some b.s) (some b.e) mode))

theorem byRangesDf_general (om a : Table) (mode : Mode)
    (hc : ¬ ((chromsInOrder a).length == 1 && (chromsInOrder om).length == 1 &&
      chromsInOrder a == chromsInOrder om) = true) :
    byRangesDf om a mode true = (groupByChrom a).flatMap (grpSel om mode) := by
  unfold byRangesDf bySharedChroms
  simp only
  rw [if_neg hc]
  generalize groupByChrom a = G
  simp only [if_true]
  induction G with
  | nil => rfl
  | cons g G ih =>
    rw [List.filterMap_cons]
    by_cases he : (om.filter (fun r => r.chrom == g.1)).isEmpty = true
    · have hnil : rowsOf om g.1 = [] := by simpa [rowsOf] using he
      simp only [he, Bool.not_true, Bool.false_eq_true, if_false, List.flatMap_cons, ih]
      congr 1
      simp only [grpSel, hnil, selectRange_nil]
    · simp only [he, Bool.not_false, if_true, List.flatMap_cons, ih]
      rfl

theorem mem_byRangesDf (om a : Table) (mode : Mode) (q : Row × Table) :
    q ∈ byRangesDf om a mode true ↔
      ∃ k ∈ a, q = (k, selectRange (rowsOf om k.chrom) (some k.s) (some k.e) mode) := by
  by_cases hc : ((chromsInOrder a).length == 1 && (chromsInOrder om).length == 1 &&
      chromsInOrder a == chromsInOrder om) = true
  · unfold byRangesDf bySharedChroms
    simp only
    rw [if_pos hc]
    simp only [Bool.and_eq_true, beq_iff_eq] at hc
    obtain ⟨⟨h1, h2⟩, h3⟩ := hc
    obtain ⟨c0, hc0⟩ := List.length_eq_one_iff.mp h1
    have ha := chromsInOrder_single a c0 hc0
    have ho := chromsInOrder_single om c0 (h3 ▸ hc0)
    simp only [List.flatMap_cons, List.flatMap_nil, List.append_nil, List.mem_map]
    constructor
    · rintro ⟨k, hk, rfl⟩; refine ⟨k, hk, ?_⟩; rw [ha k hk, rowsOf_eq_self om c0 ho]
    · rintro ⟨k, hk, rfl⟩; refine ⟨k, hk, ?_⟩; rw [ha k hk, rowsOf_eq_self om c0 ho]
  · rw [byRangesDf_general om a mode hc]
    simp only [List.mem_flatMap, groupByChrom, List.mem_map, grpSel]
    constructor
    · rintro ⟨g, ⟨c, hc, rfl⟩, k, hk, rfl⟩
      have hkc : k.chrom = c := rowsOf_chrom a c k hk
      exact ⟨k, (List.mem_filter.mp hk).1, by rw [hkc]⟩
    · rintro ⟨k, hk, rfl⟩
      refine ⟨(k.chrom, a.filter (fun r => r.chrom == k.chrom)),
        ⟨k.chrom, (mem_chromsInOrder_tbl a _).mpr ⟨k, hk, rfl⟩, rfl⟩, k, ?_, rfl⟩
      exact List.mem_filter.mpr ⟨hk, by simp⟩

/-! ### subtract -/

theorem mergeTable_wf (b : Table) (hb : ∀ r ∈ b, 0 ≤ r.s ∧ r.s < r.e) (c : String) :
    WFTable (rowsOf (mergeTable 0 b) c) := by
  have hcan := mergeTable_canon b (fun r hr => (hb r hr).2) c
  refine ⟨?_, ?_⟩
  · refine List.Pairwise.imp_of_mem ?_ hcan.2
    intro x y hx _ hxy
    have := hcan.1 x hx
    omega
  · intro r hr
    have hpos := hcan.1 r hr
    refine ⟨?_, hpos⟩
    have hcov : cov (rowsOf (mergeTable 0 b) c) r.s := ⟨r, hr, Int.le_refl _, hpos⟩
    obtain ⟨x, hx, h1, _⟩ := (mergeTable_cov 0 (Int.le_refl 0) b c r.s).mp hcov
    have := (hb x (List.mem_filter.mp hx).1).1
    omega

/-- one keeper of `a` against the merged exclusions of its chromosome -/
theorem subtract_keeper (b : Table) (hb : ∀ r ∈ b, 0 ≤ r.s ∧ r.s < r.e) (k : Row) (hk : 0 ≤ k.s)
    (p : Int) :
    cov (subtractRow k
        (selectRange (rowsOf (mergeTable 0 b) k.chrom) (some k.s) (some k.e) .outer)) p ↔
      (k.s ≤ p ∧ p < k.e) ∧ ¬ cov (rowsOf b k.chrom) p := by
  have hcan := mergeTable_canon b (fun r hr => (hb r hr).2) k.chrom
  rw [selectRange_outer _ (mergeTable_wf b hb k.chrom) k.s k.e hk]
  have hc := hcan.filter (fun x => x.e > k.s && x.s < k.e)
  have ho : ∀ x ∈ (rowsOf (mergeTable 0 b) k.chrom).filter (fun x => x.e > k.s && x.s < k.e),
      x.e > k.s ∧ x.s < k.e := by
    intro x hx
    have := (List.mem_filter.mp hx).2
    simpa using this
  rw [subtractRow_cov k _ hc ho p, ← mergeTable_cov 0 (Int.le_refl 0) b k.chrom p]
  constructor
  · rintro ⟨hkp, hn⟩
    refine ⟨hkp, ?_⟩
    rintro ⟨r, hr, h1, h2⟩
    refine hn ⟨r, List.mem_filter.mpr ⟨hr, ?_⟩, h1, h2⟩
    have h3 : r.e > k.s := by omega
    have h4 : r.s < k.e := by omega
    simp [h3, h4]
  · rintro ⟨hkp, hn⟩
    refine ⟨hkp, ?_⟩
    rintro ⟨r, hr, h1, h2⟩
    exact hn ⟨r, (List.mem_filter.mp hr).1, h1, h2⟩

theorem subtractRow_chrom (k : Row) (ex : List Row) : ∀ q ∈ subtractRow k ex, q.chrom = k.chrom := by
  intro q hq
  rcases subtractRow_carry k ex q hq with h | h
  · exact h.1
  · rw [h]

/-- a.subtract(b) at the table level: on every chromosome exactly the bases of `a` not in `b`, for
    arbitrary `b` (overlapping, nested, duplicated rows, chromosomes missing from either table) -/
theorem subtractTable_cov (a b : Table) (hb : ∀ r ∈ b, 0 ≤ r.s ∧ r.s < r.e) (ha : ∀ r ∈ a, 0 ≤ r.s ∧ r.s ≤ r.e)
    (c : String) (p : Int) :
    cov (rowsOf (subtractTable a b) c) p ↔ (cov (rowsOf a c) p ∧ ¬ cov (rowsOf b c) p) := by
  unfold subtractTable
  split
  · rename_i he
    have hbn : b = [] := by simpa using he
    subst hbn
    have : ¬ cov (rowsOf [] c) p := by simp [rowsOf, cov]
    simp [this]
  · simp only
    rw [cov_rowsOf, cov_rowsOf]
    simp only [List.mem_flatMap, mem_byRangesDf]
    constructor
    · rintro ⟨r, ⟨q, ⟨k, hk, rfl⟩, hr⟩, hrc, h1, h2⟩
      have hkc : k.chrom = c := (subtractRow_chrom k _ r hr).symm.trans hrc
      have h := (subtract_keeper b hb k (ha k hk).1 p).mp ⟨r, hr, h1, h2⟩
      rw [hkc] at h
      exact ⟨⟨k, hk, hkc, h.1⟩, h.2⟩
    · rintro ⟨⟨k, hk, hkc, hkp⟩, hn⟩
      obtain ⟨r, hr, h1, h2⟩ :=
        (subtract_keeper b hb k (ha k hk).1 p).mpr ⟨hkp, by rw [hkc]; exact hn⟩
      exact ⟨r, ⟨_, ⟨k, hk, rfl⟩, hr⟩, (subtractRow_chrom k _ r hr).trans hkc, h1, h2⟩

end CnvVerif
