/-
  Source tie of skgenome/intersect.py, part: the binary-search path `_irange_simple`.  The hand-written model equals the term the translator reads
  off the current source (Generated/ExprsRanges.lean, regenerated from /repo on every run).  Proofs by case analysis
  + `simp`, not `rfl`: spellings that leave the meaning alone keep them green.  One module per tied code path, so
  that an edit breaks exactly the obligations about that path.
-/
import CnvVerif.Generated.ExprsRanges
import CnvVerif.Model.RangesExt
import CnvVerif.Lemmas.Ranges
set_option linter.unusedSimpArgs false
set_option linter.unusedVariables false
namespace CnvVerif.Src
open CnvVerif CnvVerif.Generated

/-! ### `_irange_simple` -/

theorem irangeSimple_slice_is_source (t : Table) (qs qe : Option Int) (inner : Bool) :
    irangeSimple t qs qe inner =
      (t.take (src_irange_simple_slice t inner qs qe).2).drop (src_irange_simple_slice t inner qs qe).1 := by
  unfold irangeSimple src_irange_simple_slice
  cases qs <;> cases qe <;> cases inner <;> simp

end CnvVerif.Src
