/-
  Lemmas behind Props/C19.lean, part 3: biweight location (range, translation, the published formula)
  and biweight midvariance (sign, constant data).
-/
import CnvVerif.Lemmas.Descriptives
set_option linter.unusedSimpArgs false
set_option linter.unusedVariables false
namespace CnvVerif.Desc

/-! ### one step -/

/-- Tukey's biweight `(1 − u²)²` -/
def biw (s x : Rat) : Rat := sq (1 - sq (x / s))

theorem biw_nonneg (s x : Rat) : 0 ≤ biw s x := sq_nonneg' _

theorem zip_map_mul (l : List Rat) (f : Rat → Rat) :
    ((l.zip (l.map f)).map (fun p => p.1 * p.2)) = l.map (fun x => x * f x) := by
  induction l with
  | nil => rfl
  | cons a t ih => simp only [List.map_cons, List.zip_cons_cons, ih]

/-- the step in terms of the deviations `d = a − init` -/
theorem bilocIter_def (c eps : Rat) (a : List Rat) (init : Rat) :
    bilocIter c eps a init =
      let s := max (c * median ((a.map (· - init)).map absR)) eps
      let kept := (a.map (· - init)).filter (fun x => decide (absR (x / s) < 1))
      if (kept.map (biw s)).sum = 0 then init
      else init + (kept.map (fun x => x * biw s x)).sum / (kept.map (biw s)).sum := by
  unfold bilocIter
  simp only [zip_map_mul]
  rfl

theorem sum_mul_le (l : List Rat) (f : Rat → Rat) (B : Rat) (hB : ∀ x ∈ l, x ≤ B) (hf : ∀ x, 0 ≤ f x) :
    (l.map (fun x => x * f x)).sum ≤ B * (l.map f).sum := by
  induction l with
  | nil => simp
  | cons a t ih =>
    simp only [List.map_cons, List.sum_cons]
    have := ih (fun x hx => hB x (List.mem_cons_of_mem _ hx))
    have h1 := mul_le_mul_of_nonneg_right (hB a (by simp)) (hf a)
    linarith

theorem sum_mul_ge (l : List Rat) (f : Rat → Rat) (B : Rat) (hB : ∀ x ∈ l, B ≤ x) (hf : ∀ x, 0 ≤ f x) :
    B * (l.map f).sum ≤ (l.map (fun x => x * f x)).sum := by
  induction l with
  | nil => simp
  | cons a t ih =>
    simp only [List.map_cons, List.sum_cons]
    have := ih (fun x hx => hB x (List.mem_cons_of_mem _ hx))
    have h1 := mul_le_mul_of_nonneg_right (hB a (by simp)) (hf a)
    linarith

/-- a step is a convex combination of the data: it stays within any interval that holds the data and
    the starting point -/
theorem bilocIter_in_range (c eps : Rat) (a : List Rat) (init lo hi : Rat) (hinit : lo ≤ init ∧ init ≤ hi)
    (h : ∀ x ∈ a, lo ≤ x ∧ x ≤ hi) : lo ≤ bilocIter c eps a init ∧ bilocIter c eps a init ≤ hi := by
  rw [bilocIter_def]
  simp only []
  split
  · exact hinit
  · rename_i hne
    set s := max (c * median ((a.map (· - init)).map absR)) eps with hs
    set kept := (a.map (· - init)).filter (fun x => decide (absR (x / s) < 1)) with hk
    have hkept : ∀ x ∈ kept, lo - init ≤ x ∧ x ≤ hi - init := by
      intro x hx
      have := (List.mem_filter.mp hx).1
      obtain ⟨y, hy, rfl⟩ := List.mem_map.mp this
      have := h y hy
      constructor <;> linarith [this.1, this.2]
    have hpos : 0 < (kept.map (biw s)).sum :=
      lt_of_le_of_ne (List.sum_nonneg (by intro y hy; obtain ⟨z, _, rfl⟩ := List.mem_map.mp hy; exact biw_nonneg _ _)) (Ne.symm hne)
    have hup := sum_mul_le kept (biw s) (hi - init) (fun x hx => (hkept x hx).2) (biw_nonneg s)
    have hdn := sum_mul_ge kept (biw s) (lo - init) (fun x hx => (hkept x hx).1) (biw_nonneg s)
    constructor
    · have : lo - init ≤ (kept.map (fun x => x * biw s x)).sum / (kept.map (biw s)).sum := by
        rw [le_div_iff₀ hpos]; linarith
      linarith
    · have : (kept.map (fun x => x * biw s x)).sum / (kept.map (biw s)).sum ≤ hi - init := by
        rw [div_le_iff₀ hpos]; linarith
      linarith

theorem bilocIter_shift (c eps : Rat) (a : List Rat) (init t : Rat) :
    bilocIter c eps (a.map (· + t)) (init + t) = bilocIter c eps a init + t := by
  have hd : (a.map (· + t)).map (· - (init + t)) = a.map (· - init) := by
    rw [List.map_map]; apply List.map_congr_left; intro x _; simp only [Function.comp]; ring
  rw [bilocIter_def, bilocIter_def, hd]
  simp only []
  split
  · rfl
  · ring

/-! ### the iteration -/

theorem bilocLoop_in_range (step : Rat → Rat) (eps : Rat) (lo hi : Rat)
    (hstep : ∀ x, lo ≤ x ∧ x ≤ hi → lo ≤ step x ∧ step x ≤ hi) (fuel : Nat) (init : Rat) (hinit : lo ≤ init ∧ init ≤ hi) :
    lo ≤ bilocLoop step eps fuel init ∧ bilocLoop step eps fuel init ≤ hi := by
  induction fuel generalizing init with
  | zero => exact hstep init hinit
  | succ n ih =>
    unfold bilocLoop
    simp only []
    split
    · exact hstep init hinit
    · exact ih _ (hstep init hinit)

theorem bilocLoop_shift (step step' : Rat → Rat) (eps t : Rat) (h : ∀ x, step' (x + t) = step x + t) (fuel : Nat) (init : Rat) :
    bilocLoop step' eps fuel (init + t) = bilocLoop step eps fuel init + t := by
  induction fuel generalizing init with
  | zero => exact h init
  | succ n ih =>
    unfold bilocLoop
    simp only []
    rw [h init]
    have : step init + t - (init + t) = step init - init := by ring
    rw [this]
    split
    · rfl
    · exact ih _

theorem biweightLocationCore_def (a : List Rat) (initial : Option Rat) :
    biweightLocationCore false a initial =
      bilocLoop (bilocIter Generated.BILOC_C Generated.BILOC_EPS a) Generated.BILOC_EPS (Generated.BILOC_MAX_ITER - 1)
        (initial.getD (median a)) := rfl

/-- **range**: the biweight location lies within the range of the data -/
theorem biweightLocationCore_in_range (a : List Rat) (ha : a ≠ []) (lo hi : Rat) (h : ∀ x ∈ a, lo ≤ x ∧ x ≤ hi) :
    lo ≤ biweightLocationCore false a none ∧ biweightLocationCore false a none ≤ hi := by
  rw [biweightLocationCore_def]
  exact bilocLoop_in_range _ _ lo hi (fun x hx => bilocIter_in_range _ _ a x lo hi hx h) _ _ (median_mem_range a ha lo hi h)

/-- … also when the caller supplies a starting point within that range -/
theorem biweightLocationCore_in_range_initial (a : List Rat) (init lo hi : Rat) (hinit : lo ≤ init ∧ init ≤ hi)
    (h : ∀ x ∈ a, lo ≤ x ∧ x ≤ hi) :
    lo ≤ biweightLocationCore false a (some init) ∧ biweightLocationCore false a (some init) ≤ hi := by
  rw [biweightLocationCore_def]
  exact bilocLoop_in_range _ _ lo hi (fun x hx => bilocIter_in_range _ _ a x lo hi hx h) _ _ hinit

/-- **translation**: adding a constant to the data adds it to the biweight location -/
theorem biweightLocationCore_shift (a : List Rat) (ha : a ≠ []) (t : Rat) :
    biweightLocationCore false (a.map (· + t)) none = biweightLocationCore false a none + t := by
  rw [biweightLocationCore_def, biweightLocationCore_def]
  simp only [Option.getD_none]
  rw [median_map_add t a ha]
  exact bilocLoop_shift _ _ _ t (fun x => bilocIter_shift _ _ a x t) _ _

theorem biweightLocationCore_const (a : List Rat) (ha : a ≠ []) (c : Rat) (h : ∀ x ∈ a, x = c) :
    biweightLocationCore false a none = c := by
  have := biweightLocationCore_in_range a ha c c (fun x hx => by rw [h x hx]; exact ⟨le_refl _, le_refl _⟩)
  exact le_antisymm this.2 this.1

/-! ### the published formula -/

/-- Beers, Flynn & Gebhardt (1990) / astropy: `M + Σ_{|u|<1} (x−M)(1−u²)² / Σ_{|u|<1} (1−u²)²`,
    `u = (x − M)/(c·MAD)`, `MAD = median |x − M|`, the divisor guarded from below by `eps` -/
def publishedBiweightStep (c eps : Rat) (x : List Rat) (M : Rat) : Rat :=
  let mad := median (x.map (fun v => |v - M|))
  let u : Rat → Rat := fun v => (v - M) / max (c * mad) eps
  let inside := x.filter (fun v => decide (|u v| < 1))
  M + (inside.map (fun v => (v - M) * (1 - u v ^ 2) ^ 2)).sum / (inside.map (fun v => (1 - u v ^ 2) ^ 2)).sum

theorem bilocIter_published (c eps : Rat) (a : List Rat) (M : Rat) :
    bilocIter c eps a M = publishedBiweightStep c eps a M := by
  rw [bilocIter_def]
  unfold publishedBiweightStep
  simp only []
  have hmad : median ((a.map (· - M)).map absR) = median (a.map (fun v => |v - M|)) := by
    rw [List.map_map]; congr 1; apply List.map_congr_left; intro x _; simp [Function.comp, absR_eq_abs]
  rw [hmad]
  set s := max (c * median (a.map (fun v => |v - M|))) eps
  have hfilter : (a.map (· - M)).filter (fun x => decide (absR (x / s) < 1)) =
      (a.filter (fun v => decide (|(v - M) / s| < 1))).map (· - M) := by
    rw [List.filter_map]; congr 1; apply List.filter_congr; intro x _; simp [Function.comp, absR_eq_abs]
  rw [hfilter, List.map_map, List.map_map]
  have e1 : (biw s ∘ fun x => x - M) = fun v => (1 - ((v - M) / s) ^ 2) ^ 2 := by
    funext v; simp only [Function.comp, biw, sq]; ring
  have e2 : ((fun x => x * biw s x) ∘ fun x => x - M) = fun v => (v - M) * (1 - ((v - M) / s) ^ 2) ^ 2 := by
    funext v; simp only [Function.comp, biw, sq]; ring
  rw [e1, e2]
  split
  · rename_i h0; rw [h0]; simp
  · rfl

/-- after the repair the weights of the points inside the cut-off are positive and at least one point is
    inside: the "insufficient variation" branch is never taken -/
theorem weightsum_pos (c eps : Rat) (a : List Rat) (M : Rat) (ha : a ≠ []) (hc : 1 < c) (heps : 0 < eps) :
    0 < (((a.map (· - M)).filter (fun x => decide (absR (x / max (c * median ((a.map (· - M)).map absR)) eps) < 1))).map
      (biw (max (c * median ((a.map (· - M)).map absR)) eps))).sum := by
  set d := a.map (· - M) with hd
  set mad := median (d.map absR) with hmad
  set s := max (c * mad) eps with hs
  have hspos : 0 < s := lt_of_lt_of_le heps (le_max_right _ _)
  have hdne : d ≠ [] := by simpa [hd] using ha
  -- the smallest absolute deviation is at most the median one
  have hex : ∃ x ∈ d, absR x ≤ mad := by
    by_contra hcon
    push Not at hcon
    -- all |d| > mad: then the median of |d| would exceed mad
    have hmin : ∃ m ∈ d.map absR, ∀ y ∈ d.map absR, m ≤ y := by
      have hne' : d.map absR ≠ [] := by simpa using hdne
      have hs' := sortR_sorted (d.map absR)
      have hlen : 0 < (sortR (d.map absR)).length := by rw [sortR_length]; exact List.length_pos_iff.mpr hne'
      refine ⟨nth (sortR (d.map absR)) 0, mem_sortR.mp (nth_mem _ _ hlen), fun y hy => ?_⟩
      obtain ⟨i, hi, rfl⟩ := List.getElem_of_mem (mem_sortR.mpr hy)
      rw [← nth_eq_getElem _ _ hi]
      exact sorted_nth_le hs' (Nat.zero_le _) hi
    obtain ⟨m, hm, hmle⟩ := hmin
    obtain ⟨x, hx, rfl⟩ := List.mem_map.mp hm
    have h1 := hcon x hx
    have h2 := (median_mem_range (d.map absR) (by simpa using hdne) (absR x)
      ((d.map absR).map (fun x => |x|)).sum (fun y hy => ⟨hmle y hy, le_trans (le_abs_self y)
        (List.single_le_sum (by intro z hz; simp at hz; obtain ⟨w, _, rfl⟩ := hz; exact abs_nonneg _) _
          (List.mem_map_of_mem hy))⟩)).1
    linarith
  obtain ⟨x, hx, hxle⟩ := hex
  have hmad0 : 0 ≤ mad := le_trans (absR_nonneg x) hxle
  have hu : absR (x / s) < 1 := by
    rw [absR_eq_abs, abs_div, abs_of_pos hspos, div_lt_one hspos, ← absR_eq_abs]
    rcases eq_or_lt_of_le hmad0 with h0 | hpos
    · have : absR x ≤ 0 := by rw [h0]; exact hxle
      linarith [absR_nonneg x]
    · have : mad < c * mad := by nlinarith
      exact lt_of_le_of_lt hxle (lt_of_lt_of_le this (le_max_left _ _))
  have hmem : x ∈ d.filter (fun x => decide (absR (x / s) < 1)) := List.mem_filter.mpr ⟨hx, by simpa using hu⟩
  have hbpos : 0 < biw s x := by
    unfold biw sq
    have : (x / s) * (x / s) < 1 := by
      rw [absR_eq_abs] at hu
      have := abs_lt.mp hu
      nlinarith
    have h1 : 0 < 1 - x / s * (x / s) := by linarith
    exact mul_pos h1 h1
  exact lt_of_lt_of_le hbpos (List.single_le_sum (by intro y hy; obtain ⟨z, _, rfl⟩ := List.mem_map.mp hy; exact biw_nonneg _ _) _
    (List.mem_map_of_mem hmem))

/-! ### biweight midvariance -/

theorem MAD_SCALE_BIVAR_pos : 0 < Generated.MAD_SCALE_BIVAR := by unfold Generated.MAD_SCALE_BIVAR; norm_num

/-- whatever branch is taken, the value returned, or the radicand of the root returned, is non-negative -/
theorem bivarCore_nonneg (pre : Bool) (a : List Rat) (initial : Option Rat) :
    (∀ v, bivarCore pre a initial = .direct v → 0 ≤ v) ∧ (∀ r, bivarCore pre a initial = .root r → 0 ≤ r) := by
  constructor
  · intro v hv
    unfold bivarCore at hv
    simp only [] at hv
    split at hv
    · injection hv with hv
      rw [← hv]
      exact mul_nonneg (median_nonneg _ (by intro x hx; simp at hx; obtain ⟨y, _, rfl⟩ := hx; exact absR_nonneg _))
        (le_of_lt MAD_SCALE_BIVAR_pos)
    · split at hv <;> cases hv
  · intro r hr
    unfold bivarCore at hr
    simp only [] at hr
    split at hr
    · cases hr
    · split at hr
      · cases hr
      · injection hr with hr
        rw [← hr]
        apply div_nonneg
        · apply mul_nonneg (Nat.cast_nonneg _)
          apply List.sum_nonneg
          intro y hy
          obtain ⟨z, _, rfl⟩ := List.mem_map.mp hy
          exact mul_nonneg (sq_nonneg' _) (sq_nonneg' _)
        · exact sq_nonneg' _

/-- constant data: the midvariance is 0 (through the MAD fall-back) -/
theorem bivarCore_const (a : List Rat) (ha : a ≠ []) (c : Rat) (h : ∀ x ∈ a, x = c) :
    bivarCore false a none = .direct 0 := by
  have hloc := biweightLocationCore_const a ha c h
  have hd : a.map (· - c) = List.replicate a.length 0 := by
    apply List.eq_replicate_iff.mpr
    refine ⟨by simp, ?_⟩
    intro x hx; obtain ⟨y, hy, rfl⟩ := List.mem_map.mp hx; rw [h y hy]; ring
  have hmad : median ((a.map (· - c)).map absR) = 0 := by
    apply median_const _ (by simpa using ha) 0
    intro x hx
    rw [hd] at hx
    simp at hx
    obtain ⟨_, rfl⟩ := hx; simp [absR]
  unfold bivarCore
  simp only [Option.getD_none, hloc, hmad]
  have hsum : ((List.filter (fun x => decide (absR (x / max (Generated.BIVAR_C * 0) Generated.BIVAR_EPS) < 1))
      (a.map (· - c))).map (· / max (Generated.BIVAR_C * 0) Generated.BIVAR_EPS)).sum = 0 := by
    apply sum_eq_zero_of_all_zero
    intro t ht
    obtain ⟨x, hx, rfl⟩ := List.mem_map.mp ht
    have := (List.mem_filter.mp hx).1
    rw [hd] at this
    simp at this
    rw [this.2]; simp
  rw [if_pos hsum]
  simp

end CnvVerif.Desc
