/-
  Lemmas behind Props/C11.lean, part 3: `UnifyLevels` (sorted result, keeps the base level, keeps add-on
  peaks farther than the window, invents nothing; full characterisation on sorted input).
-/
import CnvVerif.Model.Haar
import Mathlib.Tactic.Linarith
import Mathlib.Tactic.Ring
import Mathlib.Tactic.FieldSimp
import Mathlib.Tactic.NormNum
set_option linter.unusedSimpArgs false
set_option linter.unusedVariables false
namespace CnvVerif.Haar

/-! ### UnifyLevels -/

theorem mem_insertAsc (y x : Nat) (l : List Nat) : y ∈ insertAsc x l ↔ y = x ∨ y ∈ l := by
  induction l with
  | nil => simp [insertAsc]
  | cons z zs ih =>
    simp only [insertAsc]
    split
    · simp
    · simp only [List.mem_cons, ih]
      constructor
      · rintro (h | h | h)
        · exact Or.inr (Or.inl h)
        · exact Or.inl h
        · exact Or.inr (Or.inr h)
      · rintro (h | h | h)
        · exact Or.inr (Or.inl h)
        · exact Or.inl h
        · exact Or.inr (Or.inr h)

theorem insertAsc_sorted (x : Nat) (l : List Nat) (h : l.Pairwise (· ≤ ·)) :
    (insertAsc x l).Pairwise (· ≤ ·) := by
  induction l with
  | nil => simp [insertAsc]
  | cons z zs ih =>
    have h' := List.pairwise_cons.mp h
    simp only [insertAsc]
    split
    · rename_i hxz
      refine List.pairwise_cons.mpr ⟨?_, h⟩
      intro y hy
      rcases List.mem_cons.mp hy with rfl | hy
      · exact hxz
      · have := h'.1 y hy
        omega
    · rename_i hxz
      refine List.pairwise_cons.mpr ⟨?_, ih h'.2⟩
      intro y hy
      rcases (mem_insertAsc y x zs).mp hy with rfl | hy
      · omega
      · exact h'.1 y hy

theorem sortAsc_cons (x : Nat) (l : List Nat) : sortAsc (x :: l) = insertAsc x (sortAsc l) := rfl

theorem sortAsc_sorted (l : List Nat) : (sortAsc l).Pairwise (· ≤ ·) := by
  induction l with
  | nil => simp [sortAsc]
  | cons x xs ih =>
    rw [sortAsc_cons]
    exact insertAsc_sorted x _ ih

theorem mem_sortAsc (x : Nat) (l : List Nat) : x ∈ sortAsc l ↔ x ∈ l := by
  induction l with
  | nil => simp [sortAsc]
  | cons y ys ih =>
    rw [sortAsc_cons, mem_insertAsc, ih, List.mem_cons]

/-! unifyInner -/

theorem unifyInner_mem_cases (b w : Nat) (addon : List Nat) (a : Nat) (ha : a ∈ addon) :
    a ∈ (unifyInner b w addon).1 ∨ a ∈ (unifyInner b w addon).2 ∨ (¬ a + w < b ∧ a ≤ b + w) := by
  induction addon with
  | nil => simp at ha
  | cons c cs ih =>
    simp only [unifyInner]
    split
    · rename_i h1
      rcases List.mem_cons.mp ha with rfl | ha'
      · left; simp
      · rcases ih ha' with h | h | h
        · left; simp [h]
        · right; left; exact h
        · right; right; exact h
    · split
      · rename_i h1 h2
        rcases List.mem_cons.mp ha with rfl | ha'
        · right; right; exact ⟨h1, h2⟩
        · exact ih ha'
      · right; left; exact ha

theorem unifyInner_fst (b w : Nat) (addon : List Nat) (a : Nat)
    (ha : a ∈ (unifyInner b w addon).1) : a ∈ addon ∧ a + w < b := by
  induction addon with
  | nil => simp [unifyInner] at ha
  | cons c cs ih =>
    simp only [unifyInner] at ha
    split at ha
    · rename_i h1
      rcases List.mem_cons.mp ha with rfl | ha'
      · exact ⟨by simp, h1⟩
      · exact ⟨List.mem_cons_of_mem _ (ih ha').1, (ih ha').2⟩
    · split at ha
      · exact ⟨List.mem_cons_of_mem _ (ih ha).1, (ih ha).2⟩
      · simp at ha

theorem unifyInner_snd_suffix (b w : Nat) (addon : List Nat) :
    (unifyInner b w addon).2 <:+ addon := by
  induction addon with
  | nil => simp [unifyInner]
  | cons c cs ih =>
    simp only [unifyInner]
    split
    · exact ih.trans (List.suffix_cons _ _)
    · split
      · exact ih.trans (List.suffix_cons _ _)
      · exact List.suffix_refl _

theorem unifyInner_snd_head (b w : Nat) (addon : List Nat) (a' : Nat) (t : List Nat)
    (h : (unifyInner b w addon).2 = a' :: t) : b + w < a' := by
  induction addon with
  | nil => simp [unifyInner] at h
  | cons c cs ih =>
    simp only [unifyInner] at h
    split at h
    · exact ih h
    · split at h
      · exact ih h
      · rename_i h1 h2
        simp only [List.cons.injEq] at h
        omega

theorem unifyInner_snd_gt (b w : Nat) (addon : List Nat) (hs : addon.Pairwise (· < ·))
    (x : Nat) (hx : x ∈ (unifyInner b w addon).2) : b + w < x := by
  have hsuf := unifyInner_snd_suffix b w addon
  have hs2 : (unifyInner b w addon).2.Pairwise (· < ·) := hs.sublist hsuf.sublist
  cases hr : (unifyInner b w addon).2 with
  | nil => rw [hr] at hx; simp at hx
  | cons a' t =>
    have hh := unifyInner_snd_head b w addon a' t hr
    rw [hr] at hx hs2
    rcases List.mem_cons.mp hx with rfl | hx'
    · exact hh
    · have := (List.pairwise_cons.mp hs2).1 x hx'
      omega

/-! unifyLoop -/

theorem unifyLoop_cons (w b : Nat) (bs addon : List Nat) :
    unifyLoop w (b :: bs) addon =
      ((unifyInner b w addon).1 ++ b :: (unifyLoop w bs (unifyInner b w addon).2).1,
       (unifyLoop w bs (unifyInner b w addon).2).2) := rfl

theorem unifyLoop_base_mem (w : Nat) (base addon : List Nat) (x : Nat) (hx : x ∈ base) :
    x ∈ (unifyLoop w base addon).1 := by
  induction base generalizing addon with
  | nil => simp at hx
  | cons b bs ih =>
    rw [unifyLoop_cons]
    simp only [List.mem_append, List.mem_cons]
    rcases List.mem_cons.mp hx with rfl | hx'
    · exact Or.inr (Or.inl rfl)
    · exact Or.inr (Or.inr (ih _ hx'))

theorem unifyLoop_snd_suffix (w : Nat) (base addon : List Nat) :
    (unifyLoop w base addon).2 <:+ addon := by
  induction base generalizing addon with
  | nil => exact List.suffix_refl _
  | cons b bs ih =>
    rw [unifyLoop_cons]
    exact (ih _).trans (unifyInner_snd_suffix b w addon)

theorem unifyLoop_fst_subset (w : Nat) (base addon : List Nat) (x : Nat)
    (hx : x ∈ (unifyLoop w base addon).1) : x ∈ base ∨ x ∈ addon := by
  induction base generalizing addon with
  | nil => simp [unifyLoop] at hx
  | cons b bs ih =>
    rw [unifyLoop_cons] at hx
    simp only [List.mem_append, List.mem_cons] at hx
    rcases hx with h | h | h
    · exact Or.inr (unifyInner_fst b w addon x h).1
    · exact Or.inl (by simp [h])
    · rcases ih _ h with h' | h'
      · exact Or.inl (List.mem_cons_of_mem _ h')
      · exact Or.inr ((unifyInner_snd_suffix b w addon).subset h')

theorem unifyLoop_far (w : Nat) (base addon : List Nat) (a : Nat) (ha : a ∈ addon)
    (hfar : ∀ b ∈ base, a + w < b ∨ b + w < a) :
    a ∈ (unifyLoop w base addon).1 ∨ a ∈ (unifyLoop w base addon).2 := by
  induction base generalizing addon with
  | nil => exact Or.inr ha
  | cons b bs ih =>
    rw [unifyLoop_cons]
    simp only [List.mem_append, List.mem_cons]
    rcases unifyInner_mem_cases b w addon a ha with h | h | h
    · exact Or.inl (Or.inl h)
    · rcases ih _ h (fun b' hb' => hfar b' (List.mem_cons_of_mem _ hb')) with h' | h'
      · exact Or.inl (Or.inr (Or.inr h'))
      · exact Or.inr h'
    · have := hfar b (by simp)
      omega

theorem unifyLoop_snd_head (w : Nat) (base addon : List Nat) (bl : Nat)
    (hl : base.getLast? = some bl) (a' : Nat) (t : List Nat)
    (h : (unifyLoop w base addon).2 = a' :: t) : bl + w < a' := by
  induction base generalizing addon with
  | nil => simp at hl
  | cons b bs ih =>
    rw [unifyLoop_cons] at h
    cases bs with
    | nil =>
      simp only [List.getLast?_singleton, Option.some.injEq] at hl
      subst hl
      exact unifyInner_snd_head b w addon a' t h
    | cons b' bs' =>
      rw [List.getLast?_cons_cons] at hl
      exact ih _ hl h

theorem unifyLevels_eq (base addon : List Nat) (w : Nat) (h : addon ≠ []) :
    unifyLevels base addon w =
      sortAsc ((unifyLoop w base addon).1 ++ (unifyLoop w base addon).2) := by
  have he : addon.isEmpty = false := by
    cases addon with
    | nil => exact absurd rfl h
    | cons _ _ => rfl
  unfold unifyLevels
  simp only [he, Bool.false_eq_true, if_false]
  cases hl : base.getLast? with
  | none => rfl
  | some bl =>
    simp only
    cases hr : (unifyLoop w base addon).2 with
    | nil => simp
    | cons a' t =>
      have hh := unifyLoop_snd_head w base addon bl hl a' t hr
      have hd : decide (a' ≤ bl + w) = false := by
        apply decide_eq_false
        omega
      rw [List.dropWhile_cons, hd]
      simp

theorem mem_unifyLevels (base addon : List Nat) (w x : Nat) (h : addon ≠ []) :
    x ∈ unifyLevels base addon w ↔
      x ∈ (unifyLoop w base addon).1 ∨ x ∈ (unifyLoop w base addon).2 := by
  rw [unifyLevels_eq base addon w h, mem_sortAsc, List.mem_append]

theorem unifyLevels_nil_addon (base : List Nat) (w : Nat) : unifyLevels base [] w = base := by
  simp [unifyLevels]

theorem unifyLevels_sorted (base addon : List Nat) (w : Nat) (h : addon ≠ []) :
    (unifyLevels base addon w).Pairwise (· ≤ ·) := by
  rw [unifyLevels_eq base addon w h]
  exact sortAsc_sorted _

theorem unifyLevels_contains_base (base addon : List Nat) (w x : Nat) (hx : x ∈ base) :
    x ∈ unifyLevels base addon w := by
  by_cases h : addon = []
  · subst h
    rw [unifyLevels_nil_addon]
    exact hx
  · rw [mem_unifyLevels base addon w x h]
    exact Or.inl (unifyLoop_base_mem w base addon x hx)

/-- an add-on peak farther than the window from every base peak is kept (no order assumed) -/
theorem unifyLevels_far_addon_kept (base addon : List Nat) (w a : Nat) (ha : a ∈ addon)
    (hfar : ∀ b ∈ base, a + w < b ∨ b + w < a) : a ∈ unifyLevels base addon w := by
  have h : addon ≠ [] := by
    intro h
    subst h
    simp at ha
  rw [mem_unifyLevels base addon w a h]
  exact unifyLoop_far w base addon a ha hfar

theorem unifyLevels_subset (base addon : List Nat) (w x : Nat) (hx : x ∈ unifyLevels base addon w) :
    x ∈ base ∨ x ∈ addon := by
  by_cases h : addon = []
  · subst h
    rw [unifyLevels_nil_addon] at hx
    exact Or.inl hx
  · rw [mem_unifyLevels base addon w x h] at hx
    rcases hx with hx | hx
    · exact unifyLoop_fst_subset w base addon x hx
    · exact Or.inr ((unifyLoop_snd_suffix w base addon).subset hx)

/-! sorted input -/

theorem unifyLoop_snd_sorted (w : Nat) (base addon : List Nat) (ha : addon.Pairwise (· < ·))
    (x : Nat) (hx : x ∈ (unifyLoop w base addon).2) :
    x ∈ addon ∧ ∀ b ∈ base, b + w < x := by
  induction base generalizing addon with
  | nil => exact ⟨hx, by simp⟩
  | cons b bs ih =>
    rw [unifyLoop_cons] at hx
    have hsuf := unifyInner_snd_suffix b w addon
    have hs2 : (unifyInner b w addon).2.Pairwise (· < ·) := ha.sublist hsuf.sublist
    obtain ⟨h1, h2⟩ := ih _ hs2 hx
    refine ⟨hsuf.subset h1, ?_⟩
    intro b' hb'
    rcases List.mem_cons.mp hb' with rfl | hb''
    · exact unifyInner_snd_gt _ w addon ha x h1
    · exact h2 b' hb''

theorem unifyLoop_fst_sorted (w : Nat) (base addon : List Nat) (hb : base.Pairwise (· < ·))
    (ha : addon.Pairwise (· < ·)) (x : Nat) (hx : x ∈ (unifyLoop w base addon).1) :
    x ∈ base ∨ (x ∈ addon ∧ ∀ b ∈ base, x + w < b ∨ b + w < x) := by
  induction base generalizing addon with
  | nil => simp [unifyLoop] at hx
  | cons b bs ih =>
    have hb' := List.pairwise_cons.mp hb
    rw [unifyLoop_cons] at hx
    simp only [List.mem_append, List.mem_cons] at hx
    have hsuf := unifyInner_snd_suffix b w addon
    have hs2 : (unifyInner b w addon).2.Pairwise (· < ·) := ha.sublist hsuf.sublist
    rcases hx with h | h | h
    · obtain ⟨h1, h2⟩ := unifyInner_fst b w addon x h
      refine Or.inr ⟨h1, ?_⟩
      intro b' hb''
      rcases List.mem_cons.mp hb'' with rfl | hb3
      · exact Or.inl h2
      · have := hb'.1 b' hb3
        exact Or.inl (by omega)
    · exact Or.inl (by simp [h])
    · rcases ih _ hb'.2 hs2 h with h' | ⟨h1, h2⟩
      · exact Or.inl (List.mem_cons_of_mem _ h')
      · refine Or.inr ⟨hsuf.subset h1, ?_⟩
        intro b' hb''
        rcases List.mem_cons.mp hb'' with rfl | hb3
        · exact Or.inr (unifyInner_snd_gt _ w addon ha x h1)
        · exact h2 b' hb3

/-- on sorted index lists the result is exactly: the base peaks plus the add-on peaks outside every window -/
theorem unifyLevels_mem_iff (base addon : List Nat) (w x : Nat)
    (hb : base.Pairwise (· < ·)) (ha : addon.Pairwise (· < ·)) :
    x ∈ unifyLevels base addon w ↔ x ∈ base ∨ (x ∈ addon ∧ ∀ b ∈ base, x + w < b ∨ b + w < x) := by
  constructor
  · intro hx
    by_cases h : addon = []
    · subst h
      rw [unifyLevels_nil_addon] at hx
      exact Or.inl hx
    · rw [mem_unifyLevels base addon w x h] at hx
      rcases hx with hx | hx
      · exact unifyLoop_fst_sorted w base addon hb ha x hx
      · obtain ⟨h1, h2⟩ := unifyLoop_snd_sorted w base addon ha x hx
        exact Or.inr ⟨h1, fun b hb' => Or.inr (h2 b hb')⟩
  · rintro (hx | ⟨hx, hfar⟩)
    · exact unifyLevels_contains_base base addon w x hx
    · exact unifyLevels_far_addon_kept base addon w x hx hfar

theorem unifyLevels_nil_base (b w : Nat) : unifyLevels [] [b] w = [b] := by
  simp [unifyLevels, unifyLoop, sortAsc, insertAsc]

theorem unifyLevels_same (b w : Nat) : unifyLevels [b] [b] w = [b] := by
  simp [unifyLevels, unifyLoop, unifyInner, sortAsc, insertAsc]

end CnvVerif.Haar
