/-
  The hand-written model formulas equal the expressions the translator reads off the current source
  (Generated/ExprsBoost.lean, regenerated from /repo on every run): `vary._tumor_boost` and the threshold
  comparisons of `VariantArray.zygosity_from_freq`.  An edit to one of them in the code changes the generated
  term; unless the edit keeps the function, the theorems below stop checking.
-/
import CnvVerif.Generated.ExprsBoost
import CnvVerif.Model.Vcf
import Mathlib.Tactic.Ring
import Mathlib.Tactic.FieldSimp
import Mathlib.Tactic.Linarith
import Mathlib.Tactic.SplitIfs
set_option linter.unusedTactic false
set_option linter.unreachableTactic false
set_option linter.unusedSimpArgs false
set_option linter.unnecessarySeqFocus false
namespace CnvVerif.Src
open CnvVerif CnvVerif.Generated

/-- `_tumor_boost`, one locus, wherever the formula divides by something: the model's value is the source's -/
theorem tumorBoost_is_source (t n : Rat) (h1 : t < n → n ≠ 0) (h2 : ¬ t < n → n ≠ 1) :
    Vcf.tumorBoost t n = some (src_tumor_boost t n) := by
  unfold Vcf.tumorBoost src_tumor_boost
  by_cases h : t < n
  · have hn : n ≠ 0 := h1 h
    simp only [h, hn, if_true, if_false, not_true_eq_false, not_false_eq_true] <;> first
      | rfl
      | (congr 1; ring1)
      | (congr 1; field_simp)
      | (congr 1; field_simp; ring1)
  · have hn : n ≠ 1 := h2 h
    have hn' : (1 : Rat) - n ≠ 0 := fun e => hn (by linarith)
    simp only [h, hn, if_true, if_false, not_true_eq_false, not_false_eq_true] <;> first
      | rfl
      | (congr 1; ring1)
      | (congr 1; field_simp)
      | (congr 1; field_simp; ring1)

/-- where the source's formula divides by zero (pandas: NaN or ±inf) the model reports a missing value -/
theorem tumorBoost_none_iff (t n : Rat) :
    Vcf.tumorBoost t n = none ↔ (t < n ∧ n = 0) ∨ (¬ t < n ∧ n = 1) := by
  unfold Vcf.tumorBoost
  by_cases h : t < n <;> by_cases h0 : n = 0 <;> by_cases h1 : n = 1 <;> simp [h, h0, h1]

/-- `zygosity_from_freq`, one finite frequency: 0 below `het_freq`, 1 from `hom_freq` on, 0.5 between -/
theorem zygFromFreq_is_source (het hom q : Rat) :
    Vcf.zygFromFreq het hom (.fin q) = src_zygosity_from_freq q het hom := by
  unfold src_zygosity_from_freq
  first
    | rfl
    | (simp only [Vcf.zygFromFreq, ge_iff_le, gt_iff_lt, not_lt, not_le]
       split_ifs <;> first | rfl | (exfalso; linarith) | norm_num)

end CnvVerif.Src
