/-
  C08 — numeric facts about the `%.{p}g` model (`dexp`, `roundHE`, `sigRound`) of `Model/Formats.lean`:
  the decimal exponent is correct, rounding to `p` significant digits is idempotent, is within half a
  unit in the last place, and fixes decimals that already have at most `p` significant digits.
-/
import CnvVerif.Model.Formats
import Mathlib.Tactic.Linarith
import Mathlib.Tactic.Ring
import Mathlib.Tactic.FieldSimp
import Mathlib.Tactic.Positivity
import Mathlib.Tactic.NormNum
import Mathlib.Data.Rat.Floor
import Mathlib.Algebra.Order.Field.Power
import Mathlib.Algebra.Order.Ring.Abs
namespace CnvVerif.Fmt
open CnvVerif CnvVerif.Generated

theorem floor_bridge (q : ℚ) : q.floor = ⌊q⌋ := rfl

theorem pow10_eq (e : Int) : pow10 e = (10 : ℚ) ^ e := by
  unfold pow10
  split
  · rename_i h
    conv_rhs => rw [← Int.toNat_of_nonneg h]
    rw [zpow_natCast]
  · rename_i h
    have h' : 0 ≤ -e := by omega
    have : e = -((-e).toNat : Int) := by rw [Int.toNat_of_nonneg h']; ring
    conv_rhs => rw [this]
    rw [zpow_neg, zpow_natCast, one_div]

theorem ndig_spec (n : Nat) (hn : 0 < n) : 10 ^ (ndig n - 1) ≤ n ∧ n < 10 ^ ndig n := by
  induction n using Nat.strong_induction_on with
  | _ n ih =>
    unfold ndig
    split
    · rename_i h
      simp; omega
    · rename_i h
      have h10 : 0 < n / 10 := by omega
      obtain ⟨h1, h2⟩ := ih (n / 10) (by omega) h10
      have hpos : 1 ≤ ndig (n / 10) := by
        unfold ndig; split <;> omega
      constructor
      · simp only [Nat.add_sub_cancel]
        obtain ⟨k, hk⟩ : ∃ k, ndig (n / 10) = k + 1 := ⟨ndig (n/10) - 1, by omega⟩
        rw [hk] at h1 ⊢
        simp only [Nat.add_sub_cancel] at h1
        rw [pow_succ]; omega
      · rw [pow_succ]; omega


theorem ndig_pos (n : Nat) : 1 ≤ ndig n := by
  unfold ndig; split <;> omega

theorem ratio_bounds (N D : ℚ) (n d : Nat) (hD : 0 < D)
    (h1 : (10 : ℚ) ^ n ≤ N) (h2 : N < (10 : ℚ) ^ (n + 1))
    (h3 : (10 : ℚ) ^ d ≤ D) (h4 : D < (10 : ℚ) ^ (d + 1)) :
    (10 : ℚ) ^ ((n : ℤ) - d - 1) ≤ N / D ∧ N / D < (10 : ℚ) ^ ((n : ℤ) - d + 1) := by
  have hd : (0 : ℚ) < 10 ^ d := by positivity
  have hd1 : (0 : ℚ) < 10 ^ (d + 1) := by positivity
  have hn : (0 : ℚ) < 10 ^ n := by positivity
  have hn1 : (0 : ℚ) < 10 ^ (n + 1) := by positivity
  constructor
  · rw [show (n : ℤ) - d - 1 = ((n : ℕ) : ℤ) - ((d + 1 : ℕ) : ℤ) by push_cast; ring,
      zpow_sub₀ (by norm_num), zpow_natCast, zpow_natCast, div_le_div_iff₀ hd1 hD]
    calc (10 : ℚ) ^ n * D ≤ 10 ^ n * 10 ^ (d + 1) := by
          apply mul_le_mul_of_nonneg_left h4.le hn.le
      _ ≤ N * 10 ^ (d + 1) := by
          apply mul_le_mul_of_nonneg_right h1 hd1.le
  · rw [show (n : ℤ) - d + 1 = ((n + 1 : ℕ) : ℤ) - ((d : ℕ) : ℤ) by push_cast; ring,
      zpow_sub₀ (by norm_num), zpow_natCast, zpow_natCast, div_lt_div_iff₀ hD hd]
    calc N * 10 ^ d < 10 ^ (n + 1) * 10 ^ d := by
          apply mul_lt_mul_of_pos_right h2 hd
      _ ≤ 10 ^ (n + 1) * D := by
          apply mul_le_mul_of_nonneg_left h3 hn1.le

/-- the decimal exponent is correct: 10^e ≤ a < 10^(e+1) -/
theorem dexp_spec (a : Rat) (ha : 0 < a) : pow10 (dexp a) ≤ a ∧ a < pow10 (dexp a + 1) := by
  have hnum : 0 < a.num := Rat.num_pos.mpr ha
  have hN : 0 < a.num.natAbs := by omega
  have hDn : 0 < a.den := a.den_pos
  obtain ⟨n1, n2⟩ := ndig_spec _ hN
  obtain ⟨d1, d2⟩ := ndig_spec _ hDn
  obtain ⟨n, hn⟩ : ∃ n, ndig a.num.natAbs = n + 1 := ⟨ndig a.num.natAbs - 1, by have := ndig_pos a.num.natAbs; omega⟩
  obtain ⟨d, hd⟩ : ∃ d, ndig a.den = d + 1 := ⟨ndig a.den - 1, by have := ndig_pos a.den; omega⟩
  rw [hn] at n1 n2
  rw [hd] at d1 d2
  simp only [Nat.add_sub_cancel] at n1 d1
  have hcast : ((a.num.natAbs : ℕ) : ℚ) = (a.num : ℚ) := by
    rw [← Int.cast_natCast, Int.natCast_natAbs, abs_of_pos hnum]
  have ha' : a = (a.num.natAbs : ℚ) / (a.den : ℚ) := by
    rw [hcast, Rat.num_div_den]
  have hb := ratio_bounds (a.num.natAbs : ℚ) (a.den : ℚ) n d (by exact_mod_cast hDn)
    (by exact_mod_cast n1) (by exact_mod_cast n2) (by exact_mod_cast d1) (by exact_mod_cast d2)
  rw [← ha'] at hb
  have he0 : ((ndig a.num.natAbs : ℕ) : ℤ) - ((ndig a.den : ℕ) : ℤ) = (n : ℤ) - d := by
    rw [hn, hd]; push_cast; ring
  unfold dexp
  simp only [he0, pow10_eq]
  split
  · rename_i h
    exact ⟨h, hb.2⟩
  · rename_i h
    refine ⟨hb.1, ?_⟩
    rw [show (n : ℤ) - d - 1 + 1 = (n : ℤ) - d by ring]
    exact lt_of_not_ge h

theorem dexp_unique (a : ℚ) (ha : 0 < a) (e : ℤ) (h1 : (10 : ℚ) ^ e ≤ a) (h2 : a < (10 : ℚ) ^ (e + 1)) :
    dexp a = e := by
  obtain ⟨s1, s2⟩ := dexp_spec a ha
  rw [pow10_eq] at s1 s2
  have hA : (10 : ℚ) ^ (dexp a) < (10 : ℚ) ^ (e + 1) := lt_of_le_of_lt s1 h2
  have hB : (10 : ℚ) ^ e < (10 : ℚ) ^ (dexp a + 1) := lt_of_le_of_lt h1 s2
  rw [zpow_lt_zpow_iff_right₀ (by norm_num)] at hA hB
  omega

theorem roundHE_intCast (n : ℤ) : roundHE (n : ℚ) = n := by
  unfold roundHE
  simp only [floor_bridge, Int.floor_intCast, sub_self]
  norm_num

theorem roundHE_cases (x : ℚ) :
    (roundHE x = ⌊x⌋ ∧ x - (⌊x⌋ : ℚ) ≤ 1 / 2) ∨ (roundHE x = ⌊x⌋ + 1 ∧ 1 / 2 ≤ x - (⌊x⌋ : ℚ)) := by
  unfold roundHE
  dsimp only
  rw [floor_bridge]
  by_cases h : x - (⌊x⌋ : ℚ) < 1 / 2
  · rw [if_pos h]; exact Or.inl ⟨rfl, h.le⟩
  · rw [if_neg h]
    by_cases h2 : 1 / 2 < x - (⌊x⌋ : ℚ)
    · rw [if_pos h2]; exact Or.inr ⟨rfl, h2.le⟩
    · rw [if_neg h2]
      have h3 : x - (⌊x⌋ : ℚ) = 1 / 2 := le_antisymm (not_lt.mp h2) (not_lt.mp h)
      by_cases h4 : (⌊x⌋ % 2 == 0) = true
      · rw [if_pos h4]; exact Or.inl ⟨rfl, h3.le⟩
      · rw [if_neg h4]; exact Or.inr ⟨rfl, h3.ge⟩

theorem roundHE_close (x : ℚ) : |(roundHE x : ℚ) - x| ≤ 1 / 2 := by
  have h1 := Int.floor_le x
  have h2 := Int.lt_floor_add_one x
  rw [abs_le]
  rcases roundHE_cases x with ⟨e, h⟩ | ⟨e, h⟩ <;> rw [e] <;> push_cast <;> constructor <;> linarith

theorem roundHE_bounds (x : ℚ) : ⌊x⌋ ≤ roundHE x ∧ roundHE x ≤ ⌊x⌋ + 1 := by
  rcases roundHE_cases x with ⟨e, _⟩ | ⟨e, _⟩ <;> rw [e] <;> constructor <;> omega

theorem roundHE_between (x : ℚ) (L U : ℤ) (hL : (L : ℚ) ≤ x) (hU : x < (U : ℚ)) :
    L ≤ roundHE x ∧ roundHE x ≤ U := by
  obtain ⟨b1, b2⟩ := roundHE_bounds x
  have h1 : L ≤ ⌊x⌋ := Int.le_floor.mpr hL
  have h2 : ⌊x⌋ < U := Int.floor_lt.mpr hU
  constructor <;> omega

theorem sigRound_zero (p : Nat) : sigRound p 0 = 0 := by
  unfold sigRound; simp

theorem sigRound_of_pos (p : Nat) (a : ℚ) (ha : 0 < a) :
    sigRound p a = (roundHE (a / (10 : ℚ) ^ (dexp a - ((p : ℤ) - 1))) : ℚ) * (10 : ℚ) ^ (dexp a - ((p : ℤ) - 1)) := by
  unfold sigRound
  have h0 : ¬ a = 0 := ne_of_gt ha
  have h1 : ¬ a < 0 := not_lt.mpr ha.le
  simp only [beq_iff_eq, h0, h1, if_false, pow10_eq]

theorem sigRound_of_neg (p : Nat) (q : ℚ) (hq : q < 0) : sigRound p q = -(sigRound p (-q)) := by
  have hpos : 0 < -q := by linarith
  rw [sigRound_of_pos p (-q) hpos]
  unfold sigRound
  have h0 : ¬ q = 0 := ne_of_lt hq
  simp only [beq_iff_eq, h0, hq, if_false, if_true, pow10_eq]

/-- integer-mantissa form of "short decimals are fixed" -/
theorem sigRound_fix_int (p : Nat) (hp : 1 ≤ p) (m : ℤ) (k : ℤ)
    (hlo : (10 : ℤ) ^ (p - 1) ≤ m) (hhi : m < (10 : ℤ) ^ p) :
    sigRound p ((m : ℚ) * (10 : ℚ) ^ k) = (m : ℚ) * (10 : ℚ) ^ k := by
  have hk : (0 : ℚ) < (10 : ℚ) ^ k := zpow_pos (by norm_num) k
  have hm1 : (1 : ℤ) ≤ m := le_trans (one_le_pow₀ (by norm_num)) hlo
  have hmq : (0 : ℚ) < (m : ℚ) := by exact_mod_cast hm1
  have ha : (0 : ℚ) < (m : ℚ) * (10 : ℚ) ^ k := mul_pos hmq hk
  have hloq : (10 : ℚ) ^ (p - 1) ≤ (m : ℚ) := by exact_mod_cast hlo
  have hhiq : (m : ℚ) < (10 : ℚ) ^ p := by exact_mod_cast hhi
  have hd : dexp ((m : ℚ) * (10 : ℚ) ^ k) = k + ((p : ℤ) - 1) := by
    apply dexp_unique _ ha
    · rw [show k + ((p : ℤ) - 1) = ((p - 1 : ℕ) : ℤ) + k by omega, zpow_add₀ (by norm_num), zpow_natCast]
      exact mul_le_mul_of_nonneg_right hloq hk.le
    · rw [show k + ((p : ℤ) - 1) + 1 = ((p : ℕ) : ℤ) + k by omega, zpow_add₀ (by norm_num), zpow_natCast]
      exact mul_lt_mul_of_pos_right hhiq hk
  rw [sigRound_of_pos p _ ha, hd, show k + ((p : ℤ) - 1) - ((p : ℤ) - 1) = k by ring,
    mul_div_assoc, div_self hk.ne', mul_one, roundHE_intCast]

/-- mantissa of a positive number lies in [10^(p-1), 10^p] -/
theorem mantissa_bounds (p : Nat) (hp : 1 ≤ p) (a : ℚ) (ha : 0 < a) :
    (10 : ℤ) ^ (p - 1) ≤ roundHE (a / (10 : ℚ) ^ (dexp a - ((p : ℤ) - 1))) ∧
    roundHE (a / (10 : ℚ) ^ (dexp a - ((p : ℤ) - 1))) ≤ (10 : ℤ) ^ p := by
  obtain ⟨s1, s2⟩ := dexp_spec a ha
  rw [pow10_eq] at s1 s2
  have hsc : (0 : ℚ) < (10 : ℚ) ^ (dexp a - ((p : ℤ) - 1)) := zpow_pos (by norm_num) _
  apply roundHE_between
  · rw [le_div_iff₀ hsc]
    push_cast
    rw [← zpow_natCast, ← zpow_add₀ (by norm_num)]
    rw [show ((p - 1 : ℕ) : ℤ) + (dexp a - ((p : ℤ) - 1)) = dexp a by omega]
    exact s1
  · rw [div_lt_iff₀ hsc]
    push_cast
    rw [← zpow_natCast, ← zpow_add₀ (by norm_num)]
    rw [show ((p : ℕ) : ℤ) + (dexp a - ((p : ℤ) - 1)) = dexp a + 1 by omega]
    exact s2

theorem sigRound_pos_of_pos (p : Nat) (hp : 1 ≤ p) (a : ℚ) (ha : 0 < a) : 0 < sigRound p a := by
  rw [sigRound_of_pos p a ha]
  have hsc : (0 : ℚ) < (10 : ℚ) ^ (dexp a - ((p : ℤ) - 1)) := zpow_pos (by norm_num) _
  have h1 : (1 : ℤ) ≤ roundHE (a / (10 : ℚ) ^ (dexp a - ((p : ℤ) - 1))) :=
    le_trans (one_le_pow₀ (by norm_num)) (mantissa_bounds p hp a ha).1
  have : (0 : ℚ) < (roundHE (a / (10 : ℚ) ^ (dexp a - ((p : ℤ) - 1))) : ℚ) := by exact_mod_cast h1
  exact mul_pos this hsc

theorem sigRound_idem_pos (p : Nat) (hp : 1 ≤ p) (a : ℚ) (ha : 0 < a) :
    sigRound p (sigRound p a) = sigRound p a := by
  obtain ⟨b1, b2⟩ := mantissa_bounds p hp a ha
  rw [sigRound_of_pos p a ha]
  generalize roundHE (a / (10 : ℚ) ^ (dexp a - ((p : ℤ) - 1))) = m at b1 b2
  generalize dexp a - ((p : ℤ) - 1) = k
  rcases lt_or_eq_of_le b2 with h | h
  · exact sigRound_fix_int p hp m k b1 h
  · have e : (m : ℚ) * (10 : ℚ) ^ k = (((10 : ℤ) ^ (p - 1) : ℤ) : ℚ) * (10 : ℚ) ^ (k + 1) := by
      rw [h, zpow_add₀ (by norm_num), zpow_one]
      push_cast
      obtain ⟨j, rfl⟩ : ∃ j, p = j + 1 := ⟨p - 1, by omega⟩
      simp only [Nat.add_sub_cancel]
      ring
    rw [e]
    apply sigRound_fix_int p hp _ (k + 1) le_rfl
    apply pow_lt_pow_right₀ (by norm_num); omega

/-- rounding to p ≥ 1 significant digits is idempotent: the value `%.{p}g` prints is a fixed point -/
theorem sigRound_idempotent (p : Nat) (hp : 1 ≤ p) (q : Rat) : sigRound p (sigRound p q) = sigRound p q := by
  rcases lt_trichotomy q 0 with h | h | h
  · have hpos : 0 < -q := by linarith
    have h1 := sigRound_pos_of_pos p hp (-q) hpos
    rw [sigRound_of_neg p q h]
    rw [sigRound_of_neg p (-(sigRound p (-q))) (by linarith), neg_neg, sigRound_idem_pos p hp _ hpos]
  · rw [h, sigRound_zero, sigRound_zero]
  · exact sigRound_idem_pos p hp q h

theorem sigRound_close_pos (p : Nat) (a : ℚ) (ha : 0 < a) :
    |sigRound p a - a| ≤ (1 / 2) * (10 : ℚ) ^ (dexp a - ((p : ℤ) - 1)) := by
  rw [sigRound_of_pos p a ha]
  have hsc : (0 : ℚ) < (10 : ℚ) ^ (dexp a - ((p : ℤ) - 1)) := zpow_pos (by norm_num) _
  generalize (10 : ℚ) ^ (dexp a - ((p : ℤ) - 1)) = sc at hsc
  have h := roundHE_close (a / sc)
  have e : (roundHE (a / sc) : ℚ) * sc - a = ((roundHE (a / sc) : ℚ) - a / sc) * sc := by
    field_simp
  rw [e, abs_mul, abs_of_pos hsc]
  exact mul_le_mul_of_nonneg_right h hsc.le

set_option linter.unusedVariables false in
/-- the rounded value is within half a unit in the last (p-th) place -/
theorem sigRound_close (p : Nat) (hp : 1 ≤ p) (q : Rat) (hq : q ≠ 0) :
    |sigRound p q - q| ≤ (1 / 2) * pow10 (dexp |q| - ((p : Int) - 1)) := by
  rw [pow10_eq]
  rcases lt_or_gt_of_ne hq with h | h
  · have hpos : 0 < -q := by linarith
    rw [sigRound_of_neg p q h, abs_of_neg h]
    have := sigRound_close_pos p (-q) hpos
    rw [show -sigRound p (-q) - q = -(sigRound p (-q) - -q) by ring, abs_neg]
    exact this
  · rw [abs_of_pos h]
    exact sigRound_close_pos p q h

/-- a decimal that already has at most p significant digits is returned unchanged:
    m * 10^k with 10^(p-1) ≤ m < 10^p -/
theorem sigRound_fixes_short_decimals (p : Nat) (hp : 1 ≤ p) (m : Nat) (k : Int)
    (hlo : 10 ^ (p - 1) ≤ m) (hhi : m < 10 ^ p) :
    sigRound p ((m : Rat) * pow10 k) = (m : Rat) * pow10 k ∧ sigRound p (-((m : Rat) * pow10 k)) = -((m : Rat) * pow10 k) := by
  rw [pow10_eq]
  have h := sigRound_fix_int p hp (m : ℤ) k (by exact_mod_cast hlo) (by exact_mod_cast hhi)
  rw [Int.cast_natCast] at h
  have hk : (0 : ℚ) < (10 : ℚ) ^ k := zpow_pos (by norm_num) k
  have hm1 : 1 ≤ m := le_trans (Nat.one_le_pow _ _ (by norm_num)) hlo
  have hmq : (0 : ℚ) < (m : ℚ) := by exact_mod_cast hm1
  have ha : (0 : ℚ) < (m : ℚ) * (10 : ℚ) ^ k := mul_pos hmq hk
  refine ⟨h, ?_⟩
  rw [sigRound_of_neg p _ (by linarith), neg_neg, h]

end CnvVerif.Fmt
