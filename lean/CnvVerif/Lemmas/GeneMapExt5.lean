/-
  Lemmas for C16 (round 5): the dict loop of `_get_gene_map` (Model/GeneExt.lean) against the closed form of
  Model/Genes.lean and against the definitions re-read from the source (Generated/ExprsGeneMap.lean).  Core Lean only.
-/
import CnvVerif.Model.GeneExt
import CnvVerif.Lemmas.Genes
import CnvVerif.Generated.ExprsGeneMap
set_option linter.unusedSimpArgs false
set_option linter.unusedVariables false
namespace CnvVerif.GeneExt
open CnvVerif CnvVerif.Genes CnvVerif.PyDict16

theorem has_iff {d : Dict} {g : String} : has d g = true ↔ g ∈ keys d := by
  simp only [has, keys, List.any_eq_true, List.mem_map, beq_iff_eq]

theorem not_has {d : Dict} {g : String} (h : has d g = false) : ∀ p ∈ d, (p.1 == g) = false := by
  intro p hp
  cases hpg : (p.1 == g) with
  | false => rfl
  | true =>
    have : has d g = true := List.any_eq_true.mpr ⟨p, hp, hpg⟩
    simp [h] at this

theorem map_noop {d : Dict} {g : String} (f : String × List Nat → String × List Nat) (h : has d g = false) :
    d.map (fun p => if p.1 == g then f p else p) = d := by
  have : ∀ p ∈ d, (fun p => if p.1 == g then f p else p) p = id p := by
    intro p hp; simp [not_has h p hp]
  rw [List.map_congr_left this, List.map_id]

theorem get_of_not_has {d : Dict} {g : String} (h : has d g = false) : get d g = [] := by
  unfold PyDict16.get
  have : d.find? (fun p => p.1 == g) = none := by
    rw [List.find?_eq_none]; intro p hp; simp [not_has h p hp]
  rw [this]

theorem get_append_new {d : Dict} {g : String} (v : List Nat) (h : has d g = false) : get (d ++ [(g, v)]) g = v := by
  unfold PyDict16.get
  have : d.find? (fun p => p.1 == g) = none := by
    rw [List.find?_eq_none]; intro p hp; simp [not_has h p hp]
  simp [List.find?_append, this]

/-- the model's `insert` is the generated inner loop body, for ANY dict -/
theorem insert_eq_src (d : Dict) (i : Nat) (g : String) : insert d i g = Generated.src_gene_map_inner d i g := by
  unfold insert Generated.src_gene_map_inner
  by_cases h : has d g = true
  · simp [h, PyDict16.set]
  · have h' : has d g = false := by simpa using h
    have h2 : has (d ++ [(g, [])]) g = true := by simp [has]
    simp only [h', PyDict16.set, h2, Bool.not_false, if_true, Bool.false_eq_true, if_false, List.map_append, List.map_cons,
      List.map_nil, map_noop _ h', get_append_new [] h', beq_self_eq_true, List.nil_append]

theorem splitOn_comma (acc cs : List Char) : splitOn ',' acc cs = splitComma acc cs := by
  induction cs generalizing acc with
  | nil => rfl
  | cons c cs ih => simp only [splitOn, splitComma, ih]

theorem foldl_congr_fn {α β} {f g : α → β → α} (h : ∀ a b, f a b = g a b) (l : List β) (a : α) :
    l.foldl f a = l.foldl g a := by
  have : f = g := by funext a b; exact h a b
  rw [this]

theorem rowStep_eq_src (d : Dict) (i : Nat) (s : Option String) : rowStep d i s = Generated.src_gene_map_row d i s := by
  cases s with
  | none => rfl
  | some s =>
    simp only [rowStep, Generated.src_gene_map_row, split, splitOn_comma]
    exact foldl_congr_fn (fun a b => insert_eq_src a i b) _ _

/-! ### the loop is a fold of `insert` over the visit list -/

/-- the visits folded into a dict -/
def fold (T : List (Nat × String)) (d : Dict) : Dict := T.foldl (fun d p => insert d p.1 p.2) d

theorem fold_append (T U : List (Nat × String)) (d : Dict) : fold (T ++ U) d = fold U (fold T d) := by
  simp [fold, List.foldl_append]

theorem rowStep_fold (d : Dict) (k : Nat) (s : String) :
    rowStep d k (some s) = fold ((splitComma [] s.toList).map (fun g => (k, g))) d := by
  simp [rowStep, fold, List.foldl_map]

theorem loopFrom_fold (k : Nat) (d : Dict) (gs : List (Option String)) : loopFrom k d gs = fold (taggedOpt k gs) d := by
  induction gs generalizing k d with
  | nil => rfl
  | cons s rest ih =>
    cases s with
    | none => simp only [loopFrom, taggedOpt, rowStep, ih]
    | some s => simp only [loopFrom, taggedOpt, fold_append, ih, rowStep_fold]

theorem taggedOpt_bins (k : Nat) (rs : List Bin) : taggedOpt k (rs.map (fun b => some b.gene)) = taggedFrom k rs := by
  induction rs generalizing k with
  | nil => rfl
  | cons b rs ih => simp only [List.map_cons, taggedOpt, taggedFrom, names, ih]

/-! ### keys and values after one insert -/

theorem keys_insert (d : Dict) (i : Nat) (g : String) :
    keys (insert d i g) = if has d g then keys d else keys d ++ [g] := by
  unfold insert
  by_cases h : has d g = true
  · simp only [h, if_true, keys, List.map_map]
    apply List.map_congr_left
    intro p _
    show (if (p.1 == g) = true then (p.1, PyDict16.get d g ++ [i]) else p).1 = p.1
    split <;> rfl
  · simp [h, keys]

theorem find_map_keep (d : Dict) (g h : String) (v : List Nat) :
    (d.map (fun p => if p.1 == g then (p.1, v) else p)).find? (fun p => p.1 == h) =
      (d.find? (fun p => p.1 == h)).map (fun p => if p.1 == g then (p.1, v) else p) := by
  induction d with
  | nil => rfl
  | cons a d ih =>
    simp only [List.map_cons, List.find?_cons]
    have hk : (if (a.1 == g) = true then (a.1, v) else a).1 = a.1 := by
      by_cases ha : (a.1 == g) = true <;> simp [ha]
    rw [hk]
    cases hah : (a.1 == h) with
    | true => simp
    | false => simpa using ih

theorem get_insert (d : Dict) (i : Nat) (g h : String) :
    get (insert d i g) h = get d h ++ (if g == h then [i] else []) := by
  by_cases hd : has d g = true
  · have : insert d i g = d.map (fun p => if p.1 == g then (p.1, get d g ++ [i]) else p) := by simp [insert, hd]
    rw [this]
    unfold PyDict16.get
    rw [find_map_keep]
    cases hf : d.find? (fun p => p.1 == h) with
    | none =>
      have hgh : (g == h) = false := by
        cases hgh : (g == h) with
        | false => rfl
        | true =>
          have hgeq : g = h := by simpa using hgh
          obtain ⟨p, hp, hpg⟩ := List.any_eq_true.mp hd
          have := List.find?_eq_none.mp hf p hp
          rw [hgeq] at hpg
          simp [hpg] at this
      simp [hgh]
    | some p =>
      have hph : p.1 = h := by simpa using List.find?_some hf
      by_cases hgh : g = h
      · subst hgh
        have : d.find? (fun p => p.1 == g) = some p := hf
        simp [hph, this]
      · have h1 : (p.1 == g) = false := by
          rw [hph]; simpa using (fun e : h = g => hgh e.symm)
        have h2 : (g == h) = false := by simpa using hgh
        have h1' : p.1 ≠ g := by rw [hph]; exact fun e => hgh e.symm
        simp [h1', h2]
  · have hd' : has d g = false := by simpa using hd
    have : insert d i g = d ++ [(g, [i])] := by simp [insert, hd']
    rw [this]
    unfold PyDict16.get
    rw [List.find?_append]
    cases hf : d.find? (fun p => p.1 == h) with
    | some p =>
      have hph : p.1 = h := by simpa using List.find?_some hf
      have hgh : (g == h) = false := by
        cases hgh : (g == h) with
        | false => rfl
        | true =>
          have hgeq : g = h := by simpa using hgh
          have hp := List.mem_of_find?_eq_some hf
          have := not_has hd' p hp
          rw [hph, hgeq] at this
          simp at this
      simp [hgh]
    | none =>
      by_cases hgh : g = h
      · subst hgh; simp
      · have h2 : (g == h) = false := by simpa using hgh
        simp [h2]

/-! ### the whole fold -/

theorem geneIdx_cons (i : Nat) (g : String) (T : List (Nat × String)) (h : String) :
    geneIdx ((i, g) :: T) h = (if g == h then [i] else []) ++ geneIdx T h := by
  unfold geneIdx
  by_cases hgh : (g == h) = true <;> simp [List.filter_cons, hgh]

theorem get_fold (T : List (Nat × String)) (d : Dict) (h : String) : get (fold T d) h = get d h ++ geneIdx T h := by
  induction T generalizing d with
  | nil => simp [fold, geneIdx]
  | cons a T ih =>
    obtain ⟨i, g⟩ := a
    have : fold ((i, g) :: T) d = fold T (insert d i g) := rfl
    rw [this, ih, get_insert, geneIdx_cons, List.append_assoc]

/-- the keys: what the dict had, then the new names in order of first appearance -/
theorem keys_fold (T : List (Nat × String)) (d : Dict) :
    keys (fold T d) = keys d ++ ((firstByName T).map (·.2)).filter (fun k => !(keys d).contains k) := by
  induction T generalizing d with
  | nil => simp [fold, firstByName]
  | cons a T ih =>
    obtain ⟨i, g⟩ := a
    have : fold ((i, g) :: T) d = fold T (insert d i g) := rfl
    rw [this, ih, keys_insert]
    simp only [firstByName, List.map_cons, List.filter_cons]
    have hmf : ((firstByName T).filter (fun x => x.2 != g)).map (·.2) =
        ((firstByName T).map (·.2)).filter (fun k => k != g) := by
      rw [List.filter_map]; rfl
    rw [hmf, List.filter_filter]
    by_cases hd : has d g = true
    · have hg : (keys d).contains g = true := by simpa using has_iff.mp hd
      simp only [hd, if_true, hg, Bool.not_true, Bool.false_eq_true, if_false]
      congr 1
      apply List.filter_congr
      intro k _
      cases hk' : (keys d).contains k with
      | true => simp only [hk', Bool.not_true, Bool.false_and]
      | false =>
        have : (k != g) = true := by
          simp only [bne_iff_ne, ne_eq]
          intro e; rw [e, hg] at hk'; simp at hk'
        simp only [hk', this, Bool.not_false, Bool.and_true]
    · have hd' : has d g = false := by simpa using hd
      have hg : (keys d).contains g = false := by
        cases hc : (keys d).contains g with
        | false => rfl
        | true =>
          have := has_iff.mpr (by simpa using hc : g ∈ keys d)
          simp [hd'] at this
      simp only [hd', Bool.false_eq_true, if_false, hg, Bool.not_false, if_true, List.append_assoc,
        List.singleton_append]
      congr 2
      apply List.filter_congr
      intro k _
      simp only [List.contains_append, List.contains_cons, List.contains_nil, Bool.or_false, Bool.not_or,
        Bool.and_comm]
      rfl

/-- a dict with distinct keys is its keys paired with their lookups -/
theorem items_of_nodup (d : Dict) (hn : (keys d).Nodup) : d = (keys d).map (fun k => (k, get d k)) := by
  induction d with
  | nil => rfl
  | cons a d ih =>
    obtain ⟨k, v⟩ := a
    have hn' : k ∉ keys d ∧ (keys d).Nodup := by simpa [keys] using hn
    have h0 : PyDict16.get ((k, v) :: d) k = v := by simp [PyDict16.get]
    simp only [keys, List.map_cons, h0]
    congr 1
    have ih' := ih hn'.2
    conv => lhs; rw [ih']
    simp only [keys]
    apply List.map_congr_left
    intro k' hk'
    have hne : (k == k') = false := by
      simpa using (fun e : k = k' => hn'.1 (e ▸ hk'))
    simp [PyDict16.get, List.find?_cons, hne]

theorem firstByName_keys_nodup (T : List (Nat × String)) : ((firstByName T).map (·.2)).Nodup := by
  have := firstByName_names_nodup T
  exact List.Pairwise.map _ (fun _ _ h => h) this

/-- **the dict the loop builds is the closed form of `Model/Genes.lean`** -/
theorem fold_eq_closedForm (T : List (Nat × String)) : fold T [] = closedForm T := by
  have hk : keys (fold T []) = (firstByName T).map (·.2) := by
    rw [keys_fold]; simp [keys]
  have hn : (keys (fold T [])).Nodup := by rw [hk]; exact firstByName_keys_nodup T
  rw [items_of_nodup _ hn, hk, closedForm, List.map_map]
  apply List.map_congr_left
  intro p _
  show (p.2, PyDict16.get (fold T []) p.2) = (p.2, geneIdx T p.2)
  rw [get_fold]; simp [PyDict16.get]

theorem goItems_closed (rs : List Bin) (ign : List String) (T : List (Nat × String)) :
    ∀ (ks : List (Nat × String)) (prev : Nat),
      goItems rs ign prev (ks.map (fun p => (p.2, geneIdx T p.2))) = goPos rs ign T prev ks
  | [], prev => by simp [goItems, goPos]
  | (i, g) :: ks, prev => by
    simp only [List.map_cons, goItems, goPos, goItems_closed rs ign T ks]
    by_cases h : ign.contains g = true
    · simp only [h, if_true]
    · simp only [h, if_false]
      cases (geneIdx T g).head? <;> cases (geneIdx T g).getLast? <;> rfl

end CnvVerif.GeneExt
