/-
  Lemmas behind Props/C11W.lean, part 3: `HaarConv(step, W, h)` IS the closed form `stepRespW`, its only peak is
  the step position, and the weighted `haarSeg` reports the step.
-/
import CnvVerif.Lemmas.HaarW2
set_option linter.unusedSimpArgs false
set_option linter.unusedVariables false
namespace CnvVerif.Haar

theorem wOf_toArray (wt : List Rat) : wOf wt.toArray = wfun wt := by
  funext i; simp [wOf, wfun, nth_toArray]

/-- on the noise-free step the products `signal * weight` split into the `lo` part and the part on the upper plateau -/
theorem swOf_stepSig (lo hi : Rat) (b n : Nat) (hbn : b ≤ n) (wt : List Rat) (hw : wt.length = n) :
    swOf (stepSig lo hi b n).toArray wt.toArray
      = fun i => lo * wfun wt i + (hi - lo) * upperW (wfun wt) b i := by
  funext i
  simp only [swOf, nth_toArray, wfun, upperW]
  by_cases hi' : i < n
  · rw [getD_stepSig lo hi b n i hbn hi']
    unfold dl
    split <;> (simp; try ring)
  · have : wt.getD i 0 = 0 := by
      simp [List.getD_eq_getElem?_getD, List.getElem?_eq_none (show wt.length ≤ i by omega)]
    rw [this]; simp

theorem stepW_of_list (wt : List Rat) (b n h : Nat) (h1 : 1 ≤ h) (hb : h ≤ b) (hn : b + h ≤ n)
    (hw : wt.length = n) (hpos : ∀ x ∈ wt, 0 < x) : StepW (wfun wt) b n h := by
  refine ⟨h1, hb, hn, ?_⟩
  intro i hi
  have hi' : i < wt.length := by omega
  simp only [wfun, List.getD_eq_getElem?_getD, List.getElem?_eq_getElem hi', Option.getD_some]
  exact hpos _ (List.getElem_mem hi')

/-- the value the loop stores at `k` on the noise-free step -/
theorem respW_stepSig (fac lo hi : Rat) (b n h : Nat) (wt : List Rat) (hw : wt.length = n)
    (H : StepW (wfun wt) b n h) (k : Nat) (hk : k < n) :
    respW (stepSig lo hi b n).toArray wt.toArray n h fac k = fac * (hi - lo) * stepShareW (wfun wt) b n h k := by
  have hbn : b ≤ n := by have := H.hn; omega
  unfold respW stepShareW
  rw [swOf_stepSig lo hi b n hbn wt hw, wOf_toArray, lowWin_lin, highWin_lin]
  have d1 := ne_of_gt (lowWin_pos H k hk)
  have d2 := ne_of_gt (highWin_pos H k hk)
  field_simp
  ring

/-- **closed form of the weighted convolution**: for positive weights and a half-window that fits on both sides,
`HaarConv(step, W, h)[k] = sqrt(h/2) * (hi - lo) * share(k)` -/
theorem haarConvW_ideal_step (fac lo hi : Rat) (b n h : Nat) (wt : List Rat) (h1 : 1 ≤ h) (hb : h ≤ b)
    (hn : b + h ≤ n) (hw : wt.length = n) (hpos : ∀ x ∈ wt, 0 < x) :
    haarConvW fac (stepSig lo hi b n) wt h = some (stepRespW fac lo hi wt b n h) := by
  have H := stepW_of_list wt b n h h1 hb hn hw hpos
  have hbn : b ≤ n := by omega
  rw [haarConvW_eq fac _ wt h n (stepSig_length lo hi b n hbn) h1 (by omega) (by
    intro k _ hk2
    rw [wOf_toArray]
    exact ⟨ne_of_gt (lowWin_pos H k hk2), ne_of_gt (highWin_pos H k hk2)⟩)]
  unfold stepRespW
  obtain ⟨m, rfl⟩ : ∃ m, n = m + 1 := ⟨n - 1, by omega⟩
  rw [List.range_eq_range', List.range'_succ, List.map_cons, share_zero_left H 0 (by omega)]
  simp only [mul_zero, Nat.add_sub_cancel, Option.some.injEq, List.cons.injEq, true_and]
  apply List.map_congr_left
  intro k hk
  rw [List.mem_range'_1] at hk
  exact respW_stepSig fac lo hi b (m + 1) h wt hw H k (by omega)

/-- the only peak of the weighted response is the step position -/
theorem peaks_stepRespW (fac lo hi : Rat) (hfac : 0 < fac) (hne : lo ≠ hi) (b n h : Nat) (wt : List Rat)
    (h1 : 1 ≤ h) (hb : h ≤ b) (hn : b + h ≤ n) (hn2 : b + 2 ≤ n) (hw : wt.length = n) (hpos : ∀ x ∈ wt, 0 < x) :
    findLocalPeaks (stepRespW fac lo hi wt b n h) = [b] := by
  have H := stepW_of_list wt b n h h1 hb hn hw hpos
  unfold stepRespW
  exact findLocalPeaks_unimodal (fac * (hi - lo))
    (mul_ne_zero (ne_of_gt hfac) (sub_ne_zero.mpr (Ne.symm hne))) (stepShareW (wfun wt) b n h) b n h h1 hb hn2
    (fun k _ hk => share_zero_left H k hk) (fun k hk1 hk2 => share_zero_right H k hk1 hk2)
    (fun k hk1 hk2 => share_rising H k hk1 hk2) (fun k hk1 hk2 hk3 => share_falling H k hk1 hk2 hk3)
    (fun k hk1 hk2 hk3 => share_pos H k hk1 hk2 hk3)

/-- **the noise-free step, weighted path**: `haarSeg(step, q, W)` with any positive weights reports exactly one
breakpoint, at `b`, sizes `(b, n - b)`, weighted means `(lo, hi)` -/
theorem haarSegW_ideal_step (rnd : Rat → Rat) (fac : Nat → Rat) (hfac : ∀ h, 0 < fac h) (p : Nat → List Rat)
    (q lo hi : Rat) (hne : lo ≠ hi) (b n : Nat) (hb : 32 ≤ b) (hn : b + 32 ≤ n) (wt : List Rat)
    (hw : wt.length = n) (hpos : ∀ x ∈ wt, 0 < x) :
    haarSegW rnd fac p q (stepSig lo hi b n) wt
      = { start := [0, b], stop := [(b : Int) - 1, (n : Int) - 1],
          size := [(b : Int), (n : Int) - (b : Int)], mean := [lo, hi] } := by
  unfold haarSegW
  apply haarSegWith_single_peak _ _ _ (by decide) (fun lv x hx => fdrThres_small rnd x q (p lv) hx) lo hi b n
    (by omega) (by omega) ?_ (some wt) (by intro ws e; simp at e; subst e; exact hw)
  intro row hrow
  obtain ⟨h1, h32⟩ := table_rows row hrow
  rw [haarConvW_ideal_step (fac row.2.1) lo hi b n row.2.1 wt h1 (by omega) (by omega) hw hpos]
  exact peaks_stepRespW (fac row.2.1) lo hi (hfac _) hne b n row.2.1 wt h1 (by omega) (by omega) (by omega) hw hpos

/-- a constant signal has zero weighted response wherever the window weight sums do not vanish -/
theorem respW_const (c : Rat) (n h : Nat) (wt : List Rat) (fac : Rat) (k : Nat)
    (d1 : lowWin (wfun wt) h k ≠ 0) (d2 : highWin (wfun wt) n h k ≠ 0) (hw : wt.length = n) :
    respW (List.replicate n c).toArray wt.toArray n h fac k = 0 := by
  have e : swOf (List.replicate n c).toArray wt.toArray = fun i => c * wfun wt i + 0 * wfun wt i := by
    funext i
    simp only [swOf, nth_toArray, wfun]
    by_cases hi' : i < n
    · rw [getD_replicate_lt c n i hi']; ring
    · have : wt.getD i 0 = 0 := by
        simp [List.getD_eq_getElem?_getD, List.getElem?_eq_none (show wt.length ≤ i by omega)]
      rw [this]; simp
  unfold respW
  rw [e, wOf_toArray, lowWin_lin, highWin_lin]
  field_simp
  ring

/-- positive weights: `HaarConv(constant, W, h)` is zero everywhere -/
theorem haarConvW_const (fac c : Rat) (n h : Nat) (wt : List Rat) (h1 : 1 ≤ h) (hw : wt.length = n)
    (hpos : ∀ x ∈ wt, 0 < x) : haarConvW fac (List.replicate n c) wt h = some (List.replicate n 0) := by
  by_cases hh : n < h
  · unfold haarConvW
    rw [List.length_replicate, if_pos hh]
  · have pos : ∀ i, i < n → 0 < wfun wt i := by
      intro i hi
      have hi' : i < wt.length := by omega
      simp only [wfun, List.getD_eq_getElem?_getD, List.getElem?_eq_getElem hi', Option.getD_some]
      exact hpos _ (List.getElem_mem hi')
    rw [haarConvW_eq fac _ wt h n (List.length_replicate ..) h1 (by omega) (by
      intro k _ hk2
      rw [wOf_toArray]
      exact ⟨ne_of_gt (lowWin_pos' _ n h h1 (by omega) pos k hk2), ne_of_gt (highWin_pos' _ n h h1 (by omega) pos k hk2)⟩)]
    rw [Option.some.injEq, List.eq_replicate_iff]
    refine ⟨by simp; omega, ?_⟩
    intro x hx
    rw [List.mem_cons] at hx
    rcases hx with rfl | hx
    · rfl
    · rw [List.mem_map] at hx
      obtain ⟨k, hk, rfl⟩ := hx
      rw [List.mem_range'_1] at hk
      exact respW_const c n h wt fac k (ne_of_gt (lowWin_pos' _ n h h1 (by omega) pos k (by omega)))
        (ne_of_gt (highWin_pos' _ n h h1 (by omega) pos k (by omega))) hw

theorem segTable_const_w (c : Rat) (n : Nat) (hn : 1 ≤ n) (wt : List Rat) (hw : wt.length = n) :
    segTable (List.replicate n c) (some wt) []
      = { start := [0], stop := [(n : Int) - 1], size := [(n : Int)], mean := [c] } := by
  unfold segTable
  rw [segmentByPeaks_eq _ _ _ (by constructor <;> simp)]
  simp only [List.length_replicate, bounds, List.nil_append, List.zip_cons_cons, List.zip_nil_right,
    List.flatMap_cons, List.flatMap_nil, List.append_nil, Nat.sub_zero, Option.map_some]
  have hs : slice (List.replicate n c) 0 n = List.replicate n c := by simp [slice]
  rw [hs, segValue_const c (List.replicate n c) _ (by
      intro h; have := congrArg List.length h; simp at this; omega) (by
      intro x hx; exact (List.mem_replicate.mp hx).2) (by
      intro ws hws; simp at hws; subst hws; simp [slice, hw])]
  obtain ⟨m, rfl⟩ : ∃ m, n = m + 1 := ⟨n - 1, by omega⟩
  simp [nth_toArray, List.replicate_succ]

/-- **the flat profile, weighted path** (exact arithmetic): a constant signal with positive weights has no
breakpoint -/
theorem haarSegW_flat (rnd : Rat → Rat) (fac : Nat → Rat) (p : Nat → List Rat) (q c : Rat) (n : Nat) (hn : 1 ≤ n)
    (wt : List Rat) (hw : wt.length = n) (hpos : ∀ x ∈ wt, 0 < x) :
    haarSegW rnd fac p q (List.replicate n c) wt
      = { start := [0], stop := [(n : Int) - 1], size := [(n : Int)], mean := [c] } := by
  unfold haarSegW haarSegWith
  rw [haarBreaks_none _ _ _ ?_]
  · exact segTable_const_w c n hn wt hw
  · intro row hrow
    obtain ⟨h1, _⟩ := table_rows row hrow
    rw [haarConvW_const (fac row.2.1) c n row.2.1 wt h1 hw hpos]
    exact findLocalPeaks_zero n

end CnvVerif.Haar
