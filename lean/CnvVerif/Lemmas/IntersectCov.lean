import CnvVerif.Model.Ranges
import CnvVerif.Model.IntervalSpec
import CnvVerif.Lemmas.Ranges
namespace CnvVerif

theorem bySharedChroms_nil_left (t : Table) (ke : Bool) : bySharedChroms [] t ke = [] := by
  unfold bySharedChroms
  have h1 : chromsInOrder ([] : Table) = [] := rfl
  have h2 : groupByChrom ([] : Table) = [] := rfl
  simp [h1, h2]

theorem bySharedChroms_nil_right (t : Table) : bySharedChroms t [] false = [] := by
  unfold bySharedChroms
  have h1 : chromsInOrder ([] : Table) = [] := rfl
  simp [h1]

theorem intersection_trim_nil_left (other : Table) : intersection [] other .trim = [] := by
  simp [intersection, byRanges, byRangesDf, bySharedChroms_nil_right]

theorem intersection_trim_nil_right (table : Table) : intersection table [] .trim = [] := by
  simp [intersection, byRanges, byRangesDf, bySharedChroms_nil_left]

/-- membership in the trimmed intersection on one chromosome -/
theorem mem_intersection_trim (c : String) (table other : Table)
    (ht : ∀ r ∈ table, r.chrom = c) (ho : ∀ r ∈ other, r.chrom = c)
    (hwf : WFTable table) (hq : ∀ b ∈ other, 0 ≤ b.s) (x : Row) :
    x ∈ intersection table other .trim ↔ ∃ r ∈ table, ∃ b ∈ other,
      r.e > b.s ∧ r.s < b.e ∧ x = { r with s := max r.s b.s, e := min r.e b.e } := by
  by_cases hne : table = []
  · subst hne
    rw [intersection_trim_nil_left]
    simp
  by_cases hno : other = []
  · subst hno
    rw [intersection_trim_nil_right]
    simp
  have e : (Mode.trim == Mode.trim) = true := rfl
  simp only [intersection, e, if_true, byRanges, byRangesDf_single c table other ht ho hne hno]
  simp only [List.mem_flatten, List.mem_map, List.mem_filter]
  constructor
  · rintro ⟨l, ⟨p, ⟨⟨b, hb, rfl⟩, _⟩, rfl⟩, hx⟩
    simp only at hx
    rw [selectRange_trim table hwf b.s b.e (hq b hb), List.mem_map] at hx
    obtain ⟨r, hr, rfl⟩ := hx
    rw [List.mem_filter] at hr
    have h2 := hr.2
    simp only [Bool.and_eq_true, decide_eq_true_eq] at h2
    exact ⟨r, hr.1, b, hb, h2.1, h2.2, rfl⟩
  · rintro ⟨r, hr, b, hb, h1, h2, rfl⟩
    have hmem : ({ r with s := max r.s b.s, e := min r.e b.e } : Row) ∈
        selectRange table (some b.s) (some b.e) .trim := by
      rw [selectRange_trim table hwf b.s b.e (hq b hb), List.mem_map]
      refine ⟨r, ?_, rfl⟩
      rw [List.mem_filter]
      exact ⟨hr, by simp only [Bool.and_eq_true, decide_eq_true_eq]; exact ⟨h1, h2⟩⟩
    refine ⟨_, ⟨(b, selectRange table (some b.s) (some b.e) .trim), ⟨⟨b, hb, rfl⟩, ?_⟩, rfl⟩, hmem⟩
    have : selectRange table (some b.s) (some b.e) .trim ≠ [] := List.ne_nil_of_mem hmem
    simp [this]

/-- `intersection(mode=trim)` on one chromosome covers exactly the bases of the table that lie in some query range
    (set intersection on base pairs), whatever overlaps / nests / repeats on either side -/
theorem intersection_trim_cov (c : String) (table other : Table)
    (ht : ∀ r ∈ table, r.chrom = c) (ho : ∀ r ∈ other, r.chrom = c)
    (hwf : WFTable table) (hq : ∀ b ∈ other, 0 ≤ b.s) (p : Int) :
    cov (intersection table other .trim) p ↔ (cov table p ∧ cov other p) := by
  unfold cov
  constructor
  · rintro ⟨x, hx, h1, h2⟩
    rw [mem_intersection_trim c table other ht ho hwf hq] at hx
    obtain ⟨r, hr, b, hb, _, _, rfl⟩ := hx
    have h1' : max r.s b.s ≤ p := h1
    have h2' : p < min r.e b.e := h2
    exact ⟨⟨r, hr, by omega, by omega⟩, ⟨b, hb, by omega, by omega⟩⟩
  · rintro ⟨⟨r, hr, h1, h2⟩, ⟨b, hb, h3, h4⟩⟩
    refine ⟨{ r with s := max r.s b.s, e := min r.e b.e }, ?_, ?_, ?_⟩
    · rw [mem_intersection_trim c table other ht ho hwf hq]
      exact ⟨r, hr, b, hb, by omega, by omega, rfl⟩
    · show max r.s b.s ≤ p
      omega
    · show p < min r.e b.e
      omega

/-- every piece is a row of the table clipped to one query range: it carries the row's other fields -/
theorem intersection_trim_pieces (c : String) (table other : Table)
    (ht : ∀ r ∈ table, r.chrom = c) (ho : ∀ r ∈ other, r.chrom = c)
    (hwf : WFTable table) (hq : ∀ b ∈ other, 0 ≤ b.s) :
    ∀ x ∈ intersection table other .trim, ∃ r ∈ table, ∃ b ∈ other,
      r.e > b.s ∧ r.s < b.e ∧ x = { r with s := max r.s b.s, e := min r.e b.e } := by
  intro x hx
  exact (mem_intersection_trim c table other ht ho hwf hq x).mp hx


end CnvVerif
