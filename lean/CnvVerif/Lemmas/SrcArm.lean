/-
  `GenomicArray.by_arm`: the model's centromere choice (`cmereIdx`, Model/Tile.lean) equals the body of the Python
  function re-assembled from the expressions the translator reads off the current source
  (Generated/ExprsByArm.lean, regenerated from /repo on every run).  The control flow of `srcCmereIdx` below and the
  reading of a Python slice (`pySlice`) are written by hand after skgenome/gary.py and are trusted; every expression in
  it is generated.
-/
import CnvVerif.Generated.ExprsByArm
import CnvVerif.Model.Tile
import Mathlib.Data.Rat.Floor
import Mathlib.Tactic.Linarith
namespace CnvVerif.Src
set_option linter.unusedTactic false
set_option linter.unreachableTactic false
open CnvVerif CnvVerif.Generated

/-- Python `l[lo:hi]` (step 1): a negative bound counts from the end; bounds are clipped to the list -/
def pySlice {α} (l : List α) (lo hi : Int) : List α :=
  let n : Int := l.length
  let norm (x : Int) : Int := if x < 0 then max (n + x) 0 else min x n
  (l.drop (norm lo).toNat).take ((norm hi) - (norm lo)).toNat

/-- the body of `by_arm` for one chromosome, given `margin`: control flow by hand, expressions generated.
    Returns the row position where the chromosome is split (`0` = emitted whole). -/
def srcCmereIdx (starts ends : List Int) (minGap : Int) (margin : Nat) : Nat :=
  let n : Int := starts.length
  let m : Int := margin
  if src_by_arm_candidate m n then
    let gaps := ((pySlice starts (src_by_arm_starts_lo m) (src_by_arm_starts_hi m)).zip
                 (pySlice ends (src_by_arm_ends_lo m) (src_by_arm_ends_hi m))).map (fun p => p.1 - p.2)
    let idx := src_by_arm_idx (argmax gaps) m
    let size := gaps.getD (src_by_arm_size_pos idx m).toNat 0
    if src_by_arm_accept idx size minGap then (src_by_arm_p_hi idx).toNat else 0
  else
    if src_by_arm_accept src_by_arm_idx_else 0 minGap then (src_by_arm_p_hi src_by_arm_idx_else).toNat else 0

theorem pySlice_pos_neg {α} (l : List α) (lo k : Nat) (hk : 0 < k) (h : lo + k ≤ l.length) :
    pySlice l (lo : Int) (-(k : Int)) = (l.drop lo).take (l.length - k - lo) := by
  unfold pySlice
  simp only []
  have h1 : ¬ ((lo : Int) < 0) := by omega
  have h2 : (-(k : Int)) < 0 := by omega
  rw [if_neg h1, if_pos h2]
  have e1 : (min (lo : Int) (l.length : Int)).toNat = lo := by omega
  have e2 : (max ((l.length : Int) + -(k : Int)) 0 - min (lo : Int) (l.length : Int)).toNat = l.length - k - lo := by omega
  rw [e1, e2]

/-! the generated fragments, each with the value the model uses (proved by arithmetic, not by `rfl`, so that an
    equivalent spelling of a fragment in the source keeps the tie green) -/

theorem candidate_iff (m n : Int) : src_by_arm_candidate m n = true ↔ n > 2 * m + 1 := by
  unfold src_by_arm_candidate; simp only [decide_eq_true_eq]
  first | done | omega

theorem accept_iff (i s g : Int) : src_by_arm_accept i s g = true ↔ (i ≠ 0 ∧ g ≤ s) := by
  unfold src_by_arm_accept; simp only [decide_eq_true_eq]
  first | done | omega

theorem frag_values (m : Int) :
    src_by_arm_starts_lo m = m + 1 ∧ src_by_arm_starts_hi m = -m ∧ src_by_arm_ends_lo m = m ∧
    src_by_arm_ends_hi m = -(m + 1) ∧ (∀ a, src_by_arm_idx a m = a + m + 1) ∧
    (∀ i, src_by_arm_size_pos i m = i - m - 1) ∧ src_by_arm_idx_else = 0 ∧
    (∀ i, src_by_arm_p_hi i = i) ∧ (∀ i, src_by_arm_q_lo i = i) := by
  unfold src_by_arm_starts_lo src_by_arm_starts_hi src_by_arm_ends_lo src_by_arm_ends_hi src_by_arm_idx
    src_by_arm_size_pos src_by_arm_idx_else src_by_arm_p_hi src_by_arm_q_lo
  refine ⟨by omega, by omega, by omega, by omega, fun a => by omega, fun i => by omega, by omega,
    fun i => by omega, fun i => by omega⟩

/-- the model's choice is the source's, for any positive margin (the Python slice `[margin+1 : -margin]` is empty
    for margin 0, where the model would differ; `by_arm` is only ever called with `min_arm_bins = 50`) -/
theorem cmereIdx_is_source (starts ends : List Int) (hlen : ends.length = starts.length) (minGap : Int)
    (minArmBins : Nat) (hpos : 0 < minArmBins) :
    cmereIdx starts ends minGap minArmBins =
      srcCmereIdx starts ends minGap (max minArmBins (roundTenth starts.length)) := by
  unfold cmereIdx srcCmereIdx
  simp only []
  generalize hm : max minArmBins (roundTenth starts.length) = m
  have hmpos : 0 < m := by omega
  obtain ⟨v1, v2, v3, v4, v5, v6, v7, v8, _⟩ := frag_values (m : Int)
  rw [v1, v2, v3, v4, v7]
  simp only [v5, v6, v8]
  by_cases hc : starts.length > 2 * m + 1
  · have hc' : src_by_arm_candidate (m : Int) (starts.length : Int) = true := (candidate_iff _ _).mpr (by omega)
    rw [if_pos hc, hc']
    simp only [if_true]
    have s1 : pySlice starts ((m : Int) + 1) (-(m : Int)) =
        (starts.drop (m + 1)).take (starts.length - m - (m + 1)) := by
      have := pySlice_pos_neg starts (m + 1) m hmpos (by omega)
      rw [← this]; push_cast; rfl
    have s2 : pySlice ends (m : Int) (-((m : Int) + 1)) =
        (ends.drop m).take (starts.length - m - 1 - m) := by
      have := pySlice_pos_neg ends m (m + 1) (by omega) (by omega)
      rw [show (-((m : Int) + 1)) = -((m + 1 : Nat) : Int) by push_cast; ring, this, hlen]
      congr 1
    rw [s1, s2]
    generalize ((((starts.drop (m + 1)).take (starts.length - m - (m + 1))).zip
      ((ends.drop m).take (starts.length - m - 1 - m))).map (fun p => p.1 - p.2)) = gaps
    have e1 : (((argmax gaps : Int) + (m : Int) + 1 - (m : Int) - 1)).toNat = argmax gaps := by omega
    rw [e1]
    by_cases hs : gaps.getD (argmax gaps) 0 ≥ minGap
    · have : src_by_arm_accept ((argmax gaps : Int) + (m : Int) + 1) (gaps.getD (argmax gaps) 0) minGap = true :=
        (accept_iff _ _ _).mpr ⟨by omega, hs⟩
      rw [if_pos hs, this]
      simp only [if_true]
      omega
    · have : src_by_arm_accept ((argmax gaps : Int) + (m : Int) + 1) (gaps.getD (argmax gaps) 0) minGap = false := by
        rw [Bool.eq_false_iff]; intro h; exact hs ((accept_iff _ _ _).mp h).2
      rw [if_neg hs, this]
      simp
  · have hc' : src_by_arm_candidate (m : Int) (starts.length : Int) = false := by
      rw [Bool.eq_false_iff]; intro h; exact hc (by have := (candidate_iff _ _).mp h; omega)
    have ha : src_by_arm_accept 0 0 minGap = false := by
      rw [Bool.eq_false_iff]; intro h; exact ((accept_iff _ _ _).mp h).1 rfl
    rw [if_neg hc, hc', ha]
    simp

/-- the two arms meet at the chosen position: `index[:cmere_idx]` and `index[cmere_idx:]` -/
theorem arms_meet (idx : Int) : src_by_arm_p_hi idx = idx ∧ src_by_arm_q_lo idx = idx :=
  ⟨(frag_values 0).2.2.2.2.2.2.2.1 idx, (frag_values 0).2.2.2.2.2.2.2.2 idx⟩

end CnvVerif.Src
