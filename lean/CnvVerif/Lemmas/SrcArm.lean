/-
  `GenomicArray.by_arm`: the model's centromere choice (`cmereIdx`, Model/Tile.lean) equals the body of the Python
  function re-assembled from the expressions the translator reads off the current source
  (Generated/ExprsByArm.lean, regenerated from /repo on every run).  The control flow of `srcCmereIdx` below and the
  reading of a Python slice (`pySlice`) are written by hand after skgenome/gary.py and are trusted; every expression in
  it is generated.
-/
import CnvVerif.Generated.ExprsByArm
import CnvVerif.Model.Tile
import Mathlib.Data.Rat.Floor
import Mathlib.Tactic.Linarith
namespace CnvVerif.Src
set_option linter.unusedTactic false
set_option linter.unreachableTactic false
open CnvVerif CnvVerif.Generated

/-- Python `l[lo:hi]` (step 1): a negative bound counts from the end; bounds are clipped to the list -/
def pySlice {α} (l : List α) (lo hi : Int) : List α :=
  let n : Int := l.length
  let norm (x : Int) : Int := if x < 0 then max (n + x) 0 else min x n
  (l.drop (norm lo).toNat).take ((norm hi) - (norm lo)).toNat

/-- the body of `by_arm` for one chromosome, given `margin`: control flow by hand, expressions generated.
    Returns the row position where the chromosome is split (`0` = emitted whole). -/
def srcCmereIdx (starts ends : List Int) (minGap : Int) (margin : Nat) : Nat :=
  let n : Int := starts.length
  let m : Int := margin
  if src_by_arm_candidate n m then
    let gaps := ((pySlice starts (src_by_arm_starts_lo m) (src_by_arm_starts_hi m)).zip
                 (pySlice ends (src_by_arm_ends_lo m) (src_by_arm_ends_hi m))).map (fun p => p.1 - p.2)
    let idx := src_by_arm_idx (argmax gaps) m
    let size := gaps.getD (src_by_arm_size_pos idx m).toNat 0
    if src_by_arm_accept idx size minGap then (src_by_arm_p_hi idx).toNat else 0
  else
    if src_by_arm_accept src_by_arm_idx_else 0 minGap then (src_by_arm_p_hi src_by_arm_idx_else).toNat else 0

theorem pySlice_pos_neg {α} (l : List α) (lo k : Nat) (hk : 0 < k) (h : lo + k ≤ l.length) :
    pySlice l (lo : Int) (-(k : Int)) = (l.drop lo).take (l.length - k - lo) := by
  unfold pySlice
  simp only []
  have h1 : ¬ ((lo : Int) < 0) := by omega
  have h2 : (-(k : Int)) < 0 := by omega
  rw [if_neg h1, if_pos h2]
  have e1 : (min (lo : Int) (l.length : Int)).toNat = lo := by omega
  have e2 : (max ((l.length : Int) + -(k : Int)) 0 - min (lo : Int) (l.length : Int)).toNat = l.length - k - lo := by omega
  rw [e1, e2]

/-! the generated fragments, each with the value the model uses (proved by arithmetic, not by `rfl`, so that an
    equivalent spelling of a fragment in the source keeps the tie green) -/

theorem candidate_iff (n m : Int) : src_by_arm_candidate n m = true ↔ n > 2 * m + 1 := by
  unfold src_by_arm_candidate; simp only [decide_eq_true_eq]
  first | done | omega

theorem accept_iff (i s g : Int) : src_by_arm_accept i s g = true ↔ (i ≠ 0 ∧ g ≤ s) := by
  unfold src_by_arm_accept; simp only [decide_eq_true_eq]
  first | done | omega

theorem frag_values (m : Int) :
    src_by_arm_starts_lo m = m + 1 ∧ src_by_arm_starts_hi m = -m ∧ src_by_arm_ends_lo m = m ∧
    src_by_arm_ends_hi m = -(m + 1) ∧ (∀ a, src_by_arm_idx a m = a + m + 1) ∧
    (∀ i, src_by_arm_size_pos i m = i - m - 1) ∧ src_by_arm_idx_else = 0 ∧
    (∀ i, src_by_arm_p_hi i = i) ∧ (∀ i, src_by_arm_q_lo i = i) := by
  unfold src_by_arm_starts_lo src_by_arm_starts_hi src_by_arm_ends_lo src_by_arm_ends_hi src_by_arm_idx
    src_by_arm_size_pos src_by_arm_idx_else src_by_arm_p_hi src_by_arm_q_lo
  refine ⟨by omega, by omega, by omega, by omega, fun a => by omega, fun i => by omega, by omega,
    fun i => by omega, fun i => by omega⟩

/-- the model's choice is the source's, for any positive margin (the Python slice `[margin+1 : -margin]` is empty
    for margin 0, where the model would differ; `by_arm` is only ever called with `min_arm_bins = 50`) -/
theorem cmereIdx_is_source (starts ends : List Int) (hlen : ends.length = starts.length) (minGap : Int)
    (minArmBins : Nat) (hpos : 0 < minArmBins) :
    cmereIdx starts ends minGap minArmBins =
      srcCmereIdx starts ends minGap (max minArmBins (roundTenth starts.length)) := by
  unfold cmereIdx srcCmereIdx
  simp only []
  generalize hm : max minArmBins (roundTenth starts.length) = m
  have hmpos : 0 < m := by omega
  obtain ⟨v1, v2, v3, v4, v5, v6, v7, v8, _⟩ := frag_values (m : Int)
  rw [v1, v2, v3, v4, v7]
  simp only [v5, v6, v8]
  by_cases hc : starts.length > 2 * m + 1
  · have hc' : src_by_arm_candidate (starts.length : Int) (m : Int) = true := (candidate_iff _ _).mpr (by omega)
    rw [if_pos hc, hc']
    simp only [if_true]
    have s1 : pySlice starts ((m : Int) + 1) (-(m : Int)) =
        (starts.drop (m + 1)).take (starts.length - m - (m + 1)) := by
      have := pySlice_pos_neg starts (m + 1) m hmpos (by omega)
      rw [← this]; push_cast; rfl
    have s2 : pySlice ends (m : Int) (-((m : Int) + 1)) =
        (ends.drop m).take (starts.length - m - 1 - m) := by
      have := pySlice_pos_neg ends m (m + 1) (by omega) (by omega)
      rw [show (-((m : Int) + 1)) = -((m + 1 : Nat) : Int) by push_cast; ring, this, hlen]
      congr 1
    rw [s1, s2]
    generalize ((((starts.drop (m + 1)).take (starts.length - m - (m + 1))).zip
      ((ends.drop m).take (starts.length - m - 1 - m))).map (fun p => p.1 - p.2)) = gaps
    have e1 : (((argmax gaps : Int) + (m : Int) + 1 - (m : Int) - 1)).toNat = argmax gaps := by omega
    rw [e1]
    by_cases hs : gaps.getD (argmax gaps) 0 ≥ minGap
    · have : src_by_arm_accept ((argmax gaps : Int) + (m : Int) + 1) (gaps.getD (argmax gaps) 0) minGap = true :=
        (accept_iff _ _ _).mpr ⟨by omega, hs⟩
      rw [if_pos hs, this]
      simp only [if_true]
      omega
    · have : src_by_arm_accept ((argmax gaps : Int) + (m : Int) + 1) (gaps.getD (argmax gaps) 0) minGap = false := by
        rw [Bool.eq_false_iff]; intro h; exact hs ((accept_iff _ _ _).mp h).2
      rw [if_neg hs, this]
      simp
  · have hc' : src_by_arm_candidate (starts.length : Int) (m : Int) = false := by
      rw [Bool.eq_false_iff]; intro h; exact hc (by have := (candidate_iff _ _).mp h; omega)
    have ha : src_by_arm_accept 0 0 minGap = false := by
      rw [Bool.eq_false_iff]; intro h; exact ((accept_iff _ _ _).mp h).1 rfl
    rw [if_neg hc, hc', ha]
    simp

/-- the two arms meet at the chosen position: `index[:cmere_idx]` and `index[cmere_idx:]` -/
theorem arms_meet (idx : Int) : src_by_arm_p_hi idx = idx ∧ src_by_arm_q_lo idx = idx :=
  ⟨(frag_values 0).2.2.2.2.2.2.2.1 idx, (frag_values 0).2.2.2.2.2.2.2.2 idx⟩

/-! ### the margin -/

/-- the translator's rendering of Python's `round` never exceeds `k` below `k + 1/2` -/
theorem pyRound_le (r : Rat) (k : Int) (h : r < (k : Rat) + 1 / 2) :
    (let r_ : Rat := r; let f_ : Int := r_.floor;
      if 2 * (r_ - (f_ : Rat)) < 1 then (f_ : Rat) else if 2 * (r_ - (f_ : Rat)) > 1 then ((f_ + 1 : Int) : Rat)
      else if f_ % 2 = 0 then (f_ : Rat) else ((f_ + 1 : Int) : Rat)) ≤ (k : Rat) := by
  simp only []
  have hf : ((r.floor : Int) : Rat) ≤ r := Rat.floor_le r
  have hfk : r.floor ≤ k := by
    have : ((r.floor : Int) : Rat) < ((k + 1 : Int) : Rat) := by push_cast; linarith
    have := Int.cast_lt.mp this
    omega
  rcases Int.lt_or_eq_of_le hfk with hlt | heq
  · have h1 : ((r.floor : Int) : Rat) ≤ (k : Rat) := by exact_mod_cast hfk
    have h2 : ((r.floor + 1 : Int) : Rat) ≤ (k : Rat) := by exact_mod_cast hlt
    split_ifs <;> assumption
  · have h1 : 2 * (r - ((r.floor : Int) : Rat)) < 1 := by rw [heq]; linarith
    rw [if_pos h1, heq]

/-- for every chromosome of at most 504 bins (the property quantifies over 1..400) the margin is the default
    `min_arm_bins` = 50, as in the model (`roundTenth n ≤ 50`) -/
theorem margin_small (n : Nat) (h : n ≤ 504) :
    src_by_arm_margin src_by_arm_default_min_arm_bins (n : Rat) = 50 ∧ max 50 (roundTenth n) = 50 := by
  constructor
  · unfold src_by_arm_margin src_by_arm_default_min_arm_bins
    apply max_eq_left
    have hn : (n : Rat) ≤ 504 := by exact_mod_cast h
    have := pyRound_le (((3602879701896397 : Rat) / 36028797018963968) * (n : Rat)) 50 (by
      have : ((3602879701896397 : Rat) / 36028797018963968) * (n : Rat) ≤
          ((3602879701896397 : Rat) / 36028797018963968) * 504 :=
        mul_le_mul_of_nonneg_left hn (by norm_num)
      have h2 : ((3602879701896397 : Rat) / 36028797018963968) * 504 < ((50 : Int) : Rat) + 1 / 2 := by norm_num
      linarith)
    simpa using this
  · unfold roundTenth
    simp only []
    split_ifs <;> omega

/-- for every chromosome whose bin count does not end in 5 (and below 10^15) the source's margin -- `round` applied to
    the EXACT product of the double 0.1 and the bin count -- is the model's `max min_arm_bins (roundTenth n)`.
    (For counts ending in 5 the exact product lies just above the half and Python's float product lands on it; the
    model rounds n/10 half-to-even, as the float computation does: compared on the real code by the harness.) -/
theorem margin_general (k n : Nat) (h5 : n % 10 ≠ 5) (hn : n < 10 ^ 15) :
    src_by_arm_margin (k : Rat) (n : Rat) = ((max k (roundTenth n) : Nat) : Rat) := by
  unfold src_by_arm_margin
  simp only []
  set c : Rat := (3602879701896397 : Rat) / 36028797018963968 with hc
  obtain ⟨q, d, hd, rfl⟩ : ∃ q d : Nat, d < 10 ∧ n = 10 * q + d := ⟨n / 10, n % 10, by omega, by omega⟩
  have hd5 : d ≠ 5 := by omega
  have hnR : ((10 * q + d : Nat) : Rat) < 10 ^ 15 := by exact_mod_cast hn
  have hn0 : (0 : Rat) ≤ ((10 * q + d : Nat) : Rat) := by positivity
  have hr : c * ((10 * q + d : Nat) : Rat) = (q : Rat) + (d : Rat) / 10 + ((10 * q + d : Nat) : Rat) / 180143985094819840 := by
    rw [hc]; push_cast; ring
  have heps0 : (0 : Rat) ≤ ((10 * q + d : Nat) : Rat) / 180143985094819840 := by positivity
  have heps1 : ((10 * q + d : Nat) : Rat) / 180143985094819840 < 1 / 100 := by
    rw [div_lt_iff₀ (by norm_num)]; linarith
  have hdR : (d : Rat) ≤ 9 := by exact_mod_cast (by omega : d ≤ 9)
  have hd0 : (0 : Rat) ≤ (d : Rat) := by positivity
  have hfl : (c * ((10 * q + d : Nat) : Rat)).floor = (q : Int) := by
    have : ⌊c * ((10 * q + d : Nat) : Rat)⌋ = (q : Int) := Int.floor_eq_iff.mpr ⟨by rw [hr]; push_cast; linarith, by rw [hr]; push_cast; linarith⟩
    exact this
  rw [hfl]
  have hrt : roundTenth (10 * q + d) = if d < 5 then q else q + 1 := by
    unfold roundTenth
    simp only []
    have e1 : (10 * q + d) / 10 = q := by omega
    have e2 : (10 * q + d) % 10 = d := by omega
    rw [e1, e2]
    split_ifs <;> omega
  rw [hrt]
  by_cases hlt : d < 5
  · have hdR' : (d : Rat) ≤ 4 := by exact_mod_cast (by omega : d ≤ 4)
    have h1 : 2 * (c * ((10 * q + d : Nat) : Rat) - ((q : Int) : Rat)) < 1 := by rw [hr]; push_cast; linarith
    rw [if_pos h1, if_pos hlt]; push_cast; rfl
  · have hdR' : (6 : Rat) ≤ (d : Rat) := by exact_mod_cast (by omega : 6 ≤ d)
    have h1 : ¬ 2 * (c * ((10 * q + d : Nat) : Rat) - ((q : Int) : Rat)) < 1 := by rw [hr]; push_cast; linarith
    have h2 : 2 * (c * ((10 * q + d : Nat) : Rat) - ((q : Int) : Rat)) > 1 := by rw [hr]; push_cast; linarith
    rw [if_neg h1, if_pos h2, if_neg hlt]; push_cast; rfl

end CnvVerif.Src
