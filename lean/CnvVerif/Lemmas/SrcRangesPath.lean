/-
  Source tie of skgenome/intersect.py, part: the path switch of `idx_ranges`.  The hand-written model equals the term the translator reads
  off the current source (Generated/ExprsRanges.lean, regenerated from /repo on every run).  Proofs by case analysis
  + `simp`, not `rfl`: spellings that leave the meaning alone keep them green.  One module per tied code path, so
  that an edit breaks exactly the obligations about that path.
-/
import CnvVerif.Generated.ExprsRanges
import CnvVerif.Model.RangesExt
import CnvVerif.Lemmas.Ranges
set_option linter.unusedSimpArgs false
set_option linter.unusedVariables false
namespace CnvVerif.Src
open CnvVerif CnvVerif.Generated

/-! ### the path switch of `idx_ranges` -/

theorem idxSelect_path_is_source (t : Table) (qs qe : Option Int) (inner : Bool) :
    idxSelect t qs qe inner =
      (match src_idx_ranges_path t qs qe with
       | 0 => t
       | 1 => irangeNested t qs qe inner
       | _ => irangeSimple t qs qe inner) := by
  unfold idxSelect src_idx_ranges_path
  cases t with
  | nil => simp
  | cons r rest =>
    cases qs <;> cases qe <;> cases hm : isMonotone ((r :: rest).map (·.e)) <;> simp [hm]

end CnvVerif.Src
