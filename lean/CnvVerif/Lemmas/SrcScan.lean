/-
  The model's threshold scan (`thresholdCall`: first index with `log2 ≤ thr[i]`, scaled and truncated; ceil above the last)
  IS the loop the translator reads off `call.absolute_threshold` on every run (Generated/ExprsScan.lean,
  `scan_rows` of harness/exprtrans.py).
-/
import CnvVerif.Generated.ExprsScan
import CnvVerif.Lemmas.CallExt
import Mathlib.Data.Rat.Floor
set_option linter.unusedTactic false
set_option linter.unusedSimpArgs false
set_option linter.unreachableTactic false
namespace CnvVerif.Src
open CnvVerif CnvVerif.Generated

/-- Python `int(x)` of a non-negative number, as the translator writes it -/
theorem intTrunc_nonneg (q : Rat) (h : 0 ≤ q) :
    (if q < 0 then ((q.ceil : Int) : Rat) else ((q.floor : Int) : Rat)) = ((q.floor : Int) : Rat) := by
  rw [if_neg (not_lt.mpr h)]

theorem floor_nat_div (a b : Nat) : (((a : Rat) / (b : Rat)).floor : Int) = ((a / b : Nat) : Int) := by
  have := Rat.floor_natCast_div_natCast a b
  exact this

/-- `int(cnum * ref_copies / ploidy)` is the natural-number division of the model -/
theorem intTrunc_scaled (i r ploidy : Nat) :
    (if ((i : Rat) * (r : Rat)) / (ploidy : Rat) < 0 then (((((i : Rat) * (r : Rat)) / (ploidy : Rat)).ceil : Int) : Rat)
      else (((((i : Rat) * (r : Rat)) / (ploidy : Rat)).floor : Int) : Rat)) = (((i * r / ploidy : Nat) : Int) : Rat) := by
  have h0 : (0 : Rat) ≤ ((i : Rat) * (r : Rat)) / (ploidy : Rat) := by positivity
  rw [intTrunc_nonneg _ h0]
  have : ((i : Rat) * (r : Rat)) = ((i * r : Nat) : Rat) := by push_cast; ring
  rw [this, floor_nat_div]

/-- `int(q)` for any spelling `q` of `a / b` with naturals `a`, `b` -/
theorem intTrunc_eq (q : Rat) (a b : Nat) (hq : q = (a : Rat) / (b : Rat)) :
    (if q < 0 then ((q.ceil : Int) : Rat) else ((q.floor : Int) : Rat)) = (((a / b : Nat) : Int) : Rat) := by
  subst hq
  have h0 : (0 : Rat) ≤ (a : Rat) / (b : Rat) := by positivity
  rw [intTrunc_nonneg _ h0, floor_nat_div]

/-- `int(np.ceil(q))` is `ceil q` -/
theorem intTrunc_ceil (q : Rat) :
    (if ((q.ceil : Int) : Rat) < 0 then (((((q.ceil : Int) : Rat)).ceil : Int) : Rat)
      else (((((q.ceil : Int) : Rat)).floor : Int) : Rat)) = ((q.ceil : Int) : Rat) := by
  split
  · rw [Rat.ceil_intCast]
  · rw [Rat.floor_intCast]

/-- the step value as a rational, in the shape the source computes it -/
theorem scaledIdx_cast (ploidy r i : Nat) :
    ((scaledIdx ploidy r i : Int) : Rat) =
      (if (r : Rat) ≠ (ploidy : Rat) then (((i * r / ploidy : Nat) : Int) : Rat) else (i : Rat)) := by
  unfold scaledIdx
  by_cases h : r = ploidy
  · have h' : (r : Rat) = (ploidy : Rat) := by exact_mod_cast h
    simp [h]
  · have h' : (r : Rat) ≠ (ploidy : Rat) := by exact_mod_cast h
    simp [h, h']

/-- the generated recursion started at index `k` is: the step value at `k + (first index with log2 ≤ thr)`, ceil if none -/
theorem scan_from (thr : List Rat) (ploidy r : Nat) (v t : Rat) (k : Nat) :
    src_absolute_threshold_scan v t (ploidy : Rat) (r : Rat) k thr =
      (match thr.findIdx? (fun th => decide (v ≤ th)) with
       | some i => ((scaledIdx ploidy r (k + i) : Int) : Rat)
       | none => ((((r : Rat) * t).ceil : Int) : Rat)) := by
  induction thr generalizing k with
  | nil =>
    simp only [src_absolute_threshold_scan, List.findIdx?_nil]
    first
    | exact intTrunc_ceil _
    | (rw [show (t * (r : Rat)) = (r : Rat) * t from mul_comm _ _]; exact intTrunc_ceil _)
  | cons a l ih =>
    rw [List.findIdx?_cons]
    unfold src_absolute_threshold_scan
    by_cases hva : v ≤ a
    · simp only [hva, ge_iff_le, decide_true, if_true, Nat.add_zero]
      rw [scaledIdx_cast]
      by_cases hrp : r = ploidy
      · subst hrp; simp
      · have h1 : (r : Rat) ≠ (ploidy : Rat) := by exact_mod_cast hrp
        have h2 : (ploidy : Rat) ≠ (r : Rat) := fun h => h1 h.symm
        simp only [ne_eq, h1, h2, not_false_eq_true, if_true, not_true_eq_false, if_false, not_not]
        exact intTrunc_eq _ (k * r) ploidy (by push_cast; ring)
    · simp only [hva, ge_iff_le, decide_false, if_false, Bool.false_eq_true]
      rw [ih (k + 1)]
      cases l.findIdx? (fun th => decide (v ≤ th)) with
      | none => rfl
      | some i => simp only [Option.map_some]; rw [show k + 1 + i = k + (i + 1) by omega]

/-- `absolute_threshold`, one row with a log2: the model's call IS the source's loop -/
theorem thresholdCall_is_source (thr : List Rat) (ploidy r : Nat) (v t : Rat) :
    ((thresholdCall thr ploidy r (some v) t : Int) : Rat) =
      src_absolute_threshold_row v t (ploidy : Rat) (r : Rat) thr := by
  unfold src_absolute_threshold_row
  rw [scan_from thr ploidy r v t 0]
  unfold thresholdCall
  simp only []
  generalize thr.findIdx? (fun th => decide (v ≤ th)) = fi
  cases fi with
  | none => rfl
  | some i =>
    simp only [Nat.zero_add]
    unfold scaledIdx
    rfl

/-- … and a row whose log2 is NaN gets the reference copies -/
theorem thresholdCall_nan_is_source (thr : List Rat) (ploidy r : Nat) (v t : Rat) :
    ((thresholdCall thr ploidy r none t : Int) : Rat) = src_absolute_threshold_nan v t (ploidy : Rat) (r : Rat) := by
  unfold src_absolute_threshold_nan thresholdCall
  first | rfl | simp

end CnvVerif.Src
