/-
  C04, the headline clause at the level of a whole class of bins: after `load_adjust_coverages`
  (match by coordinate, drop bad bins, centre, any subset of the three corrections) the corrected
  sample rows are exactly the sample bins whose coordinate-matched reference bin is good, in genomic
  order, and the matched reference rows are aligned with them position by position — so the final
  subtraction pairs every bin with its own reference bin.
-/
import CnvVerif.Model.Fix
import CnvVerif.Lemmas.Fix
namespace CnvVerif

/-- the sample bins whose coordinate-matched reference bin passes the filters -/
def goodRows (samp : List SRow) (ref : List RRow) : List SRow :=
  samp.filter fun r => match ref.find? (fun q => rKey q == sKey r) with
    | some q => !badBin q
    | none => false

/-- genomic order determines the row: two rows that compare equal both ways are the same bin
    (no two chromosome names of the table share a sort key, e.g. not both "chr1" and "1") -/
def KeysSortable (samp : List SRow) : Prop :=
  ∀ a ∈ samp, ∀ b ∈ samp, sSortLe a b = true → sSortLe b a = true → sKey a = sKey b

/-! ### helpers -/

/-- `sSortLe` only reads the coordinates: the same comparison on keys -/
def kLe (a b : String × Int × Int) : Bool :=
  let ka := sorterChrom a.1
  let kb := sorterChrom b.1
  chromKeyLt ka kb || (ka == kb && (a.2.1 < b.2.1 || (a.2.1 == b.2.1 && a.2.2 ≤ b.2.2)))

theorem sSortLe_eq_kLe (a b : SRow) : sSortLe a b = kLe (sKey a) (sKey b) := rfl

/-- KEY STEP: a sorted list of rows is determined (as a list of coordinates) by its multiset of
    coordinates, as long as genomic order separates the coordinates involved -/
theorem keys_eq_of_sorted (samp l1 l2 : List SRow) (hks : KeysSortable samp)
    (h1 : ∀ a ∈ l1, sKey a ∈ samp.map sKey) (h2 : ∀ a ∈ l2, sKey a ∈ samp.map sKey)
    (s1 : l1.Pairwise (fun a b => sSortLe a b = true))
    (s2 : l2.Pairwise (fun a b => sSortLe a b = true))
    (hp : (l1.map sKey).Perm (l2.map sKey)) : l1.map sKey = l2.map sKey := by
  refine List.Perm.eq_of_pairwise (le := fun a b => kLe a b = true) ?_ ?_ ?_ hp
  · intro ka kb ha hb hab hba
    obtain ⟨a, ha1, rfl⟩ := List.mem_map.mp ha
    obtain ⟨b, hb1, rfl⟩ := List.mem_map.mp hb
    obtain ⟨a', ha', hka⟩ := List.mem_map.mp (h1 a ha1)
    obtain ⟨b', hb', hkb⟩ := List.mem_map.mp (h2 b hb1)
    rw [← hka, ← hkb] at hab hba ⊢
    exact hks a' ha' b' hb' hab hba
  · rw [List.pairwise_map]; exact s1
  · rw [List.pairwise_map]; exact s2

/-- one correction leaves the list of coordinates as it was -/
theorem cbw_keys (samp : List SRow) (hks : KeysSortable samp) (perm : List Nat) (wing : Nat)
    (t : List SRow) (keys : List Rat)
    (ht : t.Pairwise (fun a b => sSortLe a b = true))
    (hsub : ∀ a ∈ t, sKey a ∈ samp.map sKey)
    (hp : IsPerm perm t.length) (hk : keys.length = t.length) :
    (centerByWindow perm wing t keys).map sKey = t.map sKey := by
  have hrows := centerByWindow_rows perm wing t keys hp hk
  have hkp : ((centerByWindow perm wing t keys).map sKey).Perm (t.map sKey) := by
    have := hrows.map (fun p : String × Int × Int × String × Rat => (p.1, p.2.1, p.2.2.1))
    rw [List.map_map, List.map_map] at this
    exact this
  refine keys_eq_of_sorted samp _ _ hks ?_ hsub (centerByWindow_sorted perm wing t keys) ht hkp
  intro a ha
  have : sKey a ∈ t.map sKey := hkp.mem_iff.mp (List.mem_map_of_mem ha)
  obtain ⟨b, hb, hab⟩ := List.mem_map.mp this
  rw [← hab]; exact hsub b hb

/-- invariant of the chain of corrections: in genomic order, coordinates as after centring -/
def FixTracks (cn1 t : List SRow) : Prop :=
  t.Pairwise (fun a b => sSortLe a b = true) ∧ t.map sKey = cn1.map sKey

theorem FixTracks.length {cn1 t : List SRow} (h : FixTracks cn1 t) : t.length = cn1.length := by
  have := congrArg List.length h.2
  simpa using this

theorem fixTracks_step (samp : List SRow) (hks : KeysSortable samp) (cn1 : List SRow)
    (hsub1 : ∀ a ∈ cn1, sKey a ∈ samp.map sKey) (perm : List Nat) (wing : Nat)
    (hp : IsPerm perm cn1.length) (t : List SRow) (ht : FixTracks cn1 t) (c : Bool) (keys : List Rat)
    (hk : c = true → keys.length = t.length) :
    FixTracks cn1 (if c = true then centerByWindow perm wing t keys else t) := by
  by_cases hc : c = true
  · rw [if_pos hc]
    have hsub : ∀ a ∈ t, sKey a ∈ samp.map sKey := by
      intro a ha
      have : sKey a ∈ cn1.map sKey := by rw [← ht.2]; exact List.mem_map_of_mem ha
      obtain ⟨b, hb, hab⟩ := List.mem_map.mp this
      rw [← hab]; exact hsub1 b hb
    have hp' : IsPerm perm t.length := by rw [ht.length]; exact hp
    exact ⟨centerByWindow_sorted perm wing t keys,
      (cbw_keys samp hks perm wing t keys ht.1 hsub hp' (hk hc)).trans ht.2⟩
  · rw [if_neg hc]; exact ht

/-! ### the edge-bias keys are positional: one per row -/

theorem edgeBiasChrom_length (tiles : List (Int × Int)) (m : Int) :
    (edgeBiasChrom tiles m).length = tiles.length := by
  simp [edgeBiasChrom]

theorem length_filter_add' {α} (p : α → Bool) (t : List α) :
    (t.filter p).length + (t.filter (fun r => !p r)).length = t.length := by
  induction t with
  | nil => rfl
  | cons x t ih =>
    by_cases h : p x = true <;> simp [h] <;> omega

/-- the chromosome groups partition the table -/
theorem sum_groups' {α} (key : α → String) (ks : List String) (t : List α) (h : ∀ r ∈ t, key r ∈ ks) :
    ((ks.eraseDups).map (fun c => (t.filter (fun r => key r == c)).length)).sum = t.length := by
  match ks with
  | [] =>
    cases t with
    | nil => rfl
    | cons x t => exact absurd (h x (List.mem_cons_self ..)) (by simp)
  | k :: ks' =>
    rw [List.eraseDups_cons, List.map_cons, List.sum_cons]
    have hlen : (ks'.filter (fun b => !b == k)).length < (k :: ks').length :=
      Nat.lt_succ_of_le (List.length_filter_le _ _)
    have ih := sum_groups' key (ks'.filter (fun b => !b == k)) (t.filter (fun r => !(key r == k)))
      (by
        intro r hr
        rw [List.mem_filter] at hr ⊢
        have h1 := h r hr.1
        have h2 := hr.2
        simp only [Bool.not_eq_true', beq_eq_false_iff_ne, ne_eq] at h2
        rcases List.mem_cons.mp h1 with h1 | h1
        · exact absurd h1 h2
        · exact ⟨h1, by simpa using h2⟩)
    have hcongr : ((ks'.filter (fun b => !b == k)).eraseDups).map
          (fun c => (t.filter (fun r => key r == c)).length) =
        ((ks'.filter (fun b => !b == k)).eraseDups).map
          (fun c => ((t.filter (fun r => !(key r == k))).filter (fun r => key r == c)).length) := by
      apply List.map_congr_left
      intro c hc
      rw [List.mem_eraseDups, List.mem_filter] at hc
      have hck : c ≠ k := by simpa using hc.2
      rw [List.filter_filter]
      congr 1
      apply List.filter_congr
      intro r _
      by_cases hrc : key r = c
      · subst hrc; simp [hck]
      · simp [hrc]
    rw [hcongr, ih]
    exact length_filter_add' _ t
termination_by ks.length

theorem edgeBias_length (t : List SRow) (m : Int) : (edgeBias t m).length = t.length := by
  unfold edgeBias
  rw [List.length_flatMap]
  have : (fun c => (edgeBiasChrom ((t.filter (·.chrom == c)).map (fun r => (r.s, r.e))) m).length)
      = (fun c => (t.filter (fun r => r.chrom == c)).length) := by
    funext c
    rw [edgeBiasChrom_length, List.length_map]
  rw [this]
  exact sum_groups' (·.chrom) _ t (fun r hr => List.mem_map_of_mem hr)

/-! ### the matched reference rows, the mask and `goodRows` -/

theorem all_some_of_no_none {α} (l : List (Option α)) (h : ¬ (l.filter (·.isNone)).length > 0) :
    l = (l.filterMap id).map some := by
  induction l with
  | nil => rfl
  | cons a t ih =>
    cases a with
    | none => simp at h
    | some q =>
      have h' : ¬ (t.filter (·.isNone)).length > 0 := by simpa using h
      have hcons : (some q :: t).filterMap id = q :: t.filterMap id := rfl
      rw [hcons, List.map_cons, ← ih h']

/-- a successful match is the row-by-row lookup -/
theorem matchRef_lookup (ref : List RRow) (samp : List SRow) (m : List RRow)
    (h : matchRef ref samp = .ok m) : samp.map (refFind ref) = m.map some := by
  rw [matchRef_eq] at h
  split at h
  · cases h
  · split at h
    · cases h
    · split at h
      · cases h
      · rename_i hm
        cases h
        exact all_some_of_no_none _ hm

/-- masking the sample with the matched reference = keeping the good rows; the kept reference
    rows carry the same coordinates position by position -/
theorem mask_eq_goodRows (ref : List RRow) (samp : List SRow) (m : List RRow)
    (h : samp.map (refFind ref) = m.map some) :
    ((samp.zip (m.map (fun r => !badBin r))).filter (·.2)).map (·.1) = goodRows samp ref ∧
    (m.filter (fun r => !badBin r)).map rKey = (goodRows samp ref).map sKey := by
  induction samp generalizing m with
  | nil =>
    cases m with
    | nil => exact ⟨rfl, rfl⟩
    | cons q m => simp at h
  | cons a t ih =>
    cases m with
    | nil => simp at h
    | cons q m =>
      rw [List.map_cons, List.map_cons, List.cons.injEq] at h
      obtain ⟨hq, ht⟩ := h
      obtain ⟨ih1, ih2⟩ := ih m ht
      have hfind : ref.find? (fun q => rKey q == sKey a) = some q := hq
      have hkey : rKey q = sKey a := by
        have := List.find?_some hfind
        simpa using this
      have hg : goodRows (a :: t) ref = if (!badBin q) = true then a :: goodRows t ref else goodRows t ref := by
        unfold goodRows
        rw [List.filter_cons, hfind]
      rw [hg]
      cases hb : badBin q with
      | true =>
        simp only [List.map_cons, List.zip_cons_cons, List.filter_cons, hb, Bool.not_true,
          Bool.false_eq_true, if_false]
        exact ⟨ih1, ih2⟩
      | false =>
        simp only [List.map_cons, List.zip_cons_cons, List.filter_cons, hb, Bool.not_false, if_true]
        rw [ih1, ih2, hkey]
        exact ⟨rfl, rfl⟩

theorem goodRows_perm (samp samp' : List SRow) (ref : List RRow) (hp : samp'.Perm samp) :
    (goodRows samp' ref).Perm (goodRows samp ref) := hp.filter _

theorem centerS_keys (skipLow : Bool) (par : Option String) (t : List SRow) :
    (centerS skipLow par t).map sKey = t.map sKey := by
  unfold centerS
  rw [List.map_map]
  rfl

theorem centerS_sorted (skipLow : Bool) (par : Option String) (t : List SRow)
    (h : t.Pairwise (fun a b => sSortLe a b = true)) :
    (centerS skipLow par t).Pairwise (fun a b => sSortLe a b = true) := by
  unfold centerS
  rw [List.pairwise_map]
  exact h

/-- MAIN: for any permutation the shuffle may use and any half-window, whatever corrections are on -/
theorem loadAdjust_aligned (samp : List SRow) (ref : List RRow) (skipLow fixGc fixEdge fixRmask : Bool)
    (par : Option String) (perm : List Nat) (wing : Nat) (ek : Option (List Rat))
    (cn : List SRow) (rf : List RRow) (sl : Rat)
    (hperm : IsPerm perm (goodRows (sortS samp) ref).length)
    (hks : KeysSortable samp)
    (h : loadAdjust samp ref skipLow fixGc fixEdge fixRmask par perm wing ek = .ok (cn, rf, sl)) :
    -- exactly the good bins (as a multiset of coordinates) …
    (cn.map sKey).Perm ((goodRows samp ref).map sKey) ∧
    -- … in genomic order …
    cn.Pairwise (fun a b => sSortLe a b = true) ∧
    -- … each next to its own reference row, which passes the filters
    rf.map rKey = cn.map sKey ∧ (∀ q ∈ rf, badBin q = false ∧ q ∈ ref) := by
  unfold loadAdjust at h
  by_cases he : samp.isEmpty
  · rw [if_pos he] at h
    cases h
    have : samp = [] := by simpa using he
    subst this
    refine ⟨?_, List.Pairwise.nil, rfl, ?_⟩
    · exact List.Perm.refl _
    · intro q hq; cases hq
  · rw [if_neg he] at h
    extract_lets samp' at h
    have hsp : samp'.Perm samp := List.mergeSort_perm _ _
    split at h
    · cases h
    · rename_i refM hm
      extract_lets keep cn0 rf' cn1 nOk cn2 ekeys cn3 cn4 exact slack at h
      obtain ⟨_, hmem⟩ := matchRef_ok ref samp' refM hm
      obtain ⟨hcn0, hrfk⟩ := mask_eq_goodRows ref samp' refM (matchRef_lookup ref samp' refM hm)
      have hcn0' : cn0 = goodRows samp' ref := hcn0
      have hrf' : rf'.map rKey = cn0.map sKey := by rw [hcn0']; exact hrfk
      have hcn0s : cn0.Pairwise (fun a b => sSortLe a b = true) := by
        rw [hcn0']; exact (sortS_sorted samp).filter _
      have hcn1k : cn1.map sKey = cn0.map sKey := centerS_keys skipLow par cn0
      have hcn1s : cn1.Pairwise (fun a b => sSortLe a b = true) := centerS_sorted skipLow par cn0 hcn0s
      have hlen1 : cn1.length = cn0.length := by simpa using congrArg List.length hcn1k
      have hlenrf : rf'.length = cn1.length := by
        have := congrArg List.length hrf'
        simp only [List.length_map] at this
        omega
      have hp1 : IsPerm perm cn1.length := by rw [hlen1, hcn0']; exact hperm
      have hsub1 : ∀ a ∈ cn1, sKey a ∈ samp.map sKey := by
        intro a ha
        have : sKey a ∈ cn0.map sKey := by rw [← hcn1k]; exact List.mem_map_of_mem ha
        obtain ⟨b, hb, hab⟩ := List.mem_map.mp this
        rw [← hab]
        rw [hcn0'] at hb
        exact List.mem_map_of_mem (hsp.mem_iff.mp (List.mem_filter.mp hb).1)
      have hrfgood : ∀ q ∈ rf', badBin q = false ∧ q ∈ ref := by
        intro q hq
        have := List.mem_filter.mp hq
        exact ⟨by simpa using this.2, hmem q this.1⟩
      -- whatever list `t` tracks `cn1`, the conclusion holds for it
      have hfinal : ∀ t, FixTracks cn1 t →
          (t.map sKey).Perm ((goodRows samp ref).map sKey) ∧
          t.Pairwise (fun a b => sSortLe a b = true) ∧
          rf'.map rKey = t.map sKey ∧ (∀ q ∈ rf', badBin q = false ∧ q ∈ ref) := by
        intro t ht
        have hk : t.map sKey = cn0.map sKey := ht.2.trans hcn1k
        refine ⟨?_, ht.1, by rw [hk]; exact hrf', hrfgood⟩
        rw [hk, hcn0']
        exact (goodRows_perm samp samp' ref hsp).map sKey
      have ht1 : FixTracks cn1 cn1 := ⟨hcn1s, rfl⟩
      split at h
      · have h' := Except.ok.inj h
        rw [Prod.mk.injEq, Prod.mk.injEq] at h'
        obtain ⟨e1, e2, _⟩ := h'
        rw [← e1, ← e2]
        exact hfinal cn1 ht1
      · have ht2 : FixTracks cn1 cn2 :=
          fixTracks_step samp hks cn1 hsub1 perm wing hp1 cn1 ht1 _ _ (by
            intro _; rw [List.length_map]; exact hlenrf)
        have hek : ekeys.length = cn2.length := by
          show (match ek with
            | some ks => if (ks.length == cn2.length) = true then ks else edgeBias cn2 Generated.INSERT_SIZE
            | none => edgeBias cn2 Generated.INSERT_SIZE).length = cn2.length
          split
          · split
            · rename_i hh; simpa using hh
            · exact edgeBias_length _ _
          · exact edgeBias_length _ _
        have ht3 : FixTracks cn1 cn3 :=
          fixTracks_step samp hks cn1 hsub1 perm wing hp1 cn2 ht2 _ _ (fun _ => hek)
        have ht4 : FixTracks cn1 cn4 :=
          fixTracks_step samp hks cn1 hsub1 perm wing hp1 cn3 ht3 _ _ (by
            intro _; rw [List.length_map, ht3.length]; exact hlenrf)
        have h' := Except.ok.inj h
        rw [Prod.mk.injEq, Prod.mk.injEq] at h'
        obtain ⟨e1, e2, _⟩ := h'
        rw [← e1, ← e2]
        exact hfinal cn4 ht4

/-- a sample bin absent from the reference, or duplicated coordinates, make the whole class fail -/
theorem loadAdjust_rejects (samp : List SRow) (ref : List RRow) (skipLow fixGc fixEdge fixRmask : Bool)
    (par : Option String) (perm : List Nat) (wing : Nat) (ek : Option (List Rat))
    (hne : samp ≠ [])
    (hbad : hasDup (samp.map sKey) = true ∨ hasDup (ref.map rKey) = true ∨
            ∃ r ∈ samp, ∀ q ∈ ref, rKey q ≠ sKey r) :
    ∃ e, loadAdjust samp ref skipLow fixGc fixEdge fixRmask par perm wing ek = .error e := by
  have hsp : (sortS samp).Perm samp := List.mergeSort_perm _ _
  have hm : ∃ e, matchRef ref (sortS samp) = .error e := by
    rcases hbad with h | h | ⟨r, hr, hq⟩
    · apply matchRef_rejects_dup
      left
      rw [hasDup_perm _ _ ((hsp.map sKey).symm)]
      exact h
    · exact matchRef_rejects_dup _ _ (Or.inr h)
    · exact matchRef_rejects_missing ref (sortS samp) r (hsp.mem_iff.mpr hr) hq
  obtain ⟨e, hm⟩ := hm
  have he : ¬ samp.isEmpty = true := by simpa using hne
  refine ⟨e, ?_⟩
  unfold loadAdjust
  rw [if_neg he]
  simp only []
  rw [hm]

theorem chromKeyLt_asymm (a b : Nat × String) (h1 : chromKeyLt a b = true) (h2 : chromKeyLt b a = true) : False := by
  simp only [chromKeyLt, Bool.or_eq_true, decide_eq_true_eq, Bool.and_eq_true, beq_iff_eq] at h1 h2
  rcases h1 with h1 | ⟨e1, l1⟩ <;> rcases h2 with h2 | ⟨e2, l2⟩
  · omega
  · omega
  · omega
  · exact absurd l1 (String.lt_asymm l2)

/-- the hypothesis of `fix_emits_exactly_good_bins_aligned` holds for every table whose chromosome names are told
    apart by the sort key (no mixture of spellings such as "chr1" and "1" in one table) -/
theorem keysSortable_of_distinct_names (samp : List SRow)
    (h : ∀ a ∈ samp, ∀ b ∈ samp, sorterChrom a.chrom = sorterChrom b.chrom → a.chrom = b.chrom) :
    KeysSortable samp := by
  intro a ha b hb hab hba
  by_cases hk : sorterChrom a.chrom = sorterChrom b.chrom
  · have hc := h a ha b hb hk
    have hirr : chromKeyLt (sorterChrom b.chrom) (sorterChrom b.chrom) = false := by
      simp [chromKeyLt, String.lt_irrefl]
    simp only [sSortLe, hc, hirr, Bool.false_or, beq_self_eq_true, Bool.true_and, Bool.or_eq_true,
      decide_eq_true_eq, Bool.and_eq_true, beq_iff_eq] at hab hba
    have hs : a.s = b.s := by omega
    have he : a.e = b.e := by omega
    simp [sKey, hc, hs, he]
  · have hne : (sorterChrom a.chrom == sorterChrom b.chrom) = false := by simpa using hk
    have hne' : (sorterChrom b.chrom == sorterChrom a.chrom) = false := by simpa using (Ne.symm hk)
    simp only [sSortLe, hne, hne', Bool.false_and, Bool.or_false] at hab hba
    exact (chromKeyLt_asymm _ _ hab hba).elim

theorem keysSortable_of_one_chrom (samp : List SRow) (c : String) (h : ∀ r ∈ samp, r.chrom = c) :
    KeysSortable samp :=
  keysSortable_of_distinct_names samp (fun a ha b hb _ => (h a ha).trans (h b hb).symm)

end CnvVerif
