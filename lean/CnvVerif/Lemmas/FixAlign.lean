/-
  C04, the headline clause at the level of a whole class of bins: after `load_adjust_coverages`
  (match by coordinate, drop bad bins, centre, any subset of the three corrections) the corrected
  sample rows are exactly the sample bins whose coordinate-matched reference bin is good, in genomic
  order, and the matched reference rows are aligned with them position by position — so the final
  subtraction pairs every bin with its own reference bin.
-/
import CnvVerif.Model.Fix
import CnvVerif.Lemmas.Fix
namespace CnvVerif

/-- the sample bins whose coordinate-matched reference bin passes the filters -/
def goodRows (samp : List SRow) (ref : List RRow) : List SRow :=
  samp.filter fun r => match ref.find? (fun q => rKey q == sKey r) with
    | some q => !badBin q
    | none => false

/-- genomic order determines the row: two rows that compare equal both ways are the same bin
    (no two chromosome names of the table share a sort key, e.g. not both "chr1" and "1") -/
def KeysSortable (samp : List SRow) : Prop :=
  ∀ a ∈ samp, ∀ b ∈ samp, sSortLe a b = true → sSortLe b a = true → sKey a = sKey b

/-- MAIN: for any permutation the shuffle may use and any half-window, whatever corrections are on -/
theorem loadAdjust_aligned (samp : List SRow) (ref : List RRow) (skipLow fixGc fixEdge fixRmask : Bool)
    (par : Option String) (perm : List Nat) (wing : Nat) (ek : Option (List Rat))
    (cn : List SRow) (rf : List RRow) (sl : Rat)
    (hperm : IsPerm perm (goodRows (sortS samp) ref).length)
    (hks : KeysSortable samp)
    (h : loadAdjust samp ref skipLow fixGc fixEdge fixRmask par perm wing ek = .ok (cn, rf, sl)) :
    -- exactly the good bins (as a multiset of coordinates) …
    (cn.map sKey).Perm ((goodRows samp ref).map sKey) ∧
    -- … in genomic order …
    cn.Pairwise (fun a b => sSortLe a b = true) ∧
    -- … each next to its own reference row, which passes the filters
    rf.map rKey = cn.map sKey ∧ (∀ q ∈ rf, badBin q = false ∧ q ∈ ref) := by
  sorry

/-- a sample bin absent from the reference, or duplicated coordinates, make the whole class fail -/
theorem loadAdjust_rejects (samp : List SRow) (ref : List RRow) (skipLow fixGc fixEdge fixRmask : Bool)
    (par : Option String) (perm : List Nat) (wing : Nat) (ek : Option (List Rat))
    (hne : samp ≠ [])
    (hbad : hasDup (samp.map sKey) = true ∨ hasDup (ref.map rKey) = true ∨
            ∃ r ∈ samp, ∀ q ∈ ref, rKey q ≠ sKey r) :
    ∃ e, loadAdjust samp ref skipLow fixGc fixEdge fixRmask par perm wing ek = .error e := by
  sorry

end CnvVerif
