/-
  Lemmas behind Props/C05Corr.lean: the reference with the bias corrections inside the model
  (Model/ReferenceExt.lean) -- with every correction off it IS the plain reference, it keeps exactly the bins, it
  rejects differing bins, a sample's depth scale still cancels, the decision table of which correction runs on
  which block, and which sex each sample is taken to have.
-/
import CnvVerif.Model.ReferenceExt
import CnvVerif.Lemmas.Reference
import Mathlib.Data.List.Nodup
set_option linter.unusedSimpArgs false
set_option linter.unusedVariables false
namespace CnvVerif.Ref
open CnvVerif

/-! ### corrections off -/

theorem corrStep_none (cfg : CorrCfg) (t : List SRow) : corrStep cfg none t = t := rfl

theorem map_log2_zip (rows : List CovRow) (l : List Rat) (h : l.length ≤ rows.length) :
    ((rows.zip l).map (fun p => toS p.1 p.2)).map (·.log2) = l := by
  rw [List.map_map]
  have : ((fun x : SRow => x.log2) ∘ fun p : CovRow × Rat => toS p.1 p.2) = Prod.snd := by
    funext p; rfl
  rw [this, List.map_snd_zip h]

theorem sampleLogr_length_le (hapX : Bool) (par : Option String) (skipLow : Bool) (isXX : Option Bool)
    (flat : List Rat) (rows : List CovRow) : (sampleLogr hapX par skipLow isXX flat rows).length ≤ rows.length := by
  unfold sampleLogr
  simp only [List.length_map, List.length_zip]
  omega

/-- no key column, no correction: the values pass through unchanged -/
theorem correctLogr_off (cfg : CorrCfg) (hg : cfg.gc = none) (hr : cfg.rmask = none) (he : cfg.edge = none)
    (rows : List CovRow) (l : List Rat) (h : l.length ≤ rows.length) : correctLogr cfg rows l = l := by
  unfold correctLogr
  simp only [hg, hr, he, corrStep_none]
  split
  · rfl
  · exact map_log2_zip rows l h

theorem sampleLogrOn_off (cfg : CorrCfg) (hg : cfg.gc = none) (hr : cfg.rmask = none) (he : cfg.edge = none)
    (hapX : Bool) (par : Option String) (skipLow : Bool) (isXX : Option Bool) (flat : List Rat) (rows : List CovRow) :
    sampleLogrOn cfg hapX par skipLow isXX flat rows = sampleLogr hapX par skipLow isXX flat rows :=
  correctLogr_off cfg hg hr he rows _ (sampleLogr_length_le hapX par skipLow isXX flat rows)

theorem refBlockOn_off (cfg : CorrCfg) (hg : cfg.gc = none) (hr : cfg.rmask = none) (he : cfg.edge = none)
    (hapX : Bool) (par : Option String) (skipLow : Bool) (sexes : List (String × Bool)) (samples : List Sample) :
    refBlockOn cfg hapX par skipLow sexes samples = refBlock hapX par skipLow sexes samples := by
  unfold refBlockOn refBlock
  simp only [sampleLogrOn_off cfg hg hr he]
  rfl

theorem blockCfg_off (isTarget : Bool) (k : BlockKeys) :
    (blockCfg isTarget false false false k).gc = none ∧ (blockCfg isTarget false false false k).rmask = none ∧
    (blockCfg isTarget false false false k).edge = none := by
  cases isTarget <;> simp [blockCfg]

theorem doReferenceOn_off (cfgT cfgA : CorrCfg) (hT : cfgT.gc = none ∧ cfgT.rmask = none ∧ cfgT.edge = none)
    (hA : cfgA.gc = none ∧ cfgA.rmask = none ∧ cfgA.edge = none) (hapX : Bool) (par : Option String)
    (sexes : List (String × Bool)) (targets : List Sample) (anti : Option (List Sample)) :
    doReferenceOn cfgT cfgA hapX par sexes targets anti = doReference hapX par sexes targets anti := by
  unfold doReferenceOn doReference
  simp only [refBlockOn_off cfgT hT.1 hT.2.1 hT.2.2, refBlockOn_off cfgA hA.1 hA.2.1 hA.2.2]
  rfl

theorem doReferenceOpts_off (kT kA : BlockKeys) (hapX : Bool) (par : Option String)
    (sexes : List (String × Bool)) (targets : List Sample) (anti : Option (List Sample)) :
    doReferenceOpts false false false kT kA hapX par sexes targets anti = doReference hapX par sexes targets anti :=
  doReferenceOn_off _ _ (blockCfg_off true kT) (blockCfg_off false kA) hapX par sexes targets anti

/-! ### bins -/

theorem refBlockOn_bins (cfg : CorrCfg) (hapX : Bool) (par : Option String) (skipLow : Bool)
    (sexes : List (String × Bool)) (samples : List Sample) (out : List RefOut) (first : Sample) (rest : List Sample)
    (hs : sortSamples samples = first :: rest)
    (h : refBlockOn cfg hapX par skipLow sexes samples = .ok out) :
    out.map (fun o => (o.chrom, o.s, o.e, o.gene)) = first.rows.map binKey := by
  unfold refBlockOn at h
  rw [hs] at h
  simp only [] at h
  split at h
  · rename_i he
    injection h with h
    subst h
    have : first.rows = [] := by simpa using he
    rw [this]; rfl
  · split at h
    · cases h
    · injection h with h
      subst h
      rw [List.map_map]
      exact map_zip_zip_fst binKey first.rows _ _ (columns_length _ _) (columns_length _ _)

theorem refBlockOn_rejects (cfg : CorrCfg) (hapX : Bool) (par : Option String) (skipLow : Bool)
    (sexes : List (String × Bool)) (samples : List Sample) (first : Sample) (rest : List Sample) (bad : Sample)
    (hs : sortSamples samples = first :: rest) (hne : first.rows ≠ [])
    (hb : bad ∈ rest) (hd : bad.rows.map binKey ≠ first.rows.map binKey) :
    ∃ e, refBlockOn cfg hapX par skipLow sexes samples = .error e := by
  unfold refBlockOn
  rw [hs]
  simp only []
  have : first.rows.isEmpty = false := by simpa using hne
  rw [this]
  simp only [Bool.false_eq_true, if_false]
  cases hf : rest.find? (fun s => s.rows.map binKey != first.rows.map binKey) with
  | some b => exact ⟨_, rfl⟩
  | none =>
    rw [List.find?_eq_none] at hf
    have := hf bad hb
    simp at this
    exact absurd this hd

/-! ### the depth scale still cancels -/

theorem correctLogr_rows_log2 (cfg : CorrCfg) (rows : List CovRow) (c : Rat) (l : List Rat) :
    correctLogr cfg (rows.map (fun r => { r with log2 := r.log2 + c })) l = correctLogr cfg rows l := by
  unfold correctLogr
  have : ((rows.map (fun r : CovRow => { r with log2 := r.log2 + c })).zip l).map (fun p => toS p.1 p.2)
      = (rows.zip l).map (fun p => toS p.1 p.2) := by
    rw [List.zip_map_left, List.map_map]
    apply List.map_congr_left
    intro p _
    rfl
  rw [this]

theorem sampleLogrOn_depth_scale (cfg : CorrCfg) (hapX : Bool) (par : Option String) (isXX : Option Bool)
    (flat : List Rat) (rows : List CovRow) (c : Rat) (hne : rows ≠ []) :
    sampleLogrOn cfg hapX par false isXX flat (rows.map (fun r => { r with log2 := r.log2 + c }))
      = sampleLogrOn cfg hapX par false isXX flat rows := by
  unfold sampleLogrOn
  rw [sampleLogr_depth_scale hapX par isXX flat rows c hne, correctLogr_rows_log2]

/-! ### which correction runs on which block -/

theorem blockCfg_table (doGc doEdge doRmask : Bool) (k : BlockKeys) :
    (blockCfg true doGc doEdge doRmask k).rmask = none ∧
    (blockCfg false doGc doEdge doRmask k).edge = none ∧
    (blockCfg true doGc doEdge doRmask k).edge = (if doEdge then some k.edge else none) ∧
    (doGc = false → (blockCfg true doGc doEdge doRmask k).gc = none ∧ (blockCfg false doGc doEdge doRmask k).gc = none) ∧
    (doRmask = false → (blockCfg false doGc doEdge doRmask k).rmask = none) := by
  cases doGc <;> cases doEdge <;> cases doRmask <;> simp [blockCfg]

/-- with a FASTA its gc fractions are the GC key (a gc column of the files is then ignored); without one the
    files' gc column is -/
theorem blockCfg_gc_source (isTarget doEdge doRmask : Bool) (k : BlockKeys) (g m : List Rat) (fg : Option (List Rat))
    (hk : k.fastaGc = some g) (hm : k.fastaRm = some m) :
    (blockCfg isTarget true doEdge doRmask k).gc = some g ∧
    (blockCfg isTarget true doEdge doRmask { k with fastaGc := none, fastaRm := none }).gc = k.fileGc ∧
    (blockCfg false true doEdge true k).rmask = some m := by
  cases isTarget <;> cases doEdge <;> cases doRmask <;> simp [blockCfg, hk, hm]

/-! ### the sexes `do_reference` works with -/

/-- dictionary lookup as `refBlock` performs it (`sexes.get(sample_id)`) -/
def lookup (d : List (String × Bool)) (k : String) : Option Bool := (d.find? (·.1 == k)).map (·.2)

theorem lookup_cons (a : String × Bool) (t : List (String × Bool)) (k' : String) :
    lookup (a :: t) k' = if a.1 = k' then some a.2 else lookup t k' := by
  unfold lookup
  by_cases h : a.1 = k'
  · rw [List.find?_cons_of_pos (by simpa using h)]; simp [h]
  · rw [List.find?_cons_of_neg (by simpa using h)]; simp [h]

theorem lookup_nil (k' : String) : lookup [] k' = none := rfl

theorem lookup_map_set (d : List (String × Bool)) (k : String) (v : Bool) (k' : String) :
    lookup (d.map (fun p => if p.1 == k then (k, v) else p)) k' =
      if k' = k then (lookup d k).map (fun _ => v) else lookup d k' := by
  induction d with
  | nil => simp [lookup_nil]
  | cons a t ih =>
    rw [List.map_cons, lookup_cons, ih, lookup_cons, lookup_cons]
    by_cases hak : a.1 = k <;> by_cases hk : k' = k <;> by_cases hak' : a.1 = k' <;> simp_all

theorem lookup_append_single (d : List (String × Bool)) (k : String) (v : Bool) (k' : String) :
    lookup (d ++ [(k, v)]) k' = match lookup d k' with | some b => some b | none => if k = k' then some v else none := by
  induction d with
  | nil => simp [lookup_cons, lookup_nil]
  | cons a t ih =>
    rw [List.cons_append, lookup_cons, ih, lookup_cons]
    by_cases h : a.1 = k' <;> simp [h]

theorem lookup_any (d : List (String × Bool)) (k : String) : (lookup d k).isSome = d.any (·.1 == k) := by
  induction d with
  | nil => rfl
  | cons a t ih =>
    rw [lookup_cons, List.any_cons, ← ih]
    by_cases h : a.1 = k <;> simp [h]

theorem lookup_dictSet (d : List (String × Bool)) (k : String) (v : Bool) (k' : String) :
    lookup (dictSet d k v) k' = if k' = k then some v else lookup d k' := by
  unfold dictSet
  have hany := lookup_any d k
  by_cases h : d.any (·.1 == k) = true
  · rw [if_pos h, lookup_map_set]
    rw [h] at hany
    by_cases hk : k' = k
    · simp only [hk, if_true]
      cases hl : lookup d k with
      | none => rw [hl] at hany; simp at hany
      | some b => rfl
    · simp [hk]
  · rw [if_neg h, lookup_append_single]
    have hf : d.any (·.1 == k) = false := by
      cases hb : d.any (·.1 == k) with
      | true => exact absurd hb h
      | false => rfl
    rw [hf] at hany
    by_cases hk : k' = k
    · subst hk
      cases hl : lookup d k' with
      | none => simp
      | some b => rw [hl] at hany; simp at hany
    · have : ¬ k = k' := fun e => hk e.symm
      cases hl : lookup d k' <;> simp [hk, this]

theorem lookup_foldl_given (ids : List String) (f : Bool) (d : List (String × Bool)) (k : String) :
    lookup (ids.foldl (fun d k => dictSet d k f) d) k = if k ∈ ids then some f else lookup d k := by
  induction ids generalizing d with
  | nil => simp
  | cons a t ih =>
    simp only [List.foldl_cons, ih, lookup_dictSet, List.mem_cons]
    by_cases h1 : k ∈ t <;> by_cases h2 : k = a <;> simp [h1, h2]

/-- a given sex applies to every target file's sample, and to nothing else -/
theorem resolveSexes_given (f : Bool) (ids : List String) (tInf aInf : List (String × Option Bool)) (k : String) :
    lookup (resolveSexes (some f) ids tInf aInf) k = if k ∈ ids then some f else none := by
  unfold resolveSexes
  rw [lookup_foldl_given]
  rfl

theorem lookup_foldl_update (upd d : List (String × Bool)) (k : String)
    (hu : ∀ p ∈ upd, ∀ q ∈ upd, p.1 = q.1 → p = q) :
    lookup (upd.foldl (fun d p => dictSet d p.1 p.2) d) k =
      match lookup upd k with | some b => some b | none => lookup d k := by
  induction upd generalizing d with
  | nil => simp [lookup_nil]
  | cons a t ih =>
    have ht : ∀ p ∈ t, ∀ q ∈ t, p.1 = q.1 → p = q := fun p hp q hq => hu p (by simp [hp]) q (by simp [hq])
    simp only [List.foldl_cons]
    rw [ih _ ht, lookup_dictSet, lookup_cons]
    by_cases hka : a.1 = k
    · subst hka
      -- `a` is the only entry of `a :: t` with this key
      have hl : lookup t a.1 = none ∨ lookup t a.1 = some a.2 := by
        unfold lookup
        cases hf : t.find? (fun x => x.1 == a.1) with
        | none => left; rfl
        | some q =>
          right
          have hq := List.find?_some hf
          have hmem := List.mem_of_find?_eq_some hf
          have := hu q (by simp [hmem]) a (by simp) (by simpa using hq)
          simp [this]
      rcases hl with h | h <;> simp [h]
    · have : ¬ k = a.1 := fun e => hka e.symm
      simp [hka, this]

/-! the dictionaries have one entry per sample id -/

theorem dictSet_keys (d : List (String × Bool)) (k : String) (v : Bool) (h : (d.map (·.1)).Nodup) :
    ((dictSet d k v).map (·.1)).Nodup := by
  unfold dictSet
  by_cases hany : d.any (·.1 == k) = true
  · rw [if_pos hany, List.map_map]
    have : ((fun x : String × Bool => x.1) ∘ fun p : String × Bool => if p.1 == k then (k, v) else p) = (·.1) := by
      funext p
      by_cases hp : p.1 = k <;> simp [hp]
    rw [this]; exact h
  · rw [if_neg hany, List.map_append]
    refine List.Nodup.append h (by simp) ?_
    intro x hx hx'
    simp only [List.map_cons, List.map_nil, List.mem_singleton] at hx'
    subst hx'
    apply hany
    obtain ⟨p, hp, e⟩ := List.mem_map.mp hx
    simp only [List.any_eq_true]
    exact ⟨p, hp, by simpa using e⟩

theorem inferSexes_keys (inf : List (String × Option Bool)) : ((inferSexes inf).map (·.1)).Nodup := by
  unfold inferSexes
  suffices ∀ d : List (String × Bool), (d.map (·.1)).Nodup →
      ((inf.foldl (fun d p => match p.2 with | some b => dictSet d p.1 b | none => d) d).map (·.1)).Nodup from
    this [] (by simp)
  induction inf with
  | nil => intro d h; exact h
  | cons a t ih =>
    intro d h
    simp only [List.foldl_cons]
    apply ih
    cases a.2 with
    | none => exact h
    | some b => exact dictSet_keys d a.1 b h

/-- sexes inferred: the answer from a sample's antitarget file wins; without one the answer from its target file
    stands; a sample without any answer has no entry (and is then treated like a male one) -/
theorem resolveSexes_inferred (ids : List String) (tInf aInf : List (String × Option Bool)) (k : String) :
    lookup (resolveSexes none ids tInf aInf) k =
      match lookup (inferSexes aInf) k with | some b => some b | none => lookup (inferSexes tInf) k := by
  unfold resolveSexes
  exact lookup_foldl_update _ _ k (fun p hp q hq e => List.inj_on_of_nodup_map (inferSexes_keys aInf) hp hq e)

/-- what one file's answer does to the dictionary of inferred sexes: a later file of the same sample replaces it -/
theorem inferSexes_snoc (inf : List (String × Option Bool)) (id : String) (ans : Option Bool) (k : String) :
    lookup (inferSexes (inf ++ [(id, ans)])) k =
      match ans with
      | some b => if k = id then some b else lookup (inferSexes inf) k
      | none => lookup (inferSexes inf) k := by
  unfold inferSexes
  rw [List.foldl_append]
  cases ans with
  | none => rfl
  | some b => simp only [List.foldl_cons, List.foldl_nil]; exact lookup_dictSet _ _ _ _

end CnvVerif.Ref
