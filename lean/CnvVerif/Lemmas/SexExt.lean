/-
  Lemmas behind Props/C15Margin.lean: a deterministic robustness margin for the sex inference of
  `compare_sex_chromosomes` on the median-difference path, and the decision expression on the Mood path.
-/
import CnvVerif.Model.SexExt
import CnvVerif.Lemmas.Center
import Mathlib.Tactic.Linarith
import Mathlib.Tactic.Ring
import Mathlib.Tactic.NormNum
import Mathlib.Algebra.Order.Field.Basic
import Mathlib.Algebra.Order.BigOperators.Group.List
set_option linter.unusedTactic false
set_option linter.unnecessarySeqFocus false
set_option linter.unreachableTactic false
namespace CnvVerif

theorem absR_eq_abs (q : Rat) : absR q = |q| := by
  unfold absR
  split
  · rename_i h; rw [abs_of_neg h]
  · rename_i h; rw [abs_of_nonneg (not_lt.mp h)]

/-- the median of values that all lie in `[lo, hi]` lies in `[lo, hi]` -/
theorem medianR_mem_range (l : List Rat) (hl : l ≠ []) (lo hi : Rat) (h : ∀ x ∈ l, lo ≤ x ∧ x ≤ hi) :
    lo ≤ medianR l ∧ medianR l ≤ hi := by
  unfold medianR
  have hlen : (l.mergeSort (· ≤ ·)).length = l.length := List.length_mergeSort l
  have hpos : 0 < l.length := List.length_pos_iff.mpr hl
  have hm : ∀ i, i < (l.mergeSort (· ≤ ·)).length →
      lo ≤ (l.mergeSort (· ≤ ·)).getD i 0 ∧ (l.mergeSort (· ≤ ·)).getD i 0 ≤ hi := by
    intro i hi'
    have hmem : (l.mergeSort (· ≤ ·)).getD i 0 ∈ l := by
      rw [List.getD_eq_getElem?_getD, List.getElem?_eq_getElem hi']
      exact List.mem_mergeSort.mp (List.getElem_mem hi')
    exact h _ hmem
  simp only []
  have h0 : (l.mergeSort (· ≤ ·)).length ≠ 0 := by omega
  rw [if_neg h0]
  split
  · exact hm _ (by omega)
  · have h1 := hm ((l.mergeSort (· ≤ ·)).length / 2 - 1) (by omega)
    have h2 := hm ((l.mergeSort (· ≤ ·)).length / 2) (by omega)
    constructor <;> linarith [h1.1, h1.2, h2.1, h2.2]

theorem medianR_shiftVals (l : List Rat) (hl : l ≠ []) (s : Rat) :
    medianR (shiftVals l s) = medianR l + s := medianR_transEquiv l s hl

/-- without a statistic on either side `compare_chrom` is the ratio of the median differences -/
theorem compareChrom_of_none_left (f m : AutoCmp) (hf : f.stat = none) :
    compareChrom f m = f.diff / max m.diff (1/100) := by
  unfold compareChrom; rw [hf]

theorem compareChrom_of_none_right (f m : AutoCmp) (hm : m.stat = none) :
    compareChrom f m = f.diff / max m.diff (1/100) := by
  unfold compareChrom; rw [hm]; cases f.stat <;> rfl

theorem compareChrom_of_some (f m : AutoCmp) (fs ms : Rat) (hf : f.stat = some fs) (hm : m.stat = some ms) :
    compareChrom f m = fs / max ms (1/100) := by
  unfold compareChrom; rw [hf, hm]

theorem ratio_gt_one (fd md : Rat) (h1 : md < fd) (h2 : 1/100 < fd) : 1 < fd / max md (1/100) := by
  have hpos : (0 : Rat) < max md (1/100) := lt_of_lt_of_le (by norm_num) (le_max_right _ _)
  rw [one_lt_div hpos]
  exact max_lt h1 h2

theorem ratio_lt_one (fd md : Rat) (h0 : 0 ≤ fd) (h1 : fd < md) :
    0 ≤ fd / max md (1/100) ∧ fd / max md (1/100) < 1 := by
  have hpos : (0 : Rat) < max md (1/100) := lt_of_lt_of_le (by norm_num) (le_max_right _ _)
  exact ⟨div_nonneg h0 (le_of_lt hpos), (div_lt_one hpos).mpr (lt_of_lt_of_le h1 (le_max_left _ _))⟩

/-- the ratio `compare_chrom` forms on the median-difference path, in closed form -/
theorem compareChromOf_fallback (auto vals : List Rat) (hv : vals ≠ []) (sf sm : Rat) :
    compareChromOf (fallbackCmp auto) shiftVals vals sf sm =
      |medianR auto - (medianR vals + sf)| / max |medianR auto - (medianR vals + sm)| (1/100) := by
  unfold compareChromOf
  rw [compareChrom_of_none_left _ _ rfl]
  simp only [fallbackCmp, absR_eq_abs, medianR_shiftVals _ hv]

/-- a chromosome whose median sits within `2d < 1/2` of (autosomal median − `sm`) and whose alternative
    hypothesis is a whole unit (or more) away: the ratio exceeds 1 … -/
theorem ratio_of_close_male (D sf sm d g : Rat) (hd : 4 * d < 1) (hg : 1 ≤ g)
    (hm : |D - sm| ≤ 2 * d) (hf : |sf - sm| = g) :
    1 < |D - sf| / max |D - sm| (1/100) := by
  have h1 : g - 2 * d ≤ |D - sf| := by
    have : |sf - sm| ≤ |D - sf| + |D - sm| := by
      have := abs_sub_le sf D sm
      rw [abs_sub_comm sf D] at this
      exact this
    linarith
  apply ratio_gt_one <;> linarith

/-- … and symmetrically below 1 when the median sits at the female hypothesis -/
theorem ratio_of_close_female (D sf sm d g : Rat) (hd : 4 * d < 1) (hg : 1 ≤ g)
    (hf' : |D - sf| ≤ 2 * d) (hf : |sf - sm| = g) :
    0 ≤ |D - sf| / max |D - sm| (1/100) ∧ |D - sf| / max |D - sm| (1/100) < 1 := by
  have h1 : g - 2 * d ≤ |D - sm| := by
    have : |sf - sm| ≤ |D - sf| + |D - sm| := by
      have := abs_sub_le sf D sm
      rw [abs_sub_comm sf D] at this
      exact this
    linarith
  apply ratio_lt_one _ _ (abs_nonneg _)
  linarith

/-- difference of two medians, each within `d` of its level -/
theorem median_diff_close (auto vals : List Rat) (ha : auto ≠ []) (hv : vals ≠ []) (a L d : Rat)
    (hA : ∀ v ∈ auto, |v - a| ≤ d) (hV : ∀ v ∈ vals, |v - L| ≤ d) :
    |(medianR auto - medianR vals) - (a - L)| ≤ 2 * d := by
  have h1 := medianR_mem_range auto ha (a - d) (a + d) (fun v hv' => by
    have := abs_le.mp (hA v hv'); constructor <;> linarith [this.1, this.2])
  have h2 := medianR_mem_range vals hv (L - d) (L + d) (fun v hv' => by
    have := abs_le.mp (hV v hv'); constructor <;> linarith [this.1, this.2])
  rw [abs_le]; constructor <;> linarith [h1.1, h1.2, h2.1, h2.2]

/-- chrX, median-difference path: the ratio is on the side of 1 that names the true sex -/
theorem chrx_ratio_within_margin (hapX female : Bool) (a d : Rat) (auto xs : List Rat)
    (ha : auto ≠ []) (hx : xs ≠ []) (hd : 4 * d < 1)
    (hA : ∀ v ∈ auto, |v - a| ≤ d) (hX : ∀ v ∈ xs, |v - (a + expectedX hapX female)| ≤ d) :
    let r := compareChromOf (fallbackCmp auto) shiftVals xs (xShifts hapX).1 (xShifts hapX).2
    (female = false → 1 < r) ∧ (female = true → 0 ≤ r ∧ r < 1) := by
  intro r
  have hr : r = _ := compareChromOf_fallback auto xs hx (xShifts hapX).1 (xShifts hapX).2
  have hD := median_diff_close auto xs ha hx a _ d hA hX
  set D := medianR auto - medianR xs with hDdef
  have e1 : ∀ s, medianR auto - (medianR xs + s) = D - s := fun s => by rw [hDdef]; ring
  rw [e1, e1] at hr
  have hD' : |D + expectedX hapX female| ≤ 2 * d := by
    have e : D - (a - (a + expectedX hapX female)) = D + expectedX hapX female := by ring
    rwa [e] at hD
  constructor
  · intro hf; subst hf
    rw [hr]
    apply ratio_of_close_male D _ _ d 1 hd (le_refl _)
    · have e : D - (xShifts hapX).2 = D + expectedX hapX false := by
        cases hapX <;> norm_num [xShifts, expectedX] <;> ring
      rw [e]; exact hD'
    · cases hapX <;> norm_num [xShifts]
  · intro hf; subst hf
    rw [hr]
    apply ratio_of_close_female D _ _ d 1 hd (le_refl _)
    · have e : D - (xShifts hapX).1 = D + expectedX hapX true := by
        cases hapX <;> norm_num [xShifts, expectedX]
      rw [e]; exact hD'
    · cases hapX <;> norm_num [xShifts]

/-- chrY of a male sample (at the autosomal level): ratio above 1 -/
theorem chry_ratio_male (a d : Rat) (auto ys : List Rat) (ha : auto ≠ []) (hy : ys ≠ []) (hd : 4 * d < 1)
    (hA : ∀ v ∈ auto, |v - a| ≤ d) (hY : ∀ v ∈ ys, |v - a| ≤ d) :
    1 < compareChromOf (fallbackCmp auto) shiftVals ys yShifts.1 yShifts.2 := by
  rw [compareChromOf_fallback auto ys hy]
  have hD := median_diff_close auto ys ha hy a a d hA hY
  set D := medianR auto - medianR ys with hDdef
  have e1 : ∀ s, medianR auto - (medianR ys + s) = D - s := fun s => by rw [hDdef]; ring
  rw [e1, e1]
  apply ratio_of_close_male D _ _ d 3 hd (by norm_num)
  · simp only [yShifts]; simpa using hD
  · simp [yShifts]

/-- chrY of a female sample (every bin at least 2 below the autosomal level): ratio in [0, 1) -/
theorem chry_ratio_female (a d : Rat) (auto ys : List Rat) (ha : auto ≠ []) (hy : ys ≠ [])
    (hd : 4 * d < 1) (hA : ∀ v ∈ auto, |v - a| ≤ d) (hY : ∀ v ∈ ys, v ≤ a - 2) :
    0 ≤ compareChromOf (fallbackCmp auto) shiftVals ys yShifts.1 yShifts.2 ∧
    compareChromOf (fallbackCmp auto) shiftVals ys yShifts.1 yShifts.2 < 1 := by
  rw [compareChromOf_fallback auto ys hy]
  have h1 := medianR_mem_range auto ha (a - d) (a + d) (fun v hv' => by
    have := abs_le.mp (hA v hv'); constructor <;> linarith [this.1, this.2])
  -- a lower bound for the Y values exists (the least of them), any will do
  obtain ⟨lo, hlo⟩ : ∃ lo : Rat, ∀ v ∈ ys, lo ≤ v := by
    refine ⟨-(ys.map (fun x => |x|)).sum, fun v hv => ?_⟩
    have : |v| ≤ (ys.map (fun x => |x|)).sum :=
      List.single_le_sum (by intro y hy'; simp at hy'; obtain ⟨z, _, rfl⟩ := hy'; exact abs_nonneg z) _
        (List.mem_map_of_mem hv)
    linarith [neg_abs_le v]
  have h2 := medianR_mem_range ys hy lo (a - 2) (fun v hv' => ⟨hlo v hv', hY v hv'⟩)
  set D := medianR auto - medianR ys with hDdef
  have e1 : ∀ s, medianR auto - (medianR ys + s) = D - s := fun s => by rw [hDdef]; ring
  rw [e1, e1]
  have hDlow : 2 - d ≤ D := by rw [hDdef]; linarith [h1.1, h2.2]
  simp only [yShifts]
  have hm : |D - 0| = D := by rw [sub_zero]; exact abs_of_nonneg (by linarith)
  rw [hm]
  apply ratio_lt_one _ _ (abs_nonneg _)
  rw [abs_lt]; constructor <;> linarith

/-- unpacking the decidable hypothesis -/
theorem withinMargin_iff (hapX female : Bool) (a d : Rat) (auto xs ys : List Rat) :
    withinMargin hapX female a d auto xs ys = true ↔
      0 ≤ d ∧ 4 * d < 1 ∧ auto ≠ [] ∧ xs ≠ [] ∧ (∀ v ∈ auto, |v - a| ≤ d) ∧
      (∀ v ∈ xs, |v - (a + expectedX hapX female)| ≤ d) ∧
      (if female then ∀ v ∈ ys, v ≤ a - 2 else ∀ v ∈ ys, |v - a| ≤ d) := by
  unfold withinMargin withinOf expectedX
  cases female <;>
    simp only [Bool.and_eq_true, decide_eq_true_eq, List.all_eq_true, Bool.not_eq_true', List.isEmpty_eq_false_iff,
      absR_eq_abs, Bool.false_eq_true, if_false, if_true, and_assoc]

/-- the robustness margin: bounded noise of radius `d < 1/4` cannot flip the decision of the
    median-difference path -/
theorem sexIsMaleFallback_within_margin (hapX female : Bool) (a d : Rat) (auto xs ys : List Rat)
    (h : withinMargin hapX female a d auto xs ys = true) :
    sexIsMaleFallback hapX auto xs ys = !female := by
  obtain ⟨hd0, hd, ha, hx, hA, hX, hY⟩ := (withinMargin_iff hapX female a d auto xs ys).mp h
  have hxr := chrx_ratio_within_margin hapX female a d auto xs ha hx hd hA hX
  unfold sexIsMaleFallback
  simp only []
  cases female
  · have h1 := hxr.1 rfl
    simp only [Bool.false_eq_true, if_false] at hY
    by_cases hy : ys = []
    · subst hy; simp [sexScore]; exact h1
    · have h2 := chry_ratio_male a d auto ys ha hy hd hA hY
      have he : ys.isEmpty = false := by simpa using hy
      simp only [he, Bool.false_eq_true, if_false, sexScore, Bool.not_false, decide_eq_true_eq]
      nlinarith
  · have h1 := hxr.2 rfl
    simp only [if_true] at hY
    by_cases hy : ys = []
    · subst hy; simp [sexScore]; exact le_of_lt h1.2
    · have h2 := chry_ratio_female a d auto ys ha hy hd hA hY
      have he : ys.isEmpty = false := by simpa using hy
      simp only [he, Bool.false_eq_true, if_false, sexScore, Bool.not_true, decide_eq_false_iff_not, not_lt]
      nlinarith [h1.1, h1.2, h2.1, h2.2]

/-- a degenerate Mood table leaves `compare_to_auto` without a statistic, whatever scipy's G is -/
theorem compareToAuto_of_degenerate (G : MoodTable → Rat) (auto vals : List Rat)
    (h : (moodTable auto vals).degenerate = true) : compareToAuto G auto vals = fallbackCmp auto vals := by
  unfold compareToAuto fallbackCmp
  simp only [h, if_true]

theorem sexIsMale_of_allDegenerate (G : MoodTable → Rat) (hapX : Bool) (auto xs ys : List Rat)
    (h : allDegenerate hapX auto xs ys = true) :
    sexIsMale G hapX auto xs ys = sexIsMaleFallback hapX auto xs ys := by
  unfold allDegenerate at h
  simp only [Bool.and_eq_true, Bool.or_eq_true] at h
  obtain ⟨⟨h1, h2⟩, h3⟩ := h
  unfold sexIsMale sexIsMaleFallback compareChromOf
  simp only [compareToAuto_of_degenerate G _ _ h1, compareToAuto_of_degenerate G _ _ h2]
  rcases h3 with h3 | ⟨h3, h4⟩
  · simp only [h3, if_true]
  · simp only [compareToAuto_of_degenerate G _ _ h3, compareToAuto_of_degenerate G _ _ h4]

/-- flat autosomes (every autosomal bin at one value, e.g. a noise-free or fully smoothed profile) with more
    autosomal than sex-chromosome bins make every Mood table degenerate: the grand median is that value, all
    autosomal bins tie with it and are ignored -/
theorem medianR_append_flat (a : Rat) (auto vals : List Rat) (hA : ∀ v ∈ auto, v = a)
    (hlen : vals.length < auto.length) : medianR (auto ++ vals) = a := by
  -- the sorted pooled list has `a` at both middle positions: count the values below / above
  have hrep : auto = List.replicate auto.length a := List.eq_replicate_iff.mpr ⟨rfl, hA⟩
  set n := auto.length with hn
  set s := (auto ++ vals).mergeSort (· ≤ ·) with hs
  have hsl : s.length = n + vals.length := by rw [hs, List.length_mergeSort, List.length_append]
  have hsorted : s.Pairwise (· ≤ ·) := pairwise_le_mergeSort _
  have hperm : s.Perm (auto ++ vals) := List.mergeSort_perm _ _
  have hcount : n ≤ s.count a := by
    rw [hperm.count_eq, List.count_append, hrep, List.count_replicate_self]; omega
  -- in a sorted list with more than half of the entries equal to `a`, the entries at the middle are `a`
  have key : ∀ i, i < s.length → s.length - n ≤ i → i < n → s.getD i 0 = a := by
    intro i hi hlo hhi
    rw [List.getD_eq_getElem?_getD, List.getElem?_eq_getElem hi]
    by_contra hne
    rcases lt_or_gt_of_ne hne with hlt | hgt
    · -- s[i] < a: all entries up to i are < a, so at most s.length - (i+1) entries equal a
      have : s.count a ≤ s.length - (i + 1) := by
        have hsplit : s = s.take (i + 1) ++ s.drop (i + 1) := (List.take_append_drop _ _).symm
        have h0 : (s.take (i + 1)).count a = 0 := by
          rw [List.count_eq_zero]
          intro hmem
          obtain ⟨j, hj, hje⟩ := List.getElem_of_mem hmem
          rw [List.length_take] at hj
          have hj' : j < s.length := by omega
          rw [List.getElem_take] at hje
          have hle : s[j] ≤ s[i] := by
            rcases Nat.lt_or_ge j i with h | h
            · exact List.pairwise_iff_getElem.mp hsorted j i hj' hi h
            · have : j = i := by omega
              subst this; exact le_refl _
          rw [hje] at hle
          exact absurd hlt (not_lt.mpr hle)
        calc s.count a = (s.take (i + 1)).count a + (s.drop (i + 1)).count a := by
              conv_lhs => rw [hsplit]
              exact List.count_append
          _ ≤ 0 + (s.drop (i + 1)).length := by rw [h0]; exact Nat.add_le_add_left List.count_le_length _
          _ = s.length - (i + 1) := by rw [List.length_drop]; omega
      omega
    · have : s.count a ≤ i := by
        have hsplit : s = s.take i ++ s.drop i := (List.take_append_drop _ _).symm
        have h0 : (s.drop i).count a = 0 := by
          rw [List.count_eq_zero]
          intro hmem
          obtain ⟨j, hj, hje⟩ := List.getElem_of_mem hmem
          rw [List.length_drop] at hj
          rw [List.getElem_drop] at hje
          have hle : s[i] ≤ s[i + j] := by
            rcases Nat.eq_zero_or_pos j with h | h
            · subst h; exact le_refl _
            · exact List.pairwise_iff_getElem.mp hsorted i (i + j) hi (by omega) (by omega)
          rw [hje] at hle
          exact absurd hgt (not_lt.mpr hle)
        calc s.count a = (s.take i).count a + (s.drop i).count a := by
              conv_lhs => rw [hsplit]
              exact List.count_append
          _ ≤ (s.take i).length + 0 := by rw [h0]; exact Nat.add_le_add_right List.count_le_length _
          _ ≤ i := by rw [List.length_take]; omega
      omega
  unfold medianR
  simp only []
  rw [← hs]
  have hpos : s.length ≠ 0 := by omega
  rw [if_neg hpos]
  split
  · exact key _ (by omega) (by omega) (by omega)
  · rw [key (s.length / 2 - 1) (by omega) (by omega) (by omega), key (s.length / 2) (by omega) (by omega) (by omega)]
    ring

theorem moodTable_flat_degenerate (a : Rat) (auto vals : List Rat) (hA : ∀ v ∈ auto, v = a)
    (hlen : vals.length < auto.length) : (moodTable auto vals).degenerate = true := by
  unfold moodTable MoodTable.degenerate
  simp only [medianR_append_flat a auto vals hA hlen]
  have h1 : auto.countP (fun v => decide (a < v)) = 0 := by
    rw [List.countP_eq_zero]; intro v hv; simp [hA v hv]
  have h2 : auto.countP (fun v => decide (v < a)) = 0 := by
    rw [List.countP_eq_zero]; intro v hv; simp [hA v hv]
  simp [h1, h2]

theorem allDegenerate_of_flat (hapX : Bool) (a : Rat) (auto xs ys : List Rat) (hA : ∀ v ∈ auto, v = a)
    (hx : xs.length < auto.length) (hy : ys.length < auto.length) : allDegenerate hapX auto xs ys = true := by
  unfold allDegenerate
  have l1 : ∀ (l : List Rat) (s : Rat), l.length < auto.length → (moodTable auto (shiftVals l s)).degenerate = true :=
    fun l s hl => moodTable_flat_degenerate a auto _ hA (by unfold shiftVals; rw [List.length_map]; exact hl)
  simp [l1 xs _ hx, l1 ys _ hy]

/-- decision expression on the Mood path, no chrY: male ⇔ the statistic under the female hypothesis exceeds
    the one under the male hypothesis (floored at 0.01) -/
theorem isMale_of_stats (xF xM : AutoCmp) (fs ms : Rat) (hf : xF.stat = some fs) (hm : xM.stat = some ms) :
    isMale xF xM none = decide (max ms (1/100) < fs) := by
  unfold isMale
  simp only [compareChrom_of_some xF xM fs ms hf hm]
  have hpos : (0 : Rat) < max ms (1/100) := lt_of_lt_of_le (by norm_num) (le_max_right _ _)
  congr 1
  exact propext (by rw [gt_iff_lt, one_lt_div hpos])

end CnvVerif
