/-
  Growth round (C01 / C02): lemmas behind Props/C01Ext.lean and Props/C02Ext.lean.
  * threshold calls for ARBITRARY strictly increasing thresholds: monotone below the last threshold without any
    hypothesis, and across / above it exactly when `r·2^log2` exceeds (largest step value − 1);
  * the rescaled ratio for every ploidy (what the purity path writes when ploidy is odd);
  * the allelic clauses at table level for every purity.
-/
import CnvVerif.Lemmas.Call
namespace CnvVerif

/-! ### C02: arbitrary thresholds -/

/-- the value the scan reports for scan index `i`: `int(i * r / ploidy)` on chromosomes whose reference copies
    differ from the ploidy, `i` itself otherwise -/
def scaledIdx (ploidy r i : Nat) : Int :=
  if r ≠ ploidy then ((i * r / ploidy : Nat) : Int) else (i : Int)

theorem scaledIdx_mono (ploidy r : Nat) {i j : Nat} (h : i ≤ j) : scaledIdx ploidy r i ≤ scaledIdx ploidy r j := by
  unfold scaledIdx
  split
  · exact_mod_cast Nat.div_le_div_right (Nat.mul_le_mul_right r h)
  · exact_mod_cast h

theorem scaledIdx_nonneg (ploidy r i : Nat) : 0 ≤ scaledIdx ploidy r i := by
  unfold scaledIdx
  split <;> exact Int.natCast_nonneg _

theorem thresholdCall_below' (thr : List Rat) (hs : thr.Pairwise (· < ·)) (ploidy r : Nat) (v t : Rat)
    (hle : ∃ th ∈ thr, v ≤ th) :
    thresholdCall thr ploidy r (some v) t = scaledIdx ploidy r (thr.countP (fun th => decide (th < v))) :=
  thresholdCall_below thr hs ploidy r v t hle

theorem exists_le_of_not_all_lt (thr : List Rat) (v : Rat) (h : ¬ ∀ th ∈ thr, th < v) : ∃ th ∈ thr, v ≤ th := by
  by_contra hc
  apply h
  intro th hm
  by_contra hlt
  exact hc ⟨th, hm, not_lt.mp hlt⟩

/-- below (or at) the last threshold the call never decreases — for every strictly increasing threshold vector,
    every ploidy and every reference copy number, with no assumption on the ratios at all -/
theorem monotone_below_last (thr : List Rat) (hs : thr.Pairwise (· < ·)) (ploidy r : Nat)
    (v₁ v₂ t₁ t₂ : Rat) (hv : v₁ ≤ v₂) (h2 : ∃ th ∈ thr, v₂ ≤ th) :
    thresholdCall thr ploidy r (some v₁) t₁ ≤ thresholdCall thr ploidy r (some v₂) t₂ := by
  have h1 : ∃ th ∈ thr, v₁ ≤ th := by
    obtain ⟨th, hm, hth⟩ := h2
    exact ⟨th, hm, le_trans hv hth⟩
  rw [thresholdCall_below' thr hs ploidy r v₁ t₁ h1, thresholdCall_below' thr hs ploidy r v₂ t₂ h2]
  exact scaledIdx_mono ploidy r (countP_lt_mono thr hv)

/-- above the last threshold the call never decreases either (it is `ceil(r·t)` and `t = 2^log2` is monotone) -/
theorem monotone_above_last (thr : List Rat) (ploidy r : Nat) (v₁ v₂ t₁ t₂ : Rat)
    (h1 : ∀ th ∈ thr, th < v₁) (h2 : ∀ th ∈ thr, th < v₂) (ht : t₁ ≤ t₂) :
    thresholdCall thr ploidy r (some v₁) t₁ ≤ thresholdCall thr ploidy r (some v₂) t₂ := by
  rw [thresholdCall_above thr ploidy r v₁ t₁ h1, thresholdCall_above thr ploidy r v₂ t₂ h2]
  have hr0 : (0 : Rat) ≤ (r : Rat) := by exact_mod_cast Nat.zero_le r
  exact ceil_mono' (mul_le_mul_of_nonneg_left ht hr0)

/-- `k ≤ ceil q ↔ k − 1 < q` -/
theorem le_ceil_iff_pred_lt (k : Int) (q : Rat) : k ≤ q.ceil ↔ ((k : Rat) - 1 < q) := by
  constructor
  · intro h
    have h1 : ((k - 1 : Int) : Rat) < q := Rat.lt_ceil_iff.mp (by omega)
    push_cast at h1
    exact h1
  · intro h
    have h1 : ((k - 1 : Int) : Rat) < q := by push_cast; exact h
    have := Rat.lt_ceil_iff.mpr h1
    omega

/-- ACROSS the last threshold (`v₁` at or below it, `v₂` above it) the exact criterion: the call does not
    decrease iff `r·t₂` exceeds the step value at `v₁` minus one -/
theorem monotone_across_iff (thr : List Rat) (hs : thr.Pairwise (· < ·)) (ploidy r : Nat)
    (v₁ v₂ t₁ t₂ : Rat) (h1 : ∃ th ∈ thr, v₁ ≤ th) (h2 : ∀ th ∈ thr, th < v₂) :
    thresholdCall thr ploidy r (some v₁) t₁ ≤ thresholdCall thr ploidy r (some v₂) t₂ ↔
      ((scaledIdx ploidy r (thr.countP (fun th => decide (th < v₁))) : Int) : Rat) - 1 < (r : Rat) * t₂ := by
  rw [thresholdCall_below' thr hs ploidy r v₁ t₁ h1, thresholdCall_above thr ploidy r v₂ t₂ h2]
  exact le_ceil_iff_pred_lt _ _

/-- the whole line, arbitrary strictly increasing thresholds: if above the last threshold `r·t` always exceeds
    (largest step value − 1), the call is monotone in log2.  (`t` stands for `2^log2`: the hypotheses on it are
    monotonicity and the bound above the last threshold.) -/
theorem monotone_arbitrary (thr : List Rat) (hs : thr.Pairwise (· < ·)) (ploidy r : Nat)
    (v₁ v₂ t₁ t₂ : Rat) (hv : v₁ ≤ v₂) (ht : t₁ ≤ t₂)
    (hab : (∀ th ∈ thr, th < v₂) → ((scaledIdx ploidy r (thr.length - 1) : Int) : Rat) - 1 < (r : Rat) * t₂) :
    thresholdCall thr ploidy r (some v₁) t₁ ≤ thresholdCall thr ploidy r (some v₂) t₂ := by
  by_cases hA2 : ∀ th ∈ thr, th < v₂
  · by_cases hA1 : ∀ th ∈ thr, th < v₁
    · exact monotone_above_last thr ploidy r v₁ v₂ t₁ t₂ hA1 hA2 ht
    · have hB1 := exists_le_of_not_all_lt thr v₁ hA1
      rw [monotone_across_iff thr hs ploidy r v₁ v₂ t₁ t₂ hB1 hA2]
      have hc : thr.countP (fun th => decide (th < v₁)) ≤ thr.length - 1 := by
        have := countP_lt_length_of_exists thr v₁ hB1
        omega
      have hm : ((scaledIdx ploidy r (thr.countP (fun th => decide (th < v₁))) : Int) : Rat)
          ≤ ((scaledIdx ploidy r (thr.length - 1) : Int) : Rat) := by
        exact_mod_cast scaledIdx_mono ploidy r hc
      have := hab hA2
      linarith
  · exact monotone_below_last thr hs ploidy r v₁ v₂ t₁ t₂ hv (exists_le_of_not_all_lt thr v₂ hA2)

/-- … and the bound is sharp: a log2 just below the last threshold (all other thresholds strictly below it)
    against a log2 above the last threshold whose `r·t` does not exceed (largest step value − 1) is a strict
    DECREASE.  Together with `monotone_arbitrary`: monotone on the whole line iff the bound holds at every
    point above the last threshold. -/
theorem monotone_fails_exactly (thr : List Rat) (hs : thr.Pairwise (· < ·)) (ploidy r : Nat)
    (v₁ v₂ t₁ t₂ : Rat) (h1 : ∃ th ∈ thr, v₁ ≤ th)
    (hc : thr.countP (fun th => decide (th < v₁)) = thr.length - 1)
    (h2 : ∀ th ∈ thr, th < v₂)
    (hbad : (r : Rat) * t₂ ≤ ((scaledIdx ploidy r (thr.length - 1) : Int) : Rat) - 1) :
    thresholdCall thr ploidy r (some v₂) t₂ < thresholdCall thr ploidy r (some v₁) t₁ := by
  have := (monotone_across_iff thr hs ploidy r v₁ v₂ t₁ t₂ h1 h2).not
  rw [hc] at this
  exact not_le.mp (this.mpr (not_lt.mpr hbad))

/-! ### C01: the rescaled ratio for every ploidy -/

/-- the copies the rescaling ASSUMES the reference carries: exactly half the ploidy (a rational, `ploidy/2`) on Y
    and on X under a haploid-X reference, the ploidy elsewhere -/
def assumedRefCopies (ploidy : Nat) (hapX : Bool) (cls : CClass) : Rat :=
  if cls = .y ∨ (hapX = true ∧ cls = .x) then (ploidy : Rat) / 2 else (ploidy : Rat)

theorem rescaledRatio_eq_assumed (ploidy : Nat) (hpl : 0 < ploidy) (hapX : Bool) (cls : CClass) (a M : Rat) :
    rescaledRatio ploidy hapX cls a M =
      max (a / assumedRefCopies ploidy hapX cls) (M * (ploidy : Rat) / assumedRefCopies ploidy hapX cls) := by
  have hP : (0 : Rat) < (ploidy : Rat) := by exact_mod_cast hpl
  have full : max (a / (ploidy : Rat)) M = max (a / (ploidy : Rat)) (M * (ploidy : Rat) / (ploidy : Rat)) := by
    rw [mul_div_cancel_right₀ _ (ne_of_gt hP)]
  have half : max (a / (ploidy : Rat)) M * 2 =
      max (a / ((ploidy : Rat) / 2)) (M * (ploidy : Rat) / ((ploidy : Rat) / 2)) := rescaled_half _ _ _ hP
  cases cls <;> cases hapX <;> simp [rescaledRatio, assumedRefCopies] <;> first | exact full | exact half

/-- what the purity path writes into log2, for EVERY ploidy: under the mixing premise (with `r > 0`) the ratio of
    `n` copies against `assumedRefCopies` — the exact half `ploidy/2` on Y / haploid X —, floored -/
theorem callRow_rescaled_ratio_any (cfg : CallCfg) (p : Rat) (hcfg : cfg.purity = some p)
    (hp0 : 0 < p) (hp1 : p < 1) (hpl : 0 < cfg.ploidy)
    (m : Method) (thr : List Rat) (first : String) (hasBaf : Bool) (row : SegRow) (n : Nat)
    (hr : 0 < (refExpect cfg.ploidy cfg.hapX cfg.female (classOf first cfg.par row.chrom row.s row.e)).1)
    (ht : row.t = (p * (n : Rat) +
            (1 - p) * ((refExpect cfg.ploidy cfg.hapX cfg.female (classOf first cfg.par row.chrom row.s row.e)).2 : Rat)) /
          ((refExpect cfg.ploidy cfg.hapX cfg.female (classOf first cfg.par row.chrom row.s row.e)).1 : Rat)) :
    (callRow cfg m thr first hasBaf row).ratio =
      some (max ((n : Rat) / assumedRefCopies cfg.ploidy cfg.hapX (classOf first cfg.par row.chrom row.s row.e))
                (Generated.MIN_ABS_VAL * (cfg.ploidy : Rat) /
                  assumedRefCopies cfg.ploidy cfg.hapX (classOf first cfg.par row.chrom row.s row.e))) := by
  have hpa : purityActive cfg.purity = some p := by rw [hcfg]; exact purityActive_some p hp0 hp1
  have hratio : (callRow cfg m thr first hasBaf row).ratio =
      some (rescaledRatio cfg.ploidy cfg.hapX (classOf first cfg.par row.chrom row.s row.e)
        (n : Rat) Generated.MIN_ABS_VAL) := by
    unfold callRow
    simp only [hpa]
    rw [hcfg, ht, absoluteOf_inverts _ _ n p hp0 hp1 hr]
    cases m <;> rfl
  rw [hratio, rescaledRatio_eq_assumed _ hpl]

/-- the assumed copies against the copies `r` the reference table really assigns (`ploidy // 2`): equal for even
    ploidy and on every full class; `r + 1/2` on Y / haploid X when the ploidy is odd -/
theorem assumedRefCopies_vs_table (ploidy : Nat) (hapX female : Bool) (cls : CClass) (hcls : cls ≠ .pary) :
    assumedRefCopies ploidy hapX cls =
      ((refExpect ploidy hapX female cls).1 : Rat) +
        (if ploidy % 2 = 1 ∧ (cls = .y ∨ (hapX = true ∧ cls = .x)) then 1/2 else 0) := by
  have hodd : ploidy % 2 = 1 → ((ploidy / 2 : Nat) : Rat) + 1/2 = (ploidy : Rat) / 2 := by
    intro h
    obtain ⟨k, rfl⟩ : ∃ k, ploidy = 2 * k + 1 := ⟨ploidy / 2, by omega⟩
    have : (2 * k + 1) / 2 = k := by omega
    rw [this]; push_cast; ring
  have heven : ¬ ploidy % 2 = 1 → ((ploidy / 2 : Nat) : Rat) + 0 = (ploidy : Rat) / 2 := by
    intro h
    rw [add_zero]; exact natHalf_cast ploidy (by omega)
  by_cases ho : ploidy % 2 = 1
  · cases cls <;> cases hapX <;> simp [assumedRefCopies, refExpect, ho] <;>
      first | (rw [← hodd ho]; norm_num) | exact absurd rfl hcls
  · cases cls <;> cases hapX <;> simp [assumedRefCopies, refExpect, ho] <;>
      first | (have := heven ho; rw [add_zero] at this; exact this.symm) | exact absurd rfl hcls

/-- consequence for odd ploidy: on Y / haploid X, a call with `n > 0` copies above the floor is rewritten to a
    ratio STRICTLY BELOW the pure sample's `n / r` (by the factor `r / (r + 1/2)`) -/
theorem rescaled_odd_below_pure (ploidy : Nat) (hapX female : Bool) (cls : CClass)
    (hodd : ploidy % 2 = 1) (hhalf : cls = .y ∨ (hapX = true ∧ cls = .x))
    (hr : 0 < (refExpect ploidy hapX female cls).1) (n : Nat) (hn : 0 < n) :
    (n : Rat) / assumedRefCopies ploidy hapX cls < (n : Rat) / ((refExpect ploidy hapX female cls).1 : Rat) ∧
    (n : Rat) / assumedRefCopies ploidy hapX cls =
      (n : Rat) / ((refExpect ploidy hapX female cls).1 : Rat) *
        (((refExpect ploidy hapX female cls).1 : Rat) / (((refExpect ploidy hapX female cls).1 : Rat) + 1/2)) := by
  have hcls : cls ≠ .pary := by
    rcases hhalf with h | ⟨_, h⟩ <;> rw [h] <;> decide
  rw [assumedRefCopies_vs_table ploidy hapX female cls hcls, if_pos ⟨hodd, hhalf⟩]
  have hr' : (0 : Rat) < ((refExpect ploidy hapX female cls).1 : Rat) := by exact_mod_cast hr
  have hn' : (0 : Rat) < (n : Rat) := by exact_mod_cast hn
  generalize ((refExpect ploidy hapX female cls).1 : Rat) = R at hr'
  constructor
  · apply div_lt_div_of_pos_left hn' hr'
    linarith
  · field_simp

/-! ### C02: the allelic clauses at table level, for every purity -/

theorem callRow_missing_iff (cfg : CallCfg) (m : Method) (hm : m ≠ .none) (thr : List Rat) (first : String)
    (row : SegRow) :
    ((callRow cfg m thr first true row).cn1 = none ∧ (callRow cfg m thr first true row).cn2 = none) ↔
      (row.baf = none ∧ ∃ c, (callRow cfg m thr first true row).cn = some c ∧ 0 < c) := by
  unfold callRow
  simp only
  split <;> cases m <;> first | exact absurd rfl hm | skip
  all_goals
    simp only [if_true]
    rw [allelic_missing_iff]
    simp

theorem bafForCall_baf_isNone (cfg : CallCfg) (fv : Bool) (row : SegRow) :
    (bafForCall cfg fv row).baf = none ↔ row.baf = none := by
  unfold bafForCall
  split
  · split
    · simp
    · rfl
  · rfl

theorem callTableV_missing_iff (cfg : CallCfg) (m : Method) (hm : m ≠ .none) (thr : List Rat)
    (fromVariants : Bool) (rows : List SegRow) (i : Nat) (hi : i < rows.length) :
    let o := (callTableV cfg m thr fromVariants rows)[i]'(by simpa [callTableV, callTable] using hi)
    (o.cn1 = none ∧ o.cn2 = none) ↔ ((rows[i]).baf = none ∧ ∃ c, o.cn = some c ∧ 0 < c) := by
  simp only [callTableV, callTable, List.getElem_map]
  rw [callRow_missing_iff cfg m hm, bafForCall_baf_isNone]

end CnvVerif
