/-
  The RNG skeleton analysis `safeSk` is EXACT, not only sound: whenever it rejects a skeleton there is a complete
  path through the skeleton on which a draw happens before any constant re-seeding.
-/
import CnvVerif.Model.Effects
import CnvVerif.Lemmas.Effects
namespace CnvVerif.Effects

theorem path_exists (sk : Sk) : ∃ l, Path sk l := by
  induction sk with
  | nop => exact ⟨[], .nop⟩
  | op o => exact ⟨[o], .op o⟩
  | seq a b iha ihb =>
    obtain ⟨l1, h1⟩ := iha
    obtain ⟨l2, h2⟩ := ihb
    exact ⟨l1 ++ l2, .seq h1 h2⟩
  | alt a b iha _ => obtain ⟨l, h⟩ := iha; exact ⟨l, .altL h⟩
  | star a _ => exact ⟨[], .starNil⟩

/-- a complete path that is safe from `b` and leaves the flag `b1` -/
def Witness (sk : Sk) (b b1 : Bool) : Prop := ∃ l, Path sk l ∧ safeOps l b = true ∧ flagAfter l b = b1

theorem witness_of {sk : Sk} {b b1 : Bool} (h : safeSk sk b = some b1)
    (hf : safeSk sk b = some false → Witness sk b false) : Witness sk b b1 := by
  cases b1 with
  | false => exact hf h
  | true =>
    obtain ⟨l, hl⟩ := path_exists sk
    obtain ⟨h1, h2⟩ := safeSk_sound hl b true h
    exact ⟨l, hl, h1, h2 rfl⟩

theorem safeSk_exact_aux (sk : Sk) : ∀ b,
    (safeSk sk b = none → ∃ l, Path sk l ∧ safeOps l b = false) ∧
    (safeSk sk b = some false → Witness sk b false) := by
  induction sk with
  | nop =>
    intro b
    refine ⟨fun h => by simp [safeSk] at h, fun h => ?_⟩
    simp [safeSk] at h
    subst h
    exact ⟨[], .nop, rfl, rfl⟩
  | op o =>
    intro b
    cases o with
    | seed c =>
      cases c with
      | none =>
        refine ⟨fun h => by simp [safeSk] at h, fun _ => ?_⟩
        exact ⟨[.seed none], .op _, by simp [safeOps], by simp [flagAfter]⟩
      | some c =>
        exact ⟨fun h => by simp [safeSk] at h, fun h => by simp [safeSk] at h⟩
    | draw k =>
      cases b with
      | false =>
        refine ⟨fun _ => ⟨[.draw k], .op _, by simp [safeOps]⟩, fun h => by simp [safeSk] at h⟩
      | true =>
        exact ⟨fun h => by simp [safeSk] at h, fun h => by simp [safeSk] at h⟩
  | seq x y ihx ihy =>
    intro b
    constructor
    · intro h
      cases h1 : safeSk x b with
      | none =>
        obtain ⟨l1, p1, u1⟩ := (ihx b).1 h1
        obtain ⟨l2, p2⟩ := path_exists y
        exact ⟨l1 ++ l2, .seq p1 p2, by rw [safeOps_append, u1]; rfl⟩
      | some b1 =>
        have h2 : safeSk y b1 = none := by simpa [safeSk, h1] using h
        obtain ⟨l1, p1, s1, f1⟩ := witness_of h1 (ihx b).2
        obtain ⟨l2, p2, u2⟩ := (ihy b1).1 h2
        exact ⟨l1 ++ l2, .seq p1 p2, by rw [safeOps_append, s1, f1, u2]; rfl⟩
    · intro h
      obtain ⟨b1, h1, h2⟩ := safeSk_seq_inv h
      obtain ⟨l1, p1, s1, f1⟩ := witness_of h1 (ihx b).2
      obtain ⟨l2, p2, s2, f2⟩ := (ihy b1).2 h2
      exact ⟨l1 ++ l2, .seq p1 p2, by rw [safeOps_append, s1, f1, s2]; rfl, by rw [flagAfter_append, f1, f2]⟩
  | alt x y ihx ihy =>
    intro b
    constructor
    · intro h
      cases h1 : safeSk x b with
      | none =>
        obtain ⟨l, p, u⟩ := (ihx b).1 h1
        exact ⟨l, .altL p, u⟩
      | some b1 =>
        cases h2 : safeSk y b with
        | none =>
          obtain ⟨l, p, u⟩ := (ihy b).1 h2
          exact ⟨l, .altR p, u⟩
        | some b2 => simp [safeSk, h1, h2] at h
    · intro h
      obtain ⟨b1, b2, h1, h2, hb⟩ := safeSk_alt_inv h
      cases b1 with
      | false =>
        obtain ⟨l, p, s, f⟩ := (ihx b).2 h1
        exact ⟨l, .altL p, s, f⟩
      | true =>
        cases b2 with
        | false =>
          obtain ⟨l, p, s, f⟩ := (ihy b).2 h2
          exact ⟨l, .altR p, s, f⟩
        | true => simp at hb
  | star x ih =>
    intro b
    constructor
    · intro h
      cases h1 : safeSk x b with
      | none =>
        obtain ⟨l, p, u⟩ := (ih b).1 h1
        exact ⟨l ++ [], .starCons p .starNil, by simpa using u⟩
      | some b1 =>
        cases h2 : safeSk x (b && b1) with
        | some b2 => simp [safeSk, h1, h2] at h
        | none =>
          cases b with
          | false => simp [h1] at h2
          | true =>
            simp only [Bool.true_and] at h2
            obtain ⟨l1, p1, s1, f1⟩ := witness_of h1 (ih true).2
            obtain ⟨l2, p2, u2⟩ := (ih b1).1 h2
            refine ⟨l1 ++ (l2 ++ []), .starCons p1 (.starCons p2 .starNil), ?_⟩
            rw [safeOps_append, s1, f1]
            simpa using u2
    · intro h
      obtain ⟨b1, b2, h1, _, hb⟩ := safeSk_star_inv h
      cases b with
      | false => exact ⟨[], .starNil, rfl, rfl⟩
      | true =>
        simp only [Bool.true_and] at hb
        subst hb
        obtain ⟨l, p, s, f⟩ := (ih true).2 h1
        exact ⟨l ++ [], .starCons p .starNil, by simpa using s, by simpa using f⟩

/-- exactness: the analysis rejects a skeleton only if some complete path through it draws before any constant
    re-seeding -/
theorem safeSk_exact {sk : Sk} (h : safeSk sk false = none) : ∃ l, Path sk l ∧ safeOps l false = false :=
  (safeSk_exact_aux sk false).1 h

end CnvVerif.Effects
