/-
  C04, option handling of `load_adjust_coverages` × which columns the reference has: a correction that is switched on
  but whose covariate column is missing from the reference is skipped — the result is the one with the switch off.
-/
import CnvVerif.Lemmas.FixInv
namespace CnvVerif

theorem colTest_false_of_all_none (rf : List RRow) (col : RRow → Option Rat) (h : ∀ r ∈ rf, col r = none) :
    (rf.all (fun r => (col r).isSome) && !rf.isEmpty) = false := by
  cases rf with
  | nil => rfl
  | cons a t =>
    have := h a List.mem_cons_self
    simp [this]

theorem laCorr_gc_skipped (cn1 : List SRow) (rf : List RRow) (fixEdge fixRmask : Bool)
    (perm : List Nat) (wing : Nat) (ek : Option (List Rat)) (h : ∀ r ∈ rf, r.gc = none) :
    laCorr cn1 rf true fixEdge fixRmask perm wing ek = laCorr cn1 rf false fixEdge fixRmask perm wing ek := by
  have hc := colTest_false_of_all_none rf (·.gc) h
  unfold laCorr
  simp only [Bool.true_and, Bool.false_and, hc]

theorem laCorr_rmask_skipped (cn1 : List SRow) (rf : List RRow) (fixGc fixEdge : Bool)
    (perm : List Nat) (wing : Nat) (ek : Option (List Rat)) (h : ∀ r ∈ rf, r.rmask = none) :
    laCorr cn1 rf fixGc fixEdge true perm wing ek = laCorr cn1 rf fixGc fixEdge false perm wing ek := by
  have hc := colTest_false_of_all_none rf (·.rmask) h
  unfold laCorr
  simp only [Bool.true_and, Bool.false_and, hc]

theorem laBody_rf_sub (samp : List SRow) (ref : List RRow) (refM : List RRow) (h : matchRef ref samp = .ok refM) :
    ∀ r ∈ refM.filter (fun r => !badBin r), r ∈ ref := fun r hr =>
  (matchRef_ok ref samp refM h).2 r (List.mem_filter.mp hr).1

/-- a reference without a gc column: `fix_gc=True` gives what `fix_gc=False` gives -/
theorem loadAdjust_gc_skipped (samp : List SRow) (ref : List RRow) (skipLow fixEdge fixRmask : Bool)
    (par : Option String) (perm : List Nat) (wing : Nat) (ek : Option (List Rat)) (h : ∀ r ∈ ref, r.gc = none) :
    loadAdjust samp ref skipLow true fixEdge fixRmask par perm wing ek =
      loadAdjust samp ref skipLow false fixEdge fixRmask par perm wing ek := by
  rw [loadAdjust_stages, loadAdjust_stages]
  unfold laBody
  cases hm : matchRef ref (sortS samp) with
  | error e => rfl
  | ok refM =>
    have := laCorr_gc_skipped (centerS skipLow par (maskRows (sortS samp) refM)) (refM.filter (fun r => !badBin r))
      fixEdge fixRmask perm wing ek (fun r hr => h r (laBody_rf_sub _ _ _ hm r hr))
    simp only [this]

/-- a reference without an rmask column: `fix_rmask=True` gives what `fix_rmask=False` gives -/
theorem loadAdjust_rmask_skipped (samp : List SRow) (ref : List RRow) (skipLow fixGc fixEdge : Bool)
    (par : Option String) (perm : List Nat) (wing : Nat) (ek : Option (List Rat)) (h : ∀ r ∈ ref, r.rmask = none) :
    loadAdjust samp ref skipLow fixGc fixEdge true par perm wing ek =
      loadAdjust samp ref skipLow fixGc fixEdge false par perm wing ek := by
  rw [loadAdjust_stages, loadAdjust_stages]
  unfold laBody
  cases hm : matchRef ref (sortS samp) with
  | error e => rfl
  | ok refM =>
    have := laCorr_rmask_skipped (centerS skipLow par (maskRows (sortS samp) refM)) (refM.filter (fun r => !badBin r))
      fixGc fixEdge perm wing ek (fun r hr => h r (laBody_rf_sub _ _ _ hm r hr))
    simp only [this]

/-- `do_fix` with a reference that lacks the gc column: `--no-gc` changes nothing -/
theorem doFix_gc_skipped (tgt anti : List SRow) (ref : List RRow) (cfg : FixCfg) (P : FixParams)
    (h : ∀ r ∈ ref, r.gc = none) :
    doFix tgt anti ref { cfg with gc := true } P = doFix tgt anti ref { cfg with gc := false } P := by
  unfold doFix
  rw [doFix_eq, doFix_eq]
  show (if _ then _ else
    match loadAdjust tgt ref true true cfg.edge false cfg.par P.permT P.wingT P.edgeKeysT with
    | .error e => _
    | .ok (cnT, rfT, _) =>
      match loadAdjust anti ref false true false cfg.rmask cfg.par P.permA P.wingA with
      | .error e => _
      | .ok (cnA, rfA, _) => _) = _
  rw [loadAdjust_gc_skipped tgt ref true cfg.edge false cfg.par P.permT P.wingT P.edgeKeysT h,
    loadAdjust_gc_skipped anti ref false false cfg.rmask cfg.par P.permA P.wingA none h]
  rfl

/-- … and with one that lacks the rmask column `--no-rmask` changes nothing -/
theorem doFix_rmask_skipped (tgt anti : List SRow) (ref : List RRow) (cfg : FixCfg) (P : FixParams)
    (h : ∀ r ∈ ref, r.rmask = none) :
    doFix tgt anti ref { cfg with rmask := true } P = doFix tgt anti ref { cfg with rmask := false } P := by
  unfold doFix
  rw [doFix_eq, doFix_eq]
  show (if _ then _ else
    match loadAdjust tgt ref true cfg.gc cfg.edge false cfg.par P.permT P.wingT P.edgeKeysT with
    | .error e => _
    | .ok (cnT, rfT, _) =>
      match loadAdjust anti ref false cfg.gc false true cfg.par P.permA P.wingA with
      | .error e => _
      | .ok (cnA, rfA, _) => _) = _
  rw [loadAdjust_rmask_skipped anti ref false cfg.gc false cfg.par P.permA P.wingA none h]
  rfl

/-- `do_fix` never applies the edge correction to off-target bins nor the rmask correction to on-target bins, and only
    on-target bins are centred with `skip_low`: the two `load_adjust_coverages` calls, spelled out -/
theorem doFix_class_calls (tgt anti : List SRow) (ref : List RRow) (cfg : FixCfg) (P : FixParams)
    (hns : (tgt.map sKey).any (fun k => (anti.map sKey).contains k) = false) :
    doFix tgt anti ref cfg P =
      match loadAdjust tgt ref true cfg.gc cfg.edge false cfg.par P.permT P.wingT P.edgeKeysT with
      | .error e => .error e
      | .ok (cnT, rfT, _) =>
        match loadAdjust anti ref false cfg.gc false cfg.rmask cfg.par P.permA P.wingA with
        | .error e => .error e
        | .ok (cnA, rfA, _) => .ok (fixCore cnT cnA rfT rfA cfg P) := by
  unfold doFix
  rw [hns, doFix_eq]
  rfl

end CnvVerif
