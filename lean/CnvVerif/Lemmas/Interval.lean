/-
  Lemmas behind Props/C06.lean: merge / subtract / subdivide / resize on one chromosome's rows.
  Core Lean only.
-/
import CnvVerif.Model.Interval
import CnvVerif.Model.IntervalSpec
namespace CnvVerif

/-! ### coverage vocabulary -/

theorem cov_nil (p : Int) : cov [] p ↔ False := by simp [cov]

theorem cov_cons (a : Row) (l : List Row) (p : Int) :
    cov (a :: l) p ↔ (a.s ≤ p ∧ p < a.e) ∨ cov l p := by
  simp [cov]

/-! ### merge -/

theorem mergeGo_cov (bp : Int) (hbp : 0 ≤ bp) (cur : Row) (genes : List String) (l : List Row)
    (p : Int) (hs : StartSorted (cur :: l)) :
    cov (mergeGo bp cur genes l) p ↔ cov (cur :: l) p := by
  induction l generalizing cur genes with
  | nil => simp [mergeGo, cov]
  | cons x xs ih =>
    unfold mergeGo
    obtain ⟨hhead, htail⟩ := List.pairwise_cons.mp hs
    have h1 : cur.s ≤ x.s := hhead x (by simp)
    have htail' := List.pairwise_cons.mp htail
    split
    · have hs' : StartSorted (x :: xs) := htail
      rw [cov_cons, ih x _ hs', cov_cons, cov_cons, cov_cons]
    · rename_i hle
      have hs' : StartSorted ({ cur with e := max cur.e x.e } :: xs) :=
        List.pairwise_cons.mpr ⟨fun b hb => hhead b (by simp [hb]), htail'.2⟩
      rw [ih _ _ hs']
      simp only [cov_cons]
      show (cur.s ≤ p ∧ p < max cur.e x.e) ∨ cov xs p ↔ _
      constructor
      · rintro (⟨a, b⟩ | h)
        · by_cases hp : p < cur.e
          · left; exact ⟨a, hp⟩
          · right; left; constructor <;> omega
        · right; right; exact h
      · rintro (⟨a, b⟩ | ⟨a, b⟩ | h)
        · left; constructor <;> omega
        · left; constructor <;> omega
        · right; exact h

theorem mergeChrom_cov (bp : Int) (hbp : 0 ≤ bp) (l : List Row) (hs : StartSorted l) (p : Int) :
    cov (mergeChrom bp l) p ↔ cov l p := by
  cases l with
  | nil => simp [mergeChrom]
  | cons x xs => exact mergeGo_cov bp hbp x [x.gene] xs p hs

theorem mergeGo_canon (cur : Row) (genes : List String) (l : List Row)
    (hcur : cur.s < cur.e) (hl : ∀ r ∈ l, r.s < r.e) (hs : StartSorted (cur :: l)) :
    Canon (mergeGo 0 cur genes l) ∧ ∀ r ∈ mergeGo 0 cur genes l, cur.s ≤ r.s := by
  induction l generalizing cur genes with
  | nil =>
    refine ⟨⟨?_, ?_⟩, ?_⟩
    · intro r hr
      simp only [mergeGo, List.mem_singleton] at hr
      subst hr; exact hcur
    · simp [mergeGo]
    · intro r hr
      simp only [mergeGo, List.mem_singleton] at hr
      subst hr; exact Int.le_refl _
  | cons x xs ih =>
    unfold mergeGo
    obtain ⟨hhead, htail⟩ := List.pairwise_cons.mp hs
    have h1 : cur.s ≤ x.s := hhead x (by simp)
    have htail' := List.pairwise_cons.mp htail
    have hx : x.s < x.e := hl x (by simp)
    have hxs : ∀ r ∈ xs, r.s < r.e := fun r hr => hl r (by simp [hr])
    split
    · rename_i hgt
      obtain ⟨⟨hpos, hpw⟩, hge⟩ := ih x [x.gene] hx hxs htail
      refine ⟨⟨?_, ?_⟩, ?_⟩
      · intro r hr
        rcases List.mem_cons.mp hr with h | h
        · subst h; exact hcur
        · exact hpos r h
      · refine List.pairwise_cons.mpr ⟨?_, hpw⟩
        intro r hr
        have := hge r hr
        show cur.e < r.s
        omega
      · intro r hr
        rcases List.mem_cons.mp hr with h | h
        · subst h; exact Int.le_refl _
        · have := hge r h; omega
    · have hs' : StartSorted ({ cur with e := max cur.e x.e } :: xs) :=
        List.pairwise_cons.mpr ⟨fun b hb => hhead b (by simp [hb]), htail'.2⟩
      have hc' : ({ cur with e := max cur.e x.e } : Row).s < ({ cur with e := max cur.e x.e } : Row).e := by
        show cur.s < max cur.e x.e
        omega
      exact ih _ _ hc' hxs hs'

theorem mergeChrom_canon (l : List Row) (hs : StartSorted l) (hp : ∀ r ∈ l, r.s < r.e) :
    Canon (mergeChrom 0 l) := by
  cases l with
  | nil => exact ⟨by simp [mergeChrom], by simp [mergeChrom]⟩
  | cons x xs =>
    exact (mergeGo_canon x [x.gene] xs (hp x (by simp)) (fun r hr => hp r (by simp [hr])) hs).1

theorem mergeGo_head (bp : Int) (cur : Row) (genes : List String) (l : List Row) :
    ∃ r t, mergeGo bp cur genes l = r :: t ∧ r.chrom = cur.chrom ∧ r.s = cur.s := by
  induction l generalizing cur genes with
  | nil => exact ⟨_, [], rfl, rfl, rfl⟩
  | cons x xs ih =>
    unfold mergeGo
    split
    · exact ⟨_, _, rfl, rfl, rfl⟩
    · obtain ⟨r, t, h, hc, hs⟩ := ih { cur with e := max cur.e x.e } (x.gene :: genes)
      exact ⟨r, t, h, hc, hs⟩

theorem mergeChrom_head (bp : Int) (x : Row) (xs : List Row) :
    ∃ r t, mergeChrom bp (x :: xs) = r :: t ∧ r.chrom = x.chrom ∧ r.s = x.s :=
  mergeGo_head bp x [x.gene] xs

/-! ### canonical lists are determined by their coverage -/

theorem Canon.tail {x : Row} {xs : List Row} (h : Canon (x :: xs)) : Canon xs :=
  ⟨fun r hr => h.1 r (by simp [hr]), (List.pairwise_cons.mp h.2).2⟩

theorem Canon.head_pos {x : Row} {xs : List Row} (h : Canon (x :: xs)) : x.s < x.e :=
  h.1 x (by simp)

/-- everything covered by the tail lies strictly to the right of the head's end -/
theorem Canon.tail_gt {x : Row} {xs : List Row} (h : Canon (x :: xs)) {p : Int}
    (hc : cov xs p) : x.e < p := by
  obtain ⟨r, hr, h1, _⟩ := hc
  have := (List.pairwise_cons.mp h.2).1 r hr
  omega

/-- everything covered lies at or to the right of the head's start -/
theorem Canon.cov_ge {x : Row} {xs : List Row} (h : Canon (x :: xs)) {p : Int}
    (hc : cov (x :: xs) p) : x.s ≤ p := by
  rcases (cov_cons x xs p).mp hc with h1 | h1
  · exact h1.1
  · have := h.tail_gt h1
    have := h.head_pos
    omega

theorem canon_unique (a b : List Row) (ha : Canon a) (hb : Canon b)
    (h : ∀ p, cov a p ↔ cov b p) : a.map ivOf = b.map ivOf := by
  induction a generalizing b with
  | nil =>
    cases b with
    | nil => rfl
    | cons y ys =>
      have hy := hb.head_pos
      have : cov (y :: ys) y.s := (cov_cons y ys y.s).mpr (Or.inl ⟨Int.le_refl _, hy⟩)
      exact ((cov_nil _).mp ((h y.s).mpr this)).elim
  | cons x xs ih =>
    cases b with
    | nil =>
      have hx := ha.head_pos
      have : cov (x :: xs) x.s := (cov_cons x xs x.s).mpr (Or.inl ⟨Int.le_refl _, hx⟩)
      exact ((cov_nil _).mp ((h x.s).mp this)).elim
    | cons y ys =>
      have hx := ha.head_pos
      have hy := hb.head_pos
      have cx : cov (x :: xs) x.s := (cov_cons x xs x.s).mpr (Or.inl ⟨Int.le_refl _, hx⟩)
      have cy : cov (y :: ys) y.s := (cov_cons y ys y.s).mpr (Or.inl ⟨Int.le_refl _, hy⟩)
      have h1 : y.s ≤ x.s := hb.cov_ge ((h x.s).mp cx)
      have h2 : x.s ≤ y.s := ha.cov_ge ((h y.s).mpr cy)
      have hs : x.s = y.s := by omega
      have he1 : ¬ x.e < y.e := by
        intro hlt
        have c : cov (y :: ys) x.e := (cov_cons y ys x.e).mpr (Or.inl ⟨by omega, hlt⟩)
        rcases (cov_cons x xs x.e).mp ((h x.e).mpr c) with h3 | h3
        · omega
        · have := ha.tail_gt h3; omega
      have he2 : ¬ y.e < x.e := by
        intro hlt
        have c : cov (x :: xs) y.e := (cov_cons x xs y.e).mpr (Or.inl ⟨by omega, hlt⟩)
        rcases (cov_cons y ys y.e).mp ((h y.e).mp c) with h3 | h3
        · omega
        · have := hb.tail_gt h3; omega
      have he : x.e = y.e := by omega
      have htl : ∀ p, cov xs p ↔ cov ys p := by
        intro p
        constructor
        · intro hc
          have hgt := ha.tail_gt hc
          rcases (cov_cons y ys p).mp ((h p).mp ((cov_cons x xs p).mpr (Or.inr hc))) with h3 | h3
          · omega
          · exact h3
        · intro hc
          have hgt := hb.tail_gt hc
          rcases (cov_cons x xs p).mp ((h p).mpr ((cov_cons y ys p).mpr (Or.inr hc))) with h3 | h3
          · omega
          · exact h3
      have := ih ys ha.tail hb.tail htl
      simp only [List.map_cons, this, ivOf, hs, he]

end CnvVerif
