/-
  flatten: which row values a piece carries.  With the default combiner of the `gene` column (`join_strings`: the
  distinct labels in order) the label of a piece is the combination of the labels of exactly those input rows of the
  chromosome that span the piece, in sorted order -- the "rows in play" of `_flatten_tuples`, which only looks at the
  piece's own overlap group; rows of other groups never span it.
-/
import CnvVerif.Lemmas.FlattenCov
namespace CnvVerif

theorem overlapGroupsGo_flatten (cur : List Row) (mx : Int) (xs : List Row) :
    (overlapGroupsGo cur mx xs).flatten = cur.reverse ++ xs := by
  induction xs generalizing cur mx with
  | nil => simp [overlapGroupsGo]
  | cons x xs ih =>
    unfold overlapGroupsGo
    split
    · rw [List.flatten_cons, ih]; simp
    · rw [ih]; simp

/-- the groups are consecutive stretches of the sorted rows -/
theorem overlapGroups_flatten (l : List Row) : (overlapGroups l).flatten = l := by
  cases l with
  | nil => rfl
  | cons x xs => simp [overlapGroups, overlapGroupsGo_flatten]

/-- row `r` spans the piece `z` -/
def spansB (z r : Row) : Bool := decide (r.s ≤ z.s) && decide (r.e ≥ z.e)

/-- a piece inside the hull of group `g`: among pairwise separated groups only `g`'s rows can span it -/
theorem filter_spans_groups (G : List (List Row)) (hG : G.Pairwise FcBefore) (g : List Row) (hg : g ∈ G) (z : Row)
    (hz : z.s < z.e) (hlo : ∃ a ∈ g, a.s ≤ z.s) (hhi : ∃ a ∈ g, z.e ≤ a.e) :
    G.flatten.filter (spansB z) = g.filter (spansB z) := by
  induction G with
  | nil => simp at hg
  | cons h G ih =>
    obtain ⟨hh, hG'⟩ := List.pairwise_cons.mp hG
    rw [List.flatten_cons, List.filter_append]
    obtain ⟨a, ha, hal⟩ := hlo
    obtain ⟨c, hc, hch⟩ := hhi
    rcases List.mem_cons.mp hg with heq | hin
    · subst heq
      have : G.flatten.filter (spansB z) = [] := by
        rw [List.filter_eq_nil_iff]
        intro b hb
        obtain ⟨h', hh', hbh⟩ := List.mem_flatten.mp hb
        have := hh h' hh' c hc b hbh
        simp only [spansB, Bool.and_eq_true, decide_eq_true_eq, not_and]
        intro h1; omega
      rw [this, List.append_nil]
    · have : h.filter (spansB z) = [] := by
        rw [List.filter_eq_nil_iff]
        intro b hb
        have := hh g hin b hb a ha
        simp only [spansB, Bool.and_eq_true, decide_eq_true_eq, not_and]
        intro _; omega
      rw [this, List.nil_append]
      exact ih hG' hin

theorem joinStrings_singleton (x : String) : joinStrings [x] = x := by
  unfold joinStrings
  rw [show [x].eraseDups = [x] by simp [List.eraseDups_cons]]
  rfl

/-- within its own group -/
theorem flattenGroup_payload (g : List Row) (z : Row) (hz : z ∈ flattenGroup g) :
    z.gene = joinStrings ((g.filter (spansB z)).map (·.gene)) := by
  unfold flattenGroup at hz
  split at hz
  · simp at hz
  · rename_i r
    have hzr : z = r := by simpa using hz
    subst hzr
    have : [z].filter (spansB z) = [z] := by simp [spansB]
    rw [this]
    exact (joinStrings_singleton _).symm
  · simp only [List.mem_map] at hz
    obtain ⟨⟨a, b⟩, _, rfl⟩ := hz
    rfl

/-- the label of every piece of a chromosome is `join_strings` over the labels of exactly the input rows that span
    it, in sorted order -/
theorem flattenChrom_payload (l : List Row) (hs : l.Pairwise (fun a b => a.s ≤ b.s)) (hwf : ∀ r ∈ l, r.s < r.e) :
    ∀ z ∈ flattenChrom l, z.gene = joinStrings ((l.filter (spansB z)).map (·.gene)) := by
  intro z hz
  obtain ⟨im, _, ip⟩ := fc_groups_spec l hs
  obtain ⟨g, hg, hzg⟩ := List.mem_flatMap.mp hz
  have hgwf : ∀ r ∈ g, r.s < r.e := fun r hr => hwf r ((im r).mp ⟨g, hg, hr⟩)
  obtain ⟨hlo, hhi, hpos, _⟩ := fc_flattenGroup_mem g hgwf z hzg
  rw [flattenGroup_payload g z hzg, ← filter_spans_groups (overlapGroups l) ip g hg z hpos hlo hhi,
    overlapGroups_flatten]

/-- a piece also keeps the chromosome (and any other field the model does not combine) of the first row of its group -/
theorem flattenGroup_chrom (g : List Row) (z : Row) (hz : z ∈ flattenGroup g) : ∃ r ∈ g, z.chrom = r.chrom := by
  unfold flattenGroup at hz
  split at hz
  · simp at hz
  · rename_i r
    have hzr : z = r := by simpa using hz
    exact ⟨r, by simp, by rw [hzr]⟩
  · rename_i first _ _
    simp only [List.mem_map] at hz
    obtain ⟨⟨a, b⟩, _, rfl⟩ := hz
    exact ⟨first, by simp, rfl⟩

end CnvVerif
