/-
  The structure of `bias_correct_logr` / `combine_probes` as the translator reads it (Generated/RefConsts.lean): the
  model's correction pipeline and block decision table are that structure.
-/
import CnvVerif.Generated.RefConsts
import CnvVerif.Model.Reference
import CnvVerif.Model.ReferenceExt
import Mathlib.Tactic.Ring
import Mathlib.Tactic.Linarith
import Mathlib.Tactic.SplitIfs
import Mathlib.Tactic.NormNum
import Mathlib.Tactic.FieldSimp
import Mathlib.Tactic.Push
set_option linter.unusedTactic false
set_option linter.unreachableTactic false
set_option linter.unusedSimpArgs false
namespace CnvVerif.Src
open CnvVerif CnvVerif.Generated CnvVerif.Ref

/-! ### the structure of `bias_correct_logr` / `combine_probes` (Generated/RefConsts.lean) -/

/-- the model's correction pipeline IS the sequence of `center_by_window` calls of `bias_correct_logr` in source
    order, skipped under the source's test (`(log2 > NULL_LOG2_COVERAGE - MIN_REF_COVERAGE).sum() <= len // 2`) -/
theorem correctLogr_is_source (cfg : CorrCfg) (rows : List CovRow) (logr : List Rat) :
    correctLogr cfg rows logr =
      correctLogrBy (REF_CORRECTION_STEPS.map (·.1)) REF_LOWCOV_THRESHOLD REF_LOWCOV_TEST.2.2 cfg rows logr := by
  have hthr : NULL_LOG2_COVERAGE - MIN_REF_COVERAGE = REF_LOWCOV_THRESHOLD := by
    unfold NULL_LOG2_COVERAGE MIN_REF_COVERAGE REF_LOWCOV_THRESHOLD; norm_num
  have hsteps : REF_CORRECTION_STEPS.map (·.1) = ["gc", "rmask", "edge"] := by decide
  have hdiv : REF_LOWCOV_TEST.2.2 = 2 := by decide
  unfold correctLogr correctLogrBy
  rw [hthr, hsteps, hdiv]
  rfl

/-- each step runs under its own flag, with the window fraction 0.1 the harness computes the half window from, and
    the skip test compares the way the model does -/
theorem correction_guards_are_source :
    REF_CORRECTION_STEPS.map (·.2.1) = ["fix_gc", "fix_rmask", "fix_edge"] ∧
    REF_CORRECTION_STEPS.all (fun s => s.2.2 == 1 / 10) = true ∧
    REF_LOWCOV_TEST.1 = "Gt" ∧ REF_LOWCOV_TEST.2.1 = "LtE" := by
  refine ⟨by decide, by decide +kernel, by decide, by decide⟩

/-- which corrections a block gets IS what `combine_probes` writes in its two `load_sample_block` calls -/
theorem blockCfg_is_source (doGc doEdge doRmask : Bool) (k : BlockKeys) :
    blockCfg true doGc doEdge doRmask k = blockCfgBy REF_TARGET_FLAGS doGc doEdge doRmask k ∧
    blockCfg false doGc doEdge doRmask k = blockCfgBy REF_ANTITARGET_FLAGS doGc doEdge doRmask k := by
  unfold blockCfg blockCfgBy REF_TARGET_FLAGS REF_ANTITARGET_FLAGS
  cases doGc <;> cases doEdge <;> cases doRmask <;> simp [flagOf]

end CnvVerif.Src
