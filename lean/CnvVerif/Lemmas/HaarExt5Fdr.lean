/-
  Lemmas behind Props/C11Fdr.lean: the descending sort of `FDRThres`, the last index of `np.nonzero`, the largest
  peak.
-/
import CnvVerif.Model.HaarExt5Fdr
import CnvVerif.Lemmas.HaarTop
set_option linter.unusedSimpArgs false
set_option linter.unusedVariables false
namespace CnvVerif.HaarFdr
open CnvVerif.Haar

theorem mem_insertDesc (a x : Rat) (l : List Rat) : a ∈ insertDesc x l ↔ a = x ∨ a ∈ l := by
  induction l with
  | nil => simp [insertDesc]
  | cons y ys ih =>
    unfold insertDesc
    split
    · simp
    · simp only [List.mem_cons, ih]
      tauto

theorem sortDesc_cons (y : Rat) (ys : List Rat) : sortDesc (y :: ys) = insertDesc y (sortDesc ys) := rfl

theorem mem_sortDesc (a : Rat) (l : List Rat) : a ∈ sortDesc l ↔ a ∈ l := by
  induction l with
  | nil => simp [sortDesc]
  | cons y ys ih => rw [sortDesc_cons, mem_insertDesc, ih]; simp

theorem length_insertDesc (x : Rat) (l : List Rat) : (insertDesc x l).length = l.length + 1 := by
  induction l with
  | nil => simp [insertDesc]
  | cons y ys ih =>
    unfold insertDesc
    split
    · simp
    · simp [ih]

theorem length_sortDesc (l : List Rat) : (sortDesc l).length = l.length := by
  induction l with
  | nil => simp [sortDesc]
  | cons y ys ih => rw [sortDesc_cons, length_insertDesc, ih]; simp

theorem insertDesc_sorted (x : Rat) (l : List Rat) (h : l.Pairwise (fun a b => b ≤ a)) :
    (insertDesc x l).Pairwise (fun a b => b ≤ a) := by
  induction l with
  | nil => simp [insertDesc]
  | cons y ys ih =>
    obtain ⟨hy, hys⟩ := List.pairwise_cons.mp h
    unfold insertDesc
    split
    · rename_i hlt
      refine List.pairwise_cons.mpr ⟨?_, h⟩
      intro b hb
      rcases List.mem_cons.mp hb with rfl | hb
      · linarith
      · have := hy b hb
        linarith
    · rename_i hnlt
      refine List.pairwise_cons.mpr ⟨?_, ih hys⟩
      intro b hb
      rcases (mem_insertDesc b x ys).mp hb with rfl | hb
      · linarith
      · exact hy b hb

theorem sortDesc_sorted (l : List Rat) : (sortDesc l).Pairwise (fun a b => b ≤ a) := by
  induction l with
  | nil => simp [sortDesc]
  | cons y ys ih => rw [sortDesc_cons]; exact insertDesc_sorted y _ ih

theorem length_xSorted (x : List Rat) : (xSorted x).length = x.length := by
  simp [xSorted, length_sortDesc]

theorem mem_xSorted (a : Rat) (x : List Rat) : a ∈ xSorted x ↔ ∃ v ∈ x, absQ v = a := by
  simp [xSorted, mem_sortDesc]

/-- every element of the sorted array is at most its head -/
theorem le_top_of_mem_xSorted (a : Rat) (x : List Rat) (h : a ∈ xSorted x) : a ≤ top x := by
  unfold top
  have hs : (xSorted x).Pairwise (fun a b => b ≤ a) := sortDesc_sorted _
  cases hx : xSorted x with
  | nil => rw [hx] at h; simp at h
  | cons t ts =>
    rw [hx] at h hs
    obtain ⟨ht, _⟩ := List.pairwise_cons.mp hs
    rcases List.mem_cons.mp h with rfl | h
    · simp
    · simpa using ht a h

/-- `x_sorted[0]` bounds every `|x[k]|` -/
theorem abs_le_top (x : List Rat) (v : Rat) (hv : v ∈ x) : absQ v ≤ top x :=
  le_top_of_mem_xSorted _ x ((mem_xSorted _ x).mpr ⟨v, hv, rfl⟩)

/-- `x_sorted[0]` is one of the `|x[k]|` -/
theorem top_mem (x : List Rat) (hx : 1 ≤ x.length) : ∃ v ∈ x, absQ v = top x := by
  apply (mem_xSorted _ x).mp
  unfold top
  cases h : xSorted x with
  | nil =>
    have := length_xSorted x
    rw [h] at this
    simp at this
    omega
  | cons t ts => simp

theorem getD_mem_xSorted (x : List Rat) (i : Nat) (hi : i < x.length) : (xSorted x).getD i 0 ∈ xSorted x := by
  have hi' : i < (xSorted x).length := by rw [length_xSorted]; exact hi
  have : (xSorted x).getD i 0 = (xSorted x)[i] := by
    simp [List.getD_eq_getElem?_getD, List.getElem?_eq_getElem hi']
  rw [this]
  exact List.getElem_mem hi'

/-- the last element of `np.nonzero(mask)[0]` is the largest index whose mask bit is set -/
theorem getLast_filter_range_some (p : Nat → Bool) (M j : Nat)
    (h : ((List.range M).filter p).getLast? = some j) :
    j < M ∧ p j = true ∧ ∀ k, j < k → k < M → p k = false := by
  induction M generalizing j with
  | zero => simp at h
  | succ M ih =>
    rw [List.range_succ, List.filter_append] at h
    by_cases hp : p M = true
    · have hM : List.filter p [M] = [M] := by simp [hp]
      rw [hM, List.getLast?_concat] at h
      have : M = j := by simpa using h
      subst this
      refine ⟨by omega, hp, ?_⟩
      intro k h1 h2
      omega
    · have hM : List.filter p [M] = [] := by simp [hp]
      rw [hM, List.append_nil] at h
      obtain ⟨h1, h2, h3⟩ := ih j h
      refine ⟨by omega, h2, ?_⟩
      intro k hk1 hk2
      by_cases hkM : k = M
      · subst hkM
        simpa using hp
      · exact h3 k hk1 (by omega)

theorem getLast_filter_range_none (p : Nat → Bool) (M : Nat)
    (h : ((List.range M).filter p).getLast? = none) : ∀ k, k < M → p k = false := by
  intro k hk
  have hnil : (List.range M).filter p = [] := List.getLast?_eq_none_iff.mp h
  have := List.filter_eq_nil_iff.mp hnil k (List.mem_range.mpr hk)
  simpa using this

theorem eps_pos : (0 : Rat) < Generated.HAAR_FDR_EPS := by
  unfold Generated.HAAR_FDR_EPS
  norm_num

end CnvVerif.HaarFdr
