/-
  C04 (round 5): the model's decisions equal the expressions re-read from the current source of `fix.apply_weights` /
  `fix.load_adjust_coverages` (Generated/ExprsFixPlan.lean, regenerated from /repo on every run).  Proved through `simp` /
  `norm_num` / case analysis, so that a flipped comparison with swapped operands, a numpy alias (`np.absolute`,
  `np.remainder`) or a renamed local keeps the theorems, while a changed connective, reduction, constant, guard or order
  breaks them.
-/
import CnvVerif.Generated.ExprsFixPlan
import CnvVerif.Model.FixExt5
import Mathlib.Tactic.Ring
import Mathlib.Tactic.NormNum
set_option linter.unusedTactic false
set_option linter.unreachableTactic false
set_option linter.unusedSimpArgs false
namespace CnvVerif.C04x
open CnvVerif CnvVerif.Generated

theorem skip_is_source (l : List Rat) : skipCorrections l = src_skip_corrections l := by
  unfold skipCorrections src_skip_corrections
  have h : (NULL_LOG2_COVERAGE - MIN_REF_COVERAGE : Rat) = -15 := by unfold NULL_LOG2_COVERAGE MIN_REF_COVERAGE; norm_num
  rw [h]
  norm_num

theorem plan_is_source (s g e r a b : Bool) : correctionPlan s g e r a b = src_correction_plan s g e r a b := by
  cases s <;> cases g <;> cases e <;> cases r <;> cases a <;> cases b <;> first | rfl | simp [correctionPlan, src_correction_plan]

theorem pooledCols_is_source (sp lg : List Rat) : pooledCols sp lg = src_pooled_test WEIGHT_EPSILON sp lg := by
  unfold pooledCols src_pooled_test
  simp [absR, mod1, div_one, mul_one]

end CnvVerif.C04x
