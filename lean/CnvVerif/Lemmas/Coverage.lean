/-
  Lemmas behind Props/C09.lean (coverage): interval/position counting, double counting for the pileup,
  the read filters, fetch irrelevance, chunking, ordered gather, grouping.
  Core Lean only.
-/
import CnvVerif.Model.Coverage
set_option linter.unusedSimpArgs false
set_option linter.unusedVariables false
namespace CnvVerif.Cov
open CnvVerif

/-! ## sums -/

theorem sum_map_add {α} (l : List α) (f g : α → Int) :
    (l.map (fun x => f x + g x)).sum = (l.map f).sum + (l.map g).sum := by
  induction l with
  | nil => rfl
  | cons x t ih => simp only [List.map_cons, List.sum_cons, ih]; omega

theorem sum_map_zero {α} (l : List α) (f : α → Int) (h : ∀ x ∈ l, f x = 0) : (l.map f).sum = 0 := by
  induction l with
  | nil => rfl
  | cons x t ih =>
    simp only [List.map_cons, List.sum_cons]
    rw [h x (List.mem_cons_self ..), ih (fun y hy => h y (List.mem_cons_of_mem _ hy))]; rfl

theorem sum_map_congr {α} (l : List α) (f g : α → Int) (h : ∀ x ∈ l, f x = g x) :
    (l.map f).sum = (l.map g).sum := by
  rw [List.map_congr_left h]

/-- dropping elements whose term is zero does not change a sum -/
theorem sum_map_filter_of_zero {α} (l : List α) (p : α → Bool) (f : α → Int)
    (h : ∀ x ∈ l, p x = false → f x = 0) : ((l.filter p).map f).sum = (l.map f).sum := by
  induction l with
  | nil => rfl
  | cons x t ih =>
    have iht := ih (fun y hy => h y (List.mem_cons_of_mem _ hy))
    by_cases hp : p x = true
    · simp only [List.filter_cons, hp, if_true, List.map_cons, List.sum_cons, iht]
    · have hp' : p x = false := by simpa using hp
      have := h x (List.mem_cons_self ..) hp'
      simpa [List.filter_cons, hp', this] using iht

/-- indicator sum = count -/
theorem sum_indicator {α} (l : List α) (p : α → Bool) :
    (l.map (fun x => if p x then (1 : Int) else 0)).sum = (l.countP p : Int) := by
  induction l with
  | nil => rfl
  | cons x t ih =>
    simp only [List.map_cons, List.sum_cons, List.countP_cons, ih]
    by_cases hp : p x = true <;> simp [hp] <;> omega

/-! ## intervals and positions -/

theorem ovl_nonneg (a b s e : Int) : 0 ≤ ovl a b s e := by unfold ovl; omega

theorem ovl_comm (a b s e : Int) : ovl a b s e = ovl s e a b := by unfold ovl; omega

/-- abutting intervals add up -/
theorem ovl_split (a b c s e : Int) (h1 : a ≤ b) (h2 : b ≤ c) :
    ovl a b s e + ovl b c s e = ovl a c s e := by unfold ovl; omega

theorem ovl_eq_zero (a b s e : Int) (h : ¬ (a < e ∧ s < b)) : ovl a b s e = 0 := by unfold ovl; omega

theorem ovl_empty_bin (a b s e : Int) (h : e ≤ s) (hab : a ≤ b) : ovl a b s e = 0 := by unfold ovl; omega

/-- inside-the-bin test of `region_depth_count`: `start <= p < end` -/
def inBin (s e : Int) (p : Int) : Bool := decide (s ≤ p) && decide (p < e)

/-- the integers `a, a+1, …, a+l-1` -/
def run (a : Int) (l : Nat) : List Int := (List.range l).map (fun (i : Nat) => a + (i : Int))

theorem run_succ (a : Int) (l : Nat) : run a (l + 1) = run a l ++ [a + (l : Int)] := by
  unfold run; rw [List.range_succ, List.map_append]; rfl

/-- counting the positions of a run that fall in `[s, e)` is interval arithmetic -/
theorem countP_run (a : Int) (l : Nat) (s e : Int) :
    ((run a l).countP (inBin s e) : Int) = ovl a (a + (l : Int)) s e := by
  induction l with
  | zero => simp [run, ovl]; omega
  | succ n ih =>
    rw [run_succ, List.countP_append]
    have hs : ([a + (n : Int)].countP (inBin s e) : Int) = if inBin s e (a + n) then 1 else 0 := by
      by_cases h : inBin s e (a + n) = true <;> simp [List.countP_cons, h]
    rw [Int.natCast_add, ih, hs]
    unfold ovl inBin
    by_cases h1 : s ≤ a + (n : Int) <;> by_cases h2 : a + (n : Int) < e <;> simp [h1, h2] <;> omega

/-- `AlignedSegment.positions` (`get_reference_positions`): every reference position a read base is aligned to -/
def positionsFrom (p : Int) : List (Nat × Nat) → List Int
  | [] => []
  | (op, l) :: t =>
    if isAlignOp op then run p l ++ positionsFrom (p + (l : Int)) t
    else if isGapOp op then positionsFrom (p + (l : Int)) t
    else positionsFrom p t

/-- `read.positions` of a record -/
def Read.positions (r : Read) : List Int := positionsFrom r.pos r.cigar

theorem blocks_sum_eq_countP (p : Int) (cigar : List (Nat × Nat)) (s e : Int) :
    ((blocksFrom p cigar).map (fun b => ovl b.1 b.2 s e)).sum =
      ((positionsFrom p cigar).countP (inBin s e) : Int) := by
  induction cigar generalizing p with
  | nil => rfl
  | cons c t ih =>
    obtain ⟨op, l⟩ := c
    unfold blocksFrom positionsFrom
    by_cases ha : isAlignOp op = true
    · rw [if_pos ha, if_pos ha]
      simp only [List.map_cons, List.sum_cons, List.countP_append, Int.natCast_add, ih, countP_run]
    · by_cases hg : isGapOp op = true
      · rw [if_neg ha, if_neg ha, if_pos hg, if_pos hg]; exact ih _
      · rw [if_neg ha, if_neg ha, if_neg hg, if_neg hg]; exact ih _

/-- `sum(1 for p in read.positions if start <= p < end)` is what `basesIn` computes -/
theorem basesIn_eq_count_positions (r : Read) (s e : Int) :
    basesIn (align r) s e = ((r.positions.countP (inBin s e) : Nat) : Int) :=
  blocks_sum_eq_countP r.pos r.cigar s e

/-- blocks of a CIGAR lie inside its reference span, in order -/
theorem blocks_within (p : Int) (cigar : List (Nat × Nat)) :
    ∀ b ∈ blocksFrom p cigar, p ≤ b.1 ∧ b.1 ≤ b.2 ∧ b.2 ≤ p + (refLen cigar : Int) := by
  induction cigar generalizing p with
  | nil => intro b hb; simp [blocksFrom] at hb
  | cons c t ih =>
    obtain ⟨op, l⟩ := c
    intro b hb
    unfold blocksFrom at hb
    unfold refLen
    by_cases ha : isAlignOp op = true
    · simp only [ha, if_true, List.mem_cons] at hb
      simp only [ha, Bool.true_or, if_true, Int.natCast_add]
      rcases hb with hb | hb
      · subst hb; simp only; omega
      · have := ih _ b hb; omega
    · by_cases hg : isGapOp op = true
      · simp only [ha, hg, if_true] at hb
        have ha' : isAlignOp op = false := by simpa using ha
        simp only [ha', hg, Bool.false_or, if_true, Int.natCast_add]
        have := ih _ b hb; omega
      · simp only [ha, hg] at hb
        have ha' : isAlignOp op = false := by simpa using ha
        have hg' : isGapOp op = false := by simpa using hg
        simp only [ha', hg', Bool.or_self, Int.natCast_add]
        have := ih _ b hb
        simp at this ⊢; omega

/-- well-formed aligned record: blocks inside the span -/
def ARead.WF (r : ARead) : Prop := ∀ b ∈ r.blocks, r.s ≤ b.1 ∧ b.1 ≤ b.2 ∧ b.2 ≤ r.e

theorem align_wf (r : Read) : (align r).WF := blocks_within r.pos r.cigar

/-- a record whose span misses the bin has no aligned base in it -/
theorem basesIn_eq_zero_of_miss (r : ARead) (h : r.WF) (s e : Int) (hm : ¬ (r.s < e ∧ s < r.e)) :
    basesIn r s e = 0 := by
  unfold basesIn
  apply sum_map_zero
  intro b hb
  have := h b hb
  apply ovl_eq_zero
  omega

/-- without deletions / reference skips the aligned blocks tile the reference span -/
theorem blocks_sum_eq_span (p : Int) (cigar : List (Nat × Nat)) (hng : noRefGap cigar = true) (s e : Int) :
    ((blocksFrom p cigar).map (fun b => ovl b.1 b.2 s e)).sum = ovl p (p + (refLen cigar : Int)) s e := by
  induction cigar generalizing p with
  | nil => simp [blocksFrom, refLen, ovl]; omega
  | cons c t ih =>
    obtain ⟨op, l⟩ := c
    unfold noRefGap at hng
    rw [List.all_cons] at hng
    simp only [Bool.and_eq_true, Bool.not_eq_true'] at hng
    obtain ⟨hg, ht⟩ := hng
    have ht' : noRefGap t = true := ht
    unfold blocksFrom refLen
    by_cases ha : isAlignOp op = true
    · simp only [ha, if_true, Bool.true_or, List.map_cons, List.sum_cons, ih _ ht', Int.natCast_add]
      rw [← Int.add_assoc]
      exact ovl_split _ _ _ _ _ (by omega) (by omega)
    · have ha' : isAlignOp op = false := by simpa using ha
      have hg' : ¬ isGapOp op = true := by simp [hg]
      rw [if_neg ha, if_neg hg']
      simp only [ha', hg, Bool.or_self, ih _ ht']
      simp

theorem basesIn_eq_spanIn (r : Read) (hng : noRefGap r.cigar = true) (s e : Int) :
    basesIn (align r) s e = spanIn (align r) s e :=
  blocks_sum_eq_span r.pos r.cigar hng s e

/-! ## the pileup as a per-position count -/

/-- positions of the bin -/
def binPositions (s e : Int) : List Int := run s (e - s).toNat

/-- the read's reference span covers position `p` (deleted / skipped positions included) -/
def covers (r : ARead) (p : Int) : Bool := decide (r.s ≤ p) && decide (p < r.e)

/-- pileup depth at a position: number of reads covering it -/
def pileupAt (reads : List ARead) (p : Int) : Nat := reads.countP (fun r => covers r p)

theorem covers_eq_inBin (r : ARead) (p : Int) : covers r p = inBin r.s r.e p := rfl

/-- double counting: summing the pileup depth over the positions of the bin = summing over the reads the
    number of bin positions inside their span -/
theorem sum_pileup_eq_sum_span (reads : List ARead) (s e : Int) (hr : ∀ r ∈ reads, r.s ≤ r.e) :
    ((binPositions s e).map (fun p => (pileupAt reads p : Int))).sum = (reads.map (fun r => spanIn r s e)).sum := by
  induction reads with
  | nil =>
    simp only [pileupAt, List.countP_nil, List.map_nil, List.sum_nil]
    exact sum_map_zero _ _ (fun _ _ => rfl)
  | cons r t ih =>
    have iht := ih (fun x hx => hr x (List.mem_cons_of_mem _ hx))
    have hsplit : ∀ p, (pileupAt (r :: t) p : Int) = (if covers r p then (1 : Int) else 0) + (pileupAt t p : Int) := by
      intro p
      unfold pileupAt
      rw [List.countP_cons]
      by_cases hc : covers r p = true <;> simp [hc] <;> omega
    rw [List.map_congr_left (fun p _ => hsplit p), sum_map_add, iht, List.map_cons, List.sum_cons, sum_indicator]
    congr 1
    have : (binPositions s e).countP (fun p => covers r p) = (run s (e - s).toNat).countP (inBin r.s r.e) := rfl
    rw [this, countP_run]
    have hre := hr r (List.mem_cons_self ..)
    unfold spanIn ovl
    omega

/-! ## read filters -/

theorem bool4 (a b c d m : Bool) : (!(a || b || c || d || m)) = (!(c || b || d || a) && !m) := by
  cases a <;> cases b <;> cases c <;> cases d <;> cases m <;> rfl

theorem counted_unfold (q : Nat) (r : ARead) :
    counted q r = !(flagSet r.flag 1024 || flagSet r.flag 256 || flagSet r.flag 4 || flagSet r.flag 512
      || decide (r.mapq < q)) := by
  simp [counted, countedBy, Generated.COUNT_FILTER_ATTRS, Generated.COUNT_MAPQ_OP, attrSet, attrBit, cmpOp,
    List.any_cons, List.any_nil, Bool.or_assoc]

/-- cnvkit's `filter_read` and htslib's bedcov filter agree on every record -/
theorem counted_eq_bedcovCounted (q : Nat) (r : ARead) : counted q r = bedcovCounted q r := by
  rw [counted_unfold]; unfold bedcovCounted
  exact bool4 _ _ _ _ _

/-- … and both are the filter the property words -/
theorem counted_eq_propCounted (q : Nat) (r : ARead) : counted q r = propCounted q r := by
  rw [counted_unfold]; unfold propCounted
  have : decide (q ≤ r.mapq) = !decide (r.mapq < q) := by
    by_cases h : r.mapq < q <;> simp [h] <;> omega
  rw [this]
  cases flagSet r.flag 1024 <;> cases flagSet r.flag 256 <;> cases flagSet r.flag 4 <;>
    cases flagSet r.flag 512 <;> cases decide (r.mapq < q) <;> rfl

/-! ## `fetch` does not matter; the three sums coincide -/

/-- `region_depth_count` sees exactly the counted reads of the contig: the index query only drops records
    that contribute nothing -/
theorem countBases_eq_all (reads : List ARead) (hwf : ∀ r ∈ reads, r.WF) (q t : Nat) (s e : Int) :
    countBases reads q (some t) s e =
      ((reads.filter (fun r => r.tid == t && propCounted q r)).map (fun r => basesIn r s e)).sum := by
  unfold countBases fetch
  simp only [List.filter_filter]
  have h1 : ((reads.filter (fun r => counted q r && (r.tid == t && decide (r.s < e) && decide (s < r.e)))).map
      (fun r => basesIn r s e)).sum =
      (((reads.filter (fun r => r.tid == t && propCounted q r)).filter
        (fun r => decide (r.s < e) && decide (s < r.e))).map (fun r => basesIn r s e)).sum := by
    rw [List.filter_filter]
    congr 2
    apply List.filter_congr
    intro r _
    rw [counted_eq_propCounted]
    cases propCounted q r <;> cases (r.tid == t) <;> cases decide (r.s < e) <;> cases decide (s < r.e) <;> rfl
  rw [h1]
  apply sum_map_filter_of_zero
  intro r hr hp
  have hr' := (List.mem_filter.mp hr).1
  apply basesIn_eq_zero_of_miss r (hwf r hr')
  intro hc
  simp [hc.1, hc.2] at hp

theorem countBases_none (reads : List ARead) (q : Nat) (s e : Int) : countBases reads q none s e = 0 := rfl

/-- the count path computes the property's sum -/
theorem countBases_eq_aligned (contigs : List (String × Nat)) (reads : List ARead) (hwf : ∀ r ∈ reads, r.WF)
    (q : Nat) (chrom : String) (s e : Int) :
    countBases reads q (tidOf contigs chrom) s e = alignedBasesInBin contigs reads q chrom s e := by
  unfold alignedBasesInBin
  cases h : tidOf contigs chrom with
  | none => rfl
  | some t => exact countBases_eq_all reads hwf q t s e

/-- bedcov computes the span sum over the property's reads -/
theorem bedcovCount_eq_spanned (contigs : List (String × Nat)) (reads : List ARead) (q : Nat)
    (chrom : String) (s e : Int) :
    bedcovCount reads q (tidOf contigs chrom) s e = spannedBasesInBin contigs reads q chrom s e := by
  unfold spannedBasesInBin bedcovCount
  cases h : tidOf contigs chrom with
  | none => rfl
  | some t =>
    simp only
    congr 2
    apply List.filter_congr
    intro r _
    rw [← counted_eq_bedcovCounted, counted_eq_propCounted]

/-- with no deletion / reference skip anywhere, spans and aligned blocks give the same sum -/
theorem spanned_eq_aligned (contigs : List (String × Nat)) (rs : List Read)
    (hng : ∀ r ∈ rs, noRefGap r.cigar = true) (q : Nat) (chrom : String) (s e : Int) :
    spannedBasesInBin contigs (rs.map align) q chrom s e = alignedBasesInBin contigs (rs.map align) q chrom s e := by
  unfold spannedBasesInBin alignedBasesInBin
  cases tidOf contigs chrom with
  | none => rfl
  | some t =>
    simp only
    apply sum_map_congr
    intro a ha
    obtain ⟨r, hr, rfl⟩ := List.mem_map.mp (List.mem_filter.mp ha).1
    exact (basesIn_eq_spanIn r (hng r hr) s e).symm

theorem wf_map_align (rs : List Read) : ∀ a ∈ rs.map align, a.WF := by
  intro a ha
  obtain ⟨r, _, rfl⟩ := List.mem_map.mp ha
  exact align_wf r

/-- bedcov's closed form is the pileup summed over the positions of the bin -/
theorem bedcovCount_eq_pileup_sum (reads : List ARead) (hr : ∀ r ∈ reads, r.s ≤ r.e) (q t : Nat) (s e : Int) :
    bedcovCount reads q (some t) s e =
      ((binPositions s e).map (fun p =>
        (pileupAt (reads.filter (fun r => r.tid == t && bedcovCounted q r)) p : Int))).sum := by
  unfold bedcovCount
  simp only
  rw [sum_pileup_eq_sum_span]
  intro r hr'
  exact hr r (List.mem_filter.mp hr').1

theorem align_span_le (r : Read) : (align r).s ≤ (align r).e := by
  unfold align; simp only; omega

/-! ## rows -/

theorem mkRow_key (b : Row) (d : Rat) : (mkRow b d).key = b := rfl

theorem mkRow_depth (b : Row) (d : Rat) : (mkRow b d).depth = d := rfl

theorem mkRow_log2_zero (b : Row) : (mkRow b 0).log2 = some Generated.NULL_LOG2_COVERAGE := rfl

theorem mkRow_log2_nonzero (b : Row) (d : Rat) (h : d ≠ 0) : (mkRow b d).log2 = none := by
  unfold mkRow
  simp [h]

theorem depthOf_zero (s e : Int) : depthOf 0 s e = 0 := by
  unfold depthOf
  split
  · have h0 : ((0 : Int) : Rat) = 0 := rfl
    rw [h0, Rat.div_def, Rat.zero_mul]
  · rfl

theorem depthOf_empty (n s e : Int) (h : e ≤ s) : depthOf n s e = 0 := by
  unfold depthOf
  rw [if_neg (by omega)]

theorem depthOf_pos (n s e : Int) (h : s < e) : depthOf n s e = (n : Rat) / ((e - s : Int) : Rat) := by
  unfold depthOf
  rw [if_pos (by omega)]

/-! ## ordered gather -/

theorem find_of_mem_nodup {β} (done : List (Nat × β)) (i : Nat) (y : β)
    (hnd : (done.map (·.1)).Nodup) (hm : (i, y) ∈ done) :
    done.find? (fun p => p.1 == i) = some (i, y) := by
  induction done with
  | nil => simp at hm
  | cons d rest ih =>
    rw [List.map_cons, List.nodup_cons] at hnd
    rw [List.find?_cons]
    by_cases hd : d.1 = i
    · have : (d.1 == i) = true := by simp [hd]
      rw [this]
      rcases List.mem_cons.mp hm with h | h
      · rw [h]
      · exfalso
        apply hnd.1
        rw [hd]
        exact List.mem_map.mpr ⟨(i, y), h, rfl⟩
    · have : (d.1 == i) = false := by simp [hd]
      rw [this]
      rcases List.mem_cons.mp hm with h | h
      · exfalso; apply hd; rw [← h]
      · exact ih hnd.2 h

theorem gather_range' {β} (done : List (Nat × β)) (hnd : (done.map (·.1)).Nodup) (ys : List β) (k : Nat)
    (hm : ∀ j (hj : j < ys.length), (k + j, ys[j]) ∈ done) :
    (List.range' k ys.length).filterMap (fun i => (done.find? (fun p => p.1 == i)).map (·.2)) = ys := by
  induction ys generalizing k with
  | nil => rfl
  | cons y t ih =>
    rw [List.length_cons, List.range'_succ, List.filterMap_cons]
    have h0 := hm 0 (by simp)
    simp only [Nat.add_zero, List.getElem_cons_zero] at h0
    rw [find_of_mem_nodup done k y hnd h0]
    simp only [Option.map_some]
    congr 1
    apply ih (k + 1)
    intro j hj
    have := hm (j + 1) (by simp; omega)
    simp only [List.getElem_cons_succ] at this
    have e : k + 1 + j = k + (j + 1) := by omega
    rw [e]; exact this

/-- `Executor.map` contract: whatever order the workers finish in, results come back in submission order -/
theorem orderedGather_of_perm {β} (ys : List β) (done : List (Nat × β))
    (h : done.Perm ((List.range ys.length).zip ys)) : orderedGather ys.length done = ys := by
  unfold orderedGather
  rw [List.range_eq_range']
  apply gather_range'
  · have hp : (done.map (·.1)).Perm (((List.range ys.length).zip ys).map (·.1)) := h.map _
    rw [hp.nodup_iff, List.map_fst_zip (by simp)]
    exact List.nodup_range
  · intro j hj
    rw [h.mem_iff, Nat.zero_add]
    rw [List.mem_iff_getElem]
    refine ⟨j, by simp [hj], ?_⟩
    simp

theorem completion_perm {β} (order : List Nat) (xs : List (Nat × β)) : (completion order xs).Perm xs :=
  List.mergeSort_perm _ _

/-- `pool.map(f, xs)` = `map(f, xs)` for every completion order -/
theorem poolMap_eq_map {α β} (f : α → β) (xs : List α) (order : List Nat) : poolMap f xs order = xs.map f := by
  unfold poolMap
  have hl : xs.length = (xs.map f).length := by simp
  rw [hl]
  exact orderedGather_of_perm (xs.map f) _ (completion_perm _ _)

/-! ## chunking -/

theorem succ_mod_of (k size : Nat) (hs : 0 < size) :
    ((k + 1) % size = 0 ∧ k % size + 1 = size) ∨ ((k + 1) % size = k % size + 1 ∧ k % size + 1 < size) := by
  have hlt := Nat.mod_lt k hs
  have h1 : (k + 1) % size = (k % size + 1) % size := by
    rw [Nat.add_mod, Nat.add_mod (k % size) 1, Nat.mod_mod]
  by_cases h : k % size + 1 = size
  · left; refine ⟨?_, h⟩; rw [h1, h, Nat.mod_self]
  · right
    have hl : k % size + 1 < size := by omega
    exact ⟨by rw [h1, Nat.mod_eq_of_lt hl], hl⟩

/-- the invariant of the generator: the open chunk holds `k % size` records -/
theorem toChunksGo_spec {α} (isC : α → Bool) (size : Nat) (hs : 0 < size) (k : Nat) (cur xs : List α)
    (hk : cur.length = k % size) :
    (toChunksGo isC size k cur xs).flatten = cur.reverse ++ xs.filter (fun x => !isC x) ∧
    ∃ full last, toChunksGo isC size k cur xs = full ++ last ∧ (∀ c ∈ full, c.length = size) ∧
      (last = [] ∨ ∃ c, last = [c] ∧ 0 < c.length ∧ c.length < size) := by
  induction xs generalizing k cur with
  | nil =>
    unfold toChunksGo
    by_cases h : k % size = 0
    · have hc : cur = [] := List.eq_nil_of_length_eq_zero (by omega)
      simp only [h, bne_self_eq_false, Bool.false_eq_true, if_false]
      subst hc
      exact ⟨rfl, [], [], rfl, by simp, Or.inl rfl⟩
    · have hb : (k % size != 0) = true := by simp [h]
      rw [if_pos hb]
      refine ⟨by simp, [], [cur.reverse], rfl, by simp, Or.inr ⟨cur.reverse, rfl, ?_, ?_⟩⟩
      · rw [List.length_reverse]; omega
      · rw [List.length_reverse, hk]; exact Nat.mod_lt k hs
  | cons x xs ih =>
    unfold toChunksGo
    by_cases hc : isC x = true
    · rw [if_pos hc]
      obtain ⟨h1, h2⟩ := ih k cur hk
      refine ⟨?_, h2⟩
      rw [h1, List.filter_cons]
      simp [hc]
    · rw [if_neg hc]
      have hc' : isC x = false := by simpa using hc
      rcases succ_mod_of k size hs with ⟨hz, hfull⟩ | ⟨hnz, hlt⟩
      · have hb : ((k + 1) % size == 0) = true := by simp [hz]
        rw [if_pos hb]
        obtain ⟨h1, full, last, h2, h3, h4⟩ := ih (k + 1) [] (by simp [hz])
        refine ⟨?_, (x :: cur).reverse :: full, last, ?_, ?_, h4⟩
        · rw [List.flatten_cons, h1, List.filter_cons]
          simp [hc']
        · rw [h2]; rfl
        · intro c hcm
          rcases List.mem_cons.mp hcm with h | h
          · rw [h, List.length_reverse, List.length_cons, hk]; exact hfull
          · exact h3 c h
      · have hb : ¬ ((k + 1) % size == 0) = true := by simp; omega
        rw [if_neg hb]
        obtain ⟨h1, h2⟩ := ih (k + 1) (x :: cur) (by rw [List.length_cons, hk, hnz])
        refine ⟨?_, h2⟩
        rw [h1, List.filter_cons]
        simp [hc']

theorem toChunks_flatten {α} (isC : α → Bool) (size : Nat) (hs : 0 < size) (lines : List α) :
    (toChunks isC size lines).flatten = lines.filter (fun x => !isC x) := by
  have := (toChunksGo_spec isC size hs 0 [] lines (by simp)).1
  simpa [toChunks] using this

theorem toChunks_shape {α} (isC : α → Bool) (size : Nat) (hs : 0 < size) (lines : List α) :
    ∃ full last, toChunks isC size lines = full ++ last ∧ (∀ c ∈ full, c.length = size) ∧
      (last = [] ∨ ∃ c, last = [c] ∧ 0 < c.length ∧ c.length < size) :=
  (toChunksGo_spec isC size hs 0 [] lines (by simp)).2

theorem records_filter_noncomment (lines : List BedLine) :
    records (lines.filter (fun x => !x.isComment)) = records lines := by
  unfold records
  induction lines with
  | nil => rfl
  | cons x t ih =>
    cases x with
    | comment =>
      have h1 : (!BedLine.comment.isComment) = false := rfl
      rw [List.filter_cons, h1, List.filterMap_cons]
      simp only [Bool.false_eq_true, if_false, BedLine.rec?]
      exact ih
    | record r =>
      have h1 : (!(BedLine.record r).isComment) = true := rfl
      rw [List.filter_cons, h1, if_pos rfl, List.filterMap_cons, List.filterMap_cons]
      simp only [BedLine.rec?, ih]

theorem records_flatten (chunks : List (List BedLine)) :
    records chunks.flatten = (chunks.map records).flatten := by
  unfold records
  induction chunks with
  | nil => rfl
  | cons c t ih => simp [List.filterMap_append, ih]

/-- running bedcov chunk by chunk and concatenating = running it on the whole file -/
theorem bedcov_chunks (contigs : List (String × Nat)) (reads : List ARead) (q : Nat) (lines : List BedLine)
    (size : Nat) (hs : 0 < size) :
    ((toChunks BedLine.isComment size lines).map (bedcov contigs reads q)).flatten = bedcov contigs reads q lines := by
  have h : ∀ chunks : List (List BedLine),
      (chunks.map (bedcov contigs reads q)).flatten = bedcov contigs reads q chunks.flatten := by
    intro chunks
    unfold bedcov
    rw [records_flatten]
    induction chunks with
    | nil => rfl
    | cons c t ih => simp [List.map_append, ih]
  rw [h, toChunks_flatten _ _ hs]
  unfold bedcov
  rw [records_filter_noncomment]

/-! ## grouping by chromosome -/

theorem flatMap_groups_perm (ks : List String) (t : Table) (h : ∀ r ∈ t, r.chrom ∈ ks) :
    ((ks.eraseDups).flatMap (fun c => t.filter (fun r => r.chrom == c))).Perm t := by
  match ks with
  | [] =>
    cases t with
    | nil => exact List.Perm.refl _
    | cons x t => exact absurd (h x (List.mem_cons_self ..)) (by simp)
  | k :: ks' =>
    rw [List.eraseDups_cons, List.flatMap_cons]
    have hlen : (ks'.filter (fun b => !b == k)).length < (k :: ks').length :=
      Nat.lt_succ_of_le (List.length_filter_le _ _)
    have ih := flatMap_groups_perm (ks'.filter (fun b => !b == k)) (t.filter (fun r => !(r.chrom == k)))
      (by
        intro r hr
        rw [List.mem_filter] at hr ⊢
        have h1 := h r hr.1
        have h2 := hr.2
        simp only [Bool.not_eq_true', beq_eq_false_iff_ne, ne_eq] at h2
        rcases List.mem_cons.mp h1 with h1 | h1
        · exact absurd h1 h2
        · exact ⟨h1, by simpa using h2⟩)
    have hcongr : ((ks'.filter (fun b => !b == k)).eraseDups).flatMap
          (fun c => t.filter (fun r => r.chrom == c)) =
        ((ks'.filter (fun b => !b == k)).eraseDups).flatMap
          (fun c => (t.filter (fun r => !(r.chrom == k))).filter (fun r => r.chrom == c)) := by
      rw [List.flatMap_def, List.flatMap_def]
      congr 1
      apply List.map_congr_left
      intro c hc
      rw [List.mem_eraseDups, List.mem_filter] at hc
      have hck : c ≠ k := by simpa using hc.2
      rw [List.filter_filter]
      apply List.filter_congr
      intro r _
      by_cases hrc : r.chrom = c
      · subst hrc; simp [hck]
      · simp [hrc]
    rw [hcongr]
    exact (List.Perm.append_left _ ih).trans (List.filter_append_perm _ t)
termination_by ks.length

/-- the per-chromosome groups, concatenated, are a rearrangement of the table -/
theorem groups_flatten_perm (t : Table) : (((groupByChrom t).map (·.2)).flatten).Perm t := by
  unfold groupByChrom chromsInOrder
  rw [List.map_map, ← List.flatMap_def]
  exact flatMap_groups_perm _ t (fun r hr => List.mem_map_of_mem hr)

/-! ## tables -/

/-- bins as the count path walks them: sorted by (chromosome key, start, end), then chromosome by
    chromosome in order of first appearance -/
def regroup (t : Table) : Table := ((groupByChrom (sortTable t)).map (·.2)).flatten

theorem regroup_perm (t : Table) : (regroup t).Perm t :=
  (groups_flatten_perm (sortTable t)).trans (List.mergeSort_perm _ _)

/-- the bins of the regions file -/
def binsOf (lines : List BedLine) : Table := (records lines).map BedRec.toRow

/-- the row the property demands for a bin -/
def specRow (contigs : List (String × Nat)) (reads : List ARead) (q : Nat) (b : Row) : OutRow :=
  mkRow b (truthDepth contigs reads q b)

theorem map_flatten_map {α β} (f : α → β) (ls : List (List α)) :
    (ls.map (fun l => l.map f)).flatten = ls.flatten.map f := by
  induction ls with
  | nil => rfl
  | cons l t ih => rw [List.map_cons, List.flatten_cons, List.flatten_cons, List.map_append, ih]

/-- count path, any number of processes, any completion order -/
theorem countTable_eq (contigs : List (String × Nat)) (reads : List ARead) (q : Nat) (lines : List BedLine)
    (procs : Nat) (order : List Nat) :
    countTable contigs reads q lines procs order =
      (regroup (binsOf lines)).map (fun b => regionDepthCount reads q (tidOf contigs b.chrom) b) := by
  unfold countTable regroup binsOf
  simp only
  split
  · rw [List.flatMap_def]
    exact map_flatten_map _ _
  · rw [poolMap_eq_map]
    exact map_flatten_map _ _

/-- pileup, any number of processes, any chunk size, any completion order -/
theorem pileupTable_eq (contigs : List (String × Nat)) (reads : List ARead) (q : Nat) (lines : List BedLine)
    (procs size : Nat) (order : List Nat) (hs : 0 < size) :
    pileupTable contigs reads q lines procs size order =
      (records lines).map (fun r => pileupPost (r, bedcovCount reads q (tidOf contigs r.chrom) r.s r.e)) := by
  unfold pileupTable
  simp only
  split
  · unfold bedcov; rw [List.map_map]; rfl
  · rw [poolMap_eq_map, bedcov_chunks _ _ _ _ _ hs]
    unfold bedcov; rw [List.map_map]; rfl

theorem regionDepthCount_spec (contigs : List (String × Nat)) (reads : List ARead) (hwf : ∀ r ∈ reads, r.WF)
    (q : Nat) (b : Row) :
    regionDepthCount reads q (tidOf contigs b.chrom) b = specRow contigs reads q b := by
  unfold regionDepthCount specRow truthDepth
  rw [countBases_eq_aligned contigs reads hwf]

/-- the count path reports, for every bin, the depth the property defines -/
theorem countTable_spec (contigs : List (String × Nat)) (rs : List Read) (q : Nat) (lines : List BedLine)
    (procs : Nat) (order : List Nat) :
    countTable contigs (rs.map align) q lines procs order =
      (regroup (binsOf lines)).map (specRow contigs (rs.map align) q) := by
  rw [countTable_eq]
  apply List.map_congr_left
  intro b _
  exact regionDepthCount_spec contigs _ (wf_map_align rs) q b

/-- pileup reports the same when no read carries a deletion / reference skip -/
theorem pileupTable_spec (contigs : List (String × Nat)) (rs : List Read)
    (hng : ∀ r ∈ rs, noRefGap r.cigar = true) (q : Nat) (lines : List BedLine)
    (procs size : Nat) (order : List Nat) (hs : 0 < size) :
    pileupTable contigs (rs.map align) q lines procs size order =
      (binsOf lines).map (specRow contigs (rs.map align) q) := by
  rw [pileupTable_eq _ _ _ _ _ _ _ hs]
  unfold binsOf
  rw [List.map_map]
  apply List.map_congr_left
  intro r _
  unfold pileupPost specRow truthDepth
  simp only [Function.comp]
  rw [bedcovCount_eq_spanned, spanned_eq_aligned contigs rs hng]
  rfl

/-- both algorithms, reads without deletions / reference skips: the same rows up to the order of the bins -/
theorem count_perm_pileup (contigs : List (String × Nat)) (rs : List Read)
    (hng : ∀ r ∈ rs, noRefGap r.cigar = true) (q : Nat) (lines : List BedLine)
    (p1 p2 size : Nat) (o1 o2 : List Nat) (hs : 0 < size) :
    (countTable contigs (rs.map align) q lines p1 o1).Perm
      (pileupTable contigs (rs.map align) q lines p2 size o2) := by
  rw [countTable_spec, pileupTable_spec contigs rs hng q lines p2 size o2 hs]
  exact (regroup_perm _).map _

theorem pileupTable_keys (contigs : List (String × Nat)) (reads : List ARead) (q : Nat) (lines : List BedLine)
    (procs size : Nat) (order : List Nat) (hs : 0 < size) :
    (pileupTable contigs reads q lines procs size order).map OutRow.key = binsOf lines := by
  rw [pileupTable_eq _ _ _ _ _ _ _ hs]
  unfold binsOf
  rw [List.map_map]
  apply List.map_congr_left
  intro r _
  rfl

theorem countTable_keys (contigs : List (String × Nat)) (reads : List ARead) (q : Nat) (lines : List BedLine)
    (procs : Nat) (order : List Nat) :
    ((countTable contigs reads q lines procs order).map OutRow.key).Perm (binsOf lines) := by
  rw [countTable_eq, List.map_map]
  have : (OutRow.key ∘ fun b => regionDepthCount reads q (tidOf contigs b.chrom) b) = id := by
    funext b; rfl
  rw [this, List.map_id]
  exact regroup_perm _

/-! ## the depth in the property's words -/

theorem filter_map_align (rs : List Read) (p : ARead → Bool) :
    (rs.map align).filter p = (rs.filter (fun r => p (align r))).map align := by
  induction rs with
  | nil => rfl
  | cons r t ih =>
    rw [List.map_cons, List.filter_cons, List.filter_cons, ih]
    by_cases h : p (align r) = true <;> simp [h]

/-- aligned bases of counted reads inside the bin, spelled out on the records of the BAM: for each read on
    the bin's contig that is not duplicate/secondary/unmapped/QC-fail and has MAPQ ≥ q, the number of its
    aligned reference positions `p` with `start ≤ p < end` -/
theorem alignedBases_def (contigs : List (String × Nat)) (rs : List Read) (q : Nat) (chrom : String) (t : Nat)
    (ht : tidOf contigs chrom = some t) (s e : Int) :
    alignedBasesInBin contigs (rs.map align) q chrom s e =
      ((rs.filter (fun r => r.tid == t && propCounted q (align r))).map
        (fun r => ((r.positions.countP (inBin s e) : Nat) : Int))).sum := by
  unfold alignedBasesInBin
  rw [ht]
  simp only
  rw [filter_map_align, List.map_map]
  apply sum_map_congr
  intro r _
  exact basesIn_eq_count_positions r s e

theorem specRow_depth (contigs : List (String × Nat)) (reads : List ARead) (q : Nat) (b : Row) (h : b.s < b.e) :
    (specRow contigs reads q b).depth =
      (alignedBasesInBin contigs reads q b.chrom b.s b.e : Rat) / ((b.e - b.s : Int) : Rat) := by
  unfold specRow truthDepth
  rw [mkRow_depth, depthOf_pos _ _ _ h]

theorem specRow_key (contigs : List (String × Nat)) (reads : List ARead) (q : Nat) (b : Row) :
    (specRow contigs reads q b).key = b := rfl

/-- a bin no counted read overlaps (or an empty bin): depth 0 and the sentinel -/
theorem specRow_empty (contigs : List (String × Nat)) (reads : List ARead) (q : Nat) (b : Row)
    (h : alignedBasesInBin contigs reads q b.chrom b.s b.e = 0 ∨ b.e ≤ b.s) :
    (specRow contigs reads q b).depth = 0 ∧
      (specRow contigs reads q b).log2 = some Generated.NULL_LOG2_COVERAGE := by
  have hd : truthDepth contigs reads q b = 0 := by
    unfold truthDepth
    rcases h with h | h
    · rw [h]; exact depthOf_zero _ _
    · exact depthOf_empty _ _ _ h
  unfold specRow
  rw [hd]
  exact ⟨rfl, rfl⟩

theorem alignedBases_nonneg (contigs : List (String × Nat)) (reads : List ARead) (q : Nat) (chrom : String)
    (s e : Int) : 0 ≤ alignedBasesInBin contigs reads q chrom s e := by
  unfold alignedBasesInBin
  cases tidOf contigs chrom with
  | none => exact Int.le_refl 0
  | some t =>
    simp only
    generalize reads.filter _ = l
    induction l with
    | nil => exact Int.le_refl 0
    | cons r t ih =>
      rw [List.map_cons, List.sum_cons]
      have : 0 ≤ basesIn r s e := by
        unfold basesIn
        generalize r.blocks = bl
        induction bl with
        | nil => exact Int.le_refl 0
        | cons b bt ihb =>
          rw [List.map_cons, List.sum_cons]
          have := ovl_nonneg b.1 b.2 s e
          omega
      omega

/-- a bin some counted read overlaps: positive depth, `log2` is the logarithm (not the sentinel) -/
theorem specRow_nonempty (contigs : List (String × Nat)) (reads : List ARead) (q : Nat) (b : Row)
    (hb : b.s < b.e) (h : 0 < alignedBasesInBin contigs reads q b.chrom b.s b.e) :
    0 < (specRow contigs reads q b).depth ∧ (specRow contigs reads q b).log2 = none := by
  have hpos : 0 < truthDepth contigs reads q b := by
    unfold truthDepth
    rw [depthOf_pos _ _ _ hb, Rat.div_def]
    apply Rat.mul_pos
    · exact Rat.intCast_pos.mpr h
    · rw [Rat.inv_pos]; exact Rat.intCast_pos.mpr (by omega)
  unfold specRow
  refine ⟨by rw [mkRow_depth]; exact hpos, mkRow_log2_nonzero _ _ ?_⟩
  intro h0
  rw [h0] at hpos
  exact absurd hpos (by decide)

/-- "no counted read overlaps the bin" in terms of the records -/
theorem alignedBases_zero_of_no_overlap (contigs : List (String × Nat)) (rs : List Read) (q : Nat)
    (chrom : String) (s e : Int)
    (h : ∀ r ∈ rs, ∀ t, tidOf contigs chrom = some t → r.tid = t → propCounted q (align r) = true →
      ∀ p ∈ r.positions, ¬ (s ≤ p ∧ p < e)) :
    alignedBasesInBin contigs (rs.map align) q chrom s e = 0 := by
  cases ht : tidOf contigs chrom with
  | none => unfold alignedBasesInBin; rw [ht]
  | some t =>
    rw [alignedBases_def contigs rs q chrom t ht]
    apply sum_map_zero
    intro r hr
    rw [List.mem_filter] at hr
    obtain ⟨hr1, hr2⟩ := hr
    simp only [Bool.and_eq_true, beq_iff_eq] at hr2
    have := h r hr1 t ht hr2.1 hr2.2
    have hc : r.positions.countP (inBin s e) = 0 := by
      rw [List.countP_eq_zero]
      intro p hp
      have := this p hp
      unfold inBin
      simp only [Bool.and_eq_true, decide_eq_true_eq]
      exact this
    rw [hc]; rfl

/-! ## reads that are not counted do not matter -/

theorem filter_drop_mid {α} (l1 l2 : List α) (a : α) (p : α → Bool) (h : p a = false) :
    (l1 ++ a :: l2).filter p = (l1 ++ l2).filter p := by
  simp [List.filter_append, List.filter_cons, h]

theorem countBases_drop (l1 l2 : List ARead) (a : ARead) (q : Nat) (h : propCounted q a = false)
    (tid : Option Nat) (s e : Int) :
    countBases (l1 ++ a :: l2) q tid s e = countBases (l1 ++ l2) q tid s e := by
  unfold countBases fetch
  cases tid with
  | none => rfl
  | some t =>
    simp only [List.filter_filter]
    rw [filter_drop_mid]
    rw [counted_eq_propCounted, h]; rfl

theorem bedcovCount_drop (l1 l2 : List ARead) (a : ARead) (q : Nat) (h : propCounted q a = false)
    (tid : Option Nat) (s e : Int) :
    bedcovCount (l1 ++ a :: l2) q tid s e = bedcovCount (l1 ++ l2) q tid s e := by
  unfold bedcovCount
  cases tid with
  | none => rfl
  | some t =>
    simp only
    rw [filter_drop_mid]
    rw [← counted_eq_bedcovCounted, counted_eq_propCounted, h]; simp

/-- a read flagged duplicate / secondary / unmapped / QC-fail, or with MAPQ below the cut-off, can be
    deleted from the BAM without changing the table — either algorithm, any processes, chunks, order -/
theorem coverage_drop_uncounted (contigs : List (String × Nat)) (l1 l2 : List Read) (r : Read) (q : Nat)
    (h : propCounted q (align r) = false) (lines : List BedLine) (algo : Algo) (procs size : Nat)
    (order : List Nat) :
    coverage contigs (l1 ++ r :: l2) q lines algo procs size order =
      coverage contigs (l1 ++ l2) q lines algo procs size order := by
  unfold coverage
  cases validate contigs lines with
  | some e => rfl
  | none =>
    simp only [List.map_append, List.map_cons]
    cases algo with
    | count =>
      have hf : rdcChunk contigs (l1.map align ++ align r :: l2.map align) q =
          rdcChunk contigs (l1.map align ++ l2.map align) q := by
        funext sub
        unfold rdcChunk regionDepthCount
        apply List.map_congr_left
        intro b _
        rw [countBases_drop _ _ _ _ h]
      simp only [countTable, hf]
    | pileup =>
      have hf : bedcov contigs (l1.map align ++ align r :: l2.map align) q =
          bedcov contigs (l1.map align ++ l2.map align) q := by
        funext ls
        unfold bedcov
        apply List.map_congr_left
        intro b _
        rw [bedcovCount_drop _ _ _ _ h]
      simp only [pileupTable, hf]

/-- the property's exclusion list: each flag alone, or a low MAPQ, makes a read uncounted -/
theorem uncounted_of_flag (q : Nat) (r : ARead)
    (h : flagSet r.flag 1024 = true ∨ flagSet r.flag 256 = true ∨ flagSet r.flag 4 = true ∨
      flagSet r.flag 512 = true ∨ r.mapq < q) : propCounted q r = false := by
  unfold propCounted
  rcases h with h | h | h | h | h
  · simp [h]
  · simp [h]
  · simp [h]
  · simp [h]
  · have : decide (q ≤ r.mapq) = false := by simp; omega
    simp [this]

/-- every other read is counted (supplementary, reverse strand, paired … make no difference) -/
theorem counted_of_clean (q : Nat) (r : ARead)
    (h1 : flagSet r.flag 1024 = false) (h2 : flagSet r.flag 256 = false) (h3 : flagSet r.flag 4 = false)
    (h4 : flagSet r.flag 512 = false) (h5 : q ≤ r.mapq) : propCounted q r = true := by
  unfold propCounted
  simp [h1, h2, h3, h4, h5]

/-! ## the command: processes, chunks and completion order do not matter -/

theorem coverage_any_schedule (contigs : List (String × Nat)) (reads : List Read) (q : Nat)
    (lines : List BedLine) (algo : Algo) (p1 p2 s1 s2 : Nat) (o1 o2 : List Nat) (h1 : 0 < s1) (h2 : 0 < s2) :
    coverage contigs reads q lines algo p1 s1 o1 = coverage contigs reads q lines algo p2 s2 o2 := by
  unfold coverage
  cases validate contigs lines with
  | some e => rfl
  | none =>
    cases algo with
    | count => simp only [countTable_eq]
    | pileup => simp only [pileupTable_eq _ _ _ _ _ _ _ h1, pileupTable_eq _ _ _ _ _ _ _ h2]

end CnvVerif.Cov
