/-
  Soundness of the may-alias analysis of Model/Alias.lean: when `taint chk a T = some T'`, no run of `a` started
  in a state where only the names in `T` hold caller objects performs a checked use of a caller object, and
  afterwards only the names in `T'` hold caller objects.
-/
import CnvVerif.Model.Alias
namespace CnvVerif.Alias

theorem subset_iff {a b : Taint} : subset a b = true ↔ ∀ x, x ∈ a → x ∈ b := by
  simp [subset, List.all_eq_true]

/-- only the names in `T` hold an object of the caller (objects `< n`); objects not yet allocated are not the caller's -/
def Inv (n : Nat) (T : Taint) (s : St) : Prop := (∀ x, s.env x < n → x ∈ T) ∧ n ≤ s.next

theorem Inv.mono {n : Nat} {T I : Taint} {s : St} (h : Inv n T s) (hs : ∀ x, x ∈ T → x ∈ I) : Inv n I s :=
  ⟨fun x hx => hs x (h.1 x hx), h.2⟩

/-- the checked uses of caller objects recorded so far -/
def callerEvents (chk : Kind → Bool) (n : Nat) (s : St) : List (Kind × Nat) :=
  s.events.filter (fun e => chk e.1 && decide (e.2 < n))

theorem starFix_spec (f : Taint → Option Taint) (fuel : Nat) (T I : Taint) (h : starFix f fuel T = some I) :
    (∀ x, x ∈ T → x ∈ I) ∧ ∃ I', f I = some I' ∧ subset I' I = true := by
  induction fuel generalizing T with
  | zero =>
    unfold starFix at h
    split at h
    · rename_i I' hf
      split at h
      · rename_i hsub
        cases h
        exact ⟨fun _ hx => hx, I', hf, hsub⟩
      · cases h
    · cases h
  | succ fuel ih =>
    unfold starFix at h
    split at h
    · rename_i I' hf
      split at h
      · rename_i hsub
        cases h
        exact ⟨fun _ hx => hx, I', hf, hsub⟩
      · obtain ⟨h1, h2⟩ := ih (T ++ I') h
        exact ⟨fun x hx => h1 x (List.mem_append_left _ hx), h2⟩
    · cases h

theorem starFix_fix (f : Taint → Option Taint) (fuel : Nat) (I I' : Taint) (hf : f I = some I')
    (hsub : subset I' I = true) : starFix f fuel I = some I := by
  cases fuel <;> simp [starFix, hf, hsub]

theorem taint_sound (chk : Kind → Bool) (n : Nat) {a : ASt} {s s' : St} (hx : Exec a s s') :
    ∀ T T', taint chk a T = some T' → Inv n T s → Inv n T' s' ∧ callerEvents chk n s' = callerEvents chk n s := by
  induction hx with
  | nop s => intro T T' h hi; simp [taint] at h; subst h; exact ⟨hi, rfl⟩
  | bindFresh x ys s =>
    intro T T' h hi
    simp only [taint, Option.some.injEq] at h
    refine ⟨⟨?_, ?_⟩, rfl⟩
    · intro y hy
      simp only [St.set] at hy
      by_cases hyx : y = x
      · simp [hyx] at hy; have := hi.2; omega
      · simp [hyx] at hy
        have hT := hi.1 y hy
        subst h
        split
        · exact List.mem_cons_of_mem _ hT
        · simp [List.mem_filter, hT, hyx]
    · have := hi.2; show n ≤ s.next + 1; omega
  | bindAlias x ys y s hy =>
    intro T T' h hi
    simp only [taint, Option.some.injEq] at h
    refine ⟨⟨?_, ?_⟩, rfl⟩
    · intro z hz
      simp only [St.set] at hz
      by_cases hzx : z = x
      · simp [hzx] at hz
        have hyT := hi.1 y hz
        have hany : ys.any (fun y => T.contains y) = true := by
          simp only [List.any_eq_true]; exact ⟨y, hy, by simpa using hyT⟩
        subst h; rw [if_pos hany, hzx]; simp
      · simp [hzx] at hz
        have hT := hi.1 z hz
        subst h
        split
        · exact List.mem_cons_of_mem _ hT
        · simp [List.mem_filter, hT, hzx]
    · exact hi.2
  | use k ys y s hy =>
    intro T T' h hi
    simp only [taint] at h
    split at h
    · cases h
    · rename_i hc
      cases h
      refine ⟨⟨hi.1, hi.2⟩, ?_⟩
      simp only [callerEvents, List.filter_cons]
      have : (chk k && decide (s.env y < n)) = false := by
        cases hk : chk k
        · simp
        · by_cases hlt : s.env y < n
          · exfalso
            apply hc
            have hyT := hi.1 y hlt
            simp only [hk, Bool.true_and, List.any_eq_true]
            exact ⟨y, hy, by simpa using hyT⟩
          · simp [hlt]
      simp [this]
  | useOther k ys s =>
    intro T T' h hi
    simp only [taint] at h
    split at h
    · cases h
    · cases h; exact ⟨hi, rfl⟩
  | seq _ _ ih₁ ih₂ =>
    intro T T' h hi
    simp only [taint] at h
    split at h
    · cases h
    · rename_i T₁ h₁
      obtain ⟨hi₁, e₁⟩ := ih₁ T T₁ h₁ hi
      obtain ⟨hi₂, e₂⟩ := ih₂ T₁ T' h hi₁
      exact ⟨hi₂, e₂.trans e₁⟩
  | altL _ ih =>
    intro T T' h hi
    simp only [taint] at h
    split at h
    · rename_i T₁ T₂ h₁ h₂
      cases h
      obtain ⟨hi₁, e₁⟩ := ih T T₁ h₁ hi
      exact ⟨hi₁.mono (fun x hx => List.mem_append_left _ hx), e₁⟩
    · cases h
  | altR _ ih =>
    intro T T' h hi
    simp only [taint] at h
    split at h
    · rename_i T₁ T₂ h₁ h₂
      cases h
      obtain ⟨hi₂, e₂⟩ := ih T T₂ h₂ hi
      exact ⟨hi₂.mono (fun x hx => List.mem_append_right _ hx), e₂⟩
    · cases h
  | starNil =>
    intro T T' h hi
    simp only [taint] at h
    exact ⟨hi.mono (starFix_spec _ _ _ _ h).1, rfl⟩
  | @starCons a₀ _ _ _ _ _ ih₁ ih₂ =>
    intro T T' h hi
    simp only [taint] at h
    obtain ⟨hTI, I', hf, hsub⟩ := starFix_spec _ _ _ _ h
    obtain ⟨hi₁, e₁⟩ := ih₁ T' I' hf (hi.mono hTI)
    have hi₂ : Inv n T' _ := hi₁.mono (subset_iff.mp hsub)
    have hstar : taint chk (.star a₀) T' = some T' := by
      simp only [taint]; exact starFix_fix _ _ _ _ hf hsub
    obtain ⟨hi₃, e₃⟩ := ih₂ T' T' hstar hi₂
    exact ⟨hi₃, e₃.trans e₁⟩

end CnvVerif.Alias
