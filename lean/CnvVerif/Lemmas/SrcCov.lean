/-
  The depth / log2 / cut-off formulas of the coverage model (Model/Coverage.lean) equal the expressions the
  translator reads off the current source (Generated/ExprsCov.lean, regenerated from /repo on every run).
-/
import CnvVerif.Generated.ExprsCov
import CnvVerif.Model.Coverage
import Mathlib.Data.Rat.Floor
namespace CnvVerif.Src
open CnvVerif CnvVerif.Cov CnvVerif.Generated

theorem depthOf_eq_src_count (bases s e : Int) :
    depthOf bases s e = src_count_depth (bases : Rat) (s : Rat) (e : Rat) := by
  unfold depthOf src_count_depth
  by_cases h : e > s
  · have h' : (e : Rat) > (s : Rat) := by exact_mod_cast h
    rw [if_pos h, if_pos h']; push_cast; rfl
  · have h' : ¬ (e : Rat) > (s : Rat) := by
      intro hh; exact h (by exact_mod_cast hh)
    rw [if_neg h, if_neg h']

theorem depthOf_eq_src_pileup (bc s e : Int) :
    depthOf bc s e = src_pileup_depth (bc : Rat) (s : Rat) (e : Rat) := by
  unfold depthOf src_pileup_depth
  by_cases h : e > s
  · have h' : (e : Rat) - (s : Rat) > 0 := by
      have : (s : Rat) < (e : Rat) := by exact_mod_cast h
      linarith
    rw [if_pos h, if_pos h']; push_cast; rfl
  · have h' : ¬ ((e : Rat) - (s : Rat) > 0) := by
      intro hh
      have : (s : Rat) < (e : Rat) := by linarith
      exact h (by exact_mod_cast this)
    rw [if_neg h, if_neg h']

theorem null_is_minus_20 : Generated.NULL_LOG2_COVERAGE = -20 := by decide +kernel

/-- the log2 column of the count path: the sentinel where the depth is 0 (Python truthiness), the logarithm `L`
    elsewhere -/
theorem mkRow_log2_eq_src_count (b : Row) (d L : Rat) :
    (mkRow b d).log2.getD L = src_count_log2 d L := by
  unfold mkRow src_count_log2
  simp only
  by_cases h : d = 0
  · subst h
    simp [null_is_minus_20]
  · have hb : (d == 0) = false := by simpa using h
    rw [hb]
    simp [h]

theorem depthOf_nonneg (bc s e : Int) (h : 0 ≤ bc) : 0 ≤ depthOf bc s e := by
  unfold depthOf
  split
  · rename_i hse
    apply div_nonneg
    · exact_mod_cast h
    · have : (0 : Int) ≤ e - s := by omega
      exact_mod_cast this
  · exact le_refl 0

/-- the log2 column of the pileup path (`depth > 0` mask) for a base count that is not negative -/
theorem pileup_log2_eq_src (b : Row) (bc s e : Int) (hbc : 0 ≤ bc) (L : Rat) :
    (mkRow b (depthOf bc s e)).log2.getD L = src_pileup_log2 (bc : Rat) (s : Rat) (e : Rat) L := by
  have hd : src_pileup_log2 (bc : Rat) (s : Rat) (e : Rat) L =
      if src_pileup_depth (bc : Rat) (s : Rat) (e : Rat) > 0 then L else -20 := rfl
  rw [hd, ← depthOf_eq_src_pileup, mkRow_log2_eq_src_count]
  unfold src_count_log2
  have hn := depthOf_nonneg bc s e hbc
  by_cases h0 : depthOf bc s e = 0
  · rw [h0]; simp
  · have hp : depthOf bc s e > 0 := lt_of_le_of_ne hn (Ne.symm h0)
    rw [if_pos h0, if_pos hp]

/-- `-Q` is passed exactly when the cut-off is positive, so samtools always works with `min_mapq` itself -/
theorem bedcov_minq_eq (q : Nat) : src_bedcov_minq (q : Rat) = (q : Rat) := by
  by_cases h : q = 0
  · subst h; simp [src_bedcov_minq]
  · have h1 : (q : Rat) ≠ 0 := by exact_mod_cast h
    have h2 : (q : Rat) > 0 := by
      have : 0 < q := Nat.pos_of_ne_zero h
      exact_mod_cast this
    have hc : (q : Rat) ≠ 0 ∧ (q : Rat) > 0 := ⟨h1, h2⟩
    unfold src_bedcov_minq
    split
    · rfl
    · rename_i hn
      exact absurd (by first | exact hc | exact hc.2 | exact hc.1) hn

end CnvVerif.Src
