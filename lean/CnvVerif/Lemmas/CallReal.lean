/-
  The real-number layer of C01 / C02: the facts about `2^v` and `log2` that the rational model
  takes as hypotheses on its ratio input `t`.  (ℝ statements; Mathlib analysis imports.)
-/
import Mathlib.Analysis.SpecialFunctions.Pow.Real
import Mathlib.Analysis.SpecialFunctions.Log.Base
namespace CnvVerif

/-- the ratio `t = 2^v` is monotone in the log2 value -/
theorem two_rpow_mono (v₁ v₂ : ℝ) (h : v₁ ≤ v₂) : (2 : ℝ) ^ v₁ ≤ (2 : ℝ) ^ v₂ :=
  Real.rpow_le_rpow_of_exponent_le (by norm_num) h

/-- above the last default threshold (0.7; any v ≥ 0.69 suffices) the ratio exceeds 3/2 -/
theorem two_rpow_gt_three_halves (v : ℝ) (hv : (69 / 100 : ℝ) ≤ v) : (3 / 2 : ℝ) < (2 : ℝ) ^ v := by
  have h1 : (2 : ℝ) ^ (69 / 100 : ℝ) ≤ (2 : ℝ) ^ v :=
    Real.rpow_le_rpow_of_exponent_le (by norm_num) hv
  refine lt_of_lt_of_le ?_ h1
  have hpos : (0 : ℝ) ≤ (2 : ℝ) ^ (69 / 100 : ℝ) := Real.rpow_nonneg (by norm_num) _
  have hpow : ((2 : ℝ) ^ (69 / 100 : ℝ)) ^ (100 : ℕ) = (2 : ℝ) ^ (69 : ℕ) := by
    rw [← Real.rpow_natCast, ← Real.rpow_mul (by norm_num), ← Real.rpow_natCast]
    norm_num
  by_contra hlt
  have hle : (2 : ℝ) ^ (69 / 100 : ℝ) ≤ 3 / 2 := not_lt.mp hlt
  have h2 : ((2 : ℝ) ^ (69 / 100 : ℝ)) ^ (100 : ℕ) ≤ (3 / 2 : ℝ) ^ (100 : ℕ) :=
    pow_le_pow_left₀ hpos hle 100
  rw [hpow] at h2
  norm_num at h2

/-- the docstring's algebra over ℝ: if `v = log2((p·n + (1-p)·x)/r)` then `(r·2^v − x(1−p))/p = n` -/
theorem clonal_inverts_real (n r x : ℕ) (p v : ℝ) (hp : 0 < p) (hr : 0 < r)
    (hm : 0 < p * n + (1 - p) * x)
    (hv : v = Real.logb 2 ((p * n + (1 - p) * x) / r)) :
    ((r : ℝ) * (2 : ℝ) ^ v - (x : ℝ) * (1 - p)) / p = (n : ℝ) := by
  have hr' : (0 : ℝ) < r := by exact_mod_cast hr
  have hpos : 0 < (p * n + (1 - p) * x) / (r : ℝ) := div_pos hm hr'
  rw [hv, Real.rpow_logb (by norm_num) (by norm_num) hpos]
  field_simp
  ring

/-- pure sample: `v = log2(n/r)` gives `r·2^v = n` -/
theorem pure_inverts_real (n r : ℕ) (v : ℝ) (hn : 0 < n) (hr : 0 < r)
    (hv : v = Real.logb 2 ((n : ℝ) / r)) : (r : ℝ) * (2 : ℝ) ^ v = (n : ℝ) := by
  have hr' : (0 : ℝ) < r := by exact_mod_cast hr
  have hn' : (0 : ℝ) < n := by exact_mod_cast hn
  rw [hv, Real.rpow_logb (by norm_num) (by norm_num) (div_pos hn' hr')]
  field_simp

end CnvVerif
