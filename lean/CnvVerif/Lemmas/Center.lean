/-
  Lemmas behind Props/C15.lean: center_all is a uniform shift that zeroes any translation-
  equivariant estimator of the selected bins; shift_xx / expect_flat_log2 decision tables; the
  noise-free case of the sex inference.
-/
import CnvVerif.Model.Center
namespace CnvVerif

/-- an estimator that moves with the data when a constant is added (median, mean, biweight
    location, KDE mode … all are) -/
def TransEquiv (est : List Rat → Rat) : Prop :=
  ∀ (l : List Rat) (c : Rat), l ≠ [] → est (l.map (· + c)) = est l + c

theorem meanR_transEquiv : TransEquiv meanR := by
  sorry

theorem medianR_transEquiv : TransEquiv medianR := by
  sorry

/-- center_all changes nothing but log2, and adds the same constant to every bin -/
theorem centerAll_uniform_shift (est : List Rat → Rat) (byChrom skipLow : Bool) (par : Option String)
    (t : List CBin) :
    centerAll est byChrom skipLow par t =
      t.map (fun b => { b with log2 := b.log2 + centerShift est byChrom skipLow par t }) := by
  sorry

/-- hence differences between bins are untouched -/
theorem centerAll_differences (est : List Rat → Rat) (byChrom skipLow : Bool) (par : Option String)
    (t : List CBin) (i j : Nat) (hi : i < t.length) (hj : j < t.length)
    (hi' : i < (centerAll est byChrom skipLow par t).length)
    (hj' : j < (centerAll est byChrom skipLow par t).length) :
    ((centerAll est byChrom skipLow par t)[i]).log2 - ((centerAll est byChrom skipLow par t)[j]).log2
      = (t[i]).log2 - (t[j]).log2 := by
  sorry

/-- the values fed to the estimator move with the data (per chromosome first, then across) -/
theorem centerValues_shift (est : List Rat → Rat) (he : TransEquiv est) (byChrom : Bool)
    (sel : List CBin) (c : Rat) :
    centerValues est byChrom (sel.map (fun b => { b with log2 := b.log2 + c }))
      = (centerValues est byChrom sel).map (· + c) := by
  sorry

/-- MAIN: after adding the shift `−est(values)` the chosen estimator of the selected bins is zero,
    for every translation-equivariant estimator, per chromosome first or not -/
theorem center_zeroes_estimator (est : List Rat → Rat) (he : TransEquiv est) (byChrom : Bool)
    (sel : List CBin) (hsel : sel ≠ []) :
    est (centerValues est byChrom
          (sel.map (fun b => { b with log2 := b.log2 + (-(est (centerValues est byChrom sel))) }))) = 0 := by
  sorry

/-- shift_xx adds −1 (female sample, male reference), +1 (male sample, female reference) or 0
    to the chrX bins and leaves every other bin alone -/
theorem shiftXX_spec (hapX isXX : Bool) (t : List CBin) :
    shiftXX hapX isXX t = t.map (fun b =>
      if b.chrom == xLabel ((t.head?.map (·.chrom)).getD "")
      then { b with log2 := b.log2 + (if isXX && hapX then -1 else if !isXX && !hapX then 1 else 0) }
      else b) := by
  sorry

/-- the level chrX sits at for a sample of the given sex against the given reference, relative to
    the autosomes -/
def expectedX (hapX isXX : Bool) : Rat := (if isXX then 0 else -1) + (if hapX then 1 else 0)

/-- … so a chrX at its expected level is brought to the autosomal level 0 -/
theorem shiftXX_levels (hapX isXX : Bool) :
    expectedX hapX isXX + (if isXX && hapX then -1 else if !isXX && !hapX then 1 else 0) = 0 := by
  sorry

/-- expect_flat_log2: 0 on autosomes (and on PAR when a diploid-PAR genome is named), −1 on Y, and
    −1 on X only for a male reference -/
theorem expectFlat_spec (hapX : Bool) (par : Option String) (t : List CBin) :
    expectFlat hapX par t = t.map (fun b =>
      let first := (t.head?.map (·.chrom)).getD ""
      let cls := classOf first par b.chrom b.s b.e
      if hapX then (if cls = .x ∨ cls = .y then (-1 : Rat) else 0)
      else (if b.chrom = yLabel first then (-1 : Rat) else 0)) := by
  sorry

/-- noise-free sex inference (the regime where Mood's test is degenerate and the code falls back to
    median differences): autosomes at level `a`, chrX at its expected level, chrY — when present —
    at `a` for a male sample and anywhere for a female one: the inferred sex is the true one, for
    both reference sexes -/
theorem sex_ideal (hapX female : Bool) (a : Rat) (y : Option Rat)
    (hy : female = false → y = none ∨ y = some 0) :
    isMale (idealCmp a (a + expectedX hapX female) (xShifts hapX).1)
           (idealCmp a (a + expectedX hapX female) (xShifts hapX).2)
           (y.map fun yl => (idealCmp a (a + yl) yShifts.1, idealCmp a (a + yl) yShifts.2))
      = !female := by
  sorry

/-- which chromosome names count as autosomes: optional `chr` prefix followed by digits only -/
theorem isAutosomeName_examples :
    isAutosomeName "chr12" = true ∧ isAutosomeName "7" = true ∧ isAutosomeName "chrX" = false ∧
    isAutosomeName "X" = false ∧ isAutosomeName "chr1_random" = false ∧ isAutosomeName "chr" = false ∧
    isAutosomeName "" = false ∧ isAutosomeName "chrM" = false := by
  sorry

/-- when no chromosome is named like an autosome, every bin is used -/
theorem autosomesOf_none (first : String) (par : Option String) (t : List CBin)
    (h : ∀ b ∈ t, isAutosomeName b.chrom = false) : autosomesOf first par t = t := by
  sorry

/-- otherwise exactly the autosomal bins, plus PAR-X bins when a diploid-PAR genome is named -/
theorem autosomesOf_some (first : String) (par : Option String) (t : List CBin)
    (h : ∃ b ∈ t, isAutosomeName b.chrom = true) (b : CBin) :
    b ∈ autosomesOf first par t ↔ b ∈ t ∧ (isAutosomeName b.chrom = true ∨
      ∃ g, par = some g ∧ b.chrom = xLabel first ∧ inPar g "PAR1X" "PAR2X" b.s b.e = true) := by
  sorry

end CnvVerif
