/-
  Lemmas behind Props/C15.lean: center_all is a uniform shift that zeroes any translation-
  equivariant estimator of the selected bins; shift_xx / expect_flat_log2 decision tables; the
  noise-free case of the sex inference.
-/
import CnvVerif.Model.Center
import Mathlib.Tactic.Linarith
import Mathlib.Tactic.Ring
import Mathlib.Tactic.FieldSimp
import Mathlib.Tactic.NormNum
namespace CnvVerif

/-- an estimator that moves with the data when a constant is added (median, mean, biweight
    location, KDE mode … all are) -/
def TransEquiv (est : List Rat → Rat) : Prop :=
  ∀ (l : List Rat) (c : Rat), l ≠ [] → est (l.map (· + c)) = est l + c

theorem foldl_add_acc (l : List Rat) (a b : Rat) :
    l.foldl (· + ·) (a + b) = l.foldl (· + ·) a + b := by
  induction l generalizing a with
  | nil => rfl
  | cons x xs ih =>
    simp only [List.foldl_cons]
    rw [show a + b + x = a + x + b by ring, ih]

theorem foldl_add_map_add (l : List Rat) (c a : Rat) :
    (l.map (· + c)).foldl (· + ·) a = l.foldl (· + ·) a + (l.length : Rat) * c := by
  induction l generalizing a with
  | nil => simp
  | cons x xs ih =>
    simp only [List.map_cons, List.foldl_cons, List.length_cons]
    rw [ih, show a + (x + c) = a + x + c by ring, foldl_add_acc]
    push_cast
    ring

theorem sumR_map_add (l : List Rat) (c : Rat) :
    sumR (l.map (· + c)) = sumR l + (l.length : Rat) * c := foldl_add_map_add l c 0

theorem meanR_transEquiv : TransEquiv meanR := by
  intro l c hl
  unfold meanR
  rw [sumR_map_add, List.length_map]
  have hne : (l.length : Rat) ≠ 0 := by
    have : l.length ≠ 0 := by simpa using hl
    exact_mod_cast this
  field_simp

theorem pairwise_le_mergeSort (l : List Rat) : (l.mergeSort (· ≤ ·)).Pairwise (· ≤ ·) := by
  have := List.pairwise_mergeSort (le := fun (a b : Rat) => decide (a ≤ b))
    (by intro a b c; simp only [decide_eq_true_eq]; exact le_trans)
    (by intro a b; simp only [Bool.or_eq_true, decide_eq_true_eq]; exact le_total a b) l
  simpa using this

/-- sorting commutes with adding a constant (a sorted permutation is unique) -/
theorem mergeSort_map_add (l : List Rat) (c : Rat) :
    (l.map (· + c)).mergeSort (· ≤ ·) = (l.mergeSort (· ≤ ·)).map (· + c) := by
  apply List.Perm.eq_of_pairwise (le := (· ≤ ·))
  · intro a b _ _ h1 h2; exact le_antisymm h1 h2
  · exact pairwise_le_mergeSort _
  · rw [List.pairwise_map]
    exact (pairwise_le_mergeSort l).imp (by intro a b h; linarith)
  · exact (List.mergeSort_perm _ _).trans ((List.mergeSort_perm l _).map _).symm

theorem getD_map_lt (l : List Rat) (f : Rat → Rat) (i : Nat) (h : i < l.length) :
    (l.map f).getD i 0 = f (l.getD i 0) := by
  simp [List.getD_eq_getElem?_getD, List.getElem?_map, List.getElem?_eq_getElem h]

theorem medianR_transEquiv : TransEquiv medianR := by
  intro l c hl
  unfold medianR
  simp only [mergeSort_map_add, List.length_map]
  have hlen : (l.mergeSort (· ≤ ·)).length = l.length := List.length_mergeSort l
  have hpos : 0 < l.length := List.length_pos_iff.mpr hl
  generalize l.mergeSort (· ≤ ·) = s at *
  rw [hlen]
  have h0 : l.length ≠ 0 := by omega
  rw [if_neg h0, if_neg h0]
  split
  · rw [getD_map_lt _ _ _ (by omega)]
  · rw [getD_map_lt _ _ _ (by omega), getD_map_lt _ _ _ (by omega)]
    ring

/-- center_all changes nothing but log2, and adds the same constant to every bin -/
theorem centerAll_uniform_shift (est : List Rat → Rat) (byChrom skipLow : Bool) (par : Option String)
    (t : List CBin) :
    centerAll est byChrom skipLow par t =
      t.map (fun b => { b with log2 := b.log2 + centerShift est byChrom skipLow par t }) := by
  rfl

/-- hence differences between bins are untouched -/
theorem centerAll_differences (est : List Rat → Rat) (byChrom skipLow : Bool) (par : Option String)
    (t : List CBin) (i j : Nat) (hi : i < t.length) (hj : j < t.length)
    (hi' : i < (centerAll est byChrom skipLow par t).length)
    (hj' : j < (centerAll est byChrom skipLow par t).length) :
    ((centerAll est byChrom skipLow par t)[i]).log2 - ((centerAll est byChrom skipLow par t)[j]).log2
      = (t[i]).log2 - (t[j]).log2 := by
  simp only [centerAll, List.getElem_map]
  show (t[i]).log2 + _ - ((t[j]).log2 + _) = _
  ring

/-- the values fed to the estimator move with the data (per chromosome first, then across) -/
theorem centerValues_shift (est : List Rat → Rat) (he : TransEquiv est) (byChrom : Bool)
    (sel : List CBin) (c : Rat) :
    centerValues est byChrom (sel.map (fun b => { b with log2 := b.log2 + c }))
      = (centerValues est byChrom sel).map (· + c) := by
  unfold centerValues
  cases byChrom with
  | false =>
    simp only [Bool.false_eq_true, if_false, List.map_map]
    rfl
  | true =>
    simp only [if_true]
    have hnames : (sel.map (fun b => { b with log2 := b.log2 + c })).map (·.chrom) = sel.map (·.chrom) := by
      rw [List.map_map]; rfl
    rw [hnames, List.map_map]
    apply List.map_congr_left
    intro ch hch
    rw [List.mem_eraseDups, List.mem_map] at hch
    obtain ⟨b0, hb0, hb0c⟩ := hch
    rw [List.filter_map, List.map_map]
    have hf : ((fun b : CBin => b.chrom == ch) ∘ fun b : CBin => { b with log2 := b.log2 + c })
        = fun b : CBin => b.chrom == ch := rfl
    have hg : ((fun b : CBin => b.log2) ∘ fun b : CBin => { b with log2 := b.log2 + c })
        = (· + c) ∘ fun b : CBin => b.log2 := rfl
    rw [hf, hg, ← List.map_map]
    show _ = est _ + c
    apply he
    intro hnil
    have hmem : b0 ∈ sel.filter (fun b => b.chrom == ch) := by
      rw [List.mem_filter]; exact ⟨hb0, by simp [hb0c]⟩
    have := List.map_eq_nil_iff.mp hnil
    rw [this] at hmem
    exact absurd hmem List.not_mem_nil

theorem centerValues_ne_nil (est : List Rat → Rat) (byChrom : Bool) (sel : List CBin)
    (hsel : sel ≠ []) : centerValues est byChrom sel ≠ [] := by
  obtain ⟨b, rest, rfl⟩ := List.exists_cons_of_ne_nil hsel
  unfold centerValues
  cases byChrom with
  | false => simp
  | true =>
    simp only [if_true, List.map_cons, List.eraseDups_cons]
    simp

/-- MAIN: after adding the shift `−est(values)` the chosen estimator of the selected bins is zero,
    for every translation-equivariant estimator, per chromosome first or not -/
theorem center_zeroes_estimator (est : List Rat → Rat) (he : TransEquiv est) (byChrom : Bool)
    (sel : List CBin) (hsel : sel ≠ []) :
    est (centerValues est byChrom
          (sel.map (fun b => { b with log2 := b.log2 + (-(est (centerValues est byChrom sel))) }))) = 0 := by
  rw [centerValues_shift est he, he _ _ (centerValues_ne_nil est byChrom sel hsel)]
  ring

/-- shift_xx adds −1 (female sample, male reference), +1 (male sample, female reference) or 0
    to the chrX bins and leaves every other bin alone -/
theorem shiftXX_spec (hapX isXX : Bool) (t : List CBin) :
    shiftXX hapX isXX t = t.map (fun b =>
      if b.chrom == xLabel ((t.head?.map (·.chrom)).getD "")
      then { b with log2 := b.log2 + (if isXX && hapX then -1 else if !isXX && !hapX then 1 else 0) }
      else b) := by
  rfl

/-- the level chrX sits at for a sample of the given sex against the given reference, relative to
    the autosomes -/
def expectedX (hapX isXX : Bool) : Rat := (if isXX then 0 else -1) + (if hapX then 1 else 0)

/-- … so a chrX at its expected level is brought to the autosomal level 0 -/
theorem shiftXX_levels (hapX isXX : Bool) :
    expectedX hapX isXX + (if isXX && hapX then -1 else if !isXX && !hapX then 1 else 0) = 0 := by
  cases hapX <;> cases isXX <;> simp [expectedX]

/-- expect_flat_log2: 0 on autosomes (and on PAR when a diploid-PAR genome is named), −1 on Y, and
    −1 on X only for a male reference -/
theorem expectFlat_spec (hapX : Bool) (par : Option String) (t : List CBin) :
    expectFlat hapX par t = t.map (fun b =>
      let first := (t.head?.map (·.chrom)).getD ""
      let cls := classOf first par b.chrom b.s b.e
      if hapX then (if cls = .x ∨ cls = .y then (-1 : Rat) else 0)
      else (if b.chrom = yLabel first then (-1 : Rat) else 0)) := by
  unfold expectFlat
  apply List.map_congr_left
  intro b _
  cases hapX <;> simp

/-- noise-free sex inference (the regime where Mood's test is degenerate and the code falls back to
    median differences): autosomes at level `a`, chrX at its expected level, chrY — when present —
    at `a` for a male sample and anywhere for a female one: the inferred sex is the true one, for
    both reference sexes -/
theorem sex_ideal (hapX female : Bool) (a : Rat) (y : Option Rat)
    (hy : female = false → y = none ∨ y = some 0) :
    isMale (idealCmp a (a + expectedX hapX female) (xShifts hapX).1)
           (idealCmp a (a + expectedX hapX female) (xShifts hapX).2)
           (y.map fun yl => (idealCmp a (a + yl) yShifts.1, idealCmp a (a + yl) yShifts.2))
      = !female := by
  cases female with
  | true =>
    cases hapX <;> cases y <;>
      simp [isMale, idealCmp, compareChrom, xShifts, yShifts, expectedX, absR]
  | false =>
    rcases hy rfl with rfl | rfl <;> cases hapX <;>
      simp [isMale, idealCmp, compareChrom, xShifts, yShifts, expectedX, absR] <;>
      norm_num

/-- which chromosome names count as autosomes: optional `chr` prefix followed by digits only -/
theorem isAutosomeName_examples :
    isAutosomeName "chr12" = true ∧ isAutosomeName "7" = true ∧ isAutosomeName "chrX" = false ∧
    isAutosomeName "X" = false ∧ isAutosomeName "chr1_random" = false ∧ isAutosomeName "chr" = false ∧
    isAutosomeName "" = false ∧ isAutosomeName "chrM" = false := by
  have h1 : ("chr12".drop 3).isEmpty = false := by decide
  have h4 : ("chr".drop 3).isEmpty = true := by decide
  refine ⟨?_, ?_, ?_, ?_, ?_, ?_, ?_, ?_⟩
  · simp [isAutosomeName, h1]
  · simp [isAutosomeName]
  · simp [isAutosomeName]
  · simp [isAutosomeName]
  · simp [isAutosomeName]
  · simp [isAutosomeName, h4]
  · simp [isAutosomeName]
  · simp [isAutosomeName]

/-- when no chromosome is named like an autosome, every bin is used -/
theorem autosomesOf_none (first : String) (par : Option String) (t : List CBin)
    (h : ∀ b ∈ t, isAutosomeName b.chrom = false) : autosomesOf first par t = t := by
  unfold autosomesOf
  have : t.any (fun b => isAutosomeName b.chrom) = false := by
    rw [List.any_eq_false]
    intro b hb
    simp [h b hb]
  simp [this]

/-- otherwise exactly the autosomal bins, plus PAR-X bins when a diploid-PAR genome is named -/
theorem autosomesOf_some (first : String) (par : Option String) (t : List CBin)
    (h : ∃ b ∈ t, isAutosomeName b.chrom = true) (b : CBin) :
    b ∈ autosomesOf first par t ↔ b ∈ t ∧ (isAutosomeName b.chrom = true ∨
      ∃ g, par = some g ∧ b.chrom = xLabel first ∧ inPar g "PAR1X" "PAR2X" b.s b.e = true) := by
  obtain ⟨b0, hb0, hb0'⟩ := h
  unfold autosomesOf
  have : t.any (fun b => isAutosomeName b.chrom) = true := by
    rw [List.any_eq_true]
    exact ⟨b0, hb0, hb0'⟩
  simp only [this, Bool.not_true, Bool.false_eq_true, if_false, List.mem_filter]
  cases par with
  | none => simp
  | some g => simp

end CnvVerif
