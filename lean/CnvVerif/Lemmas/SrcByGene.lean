/-
  C16, tie to the source TEXT (cnvlib/cnary.py): the hand-written model of `by_gene` and `drop_low_coverage`
  (Model/Genes.lean) equals the definitions the translator reads off the current source
  (Generated/ExprsByGene.lean; regenerated from /repo on every run).
-/
import CnvVerif.Generated.ExprsByGene
import CnvVerif.Model.Genes
set_option linter.unusedSimpArgs false
namespace CnvVerif.Genes
open CnvVerif CnvVerif.Generated

/-- the rows a yielded `(label, positions)` pair of the generated loop body stands for:
    `table.iloc[a:b]` is `slice rs a b`, `table.iloc[a:]` is `rs.drop a` -/
def posSlice (rs : List Bin) (y : String × Nat × Option Nat) : String × List Bin :=
  (y.1, match y.2.2 with
    | some b => slice rs y.2.1 b
    | none => rs.drop y.2.1)

/-- the loop of `by_gene` over the gene map of one chromosome, run with the GENERATED loop body and telomere step -/
def srcLoop (rs : List Bin) (ign : List String) (T : List (Nat × String)) :
    Nat → List (Nat × String) → List (String × List Bin)
  | prev, [] => (src_by_gene_tail rs.length prev).map (posSlice rs)
  | prev, (_, g) :: ks =>
    (src_by_gene_step ign g (geneIdx T g) prev).1.map (posSlice rs) ++
      srcLoop rs ign T (src_by_gene_step ign g (geneIdx T g) prev).2 ks

theorem goPos_nil_src (rs : List Bin) (ign : List String) (T : List (Nat × String)) (prev : Nat) :
    goPos rs ign T prev [] = (src_by_gene_tail rs.length prev).map (posSlice rs) := by
  unfold goPos src_by_gene_tail
  by_cases h : prev < rs.length
  · simp [h, posSlice, antitarget, ANTITARGET_NAME]
  · simp [h]

theorem goPos_cons_src (rs : List Bin) (ign : List String) (T : List (Nat × String)) (prev i : Nat) (g : String)
    (ks : List (Nat × String)) :
    goPos rs ign T prev ((i, g) :: ks) =
      (src_by_gene_step ign g (geneIdx T g) prev).1.map (posSlice rs) ++
        goPos rs ign T (src_by_gene_step ign g (geneIdx T g) prev).2 ks := by
  rw [goPos]
  unfold src_by_gene_step
  by_cases hg : g ∈ ign
  · have hc : ign.contains g = true := List.contains_iff_mem.mpr hg
    simp [hg]
  · have hc : ign.contains g = false := by
      cases h : ign.contains g with
      | false => rfl
      | true => exact absurd (List.contains_iff_mem.mp h) hg
    simp only [hc, Bool.false_eq_true, ↓reduceIte, hg, not_false_eq_true]
    rcases hidx : geneIdx T g with _ | ⟨a, tl⟩
    · simp
    · obtain ⟨la, hla⟩ : ∃ la, (a :: tl).getLast? = some la := by
        cases h : (a :: tl).getLast? with
        | none => simp at h
        | some la => exact ⟨la, rfl⟩
      have hD : (a :: tl).getLastD 0 = la := by
        rw [List.getLastD_eq_getLast?, hla]; rfl
      simp only [List.head?_cons, hla, List.length_cons, ne_eq, Nat.add_eq_zero_iff, Nat.succ_ne_self, and_false,
        not_false_eq_true, not_true_eq_false, ↓reduceIte, List.headD_cons, hD]
      by_cases hp : prev < a
      · simp [hp, posSlice, antitarget, ANTITARGET_NAME, Nat.add_comm 1]
      · simp [hp, posSlice, Nat.add_comm 1]

theorem goPos_eq_srcLoop (rs : List Bin) (ign : List String) (T : List (Nat × String)) :
    ∀ (ks : List (Nat × String)) (prev : Nat), goPos rs ign T prev ks = srcLoop rs ign T prev ks := by
  intro ks
  induction ks with
  | nil => intro prev; rw [goPos_nil_src]; rfl
  | cons k ks ih =>
    intro prev
    obtain ⟨i, g⟩ := k
    rw [goPos_cons_src, ih]; rfl

theorem byGeneChrom_eq_srcLoop (ignore : List String) (rs : List Bin) :
    byGeneChrom ignore rs =
      srcLoop rs (src_by_gene_ignore ignore) (taggedFrom 0 rs) src_by_gene_init (firstByName (taggedFrom 0 rs)) := by
  unfold byGeneChrom
  exact goPos_eq_srcLoop rs _ _ _ 0

theorem keptLow_src (b : Bin) : keptLow b = src_drop_low_coverage_keeps b.log2 b.depth := by
  have hm : minCvg = ((-(20 : Rat)) - (-(5 : Rat))) := by decide +kernel
  unfold keptLow src_drop_low_coverage_keeps
  rw [hm]
  by_cases h1 : b.log2 < ((-(20 : Rat)) - (-(5 : Rat))) <;> by_cases h2 : b.depth = 0 <;> simp [h1, h2]

end CnvVerif.Genes
