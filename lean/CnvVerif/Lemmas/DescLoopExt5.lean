/-
  C19 (round 5): the outer loop of `biweight_location` -- every value the variable `result` takes (the TRACE of the
  loop), not only the value returned.  Lemmas behind Props/C19Loop.lean.  Nothing here depends on generated code.
-/
import CnvVerif.Lemmas.DescBiweight
import CnvVerif.Model.DescLoopExt5
set_option linter.unusedSimpArgs false
set_option linter.unusedVariables false
namespace CnvVerif.C19Loop
open CnvVerif CnvVerif.Desc

theorem trace_getLast (step : Rat → Rat) (eps : Rat) (fuel : Nat) (init : Rat) :
    (trace step eps fuel init).getLast? = some (bilocLoop step eps fuel init) := by
  induction fuel generalizing init with
  | zero => simp [trace, bilocLoop]
  | succ n ih =>
    unfold trace bilocLoop
    simp only []
    split
    · simp
    · rw [List.getLast?_cons, ih]; simp

theorem trace_head (step : Rat → Rat) (eps : Rat) (fuel : Nat) (init : Rat) :
    (trace step eps fuel init).head? = some (step init) := by
  cases fuel with
  | zero => simp [trace]
  | succ n => unfold trace; simp only []; split <;> simp

theorem trace_length (step : Rat → Rat) (eps : Rat) (fuel : Nat) (init : Rat) :
    1 ≤ (trace step eps fuel init).length ∧ (trace step eps fuel init).length ≤ fuel + 1 := by
  induction fuel generalizing init with
  | zero => simp [trace]
  | succ n ih =>
    unfold trace
    simp only []
    split
    · simp
    · have := ih (step init); simp only [List.length_cons]; omega

theorem trace_in_range (step : Rat → Rat) (eps lo hi : Rat)
    (hstep : ∀ x, lo ≤ x ∧ x ≤ hi → lo ≤ step x ∧ step x ≤ hi) (fuel : Nat) (init : Rat) (hinit : lo ≤ init ∧ init ≤ hi) :
    ∀ r ∈ trace step eps fuel init, lo ≤ r ∧ r ≤ hi := by
  induction fuel generalizing init with
  | zero => intro r hr; simp [trace] at hr; subst hr; exact hstep init hinit
  | succ n ih =>
    intro r hr
    unfold trace at hr
    simp only [] at hr
    split at hr
    · simp at hr; subst hr; exact hstep init hinit
    · rcases List.mem_cons.mp hr with h | h
      · subst h; exact hstep init hinit
      · exact ih _ (hstep init hinit) r h

theorem trace_shift (step step' : Rat → Rat) (eps t : Rat) (h : ∀ x, step' (x + t) = step x + t) (fuel : Nat) (init : Rat) :
    trace step' eps fuel (init + t) = (trace step eps fuel init).map (· + t) := by
  induction fuel generalizing init with
  | zero => simp [trace, h init]
  | succ n ih =>
    unfold trace
    simp only []
    rw [h init]
    have : step init + t - (init + t) = step init - init := by ring
    rw [this]
    split
    · simp
    · rw [ih]; simp

theorem absR_mul_pos (k x : Rat) (hk : 0 ≤ k) : absR (k * x) = k * absR x := by
  rw [absR_eq_abs, absR_eq_abs, abs_mul, abs_of_nonneg hk]

theorem trace_scale (step step' : Rat → Rat) (eps k : Rat) (hk : 0 < k) (h : ∀ x, step' (k * x) = k * step x)
    (fuel : Nat) (init : Rat) :
    trace step' (k * eps) fuel (k * init) = (trace step eps fuel init).map (k * ·) := by
  induction fuel generalizing init with
  | zero => simp [trace, h init]
  | succ n ih =>
    unfold trace
    simp only []
    rw [h init]
    have : absR (k * step init - k * init) ≤ k * eps ↔ absR (step init - init) ≤ eps := by
      rw [← mul_sub, absR_mul_pos _ _ hk.le]
      exact mul_le_mul_iff_of_pos_left hk
    by_cases hc : absR (step init - init) ≤ eps
    · rw [if_pos hc, if_pos (this.mpr hc)]; simp
    · rw [if_neg hc, if_neg (fun h' => hc (this.mp h')), ih]; simp

theorem loop_of_trace_map (step step' : Rat → Rat) (eps eps' : Rat) (fuel : Nat) (init init' : Rat) (f : Rat → Rat)
    (h : trace step' eps' fuel init' = (trace step eps fuel init).map f) :
    bilocLoop step' eps' fuel init' = f (bilocLoop step eps fuel init) := by
  have h1 := trace_getLast step' eps' fuel init'
  rw [h, List.getLast?_map, trace_getLast] at h1
  simpa using h1.symm

/-- a fixed point of the step ends the loop at once -/
theorem trace_fixed_point (step : Rat → Rat) (eps : Rat) (heps : 0 ≤ eps) (fuel : Nat) (init : Rat) (h : step init = init) :
    trace step eps fuel init = [init] := by
  cases fuel with
  | zero => simp [trace, h]
  | succ n =>
    unfold trace
    simp only []
    rw [h, sub_self]
    have : absR 0 ≤ eps := by rw [absR_eq_abs, abs_zero]; exact heps
    rw [if_pos this]

/-- why the loop stopped: either the budget of `fuel + 1` steps is used up, or the last step moved by at most `eps` -/
theorem trace_exit (step : Rat → Rat) (eps : Rat) (fuel : Nat) (init : Rat) :
    (trace step eps fuel init).length = fuel + 1 ∨
      ∃ p, (p = init ∨ p ∈ trace step eps fuel init) ∧ step p = bilocLoop step eps fuel init ∧
        absR (bilocLoop step eps fuel init - p) ≤ eps := by
  induction fuel generalizing init with
  | zero => left; simp [trace]
  | succ n ih =>
    unfold trace bilocLoop
    simp only []
    by_cases hc : absR (step init - init) ≤ eps
    · right; rw [if_pos hc, if_pos hc]; exact ⟨init, Or.inl rfl, rfl, hc⟩
    · rw [if_neg hc, if_neg hc]
      rcases ih (step init) with h | ⟨p, hp, h1, h2⟩
      · left; simp [h]
      · right
        refine ⟨p, Or.inr ?_, h1, h2⟩
        rcases hp with hp | hp
        · subst hp; exact List.mem_cons_self
        · exact List.mem_cons_of_mem _ hp

/-- consecutive iterates: each value of `result` is the step applied to the previous one (the first to `init`) -/
theorem trace_chain (step : Rat → Rat) (eps : Rat) (fuel : Nat) (init : Rat) :
    List.IsChain (fun p r => r = step p) (init :: trace step eps fuel init) := by
  induction fuel generalizing init with
  | zero => simp [trace]
  | succ n ih =>
    unfold trace
    simp only []
    split
    · simp
    · exact List.IsChain.cons_cons rfl (ih _)

/-! ### the step under a positive rescaling of the data (the floor `eps` rescaled along) -/

theorem sum_map_mul_const (k : Rat) (l : List Rat) (f : Rat → Rat) :
    (l.map (fun x => k * f x)).sum = k * (l.map f).sum := by
  induction l with
  | nil => simp
  | cons a t ih => simp only [List.map_cons, List.sum_cons, ih]; ring

theorem sum_replicate_rat (n : Nat) (x : Rat) : (List.replicate n x).sum = (n : Rat) * x := by
  induction n with
  | zero => simp
  | succ m ih => rw [List.replicate_succ, List.sum_cons, ih]; push_cast; ring

theorem biw_scale (k s x : Rat) (hk : k ≠ 0) : biw (k * s) (k * x) = biw s x := by
  unfold biw; rw [mul_div_mul_left _ _ hk]

theorem bilocIter_scale (c eps : Rat) (a : List Rat) (init k : Rat) (hk : 0 < k) :
    bilocIter c (k * eps) (a.map (k * ·)) (k * init) = k * bilocIter c eps a init := by
  have hk0 : k ≠ 0 := ne_of_gt hk
  have hd : (a.map (k * ·)).map (· - k * init) = (a.map (· - init)).map (k * ·) := by
    rw [List.map_map, List.map_map]; apply List.map_congr_left; intro x _; simp only [Function.comp]; ring
  have habs : ((a.map (· - init)).map (k * ·)).map absR = ((a.map (· - init)).map absR).map (k * ·) := by
    simp only [List.map_map]; apply List.map_congr_left; intro x _
    simp only [Function.comp]; exact absR_mul_pos k _ hk.le
  rw [bilocIter_def, bilocIter_def, hd, habs, median_map_mul k hk.le]
  simp only []
  set m := median ((a.map (· - init)).map absR)
  have hs : max (c * (k * m)) (k * eps) = k * max (c * m) eps := by
    rw [show c * (k * m) = k * (c * m) by ring]; exact (mul_max_of_nonneg _ _ hk.le).symm
  rw [hs]
  set s := max (c * m) eps
  set d := a.map (· - init)
  have hf : (d.map (k * ·)).filter (fun x => decide (absR (x / (k * s)) < 1)) =
      (d.filter (fun x => decide (absR (x / s) < 1))).map (k * ·) := by
    rw [List.filter_map]; congr 1
    apply List.filter_congr; intro x _
    simp only [Function.comp, mul_div_mul_left _ _ hk0]
  rw [hf]
  set kept := d.filter (fun x => decide (absR (x / s) < 1))
  have hw : (kept.map (k * ·)).map (biw (k * s)) = kept.map (biw s) := by
    rw [List.map_map]; apply List.map_congr_left; intro x _; simp only [Function.comp]; exact biw_scale k s x hk0
  have hn : ((kept.map (k * ·)).map (fun x => x * biw (k * s) x)).sum = k * (kept.map (fun x => x * biw s x)).sum := by
    rw [List.map_map, ← sum_map_mul_const]; congr 1
    apply List.map_congr_left; intro x _; simp only [Function.comp]; rw [biw_scale k s x hk0]; ring
  rw [hw, hn]
  split
  · rfl
  · rw [mul_add, mul_div_assoc]

/-- on constant data `v` one step lands on `v` from ANY starting point, when the cut-off `c` exceeds 1 -/
theorem bilocIter_const_any_start (c eps : Rat) (hc : 1 < c) (heps : 0 < eps) (n : Nat) (v init : Rat) :
    bilocIter c eps (List.replicate (n + 1) v) init = v := by
  rw [bilocIter_def]
  simp only [List.map_replicate]
  rw [median_replicate _ (Nat.succ_pos n)]
  set s := max (c * absR (v - init)) eps with hs
  have hspos : 0 < s := lt_of_lt_of_le heps (le_max_right _ _)
  have hlt : absR ((v - init) / s) < 1 := by
    rw [absR_eq_abs, abs_div, abs_of_pos hspos, div_lt_one hspos, ← absR_eq_abs]
    rcases (absR_nonneg (v - init)).eq_or_lt with h0 | hpos
    · rw [← h0]; exact hspos
    · calc absR (v - init) < c * absR (v - init) := by nlinarith
        _ ≤ s := le_max_left _ _
  have hfil : (List.replicate (n + 1) (v - init)).filter (fun x => decide (absR (x / s) < 1)) =
      List.replicate (n + 1) (v - init) := by
    rw [List.filter_eq_self]; intro x hx; rw [List.eq_of_mem_replicate hx]; simpa using hlt
  rw [hfil]
  simp only [List.map_replicate, sum_replicate_rat]
  have hb : 0 < biw s (v - init) := by
    unfold biw
    have h1 : Desc.sq ((v - init) / s) < 1 := by
      unfold Desc.sq
      have := abs_lt.mp (by rw [← absR_eq_abs]; exact hlt : |(v - init) / s| < 1)
      nlinarith [this.1, this.2]
    unfold Desc.sq at h1 ⊢
    have : 0 < 1 - (v - init) / s * ((v - init) / s) := by linarith
    positivity
  have hn : ((n : Rat) + 1) * biw s (v - init) ≠ 0 := by positivity
  push_cast at hn ⊢
  rw [if_neg hn]
  field_simp
  ring

end CnvVerif.C19Loop
