/-
  The hand-written model formulas equal the expressions the translator reads off the current source
  (Generated/ExprsAbs.lean, regenerated from /repo on every run).  An edit to one of these formulas in the code
  changes the generated term; unless the edit keeps the term, the theorem below stops checking.
-/
import CnvVerif.Generated.ExprsAbs
import CnvVerif.Model.Call
import Mathlib.Tactic.Linarith
namespace CnvVerif.Src
open CnvVerif CnvVerif.Generated

/-- `_log2_ratio_to_absolute` with a purity: the model's `absoluteOf` is the source expression -/
theorem absoluteOf_is_source (r x : Nat) (p t : Rat) :
    absoluteOf r x (some p) t = src_log2_ratio_to_absolute (r : Rat) (x : Rat) p t := by
  by_cases h : p ≠ 0 ∧ p < 1
  · have e1 : purityActive (some p) = some p := by simp [purityActive, h]
    have e2 : src_log2_ratio_to_absolute (r : Rat) (x : Rat) p t =
        (if ((r : Rat) * t - (x : Rat) * (1 - p)) / p < 0 then 0 else ((r : Rat) * t - (x : Rat) * (1 - p)) / p) := by
      unfold src_log2_ratio_to_absolute
      rw [if_pos h]
    rw [e2]
    unfold absoluteOf
    rw [e1]
    simp only
    split
    · rename_i hneg; exact max_eq_left (le_of_lt hneg)
    · rename_i hneg; exact max_eq_right (not_lt.mp hneg)
  · have e1 : purityActive (some p) = none := by simp [purityActive, h]
    unfold absoluteOf src_log2_ratio_to_absolute
    rw [e1, if_neg h]

/-- … and without one (`purity=None` takes the pure branch) -/
theorem absolute_pure_is_source (r : Nat) (t : Rat) :
    absoluteOf r 0 none t = src_log2_ratio_to_absolute_pure (r : Rat) t := by
  simp [absoluteOf, purityActive, src_log2_ratio_to_absolute_pure]

end CnvVerif.Src
