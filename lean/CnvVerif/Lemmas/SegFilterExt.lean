/-
  Lemmas about the glue of round 4 (Model/SegFilterExt.lean): the `require_column` guards, the columns that survive a
  squash, and the order in which `do_call` applies a list of filters.
-/
import CnvVerif.Model.SegFilterExt
import CnvVerif.Lemmas.SegFilter
namespace CnvVerif

theorem preFilters_eq : preFilters = [Filt.ci, Filt.sem] := by decide +kernel

theorem needs_ci : Filt.ci.needs = ["ci_lo", "ci_hi"] := by decide +kernel
theorem needs_sem : Filt.sem.needs = ["sem"] := by decide +kernel
theorem needs_cn : Filt.cn.needs = ["cn"] := by decide +kernel
theorem needs_ampdel : Filt.ampdel.needs = ["cn"] := by decide +kernel

/-- a squash drops the segmetrics columns: none of `ci_lo`, `ci_hi`, `sem` survives -/
theorem colsAfterSquash_drops (cols : List String) (c : String)
    (hc : Generated.SQUASH_OUT_COLUMNS.contains c = false) : (colsAfterSquash cols).contains c = false := by
  unfold colsAfterSquash
  rw [List.contains_eq_mem]
  simp only [decide_eq_false_iff_not, List.mem_filter, not_and]
  intro _ h
  rw [hc] at h
  exact absurd h (by decide)

theorem run_ok_cols (f : Filt) (t t' : Tab) (h : f.run t = .ok t') : t'.cols = colsAfterSquash t.cols := by
  unfold Filt.run at h
  split at h
  · cases h; rfl
  · cases h

theorem run_ok_rows (f : Filt) (t t' : Tab) (h : f.run t = .ok t') :
    t'.rows = f.apply (t.cols.contains "cn1") t.rows := by
  unfold Filt.run at h
  split at h
  · cases h; rfl
  · cases h

/-- after any filter has run, `ci` and `sem` can no longer run: their columns are gone -/
theorem run_after_squash_raises (f g : Filt) (t t' : Tab) (h : f.run t = .ok t') (hg : g = .ci ∨ g = .sem) :
    g.run t' = .error g.name := by
  have hcols := run_ok_cols f t t' h
  unfold Filt.run
  rw [if_neg]
  rw [hcols]
  rcases hg with rfl | rfl
  · rw [needs_ci]
    simp only [List.all_cons, Bool.and_eq_true, not_and]
    intro h1
    rw [colsAfterSquash_drops _ "ci_lo" (by decide +kernel)] at h1
    exact absurd h1 (by decide)
  · rw [needs_sem]
    simp only [List.all_cons, Bool.and_eq_true, not_and]
    intro h1
    rw [colsAfterSquash_drops _ "sem" (by decide +kernel)] at h1
    exact absurd h1 (by decide)

/-- a filter list that holds both `ci` and `sem` makes `do_call` raise, whatever the table: each consumes the
    columns the other needs -/
theorem doCall_ci_and_sem_raise (call : Tab → Tab) (fs : List Filt) (t : Tab)
    (h1 : Filt.ci ∈ fs) (h2 : Filt.sem ∈ fs) : ∃ e, doCallFiltersE call fs t = .error e := by
  unfold doCallFiltersE
  rw [preFilters_eq]
  have c1 : fs.contains Filt.ci = true := by simpa using h1
  have c2 : (fs.erase Filt.ci).contains Filt.sem = true := by
    have : Filt.sem ∈ fs.erase Filt.ci := (List.mem_erase_of_ne (by decide)).mpr h2
    simpa using this
  simp only [preLoop, c1, if_true]
  cases hr : Filt.ci.run t with
  | error e => exact ⟨e, rfl⟩
  | ok t' =>
    simp only [c2, if_true]
    rw [run_after_squash_raises Filt.ci Filt.sem t t' hr (Or.inr rfl)]
    exact ⟨_, rfl⟩

/-- the filters `do_call` applies after calling: the list without `ci` and `sem`, order kept -/
def postFilters (fs : List Filt) : List Filt := fs.filter (fun f => f != Filt.ci && f != Filt.sem)

theorem filter_ne_of_not_mem (fs : List Filt) (a : Filt) (h : a ∉ fs) : fs.filter (fun f => f != a) = fs := by
  rw [List.filter_eq_self]
  intro b hb
  simp only [bne_iff_ne, ne_eq]
  intro hba
  exact h (hba ▸ hb)

/-- ORDER: for a list of distinct filters holding at most one of ci/sem, `do_call` = that one filter (if any) on the
    un-called table, then the calling step, then the other filters in the order given -/
theorem doCall_filter_order (call : Tab → Tab) (fs : List Filt) (t : Tab) (hnd : fs.Nodup)
    (hx : ¬ (Filt.ci ∈ fs ∧ Filt.sem ∈ fs)) :
    doCallFiltersE call fs t =
      match (if Filt.ci ∈ fs then Filt.ci.run t else if Filt.sem ∈ fs then Filt.sem.run t else .ok t) with
      | .error e => .error e
      | .ok t1 => runChain (postFilters fs) (call t1) := by
  unfold doCallFiltersE postFilters
  rw [preFilters_eq]
  have split2 : ∀ l : List Filt, l.filter (fun f => f != Filt.ci && f != Filt.sem) =
      (l.filter (fun f => f != Filt.ci)).filter (fun f => f != Filt.sem) := by
    intro l; rw [List.filter_filter]; congr 1; funext f; exact Bool.and_comm _ _
  by_cases h1 : Filt.ci ∈ fs
  · have h2 : Filt.sem ∉ fs := fun h2 => hx ⟨h1, h2⟩
    have c1 : fs.contains Filt.ci = true := by simpa using h1
    have c2 : (fs.erase Filt.ci).contains Filt.sem = false := by
      have : Filt.sem ∉ fs.erase Filt.ci := fun h => h2 (List.mem_of_mem_erase h)
      simpa using this
    simp only [preLoop, c1, if_true, if_pos h1]
    cases hr : Filt.ci.run t with
    | error e => rfl
    | ok t' =>
      simp only [c2, Bool.false_eq_true, if_false]
      rw [split2, ← hnd.erase_eq_filter, filter_ne_of_not_mem _ _ (fun h => h2 (List.mem_of_mem_erase h))]
  · have c1 : fs.contains Filt.ci = false := by simpa using h1
    simp only [preLoop, c1, Bool.false_eq_true, if_false, if_neg h1]
    by_cases h2 : Filt.sem ∈ fs
    · have c2 : fs.contains Filt.sem = true := by simpa using h2
      simp only [c2, if_true, if_pos h2]
      cases hr : Filt.sem.run t with
      | error e => rfl
      | ok t' =>
        simp only []
        rw [split2, filter_ne_of_not_mem _ _ h1, ← hnd.erase_eq_filter]
    · have c2 : fs.contains Filt.sem = false := by simpa using h2
      simp only [c2, Bool.false_eq_true, if_false, if_neg h2]
      rw [split2, filter_ne_of_not_mem _ _ h1, filter_ne_of_not_mem _ _ h2]

end CnvVerif
