/-
  Lemmas about the glue of round 4 (Model/SegFilterExt.lean): the `require_column` guards, the columns that survive a
  squash, and the order in which `do_call` applies a list of filters.
-/
import CnvVerif.Model.SegFilterExt
import CnvVerif.Lemmas.SegFilter
namespace CnvVerif

theorem preFilters_eq : preFilters = [Filt.ci, Filt.sem] := by decide +kernel

theorem needs_ci : Filt.ci.needs = ["ci_lo", "ci_hi"] := by decide +kernel
theorem needs_sem : Filt.sem.needs = ["sem"] := by decide +kernel
theorem needs_cn : Filt.cn.needs = ["cn"] := by decide +kernel
theorem needs_ampdel : Filt.ampdel.needs = ["cn"] := by decide +kernel

/-- a squash drops the segmetrics columns: none of `ci_lo`, `ci_hi`, `sem` survives -/
theorem colsAfterSquash_drops (cols : List String) (c : String)
    (hc : Generated.SQUASH_OUT_COLUMNS.contains c = false) : (colsAfterSquash cols).contains c = false := by
  unfold colsAfterSquash
  rw [List.contains_eq_mem]
  simp only [decide_eq_false_iff_not, List.mem_filter, not_and]
  intro _ h
  rw [hc] at h
  exact absurd h (by decide)

theorem run_ok_cols (f : Filt) (t t' : Tab) (h : f.run t = .ok t') : t'.cols = colsAfterSquash t.cols := by
  unfold Filt.run at h
  split at h
  · cases h; rfl
  · cases h

theorem run_ok_rows (f : Filt) (t t' : Tab) (h : f.run t = .ok t') :
    t'.rows = f.apply (t.cols.contains "cn1") t.rows := by
  unfold Filt.run at h
  split at h
  · cases h; rfl
  · cases h

/-- after any filter has run, `ci` and `sem` can no longer run: their columns are gone -/
theorem run_after_squash_raises (f g : Filt) (t t' : Tab) (h : f.run t = .ok t') (hg : g = .ci ∨ g = .sem) :
    g.run t' = .error g.name := by
  have hcols := run_ok_cols f t t' h
  unfold Filt.run
  rw [if_neg]
  rw [hcols]
  rcases hg with rfl | rfl
  · rw [needs_ci]
    simp only [List.all_cons, Bool.and_eq_true, not_and]
    intro h1
    rw [colsAfterSquash_drops _ "ci_lo" (by decide +kernel)] at h1
    exact absurd h1 (by decide)
  · rw [needs_sem]
    simp only [List.all_cons, Bool.and_eq_true, not_and]
    intro h1
    rw [colsAfterSquash_drops _ "sem" (by decide +kernel)] at h1
    exact absurd h1 (by decide)

/-- a filter list that holds both `ci` and `sem` makes `do_call` raise, whatever the table: each consumes the
    columns the other needs -/
theorem doCall_ci_and_sem_raise (call : Tab → Tab) (fs : List Filt) (t : Tab)
    (h1 : Filt.ci ∈ fs) (h2 : Filt.sem ∈ fs) : ∃ e, doCallFiltersE call fs t = .error e := by
  unfold doCallFiltersE
  rw [preFilters_eq]
  have c1 : fs.contains Filt.ci = true := by simpa using h1
  have c2 : (fs.erase Filt.ci).contains Filt.sem = true := by
    have : Filt.sem ∈ fs.erase Filt.ci := (List.mem_erase_of_ne (by decide)).mpr h2
    simpa using this
  simp only [preLoop, c1, if_true]
  cases hr : Filt.ci.run t with
  | error e => exact ⟨e, rfl⟩
  | ok t' =>
    simp only [c2, if_true]
    rw [run_after_squash_raises Filt.ci Filt.sem t t' hr (Or.inr rfl)]
    exact ⟨_, rfl⟩

/-- the filters `do_call` applies after calling: the list without `ci` and `sem`, order kept -/
def postFilters (fs : List Filt) : List Filt := fs.filter (fun f => f != Filt.ci && f != Filt.sem)

theorem filter_ne_of_not_mem (fs : List Filt) (a : Filt) (h : a ∉ fs) : fs.filter (fun f => f != a) = fs := by
  rw [List.filter_eq_self]
  intro b hb
  simp only [bne_iff_ne, ne_eq]
  intro hba
  exact h (hba ▸ hb)

/-- ORDER: for a list of distinct filters holding at most one of ci/sem, `do_call` = that one filter (if any) on the
    un-called table, then the calling step, then the other filters in the order given -/
theorem doCall_filter_order (call : Tab → Tab) (fs : List Filt) (t : Tab) (hnd : fs.Nodup)
    (hx : ¬ (Filt.ci ∈ fs ∧ Filt.sem ∈ fs)) :
    doCallFiltersE call fs t =
      match (if Filt.ci ∈ fs then Filt.ci.run t else if Filt.sem ∈ fs then Filt.sem.run t else .ok t) with
      | .error e => .error e
      | .ok t1 => runChain (postFilters fs) (call t1) := by
  unfold doCallFiltersE postFilters
  rw [preFilters_eq]
  have split2 : ∀ l : List Filt, l.filter (fun f => f != Filt.ci && f != Filt.sem) =
      (l.filter (fun f => f != Filt.ci)).filter (fun f => f != Filt.sem) := by
    intro l; rw [List.filter_filter]; congr 1; funext f; exact Bool.and_comm _ _
  by_cases h1 : Filt.ci ∈ fs
  · have h2 : Filt.sem ∉ fs := fun h2 => hx ⟨h1, h2⟩
    have c1 : fs.contains Filt.ci = true := by simpa using h1
    have c2 : (fs.erase Filt.ci).contains Filt.sem = false := by
      have : Filt.sem ∉ fs.erase Filt.ci := fun h => h2 (List.mem_of_mem_erase h)
      simpa using this
    simp only [preLoop, c1, if_true, if_pos h1]
    cases hr : Filt.ci.run t with
    | error e => rfl
    | ok t' =>
      simp only [c2, Bool.false_eq_true, if_false]
      rw [split2, ← hnd.erase_eq_filter, filter_ne_of_not_mem _ _ (fun h => h2 (List.mem_of_mem_erase h))]
  · have c1 : fs.contains Filt.ci = false := by simpa using h1
    simp only [preLoop, c1, Bool.false_eq_true, if_false, if_neg h1]
    by_cases h2 : Filt.sem ∈ fs
    · have c2 : fs.contains Filt.sem = true := by simpa using h2
      simp only [c2, if_true, if_pos h2]
      cases hr : Filt.sem.run t with
      | error e => rfl
      | ok t' =>
        simp only []
        rw [split2, filter_ne_of_not_mem _ _ h1, ← hnd.erase_eq_filter]
    · have c2 : fs.contains Filt.sem = false := by simpa using h2
      simp only [c2, Bool.false_eq_true, if_false, if_neg h2]
      rw [split2, filter_ne_of_not_mem _ _ h1, filter_ne_of_not_mem _ _ h2]

end CnvVerif

/-! ## conservation through a whole chain of filters — no hypothesis on the table

  `groupby` only REARRANGES the rows into groups (a permutation), and `squash_region` sums probes and weight over its
  group: so every squashing filter conserves the two totals on every table whatever its order, its levels (NaN
  included) or its allele-specific columns, and therefore so does every chain of them. -/
namespace CnvVerif

theorem sumInt_perm {a b : List Int} (p : a.Perm b) : sumInt a = sumInt b := by
  induction p with
  | nil => rfl
  | cons x _ ih => rw [sumInt_cons, sumInt_cons, ih]
  | swap x y l => simp only [sumInt_cons]; omega
  | trans _ _ ih1 ih2 => rw [ih1, ih2]

theorem sumRat_perm {a b : List Rat} (p : a.Perm b) : sumRat a = sumRat b := by
  induction p with
  | nil => rfl
  | cons x _ ih => rw [sumRat_cons, sumRat_cons, ih]
  | swap x y l => simp only [sumRat_cons]; rw [← Rat.add_assoc, ← Rat.add_assoc, Rat.add_comm y x]
  | trans _ _ ih1 ih2 => rw [ih1, ih2]

theorem tailGroups_eq {α κ} [BEq κ] [LawfulBEq κ] (key : α → κ) (a : κ) (l : List α) :
    tailGroups key a l = groupByKey key (l.filter (fun x => !(key x == a))) := by
  unfold tailGroups groupByKey
  have hk : (l.filter (fun x => !(key x == a))).map key = (l.map key).filter (fun b => !b == a) := by
    rw [List.filter_map]; rfl
  rw [hk]
  apply List.map_congr_left
  intro k hk'
  have hk'' := (List.mem_filter.mp (List.mem_eraseDups.mp hk')).2
  rw [List.filter_filter]
  apply List.filter_congr
  intro x _
  by_cases hxk : key x = k
  · subst hxk
    simp only [beq_self_eq_true, Bool.true_and]
    exact hk''.symm
  · have : (key x == k) = false := by simpa using hxk
    simp [this]

/-- pandas `groupby` rearranges the rows: the groups, laid end to end, are a permutation of the table -/
theorem groupByKey_flatten_perm {α κ} [BEq κ] [LawfulBEq κ] (key : α → κ) :
    ∀ (n : Nat) (l : List α), l.length ≤ n → (groupByKey key l).flatten.Perm l := by
  intro n
  induction n with
  | zero =>
    intro l hl
    have : l = [] := List.eq_nil_of_length_eq_zero (by omega)
    subst this
    exact List.Perm.refl _
  | succ n ih =>
    intro l hl
    cases l with
    | nil => exact List.Perm.refl _
    | cons y l =>
      rw [groupByKey_cons, tailGroups_eq, List.flatten_cons, List.cons_append]
      refine List.Perm.cons y ?_
      have hlen : (l.filter (fun x => !(key x == key y))).length ≤ n := by
        have := List.length_filter_le (fun x => !(key x == key y)) l
        simp only [List.length_cons] at hl
        omega
      have h2 := ih _ hlen
      exact ((List.Perm.refl _).append h2).trans (List.filter_append_perm (fun x => key x == key y) l)

theorem groupByKey_nonempty {α κ} [BEq κ] [LawfulBEq κ] (key : α → κ) (l : List α) :
    ∀ g ∈ groupByKey key l, g ≠ [] := by
  intro g hg
  unfold groupByKey at hg
  obtain ⟨k, hk, rfl⟩ := List.mem_map.mp hg
  obtain ⟨x, hx, rfl⟩ := List.mem_map.mp (List.mem_eraseDups.mp hk)
  intro h
  have : x ∈ l.filter (fun z => key z == key x) := List.mem_filter.mpr ⟨hx, by simp⟩
  rw [h] at this
  exact absurd this (by simp)

theorem enumChangesGo_length (acc : Int) (p : Option Rat) (l : List (Option Rat)) :
    (enumChangesGo acc p l).length = l.length := by
  induction l generalizing acc p with
  | nil => rfl
  | cons x xs ih => simp [enumChangesGo, ih]

theorem enumChanges_length (l : List (Option Rat)) : (enumChanges l).length = l.length := by
  cases l with
  | nil => rfl
  | cons x xs => simp [enumChanges, enumChangesGo_length]

/-- the tagging keeps the rows, in order -/
theorem taggedRows_snd (h : Bool) (t : List Seg) (f : Seg → Option Rat) :
    (taggedRows h t (t.map f)).map (·.2) = t := by
  unfold taggedRows
  simp only []
  apply List.map_snd_zip
  cases h <;> simp [enumChanges_length]

/-- the rows of all groups together are a permutation of the table -/
theorem groups_rows_perm (h : Bool) (t : List Seg) (f : Seg → Option Rat) :
    (((groupByKey (·.1) (taggedRows h t (t.map f))).map (fun g => g.map (·.2))).flatten).Perm t := by
  have h1 := groupByKey_flatten_perm (fun p : (Int × Int × Int) × Seg => p.1) _ (taggedRows h t (t.map f)) (Nat.le_refl _)
  have h2 := h1.map (·.2)
  rw [taggedRows_snd, List.map_flatten] at h2
  exact h2

theorem groups_rows_nonempty (h : Bool) (t : List Seg) (f : Seg → Option Rat) :
    ∀ g ∈ (groupByKey (·.1) (taggedRows h t (t.map f))).map (fun g => g.map (·.2)), g ≠ [] := by
  intro g hg
  obtain ⟨g0, hg0, rfl⟩ := List.mem_map.mp hg
  have := groupByKey_nonempty _ _ g0 hg0
  intro h'
  exact this (List.map_eq_nil_iff.mp h')

/-- `squash_by_groups` conserves total probes and total weight on EVERY table -/
theorem squashByGroups_conserves (h : Bool) (t : List Seg) (f : Seg → Option Rat) :
    sumInt ((squashByGroups h t (t.map f)).map (·.probes)) = sumInt (t.map (·.probes)) ∧
    sumRat ((squashByGroups h t (t.map f)).map (·.weight)) = sumRat (t.map (·.weight)) := by
  have hfm : ∀ L : List (List ((Int × Int × Int) × Seg)),
      L.filterMap (fun g => squashRegion (g.map (·.2))) =
        (L.map (fun g => g.map (·.2))).filterMap squashRegion := by
    intro L; rw [List.filterMap_map]; rfl
  rw [squashByGroups_def, hfm]
  have hp := groups_rows_perm h t f
  have hn := groups_rows_nonempty h t f
  constructor
  · rw [filterMap_squash_probes _ hn]
    exact sumInt_perm (hp.map (·.probes))
  · rw [filterMap_squash_weight _ hn]
    exact sumRat_perm (hp.map (·.weight))

/-- each of cn / ci / sem conserves the totals -/
theorem apply_conserves (h : Bool) (f : Filt) (hf : f ≠ Filt.ampdel) (t : List Seg) :
    sumInt ((f.apply h t).map (·.probes)) = sumInt (t.map (·.probes)) ∧
    sumRat ((f.apply h t).map (·.weight)) = sumRat (t.map (·.weight)) := by
  cases f with
  | cn => exact squashByGroups_conserves h t levelCn
  | ci => exact squashByGroups_conserves h t levelCi
  | sem => exact squashByGroups_conserves h t levelSem
  | ampdel => exact absurd rfl hf

/-- COMPOSITION: a whole chain of filters without `ampdel`, when it runs, hands on every probe and all the weight -/
theorem runChain_conserves (fs : List Filt) (hfs : Filt.ampdel ∉ fs) (t t' : Tab) (hr : runChain fs t = .ok t') :
    sumInt (t'.rows.map (·.probes)) = sumInt (t.rows.map (·.probes)) ∧
    sumRat (t'.rows.map (·.weight)) = sumRat (t.rows.map (·.weight)) := by
  induction fs generalizing t with
  | nil => simp only [runChain] at hr; cases hr; exact ⟨rfl, rfl⟩
  | cons f fs ih =>
    simp only [runChain] at hr
    cases hf : f.run t with
    | error e => rw [hf] at hr; cases hr
    | ok t1 =>
      rw [hf] at hr
      have h1 := ih (fun h => hfs (List.mem_cons_of_mem _ h)) t1 hr
      have h2 := apply_conserves (t.cols.contains "cn1") f (fun h => hfs (h ▸ List.mem_cons_self)) t.rows
      rw [← run_ok_rows f t t1 hf] at h2
      exact ⟨h1.1.trans h2.1, h1.2.trans h2.2⟩

/-- the levels `ampdel` assigns are exactly −1, 0, 1 -/
theorem levelAmpdel_cases (r : Seg) :
    levelAmpdel r = some 1 ∨ levelAmpdel r = some (-1) ∨ levelAmpdel r = some 0 := by
  unfold levelAmpdel
  simp only []
  split
  · exact Or.inl rfl
  · split
    · exact Or.inr (Or.inl rfl)
    · exact Or.inr (Or.inr rfl)

/-- every run `ampdel` keeps is all-amplified or all-deleted -/
theorem ampdel_kept_runs_uniform (h : Bool) (t : List Seg) :
    ∀ g ∈ (splitRuns (fullLevel h levelAmpdel) t).filter ampdelKeep,
      (∀ r ∈ g, levelAmpdel r = some 1) ∨ (∀ r ∈ g, levelAmpdel r = some (-1)) := by
  intro g hg
  obtain ⟨hg1, hg2⟩ := List.mem_filter.mp hg
  have hu := splitRuns_uniform (fullLevel h levelAmpdel) t g hg1
  cases g with
  | nil => simp [ampdelKeep] at hg2
  | cons x xs =>
    have hx : levelAmpdel x ≠ some 0 := by
      simpa [ampdelKeep] using hg2
    have hlv : ∀ r ∈ x :: xs, levelAmpdel r = levelAmpdel x := by
      intro r hr
      have := (hu r hr x (by simp)).2
      unfold fullLevel at this
      cases h <;> simp at this <;> first | exact this | exact this.1
    rcases levelAmpdel_cases x with h1 | h1 | h1
    · left; intro r hr; rw [hlv r hr, h1]
    · right; intro r hr; rw [hlv r hr, h1]
    · exact absurd h1 hx

end CnvVerif
