/-
  The hand-written formulas of Model/Stats.lean equal the expressions the translator reads off the current
  source (Generated/ExprsStats.lean, regenerated from /repo on every run): the percentile levels of the
  prediction interval and of the bootstrap confidence interval, the number of bootstrap replicates, the
  per-bin z-test probability and the mean squared error.  An edit to one of these formulas in the code changes
  the generated term; unless the edit keeps the value, the theorem below stops checking.
-/
import CnvVerif.Generated.ExprsStats
import CnvVerif.Model.Stats
import Mathlib.Tactic.Ring
import Mathlib.Tactic.Linarith
import Mathlib.Tactic.SplitIfs
import Mathlib.Tactic.FieldSimp
import Mathlib.Data.Rat.Floor
set_option linter.unusedTactic false
set_option linter.unreachableTactic false
set_option linter.unusedSimpArgs false
namespace CnvVerif.Src
open CnvVerif CnvVerif.Stats CnvVerif.Generated

theorem ci_lo_level (alpha : Rat) : 100 * (alpha / 2) = src_ci_pct_lo alpha := by
  unfold src_ci_pct_lo; first | rfl | ring

theorem ci_hi_level (alpha : Rat) : 100 * (1 - alpha / 2) = src_ci_pct_hi alpha := by
  unfold src_ci_pct_hi; first | rfl | ring

theorem ciBoot_is_source (vals wts : List Rat) (alpha : Rat) (boot : List BootRow) :
    ciBoot vals wts alpha boot =
      if vals.length < 2 then (vals.getD 0 0, vals.getD 0 0)
      else (percentile (boot.map (replicateMean vals wts)) (src_ci_pct_lo alpha),
            percentile (boot.map (replicateMean vals wts)) (src_ci_pct_hi alpha)) := by
  rw [← ci_lo_level, ← ci_hi_level]; rfl

/-- Python's `int(e)` rendering applied to a value that is already an integer -/
theorem intTrunc_intCast' (z : Int) :
    (if (z : Rat) < 0 then ((((z : Rat)).ceil : Int) : Rat) else ((((z : Rat)).floor : Int) : Rat)) = (z : Rat) := by
  rw [Rat.ceil_intCast, Rat.floor_intCast]; split <;> rfl

theorem ceil_nonneg_of_pos (q : Rat) (h : 0 < q) : 0 ≤ q.ceil := by
  have h1 : q ≤ (q.ceil : Rat) := Rat.le_ceil
  have h2 : (0 : Rat) < (q.ceil : Rat) := lt_of_lt_of_le h h1
  have h3 : (0 : Int) < q.ceil := by exact_mod_cast h2
  omega

/-- `if bootstraps <= 2 / alpha: bootstraps = int(np.ceil(2 / alpha))`, read in exact arithmetic -/
theorem bootCount_is_source (b : Nat) (alpha : Rat) (h0 : 0 < alpha) :
    ((bootCount b (2 / alpha) : Nat) : Rat) = src_ci_bootstraps alpha (b : Rat) := by
  have hq : (0 : Rat) < 2 / alpha := div_pos (by norm_num) h0
  have hc : 0 ≤ (2 / alpha : Rat).ceil := ceil_nonneg_of_pos _ hq
  have hcast : (((2 / alpha : Rat).ceil.toNat : Nat) : Rat) = (((2 / alpha : Rat).ceil : Int) : Rat) := by
    have : (((2 / alpha : Rat).ceil.toNat : Nat) : Int) = (2 / alpha : Rat).ceil := Int.toNat_of_nonneg hc
    calc (((2 / alpha : Rat).ceil.toNat : Nat) : Rat)
        = ((((2 / alpha : Rat).ceil.toNat : Nat) : Int) : Rat) := (Int.cast_natCast _).symm
      _ = _ := by rw [this]
  unfold bootCount src_ci_bootstraps
  simp only [intTrunc_intCast']
  split_ifs <;> first | rfl | exact hcast | (exfalso; linarith)

end CnvVerif.Src
