/-
  Lemmas behind Props/C09Indel.lean: what each algorithm reports when reads carry deletions, reference skips,
  insertions, clips and padding.  `--count` counts aligned positions; the pileup (samtools bedcov without `-j`)
  counts every reference position inside a read's span; the difference is exactly the deleted / skipped reference
  positions of counted reads inside the bin.  Operations that consume no reference (I, S, H, P) change nothing.
  Core Lean only.
-/
import CnvVerif.Lemmas.Coverage
set_option linter.unusedSimpArgs false
set_option linter.unusedVariables false
namespace CnvVerif.Cov
open CnvVerif

/-- reference positions of a CIGAR that are deleted (D) or skipped (N): consumed on the reference, no read base -/
def gapPositionsFrom (p : Int) : List (Nat × Nat) → List Int
  | [] => []
  | (op, l) :: t =>
    if isAlignOp op then gapPositionsFrom (p + (l : Int)) t
    else if isGapOp op then run p l ++ gapPositionsFrom (p + (l : Int)) t
    else gapPositionsFrom p t

/-- deleted / skipped reference positions of a record -/
def Read.gapPositions (r : Read) : List Int := gapPositionsFrom r.pos r.cigar

/-- … how many of them fall inside `[s, e)` -/
def gapIn (r : Read) (s e : Int) : Int := ((r.gapPositions.countP (inBin s e) : Nat) : Int)

theorem gapIn_nonneg (r : Read) (s e : Int) : 0 ≤ gapIn r s e := Int.natCast_nonneg _

theorem isAlign_not_gap (op : Nat) (h : isAlignOp op = true) : isGapOp op = false := by
  unfold isAlignOp at h; unfold isGapOp
  simp only [Bool.or_eq_true, beq_iff_eq] at h
  rcases h with (h | h) | h <;> subst h <;> rfl

/-- the reference span of a CIGAR splits into aligned positions and deleted / skipped positions -/
theorem span_eq_blocks_add_gaps (p : Int) (cigar : List (Nat × Nat)) (s e : Int) :
    ovl p (p + (refLen cigar : Int)) s e =
      ((blocksFrom p cigar).map (fun b => ovl b.1 b.2 s e)).sum +
        ((gapPositionsFrom p cigar).countP (inBin s e) : Int) := by
  induction cigar generalizing p with
  | nil => simp [blocksFrom, refLen, gapPositionsFrom, ovl]; omega
  | cons c t ih =>
    obtain ⟨op, l⟩ := c
    unfold blocksFrom refLen gapPositionsFrom
    by_cases ha : isAlignOp op = true
    · have := ih (p + (l : Int))
      have hsplit := ovl_split p (p + (l : Int)) (p + (l : Int) + (refLen t : Int)) s e (by omega) (by omega)
      simp only [ha, if_true, Bool.true_or, List.map_cons, List.sum_cons, Int.natCast_add]
      rw [← Int.add_assoc, ← hsplit, this]
      omega
    · have ha' : isAlignOp op = false := by simpa using ha
      by_cases hg : isGapOp op = true
      · have := ih (p + (l : Int))
        have hsplit := ovl_split p (p + (l : Int)) (p + (l : Int) + (refLen t : Int)) s e (by omega) (by omega)
        rw [if_neg ha, if_neg ha, if_pos hg, if_pos hg]
        simp only [ha', hg, Bool.or_true, if_true, Bool.false_or, List.countP_append, Int.natCast_add]
        rw [← Int.add_assoc, ← hsplit, this, countP_run]
        omega
      · have hg' : isGapOp op = false := by simpa using hg
        rw [if_neg ha, if_neg ha, if_neg hg, if_neg hg]
        simp only [ha', hg', Bool.or_self]
        simpa using ih p

/-- one read: positions of the bin inside the read's span = aligned positions inside the bin + deleted/skipped ones -/
theorem spanIn_eq_basesIn_add_gapIn (r : Read) (s e : Int) :
    spanIn (align r) s e = basesIn (align r) s e + gapIn r s e :=
  span_eq_blocks_add_gaps r.pos r.cigar s e

/-- a CIGAR without D / N has no gap positions -/
theorem gapPositions_nil_of_noRefGap (p : Int) (cigar : List (Nat × Nat)) (h : noRefGap cigar = true) :
    gapPositionsFrom p cigar = [] := by
  induction cigar generalizing p with
  | nil => rfl
  | cons c t ih =>
    obtain ⟨op, l⟩ := c
    unfold noRefGap at h
    rw [List.all_cons] at h
    simp only [Bool.and_eq_true, Bool.not_eq_true'] at h
    obtain ⟨hg, ht⟩ := h
    unfold gapPositionsFrom
    by_cases ha : isAlignOp op = true
    · rw [if_pos ha]; exact ih _ ht
    · rw [if_neg ha, if_neg (by simp [hg])]; exact ih _ ht

/-- operations that consume no reference base (I, S, H, P, …) can be struck from a CIGAR: same alignment -/
def refOps (cigar : List (Nat × Nat)) : List (Nat × Nat) := cigar.filter (fun c => isAlignOp c.1 || isGapOp c.1)

theorem blocksFrom_refOps (p : Int) (cigar : List (Nat × Nat)) :
    blocksFrom p (refOps cigar) = blocksFrom p cigar := by
  induction cigar generalizing p with
  | nil => rfl
  | cons c t ih =>
    obtain ⟨op, l⟩ := c
    unfold refOps at ih ⊢
    rw [List.filter_cons]
    by_cases ha : isAlignOp op = true
    · simp only [ha, Bool.true_or, if_true]
      unfold blocksFrom
      rw [if_pos ha, if_pos ha, ih]
    · have ha' : isAlignOp op = false := by simpa using ha
      by_cases hg : isGapOp op = true
      · simp only [ha', hg, Bool.or_true, if_true]
        unfold blocksFrom
        rw [if_neg ha, if_neg ha, if_pos hg, if_pos hg, ih]
      · have hg' : isGapOp op = false := by simpa using hg
        simp only [ha', hg', Bool.or_self]
        rw [if_neg (by simp)]
        conv => rhs; unfold blocksFrom
        rw [if_neg ha, if_neg hg]
        exact ih p

theorem refLen_refOps (cigar : List (Nat × Nat)) : refLen (refOps cigar) = refLen cigar := by
  induction cigar with
  | nil => rfl
  | cons c t ih =>
    obtain ⟨op, l⟩ := c
    unfold refOps at ih ⊢
    rw [List.filter_cons]
    by_cases h : (isAlignOp op || isGapOp op) = true
    · simp only [h, if_true]
      unfold refLen
      rw [ih]
    · have h' : (isAlignOp op || isGapOp op) = false := by simpa using h
      simp only [h']
      rw [if_neg (by simp)]
      conv => rhs; unfold refLen
      simp only [h']
      rw [ih]; simp

/-- insertions, soft / hard clips and padding are invisible to both algorithms -/
theorem align_refOps (r : Read) : align { r with cigar := refOps r.cigar } = align r := by
  unfold align
  simp only [blocksFrom_refOps, refLen_refOps]

/-! ## whole bins -/

/-- deleted / skipped reference positions of counted reads inside the bin -/
def gapBasesInBin (contigs : List (String × Nat)) (rs : List Read) (q : Nat) (chrom : String) (s e : Int) : Int :=
  match tidOf contigs chrom with
  | none => 0
  | some t => ((rs.filter (fun r => r.tid == t && propCounted q (align r))).map (fun r => gapIn r s e)).sum

theorem gapBases_nonneg (contigs : List (String × Nat)) (rs : List Read) (q : Nat) (chrom : String) (s e : Int) :
    0 ≤ gapBasesInBin contigs rs q chrom s e := by
  unfold gapBasesInBin
  cases tidOf contigs chrom with
  | none => exact Int.le_refl 0
  | some t =>
    simp only
    generalize rs.filter _ = l
    induction l with
    | nil => exact Int.le_refl 0
    | cons r t ih =>
      rw [List.map_cons, List.sum_cons]
      have := gapIn_nonneg r s e
      omega

/-- covered positions = aligned positions + deleted / skipped positions, summed over the counted reads -/
theorem spanned_eq_aligned_add_gaps (contigs : List (String × Nat)) (rs : List Read) (q : Nat) (chrom : String)
    (s e : Int) :
    spannedBasesInBin contigs (rs.map align) q chrom s e =
      alignedBasesInBin contigs (rs.map align) q chrom s e + gapBasesInBin contigs rs q chrom s e := by
  unfold spannedBasesInBin alignedBasesInBin gapBasesInBin
  cases tidOf contigs chrom with
  | none => rfl
  | some t =>
    simp only
    rw [filter_map_align, List.map_map, List.map_map]
    have hf : (fun r : Read => (align r).tid == t && propCounted q (align r)) =
        (fun r => r.tid == t && propCounted q (align r)) := rfl
    rw [hf, ← sum_map_add]
    apply sum_map_congr
    intro r _
    exact spanIn_eq_basesIn_add_gapIn r s e

/-- the row the pileup reports for a bin: covered positions of counted reads / length -/
def spanRow (contigs : List (String × Nat)) (reads : List ARead) (q : Nat) (b : Row) : OutRow :=
  mkRow b (depthOf (spannedBasesInBin contigs reads q b.chrom b.s b.e) b.s b.e)

/-- pileup, ANY CIGARs: row by row in file order -/
theorem pileupTable_span (contigs : List (String × Nat)) (reads : List ARead) (q : Nat) (lines : List BedLine)
    (procs size : Nat) (order : List Nat) (hs : 0 < size) :
    pileupTable contigs reads q lines procs size order = (binsOf lines).map (spanRow contigs reads q) := by
  rw [pileupTable_eq _ _ _ _ _ _ _ hs]
  unfold binsOf
  rw [List.map_map]
  apply List.map_congr_left
  intro r _
  unfold pileupPost spanRow
  simp only [Function.comp]
  rw [bedcovCount_eq_spanned]
  rfl

theorem depthOf_add (a b s e : Int) : depthOf (a + b) s e = depthOf a s e + depthOf b s e := by
  unfold depthOf
  split
  · rw [Rat.intCast_add, Rat.div_def, Rat.div_def, Rat.div_def, Rat.add_mul]
  · exact (Rat.add_zero 0).symm

end CnvVerif.Cov
