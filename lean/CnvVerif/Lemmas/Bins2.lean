/-
  Lemmas behind Props/C12.lean (second part): Python `round` (half to even) and the size of the
  bins `_split_targets` cuts; the default minimum size of `do_antitarget`.
-/
import CnvVerif.Model.Bins
import CnvVerif.Lemmas.Bins
import Mathlib.Tactic.Linarith
import Mathlib.Tactic.Ring
import Mathlib.Tactic.NormNum
import Mathlib.Algebra.Order.Field.Basic
import Mathlib.Data.Rat.Floor
import Mathlib.Tactic.FieldSimp
import Mathlib.Tactic.Positivity
namespace CnvVerif

/-- half-to-even rounding is within one half of its argument -/
theorem roundHalfEven_bounds (q : Rat) :
    (roundHalfEven q : Rat) - 1 / 2 ≤ q ∧ q ≤ (roundHalfEven q : Rat) + 1 / 2 := by
  have h1 : (q.floor : Rat) ≤ q := Rat.floor_le q
  have h2 : q < (q.floor : Rat) + 1 := by have := Rat.lt_floor_add_one q; push_cast at this; exact this
  unfold roundHalfEven
  simp only
  split
  · rename_i h; constructor <;> linarith
  · rename_i h
    split
    · rename_i h'; push_cast; constructor <;> linarith
    · rename_i h'
      split
      · constructor <;> linarith
      · push_cast; constructor <;> linarith

theorem roundHalfEven_nonneg (q : Rat) (h : 0 ≤ q) : 0 ≤ roundHalfEven q := by
  have hf : 0 ≤ q.floor := Rat.le_floor_iff.mpr (by simpa using h)
  unfold roundHalfEven
  simp only
  split
  · exact hf
  · split
    · omega
    · split <;> omega

/-- the quotient the code rounds is not negative -/
theorem span_div_nonneg (avg : Rat) (havg : 0 < avg) (r : Row) (hr : r.s ≤ r.e) :
    0 ≤ ((r.e - r.s : Int) : Rat) / avg := by
  apply div_nonneg _ havg.le
  have : (0 : Int) ≤ r.e - r.s := by omega
  exact_mod_cast this

/-! ### arithmetic cores (no rows) -/

private theorem lower_core (span n minSize : Int) (avg : Rat) (hn : 2 ≤ n)
    (h1 : (n : Rat) - 1 / 2 ≤ (span : Rat) / avg) (havg : 0 < avg)
    (hmin : (minSize : Rat) ≤ 3 / 4 * avg) : minSize ≤ span / n := by
  have hn' : (2 : Rat) ≤ n := by exact_mod_cast hn
  have h2 : ((n : Rat) - 1 / 2) * avg ≤ span := by rwa [le_div_iff₀ havg] at h1
  have h3 : (minSize : Rat) * n ≤ 3 / 4 * avg * n :=
    mul_le_mul_of_nonneg_right hmin (by linarith)
  have h4 : 0 ≤ avg * ((n : Rat) - 2) := mul_nonneg havg.le (by linarith)
  have h5 : (minSize : Rat) * n ≤ span := by nlinarith
  have h6 : minSize * n ≤ span := by exact_mod_cast h5
  exact (Int.le_ediv_iff_mul_le (by omega)).mpr h6

private theorem upper_core (span n sz : Int) (avg : Rat) (hn : 2 ≤ n)
    (h1 : (span : Rat) / avg ≤ (n : Rat) + 1 / 2) (havg : 4 ≤ avg)
    (hsz : sz ≤ span / n + 1) : (sz : Rat) ≤ 3 / 2 * avg := by
  have hn' : (2 : Rat) ≤ n := by exact_mod_cast hn
  have hnpos : (0 : Rat) < n := by linarith
  have havg0 : (0 : Rat) < avg := by linarith
  have h2 : (span : Rat) ≤ ((n : Rat) + 1 / 2) * avg := by rwa [div_le_iff₀ havg0] at h1
  have h3 : span / n * n ≤ span := Int.ediv_mul_le span (by omega)
  have h3' : ((span / n : Int) : Rat) * n ≤ span := by exact_mod_cast h3
  have h4 : (sz : Rat) ≤ ((span / n : Int) : Rat) + 1 := by exact_mod_cast hsz
  -- d * n ≤ (n + 1/2) * avg ≤ 5/4 * avg * n
  have h5 : 0 ≤ avg * ((n : Rat) - 2) := mul_nonneg havg0.le (by linarith)
  have h6 : ((span / n : Int) : Rat) * n ≤ 5 / 4 * avg * n := by nlinarith
  have h7 : ((span / n : Int) : Rat) ≤ 5 / 4 * avg := le_of_mul_le_mul_right h6 hnpos
  linarith

private theorem pos_core (span n : Int) (avg : Rat) (hn : 2 ≤ n)
    (h1 : (n : Rat) - 1 / 2 ≤ (span : Rat) / avg) (havg : 1 ≤ avg) (hspan : 0 < span) :
    1 ≤ span / n := by
  have havg0 : (0 : Rat) < avg := by linarith
  have hs : (0 : Rat) < span := by exact_mod_cast hspan
  have h2 : (span : Rat) / avg ≤ span := div_le_self hs.le havg
  have h3 : (n : Rat) < (span : Rat) + 1 := by linarith
  have h4 : n < span + 1 := by exact_mod_cast h3
  exact (Int.le_ediv_iff_mul_le (by omega)).mpr (by omega)

/-- the bin count as an integer -/
private theorem nbinsOf_cast (avg : Rat) (r : Row) :
    ((nbinsOf avg r : Nat) : Int) = max 1 (roundHalfEven (((r.e - r.s : Int) : Rat) / avg)) := by
  unfold nbinsOf
  omega

/-- no bin is shorter than the minimum size, provided the minimum is at most 3/4 of the average
    (a region kept by the size filter and cut into `n ≥ 2` bins has at least `(n - 1/2)·avg` bases) -/
theorem splitRow_size_lower (avg : Rat) (havg : 0 < avg) (minSize : Int)
    (hmin : (minSize : Rat) ≤ 3 / 4 * avg) (r : Row) (hr : r.s ≤ r.e) :
    ∀ x ∈ splitRow avg minSize r, minSize ≤ x.e - x.s := by
  intro x hx
  by_cases h : minSize ≤ r.e - r.s
  · rw [splitRow_closed avg havg minSize r hr h] at hx
    split at hx
    · simp only [List.mem_singleton] at hx
      subst hx; exact h
    · rename_i hne
      have hpos := nbinsOf_pos avg r
      have hc := nbinsOf_cast avg r
      have hb := roundHalfEven_bounds (((r.e - r.s : Int) : Rat) / avg)
      have hsz := splitInto_sizes r (nbinsOf avg r) hpos x hx
      have hn2 : (2 : Int) ≤ (nbinsOf avg r : Nat) := by omega
      have heq : ((nbinsOf avg r : Nat) : Int) = roundHalfEven (((r.e - r.s : Int) : Rat) / avg) := by
        omega
      have hcore := lower_core (r.e - r.s) (nbinsOf avg r : Nat) minSize avg hn2
        (by rw [heq]; exact hb.1) havg hmin
      omega
  · have : splitRow avg minSize r = [] := by
      unfold splitRow
      simp only
      rw [if_neg (by simpa using h)]
    rw [this] at hx
    cases hx

/-- no bin is longer than 1.5 × the average size (`avg ≥ 4`: the one extra base of an uneven cut
    has to fit into avg/4) -/
theorem splitRow_size_upper (avg : Rat) (havg : 4 ≤ avg) (minSize : Int) (r : Row) (hr : r.s ≤ r.e) :
    ∀ x ∈ splitRow avg minSize r, ((x.e - x.s : Int) : Rat) ≤ 3 / 2 * avg := by
  intro x hx
  have havg0 : (0 : Rat) < avg := by linarith
  by_cases h : minSize ≤ r.e - r.s
  · rw [splitRow_closed avg havg0 minSize r hr h] at hx
    have hpos := nbinsOf_pos avg r
    have hc := nbinsOf_cast avg r
    have hb := roundHalfEven_bounds (((r.e - r.s : Int) : Rat) / avg)
    split at hx
    · rename_i h1
      simp only [List.mem_singleton] at hx
      subst hx
      have hle : roundHalfEven (((x.e - x.s : Int) : Rat) / avg) ≤ 1 := by omega
      have hle' : (roundHalfEven (((x.e - x.s : Int) : Rat) / avg) : Rat) ≤ 1 := by
        exact_mod_cast hle
      have h2 : ((x.e - x.s : Int) : Rat) / avg ≤ 3 / 2 := by linarith [hb.2]
      rw [div_le_iff₀ havg0] at h2
      exact h2
    · rename_i hne
      have hsz := splitInto_sizes r (nbinsOf avg r) hpos x hx
      have hn2 : (2 : Int) ≤ (nbinsOf avg r : Nat) := by omega
      have heq : ((nbinsOf avg r : Nat) : Int) = roundHalfEven (((r.e - r.s : Int) : Rat) / avg) := by
        omega
      exact upper_core (r.e - r.s) (nbinsOf avg r : Nat) (x.e - x.s) avg hn2
        (by rw [heq]; exact hb.2) havg hsz.2
  · have : splitRow avg minSize r = [] := by
      unfold splitRow
      simp only
      rw [if_neg (by simpa using h)]
    rw [this] at hx
    cases hx

/-- bins are not empty (`avg ≥ 1`: never more bins than bases) -/
theorem splitRow_positive (avg : Rat) (havg : 1 ≤ avg) (minSize : Int) (r : Row) (hr : r.s < r.e) :
    ∀ x ∈ splitRow avg minSize r, x.s < x.e := by
  intro x hx
  have havg0 : (0 : Rat) < avg := by linarith
  by_cases h : minSize ≤ r.e - r.s
  · rw [splitRow_closed avg havg0 minSize r (by omega) h] at hx
    have hpos := nbinsOf_pos avg r
    have hc := nbinsOf_cast avg r
    have hb := roundHalfEven_bounds (((r.e - r.s : Int) : Rat) / avg)
    split at hx
    · simp only [List.mem_singleton] at hx
      subst hx; exact hr
    · rename_i hne
      have hsz := splitInto_sizes r (nbinsOf avg r) hpos x hx
      have hn2 : (2 : Int) ≤ (nbinsOf avg r : Nat) := by omega
      have heq : ((nbinsOf avg r : Nat) : Int) = roundHalfEven (((r.e - r.s : Int) : Rat) / avg) := by
        omega
      have hcore := pos_core (r.e - r.s) (nbinsOf avg r : Nat) avg hn2
        (by rw [heq]; exact hb.1) havg (by omega)
      omega
  · have : splitRow avg minSize r = [] := by
      unfold splitRow
      simp only
      rw [if_neg (by simpa using h)]
    rw [this] at hx
    cases hx

/-- `2 * int(avg * 2**-5)` -/
theorem defaultMinSize_eq (avg : Rat) (h : 0 ≤ avg) : defaultMinSize avg = 2 * (avg / 32).floor := by
  have h0 : (0 : Rat) ≤ avg * (1 / 32) := by positivity
  have he : avg * (1 / 32) = avg / 32 := by ring
  unfold defaultMinSize truncRat Generated.ANTI_MIN_FACTOR Generated.ANTI_MIN_SCALE
  rw [if_pos h0, he]

/-- the default minimum is at most avg/16, far below the 3/4·avg the lower size bound needs -/
theorem defaultMinSize_le (avg : Rat) (h : 0 ≤ avg) : (defaultMinSize avg : Rat) ≤ avg / 16 := by
  rw [defaultMinSize_eq avg h]
  have h1 : ((avg / 32).floor : Rat) ≤ avg / 32 := Rat.floor_le _
  push_cast
  linarith

/-- the bins `_split_targets` makes of one region `m`: `nbinsOf avg m = max 1 (round (len/avg))` of
    them, consecutive from `m.s` to `m.e`, sizes within one base of each other, fields of `m` -/
theorem region_bins_spec (avg : Rat) (m : Row) (hm : m.s ≤ m.e) :
    let bins := if nbinsOf avg m = 1 then [m] else splitInto m (nbinsOf avg m)
    bins.length = nbinsOf avg m ∧ Tiles bins m.s m.e ∧
    (∀ a ∈ bins, ∀ b ∈ bins, (a.e - a.s) - (b.e - b.s) ≤ 1) ∧
    (∀ a ∈ bins, a.chrom = m.chrom ∧ a.gene = m.gene) := by
  intro bins
  have hpos := nbinsOf_pos avg m
  by_cases h1 : nbinsOf avg m = 1
  · have hb : bins = [m] := by simp [bins, h1]
    rw [hb, h1]
    refine ⟨rfl, ⟨rfl, hm, rfl⟩, ?_, ?_⟩
    · intro a ha b hb'
      simp only [List.mem_singleton] at ha hb'
      subst ha; subst hb'; omega
    · intro a ha
      simp only [List.mem_singleton] at ha
      subst ha; exact ⟨rfl, rfl⟩
  · have hb : bins = splitInto m (nbinsOf avg m) := by simp [bins, h1]
    rw [hb]
    refine ⟨by simp [splitInto], splitInto_tiles m _ hpos hm, ?_, splitInto_fields m _⟩
    intro a ha b hb'
    have h2 := splitInto_sizes m _ hpos a ha
    have h3 := splitInto_sizes m _ hpos b hb'
    omega

end CnvVerif
