/-
  Lemmas behind Props/C12.lean (second part): Python `round` (half to even) and the size of the
  bins `_split_targets` cuts; the default minimum size of `do_antitarget`.
-/
import CnvVerif.Model.Bins
import CnvVerif.Lemmas.Bins
namespace CnvVerif

/-- half-to-even rounding is within one half of its argument -/
theorem roundHalfEven_bounds (q : Rat) :
    (roundHalfEven q : Rat) - 1 / 2 ≤ q ∧ q ≤ (roundHalfEven q : Rat) + 1 / 2 := by
  sorry

theorem roundHalfEven_nonneg (q : Rat) (h : 0 ≤ q) : 0 ≤ roundHalfEven q := by
  sorry

/-- the quotient the code rounds is not negative -/
theorem span_div_nonneg (avg : Rat) (havg : 0 < avg) (r : Row) (hr : r.s ≤ r.e) :
    0 ≤ ((r.e - r.s : Int) : Rat) / avg := by
  sorry

/-- no bin is shorter than the minimum size, provided the minimum is at most 3/4 of the average
    (a region kept by the size filter and cut into `n ≥ 2` bins has at least `(n - 1/2)·avg` bases) -/
theorem splitRow_size_lower (avg : Rat) (havg : 0 < avg) (minSize : Int)
    (hmin : (minSize : Rat) ≤ 3 / 4 * avg) (r : Row) (hr : r.s ≤ r.e) :
    ∀ x ∈ splitRow avg minSize r, minSize ≤ x.e - x.s := by
  sorry

/-- no bin is longer than 1.5 × the average size (`avg ≥ 4`: the one extra base of an uneven cut
    has to fit into avg/4) -/
theorem splitRow_size_upper (avg : Rat) (havg : 4 ≤ avg) (minSize : Int) (r : Row) (hr : r.s ≤ r.e) :
    ∀ x ∈ splitRow avg minSize r, ((x.e - x.s : Int) : Rat) ≤ 3 / 2 * avg := by
  sorry

/-- bins are not empty (`avg ≥ 1`: never more bins than bases) -/
theorem splitRow_positive (avg : Rat) (havg : 1 ≤ avg) (minSize : Int) (r : Row) (hr : r.s < r.e) :
    ∀ x ∈ splitRow avg minSize r, x.s < x.e := by
  sorry

/-- `2 * int(avg * 2**-5)` -/
theorem defaultMinSize_eq (avg : Rat) (h : 0 ≤ avg) : defaultMinSize avg = 2 * (avg / 32).floor := by
  sorry

/-- the default minimum is at most avg/16, far below the 3/4·avg the lower size bound needs -/
theorem defaultMinSize_le (avg : Rat) (h : 0 ≤ avg) : (defaultMinSize avg : Rat) ≤ avg / 16 := by
  sorry

end CnvVerif
