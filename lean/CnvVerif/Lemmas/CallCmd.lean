/-
  Lemmas about the glue model of `cnvkit.py call` (Model/CallCmd.lean) and its tie to the source text
  (Generated/ExprsCmd.lean).
-/
import CnvVerif.Generated.ExprsCmd
import CnvVerif.Model.CallCmd
import CnvVerif.Lemmas.Call
namespace CnvVerif
set_option linter.unusedSimpArgs false
set_option linter.unusedTactic false
set_option linter.unreachableTactic false

theorem cmdPurityRejected_iff (purity : Option Rat) :
    cmdPurityRejected purity = true ↔ ∃ p, purity = some p ∧ p ≠ 0 ∧ ¬ (0 < p ∧ p ≤ 1) := by
  cases purity with
  | none => simp [cmdPurityRejected]
  | some p =>
    simp only [cmdPurityRejected, Option.some.injEq, exists_eq_left', Bool.and_eq_true, bne_iff_ne, ne_eq,
      Bool.not_eq_true', Bool.and_eq_false_iff, decide_eq_false_iff_not, not_and_or]

theorem cmdCallPlan_error_iff (a : CmdCallArgs) (ploidy : Nat) (hapX : Bool) (par : Option String) (g : Bool)
    (tp : List Rat) :
    (∃ e, cmdCallPlan a ploidy hapX par g tp = .error e) ↔ ∃ p, a.purity = some p ∧ p ≠ 0 ∧ ¬ (0 < p ∧ p ≤ 1) := by
  rw [← cmdPurityRejected_iff]
  unfold cmdCallPlan
  cases cmdPurityRejected a.purity <;> simp

/-- every purity the command line lets through and `do_call` then rescales with lies strictly between 0 and 1 -/
theorem cmdCallPlan_active_purity (a : CmdCallArgs) (ploidy : Nat) (hapX : Bool) (par : Option String) (g : Bool)
    (tp : List Rat) (rc : Recenter) (cfg : CallCfg) (h : cmdCallPlan a ploidy hapX par g tp = .ok (rc, cfg)) (p : Rat)
    (hp : purityActive cfg.purity = some p) : cfg.purity = some p ∧ 0 < p ∧ p < 1 := by
  unfold cmdCallPlan at h
  split at h
  · cases h
  · rename_i hrej
    injection h with h
    injection h with _ hcfg
    subst hcfg
    simp only at hp ⊢
    cases hpur : a.purity with
    | none => rw [hpur] at hp; simp [purityActive] at hp
    | some q =>
      rw [hpur] at hp hrej
      simp only [purityActive] at hp
      split at hp
      · rename_i hq
        injection hp with hp
        subst hp
        refine ⟨rfl, ?_, hq.2⟩
        simp only [cmdPurityRejected, Bool.and_eq_true, bne_iff_ne, ne_eq, Bool.not_eq_true', Bool.and_eq_false_iff,
          decide_eq_false_iff_not, not_and_or, not_or, not_not, Bool.not_eq_false] at hrej
        rcases hrej with h0 | h1
        · exact absurd h0 hq.1
        · exact h1.1
      · cases hp

theorem cmdRecenter_shadow (c : Rat) (hc : c ≠ 0) (center : Option String) :
    cmdRecenter (some c) center = .shiftBy c := by
  simp [cmdRecenter, hc]

theorem cmdRecenter_zero (center : Option String) : cmdRecenter (some 0) center = cmdRecenter none center := by
  simp [cmdRecenter]

/-- on the pure path a row's call depends neither on the sample sex nor on the genome option -/
theorem callRow_pure_ignores_sex_and_genome (cfg : CallCfg) (h : purityActive cfg.purity = none) (female' : Bool)
    (par' : Option String) (m : Method) (thr : List Rat) (first : String) (hasBaf : Bool) (row : SegRow) :
    callRow { cfg with female := female', par := par' } m thr first hasBaf row = callRow cfg m thr first hasBaf row := by
  unfold callRow
  simp only [h]

namespace Src
open Generated

theorem cmdPurityRejected_is_source (p : Rat) : cmdPurityRejected (some p) = true ↔ src_cmd_call_refuses_purity p := by
  have key : src_cmd_call_refuses_purity p ↔ (p ≠ 0 ∧ ¬ (0 < p ∧ p ≤ 1)) := by
    unfold src_cmd_call_refuses_purity
    first
    | exact Iff.rfl
    | (by_cases h0 : p = 0 <;> by_cases h1 : 0 < p <;> by_cases h2 : p ≤ 1 <;> simp_all <;> linarith)
  rw [cmdPurityRejected_iff, key]
  simp

theorem cmdVerifySex_is_source (g : Bool) (sexArg : Option String) :
    cmdVerifySex g sexArg = src_verify_sample_sex (sexArg.getD "") g := by
  unfold src_verify_sample_sex
  cases sexArg with
  | none => simp [cmdVerifySex]
  | some s =>
    simp only [cmdVerifySex, cmdSexArgFemale, Option.getD_some]
    by_cases hs : s = ""
    · subst hs; simp
    · cases g <;> cases h1 : (s.toLower == "y") <;> cases h2 : (s.toLower == "m") <;> cases h3 : (s.toLower == "male") <;>
        simp_all

end Src
end CnvVerif
