/-
  C12: `do_antitarget`'s minimum size -- the hand-written model equals the expression the translators read off the current source
  (Generated/ExprsBins.lean, regenerated from /repo on every run by harness/extractors/exprs_bins.py).
  Each proof tries `rfl` first and falls back to case analysis + `simp`, so that equivalent spellings of the
  source (a flipped comparison, a negated test with swapped branches, renamed locals) keep it green.
  One lemma file and one Props module per source function group: an edit breaks exactly the obligations about it.
-/
import CnvVerif.Generated.ExprsBins
import CnvVerif.Model.Bins
import Mathlib.Data.Rat.Floor
import Mathlib.Tactic.Linarith
import Mathlib.Tactic.SplitIfs
import Mathlib.Tactic.Ring
set_option linter.unusedTactic false
set_option linter.unreachableTactic false
set_option linter.unusedSimpArgs false
namespace CnvVerif.Src
open CnvVerif CnvVerif.Generated

/-- the minimum size `do_antitarget` hands on to `get_antitargets` -/
def effectiveMinSize (avg : Rat) (mn : Option Int) : Int :=
  match mn with
  | some m => if m == 0 then defaultMinSize avg else m
  | none => defaultMinSize avg

theorem doAntitarget_eq (tg : Table) (acc : Option Table) (avg : Rat) (mn : Option Int) :
    doAntitarget tg acc avg mn = getAntitargets tg acc avg (effectiveMinSize avg mn) := by
  cases mn <;> rfl

/-- `2 * int(avg * 2**MIN_REF_COVERAGE)` as the translator renders it -/
theorem defaultMinSize_cast (avg : Rat) :
    ((defaultMinSize avg : Int) : Rat) =
      (2 : Rat) * (if (avg * ((1 : Rat) / 32)) < 0 then ((((avg * ((1 : Rat) / 32))).ceil : Int) : Rat)
        else ((((avg * ((1 : Rat) / 32))).floor : Int) : Rat)) := by
  unfold defaultMinSize truncRat ANTI_MIN_FACTOR ANTI_MIN_SCALE
  push_cast
  by_cases h : avg * ((1 : Rat) / 32) < 0
  · rw [if_pos h, if_neg (by linarith)]
  · rw [if_neg h, if_pos (by linarith)]

theorem effectiveMin_given_is_source (avg : Rat) (m : Int) :
    ((effectiveMinSize avg (some m) : Int) : Rat) = src_antitarget_min_given avg (m : Rat) := by
  unfold effectiveMinSize src_antitarget_min_given
  by_cases hm : m = 0
  · subst hm
    simp only [beq_self_eq_true, if_true, Int.cast_zero, ne_eq, not_true_eq_false, not_false_eq_true,
      false_or, or_false, or_true, true_or, eq_self_iff_true]
    first
    | exact defaultMinSize_cast avg
    | (rw [defaultMinSize_cast avg]; split_ifs <;> first | rfl | ring | linarith)
  · have hb : (m == 0) = false := by simpa using hm
    have hq : ((m : Rat)) ≠ 0 := by exact_mod_cast hm
    have hq' : ¬ ((m : Rat)) = 0 := hq
    simp only [hb, hq, hq', ne_eq, not_false_eq_true, not_true_eq_false, if_false, Bool.false_eq_true,
      false_or, or_false, or_self, false_and, and_false]

theorem effectiveMin_absent_is_source (avg : Rat) :
    ((effectiveMinSize avg none : Int) : Rat) = src_antitarget_min_absent avg := by
  unfold effectiveMinSize src_antitarget_min_absent
  first
  | exact defaultMinSize_cast avg
  | (rw [defaultMinSize_cast avg]; split_ifs <;> first | rfl | ring | linarith)

end CnvVerif.Src
