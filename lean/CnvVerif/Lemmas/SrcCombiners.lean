/-
  Source tie of skgenome/combiners.py: `first_of`, `last_of`, `merge_strands`, `make_const`, `join_strings` as read by
  the translator (Generated/ExprsRanges.lean) are the combiners of the model (Model/RangesExt.lean).
-/
import CnvVerif.Generated.ExprsRanges
import CnvVerif.Model.RangesExt
set_option linter.unusedSimpArgs false
namespace CnvVerif.Src
open CnvVerif CnvVerif.Generated

/-- what the codes of the generated combiner readings stand for: 0 = position 0 of a Series (`.iat[0]`),
    1 = its last position (`.iat[-1]`), 2 / 3 = index 0 / -1 of a plain sequence -/
def elemAt (code : Nat) (vs : List Val) : Val :=
  match code with
  | 0 => vs.headD .nan
  | 2 => vs.headD .nan
  | _ => vs.getLastD .nan

/-- `first_of` takes a Series by POSITION (`.iat[0]`, not the label lookup `elems[0]`: finding BD) and a plain
    sequence by index 0 -/
theorem firstOf_is_source (vs : List Val) :
    (∀ b, src_first_of b = if b then 0 else 2) ∧ firstOf vs = elemAt (src_first_of true) vs := by
  refine ⟨fun b => by cases b <;> simp [src_first_of], ?_⟩
  simp [src_first_of, elemAt, firstOf]

theorem lastOf_is_source (vs : List Val) :
    (∀ b, src_last_of b = if b then 1 else 3) ∧ lastOf vs = elemAt (src_last_of true) vs := by
  refine ⟨fun b => by cases b <;> simp [src_last_of], ?_⟩
  simp [src_last_of, elemAt, lastOf]

theorem mergeStrands_is_source (l : List String) :
    mergeStrands l = (match src_merge_strands l.eraseDups.length with | 0 => "." | _ => l.headD "") := by
  unfold mergeStrands src_merge_strands
  by_cases h : l.eraseDups.length > 1 <;> simp [h]

theorem const_and_join_are_source : src_make_const = 0 ∧ src_join_strings = 0 := by
  constructor <;> simp [src_make_const, src_join_strings]
end CnvVerif.Src
