/-
  Lemmas behind Props/C20.lean: the exporters of cnvlib/export.py and skgenome/tabio/seg.py
  (Model/Export.lean) state exactly the calls they were given.
-/
import CnvVerif.Model.Export
import CnvVerif.Lemmas.Call
import Std.Data.String.ToInt
namespace CnvVerif.Export
open CnvVerif

/-! ### the literals of the source are those the property names -/

theorem vcf_pos_replace_eq : Generated.VCF_POS_REPLACE_FROM = 0 ∧ Generated.VCF_POS_REPLACE_TO = 1 := ⟨rfl, rfl⟩
theorem vcf_svtype_eq : Generated.VCF_SVTYPE_LOSS = "DEL" ∧ Generated.VCF_SVTYPE_GAIN = "DUP" := ⟨rfl, rfl⟩
theorem vcf_format_eq : Generated.VCF_FORMAT_LOSS = ["GT", "GQ"] ∧
    Generated.VCF_FORMAT_GAIN = ["GT", "GQ", "CN", "CNQ"] := ⟨rfl, rfl⟩
theorem vcf_svlen_factor_eq : Generated.VCF_SVLEN_LOSS_FACTOR = -1 := rfl
theorem seg_start_shift_eq : Generated.SEG_START_SHIFT = 1 := rfl

/-! ### list plumbing: boolean masks, zipWith, filterMap -/

theorem maskSelect_map {α β} (f : α → β) (p : α → Bool) (l : List α) :
    maskSelect (l.map f) (l.map p) = (l.filter p).map f := by
  induction l with
  | nil => rfl
  | cons a t ih =>
    simp only [List.map_cons, maskSelect, List.filter_cons]
    cases h : p a <;> simp [ih]

theorem zipWith_map_same {α β γ δ} (f : β → γ → δ) (g : α → β) (h : α → γ) (l : List α) :
    List.zipWith f (l.map g) (l.map h) = l.map (fun a => f (g a) (h a)) := by
  induction l with
  | nil => rfl
  | cons a t ih => simp [ih]

theorem filterMap_ite {α β} (p : α → Bool) (g : α → β) (l : List α) :
    l.filterMap (fun a => if p a then some (g a) else none) = (l.filter p).map g := by
  induction l with
  | nil => rfl
  | cons a t ih =>
    simp only [List.filterMap_cons, List.filter_cons]
    cases h : p a <;> simp [ih]

/-! ### expected copies -/

/-- `absolute_expect` is the table the property words: ploidy on autosomes and PAR-X; on X the
    ploidy for a female sample, half of it for a male one; on Y none / half; none on PAR-Y -/
theorem expectOf_eq (cfg : Cfg) (first : String) (r : Seg) :
    expectOf cfg first r = expectedCopies cfg first r := by
  unfold expectOf expectedCopies
  cases classOf first cfg.par r.chrom r.s r.e <;> simp only [refExpect] <;>
    cases cfg.female <;> simp

theorem expectVcf_eq (cfg : Cfg) (first : String) (r : Seg) :
    expectVcf cfg first r = expectedCopies cfg first r := by
  unfold expectVcf
  split
  · exact expectOf_eq cfg first r
  · unfold expectedCopies
    cases classOf first cfg.par r.chrom r.s r.e <;> simp only [refExpect] <;>
      cases cfg.female <;> simp

theorem expectCol_eq (cfg : Cfg) (rows : List Seg) :
    expectCol cfg rows = rows.map (expectedCopies cfg (firstChrom rows)) := by
  unfold expectCol
  exact List.map_congr_left (fun r _ => expectOf_eq cfg (firstChrom rows) r)

/-! ### the stated copy number -/

theorem ncopiesOf_cn (cfg : Cfg) (h : cfg.hasCn = true) (first : String) (r : Seg) :
    ncopiesOf cfg first r = r.cn := by
  unfold ncopiesOf
  rw [if_pos h]

theorem purityActive_one : purityActive (some 1) = none := by
  show (if (1 : Rat) ≠ 0 ∧ (1 : Rat) < 1 then some (1 : Rat) else none) = none
  rw [if_neg]
  intro h
  exact absurd h.2 (by decide)

/-- without a `cn` column the stated copy number is `r·2^log2` rounded half-even, `r` being the
    reference copies of the segment's class -/
theorem ncopiesOf_round (cfg : Cfg) (h : cfg.hasCn = false) (first : String) (r : Seg) :
    ncopiesOf cfg first r =
      roundHE (((refExpect cfg.ploidy cfg.hapX cfg.female
        (classOf first cfg.par r.chrom r.s r.e)).1 : Rat) * r.t) := by
  unfold ncopiesOf
  rw [if_neg (by simp [h])]
  simp only [absoluteOf_pure _ _ _ purityActive_one]

/-- … hence a nearest integer to `r·2^log2` -/
theorem ncopiesOf_nearest (cfg : Cfg) (h : cfg.hasCn = false) (first : String) (r : Seg) :
    let q := ((refExpect cfg.ploidy cfg.hapX cfg.female
        (classOf first cfg.par r.chrom r.s r.e)).1 : Rat) * r.t
    ((ncopiesOf cfg first r : Int) : Rat) - q ≤ 1/2 ∧ q - ((ncopiesOf cfg first r : Int) : Rat) ≤ 1/2 := by
  intro q
  rw [ncopiesOf_round cfg h first r]
  exact roundHE_nearest q

/-! ### export_bed -/

theorem exportBed_eq_spec (cfg : Cfg) (label : Option String) (sh : ShowMode) (rows : List Seg) :
    exportBed cfg label sh rows = bedSpec cfg label sh rows := by
  unfold exportBed bedSpec
  cases sh with
  | all =>
    have hf : rows.filter (bedKeep cfg (firstChrom rows) ShowMode.all) = rows :=
      List.filter_eq_self.mpr (fun r _ => rfl)
    rw [hf]
  | ploidy =>
    simp only [List.map_map]
    rw [maskSelect_map]
    rfl
  | variant =>
    simp only [expectCol_eq]
    rw [zipWith_map_same, maskSelect_map]
    rfl

/-! ### export_vcf -/

/-- the hypothesis of the VCF clause: a `probes` column of non-negative integers -/
def ProbesOk (cfg : Cfg) (rows : List Seg) : Prop :=
  cfg.hasProbes = true ∧ ∀ r ∈ rows, 0 ≤ r.probes

theorem vcfEmit_cols (cfg : Cfg) (first : String) (r : Seg) (hp : probesDigit cfg r = true) :
    vcfEmit cfg (vcfCols cfg first r) =
      if vcfKeep cfg first r then some (vcfRecOf cfg first r) else none := by
  unfold vcfEmit vcfCols vcfKeep vcfRecOf
  simp only [hp, expectVcf_eq, vcf_pos_replace_eq.1, vcf_pos_replace_eq.2, vcf_svtype_eq.1, vcf_svtype_eq.2,
    vcf_format_eq.1, vcf_format_eq.2, vcf_svlen_factor_eq]
  by_cases heq : ncopiesOf cfg first r = expectedCopies cfg first r
  · simp [heq]
  · by_cases hlt : ncopiesOf cfg first r < expectedCopies cfg first r
    · have hng : ¬ (ncopiesOf cfg first r > expectedCopies cfg first r) := by omega
      simp [heq, hlt, hng]
    · have hgt : ncopiesOf cfg first r > expectedCopies cfg first r := by omega
      simp [heq, hlt, hgt]

theorem segments2vcf_eq_spec (cfg : Cfg) (rows : List Seg) (h : ProbesOk cfg rows) :
    segments2vcf cfg rows = vcfSpec cfg rows := by
  unfold segments2vcf vcfSpec
  simp only [List.filterMap_map]
  rw [← filterMap_ite]
  apply List.filterMap_congr
  intro r hr
  have hp : probesDigit cfg r = true := by
    unfold probesDigit
    simp [h.1, h.2 r hr]
  exact vcfEmit_cols cfg (firstChrom rows) r hp

/-- the segments the VCF reports are those `export bed --show variant` lists -/
theorem vcfKeep_eq_bedKeep (cfg : Cfg) (first : String) (r : Seg) :
    vcfKeep cfg first r = bedKeep cfg first .variant r := rfl

/-- without usable probe counts nothing is emitted (the excluded point of `ProbesOk`) -/
theorem segments2vcf_no_probes (cfg : Cfg) (rows : List Seg) (h : cfg.hasProbes = false) :
    segments2vcf cfg rows = [] := by
  unfold segments2vcf
  simp only [List.filterMap_map]
  rw [List.filterMap_eq_nil_iff]
  intro r _
  simp [vcfEmit, vcfCols, probesDigit, h]

/-! fields of the record of one reported segment -/

theorem vcfRecOf_loss (cfg : Cfg) (first : String) (r : Seg)
    (h : ncopiesOf cfg first r < expectedCopies cfg first r) :
    (vcfRecOf cfg first r).svtype = "DEL" ∧ (vcfRecOf cfg first r).alt = "<DEL>" ∧
    (vcfRecOf cfg first r).svlen = -(r.e - r.s) := by
  simp [vcfRecOf, h]

theorem vcfRecOf_gain (cfg : Cfg) (first : String) (r : Seg)
    (h : expectedCopies cfg first r < ncopiesOf cfg first r) :
    (vcfRecOf cfg first r).svtype = "DUP" ∧ (vcfRecOf cfg first r).alt = "<DUP>" ∧
    (vcfRecOf cfg first r).svlen = r.e - r.s ∧
    sampleField (vcfRecOf cfg first r) "CN" = some (toString (ncopiesOf cfg first r)) := by
  have hn : ¬ (ncopiesOf cfg first r < expectedCopies cfg first r) := by omega
  simp [vcfRecOf, hn, sampleField]

/-! ### export_seg -/

theorem renameChrom_nil (c : String) : renameChrom [] c = c := rfl

theorem formatSeg_nil (sm : SegSample) : formatSeg [] sm = sm.rows.map (segSpecRow sm) := by
  unfold formatSeg segSpecRow
  simp [renameChrom_nil, seg_start_shift_eq]

theorem exportSeg_plain (samples : List SegSample) : exportSeg false samples = segSpec samples := by
  unfold exportSeg segSpec
  cases samples with
  | nil => rfl
  | cons a t =>
    simp only [Bool.false_eq_true, if_false]
    congr 1

/-- everything but the chromosome name -/
def SegOut.core (o : SegOut) : String × Int × Int × Option Int × Rat := (o.id, o.start, o.endp, o.probes, o.mean)

theorem formatSeg_core (ids : List (String × Nat)) (sm : SegSample) :
    (formatSeg ids sm).map SegOut.core = (sm.rows.map (segSpecRow sm)).map SegOut.core := by
  unfold formatSeg segSpecRow SegOut.core
  simp [seg_start_shift_eq]

theorem exportSeg_core (en : Bool) (samples : List SegSample) :
    (exportSeg en samples).map SegOut.core = (segSpec samples).map SegOut.core := by
  unfold exportSeg segSpec
  cases samples with
  | nil => rfl
  | cons a t =>
    simp only [List.map_flatMap]
    congr 1
    funext sm
    exact formatSeg_core _ sm

/-- renumbering replaces a name by its 1-based rank among the first sample's chromosomes -/
theorem exportSeg_chrom (en : Bool) (first : SegSample) (rest : List SegSample) :
    (exportSeg en (first :: rest)).map (·.chrom) =
      (first :: rest).flatMap (fun sm => sm.rows.map (fun r =>
        renameChrom (if en then createChromIds first.rows else []) r.chrom)) := by
  unfold exportSeg
  simp only [List.map_flatMap]
  congr 1
  funext sm
  unfold formatSeg
  simp

/-! ### merge_samples -/

theorem Frame.has_iff (f : Frame) (k : String) : f.has k = true ↔ k ∈ f.map (·.1) := by
  unfold Frame.has
  simp only [List.any_eq_true, List.mem_map, beq_iff_eq]

def sampleCols (l : List BinSample) : Frame := l.map (fun sm => (sm.id, log2Col sm))

theorem sampleCols_names (l : List BinSample) : (sampleCols l).map (·.1) = l.map (·.id) := by
  unfold sampleCols
  simp

/-- equal labels and pairwise distinct sample IDs: every sample gets its column, in order -/
theorem mergeLoop_ok (labels : List Cell) (cols : Frame) (k : Nat) (rest : List BinSample)
    (hl : ∀ sm ∈ rest, labelCol sm = labels)
    (hd : (cols.map (·.1) ++ rest.map (·.id)).Nodup) :
    mergeLoop labels cols k rest = .ok (cols ++ sampleCols rest) := by
  induction rest generalizing cols k with
  | nil => simp [mergeLoop, sampleCols]
  | cons sm t ih =>
    unfold mergeLoop
    have h1 : labelCol sm = labels := hl sm (by simp)
    have h2 : cols.has sm.id = false := by
      cases hh : cols.has sm.id with
      | false => rfl
      | true =>
        exfalso
        have hm := (Frame.has_iff cols sm.id).mp hh
        have := List.nodup_append.mp hd
        exact this.2.2 _ hm _ (by simp) rfl
    simp only [h1, bne_self_eq_false, Bool.false_eq_true, if_false, h2]
    rw [ih (cols ++ [(sm.id, log2Col sm)]) (k + 1) (fun s hs => hl s (by simp [hs]))]
    · simp [sampleCols]
    · simp only [List.map_append, List.map_cons, List.map_nil, List.append_assoc, List.cons_append,
        List.nil_append]
      simpa using hd

/-- a sample whose labels differ from the first sample's makes the merge fail -/
theorem mergeLoop_mismatch (labels : List Cell) (cols : Frame) (k : Nat) (rest : List BinSample)
    (h : ∃ sm ∈ rest, labelCol sm ≠ labels) :
    ∃ e, mergeLoop labels cols k rest = .error e := by
  induction rest generalizing cols k with
  | nil => obtain ⟨sm, hm, _⟩ := h; simp at hm
  | cons sm t ih =>
    unfold mergeLoop
    by_cases h1 : labelCol sm = labels
    · simp only [h1, bne_self_eq_false, Bool.false_eq_true, if_false]
      split
      · exact ⟨_, rfl⟩
      · apply ih
        obtain ⟨s, hs, hne⟩ := h
        rcases List.mem_cons.mp hs with rfl | hs'
        · exact absurd h1 hne
        · exact ⟨s, hs', hne⟩
    · have : (labels != labelCol sm) = true := by
        simp only [bne_iff_ne, ne_eq]
        exact fun hh => h1 hh.symm
      simp only [this, if_true]
      exact ⟨_, rfl⟩

/-- equal labels throughout but a repeated sample ID: refused as a duplicate -/
theorem mergeLoop_duplicate (labels : List Cell) (cols : Frame) (k : Nat) (rest : List BinSample)
    (hl : ∀ sm ∈ rest, labelCol sm = labels)
    (hd : ¬ (cols.map (·.1) ++ rest.map (·.id)).Nodup) (hc : (cols.map (·.1)).Nodup) :
    ∃ id, mergeLoop labels cols k rest = .error (.duplicate id) := by
  induction rest generalizing cols k with
  | nil => simp at hd; exact absurd hc hd
  | cons sm t ih =>
    unfold mergeLoop
    have h1 : labelCol sm = labels := hl sm (by simp)
    simp only [h1, bne_self_eq_false, Bool.false_eq_true, if_false]
    split
    · exact ⟨_, rfl⟩
    · rename_i hh
      have hnot : sm.id ∉ cols.map (·.1) := fun hm => hh ((Frame.has_iff cols sm.id).mpr hm)
      apply ih (cols ++ [(sm.id, log2Col sm)]) (k + 1) (fun s hs => hl s (by simp [hs]))
      · intro hnd
        apply hd
        simpa using hnd
      · simp only [List.map_append, List.map_cons, List.map_nil]
        rw [List.nodup_append]
        refine ⟨hc, by simp, ?_⟩
        intro a ha b hb
        simp at hb
        subst hb
        exact fun heq => hnot (heq ▸ ha)

theorem mergeSamples_ok (first : BinSample) (rest : List BinSample)
    (hl : ∀ sm ∈ rest, labelCol sm = labelCol first)
    (hd : ((first :: rest).map (·.id)).Nodup) :
    mergeSamples (first :: rest) = .ok (binCols first ++ sampleCols (first :: rest)) := by
  simp only [mergeSamples,
    mergeLoop_ok (labelCol first) [(first.id, log2Col first)] 1 rest hl (by simpa using hd)]
  simp [sampleCols]

theorem mergeSamples_mismatch (first : BinSample) (rest : List BinSample)
    (h : ∃ sm ∈ rest, labelCol sm ≠ labelCol first) :
    ∃ e, mergeSamples (first :: rest) = .error e := by
  obtain ⟨e, he⟩ := mergeLoop_mismatch (labelCol first) [(first.id, log2Col first)] 1 rest h
  exact ⟨e, by simp only [mergeSamples, he]⟩

theorem mergeSamples_duplicate (first : BinSample) (rest : List BinSample)
    (hl : ∀ sm ∈ rest, labelCol sm = labelCol first)
    (hd : ¬ ((first :: rest).map (·.id)).Nodup) :
    ∃ id, mergeSamples (first :: rest) = .error (.duplicate id) := by
  obtain ⟨id, he⟩ := mergeLoop_duplicate (labelCol first) [(first.id, log2Col first)] 1 rest hl
    (by simpa using hd) (by simp)
  exact ⟨id, by simp only [mergeSamples, he]⟩

/-! ### table rows -/

theorem rowsOf_length (n : Nat) (cols : List (List Cell)) : (rowsOf n cols).length = n := by
  simp [rowsOf]

theorem rowsOf_get (n : Nat) (cols : List (List Cell)) (i : Nat) (hi : i < n) :
    (rowsOf n cols)[i]? = some (cols.map (fun c => c.getD i (Cell.str ""))) := by
  simp [rowsOf, hi]

theorem labelCol_length (sm : BinSample) : (labelCol sm).length = sm.bins.length := by
  simp [labelCol]

theorem binCols_nrows (first : BinSample) (cols : Frame) :
    Frame.nrows (binCols first ++ cols) = first.bins.length := by
  simp [Frame.nrows, binCols]

/-- cell `i` of a sample's log2 column -/
theorem log2Col_getD (sm : BinSample) (i : Nat) (hi : i < sm.bins.length) :
    (log2Col sm).getD i (Cell.str "") = Cell.num ((sm.bins.getD i default).v) := by
  simp [log2Col, List.getD_eq_getElem?_getD, hi]

theorem labelCol_getD (sm : BinSample) (i : Nat) (hi : i < sm.bins.length) :
    (labelCol sm).getD i (Cell.str "") = Cell.str (labelWithGene (sm.bins.getD i default)) := by
  simp [labelCol, List.getD_eq_getElem?_getD, hi]

/-- JTV: one row per bin of the merged table; row `i` is `IMAGE:`, the bin's label, then every
    sample's log2 of bin `i`, in the order of the samples -/
theorem fmtJtv_rows (ids : List String) (first : BinSample) (samples : List BinSample)
    (hlen : ∀ sm ∈ samples, sm.bins.length = first.bins.length) :
    let rows := (fmtJtv ids (binCols first ++ sampleCols samples)).2
    rows.length = first.bins.length ∧
    ∀ i, i < first.bins.length →
      rows[i]? = some ([Cell.str "IMAGE:", Cell.str (labelWithGene (first.bins.getD i default))] ++
        samples.map (fun sm => Cell.num ((sm.bins.getD i default).v))) := by
  intro rows
  have hn : Frame.nrows (binCols first ++ sampleCols samples) = first.bins.length := binCols_nrows _ _
  have hname : ((binCols first ++ sampleCols samples)[4]?).map (·.2) = some (labelCol first) := by
    simp [binCols]
  have hrest : (List.drop 5 (binCols first ++ sampleCols samples)).map (·.2) = samples.map log2Col := by
    simp [binCols, sampleCols]
  constructor
  · simp only [rows, fmtJtv, hn, rowsOf_length]
  · intro i hi
    simp only [rows, fmtJtv, hn, hname, hrest, Option.getD_some]
    rw [rowsOf_get _ _ i hi]
    simp only [List.map_cons, List.map_map, List.cons_append,
      List.nil_append, Option.some.injEq]
    congr 1
    · simp [List.getD_eq_getElem?_getD, hi]
    congr 1
    · exact labelCol_getD first i hi
    · apply List.map_congr_left
      intro sm hsm
      exact log2Col_getD sm i (by rw [hlen sm hsm]; exact hi)

/-- CDT: two header rows, then one row per bin: GENE<i>X, IMAGE:<i>, the bin's label, weight 1,
    then every sample's log2 of that bin -/
theorem fmtCdt_rows (ids : List String) (first : BinSample) (samples : List BinSample)
    (hlen : ∀ sm ∈ samples, sm.bins.length = first.bins.length) :
    let rows := ((fmtCdt ids (binCols first ++ sampleCols samples)).2).drop 2
    rows.length = first.bins.length ∧
    ∀ i, i < first.bins.length →
      rows[i]? = some ([Cell.str ("GENE" ++ toString i ++ "X"), Cell.str ("IMAGE:" ++ toString i),
                        Cell.str (labelWithGene (first.bins.getD i default)), Cell.int 1] ++
        samples.map (fun sm => Cell.num ((sm.bins.getD i default).v))) := by
  intro rows
  have hn : Frame.nrows (binCols first ++ sampleCols samples) = first.bins.length := binCols_nrows _ _
  have hname : ((binCols first ++ sampleCols samples)[4]?).map (·.2) = some (labelCol first) := by
    simp [binCols]
  have hrest : (List.drop 5 (binCols first ++ sampleCols samples)).map (·.2) = samples.map log2Col := by
    simp [binCols, sampleCols]
  have hrows : rows = rowsOf first.bins.length
      ([(List.range first.bins.length).map (fun i => Cell.str ("GENE" ++ toString i ++ "X")),
        (List.range first.bins.length).map (fun i => Cell.str ("IMAGE:" ++ toString i)),
        labelCol first, List.replicate first.bins.length (Cell.int 1)] ++ samples.map log2Col) := by
    simp only [rows, fmtCdt, hn, hname, hrest, Option.getD_some]
    simp
  constructor
  · rw [hrows, rowsOf_length]
  · intro i hi
    rw [hrows, rowsOf_get _ _ i hi]
    simp only [List.map_cons, List.map_map, List.cons_append,
      List.nil_append, Option.some.injEq]
    congr 1
    · simp [List.getD_eq_getElem?_getD, hi]
    congr 1
    · simp [List.getD_eq_getElem?_getD, hi]
    congr 1
    · exact labelCol_getD first i hi
    congr 1
    · simp [List.getD_eq_getElem?_getD, hi]
    · apply List.map_congr_left
      intro sm hsm
      exact log2Col_getD sm i (by rw [hlen sm hsm]; exact hi)

/-- equal label columns have equally many bins -/
theorem bins_length_of_labels (a b : BinSample) (h : labelCol a = labelCol b) :
    a.bins.length = b.bins.length := by
  have := congrArg List.length h
  simpa [labelCol] using this

/-- nexus-basic: one row per bin with its coordinates, gene, log2 and range label -/
theorem nexusBasic_rows (bins : List Bin) :
    (nexusBasic bins).length = bins.length ∧
    ∀ i, i < bins.length →
      (nexusBasic bins)[i]? = some (let b := bins.getD i default
        [Cell.str b.chrom, Cell.int b.s, Cell.int b.e, Cell.str b.gene, Cell.num b.v, Cell.str (toLabel b)]) := by
  constructor
  · simp [nexusBasic]
  · intro i hi
    simp [nexusBasic, List.getD_eq_getElem?_getD, hi]

/-! ### bin labels identify bins -/

theorem split_at {c : Char} : ∀ (a a' r r' : List Char), c ∉ a → c ∉ a' →
    a ++ c :: r = a' ++ c :: r' → a = a' ∧ r = r'
  | [], [], r, r', _, _, h => by simpa using h
  | [], y :: a', r, r', _, ha', h => by
    simp at h; simp at ha'; exact absurd h.1 ha'.1
  | x :: a, [], r, r', ha, _, h => by
    simp at h; simp at ha; exact absurd h.1.symm ha.1
  | x :: a, y :: a', r, r', ha, ha', h => by
    simp at h ha ha'
    obtain ⟨h1, h2⟩ := split_at a a' r r' ha.2 ha'.2 h.2
    exact ⟨by rw [h.1, h1], h2⟩

theorem natRepr_digits (n : Nat) (c : Char) (h : c ∈ n.repr.toList) : c.isDigit = true := by
  rw [Nat.toList_repr] at h
  exact Nat.isDigit_of_mem_toDigits (by decide) (by decide) h

theorem intRepr_nonneg_digits (a : Int) (ha : 0 ≤ a) (c : Char) (h : c ∈ a.repr.toList) :
    c.isDigit = true := by
  rw [Int.repr_eq_if, if_pos ha] at h
  exact natRepr_digits _ c h

theorem intRepr_no_colon (a : Int) : ':' ∉ a.repr.toList := by
  intro h
  rw [Int.repr_eq_if] at h
  split at h
  · exact absurd (natRepr_digits _ _ h) (by decide)
  · rw [String.toList_append] at h
    rcases List.mem_append.mp h with h | h
    · revert h; decide
    · exact absurd (natRepr_digits _ _ h) (by decide)

theorem labelWithGene_toList (b : Bin) :
    (labelWithGene b).toList =
      b.chrom.toList ++ ':' :: (b.s.repr.toList ++ '-' :: (b.e.repr.toList ++ ':' :: b.gene.toList)) := by
  simp [labelWithGene, String.toList_append]

/-- bin labels identify bins: chromosome names without ':' and non-negative starts -/
theorem labelWithGene_inj (b b' : Bin) (hc : ':' ∉ b.chrom.toList) (hc' : ':' ∉ b'.chrom.toList)
    (hs : 0 ≤ b.s) (hs' : 0 ≤ b'.s) (h : labelWithGene b = labelWithGene b') :
    b.chrom = b'.chrom ∧ b.s = b'.s ∧ b.e = b'.e ∧ b.gene = b'.gene := by
  have hl := congrArg String.toList h
  rw [labelWithGene_toList, labelWithGene_toList] at hl
  obtain ⟨h1, hl⟩ := split_at _ _ _ _ hc hc' hl
  have nd : ∀ a : Int, 0 ≤ a → '-' ∉ a.repr.toList := fun a ha hm =>
    absurd (intRepr_nonneg_digits a ha _ hm) (by decide)
  obtain ⟨h2, hl⟩ := split_at _ _ _ _ (nd _ hs) (nd _ hs') hl
  obtain ⟨h3, h4⟩ := split_at _ _ _ _ (intRepr_no_colon _) (intRepr_no_colon _) hl
  exact ⟨String.toList_injective h1, Int.repr_injective (String.toList_injective h2),
         Int.repr_injective (String.toList_injective h3), String.toList_injective h4⟩

/-- what `merge_samples` compares through the label: coordinates and gene -/
def binKey (b : Bin) : String × Int × Int × String := (b.chrom, b.s, b.e, b.gene)

/-- a bin whose label can be read back: no ':' in the chromosome name, start not negative -/
def BinOk (b : Bin) : Prop := ':' ∉ b.chrom.toList ∧ 0 ≤ b.s

theorem bins_eq_of_labels : ∀ (l l' : List Bin), (∀ b ∈ l, BinOk b) → (∀ b ∈ l', BinOk b) →
    l.map (fun b => Cell.str (labelWithGene b)) = l'.map (fun b => Cell.str (labelWithGene b)) →
    l.map binKey = l'.map binKey
  | [], [], _, _, _ => rfl
  | [], _ :: _, _, _, h => by simp at h
  | _ :: _, [], _, _, h => by simp at h
  | b :: l, b' :: l', hw, hw', h => by
    simp only [List.map_cons, List.cons.injEq, Cell.str.injEq] at h
    have hb := hw b (by simp)
    have hb' := hw' b' (by simp)
    obtain ⟨h1, h2, h3, h4⟩ := labelWithGene_inj b b' hb.1 hb'.1 hb.2 hb'.2 h.1
    have ih := bins_eq_of_labels l l' (fun x hx => hw x (by simp [hx])) (fun x hx => hw' x (by simp [hx])) h.2
    simp only [List.map_cons, binKey, h1, h2, h3, h4, ih]

/-- a sample whose bins differ from the first sample's is refused -/
theorem mergeSamples_bins_differ (first : BinSample) (rest : List BinSample)
    (hw : ∀ sm ∈ first :: rest, ∀ b ∈ sm.bins, BinOk b)
    (h : ∃ sm ∈ rest, sm.bins.map binKey ≠ first.bins.map binKey) :
    ∃ e, mergeSamples (first :: rest) = .error e := by
  apply mergeSamples_mismatch
  obtain ⟨sm, hsm, hne⟩ := h
  refine ⟨sm, hsm, fun heq => hne ?_⟩
  exact bins_eq_of_labels sm.bins first.bins (hw sm (by simp [hsm])) (hw first (by simp)) heq

/-- conversely equal bins give equal labels -/
theorem labels_of_bins_eq (a b : BinSample) (h : a.bins.map binKey = b.bins.map binKey) :
    labelCol a = labelCol b := by
  unfold labelCol
  have : ∀ (l l' : List Bin), l.map binKey = l'.map binKey →
      l.map (fun b => Cell.str (labelWithGene b)) = l'.map (fun b => Cell.str (labelWithGene b)) := by
    intro l
    induction l with
    | nil => intro l' h; cases l' with
      | nil => rfl
      | cons _ _ => simp at h
    | cons x t ih => intro l' h; cases l' with
      | nil => simp at h
      | cons y t' =>
        simp only [List.map_cons, List.cons.injEq, binKey, Prod.mk.injEq] at h
        obtain ⟨⟨h1, h2, h3, h4⟩, ht⟩ := h
        have hx : labelWithGene x = labelWithGene y := by simp only [labelWithGene, h1, h2, h3, h4]
        simp only [List.map_cons, hx, ih t' ht]
  exact this _ _ h


end CnvVerif.Export
