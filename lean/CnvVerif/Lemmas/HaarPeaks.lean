/-
  Lemmas behind Props/C11.lean, part 2: `FindLocalPeaks` of a tent is the step position, of a zero signal
  nothing; every reported index is a local extremum, every strict interior extremum is reported.
-/
import CnvVerif.Lemmas.Haar
set_option linter.unusedSimpArgs false
set_option linter.unusedVariables false
namespace CnvVerif.Haar

/-! ### the zero signal -/

theorem peakStep_zero (k : Nat) (mx mn : Option Nat) (p nx : Rat) :
    peakStep k mx mn p 0 nx = ([], mx, mn) := by
  simp [peakStep]

theorem peaksGo_zero (m k : Nat) (mx mn : Option Nat) :
    peaksGo k mx mn 0 0 (List.replicate m 0) = [] := by
  induction m generalizing k mx mn with
  | zero => rfl
  | succ m ih => simp [List.replicate_succ, peaksGo, peakStep_zero, ih]

theorem findLocalPeaks_eq (sig : List Rat) (h : 2 ≤ sig.length) :
    findLocalPeaks sig = peaksGo 1 none none (sig.getD 0 0) (sig.getD 1 0) (sig.drop 2) := by
  match sig, h with
  | p :: c :: rest, _ => simp [findLocalPeaks]

theorem findLocalPeaks_short (sig : List Rat) (h : sig.length < 2) : findLocalPeaks sig = [] := by
  match sig, h with
  | [], _ => rfl
  | [_], _ => rfl

/-! ### absolute-index form of the loop -/

theorem peaks_drop_getD (sig : List Rat) (i : Nat) (h : i < sig.length) :
    sig.drop i = sig.getD i 0 :: sig.drop (i + 1) := by
  rw [List.drop_eq_getElem_cons h]
  simp [List.getD_eq_getElem?_getD, h]

theorem peakStep_emit (k : Nat) (mx mn : Option Nat) (p c nx : Rat)
    (hx : (0 < c ∧ p < c ∧ nx < c) ∨ (c < 0 ∧ c < p ∧ c < nx)) :
    (peakStep k mx mn p c nx).1 = [k] := by
  unfold peakStep
  rcases hx with ⟨h0, h1, h2⟩ | ⟨h0, h1, h2⟩
  · simp [h0, h1, h2]
  · have : ¬ 0 < c := not_lt.mpr (le_of_lt h0)
    simp [h0, h1, h2, this]

theorem peaksGo_complete (sig : List Rat) (j : Nat)
    (hx : (0 < sig.getD j 0 ∧ sig.getD (j - 1) 0 < sig.getD j 0 ∧ sig.getD (j + 1) 0 < sig.getD j 0) ∨
          (sig.getD j 0 < 0 ∧ sig.getD j 0 < sig.getD (j - 1) 0 ∧ sig.getD j 0 < sig.getD (j + 1) 0))
    (hj2 : j + 2 ≤ sig.length) :
    ∀ (m k : Nat) (mx mn : Option Nat), sig.length = k + 1 + m → 1 ≤ k → k ≤ j →
      j ∈ peaksGo k mx mn (sig.getD (k - 1) 0) (sig.getD k 0) (sig.drop (k + 1)) := by
  intro m
  induction m with
  | zero => intro k mx mn hl hk hkj; omega
  | succ m ih =>
    intro k mx mn hl hk hkj
    rw [peaks_drop_getD sig (k + 1) (by omega)]
    unfold peaksGo
    rw [List.mem_append]
    by_cases hjk : j = k
    · left
      subst hjk
      rw [peakStep_emit _ _ _ _ _ _ hx]
      simp
    · right
      have := ih (k + 1) (peakStep k mx mn (sig.getD (k - 1) 0) (sig.getD k 0) (sig.getD (k + 1) 0)).2.1
        (peakStep k mx mn (sig.getD (k - 1) 0) (sig.getD k 0) (sig.getD (k + 1) 0)).2.2
        (by omega) (by omega) (by omega)
      simpa using this

theorem peakStep_inv (Q : Nat → Prop) (k : Nat) (mx mn : Option Nat) (p c nx : Rat)
    (hmx : ∀ s, mx = some s → Q s) (hmn : ∀ s, mn = some s → Q s)
    (hk : ((0 < c ∧ p < c ∧ nx ≤ c) ∨ (c < 0 ∧ c < p ∧ c ≤ nx)) → Q k) :
    (∀ j ∈ (peakStep k mx mn p c nx).1, Q j) ∧
    (∀ s, (peakStep k mx mn p c nx).2.1 = some s → Q s) ∧
    (∀ s, (peakStep k mx mn p c nx).2.2 = some s → Q s) := by
  unfold peakStep
  split_ifs with h0 h1 h2 h3 h4 h5 h6 h7 h8 h9
  · refine ⟨?_, hmx, hmn⟩
    intro j hj
    simp at hj; subst hj
    exact hk (Or.inl ⟨h0, h1.1, le_of_lt h1.2⟩)
  · refine ⟨by simp, ?_, hmn⟩
    intro s hs
    simp at hs; subst hs
    exact hk (Or.inl ⟨h0, h2.1, le_of_eq h2.2.symm⟩)
  · cases mx with
    | none => exact ⟨by simp, by simp, hmn⟩
    | some s => exact ⟨by simpa using hmx s rfl, by simp, hmn⟩
  · exact ⟨by simp, by simp, hmn⟩
  · exact ⟨by simp, hmx, hmn⟩
  · refine ⟨?_, hmx, hmn⟩
    intro j hj
    simp at hj; subst hj
    exact hk (Or.inr ⟨h5, h6.1, le_of_lt h6.2⟩)
  · refine ⟨by simp, hmx, ?_⟩
    intro s hs
    simp at hs; subst hs
    exact hk (Or.inr ⟨h5, h7.1, le_of_eq h7.2⟩)
  · cases mn with
    | none => exact ⟨by simp, hmx, by simp⟩
    | some s => exact ⟨by simpa using hmn s rfl, hmx, by simp⟩
  · exact ⟨by simp, hmx, by simp⟩
  · exact ⟨by simp, hmx, hmn⟩
  · exact ⟨by simp, hmx, hmn⟩

theorem peaksGo_sound (sig : List Rat) (Q : Nat → Prop)
    (hQ : ∀ k, 1 ≤ k → k + 2 ≤ sig.length →
      ((0 < sig.getD k 0 ∧ sig.getD (k - 1) 0 < sig.getD k 0 ∧ sig.getD (k + 1) 0 ≤ sig.getD k 0) ∨
       (sig.getD k 0 < 0 ∧ sig.getD k 0 < sig.getD (k - 1) 0 ∧ sig.getD k 0 ≤ sig.getD (k + 1) 0)) → Q k) :
    ∀ (m k : Nat) (mx mn : Option Nat), sig.length = k + 1 + m → 1 ≤ k →
      (∀ s, mx = some s → Q s) → (∀ s, mn = some s → Q s) →
      ∀ j ∈ peaksGo k mx mn (sig.getD (k - 1) 0) (sig.getD k 0) (sig.drop (k + 1)), Q j := by
  intro m
  induction m with
  | zero =>
    intro k mx mn hl hk hmx hmn j hj
    rw [List.drop_eq_nil_of_le (by omega)] at hj
    simp [peaksGo] at hj
  | succ m ih =>
    intro k mx mn hl hk hmx hmn j hj
    rw [peaks_drop_getD sig (k + 1) (by omega)] at hj
    unfold peaksGo at hj
    obtain ⟨a1, a2, a3⟩ := peakStep_inv Q k mx mn (sig.getD (k - 1) 0) (sig.getD k 0) (sig.getD (k + 1) 0)
      hmx hmn (hQ k hk (by omega))
    rcases List.mem_append.mp hj with hj | hj
    · exact a1 j hj
    · have := ih (k + 1) _ _ (by omega) (by omega) a2 a3 j
      exact this (by simpa using hj)

/-! ### signals without a non-zero plateau -/

def isPeak (p c nx : Rat) : Bool :=
  decide ((0 < c ∧ p < c ∧ nx < c) ∨ (c < 0 ∧ c < p ∧ c < nx))

theorem peakStep_strict (k : Nat) (mx mn : Option Nat) (p c nx : Rat)
    (h1 : c = p → c = 0) (h2 : c = nx → c = 0) :
    peakStep k mx mn p c nx = (if isPeak p c nx then [k] else [], mx, mn) := by
  unfold peakStep isPeak
  by_cases h0 : 0 < c
  · have hne : c ≠ 0 := ne_of_gt h0
    have e1 : c ≠ p := fun e => hne (h1 e)
    have e2 : c ≠ nx := fun e => hne (h2 e)
    by_cases hp : p < c ∧ nx < c
    · simp [h0, hp]
    · have : ¬ c < 0 := not_lt.mpr (le_of_lt h0)
      simp [h0, hp, e1, e2, this]
  · by_cases h0' : c < 0
    · have hne : c ≠ 0 := ne_of_lt h0'
      have e1 : c ≠ p := fun e => hne (h1 e)
      have e2 : c ≠ nx := fun e => hne (h2 e)
      by_cases hp : c < p ∧ c < nx
      · simp [h0, h0', hp]
      · simp [h0, h0', hp, e1, e2]
    · simp [h0, h0']

theorem peaksGo_strict (sig : List Rat)
    (hnp : ∀ i, i + 1 < sig.length → sig.getD i 0 = sig.getD (i + 1) 0 → sig.getD i 0 = 0) :
    ∀ (m k : Nat) (mx mn : Option Nat), sig.length = k + 1 + m → 1 ≤ k →
      peaksGo k mx mn (sig.getD (k - 1) 0) (sig.getD k 0) (sig.drop (k + 1)) =
        (List.range' k m).filter
          (fun i => isPeak (sig.getD (i - 1) 0) (sig.getD i 0) (sig.getD (i + 1) 0)) := by
  intro m
  induction m with
  | zero =>
    intro k mx mn hl hk
    rw [List.drop_eq_nil_of_le (by omega)]
    simp [peaksGo]
  | succ m ih =>
    intro k mx mn hl hk
    rw [peaks_drop_getD sig (k + 1) (by omega)]
    unfold peaksGo
    have e1 : sig.getD k 0 = sig.getD (k - 1) 0 → sig.getD k 0 = 0 := by
      intro e
      have := hnp (k - 1) (by omega) (by rw [show k - 1 + 1 = k by omega]; exact e.symm)
      rw [e]; exact this
    have e2 : sig.getD k 0 = sig.getD (k + 1) 0 → sig.getD k 0 = 0 := hnp k (by omega)
    rw [peakStep_strict _ _ _ _ _ _ e1 e2]
    have := ih (k + 1) mx mn (by omega) (by omega)
    simp only [Nat.add_sub_cancel] at this
    simp only [this, List.range'_succ, List.filter_cons]
    split_ifs <;> simp

theorem peaks_filter_range'_single (P : Nat → Bool) (b : Nat) :
    ∀ (m a : Nat), a ≤ b → b < a + m → (∀ i, a ≤ i → i < a + m → (P i = true ↔ i = b)) →
      (List.range' a m).filter P = [b] := by
  intro m
  induction m with
  | zero => intro a h1 h2; omega
  | succ m ih =>
    intro a h1 h2 hP
    rw [List.range'_succ, List.filter_cons]
    by_cases hab : a = b
    · subst hab
      have : P a = true := (hP a (by omega) (by omega)).mpr rfl
      simp only [this, if_true]
      congr 1
      rw [List.filter_eq_nil_iff]
      intro i hi
      rw [List.mem_range'_1] at hi
      intro hi'
      have := (hP i (by omega) (by omega)).mp hi'
      omega
    · have : ¬ P a = true := fun e => hab ((hP a (by omega) (by omega)).mp e)
      simp only [this, if_false]
      exact ih (a + 1) (by omega) (by omega) (fun i hi1 hi2 => hP i (by omega) (by omega))

/-! ### the tent -/

theorem peaks_getD_map_range (f : Nat → Rat) (n i : Nat) (h : i < n) :
    ((List.range n).map f).getD i 0 = f i := by
  simp [List.getD_eq_getElem?_getD, h]

theorem peaks_mono_lt_iff (ψ : Nat → Rat) (hm : ∀ a b, a < b → ψ a < ψ b) (a b : Nat) :
    ψ a < ψ b ↔ a < b := by
  constructor
  · intro h
    rcases Nat.lt_trichotomy a b with h' | h' | h'
    · exact h'
    · subst h'; exact absurd h (lt_irrefl _)
    · exact absurd h (lt_asymm (hm _ _ h'))
  · exact hm a b

theorem peaks_anti_lt_iff (ψ : Nat → Rat) (hm : ∀ a b, a < b → ψ b < ψ a) (a b : Nat) :
    ψ b < ψ a ↔ a < b := by
  constructor
  · intro h
    rcases Nat.lt_trichotomy a b with h' | h' | h'
    · exact h'
    · subst h'; exact absurd h (lt_irrefl _)
    · exact absurd h (lt_asymm (hm _ _ h'))
  · exact hm a b

theorem isPeak_mono (ψ : Nat → Rat) (h0 : ψ 0 = 0) (hm : ∀ a b, a < b → ψ a < ψ b) (x y z : Nat) :
    isPeak (ψ x) (ψ y) (ψ z) = true ↔ (0 < y ∧ x < y ∧ z < y) := by
  unfold isPeak
  rw [decide_eq_true_eq, ← h0]
  simp only [peaks_mono_lt_iff ψ hm]
  omega

theorem isPeak_anti (ψ : Nat → Rat) (h0 : ψ 0 = 0) (hm : ∀ a b, a < b → ψ b < ψ a) (x y z : Nat) :
    isPeak (ψ x) (ψ y) (ψ z) = true ↔ (0 < y ∧ x < y ∧ z < y) := by
  unfold isPeak
  rw [decide_eq_true_eq, ← h0]
  simp only [peaks_anti_lt_iff ψ hm]
  omega

theorem peaks_inj_of_mono (ψ : Nat → Rat) (hm : ∀ a b, a < b → ψ a < ψ b) (a b : Nat) (e : ψ a = ψ b) : a = b := by
  rcases Nat.lt_trichotomy a b with h' | h' | h'
  · exact absurd e (ne_of_lt (hm _ _ h'))
  · exact h'
  · exact absurd e.symm (ne_of_lt (hm _ _ h'))

theorem peaks_inj_of_anti (ψ : Nat → Rat) (hm : ∀ a b, a < b → ψ b < ψ a) (a b : Nat) (e : ψ a = ψ b) : a = b := by
  rcases Nat.lt_trichotomy a b with h' | h' | h'
  · exact absurd e.symm (ne_of_lt (hm _ _ h'))
  · exact h'
  · exact absurd e (ne_of_lt (hm _ _ h'))

theorem peaks_tent_peak_iff (h b i : Nat) (h1 : 1 ≤ h) (hb : h ≤ b) (hi : 1 ≤ i) :
    (0 < tent h b i ∧ tent h b (i - 1) < tent h b i ∧ tent h b (i + 1) < tent h b i) ↔ i = b := by
  unfold tent
  split_ifs <;> omega

theorem peaks_tent_plateau (h b i : Nat) (e : tent h b i = tent h b (i + 1)) : tent h b i = 0 := by
  unfold tent at *
  split_ifs at * <;> omega

theorem peaks_scale_cases (g : Rat → Rat) (hg : SignMono g) (s : Rat) (hs : s ≠ 0) :
    (fun a : Nat => g (s * (a : Rat))) 0 = 0 ∧
    ((∀ a b : Nat, a < b → g (s * (a : Rat)) < g (s * (b : Rat))) ∨
     (∀ a b : Nat, a < b → g (s * (b : Rat)) < g (s * (a : Rat)))) := by
  refine ⟨by simp [hg.1], ?_⟩
  rcases lt_or_gt_of_ne hs with hneg | hpos
  · right
    intro a b hab
    apply hg.2
    have : (a : Rat) < (b : Rat) := by exact_mod_cast hab
    exact mul_lt_mul_of_neg_left this hneg
  · left
    intro a b hab
    apply hg.2
    have : (a : Rat) < (b : Rat) := by exact_mod_cast hab
    exact mul_lt_mul_of_pos_left this hpos

/-! ### main statements -/

/-- `FindLocalPeaks` of a (monotonically rescaled) tent of non-zero height is exactly the step position -/
theorem findLocalPeaks_tent (g : Rat → Rat) (hg : SignMono g) (s : Rat) (hs : s ≠ 0) (b n h : Nat)
    (h1 : 1 ≤ h) (hb : h ≤ b) (hn : b + h ≤ n) (hn2 : b + 2 ≤ n) :
    findLocalPeaks ((List.range n).map (fun k => g (s * (tent h b k : Rat)))) = [b] := by
  obtain ⟨h0, hcases⟩ := peaks_scale_cases g hg s hs
  have hlen : ((List.range n).map (fun k => g (s * (tent h b k : Rat)))).length = n := by simp
  have hpk : ∀ x y z : Nat,
      isPeak (g (s * (x : Rat))) (g (s * (y : Rat))) (g (s * (z : Rat))) = true ↔ (0 < y ∧ x < y ∧ z < y) := by
    intro x y z
    rcases hcases with hm | hm
    · exact isPeak_mono (fun a : Nat => g (s * (a : Rat))) h0 hm x y z
    · exact isPeak_anti (fun a : Nat => g (s * (a : Rat))) h0 hm x y z
  have hinj : ∀ x y : Nat, g (s * (x : Rat)) = g (s * (y : Rat)) → x = y := by
    intro x y e
    rcases hcases with hm | hm
    · exact peaks_inj_of_mono (fun a : Nat => g (s * (a : Rat))) hm x y e
    · exact peaks_inj_of_anti (fun a : Nat => g (s * (a : Rat))) hm x y e
  have hnp : ∀ i, i + 1 < ((List.range n).map (fun k => g (s * (tent h b k : Rat)))).length →
      ((List.range n).map (fun k => g (s * (tent h b k : Rat)))).getD i 0 =
        ((List.range n).map (fun k => g (s * (tent h b k : Rat)))).getD (i + 1) 0 →
      ((List.range n).map (fun k => g (s * (tent h b k : Rat)))).getD i 0 = 0 := by
    intro i hi
    rw [hlen] at hi
    rw [peaks_getD_map_range _ _ _ (by omega), peaks_getD_map_range _ _ _ hi]
    intro e
    have := peaks_tent_plateau h b i (hinj _ _ e)
    show g (s * (tent h b i : Rat)) = 0
    rw [this]
    exact h0
  rw [findLocalPeaks_eq _ (by rw [hlen]; omega)]
  have hstrict := peaksGo_strict _ hnp (n - 2) 1 none none (by rw [hlen]; omega) (le_refl 1)
  simp only [Nat.sub_self, Nat.reduceAdd] at hstrict
  rw [hstrict]
  apply peaks_filter_range'_single _ b (n - 2) 1 (by omega) (by omega)
  intro i hi1 hi2
  rw [peaks_getD_map_range _ _ _ (by omega), peaks_getD_map_range _ _ _ (by omega), peaks_getD_map_range _ _ _ (by omega)]
  exact (hpk _ _ _).trans (peaks_tent_peak_iff h b i h1 hb hi1)

theorem findLocalPeaks_zero (n : Nat) : findLocalPeaks (List.replicate n 0) = [] := by
  match n with
  | 0 => rfl
  | 1 => rfl
  | n + 2 => simp [List.replicate_succ, findLocalPeaks, peaksGo_zero]

/-- every reported index is interior and a local extremum of its sign (the first of a plateau) -/
theorem findLocalPeaks_sound (sig : List Rat) (k : Nat) (hk : k ∈ findLocalPeaks sig) :
    1 ≤ k ∧ k + 2 ≤ sig.length ∧
      ((0 < sig.getD k 0 ∧ sig.getD (k - 1) 0 < sig.getD k 0 ∧ sig.getD (k + 1) 0 ≤ sig.getD k 0) ∨
       (sig.getD k 0 < 0 ∧ sig.getD k 0 < sig.getD (k - 1) 0 ∧ sig.getD k 0 ≤ sig.getD (k + 1) 0)) := by
  by_cases hl : sig.length < 2
  · rw [findLocalPeaks_short sig hl] at hk
    simp at hk
  · rw [findLocalPeaks_eq sig (by omega)] at hk
    exact peaksGo_sound sig
      (fun k => 1 ≤ k ∧ k + 2 ≤ sig.length ∧
        ((0 < sig.getD k 0 ∧ sig.getD (k - 1) 0 < sig.getD k 0 ∧ sig.getD (k + 1) 0 ≤ sig.getD k 0) ∨
         (sig.getD k 0 < 0 ∧ sig.getD k 0 < sig.getD (k - 1) 0 ∧ sig.getD k 0 ≤ sig.getD (k + 1) 0)))
      (fun k a b c => ⟨a, b, c⟩) (sig.length - 2) 1 none none (by omega) (le_refl 1)
      (by simp) (by simp) k hk

/-- every interior strict local extremum of its sign is reported -/
theorem findLocalPeaks_complete (sig : List Rat) (k : Nat) (h1 : 1 ≤ k) (h2 : k + 2 ≤ sig.length)
    (hx : (0 < sig.getD k 0 ∧ sig.getD (k - 1) 0 < sig.getD k 0 ∧ sig.getD (k + 1) 0 < sig.getD k 0) ∨
          (sig.getD k 0 < 0 ∧ sig.getD k 0 < sig.getD (k - 1) 0 ∧ sig.getD k 0 < sig.getD (k + 1) 0)) :
    k ∈ findLocalPeaks sig := by
  rw [findLocalPeaks_eq sig (by omega)]
  exact peaksGo_complete sig k hx h2 (sig.length - 2) 1 none none (by omega) (le_refl 1) h1

end CnvVerif.Haar
