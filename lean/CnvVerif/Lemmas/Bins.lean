/-
  Lemmas behind Props/C12.lean (first part): sorting before merge, bins that tile a region,
  the bins of `do_target --split` on one chromosome, label assignment.
-/
import CnvVerif.Model.Bins
import CnvVerif.Lemmas.Interval
import CnvVerif.Lemmas.Interval2
import CnvVerif.Lemmas.Ranges
namespace CnvVerif

/-! ### `sortSE` / `mergeSorted` -/

theorem mem_sortSE (l : List Row) (r : Row) : r ∈ sortSE l ↔ r ∈ l := by
  unfold sortSE
  exact List.mem_mergeSort

theorem seLe_trans (a b c : Row) (h1 : seLe a b = true) (h2 : seLe b c = true) :
    seLe a c = true := by
  simp only [seLe, Bool.or_eq_true, Bool.and_eq_true, decide_eq_true_eq, beq_iff_eq] at *
  omega

theorem seLe_total (a b : Row) : (seLe a b || seLe b a) = true := by
  simp only [seLe, Bool.or_eq_true, Bool.and_eq_true, decide_eq_true_eq, beq_iff_eq]
  omega

theorem sortSE_sorted (l : List Row) : StartSorted (sortSE l) := by
  have h := List.pairwise_mergeSort seLe_trans seLe_total l
  refine List.Pairwise.imp ?_ h
  intro a b hab
  simp only [seLe, Bool.or_eq_true, Bool.and_eq_true, decide_eq_true_eq, beq_iff_eq] at hab
  omega

theorem cov_sortSE (l : List Row) (p : Int) : cov (sortSE l) p ↔ cov l p := by
  simp only [cov, mem_sortSE]

theorem mergeSorted_cov (l : List Row) (p : Int) : cov (mergeSorted l) p ↔ cov l p := by
  unfold mergeSorted
  rw [mergeChrom_cov 0 (Int.le_refl 0) _ (sortSE_sorted l) p, cov_sortSE]

theorem mergeSorted_canon (l : List Row) (hp : ∀ r ∈ l, r.s < r.e) : Canon (mergeSorted l) := by
  unfold mergeSorted
  exact mergeChrom_canon _ (sortSE_sorted l) (fun r hr => hp r ((mem_sortSE l r).mp hr))

/-! ### tilings -/

/-- `bins` are consecutive, each of non-negative length, from `a` to `b` -/
def Tiles : List Row → Int → Int → Prop
  | [], a, b => a = b
  | x :: xs, a, b => x.s = a ∧ x.s ≤ x.e ∧ Tiles xs x.e b

theorem Tiles.le {bins : List Row} {a b : Int} (h : Tiles bins a b) : a ≤ b := by
  induction bins generalizing a with
  | nil => simp only [Tiles] at h; omega
  | cons x xs ih =>
    obtain ⟨h1, h2, h3⟩ := h
    have := ih h3
    omega

theorem Tiles.cov {bins : List Row} {a b : Int} (h : Tiles bins a b) (p : Int) :
    cov bins p ↔ a ≤ p ∧ p < b := by
  induction bins generalizing a with
  | nil =>
    simp only [Tiles] at h
    rw [cov_nil]
    constructor
    · exact False.elim
    · intro h'; omega
  | cons x xs ih =>
    obtain ⟨h1, h2, h3⟩ := h
    have hle := Tiles.le h3
    rw [cov_cons, ih h3]
    omega

theorem Tiles.within {bins : List Row} {a b : Int} (h : Tiles bins a b) :
    ∀ x ∈ bins, a ≤ x.s ∧ x.s ≤ x.e ∧ x.e ≤ b := by
  induction bins generalizing a with
  | nil => intro x hx; cases hx
  | cons y ys ih =>
    obtain ⟨h1, h2, h3⟩ := h
    have hle := Tiles.le h3
    intro x hx
    rcases List.mem_cons.mp hx with rfl | hx
    · omega
    · have := ih h3 x hx
      omega

theorem Tiles.pairwise {bins : List Row} {a b : Int} (h : Tiles bins a b) :
    bins.Pairwise (fun x y => x.e ≤ y.s) := by
  induction bins generalizing a with
  | nil => exact List.Pairwise.nil
  | cons y ys ih =>
    obtain ⟨h1, h2, h3⟩ := h
    refine List.pairwise_cons.mpr ⟨?_, ih h3⟩
    intro z hz
    exact (Tiles.within h3 z hz).1

/-- size of each bin of `splitInto` -/
theorem cut_step (span : Int) (n : Nat) (hn : 1 ≤ n) (i : Nat) :
    span / (n : Int) ≤ (((i + 1 : Nat) : Int) * span) / (n : Int) - ((i : Int) * span) / (n : Int) ∧
    (((i + 1 : Nat) : Int) * span) / (n : Int) - ((i : Int) * span) / (n : Int) ≤
      span / (n : Int) + 1 := by
  have hnpos : (0 : Int) < (n : Int) := by omega
  have h := ediv_add_bounds ((i : Int) * span) span n hnpos
  have e : ((i + 1 : Nat) : Int) * span = (i : Int) * span + span := by
    rw [Int.natCast_add, Int.add_mul]; simp
  rw [e]
  omega

theorem tiles_cuts (r : Row) (cut : Nat → Int) (hmono : ∀ i, cut i ≤ cut (i + 1)) (a k : Nat) :
    Tiles ((List.range' a k).map fun i => { r with s := cut i, e := cut (i + 1) })
      (cut a) (cut (a + k)) := by
  induction k generalizing a with
  | zero => simp [Tiles]
  | succ m ih =>
    rw [List.range'_succ, List.map_cons]
    refine ⟨rfl, hmono a, ?_⟩
    have := ih (a + 1)
    have e : a + 1 + m = a + (m + 1) := by omega
    rw [e] at this
    exact this

/-- the `n ≥ 1` bins of `splitInto` tile the row -/
theorem splitInto_tiles (r : Row) (n : Nat) (hn : 1 ≤ n) (hr : r.s ≤ r.e) :
    Tiles (splitInto r n) r.s r.e := by
  have hnpos : (0 : Int) < (n : Int) := by omega
  have hq : 0 ≤ (r.e - r.s) / (n : Int) := Int.ediv_nonneg (by omega) (by omega)
  have hmono : ∀ i : Nat, r.s + ((i : Int) * (r.e - r.s)) / (n : Int) ≤
      r.s + (((i + 1 : Nat) : Int) * (r.e - r.s)) / (n : Int) := by
    intro i
    have := cut_step (r.e - r.s) n hn i
    omega
  have h := tiles_cuts r (fun i => r.s + ((i : Int) * (r.e - r.s)) / (n : Int)) hmono 0 n
  have e0 : r.s + (((0 : Nat) : Int) * (r.e - r.s)) / (n : Int) = r.s := by simp
  have en : r.s + (((0 + n : Nat) : Int) * (r.e - r.s)) / (n : Int) = r.e := by
    rw [Nat.zero_add, Int.mul_ediv_cancel_left _ (Int.ne_of_gt hnpos)]
    omega
  simp only [e0, en] at h
  unfold splitInto
  simp only
  rw [List.range_eq_range']
  exact h

/-- every bin of `splitInto` has `⌊span/n⌋` or `⌊span/n⌋ + 1` bases -/
theorem splitInto_sizes (r : Row) (n : Nat) (hn : 1 ≤ n) :
    ∀ x ∈ splitInto r n, (r.e - r.s) / (n : Int) ≤ x.e - x.s ∧ x.e - x.s ≤ (r.e - r.s) / (n : Int) + 1 := by
  intro x hx
  unfold splitInto at hx
  simp only [List.mem_map, List.mem_range] at hx
  obtain ⟨i, _, rfl⟩ := hx
  have := cut_step (r.e - r.s) n hn i
  show _ ≤ (r.s + _) - (r.s + _) ∧ (r.s + _) - (r.s + _) ≤ _
  omega

theorem splitInto_fields (r : Row) (n : Nat) :
    ∀ x ∈ splitInto r n, x.chrom = r.chrom ∧ x.gene = r.gene := by
  intro x hx
  unfold splitInto at hx
  simp only [List.mem_map, List.mem_range] at hx
  obtain ⟨i, _, rfl⟩ := hx
  exact ⟨rfl, rfl⟩

/-- the bin count `_split_targets` uses -/
def nbinsOf (avg : Rat) (r : Row) : Nat :=
  (max 1 (roundHalfEven (((r.e - r.s : Int) : Rat) / avg))).toNat

theorem nbinsOf_pos (avg : Rat) (r : Row) : 1 ≤ nbinsOf avg r := by
  unfold nbinsOf
  omega

theorem rhe_nonneg (q : Rat) (h : 0 ≤ q) : 0 ≤ roundHalfEven q := by
  have hf : (0 : Int) ≤ q.floor := Rat.le_floor_iff.mpr (by simpa using h)
  unfold roundHalfEven
  simp only
  split
  · exact hf
  · split
    · omega
    · split <;> omega

theorem spanq_nonneg (avg : Rat) (havg : 0 < avg) (x : Int) (hx : 0 ≤ x) : 0 ≤ (x : Rat) / avg := by
  rw [Rat.div_def]
  apply Rat.mul_nonneg
  · exact Rat.intCast_nonneg.mpr hx
  · exact Rat.le_of_lt (Rat.inv_pos.mpr havg)

/-- `splitRow` of a region that is long enough, in closed form (no sign hypothesis: a negative
    rounded quotient cannot occur for `0 < avg`, `start ≤ end`) -/
theorem splitRow_closed (avg : Rat) (havg : 0 < avg) (minSize : Int) (r : Row) (hr : r.s ≤ r.e)
    (h : minSize ≤ r.e - r.s) :
    splitRow avg minSize r = if nbinsOf avg r = 1 then [r] else splitInto r (nbinsOf avg r) := by
  have hnn := rhe_nonneg _ (spanq_nonneg avg havg (r.e - r.s) (by omega))
  rw [splitRow_eq avg minSize r h hnn]
  rfl

theorem splitRow_tiles (avg : Rat) (havg : 0 < avg) (minSize : Int) (r : Row) (hr : r.s ≤ r.e)
    (h : minSize ≤ r.e - r.s) : Tiles (splitRow avg minSize r) r.s r.e := by
  rw [splitRow_closed avg havg minSize r hr h]
  split
  · exact ⟨rfl, hr, rfl⟩
  · exact splitInto_tiles r _ (nbinsOf_pos avg r) hr

/-- whatever `splitRow` returns lies inside the row (also when the row is too short: nothing) -/
theorem splitRow_within (avg : Rat) (havg : 0 < avg) (minSize : Int) (r : Row) (hr : r.s ≤ r.e) :
    ∀ x ∈ splitRow avg minSize r, r.s ≤ x.s ∧ x.s ≤ x.e ∧ x.e ≤ r.e := by
  by_cases h : minSize ≤ r.e - r.s
  · exact (splitRow_tiles avg havg minSize r hr h).within
  · rw [splitRow_small avg minSize r (by omega)]
    intro x hx; cases hx

theorem splitRow_pairwise (avg : Rat) (havg : 0 < avg) (minSize : Int) (r : Row) (hr : r.s ≤ r.e) :
    (splitRow avg minSize r).Pairwise (fun x y => x.e ≤ y.s) := by
  by_cases h : minSize ≤ r.e - r.s
  · exact (splitRow_tiles avg havg minSize r hr h).pairwise
  · rw [splitRow_small avg minSize r (by omega)]
    exact List.Pairwise.nil

/-- bins of a canonical list of regions: sorted, non-overlapping -/
theorem flatMap_splitRow_pairwise (avg : Rat) (havg : 0 < avg) (minSize : Int) (M : List Row)
    (hM : Canon M) :
    (M.flatMap (splitRow avg minSize)).Pairwise (fun x y => x.e ≤ y.s) := by
  rw [List.pairwise_flatMap]
  refine ⟨fun m hm => splitRow_pairwise avg havg minSize m (Int.le_of_lt (hM.1 m hm)), ?_⟩
  have hpos : ∀ m ∈ M, m.s ≤ m.e := fun m hm => Int.le_of_lt (hM.1 m hm)
  have hpw := hM.2
  clear hM
  induction M with
  | nil => exact List.Pairwise.nil
  | cons m ms ih =>
    obtain ⟨h1, h2⟩ := List.pairwise_cons.mp hpw
    refine List.pairwise_cons.mpr ⟨?_, ih (fun k hk => hpos k (by simp [hk])) h2⟩
    intro k hk x hx y hy
    have a := splitRow_within avg havg minSize m (hpos m (by simp)) x hx
    have b := splitRow_within avg havg minSize k (hpos k (by simp [hk])) y hy
    have := h1 k hk
    omega

/-- bins of a canonical list of regions cover exactly the regions that are long enough -/
theorem flatMap_splitRow_cov (avg : Rat) (havg : 0 < avg) (minSize : Int) (M : List Row)
    (hM : Canon M) (p : Int) :
    cov (M.flatMap (splitRow avg minSize)) p ↔
      ∃ m ∈ M, minSize ≤ m.e - m.s ∧ m.s ≤ p ∧ p < m.e := by
  constructor
  · rintro ⟨x, hx, h1, h2⟩
    obtain ⟨m, hm, hxm⟩ := List.mem_flatMap.mp hx
    have hr : m.s ≤ m.e := Int.le_of_lt (hM.1 m hm)
    by_cases h : minSize ≤ m.e - m.s
    · have := (splitRow_tiles avg havg minSize m hr h).within x hxm
      exact ⟨m, hm, h, by omega, by omega⟩
    · rw [splitRow_small avg minSize m (by omega)] at hxm
      cases hxm
  · rintro ⟨m, hm, h, h1, h2⟩
    have hr : m.s ≤ m.e := Int.le_of_lt (hM.1 m hm)
    obtain ⟨x, hx, h3, h4⟩ := ((splitRow_tiles avg havg minSize m hr h).cov p).mpr ⟨h1, h2⟩
    exact ⟨x, List.mem_flatMap.mpr ⟨m, hm, hx⟩, h3, h4⟩

/-! ### a stretch of covered bases lies in one region of a canonical list -/

theorem canon_sep (M : List Row) (hM : Canon M) :
    ∀ m ∈ M, ∀ k ∈ M, m = k ∨ m.e < k.s ∨ k.e < m.s := by
  induction M with
  | nil => intro m hm; cases hm
  | cons x xs ih =>
    have h1 := (List.pairwise_cons.mp hM.2).1
    intro m hm k hk
    rcases List.mem_cons.mp hm with hm' | hm' <;> rcases List.mem_cons.mp hk with hk' | hk'
    · left; rw [hm', hk']
    · right; left; rw [hm']; exact h1 k hk'
    · right; right; rw [hk']; exact h1 m hm'
    · exact ih hM.tail m hm' k hk'

theorem interval_in_canon (M : List Row) (hM : Canon M) (u v : Int) (huv : u < v)
    (h : ∀ p, u ≤ p → p < v → cov M p) : ∃ m ∈ M, m.s ≤ u ∧ v ≤ m.e := by
  obtain ⟨m, hm, h1, h2⟩ := h u (Int.le_refl u) huv
  refine ⟨m, hm, h1, ?_⟩
  apply Classical.byContradiction
  intro hn
  obtain ⟨k, hk, h3, h4⟩ := h m.e (by omega) (by omega)
  have hmp := hM.1 m hm
  rcases canon_sep M hM m hm k hk with rfl | h5 | h5 <;> omega

/-! ### `do_target --split` on one chromosome -/

theorem nonempty_baits_pos (baits : List Row) (hb : ∀ r ∈ baits, r.s ≤ r.e) :
    ∀ r ∈ baits.filter (fun r => r.s != r.e), r.s < r.e := by
  intro r hr
  obtain ⟨h1, h2⟩ := List.mem_filter.mp hr
  have := hb r h1
  have hne : r.s ≠ r.e := by simpa using h2
  omega

theorem targetChrom_cov (avg : Rat) (havg : 0 < avg) (hmin : Generated.TARGET_SPLIT_MIN = 0)
    (baits : List Row) (hb : ∀ r ∈ baits, r.s ≤ r.e) (p : Int) :
    cov (targetChrom avg baits) p ↔ cov (baits.filter (fun r => r.s != r.e)) p := by
  have hc := mergeSorted_canon _ (nonempty_baits_pos baits hb)
  unfold targetChrom
  rw [flatMap_splitRow_cov avg havg _ _ hc p, hmin, ← mergeSorted_cov]
  constructor
  · rintro ⟨m, hm, _, h1, h2⟩
    exact ⟨m, hm, h1, h2⟩
  · rintro ⟨m, hm, h1, h2⟩
    exact ⟨m, hm, by omega, h1, h2⟩

theorem targetChrom_pairwise (avg : Rat) (havg : 0 < avg) (baits : List Row)
    (hb : ∀ r ∈ baits, r.s ≤ r.e) :
    (targetChrom avg baits).Pairwise (fun x y => x.e ≤ y.s) := by
  unfold targetChrom
  exact flatMap_splitRow_pairwise avg havg _ _ (mergeSorted_canon _ (nonempty_baits_pos baits hb))

theorem flatMap_congr_on {α β} (l : List α) (f g : α → List β) (h : ∀ a ∈ l, f a = g a) :
    l.flatMap f = l.flatMap g := by
  induction l with
  | nil => rfl
  | cons a t ih =>
    rw [List.flatMap_cons, List.flatMap_cons, h a (by simp), ih (fun b hb => h b (by simp [hb]))]

theorem targetChrom_closed (avg : Rat) (havg : 0 < avg) (hmin : Generated.TARGET_SPLIT_MIN = 0)
    (baits : List Row) (hb : ∀ r ∈ baits, r.s ≤ r.e) :
    targetChrom avg baits =
      (mergeSorted (baits.filter (fun r => r.s != r.e))).flatMap fun m =>
        if nbinsOf avg m = 1 then [m] else splitInto m (nbinsOf avg m) := by
  have hc := mergeSorted_canon _ (nonempty_baits_pos baits hb)
  unfold targetChrom
  apply flatMap_congr_on
  intro m hm
  have hpos := hc.1 m hm
  exact splitRow_closed avg havg _ m (by omega) (by rw [hmin]; omega)

/-! ### labels -/

theorem shortenGo_length (cur : List String) (cnt : Nat) (labels : List String) :
    (shortenGo cur cnt labels).length = cnt + labels.length := by
  induction labels generalizing cur cnt with
  | nil => simp [shortenGo]
  | cons l rest ih =>
    unfold shortenGo
    simp only
    split
    · rw [ih, List.length_cons]; omega
    · rw [List.length_append, List.length_replicate, ih, List.length_cons]; omega

theorem shortenLabels_length (labels : List String) :
    (shortenLabels labels).length = labels.length := by
  unfold shortenLabels
  rw [shortenGo_length]; omega

def coordsOfRows (t : Table) : List (String × Int × Int) := t.map (fun r => (r.chrom, r.s, r.e))

theorem coords_zip (t : Table) (genes : List String) (h : genes.length = t.length) :
    coordsOfRows ((t.zip genes).map (fun p => { p.1 with gene := p.2 })) = coordsOfRows t := by
  induction t generalizing genes with
  | nil => rfl
  | cons r rs ih =>
    cases genes with
    | nil => simp at h
    | cons g gs =>
      have h' : gs.length = rs.length := by simpa using h
      have := ih gs h'
      simp only [coordsOfRows, List.zip_cons_cons, List.map_cons] at this ⊢
      rw [this]

theorem setGenes_ok (t : Table) (genes : List String) (h : genes.length = t.length) :
    ∃ t', setGenes t genes = .ok t' ∧ coordsOfRows t' = coordsOfRows t := by
  refine ⟨(t.zip genes).map (fun p => { p.1 with gene := p.2 }), ?_, coords_zip t genes h⟩
  unfold setGenes
  rw [if_pos (by simp [h])]
  rfl

theorem setGenes_coords (t t' : Table) (genes : List String) (h : setGenes t genes = .ok t') :
    coordsOfRows t' = coordsOfRows t := by
  unfold setGenes at h
  split at h
  · rename_i hl
    have hl' : genes.length = t.length := by simpa using hl
    have : t' = (t.zip genes).map (fun p => { p.1 with gene := p.2 }) := by
      cases h; rfl
    rw [this]
    exact coords_zip t genes hl'
  · cases h

theorem short_len (t1 : Table) :
    ((shortenLabels (t1.map (·.gene))).map (fun c => c.headD "")).length = t1.length := by
  rw [List.length_map, shortenLabels_length, List.length_map]

/-- the two stages of `doTarget` -/
def annotStage (t0 : Table) (annot : Option Table) : Except String Table :=
  match annot with
  | none => pure t0
  | some a =>
    if chromNamesClash t0 a then throw "ValueError"
    else setGenes t0 (intoRangesStr (sortTable a) t0 "-")

def shortStage (short : Bool) (t1 : Table) : Except String (Table × Option (List (List String))) :=
  if short then do
    let cands := shortenLabels (t1.map (·.gene))
    let t2 ← setGenes t1 (cands.map (fun c => c.headD ""))
    pure (t2, some cands)
  else pure (t1, none)

theorem doTarget_stages (baits : Table) (annot : Option Table) (short split : Bool) (avg : Rat) :
    doTarget baits annot short split avg =
      (annotStage (doTargetCore baits split avg) annot >>= shortStage short) := by
  unfold doTarget annotStage shortStage
  cases annot with
  | none => cases short <;> rfl
  | some a =>
    dsimp only
    cases hc : chromNamesClash (doTargetCore baits split avg) a <;> cases short <;> rfl

theorem annotStage_coords (t0 t1 : Table) (annot : Option Table) (h : annotStage t0 annot = .ok t1) :
    coordsOfRows t1 = coordsOfRows t0 := by
  unfold annotStage at h
  split at h
  · cases h; rfl
  · split at h
    · cases h
    · exact setGenes_coords _ _ _ h

theorem shortStage_coords (short : Bool) (t1 rows : Table) (c : Option (List (List String)))
    (h : shortStage short t1 = .ok (rows, c)) : coordsOfRows rows = coordsOfRows t1 := by
  unfold shortStage at h
  split at h
  · obtain ⟨t2, h2, _⟩ := setGenes_ok t1 _ (short_len t1)
    dsimp only at h
    rw [h2] at h
    have hc := setGenes_coords _ _ _ h2
    cases h
    exact hc
  · cases h; rfl

/-- relabelling never changes the number or the coordinates of the bins -/
theorem doTarget_coords (baits : Table) (annot : Option Table) (short split : Bool) (avg : Rat)
    (rows : Table) (c : Option (List (List String)))
    (h : doTarget baits annot short split avg = .ok (rows, c)) :
    coordsOfRows rows = coordsOfRows (doTargetCore baits split avg) := by
  rw [doTarget_stages] at h
  cases h1 : annotStage (doTargetCore baits split avg) annot with
  | error e => rw [h1] at h; cases h
  | ok t1 =>
    rw [h1] at h
    rw [shortStage_coords short t1 rows c h, annotStage_coords _ _ _ h1]

/-- label shortening and annotation never fail for want of a label: the only refusal is an
    annotation file that shares no chromosome name with the baits -/
theorem doTarget_ok (baits : Table) (annot : Option Table) (short split : Bool) (avg : Rat)
    (h : ∀ a, annot = some a → chromNamesClash (doTargetCore baits split avg) a = false) :
    ∃ rows c, doTarget baits annot short split avg = .ok (rows, c) := by
  rw [doTarget_stages]
  have h1 : ∃ t1, annotStage (doTargetCore baits split avg) annot = .ok t1 := by
    unfold annotStage
    cases annot with
    | none => exact ⟨_, rfl⟩
    | some a =>
      simp only
      rw [h a rfl]
      obtain ⟨t', ht, _⟩ := setGenes_ok (doTargetCore baits split avg)
        (intoRangesStr (sortTable a) (doTargetCore baits split avg) "-") (intoRanges_length _ _ _)
      exact ⟨t', by simpa using ht⟩
  obtain ⟨t1, ht1⟩ := h1
  rw [ht1]
  show ∃ rows c, shortStage short t1 = .ok (rows, c)
  unfold shortStage
  cases short with
  | false => exact ⟨_, _, rfl⟩
  | true =>
    obtain ⟨t2, h2, _⟩ := setGenes_ok t1 _ (short_len t1)
    simp only [if_true]
    rw [h2]
    exact ⟨_, _, rfl⟩

/-- sorting a list that is already in (start, end) order changes nothing (used to evaluate examples:
    the kernel does not unfold `List.mergeSort`) -/
theorem sortSE_of_sorted (l : List Row) (h : l.Pairwise (fun a b => seLe a b = true)) : sortSE l = l :=
  List.mergeSort_of_pairwise h

end CnvVerif
