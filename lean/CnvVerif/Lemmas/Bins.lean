/-
  Lemmas behind Props/C12.lean (first part): sorting before merge, bins that tile a region,
  the bins of `do_target --split` on one chromosome, label assignment.
-/
import CnvVerif.Model.Bins
import CnvVerif.Lemmas.Interval
import CnvVerif.Lemmas.Interval2
import CnvVerif.Lemmas.Ranges
namespace CnvVerif

/-! ### `sortSE` / `mergeSorted` -/

theorem mem_sortSE (l : List Row) (r : Row) : r ∈ sortSE l ↔ r ∈ l := by
  sorry

theorem sortSE_sorted (l : List Row) : StartSorted (sortSE l) := by
  sorry

theorem cov_sortSE (l : List Row) (p : Int) : cov (sortSE l) p ↔ cov l p := by
  sorry

theorem mergeSorted_cov (l : List Row) (p : Int) : cov (mergeSorted l) p ↔ cov l p := by
  sorry

theorem mergeSorted_canon (l : List Row) (hp : ∀ r ∈ l, r.s < r.e) : Canon (mergeSorted l) := by
  sorry

/-! ### tilings -/

/-- `bins` are consecutive, each of non-negative length, from `a` to `b` -/
def Tiles : List Row → Int → Int → Prop
  | [], a, b => a = b
  | x :: xs, a, b => x.s = a ∧ x.s ≤ x.e ∧ Tiles xs x.e b

theorem Tiles.le {bins : List Row} {a b : Int} (h : Tiles bins a b) : a ≤ b := by
  sorry

theorem Tiles.cov {bins : List Row} {a b : Int} (h : Tiles bins a b) (p : Int) :
    cov bins p ↔ a ≤ p ∧ p < b := by
  sorry

theorem Tiles.within {bins : List Row} {a b : Int} (h : Tiles bins a b) :
    ∀ x ∈ bins, a ≤ x.s ∧ x.s ≤ x.e ∧ x.e ≤ b := by
  sorry

theorem Tiles.pairwise {bins : List Row} {a b : Int} (h : Tiles bins a b) :
    bins.Pairwise (fun x y => x.e ≤ y.s) := by
  sorry

/-- the `n ≥ 1` bins of `splitInto` tile the row -/
theorem splitInto_tiles (r : Row) (n : Nat) (hn : 1 ≤ n) (hr : r.s ≤ r.e) :
    Tiles (splitInto r n) r.s r.e := by
  sorry

/-- every bin of `splitInto` has `⌊span/n⌋` or `⌊span/n⌋ + 1` bases -/
theorem splitInto_sizes (r : Row) (n : Nat) (hn : 1 ≤ n) :
    ∀ x ∈ splitInto r n, (r.e - r.s) / (n : Int) ≤ x.e - x.s ∧ x.e - x.s ≤ (r.e - r.s) / (n : Int) + 1 := by
  sorry

theorem splitInto_fields (r : Row) (n : Nat) :
    ∀ x ∈ splitInto r n, x.chrom = r.chrom ∧ x.gene = r.gene := by
  sorry

/-- the bin count `_split_targets` uses -/
def nbinsOf (avg : Rat) (r : Row) : Nat :=
  (max 1 (roundHalfEven (((r.e - r.s : Int) : Rat) / avg))).toNat

theorem nbinsOf_pos (avg : Rat) (r : Row) : 1 ≤ nbinsOf avg r := by
  sorry

/-- `splitRow` of a region that is long enough, in closed form (no sign hypothesis: a negative
    rounded quotient cannot occur for `0 < avg`, `start ≤ end`) -/
theorem splitRow_closed (avg : Rat) (havg : 0 < avg) (minSize : Int) (r : Row) (hr : r.s ≤ r.e)
    (h : minSize ≤ r.e - r.s) :
    splitRow avg minSize r = if nbinsOf avg r = 1 then [r] else splitInto r (nbinsOf avg r) := by
  sorry

theorem splitRow_tiles (avg : Rat) (havg : 0 < avg) (minSize : Int) (r : Row) (hr : r.s ≤ r.e)
    (h : minSize ≤ r.e - r.s) : Tiles (splitRow avg minSize r) r.s r.e := by
  sorry

/-- whatever `splitRow` returns lies inside the row (also when the row is too short: nothing) -/
theorem splitRow_within (avg : Rat) (havg : 0 < avg) (minSize : Int) (r : Row) (hr : r.s ≤ r.e) :
    ∀ x ∈ splitRow avg minSize r, r.s ≤ x.s ∧ x.s ≤ x.e ∧ x.e ≤ r.e := by
  sorry

theorem splitRow_pairwise (avg : Rat) (havg : 0 < avg) (minSize : Int) (r : Row) (hr : r.s ≤ r.e) :
    (splitRow avg minSize r).Pairwise (fun x y => x.e ≤ y.s) := by
  sorry

/-- bins of a canonical list of regions: sorted, non-overlapping -/
theorem flatMap_splitRow_pairwise (avg : Rat) (havg : 0 < avg) (minSize : Int) (M : List Row)
    (hM : Canon M) :
    (M.flatMap (splitRow avg minSize)).Pairwise (fun x y => x.e ≤ y.s) := by
  sorry

/-- bins of a canonical list of regions cover exactly the regions that are long enough -/
theorem flatMap_splitRow_cov (avg : Rat) (havg : 0 < avg) (minSize : Int) (M : List Row)
    (hM : Canon M) (p : Int) :
    cov (M.flatMap (splitRow avg minSize)) p ↔
      ∃ m ∈ M, minSize ≤ m.e - m.s ∧ m.s ≤ p ∧ p < m.e := by
  sorry

/-! ### a stretch of covered bases lies in one region of a canonical list -/

theorem interval_in_canon (M : List Row) (hM : Canon M) (u v : Int) (huv : u < v)
    (h : ∀ p, u ≤ p → p < v → cov M p) : ∃ m ∈ M, m.s ≤ u ∧ v ≤ m.e := by
  sorry

/-! ### `do_target --split` on one chromosome -/

theorem nonempty_baits_pos (baits : List Row) (hb : ∀ r ∈ baits, r.s ≤ r.e) :
    ∀ r ∈ baits.filter (fun r => r.s != r.e), r.s < r.e := by
  sorry

theorem targetChrom_cov (avg : Rat) (havg : 0 < avg) (hmin : Generated.TARGET_SPLIT_MIN = 0)
    (baits : List Row) (hb : ∀ r ∈ baits, r.s ≤ r.e) (p : Int) :
    cov (targetChrom avg baits) p ↔ cov (baits.filter (fun r => r.s != r.e)) p := by
  sorry

theorem targetChrom_pairwise (avg : Rat) (havg : 0 < avg) (baits : List Row)
    (hb : ∀ r ∈ baits, r.s ≤ r.e) :
    (targetChrom avg baits).Pairwise (fun x y => x.e ≤ y.s) := by
  sorry

theorem targetChrom_closed (avg : Rat) (havg : 0 < avg) (hmin : Generated.TARGET_SPLIT_MIN = 0)
    (baits : List Row) (hb : ∀ r ∈ baits, r.s ≤ r.e) :
    targetChrom avg baits =
      (mergeSorted (baits.filter (fun r => r.s != r.e))).flatMap fun m =>
        if nbinsOf avg m = 1 then [m] else splitInto m (nbinsOf avg m) := by
  sorry

/-! ### labels -/

theorem shortenGo_length (cur : List String) (cnt : Nat) (labels : List String) :
    (shortenGo cur cnt labels).length = cnt + labels.length := by
  sorry

theorem shortenLabels_length (labels : List String) :
    (shortenLabels labels).length = labels.length := by
  sorry

def coordsOfRows (t : Table) : List (String × Int × Int) := t.map (fun r => (r.chrom, r.s, r.e))

theorem setGenes_ok (t : Table) (genes : List String) (h : genes.length = t.length) :
    ∃ t', setGenes t genes = .ok t' ∧ coordsOfRows t' = coordsOfRows t := by
  sorry

theorem setGenes_coords (t t' : Table) (genes : List String) (h : setGenes t genes = .ok t') :
    coordsOfRows t' = coordsOfRows t := by
  sorry

/-- relabelling never changes the number or the coordinates of the bins -/
theorem doTarget_coords (baits : Table) (annot : Option Table) (short split : Bool) (avg : Rat)
    (rows : Table) (c : Option (List (List String)))
    (h : doTarget baits annot short split avg = .ok (rows, c)) :
    coordsOfRows rows = coordsOfRows (doTargetCore baits split avg) := by
  sorry

/-- label shortening and annotation never fail for want of a label: the only refusal is an
    annotation file that shares no chromosome name with the baits -/
theorem doTarget_ok (baits : Table) (annot : Option Table) (short split : Bool) (avg : Rat)
    (h : ∀ a, annot = some a → chromNamesClash (doTargetCore baits split avg) a = false) :
    ∃ rows c, doTarget baits annot short split avg = .ok (rows, c) := by
  sorry

end CnvVerif
