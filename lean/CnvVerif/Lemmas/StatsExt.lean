/-
  Lemmas behind Props/C17Ext.lean: every spread statistic of `do_segmetrics` is non-negative (stated on the
  radicand where the statistic is a square root), the deviations -- hence all spread statistics -- are unchanged
  when the bins and the segment value move together, and the location-free ones (stdev, sem, MAD, IQR) do not
  depend on the subtracted segment value at all.
-/
import CnvVerif.Model.Stats
import CnvVerif.Lemmas.Stats
import CnvVerif.Lemmas.StatsPct
import Mathlib.Tactic.Linarith
import Mathlib.Tactic.Ring
import Mathlib.Tactic.Positivity
import Mathlib.Tactic.NormNum
import Mathlib.Algebra.Order.BigOperators.Group.List
namespace CnvVerif.Stats

/-- the statistic's value is not negative (`√v`: the radicand; NaN and tail probabilities: nothing to say) -/
def Val.NonNeg : Val → Prop
  | .nan => True
  | .num v => 0 ≤ v
  | .sqrtOf v => 0 ≤ v
  | .tTail _ _ => True

theorem rabs_nonneg (q : Rat) : 0 ≤ rabs q := by
  unfold rabs; split <;> linarith

theorem sum_sq_nonneg (l : List Rat) (f : Rat → Rat) : 0 ≤ (l.map (fun x => f x * f x)).sum := by
  apply List.sum_nonneg
  intro x hx
  obtain ⟨y, _, rfl⟩ := List.mem_map.mp hx
  exact mul_self_nonneg _

theorem sumSqDev_nonneg (l : List Rat) : 0 ≤ sumSqDev l := sum_sq_nonneg l (fun x => x - meanR l)

theorem varP_nonneg (l : List Rat) : 0 ≤ varP l :=
  div_nonneg (sumSqDev_nonneg l) (by positivity)

theorem meanSq_nonneg (l : List Rat) : 0 ≤ meanSq l := by
  unfold meanSq meanR
  exact div_nonneg (sum_sq_nonneg l id) (by positivity)

theorem var1_nonneg (l : List Rat) (h : 2 ≤ l.length) : 0 ≤ var1 l := by
  unfold var1
  apply div_nonneg (sumSqDev_nonneg l)
  have : (2 : Rat) ≤ (l.length : Rat) := by exact_mod_cast h
  linarith

/-- the median of non-negative numbers is non-negative (also for the empty list, where the model's is 0) -/
theorem median_nonneg (l : List Rat) (h : ∀ x ∈ l, 0 ≤ x) : 0 ≤ median l := by
  by_cases hne : l = []
  · subst hne; decide +kernel
  · have hs : sortR l ≠ [] := by
      intro h0
      have := (sortR_perm l).length_eq
      rw [h0] at this
      exact hne (List.length_eq_zero_iff.mp this.symm)
    unfold median
    rw [medianSorted_eq_percentile _ hs]
    have hb : ∀ x ∈ sortR l, (0 : Rat) ≤ x ∧ x ≤ (sortR l).sum := by
      intro x hx
      have h0 : ∀ y ∈ sortR l, 0 ≤ y := fun y hy => h y ((sortR_perm l).mem_iff.mp hy)
      exact ⟨h0 x hx, List.single_le_sum h0 x hx⟩
    exact (percentileSorted_bounds (sortR l) hs 50 (by norm_num) (by norm_num) 0 _ hb).1

theorem madBody_nonneg (a : List Rat) : 0 ≤ madBody a := by
  unfold madBody
  apply mul_nonneg
  · apply median_nonneg
    intro x hx
    obtain ⟨y, _, rfl⟩ := List.mem_map.mp hx
    exact rabs_nonneg _
  · decide +kernel

theorem iqrBody_nonneg (a : List Rat) : 0 ≤ iqrBody a := by
  unfold iqrBody percentile
  have e0 : Generated.IQR_PERCENTILES.getD 0 0 = 75 := by decide +kernel
  have e1 : Generated.IQR_PERCENTILES.getD 1 0 = 25 := by decide +kernel
  rw [e0, e1]
  have := percentileSorted_mono (sortR a) (sortR_sorted a) 25 75 (by norm_num) (by norm_num) (by norm_num)
  linarith

theorem onArray_nonneg (f : List Rat → StatOut) (hf : ∀ a, (f a).val.NonNeg) (a : List Rat) :
    (onArray (some 0) f a).val.NonNeg := by
  match a with
  | [] => trivial
  | [x] => exact le_refl (0 : Rat)
  | x :: y :: t => exact hf _

theorem statStdev_nonneg (a : List Rat) : (statStdev a).val.NonNeg := by
  unfold statStdev; split
  · trivial
  · exact varP_nonneg a

theorem statSem_nonneg (a : List Rat) : (statSem a).val.NonNeg := by
  unfold statSem; split
  · trivial
  · rename_i h
    exact div_nonneg (var1_nonneg a (by omega)) (by positivity)

theorem statMad_nonneg (a : List Rat) : (statMad a).val.NonNeg :=
  onArray_nonneg (fun a => { val := .num (madBody a) }) (fun a => madBody_nonneg a) a

theorem statMse_nonneg (a : List Rat) : (statMse a).val.NonNeg :=
  onArray_nonneg (fun a => { val := .num (mseBody a) }) (fun a => meanSq_nonneg a) a

theorem statIqr_nonneg (a : List Rat) : (statIqr a).val.NonNeg :=
  onArray_nonneg (fun a => { val := .num (iqrBody a) }) (fun a => iqrBody_nonneg a) a

theorem sum_nonneg_map {α} (l : List α) (f : α → Rat) (h : ∀ x ∈ l, 0 ≤ f x) : 0 ≤ (l.map f).sum := by
  apply List.sum_nonneg
  intro x hx
  obtain ⟨y, hy, rfl⟩ := List.mem_map.mp hx
  exact h y hy

theorem bivarBody_nonneg (a : List Rat) : (bivarBody a).val.NonNeg := by
  unfold bivarBody
  generalize bilocBody a = p
  obtain ⟨initial, s0⟩ := p
  have hmad : 0 ≤ median ((a.map (· - initial)).map rabs) * Generated.BIVAR_MAD_SCALE := by
    apply mul_nonneg
    · apply median_nonneg
      intro x hx
      obtain ⟨y, _, rfl⟩ := List.mem_map.mp hx
      exact rabs_nonneg _
    · decide +kernel
  simp only []
  split_ifs <;> simp only [Val.NonNeg] <;> first
    | exact hmad
    | (apply div_nonneg
       · apply mul_nonneg (by positivity)
         apply sum_nonneg_map
         intro x _
         exact mul_nonneg (mul_self_nonneg _) (by nlinarith [mul_self_nonneg ((1 - x.2 * x.2) * (1 - x.2 * x.2))])
       · exact mul_self_nonneg _)

theorem statBivar_nonneg (a : List Rat) : (statBivar a).val.NonNeg :=
  onArray_nonneg bivarBody bivarBody_nonneg a

/-! ### moving the bins and the segment value together; moving the segment value alone -/

/-- the deviations do not change when every bin and the segment value move by the same amount -/
theorem deviations_common_shift (l : List Rat) (sg c : Rat) :
    (l.map (· + c)).map (· - (sg + c)) = l.map (· - sg) := by
  rw [List.map_map]
  apply List.map_congr_left
  intro x _
  simp only [Function.comp]
  ring

theorem sum_map_sub (l : List Rat) (c : Rat) : (l.map (· - c)).sum = l.sum - (l.length : Rat) * c := by
  induction l with
  | nil => simp
  | cons a t ih => simp only [List.map_cons, List.sum_cons, List.length_cons, ih]; push_cast; ring

theorem meanR_shift (l : List Rat) (hne : l ≠ []) (c : Rat) : meanR (l.map (· - c)) = meanR l - c := by
  unfold meanR
  rw [sum_map_sub, List.length_map]
  have : (l.length : Rat) ≠ 0 := by
    have := List.length_pos_iff.mpr hne
    positivity
  field_simp

theorem sumSqDev_shift (l : List Rat) (c : Rat) : sumSqDev (l.map (· - c)) = sumSqDev l := by
  by_cases hne : l = []
  · subst hne; rfl
  · unfold sumSqDev
    simp only []
    rw [meanR_shift l hne, List.map_map]
    congr 1
    apply List.map_congr_left
    intro x _
    simp only [Function.comp]
    ring

theorem varP_shift (l : List Rat) (c : Rat) : varP (l.map (· - c)) = varP l := by
  unfold varP; rw [sumSqDev_shift, List.length_map]

theorem var1_shift (l : List Rat) (c : Rat) : var1 (l.map (· - c)) = var1 l := by
  unfold var1; rw [sumSqDev_shift, List.length_map]

theorem statStdev_shift (l : List Rat) (c : Rat) : statStdev (l.map (· - c)) = statStdev l := by
  unfold statStdev; rw [varP_shift]; simp

theorem statSem_shift (l : List Rat) (c : Rat) : statSem (l.map (· - c)) = statSem l := by
  unfold statSem; rw [var1_shift, List.length_map]

theorem sortR_shift (l : List Rat) (c : Rat) : sortR (l.map (· - c)) = (sortR l).map (· - c) := by
  unfold sortR
  symm
  apply List.map_mergeSort
  intro a _ b _
  simp

theorem percentileSorted_shift (s : List Rat) (hne : s ≠ []) (q : Rat) (h0 : 0 ≤ q) (h1 : q ≤ 100) (c : Rat) :
    percentileSorted (s.map (· - c)) q = percentileSorted s q - c := by
  have hpos : 0 < s.length := List.length_pos_iff.mpr hne
  obtain ⟨r0, r1⟩ := vi_range s.length hpos q h0 h1
  unfold percentileSorted
  simp only [List.length_map]
  generalize q / 100 * ((s.length : Rat) - 1) = vi at *
  have hlo := floorNat_le_of_le vi _ r0 r1
  have hi1 : vi.floor.toNat < s.length := by omega
  have hi2 : min (vi.floor.toNat + 1) (s.length - 1) < s.length := by omega
  have m1 : vi.floor.toNat < (s.map (· - c)).length := by simpa using hi1
  have m2 : min (vi.floor.toNat + 1) (s.length - 1) < (s.map (· - c)).length := by simpa using hi2
  rw [getD_of_lt _ _ hi1, getD_of_lt _ _ hi2, getD_of_lt _ _ m1, getD_of_lt _ _ m2]
  simp only [List.getElem_map]
  ring

theorem percentile_shift (l : List Rat) (hne : l ≠ []) (q : Rat) (h0 : 0 ≤ q) (h1 : q ≤ 100) (c : Rat) :
    percentile (l.map (· - c)) q = percentile l q - c := by
  unfold percentile
  rw [sortR_shift]
  apply percentileSorted_shift _ _ q h0 h1
  intro h
  have := (sortR_perm l).length_eq
  rw [h] at this
  exact hne (List.length_eq_zero_iff.mp this.symm)

theorem median_shift (l : List Rat) (hne : l ≠ []) (c : Rat) : median (l.map (· - c)) = median l - c := by
  have hs : sortR l ≠ [] := by
    intro h
    have := (sortR_perm l).length_eq
    rw [h] at this
    exact hne (List.length_eq_zero_iff.mp this.symm)
  unfold median
  rw [sortR_shift, medianSorted_eq_percentile _ hs, medianSorted_eq_percentile _ (by simpa using hs)]
  exact percentileSorted_shift _ hs 50 (by norm_num) (by norm_num) c

theorem madBody_shift (l : List Rat) (hne : l ≠ []) (c : Rat) : madBody (l.map (· - c)) = madBody l := by
  unfold madBody
  simp only []
  rw [median_shift l hne, List.map_map]
  congr 2
  apply List.map_congr_left
  intro x _
  simp only [Function.comp]
  congr 1
  ring

theorem iqrBody_shift (l : List Rat) (hne : l ≠ []) (c : Rat) : iqrBody (l.map (· - c)) = iqrBody l := by
  unfold iqrBody
  have e0 : Generated.IQR_PERCENTILES.getD 0 0 = 75 := by decide +kernel
  have e1 : Generated.IQR_PERCENTILES.getD 1 0 = 25 := by decide +kernel
  rw [e0, e1, percentile_shift l hne 75 (by norm_num) (by norm_num), percentile_shift l hne 25 (by norm_num) (by norm_num)]
  ring

theorem statMad_shift (l : List Rat) (c : Rat) : statMad (l.map (· - c)) = statMad l := by
  match l with
  | [] => rfl
  | [x] => rfl
  | x :: y :: t =>
    show ({ val := .num (madBody ((x :: y :: t).map (· - c))) } : StatOut) = { val := .num (madBody (x :: y :: t)) }
    rw [madBody_shift _ (by simp)]

theorem statIqr_shift (l : List Rat) (c : Rat) : statIqr (l.map (· - c)) = statIqr l := by
  match l with
  | [] => rfl
  | [x] => rfl
  | x :: y :: t =>
    show ({ val := .num (iqrBody ((x :: y :: t).map (· - c))) } : StatOut) = { val := .num (iqrBody (x :: y :: t)) }
    rw [iqrBody_shift _ (by simp)]

end CnvVerif.Stats
