/-
  The gather glue of `do_segmentation` (Model/TileGatherExt5.lean): the result does not depend on the number of
  processes nor on the schedule.  Uses the ordered-gather theorems of Lemmas/CoverageSched.lean.
-/
import CnvVerif.Model.TileGatherExt5
import CnvVerif.Lemmas.CoverageSched
namespace CnvVerif.C03Gather
open CnvVerif CnvVerif.Cov.Sched

theorem gatherArms_ordered (worker : List Bin → List SegO) (arms : List (List Bin)) (nw : Nat) (evs : List Ev)
    (ys : List SegO) (h : gatherArms "ordered" worker arms nw evs = some ys) : ys = arms.flatMap worker := by
  unfold gatherArms at h
  cases hs : schedMap "ordered" worker arms nw evs with
  | none => rw [hs] at h; simp at h
  | some zs =>
    rw [hs] at h
    have hz := schedMap_ordered worker arms nw evs zs hs
    simp only [Option.map_some, Option.some.injEq] at h
    rw [← h, hz, List.flatMap_def]

theorem doSegmentation_value (method : String) (worker : List Bin → List SegO) (table : List Bin) (nw : Nat)
    (evs : List Ev) (ys : List SegO) (h : doSegmentation method "ordered" worker table nw evs = some ys) :
    ys = if wholeTable method then worker table else (byArm table).flatMap worker := by
  unfold doSegmentation at h
  by_cases hw : wholeTable method = true
  · rw [if_pos hw] at h ⊢
    exact (Option.some.inj h).symm
  · rw [if_neg hw] at h ⊢
    exact gatherArms_ordered worker _ nw evs ys h

theorem doSegmentation_completable (method : String) (worker : List Bin → List SegO) (table : List Bin) (nw : Nat)
    (hnw : 0 < nw) (evs : List Ev) :
    ∃ more ys, doSegmentation method "ordered" worker table nw (evs ++ more) = some ys := by
  unfold doSegmentation
  by_cases hw : wholeTable method = true
  · exact ⟨[], worker table, by rw [if_pos hw]⟩
  · obtain ⟨more, hm⟩ := schedMap_completable worker (byArm table) nw hnw evs
    exact ⟨more, ((byArm table).map worker).flatten, by rw [if_neg hw]; unfold gatherArms; rw [hm]; rfl⟩

end CnvVerif.C03Gather
