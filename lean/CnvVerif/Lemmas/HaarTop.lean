/-
  Lemmas behind Props/C11.lean, part 5: the level loop of `haarSeg` on a noise-free step and on a constant
  signal (composition of parts 1-4).
-/
import CnvVerif.Lemmas.Haar
import CnvVerif.Lemmas.HaarPeaks
import CnvVerif.Lemmas.HaarUnify
import CnvVerif.Lemmas.HaarSegs
set_option linter.unusedSimpArgs false
set_option linter.unusedVariables false
namespace CnvVerif.Haar

theorem absQ_nonneg (x : Rat) : 0 ≤ absQ x := by
  unfold absQ
  split
  · linarith
  · linarith

/-- `FDRThres` with fewer than two peaks returns 0 (`if M < 2: return 0`) -/
theorem fdrThres_small (rnd : Rat → Rat) (x : List Rat) (q : Rat) (p : List Rat) (h : x.length < 2) :
    fdrThres rnd x q p = 0 := by
  unfold fdrThres
  simp [Generated.HAAR_FDR_MIN_M, Generated.HAAR_FDR_SMALL_T, h]

/-- a level whose convolution has the single peak `b` hands `[b]` to `UnifyLevels` -/
theorem levelStep_single (thr : List Rat → Rat) (hthr : ∀ x, x.length < 2 → thr x = 0)
    (conv : List Rat) (w : Nat) (bp : List Nat) (b : Nat) (hp : findLocalPeaks conv = [b]) :
    levelStep thr conv w bp = unifyLevels bp [b] w := by
  unfold levelStep
  simp only [hp, List.map_cons, List.map_nil]
  rw [hthr _ (by simp)]
  simp [absQ_nonneg]

/-- a level whose convolution has no peak leaves the breakpoints alone -/
theorem levelStep_none (thr : List Rat → Rat) (conv : List Rat) (w : Nat) (bp : List Nat)
    (hp : findLocalPeaks conv = []) : levelStep thr conv w bp = bp := by
  unfold levelStep
  simp [hp, unifyLevels_nil_addon]

theorem foldl_levels_single (conv : Nat → Nat → List Rat) (thr : Nat → List Rat → Rat) (b : Nat)
    (hthr : ∀ lv x, x.length < 2 → thr lv x = 0) :
    ∀ (table : List (Nat × Nat × Nat)) (bp : List Nat),
      (∀ row ∈ table, findLocalPeaks (conv row.1 row.2.1) = [b]) →
      (bp = [b] ∨ (bp = [] ∧ table ≠ [])) →
      table.foldl (fun bp row => levelStep (thr row.1) (conv row.1 row.2.1) row.2.2 bp) bp = [b] := by
  intro table
  induction table with
  | nil =>
    intro bp _ h
    rcases h with h | ⟨_, h⟩
    · simpa using h
    · exact absurd rfl h
  | cons row rest ih =>
    intro bp hpk h
    simp only [List.foldl_cons]
    have hrow := hpk row (by simp)
    rw [levelStep_single (thr row.1) (hthr row.1) _ _ _ b hrow]
    apply ih
    · intro r hr
      exact hpk r (by simp [hr])
    · left
      rcases h with h | ⟨h, _⟩
      · rw [h]; exact unifyLevels_same b _
      · rw [h]; exact unifyLevels_nil_base b _

/-- if every level's convolution has its single peak at `b`, the level loop ends with the one breakpoint `b` -/
theorem haarBreaks_single (conv : Nat → Nat → List Rat) (thr : Nat → List Rat → Rat)
    (table : List (Nat × Nat × Nat)) (b : Nat)
    (hthr : ∀ lv x, x.length < 2 → thr lv x = 0)
    (hpk : ∀ row ∈ table, findLocalPeaks (conv row.1 row.2.1) = [b]) (hne : table ≠ []) :
    haarBreaks conv thr table = [b] := by
  unfold haarBreaks
  exact foldl_levels_single conv thr b hthr table [] hpk (Or.inr ⟨rfl, hne⟩)

/-- if no level's convolution has a peak, there is no breakpoint -/
theorem haarBreaks_none (conv : Nat → Nat → List Rat) (thr : Nat → List Rat → Rat)
    (table : List (Nat × Nat × Nat))
    (hpk : ∀ row ∈ table, findLocalPeaks (conv row.1 row.2.1) = []) :
    haarBreaks conv thr table = [] := by
  unfold haarBreaks
  induction table with
  | nil => rfl
  | cons row rest ih =>
    simp only [List.foldl_cons]
    rw [levelStep_none _ _ _ _ (hpk row (by simp))]
    exact ih (fun r hr => hpk r (by simp [hr]))

/-! ### the reported table -/

theorem slice_stepSig_left (lo hi : Rat) (b n : Nat) : slice (stepSig lo hi b n) 0 b = List.replicate b lo := by
  simp [slice, stepSig, List.take_append]

theorem slice_stepSig_right (lo hi : Rat) (b n : Nat) (h : b ≤ n) :
    slice (stepSig lo hi b n) b n = List.replicate (n - b) hi := by
  simp [slice, stepSig, List.drop_append]

/-- `SegmentByPeaks` of the noise-free step at its own breakpoint returns the step itself, whatever the weights -/
theorem segmentByPeaks_stepSig (lo hi : Rat) (b n : Nat) (hb : 1 ≤ b) (hn : b < n) (wt : Option (List Rat))
    (hw : ∀ ws, wt = some ws → ws.length = n) :
    segmentByPeaks (stepSig lo hi b n) [b] wt = stepSig lo hi b n := by
  have hlen := stepSig_length lo hi b n (by omega)
  rw [segmentByPeaks_eq _ _ _ (by
    constructor
    · simp
    · intro p hp
      simp at hp
      subst hp
      rw [hlen]; omega)]
  rw [hlen]
  simp only [bounds, List.cons_append, List.nil_append, List.zip_cons_cons, List.zip_nil_right, List.flatMap_cons,
    List.flatMap_nil, List.append_nil, Nat.sub_zero]
  rw [slice_stepSig_left, slice_stepSig_right _ _ _ _ (by omega)]
  rw [segValue_const lo (List.replicate b lo) _ (by
      intro h; have := congrArg List.length h; simp at this; omega) (by
      intro x hx; exact (List.mem_replicate.mp hx).2) (by
      intro ws hws
      cases wt with
      | none => simp at hws
      | some w0 =>
        simp at hws
        subst hws
        have := hw w0 rfl
        simp [slice]; omega)]
  rw [segValue_const hi (List.replicate (n - b) hi) _ (by
      intro h; have := congrArg List.length h; simp at this; omega) (by
      intro x hx; exact (List.mem_replicate.mp hx).2) (by
      intro ws hws
      cases wt with
      | none => simp at hws
      | some w0 =>
        simp at hws
        subst hws
        have := hw w0 rfl
        simp [slice]; omega)]
  rfl

theorem getD_stepSig_zero (lo hi : Rat) (b n : Nat) (hb : 1 ≤ b) : (stepSig lo hi b n)[0]?.getD 0 = lo := by
  obtain ⟨b', rfl⟩ : ∃ b', b = b' + 1 := ⟨b - 1, by omega⟩
  simp [stepSig, List.replicate_succ]

theorem getD_stepSig_b (lo hi : Rat) (b n : Nat) (hn : b < n) : (stepSig lo hi b n)[b]?.getD 0 = hi := by
  obtain ⟨m, hm⟩ : ∃ m, n - b = m + 1 := ⟨n - b - 1, by omega⟩
  simp [stepSig, hm, List.replicate_succ, List.getD_eq_getElem?_getD, List.getElem?_append_right]

/-- the dict `haarSeg` returns for the breakpoint list `[b]` on the noise-free step -/
theorem segTable_stepSig (lo hi : Rat) (b n : Nat) (hb : 1 ≤ b) (hn : b < n) (wt : Option (List Rat))
    (hw : ∀ ws, wt = some ws → ws.length = n) :
    segTable (stepSig lo hi b n) wt [b]
      = { start := [0, b], stop := [(b : Int) - 1, (n : Int) - 1],
          size := [(b : Int), (n : Int) - (b : Int)], mean := [lo, hi] } := by
  unfold segTable
  rw [segmentByPeaks_stepSig lo hi b n hb hn wt hw, stepSig_length lo hi b n (by omega)]
  simp [nth_toArray, getD_stepSig_zero lo hi b n hb, getD_stepSig_b lo hi b n hn]

theorem segTable_const (c : Rat) (n : Nat) (hn : 1 ≤ n) :
    segTable (List.replicate n c) none []
      = { start := [0], stop := [(n : Int) - 1], size := [(n : Int)], mean := [c] } := by
  unfold segTable
  rw [segmentByPeaks_eq _ _ _ (by constructor <;> simp)]
  simp only [List.length_replicate, bounds, List.nil_append, List.zip_cons_cons, List.zip_nil_right,
    List.flatMap_cons, List.flatMap_nil, List.append_nil, Nat.sub_zero, Option.map_none]
  have hs : slice (List.replicate n c) 0 n = List.replicate n c := by simp [slice]
  rw [hs, segValue_const c (List.replicate n c) none (by
      intro h; have := congrArg List.length h; simp at this; omega) (by
      intro x hx; exact (List.mem_replicate.mp hx).2) (by intro ws hws; simp at hws)]
  obtain ⟨m, rfl⟩ : ∃ m, n = m + 1 := ⟨n - 1, by omega⟩
  simp [nth_toArray, List.replicate_succ]

/-! ### haarSeg -/

theorem signMono_div (rnd : Rat → Rat) (hr : SignMono rnd) (norm : Rat) (hn : 0 < norm) :
    SignMono (fun x => rnd (x / norm)) := by
  constructor
  · simp [hr.1]
  · intro x y hxy
    exact hr.2 _ _ (div_lt_div_of_pos_right hxy hn)

/-- one level on the noise-free step: the only peak of the normalised convolution is the step position -/
theorem peaks_haarConv_step (rnd : Rat → Rat) (hr : SignMono rnd) (norm : Rat) (hnorm : 0 < norm)
    (lo hi : Rat) (hne : lo ≠ hi) (b n h : Nat) (h1 : 1 ≤ h) (hb : h ≤ b) (hn : b + h ≤ n) (hn2 : b + 2 ≤ n) :
    findLocalPeaks (haarConv rnd norm (stepSig lo hi b n) h) = [b] := by
  rw [haarConv_ideal_step rnd hr.1 norm lo hi b n h h1 hb hn]
  exact findLocalPeaks_tent (fun x => rnd (x / norm)) (signMono_div rnd hr norm hnorm) (hi - lo)
    (sub_ne_zero.mpr (Ne.symm hne)) b n h h1 hb hn hn2

theorem table_rows (row : Nat × Nat × Nat) (h : row ∈ Generated.HAAR_LEVEL_TABLE) :
    1 ≤ row.2.1 ∧ row.2.1 ≤ 32 := by
  simp [Generated.HAAR_LEVEL_TABLE] at h
  rcases h with rfl | rfl | rfl | rfl | rfl <;> simp

/-- **the noise-free step**: `haarSeg` (unweighted convolution, any q, any p-values, any strictly monotone
rounding, positive normalisers) reports exactly one breakpoint, at `b`, sizes `(b, n - b)`, means `(lo, hi)`,
as soon as the widest half-window (32) fits on both sides of the step -/
theorem haarSeg_ideal_step (rnd : Rat → Rat) (hr : SignMono rnd) (norm : Nat → Rat) (hnorm : ∀ h, 0 < norm h)
    (p : Nat → List Rat) (q lo hi : Rat) (hne : lo ≠ hi) (b n : Nat) (hb : 32 ≤ b) (hn : b + 32 ≤ n) :
    haarSeg rnd norm p q (stepSig lo hi b n)
      = { start := [0, b], stop := [(b : Int) - 1, (n : Int) - 1],
          size := [(b : Int), (n : Int) - (b : Int)], mean := [lo, hi] } := by
  unfold haarSeg haarSegWith
  rw [haarBreaks_single _ _ _ b (fun lv x hx => fdrThres_small rnd x q (p lv) hx) ?_ (by decide)]
  · exact segTable_stepSig lo hi b n (by omega) (by omega) none (by intro ws h; simp at h)
  · intro row hrow
    obtain ⟨h1, h32⟩ := table_rows row hrow
    exact peaks_haarConv_step rnd hr (norm row.2.1) (hnorm _) lo hi hne b n row.2.1 h1 (by omega) (by omega) (by omega)

/-- **the flat profile**: a constant signal has no breakpoint: one segment with the constant as its mean -/
theorem haarSeg_flat (rnd : Rat → Rat) (hr : rnd 0 = 0) (norm : Nat → Rat) (p : Nat → List Rat) (q c : Rat)
    (n : Nat) (hn : 1 ≤ n) :
    haarSeg rnd norm p q (List.replicate n c)
      = { start := [0], stop := [(n : Int) - 1], size := [(n : Int)], mean := [c] } := by
  unfold haarSeg haarSegWith
  rw [haarBreaks_none _ _ _ ?_]
  · exact segTable_const c n hn
  · intro row _
    rw [haarConv_const rnd hr]
    exact findLocalPeaks_zero n

/-- the same conclusion for ANY per-level convolution (e.g. the weighted one) whose only peak is `b` at every
level, and any weights: one breakpoint at `b`, sizes `(b, n-b)`, (weighted) means `(lo, hi)` -/
theorem haarSegWith_single_peak (conv : Nat → Nat → List Rat) (thr : Nat → List Rat → Rat)
    (table : List (Nat × Nat × Nat)) (hne : table ≠ [])
    (hthr : ∀ lv x, x.length < 2 → thr lv x = 0) (lo hi : Rat) (b n : Nat) (hb : 1 ≤ b) (hn : b < n)
    (hpk : ∀ row ∈ table, findLocalPeaks (conv row.1 row.2.1) = [b])
    (wt : Option (List Rat)) (hw : ∀ ws, wt = some ws → ws.length = n) :
    haarSegWith conv thr table (stepSig lo hi b n) wt
      = { start := [0, b], stop := [(b : Int) - 1, (n : Int) - 1],
          size := [(b : Int), (n : Int) - (b : Int)], mean := [lo, hi] } := by
  unfold haarSegWith
  rw [haarBreaks_single conv thr table b hthr hpk hne]
  exact segTable_stepSig lo hi b n hb hn wt hw

end CnvVerif.Haar
