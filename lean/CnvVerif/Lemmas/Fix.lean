/-
  Lemmas behind Props/C04.lean: reference matching by coordinate, the shuffle/sort/subtract/re-sort
  pipeline of center_by_window keeps rows attached, rolling median facts, edge-bias formulas,
  weight range and monotonicity.
-/
import CnvVerif.Model.Fix
import CnvVerif.Lemmas.Center
namespace CnvVerif

/-! ### matching the reference by (chromosome, start, end) -/

/-- a successful match returns, for each sample row in order, a reference row with the same coordinates -/
theorem matchRef_ok (ref : List RRow) (samp : List SRow) (m : List RRow) (h : matchRef ref samp = .ok m) :
    m.map rKey = samp.map sKey ∧ ∀ r ∈ m, r ∈ ref := by
  sorry

/-- it never depends on the row order of the reference when reference coordinates are unique -/
theorem matchRef_ref_perm (ref ref' : List RRow) (samp : List SRow) (hp : ref.Perm ref')
    (hu : hasDup (ref.map rKey) = false) : matchRef ref' samp = matchRef ref samp := by
  sorry

/-- duplicated coordinates in the sample or the reference are refused -/
theorem matchRef_rejects_dup (ref : List RRow) (samp : List SRow)
    (h : hasDup (samp.map sKey) = true ∨ hasDup (ref.map rKey) = true) :
    ∃ e, matchRef ref samp = .error e := by
  sorry

/-- a sample bin absent from the reference is refused -/
theorem matchRef_rejects_missing (ref : List RRow) (samp : List SRow) (r : SRow) (hr : r ∈ samp)
    (hm : ∀ q ∈ ref, rKey q ≠ sKey r) : ∃ e, matchRef ref samp = .error e := by
  sorry

/-- `hasDup` is what it says -/
theorem hasDup_false_iff {α} [BEq α] [LawfulBEq α] (l : List α) : hasDup l = false ↔ l.Nodup := by
  sorry

/-- the reference filters, with the constants read from params.py, are the ones the property names:
    log2 within ±5, spread ≤ 1, depth > 0 (depth = 0 is bad), GC within 0.3–0.7 -/
theorem badBin_iff (r : RRow) :
    badBin r = true ↔ (r.log2 < -5 ∨ r.log2 > 5 ∨ r.spread > 1 ∨ r.depth = 0 ∨
      ∃ g, r.gc = some g ∧ (g > Generated.GC_MAX_FRACTION ∨ g < Generated.GC_MIN_FRACTION)) := by
  sorry

theorem gc_bounds_are : Generated.GC_MIN_FRACTION_dec = 3/10 ∧ Generated.GC_MAX_FRACTION_dec = 7/10 ∧
    Generated.MIN_REF_COVERAGE = -5 ∧ Generated.MAX_REF_SPREAD = 1 := by
  sorry

/-! ### rolling median with mirrored edges -/

theorem rollingMedian_length (x : List Rat) (wing : Nat) : (rollingMedian x wing).length = x.length := by
  sorry

/-- the rolling median moves with the data: a constant added to every value is added to every output
    (this is why each correction removes a depth scale factor of its class) -/
theorem rollingMedian_shift (x : List Rat) (wing : Nat) (c : Rat) (hx : x ≠ []) :
    rollingMedian (x.map (· + c)) wing = (rollingMedian x wing).map (· + c) := by
  sorry

/-! ### center_by_window keeps every row attached to its own coordinates -/

/-- `IsPerm p n`: the list `p` is a permutation of the indices `0..n-1` (what numpy returns) -/
def IsPerm (p : List Nat) (n : Nat) : Prop := p.Perm (List.range n)

/-- the correction changes nothing but log2, loses and invents no row: its output is a permutation
    of the input rows up to log2 -/
theorem centerByWindow_rows (perm : List Nat) (wing : Nat) (t : List SRow) (keys : List Rat)
    (hp : IsPerm perm t.length) (hk : keys.length = t.length) :
    ((centerByWindow perm wing t keys).map (fun r => (r.chrom, r.s, r.e, r.gene, r.depth))).Perm
      (t.map (fun r => (r.chrom, r.s, r.e, r.gene, r.depth))) := by
  sorry

theorem centerByWindow_length (perm : List Nat) (wing : Nat) (t : List SRow) (keys : List Rat)
    (hp : IsPerm perm t.length) (hk : keys.length = t.length) :
    (centerByWindow perm wing t keys).length = t.length := by
  sorry

/-- its output is in genomic order -/
theorem centerByWindow_sorted (perm : List Nat) (wing : Nat) (t : List SRow) (keys : List Rat) :
    (centerByWindow perm wing t keys).Pairwise (fun a b => sSortLe a b = true) := by
  sorry

/-! ### edge-bias formulas (docstrings of edge_losses / edge_gains) -/

theorem edgeLoss_large (t i : Rat) (h : ¬ t < i) : edgeLoss t i = i / (2 * t) := by
  sorry

theorem edgeLoss_small (t i : Rat) (h : t < i) : edgeLoss t i = i / (2 * t) - (i - t) ^ 2 / (2 * i * t) := by
  sorry

theorem edgeGain_far (t g i : Rat) (hg : 0 ≤ g) (h : ¬ t + g < i) : edgeGain t g i = (i - g) ^ 2 / (4 * i * t) := by
  sorry

theorem edgeGain_near (t g i : Rat) (hg : 0 ≤ g) (h : t + g < i) :
    edgeGain t g i = (i - g) ^ 2 / (4 * i * t) - (i - t - g) ^ 2 / (4 * i * t) := by
  sorry

/-- an overlapping neighbour counts as adjacent -/
theorem edgeGain_overlap (t g i : Rat) (hg : g < 0) : edgeGain t g i = edgeGain t 0 i := by
  sorry

/-- a neighbour within the insert size never lowers coverage -/
theorem edgeGain_nonneg (t g i : Rat) (ht : 0 < t) (hi : 0 < i) (hgi : g < i) : 0 ≤ edgeGain t g i := by
  sorry

/-! ### weights -/

theorem weight_eps_max : Generated.WEIGHT_EPSILON_dec = 1/10000 ∧ Generated.WEIGHT_MAX = 1 ∧
    Generated.WEIGHT_EPSILON ≤ Generated.WEIGHT_MAX ∧ 0 < Generated.WEIGHT_EPSILON ∧
    0 < Generated.WEIGHT_REF_EMPHASIS ∧ Generated.WEIGHT_REF_EMPHASIS < 1 := by
  sorry

/-- every weight lies in [0.0001, 1] -/
theorem applyWeights_range (rows : List (SRow × RRow × Rat)) (varT varA : Rat) :
    ∀ w ∈ applyWeights rows varT varA, Generated.WEIGHT_EPSILON ≤ w ∧ w ≤ Generated.WEIGHT_MAX := by
  sorry

theorem applyWeights_length (rows : List (SRow × RRow × Rat)) (varT varA : Rat) :
    (applyWeights rows varT varA).length = rows.length := by
  sorry

/-- the weight formula of one bin: `pooled` = the reference carries spreads, `m` = mean sqrt size of the
    bin's class, `v` = residual variance of its class -/
def weightOf (pooled : Bool) (spread sq m v : Rat) : Rat :=
  let x := Generated.WEIGHT_REF_EMPHASIS
  let simple := 1 - v / (sq / m)
  clipQ Generated.WEIGHT_EPSILON Generated.WEIGHT_MAX (if pooled then x * (1 - spread ^ 2) + (1 - x) * simple else simple)

/-- within a class the weight never decreases with bin size (sqrt size `sq`) … -/
theorem weight_mono_size (pooled : Bool) (spread m v sq₁ sq₂ : Rat) (hm : 0 < m) (hv : 0 ≤ v)
    (h1 : 0 < sq₁) (h12 : sq₁ ≤ sq₂) :
    weightOf pooled spread sq₁ m v ≤ weightOf pooled spread sq₂ m v := by
  sorry

/-- … nor increases with the reference spread -/
theorem weight_antitone_spread (pooled : Bool) (sq m v s₁ s₂ : Rat) (h0 : 0 ≤ s₁) (h12 : s₁ ≤ s₂) :
    weightOf pooled s₂ sq m v ≤ weightOf pooled s₁ sq m v := by
  sorry

end CnvVerif
