/-
  Lemmas behind Props/C04.lean: reference matching by coordinate, the shuffle/sort/subtract/re-sort
  pipeline of center_by_window keeps rows attached, rolling median facts, edge-bias formulas,
  weight range and monotonicity.
-/
import CnvVerif.Model.Fix
import CnvVerif.Lemmas.Center
namespace CnvVerif

/-! ### matching the reference by (chromosome, start, end) -/

/-- `hasDup` is what it says -/
theorem hasDup_false_iff {α} [BEq α] [LawfulBEq α] (l : List α) : hasDup l = false ↔ l.Nodup := by
  induction l with
  | nil => simp [hasDup]
  | cons x xs ih =>
    simp only [hasDup, Bool.or_eq_false_iff, ih, List.nodup_cons]
    simp

/-- the lookup step of `matchRef` -/
def refFind (ref : List RRow) (r : SRow) : Option RRow := ref.find? (fun q => rKey q == sKey r)

theorem matchRef_eq (ref : List RRow) (samp : List SRow) :
    matchRef ref samp =
      if hasDup (samp.map sKey) then .error .dupSample
      else if hasDup (ref.map rKey) then .error .dupRef
      else if ((samp.map (refFind ref)).filter (·.isNone)).length > 0
        then .error (.missing ((samp.map (refFind ref)).filter (·.isNone)).length)
        else .ok ((samp.map (refFind ref)).filterMap id) := rfl

theorem found_all_some (ref : List RRow) (samp : List SRow)
    (h : ¬ ((samp.map (refFind ref)).filter (·.isNone)).length > 0) :
    (((samp.map (refFind ref)).filterMap id).map rKey = samp.map sKey) ∧
      ∀ r ∈ (samp.map (refFind ref)).filterMap id, r ∈ ref := by
  induction samp with
  | nil => simp
  | cons a t ih =>
    simp only [List.map_cons] at h ⊢
    cases hf : refFind ref a with
    | none => simp [hf] at h
    | some q =>
      rw [hf] at h
      simp only [List.filter_cons, Option.isNone_some, Bool.false_eq_true, if_false] at h
      obtain ⟨ih1, ih2⟩ := ih h
      have hq := List.find?_some hf
      have hqm := List.mem_of_find?_eq_some hf
      simp only [beq_iff_eq] at hq
      have hcons : (some q :: t.map (refFind ref)).filterMap id = q :: (t.map (refFind ref)).filterMap id := rfl
      rw [hcons]
      refine ⟨?_, ?_⟩
      · rw [List.map_cons, ih1, hq]
      · intro r hr
        simp only [List.mem_cons] at hr
        rcases hr with rfl | hr
        · exact hqm
        · exact ih2 r hr

/-- a successful match returns, for each sample row in order, a reference row with the same coordinates -/
theorem matchRef_ok (ref : List RRow) (samp : List SRow) (m : List RRow) (h : matchRef ref samp = .ok m) :
    m.map rKey = samp.map sKey ∧ ∀ r ∈ m, r ∈ ref := by
  rw [matchRef_eq] at h
  split at h
  · cases h
  · split at h
    · cases h
    · split at h
      · cases h
      · rename_i hm
        cases h
        exact found_all_some ref samp hm

theorem nodup_map_inj {α κ} (f : α → κ) (l : List α) (hn : (l.map f).Nodup) {a b : α}
    (ha : a ∈ l) (hb : b ∈ l) (hab : f a = f b) : a = b := by
  induction l with
  | nil => cases ha
  | cons x xs ih =>
    rw [List.map_cons, List.nodup_cons] at hn
    rcases List.mem_cons.mp ha with rfl | ha' <;> rcases List.mem_cons.mp hb with rfl | hb'
    · rfl
    · exact absurd (List.mem_map.mpr ⟨b, hb', hab.symm⟩) hn.1
    · exact absurd (List.mem_map.mpr ⟨a, ha', hab⟩) hn.1
    · exact ih hn.2 ha' hb'

theorem find_perm_of_nodup_key {α κ} [BEq κ] [LawfulBEq κ] (key : α → κ) (l l' : List α) (k : κ)
    (hp : l.Perm l') (hn : (l.map key).Nodup) :
    l'.find? (fun q => key q == k) = l.find? (fun q => key q == k) := by
  cases h : l.find? (fun q => key q == k) with
  | none =>
    rw [List.find?_eq_none] at h ⊢
    intro x hx
    exact h x (hp.mem_iff.mpr hx)
  | some a =>
    have ha := List.find?_some h
    have ham := List.mem_of_find?_eq_some h
    cases h' : l'.find? (fun q => key q == k) with
    | none =>
      rw [List.find?_eq_none] at h'
      exact absurd ha (h' a (hp.mem_iff.mp ham))
    | some b =>
      have hb := List.find?_some h'
      have hbm := hp.mem_iff.mpr (List.mem_of_find?_eq_some h')
      simp only [beq_iff_eq] at ha hb
      have := nodup_map_inj key l hn hbm ham (hb.trans ha.symm)
      rw [this]

theorem hasDup_perm {α} [BEq α] [LawfulBEq α] (l l' : List α) (hp : l.Perm l') : hasDup l' = hasDup l := by
  cases h : hasDup l with
  | false =>
    rw [hasDup_false_iff] at h ⊢
    exact hp.nodup_iff.mp h
  | true =>
    cases h' : hasDup l' with
    | true => rfl
    | false =>
      rw [hasDup_false_iff] at h'
      have := (hasDup_false_iff l).mpr (hp.nodup_iff.mpr h')
      rw [h] at this
      cases this

/-- it never depends on the row order of the reference when reference coordinates are unique -/
theorem matchRef_ref_perm (ref ref' : List RRow) (samp : List SRow) (hp : ref.Perm ref')
    (hu : hasDup (ref.map rKey) = false) : matchRef ref' samp = matchRef ref samp := by
  have hn := (hasDup_false_iff _).mp hu
  have hf : refFind ref' = refFind ref := by
    funext r
    exact find_perm_of_nodup_key rKey ref ref' (sKey r) hp hn
  rw [matchRef_eq, matchRef_eq, hf, hasDup_perm _ _ (hp.map rKey)]

/-- duplicated coordinates in the sample or the reference are refused -/
theorem matchRef_rejects_dup (ref : List RRow) (samp : List SRow)
    (h : hasDup (samp.map sKey) = true ∨ hasDup (ref.map rKey) = true) :
    ∃ e, matchRef ref samp = .error e := by
  rw [matchRef_eq]
  split
  · exact ⟨_, rfl⟩
  · split
    · exact ⟨_, rfl⟩
    · rename_i h1 h2
      rcases h with h | h <;> contradiction

/-- a sample bin absent from the reference is refused -/
theorem matchRef_rejects_missing (ref : List RRow) (samp : List SRow) (r : SRow) (hr : r ∈ samp)
    (hm : ∀ q ∈ ref, rKey q ≠ sKey r) : ∃ e, matchRef ref samp = .error e := by
  rw [matchRef_eq]
  split
  · exact ⟨_, rfl⟩
  · split
    · exact ⟨_, rfl⟩
    · have hnone : refFind ref r = none := by
        unfold refFind
        rw [List.find?_eq_none]
        intro q hq
        simpa using hm q hq
      have hmem : (none : Option RRow) ∈ (samp.map (refFind ref)).filter (·.isNone) := by
        rw [List.mem_filter]
        exact ⟨List.mem_map.mpr ⟨r, hr, hnone⟩, rfl⟩
      rw [if_pos (List.length_pos_of_mem hmem)]
      exact ⟨_, rfl⟩

theorem gc_min_le_max : Generated.GC_MIN_FRACTION ≤ Generated.GC_MAX_FRACTION := by
  norm_num [Generated.GC_MIN_FRACTION, Generated.GC_MAX_FRACTION]

/-- the reference filters, with the constants read from params.py, are the ones the property names:
    log2 within ±5, spread ≤ 1, depth > 0 (depth = 0 is bad), GC within 0.3–0.7 -/
theorem badBin_iff (r : RRow) :
    badBin r = true ↔ (r.log2 < -5 ∨ r.log2 > 5 ∨ r.spread > 1 ∨ r.depth = 0 ∨
      ∃ g, r.gc = some g ∧ (g > Generated.GC_MAX_FRACTION ∨ g < Generated.GC_MIN_FRACTION)) := by
  unfold badBin
  have h1 : Generated.MIN_REF_COVERAGE = -5 := rfl
  have h2 : Generated.MAX_REF_SPREAD = 1 := rfl
  have h3 : -Generated.MIN_REF_COVERAGE = 5 := by rw [h1]; norm_num
  rw [h3, h1, h2, min_eq_left gc_min_le_max, max_eq_right gc_min_le_max]
  cases hg : r.gc with
  | none => simp [or_assoc]
  | some g => simp [or_assoc]

theorem gc_bounds_are : Generated.GC_MIN_FRACTION_dec = 3/10 ∧ Generated.GC_MAX_FRACTION_dec = 7/10 ∧
    Generated.MIN_REF_COVERAGE = -5 ∧ Generated.MAX_REF_SPREAD = 1 := by
  refine ⟨rfl, rfl, rfl, rfl⟩

/-! ### rolling median with mirrored edges -/

theorem rollingMedian_length (x : List Rat) (wing : Nat) : (rollingMedian x wing).length = x.length := by
  simp [rollingMedian]

theorem padMirror_map (x : List Rat) (wing : Nat) (f : Rat → Rat) :
    padMirror (x.map f) wing = (padMirror x wing).map f := by
  simp [padMirror, List.map_take, List.map_reverse]

theorem length_le_padMirror (x : List Rat) (wing : Nat) : x.length ≤ (padMirror x wing).length := by
  simp [padMirror]; omega

/-- the rolling median moves with the data: a constant added to every value is added to every output
    (this is why each correction removes a depth scale factor of its class) -/
theorem rollingMedian_shift (x : List Rat) (wing : Nat) (c : Rat) (hx : x ≠ []) :
    rollingMedian (x.map (· + c)) wing = (rollingMedian x wing).map (· + c) := by
  have _ := hx
  unfold rollingMedian
  simp only [padMirror_map, List.length_map, List.map_map]
  apply List.map_congr_left
  intro i hi
  rw [List.mem_range] at hi
  simp only [Function.comp]
  rw [← List.map_drop, ← List.map_take]
  apply medianR_transEquiv
  intro h
  have hl := congrArg List.length h
  have := length_le_padMirror x wing
  simp only [List.length_take, List.length_drop, List.length_nil] at hl
  omega

/-! ### center_by_window keeps every row attached to its own coordinates -/

/-- `IsPerm p n`: the list `p` is a permutation of the indices `0..n-1` (what numpy returns) -/
def IsPerm (p : List Nat) (n : Nat) : Prop := p.Perm (List.range n)

theorem filterMap_range_getElem? {α} (l : List α) :
    (List.range l.length).filterMap (fun i => l[i]?) = l := by
  induction l with
  | nil => rfl
  | cons a t ih =>
    rw [List.length_cons, List.range_succ_eq_map, List.filterMap_cons]
    simp only [List.getElem?_cons_zero, List.filterMap_map]
    congr 1

/-- the projection of a sample row that `centerByWindow` must leave alone -/
def sProj (r : SRow) : String × Int × Int × String × Rat := (r.chrom, r.s, r.e, r.gene, r.depth)

/-- the correction changes nothing but log2, loses and invents no row: its output is a permutation
    of the input rows up to log2 -/
theorem centerByWindow_rows (perm : List Nat) (wing : Nat) (t : List SRow) (keys : List Rat)
    (hp : IsPerm perm t.length) (hk : keys.length = t.length) :
    ((centerByWindow perm wing t keys).map (fun r => (r.chrom, r.s, r.e, r.gene, r.depth))).Perm
      (t.map (fun r => (r.chrom, r.s, r.e, r.gene, r.depth))) := by
  show ((centerByWindow perm wing t keys).map sProj).Perm (t.map sProj)
  unfold centerByWindow
  simp only []
  have hlen : (t.zip keys).length = t.length := by simp [hk]
  -- the shuffle is a permutation of the tagged rows
  have hsh : (perm.filterMap (fun i => (t.zip keys)[i]?)).Perm (t.zip keys) := by
    have h1 : (perm.filterMap (fun i => (t.zip keys)[i]?)).Perm
        ((List.range (t.zip keys).length).filterMap (fun i => (t.zip keys)[i]?)) := by
      apply List.Perm.filterMap
      rw [hlen]; exact hp
    rwa [filterMap_range_getElem?] at h1
  generalize perm.filterMap (fun i => (t.zip keys)[i]?) = shuffled at hsh
  have hord : (sortByKey (·.2) shuffled).Perm (t.zip keys) := (List.mergeSort_perm _ _).trans hsh
  generalize sortByKey (·.2) shuffled = ordered at hord
  have hb : (rollingMedian (ordered.map (·.1.log2)) wing).length = ordered.length := by
    rw [rollingMedian_length, List.length_map]
  generalize rollingMedian (ordered.map (·.1.log2)) wing = biases at hb
  refine ((List.mergeSort_perm _ _).map sProj).trans ?_
  rw [List.map_map]
  have hf : (sProj ∘ fun p : (SRow × Rat) × Rat => { p.1.1 with log2 := p.1.1.log2 - p.2 })
      = (sProj ∘ Prod.fst) ∘ Prod.fst := rfl
  rw [hf, ← List.map_map, List.map_fst_zip (by omega)]
  refine (hord.map _).trans ?_
  rw [← List.map_map, List.map_fst_zip (by omega)]

theorem centerByWindow_length (perm : List Nat) (wing : Nat) (t : List SRow) (keys : List Rat)
    (hp : IsPerm perm t.length) (hk : keys.length = t.length) :
    (centerByWindow perm wing t keys).length = t.length := by
  have := (centerByWindow_rows perm wing t keys hp hk).length_eq
  simpa using this

theorem fix_string_trichotomy (a b : String) : a < b ∨ a = b ∨ b < a := by
  by_cases h1 : a < b
  · exact Or.inl h1
  · by_cases h2 : b < a
    · exact Or.inr (Or.inr h2)
    · exact Or.inr (Or.inl (String.le_antisymm (String.not_lt.mp h2) (String.not_lt.mp h1)))

theorem fix_chromKeyLt_iff (a b : Nat × String) :
    chromKeyLt a b = true ↔ a.1 < b.1 ∨ (a.1 = b.1 ∧ a.2 < b.2) := by
  simp [chromKeyLt]

theorem fix_chromKey_trichotomy (a b : Nat × String) :
    chromKeyLt a b = true ∨ a = b ∨ chromKeyLt b a = true := by
  obtain ⟨a1, a2⟩ := a
  obtain ⟨b1, b2⟩ := b
  simp only [fix_chromKeyLt_iff, Prod.mk.injEq]
  rcases Nat.lt_trichotomy a1 b1 with h | h | h
  · left; left; exact h
  · subst h
    rcases fix_string_trichotomy a2 b2 with h2 | h2 | h2
    · left; right; exact ⟨rfl, h2⟩
    · right; left; exact ⟨rfl, h2⟩
    · right; right; right; exact ⟨rfl, h2⟩
  · right; right; left; exact h

theorem fix_chromKeyLt_trans {a b c : Nat × String} (h1 : chromKeyLt a b = true) (h2 : chromKeyLt b c = true) :
    chromKeyLt a c = true := by
  rw [fix_chromKeyLt_iff] at *
  rcases h1 with h1 | ⟨h1, h1'⟩ <;> rcases h2 with h2 | ⟨h2, h2'⟩
  · left; omega
  · left; omega
  · left; omega
  · right; exact ⟨by omega, String.lt_trans h1' h2'⟩

theorem sSortLe_iff (a b : SRow) :
    sSortLe a b = true ↔ chromKeyLt (sorterChrom a.chrom) (sorterChrom b.chrom) = true ∨
      (sorterChrom a.chrom = sorterChrom b.chrom ∧ (a.s < b.s ∨ (a.s = b.s ∧ a.e ≤ b.e))) := by
  simp only [sSortLe, Bool.or_eq_true, Bool.and_eq_true, beq_iff_eq]
  grind

theorem sSortLe_total (a b : SRow) : (sSortLe a b || sSortLe b a) = true := by
  rw [Bool.or_eq_true, sSortLe_iff, sSortLe_iff]
  rcases fix_chromKey_trichotomy (sorterChrom a.chrom) (sorterChrom b.chrom) with h | h | h
  · left; left; exact h
  · by_cases h1 : a.s < b.s
    · left; right; exact ⟨h, Or.inl h1⟩
    · by_cases h2 : b.s < a.s
      · right; right; exact ⟨h.symm, Or.inl h2⟩
      · have hs : a.s = b.s := by omega
        by_cases h3 : a.e ≤ b.e
        · left; right; exact ⟨h, Or.inr ⟨hs, h3⟩⟩
        · right; right; exact ⟨h.symm, Or.inr ⟨hs.symm, by omega⟩⟩
  · right; left; exact h

theorem sSortLe_trans (a b c : SRow) (h1 : sSortLe a b = true) (h2 : sSortLe b c = true) :
    sSortLe a c = true := by
  rw [sSortLe_iff] at *
  rcases h1 with h1 | ⟨k1, h1⟩ <;> rcases h2 with h2 | ⟨k2, h2⟩
  · left; exact fix_chromKeyLt_trans h1 h2
  · left; rw [← k2]; exact h1
  · left; rw [k1]; exact h2
  · right
    refine ⟨k1.trans k2, ?_⟩
    rcases h1 with h1 | ⟨h1, h1'⟩ <;> rcases h2 with h2 | ⟨h2, h2'⟩
    · left; omega
    · left; omega
    · left; omega
    · right; exact ⟨by omega, by omega⟩

theorem sortS_sorted (t : List SRow) : (sortS t).Pairwise (fun a b => sSortLe a b = true) :=
  List.pairwise_mergeSort sSortLe_trans sSortLe_total t

/-- its output is in genomic order -/
theorem centerByWindow_sorted (perm : List Nat) (wing : Nat) (t : List SRow) (keys : List Rat) :
    (centerByWindow perm wing t keys).Pairwise (fun a b => sSortLe a b = true) := by
  unfold centerByWindow
  exact sortS_sorted _

/-! ### edge-bias formulas (docstrings of edge_losses / edge_gains) -/

theorem edgeLoss_large (t i : Rat) (h : ¬ t < i) : edgeLoss t i = i / (2 * t) := by
  simp [edgeLoss, h]

theorem edgeLoss_small (t i : Rat) (h : t < i) : edgeLoss t i = i / (2 * t) - (i - t) ^ 2 / (2 * i * t) := by
  simp [edgeLoss, h]

theorem edgeGain_far (t g i : Rat) (hg : 0 ≤ g) (h : ¬ t + g < i) : edgeGain t g i = (i - g) ^ 2 / (4 * i * t) := by
  simp [edgeGain, max_eq_right hg, h]

theorem edgeGain_near (t g i : Rat) (hg : 0 ≤ g) (h : t + g < i) :
    edgeGain t g i = (i - g) ^ 2 / (4 * i * t) - (i - t - g) ^ 2 / (4 * i * t) := by
  simp [edgeGain, max_eq_right hg, h]

/-- an overlapping neighbour counts as adjacent -/
theorem edgeGain_overlap (t g i : Rat) (hg : g < 0) : edgeGain t g i = edgeGain t 0 i := by
  simp [edgeGain, max_eq_left (le_of_lt hg)]

/-- a neighbour within the insert size never lowers coverage -/
theorem edgeGain_nonneg (t g i : Rat) (ht : 0 < t) (hi : 0 < i) (hgi : g < i) : 0 ≤ edgeGain t g i := by
  unfold edgeGain
  have hg0 : 0 ≤ max 0 g := le_max_left _ _
  have hgi' : max 0 g < i := max_lt hi hgi
  generalize max 0 g = g' at *
  have hpos : 0 < 4 * i * t := by positivity
  simp only []
  split
  · rename_i h
    rw [← sub_div]
    apply div_nonneg _ (le_of_lt hpos)
    have : (i - g') ^ 2 - (i - t - g') ^ 2 = t * (2 * (i - g') - t) := by ring
    rw [this]
    apply mul_nonneg (le_of_lt ht)
    linarith
  · apply div_nonneg (sq_nonneg _) (le_of_lt hpos)

/-! ### weights -/

theorem weight_eps_max : Generated.WEIGHT_EPSILON_dec = 1/10000 ∧ Generated.WEIGHT_MAX = 1 ∧
    Generated.WEIGHT_EPSILON ≤ Generated.WEIGHT_MAX ∧ 0 < Generated.WEIGHT_EPSILON ∧
    0 < Generated.WEIGHT_REF_EMPHASIS ∧ Generated.WEIGHT_REF_EMPHASIS < 1 := by
  refine ⟨rfl, rfl, ?_, ?_, ?_, ?_⟩ <;>
    norm_num [Generated.WEIGHT_EPSILON, Generated.WEIGHT_MAX, Generated.WEIGHT_REF_EMPHASIS]

theorem clipQ_range (lo hi x : Rat) (h : lo ≤ hi) : lo ≤ clipQ lo hi x ∧ clipQ lo hi x ≤ hi := by
  unfold clipQ
  exact ⟨le_min h (le_max_left _ _), min_le_left _ _⟩

theorem clipQ_mono (lo hi x y : Rat) (h : x ≤ y) : clipQ lo hi x ≤ clipQ lo hi y := by
  unfold clipQ
  exact min_le_min le_rfl (max_le_max le_rfl h)

/-- every weight lies in [0.0001, 1] -/
theorem applyWeights_range (rows : List (SRow × RRow × Rat)) (varT varA : Rat) :
    ∀ w ∈ applyWeights rows varT varA, Generated.WEIGHT_EPSILON ≤ w ∧ w ≤ Generated.WEIGHT_MAX := by
  intro w hw
  unfold applyWeights at hw
  simp only [List.mem_map] at hw
  obtain ⟨p, _, rfl⟩ := hw
  exact clipQ_range _ _ _ weight_eps_max.2.2.1

theorem applyWeights_length (rows : List (SRow × RRow × Rat)) (varT varA : Rat) :
    (applyWeights rows varT varA).length = rows.length := by
  simp [applyWeights]

/-- the weight formula of one bin: `pooled` = the reference carries spreads, `m` = mean sqrt size of the
    bin's class, `v` = residual variance of its class -/
def weightOf (pooled : Bool) (spread sq m v : Rat) : Rat :=
  let x := Generated.WEIGHT_REF_EMPHASIS
  let simple := 1 - v / (sq / m)
  clipQ Generated.WEIGHT_EPSILON Generated.WEIGHT_MAX (if pooled then x * (1 - spread ^ 2) + (1 - x) * simple else simple)

/-- within a class the weight never decreases with bin size (sqrt size `sq`) … -/
theorem weight_mono_size (pooled : Bool) (spread m v sq₁ sq₂ : Rat) (hm : 0 < m) (hv : 0 ≤ v)
    (h1 : 0 < sq₁) (h12 : sq₁ ≤ sq₂) :
    weightOf pooled spread sq₁ m v ≤ weightOf pooled spread sq₂ m v := by
  unfold weightOf
  apply clipQ_mono
  have hx := weight_eps_max.2.2.2.2.2
  have hs : 1 - v / (sq₁ / m) ≤ 1 - v / (sq₂ / m) := by
    have : v / (sq₂ / m) ≤ v / (sq₁ / m) := by
      apply div_le_div_of_nonneg_left hv (div_pos h1 hm)
      exact div_le_div_of_nonneg_right h12 (le_of_lt hm)
    linarith
  cases pooled with
  | false => simpa using hs
  | true =>
    simp only [if_true]
    have : (1 - Generated.WEIGHT_REF_EMPHASIS) * (1 - v / (sq₁ / m)) ≤
        (1 - Generated.WEIGHT_REF_EMPHASIS) * (1 - v / (sq₂ / m)) :=
      mul_le_mul_of_nonneg_left hs (by linarith)
    linarith

/-- … nor increases with the reference spread -/
theorem weight_antitone_spread (pooled : Bool) (sq m v s₁ s₂ : Rat) (h0 : 0 ≤ s₁) (h12 : s₁ ≤ s₂) :
    weightOf pooled s₂ sq m v ≤ weightOf pooled s₁ sq m v := by
  unfold weightOf
  apply clipQ_mono
  have hx := weight_eps_max.2.2.2.2.1
  cases pooled with
  | false => simp
  | true =>
    simp only [if_true]
    have hsq : s₁ ^ 2 ≤ s₂ ^ 2 := by nlinarith
    have : Generated.WEIGHT_REF_EMPHASIS * (1 - s₂ ^ 2) ≤ Generated.WEIGHT_REF_EMPHASIS * (1 - s₁ ^ 2) :=
      mul_le_mul_of_nonneg_left (by linarith) (le_of_lt hx)
    linarith

end CnvVerif
