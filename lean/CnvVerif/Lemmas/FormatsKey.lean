import CnvVerif.Basic
import Std.Data.String.ToNat

/-
Character-list mirror `keyL` of `CnvVerif.sorterChrom` (`skgenome.chromsort.sorter_chrom`)
and the equality `sorterChrom s = ((keyL s.toList).1, String.ofList (keyL s.toList).2)`.
String functions do not reduce in the kernel; `keyL` does (`decide` works on literals).
-/
open CnvVerif
namespace CnvVerif.Fmt

theorem list_takeWhile_unique {α} (p : α → Bool) (a b : List α)
    (ha : a.all p = true) (hb : b.head?.any p = false) : (a ++ b).takeWhile p = a := by
  induction a with
  | nil => cases b with
    | nil => rfl
    | cons x t => simp at hb; simp [hb]
  | cons x t ih =>
    simp at ha
    simp [ha.1]
    apply ih; simp; exact ha.2

/-- `String.takeWhile` with a `Char → Bool` predicate is `List.takeWhile` on the characters -/
theorem toList_takeWhile (s : String) (p : Char → Bool) :
    (s.takeWhile p).copy.toList = s.toList.takeWhile p := by
  have h1 : (s.takeWhile p).copy ++ (s.dropWhile p).copy = s := String.takeWhile_append_dropWhile
  have h2 : (s.takeWhile p).all p = true := String.all_takeWhile
  have h3 : ((s.dropWhile p).takeWhile p).isEmpty = true := String.isEmpty_takeWhile_dropWhile
  rw [String.Slice.all_bool_eq] at h2
  rw [String.Slice.isEmpty_takeWhile, String.Slice.startsWith_bool_eq_head?] at h3
  conv => rhs; rw [← h1]
  rw [String.toList_append, list_takeWhile_unique _ _ _ h2 (by simpa using h3)]

def chrPrefixed (l : List Char) : Bool := ['c', 'h', 'r'].isPrefixOf (l.map Char.toLower)

/-- `sorter_chrom` after the optional `chr` prefix has been removed -/
def keyRest (c : List Char) : Nat × List Char :=
  if c = ['X'] ∨ c = ['Y'] then (1000, c)
  else
    let nums := c.takeWhile Char.isDigit
    let chars := c.drop nums.length
    let n := Nat.ofDigitChars 10 nums 0
    if chars.isEmpty then (n, [])
    else if chars.length == 1 then (2000 + n, chars)
    else (3000 + n, chars)

/-- `sorter_chrom` on the characters of the label -/
def keyL (l : List Char) : Nat × List Char :=
  let c := if chrPrefixed l then l.drop 3 else l
  if c = ['X'] ∨ c = ['Y'] then (1000, c)
  else
    let nums := c.takeWhile Char.isDigit
    let chars := c.drop nums.length
    let n := Nat.ofDigitChars 10 nums 0
    if chars.isEmpty then (n, [])
    else if chars.length == 1 then (2000 + n, chars)
    else (3000 + n, chars)

theorem keyL_eq (l : List Char) : keyL l = keyRest (if chrPrefixed l then l.drop 3 else l) := rfl

theorem startsWith_chr (s : String) : s.toLower.startsWith "chr" = chrPrefixed s.toList := by
  rw [Bool.eq_iff_iff, String.startsWith_string_iff]
  simp [String.toLower, chrPrefixed]

theorem isEmpty_toList (s : String) : s.isEmpty = s.toList.isEmpty := by
  rw [Bool.eq_iff_iff, String.isEmpty_iff]
  simp

/-- `toNat?.getD 0` on a (possibly empty) run of ASCII digits is its decimal value -/
theorem toNat_digits (s : String) (h : ∀ c ∈ s.toList, c.isDigit) :
    s.toNat?.getD 0 = Nat.ofDigitChars 10 s.toList 0 := by
  by_cases he : s = ""
  · subst he
    have : "".isNat = false := by
      rw [← Bool.not_eq_true, String.isNat_iff]; simp
    rw [String.toNat?_eq_none this]; rfl
  · rw [String.toNat?_eq_some_ofDigitChars (String.isNat_of_isDigit he h)]
    rw [List.filter_bne_eq_self_of_not_mem]
    · rfl
    · intro hm; have := h _ hm; simp at this

theorem keyRest_core (c nums chars : String)
    (hn : nums.toList = c.toList.takeWhile Char.isDigit)
    (hch : chars.toList = c.toList.drop (c.toList.takeWhile Char.isDigit).length) :
    (if c == "X" || c == "Y" then (1000, c)
    else
      if chars.isEmpty then (nums.toNat?.getD 0, "")
      else if chars.length == 1 then (2000 + nums.toNat?.getD 0, chars)
      else (3000 + nums.toNat?.getD 0, chars)) = ((keyRest c.toList).1, String.ofList (keyRest c.toList).2) := by
  have hX : (c == "X") = decide (c.toList = ['X']) := by
    rw [Bool.eq_iff_iff]; simp [← String.toList_inj]
  have hY : (c == "Y") = decide (c.toList = ['Y']) := by
    rw [Bool.eq_iff_iff]; simp [← String.toList_inj]
  have hd : ∀ ch ∈ nums.toList, ch.isDigit := by
    rw [hn]; intro ch hch; exact List.all_eq_true.1 List.all_takeWhile ch hch
  rw [hX, hY, toNat_digits _ hd, isEmpty_toList, ← String.length_toList, hn, hch]
  have hc : chars = String.ofList (c.toList.drop (c.toList.takeWhile Char.isDigit).length) := by
    rw [← hch, String.ofList_toList]
  unfold keyRest
  by_cases h1 : c.toList = ['X'] ∨ c.toList = ['Y']
  · simp [h1]
  · rw [if_neg h1, if_neg (by simpa using h1)]
    dsimp only
    split
    · rfl
    · split
      · simp [hc]
      · simp [hc]

theorem keyRest_eq (c : String) :
    (if c == "X" || c == "Y" then (1000, c)
    else
      let nums := (c.takeWhile Char.isDigit).toString
      let chars := (c.drop nums.length).toString
      let n := nums.toNat?.getD 0
      if chars.isEmpty then (n, "")
      else if chars.length == 1 then (2000 + n, chars)
      else (3000 + n, chars)) = ((keyRest c.toList).1, String.ofList (keyRest c.toList).2) := by
  have hn : (c.takeWhile Char.isDigit).copy.toList = c.toList.takeWhile Char.isDigit :=
    toList_takeWhile c _
  have hch : (c.drop (c.takeWhile Char.isDigit).copy.length).copy.toList
      = c.toList.drop (c.toList.takeWhile Char.isDigit).length := by
    rw [String.toList_copy_drop, ← String.length_toList, hn]
  exact keyRest_core c _ _ hn hch

/-- the String-level key of Basic.lean is the character-list key -/
theorem sorterChrom_eq_keyL (s : String) :
    sorterChrom s = ((keyL s.toList).1, String.ofList (keyL s.toList).2) := by
  rw [keyL_eq]
  unfold sorterChrom
  rw [startsWith_chr]
  have := keyRest_eq (if chrPrefixed s.toList = true then (s.drop 3).toString else s)
  have h2 : (if chrPrefixed s.toList = true then (s.drop 3).toString else s).toList =
      if chrPrefixed s.toList = true then s.toList.drop 3 else s.toList := by
    split
    · exact String.toList_copy_drop
    · rfl
  rw [h2] at this
  exact this

theorem toLower_digit (c : Char) (h : c.isDigit) : c.toLower = c := by
  unfold Char.toLower
  simp only [Char.isDigit, Bool.and_eq_true, decide_eq_true_eq] at h
  rw [dif_neg]
  intro h'
  have h1 := h.2
  have h2 := h'.1
  simp only [ge_iff_le, UInt32.le_iff_toNat_le] at h1 h2
  have : '9'.val.toNat = 57 := by decide
  have : 'A'.val.toNat = 65 := by decide
  omega

theorem chrPrefixed_digits (l : List Char) (h : ∀ c ∈ l, c.isDigit) : chrPrefixed l = false := by
  cases l with
  | nil => rfl
  | cons x t =>
    have hx := h x (by simp)
    have : x ≠ 'c' := by intro e; subst e; simp at hx
    simp [chrPrefixed, toLower_digit x hx, List.isPrefixOf, Ne.symm this]

theorem keyRest_digits (l : List Char) (h : ∀ c ∈ l, c.isDigit) :
    keyRest l = (Nat.ofDigitChars 10 l 0, []) := by
  have hX : ¬ (l = ['X'] ∨ l = ['Y']) := by
    rintro (e | e) <;> subst e <;> simp at h
  have ht : l.takeWhile Char.isDigit = l := by
    simpa using list_takeWhile_unique Char.isDigit l [] (by simpa using h) rfl
  unfold keyRest
  rw [if_neg hX]
  simp [ht]

theorem chrPrefixed_chr (a b c : Char) (ha : a.toLower = 'c') (hb : b.toLower = 'h')
    (hc : c.toLower = 'r') (l : List Char) : chrPrefixed (a :: b :: c :: l) = true := by
  simp [chrPrefixed, List.isPrefixOf, ha, hb, hc]

theorem keyL_chr (a b c : Char) (ha : a.toLower = 'c') (hb : b.toLower = 'h')
    (hc : c.toLower = 'r') (l : List Char) : keyL (a :: b :: c :: l) = keyRest l := by
  rw [keyL_eq, chrPrefixed_chr a b c ha hb hc]; rfl

theorem keyL_of_not_prefixed (l : List Char) (h : chrPrefixed l = false) : keyL l = keyRest l := by
  rw [keyL_eq, h]; rfl

theorem toList_toString_nat (n : Nat) : (toString n).toList = Nat.toDigits 10 n := by
  rw [Nat.toString_eq_repr, Nat.toList_repr]

theorem digits_isDigit (n : Nat) : ∀ c ∈ Nat.toDigits 10 n, c.isDigit :=
  fun _ hc => Nat.isDigit_of_mem_toDigits (by omega) (by omega) hc

theorem keyL_number (n : Nat) : keyL (Nat.toDigits 10 n) = (n, []) := by
  rw [keyL_of_not_prefixed _ (chrPrefixed_digits _ (digits_isDigit n)),
    keyRest_digits _ (digits_isDigit n), Nat.ofDigitChars_ten_toDigits]

theorem keyL_chr_number (n : Nat) : keyL ('c' :: 'h' :: 'r' :: Nat.toDigits 10 n) = (n, []) := by
  rw [keyL_chr _ _ _ (by decide) (by decide) (by decide),
    keyRest_digits _ (digits_isDigit n), Nat.ofDigitChars_ten_toDigits]

/-- numeric chromosome names are ordered by their value, with or without the `chr` prefix -/
theorem sorterChrom_number (n : Nat) :
    sorterChrom (toString n) = (n, "") ∧ sorterChrom ("chr" ++ toString n) = (n, "") := by
  constructor
  · rw [sorterChrom_eq_keyL, toList_toString_nat, keyL_number]
  · rw [sorterChrom_eq_keyL, String.toList_append, toList_toString_nat]
    have : "chr".toList = ['c', 'h', 'r'] := by decide
    rw [this, show ['c', 'h', 'r'] ++ Nat.toDigits 10 n = 'c' :: 'h' :: 'r' :: Nat.toDigits 10 n from rfl,
      keyL_chr_number]

/-- evaluation of `sorterChrom` on a literal through `keyL` (all three side goals are `by decide`) -/
theorem sorterChrom_of (s : String) (l : List Char) (k : Nat) (kl : List Char) (r : String)
    (h1 : s.toList = l) (h2 : keyL l = (k, kl)) (h3 : String.ofList kl = r) :
    sorterChrom s = (k, r) := by
  rw [sorterChrom_eq_keyL, h1, h2, h3]

/-- the literal names of the property -/
theorem sorterChrom_named :
    sorterChrom "X" = (1000, "X") ∧ sorterChrom "Y" = (1000, "Y") ∧ sorterChrom "M" = (2000, "M") ∧
    sorterChrom "MT" = (3000, "MT") ∧ sorterChrom "chrX" = (1000, "X") ∧ sorterChrom "chrY" = (1000, "Y") ∧
    sorterChrom "chrM" = (2000, "M") ∧ sorterChrom "chrMT" = (3000, "MT") := by
  refine ⟨?_, ?_, ?_, ?_, ?_, ?_, ?_, ?_⟩
  · exact sorterChrom_of _ ['X'] _ ['X'] _ (by decide) (by decide) (by decide)
  · exact sorterChrom_of _ ['Y'] _ ['Y'] _ (by decide) (by decide) (by decide)
  · exact sorterChrom_of _ ['M'] _ ['M'] _ (by decide) (by decide) (by decide)
  · exact sorterChrom_of _ ['M', 'T'] _ ['M', 'T'] _ (by decide) (by decide) (by decide)
  · exact sorterChrom_of _ ['c', 'h', 'r', 'X'] _ ['X'] _ (by decide) (by decide) (by decide)
  · exact sorterChrom_of _ ['c', 'h', 'r', 'Y'] _ ['Y'] _ (by decide) (by decide) (by decide)
  · exact sorterChrom_of _ ['c', 'h', 'r', 'M'] _ ['M'] _ (by decide) (by decide) (by decide)
  · exact sorterChrom_of _ ['c', 'h', 'r', 'M', 'T'] _ ['M', 'T'] _ (by decide) (by decide) (by decide)

/-- the prefix is ignored (case-insensitively) when the rest does not itself start with chr -/
theorem sorterChrom_prefix_insensitive (s : String) (a b c : Char)
    (ha : a.toLower = 'c') (hb : b.toLower = 'h') (hc : c.toLower = 'r')
    (hs : chrPrefixed s.toList = false) :
    sorterChrom (String.ofList [a, b, c] ++ s) = sorterChrom s := by
  rw [sorterChrom_eq_keyL, sorterChrom_eq_keyL, String.toList_append, String.toList_ofList,
    show [a, b, c] ++ s.toList = a :: b :: c :: s.toList from rfl,
    keyL_chr a b c ha hb hc, keyL_of_not_prefixed _ hs]

theorem sorterChrom_chr_append (s : String) (hs : chrPrefixed s.toList = false) :
    sorterChrom ("chr" ++ s) = sorterChrom s := by
  have h : "chr" = String.ofList ['c', 'h', 'r'] := by decide
  rw [h]
  exact sorterChrom_prefix_insensitive s 'c' 'h' 'r' (by decide) (by decide) (by decide) hs

theorem natural_order_plain (n m : Nat) (hnm : n < m) (hm : m < 1000) :
    chromKeyLt (sorterChrom (toString n)) (sorterChrom (toString m)) = true ∧
    chromKeyLt (sorterChrom (toString m)) (sorterChrom "X") = true ∧
    chromKeyLt (sorterChrom "X") (sorterChrom "Y") = true ∧
    chromKeyLt (sorterChrom "Y") (sorterChrom "M") = true ∧
    chromKeyLt (sorterChrom "M") (sorterChrom "MT") = true := by
  obtain ⟨hX, hY, hM, hMT, -⟩ := sorterChrom_named
  rw [(sorterChrom_number n).1, (sorterChrom_number m).1, hX, hY, hM, hMT]
  have hxy : "X" < "Y" := by rw [String.lt_iff]; decide
  refine ⟨?_, ?_, ?_, ?_, ?_⟩ <;> simp [chromKeyLt, hnm, hm, hxy]

/-- natural order: 1 < 2 < 10 < … < X < Y < M (numbers below 1000), in both naming styles -/
theorem natural_order (n m : Nat) (hnm : n < m) (hm : m < 1000) (p : String) (hp : p = "" ∨ p = "chr") :
    chromKeyLt (sorterChrom (p ++ toString n)) (sorterChrom (p ++ toString m)) = true ∧
    chromKeyLt (sorterChrom (p ++ toString m)) (sorterChrom (p ++ "X")) = true ∧
    chromKeyLt (sorterChrom (p ++ "X")) (sorterChrom (p ++ "Y")) = true ∧
    chromKeyLt (sorterChrom (p ++ "Y")) (sorterChrom (p ++ "M")) = true ∧
    chromKeyLt (sorterChrom (p ++ "M")) (sorterChrom (p ++ "MT")) = true := by
  rcases hp with rfl | rfl
  · simp only [String.empty_append]
    exact natural_order_plain n m hnm hm
  · have hd : ∀ k : Nat, chrPrefixed (toString k).toList = false := fun k => by
      rw [toList_toString_nat]; exact chrPrefixed_digits _ (digits_isDigit k)
    rw [sorterChrom_chr_append _ (hd n), sorterChrom_chr_append _ (hd m),
      sorterChrom_chr_append "X" (by decide), sorterChrom_chr_append "Y" (by decide),
      sorterChrom_chr_append "M" (by decide), sorterChrom_chr_append "MT" (by decide)]
    exact natural_order_plain n m hnm hm

end CnvVerif.Fmt
