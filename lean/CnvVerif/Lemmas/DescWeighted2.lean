/-
  Lemmas behind Props/C19.lean, part 2b: the weighted median does not depend on the order `argsort` gives
  to tied values; it is the mean of the textbook lower and upper weighted medians.
-/
import CnvVerif.Lemmas.DescWeighted
set_option linter.unusedSimpArgs false
set_option linter.unusedVariables false
namespace CnvVerif.Desc

/-- total weight of the values `≤ v` -/
def wLE (v : Rat) (p : List (Rat × Rat)) : Rat := ((p.filter (fun q => decide (q.1 ≤ v))).map (·.2)).sum

theorem wLE_perm {p₁ p₂ : List (Rat × Rat)} (h : p₁.Perm p₂) (v : Rat) : wLE v p₁ = wLE v p₂ :=
  ((h.filter _).map _).sum_eq

theorem wLE_split (v : Rat) (p : List (Rat × Rat)) (k : Nat) :
    wLE v p = wLE v (p.take k) + wLE v (p.drop k) := by
  unfold wLE
  conv_lhs => rw [← List.take_append_drop k p]
  rw [List.filter_append, List.map_append, List.sum_append]

theorem wLE_nonneg (v : Rat) (p : List (Rat × Rat)) (hw : ∀ q ∈ p, 0 ≤ q.2) : 0 ≤ wLE v p :=
  sum_weights_nonneg _ (fun q hq => hw q (List.mem_filter.mp hq).1)

theorem wLE_le_total (v : Rat) (p : List (Rat × Rat)) (hw : ∀ q ∈ p, 0 ≤ q.2) : wLE v p ≤ (p.map (·.2)).sum :=
  sum_filter_le p hw _

theorem wLE_all (v : Rat) (p : List (Rat × Rat)) (h : ∀ q ∈ p, q.1 ≤ v) : wLE v p = (p.map (·.2)).sum := by
  unfold wLE
  rw [List.filter_eq_self.mpr (fun q hq => by simpa using h q hq)]

theorem wLE_none (v : Rat) (p : List (Rat × Rat)) (h : ∀ q ∈ p, v < q.1) : wLE v p = 0 := by
  unfold wLE
  rw [filter_eq_nil_of p _ (fun q hq => by simpa using h q hq)]
  simp

/-- in a value-sorted table the first `i+1` rows weigh at most as much as the values `≤` the `i`-th -/
theorem cum_le_wLE (p : List (Rat × Rat)) (hs : SortedByValue p) (hw : ∀ q ∈ p, 0 ≤ q.2) (i : Nat) (hi : i < p.length) :
    cumAt (p.map (·.2)) i ≤ wLE (nth (p.map (·.1)) i) p := by
  rw [cumAt_eq, wLE_split _ p (i + 1), wLE_all _ (p.take (i + 1)) (sorted_take_le p hs i hi)]
  have := wLE_nonneg (nth (p.map (·.1)) i) (p.drop (i + 1)) (fun q hq => hw q (List.mem_of_mem_drop hq))
  linarith

/-- … and a value strictly below the `i`-th one has all its weight within the first `i` rows -/
theorem wLE_le_take (p : List (Rat × Rat)) (hs : SortedByValue p) (hw : ∀ q ∈ p, 0 ≤ q.2) (i : Nat) (hi : i < p.length)
    (v : Rat) (hv : v < nth (p.map (·.1)) i) : wLE v p ≤ ((p.take i).map (·.2)).sum := by
  rw [wLE_split _ p i, wLE_none v (p.drop i) (fun q hq => lt_of_lt_of_le hv (sorted_drop_ge p hs i hi q hq))]
  have := wLE_le_total v (p.take i) (fun q hq => hw q (List.mem_of_mem_take hq))
  linarith

/-- `v` is the least of the values `vals` that satisfies `P` -/
def IsLeastWith (P : Rat → Prop) (vals : List Rat) (v : Rat) : Prop := v ∈ vals ∧ P v ∧ ∀ u ∈ vals, P u → v ≤ u

theorem IsLeastWith.unique {P : Rat → Prop} {vals : List Rat} {v₁ v₂ : Rat}
    (h₁ : IsLeastWith P vals v₁) (h₂ : IsLeastWith P vals v₂) : v₁ = v₂ :=
  le_antisymm (h₁.2.2 v₂ h₂.1 h₂.2.1) (h₂.2.2 v₁ h₁.1 h₁.2.1)

theorem nth_fst_mem (p : List (Rat × Rat)) (i : Nat) (hi : i < p.length) : nth (p.map (·.1)) i ∈ p.map (·.1) :=
  nth_mem _ _ (by simpa using hi)

theorem sorted_first_le (p : List (Rat × Rat)) (hs : SortedByValue p) (hne : 0 < p.length) :
    ∀ u ∈ p.map (·.1), nth (p.map (·.1)) 0 ≤ u := by
  intro u hu
  obtain ⟨q, hq, rfl⟩ := List.mem_map.mp hu
  have := sorted_drop_ge p hs 0 hne q (by simpa using hq)
  exact this

/-- **lower weighted median**: the row where the cumulative weight first reaches `t` carries the least value whose
    weight-at-or-below reaches `t` -/
theorem lower_is_least (p : List (Rat × Rat)) (hs : SortedByValue p) (hw : ∀ q ∈ p, 0 ≤ q.2) (t : Rat)
    (hlt : firstIdx (fun i => decide (t ≤ cumAt (p.map (·.2)) i)) p.length < p.length) :
    IsLeastWith (fun v => t ≤ wLE v p) (p.map (·.1))
      (nth (p.map (·.1)) (firstIdx (fun i => decide (t ≤ cumAt (p.map (·.2)) i)) p.length)) := by
  set lo := firstIdx (fun i => decide (t ≤ cumAt (p.map (·.2)) i)) p.length with hlo
  have hat := firstIdx_spec_at _ _ hlt
  simp only [decide_eq_true_eq] at hat
  refine ⟨nth_fst_mem p lo hlt, le_trans hat (cum_le_wLE p hs hw lo hlt), ?_⟩
  intro u hu hPu
  rcases Nat.eq_zero_or_pos lo with h0 | hpos
  · rw [h0]; exact sorted_first_le p hs (by omega) u hu
  · by_contra hcon
    push Not at hcon
    have h1 := wLE_le_take p hs hw lo hlt u hcon
    have h2 := firstIdx_spec_lt (fun i => decide (t ≤ cumAt (p.map (·.2)) i)) p.length (lo - 1) (by omega)
    simp only [decide_eq_false_iff_not, not_le] at h2
    rw [cumAt_eq, show lo - 1 + 1 = lo by omega] at h2
    linarith

/-- **upper weighted median**: the row where the cumulative weight first exceeds `t` carries the least value whose
    weight-at-or-below exceeds `t` -/
theorem upper_is_least (p : List (Rat × Rat)) (hs : SortedByValue p) (hw : ∀ q ∈ p, 0 ≤ q.2) (t : Rat)
    (hlt : firstIdx (fun i => decide (t < cumAt (p.map (·.2)) i)) p.length < p.length) :
    IsLeastWith (fun v => t < wLE v p) (p.map (·.1))
      (nth (p.map (·.1)) (firstIdx (fun i => decide (t < cumAt (p.map (·.2)) i)) p.length)) := by
  set hi := firstIdx (fun i => decide (t < cumAt (p.map (·.2)) i)) p.length with hhi
  have hat := firstIdx_spec_at _ _ hlt
  simp only [decide_eq_true_eq] at hat
  refine ⟨nth_fst_mem p hi hlt, lt_of_lt_of_le hat (cum_le_wLE p hs hw hi hlt), ?_⟩
  intro u hu hPu
  rcases Nat.eq_zero_or_pos hi with h0 | hpos
  · rw [h0]; exact sorted_first_le p hs (by omega) u hu
  · by_contra hcon
    push Not at hcon
    have h1 := wLE_le_take p hs hw hi hlt u hcon
    have h2 := firstIdx_spec_lt (fun i => decide (t < cumAt (p.map (·.2)) i)) p.length (hi - 1) (by omega)
    simp only [decide_eq_false_iff_not, not_lt] at h2
    rw [cumAt_eq, show hi - 1 + 1 = hi by omega] at h2
    linarith

/-- no row's cumulative weight exceeds `t` exactly when the total does not -/
theorem firstIdx_upper_none (p : List (Rat × Rat)) (hw : ∀ q ∈ p, 0 ≤ q.2) (t : Rat) (hne : p ≠ []) :
    firstIdx (fun i => decide (t < cumAt (p.map (·.2)) i)) p.length = p.length ↔ totalW p ≤ t := by
  have hn : 0 < p.length := List.length_pos_iff.mpr hne
  constructor
  · intro h
    have := firstIdx_spec_lt (fun i => decide (t < cumAt (p.map (·.2)) i)) p.length (p.length - 1) (by omega)
    simp only [decide_eq_false_iff_not, not_lt] at this
    rwa [cumAt_last p _ (by omega)] at this
  · intro h
    apply le_antisymm (firstIdx_le _ _)
    by_contra hcon
    have hlt : firstIdx (fun i => decide (t < cumAt (p.map (·.2)) i)) p.length < p.length := by omega
    have hat := firstIdx_spec_at _ _ hlt
    simp only [decide_eq_true_eq] at hat
    rw [cumAt_eq] at hat
    have hsplit := sum_take_add_drop p (firstIdx (fun i => decide (t < cumAt (p.map (·.2)) i)) p.length + 1)
    have := sum_weights_nonneg (p.drop (firstIdx (fun i => decide (t < cumAt (p.map (·.2)) i)) p.length + 1))
      (fun q hq => hw q (List.mem_of_mem_drop hq))
    linarith

/-- the last row of a value-sorted table carries the greatest value -/
theorem sorted_last_ge (p : List (Rat × Rat)) (hs : SortedByValue p) (hne : 0 < p.length) :
    ∀ u ∈ p.map (·.1), u ≤ nth (p.map (·.1)) (p.length - 1) := by
  intro u hu
  obtain ⟨q, hq, rfl⟩ := List.mem_map.mp hu
  exact sorted_take_le p hs (p.length - 1) (by omega) q (by rw [show p.length - 1 + 1 = p.length by omega, List.take_length]; exact hq)

theorem mem_two_le_sum (l : List (Rat × Rat)) (hw : ∀ q ∈ l, 0 ≤ q.2) (a b : Rat × Rat) (ha : a ∈ l) (hb : b ∈ l) (hab : a ≠ b) :
    a.2 + b.2 ≤ (l.map (·.2)).sum := by
  induction l with
  | nil => cases ha
  | cons x t ih =>
    have htw : ∀ q ∈ t, 0 ≤ q.2 := fun q hq => hw q (List.mem_cons_of_mem _ hq)
    have hsingle : ∀ c ∈ t, c.2 ≤ (t.map (·.2)).sum := fun c hc =>
      List.single_le_sum (by intro y hy; obtain ⟨z, hz, rfl⟩ := List.mem_map.mp hy; exact htw z hz) _ (List.mem_map_of_mem hc)
    simp only [List.map_cons, List.sum_cons]
    rcases List.mem_cons.mp ha with rfl | ha'
    · rcases List.mem_cons.mp hb with rfl | hb'
      · exact absurd rfl hab
      · linarith [hsingle b hb']
    · rcases List.mem_cons.mp hb with rfl | hb'
      · linarith [hsingle a ha']
      · have := ih htw ha' hb'
        linarith [hw x (by simp)]

/-- **tie order is unobservable**: two value-sorted arrangements of the same weighted sample (whatever order `argsort`
    gives to equal values) have the same weighted median -/
theorem wmedSorted_perm (tol : Rat) (p₁ p₂ : List (Rat × Rat)) (hperm : p₁.Perm p₂)
    (hs₁ : SortedByValue p₁) (hs₂ : SortedByValue p₂) (hw : ∀ q ∈ p₁, 0 ≤ q.2) (htol : 0 ≤ tol) :
    wmedSorted tol p₁ = wmedSorted tol p₂ := by
  have hw₂ : ∀ q ∈ p₂, 0 ≤ q.2 := fun q hq => hw q (hperm.mem_iff.mpr hq)
  by_cases hne : p₁ = []
  · subst hne; rw [List.nil_perm.mp hperm]
  have hne₂ : p₂ ≠ [] := by intro h; subst h; exact hne (List.perm_nil.mp hperm)
  have hW := totalW_perm hperm
  have hW0 : 0 ≤ totalW p₁ := sum_weights_nonneg p₁ hw
  have hlen := hperm.length_eq
  have hvals : ∀ u, u ∈ p₁.map (·.1) ↔ u ∈ p₂.map (·.1) := fun u => (hperm.map _).mem_iff
  have hdom : dominated p₁ = dominated p₂ := by
    unfold dominated
    rw [hW, Bool.eq_iff_iff, List.any_eq_true, List.any_eq_true]
    constructor
    · rintro ⟨x, hx, h⟩; exact ⟨x, ((hperm.map _).mem_iff).mp hx, h⟩
    · rintro ⟨x, hx, h⟩; exact ⟨x, ((hperm.map _).mem_iff).mpr hx, h⟩
  rw [wmedSorted_def, wmedSorted_def, ← hdom]
  cases hd : dominated p₁ with
  | true =>
    simp only [if_true]
    -- the row holding more than half of the weight is unique
    have key : ∀ (p : List (Rat × Rat)), p ≠ [] → (∀ q ∈ p, 0 ≤ q.2) → dominated p = true →
        ∃ q ∈ p, q.1 = nth (p.map (·.1)) (argmax (p.map (·.2))) ∧ totalW p / 2 < q.2 := by
      intro p hpne hpw hpd
      have hwne : p.map (·.2) ≠ [] := by simpa using hpne
      obtain ⟨hj, hmax⟩ := argmax_spec (p.map (·.2)) hwne
      have hjp : argmax (p.map (·.2)) < p.length := by simpa using hj
      refine ⟨p[argmax (p.map (·.2))], List.getElem_mem hjp, ?_, ?_⟩
      · rw [nth_eq_getElem _ _ (by simpa using hjp)]; simp
      · unfold dominated at hpd
        rw [List.any_eq_true] at hpd
        obtain ⟨x, hx, hlt⟩ := hpd
        simp at hlt
        have := hmax x hx
        rw [nth_eq_getElem _ _ hj] at this
        simp at this
        exact lt_of_lt_of_le hlt this
    obtain ⟨q₁, hq₁, hv₁, hb₁⟩ := key p₁ hne hw hd
    obtain ⟨q₂, hq₂, hv₂, hb₂⟩ := key p₂ hne₂ hw₂ (by rw [← hdom]; exact hd)
    rw [← hv₁, ← hv₂]
    by_contra hneq
    have hq₁' : q₁ ∈ p₂ := hperm.mem_iff.mp hq₁
    have hdiff : q₁ ≠ q₂ := fun h => hneq (by rw [h])
    have := mem_two_le_sum p₂ hw₂ q₁ q₂ hq₁' hq₂ hdiff
    have ht : (p₂.map (·.2)).sum = totalW p₂ := rfl
    rw [ht] at this
    rw [hW] at hb₁
    linarith
  | false =>
    simp only [Bool.false_eq_true, if_false]
    -- lower index
    have hlo : nth (p₁.map (·.1)) (loIdx tol p₁) = nth (p₂.map (·.1)) (loIdx tol p₂) := by
      have h1 := lower_is_least p₁ hs₁ hw (totalW p₁ / 2 - tol) (loIdx_lt tol p₁ hne hW0 htol)
      have h2 := lower_is_least p₂ hs₂ hw₂ (totalW p₂ / 2 - tol) (loIdx_lt tol p₂ hne₂ (by rw [← hW]; exact hW0) htol)
      have h2' : IsLeastWith (fun v => totalW p₁ / 2 - tol ≤ wLE v p₁) (p₁.map (·.1))
          (nth (p₂.map (·.1)) (loIdx tol p₂)) := by
        have hPeq : ∀ v, (totalW p₂ / 2 - tol ≤ wLE v p₂) ↔ (totalW p₁ / 2 - tol ≤ wLE v p₁) := by
          intro v; rw [hW, wLE_perm hperm]
        exact ⟨(hvals _).mpr h2.1, (hPeq _).mp h2.2.1, fun u hu hP => h2.2.2 u ((hvals u).mp hu) ((hPeq u).mpr hP)⟩
      exact IsLeastWith.unique h1 h2'
    -- upper index
    have hhi : nth (p₁.map (·.1)) (hiIdx tol p₁) = nth (p₂.map (·.1)) (hiIdx tol p₂) := by
      by_cases hex : totalW p₁ ≤ totalW p₁ / 2 + tol
      · -- no cumulative weight exceeds the midpoint: both take the greatest value
        have e1 := (firstIdx_upper_none p₁ hw (totalW p₁ / 2 + tol) hne).mpr hex
        have e2 := (firstIdx_upper_none p₂ hw₂ (totalW p₂ / 2 + tol) hne₂).mpr (by rw [← hW]; exact hex)
        have hh1 : hiIdx tol p₁ = p₁.length - 1 := by unfold hiIdx; rw [e1]; omega
        have hh2 : hiIdx tol p₂ = p₂.length - 1 := by unfold hiIdx; rw [e2]; omega
        rw [hh1, hh2]
        have hn1 : 0 < p₁.length := List.length_pos_iff.mpr hne
        have hn2 : 0 < p₂.length := List.length_pos_iff.mpr hne₂
        apply le_antisymm
        · exact sorted_last_ge p₂ hs₂ hn2 _ ((hvals _).mp (nth_fst_mem p₁ _ (by omega)))
        · exact sorted_last_ge p₁ hs₁ hn1 _ ((hvals _).mpr (nth_fst_mem p₂ _ (by omega)))
      · have hlt1 : firstIdx (fun i => decide (totalW p₁ / 2 + tol < cumAt (p₁.map (·.2)) i)) p₁.length < p₁.length := by
          have := firstIdx_le (fun i => decide (totalW p₁ / 2 + tol < cumAt (p₁.map (·.2)) i)) p₁.length
          rcases Nat.lt_or_eq_of_le this with h | h
          · exact h
          · exact absurd ((firstIdx_upper_none p₁ hw _ hne).mp h) hex
        have hlt2 : firstIdx (fun i => decide (totalW p₂ / 2 + tol < cumAt (p₂.map (·.2)) i)) p₂.length < p₂.length := by
          have := firstIdx_le (fun i => decide (totalW p₂ / 2 + tol < cumAt (p₂.map (·.2)) i)) p₂.length
          rcases Nat.lt_or_eq_of_le this with h | h
          · exact h
          · exact absurd (by rw [hW]; exact (firstIdx_upper_none p₂ hw₂ _ hne₂).mp h) hex
        have hh1 : hiIdx tol p₁ = firstIdx (fun i => decide (totalW p₁ / 2 + tol < cumAt (p₁.map (·.2)) i)) p₁.length := by
          unfold hiIdx; omega
        have hh2 : hiIdx tol p₂ = firstIdx (fun i => decide (totalW p₂ / 2 + tol < cumAt (p₂.map (·.2)) i)) p₂.length := by
          unfold hiIdx; omega
        rw [hh1, hh2]
        have h1 := upper_is_least p₁ hs₁ hw (totalW p₁ / 2 + tol) hlt1
        have h2 := upper_is_least p₂ hs₂ hw₂ (totalW p₂ / 2 + tol) hlt2
        have h2' : IsLeastWith (fun v => totalW p₁ / 2 + tol < wLE v p₁) (p₁.map (·.1))
            (nth (p₂.map (·.1)) (firstIdx (fun i => decide (totalW p₂ / 2 + tol < cumAt (p₂.map (·.2)) i)) p₂.length)) := by
          have hPeq : ∀ v, (totalW p₂ / 2 + tol < wLE v p₂) ↔ (totalW p₁ / 2 + tol < wLE v p₁) := by
            intro v; rw [hW, wLE_perm hperm]
          exact ⟨(hvals _).mpr h2.1, (hPeq _).mp h2.2.1, fun u hu hP => h2.2.2 u ((hvals u).mp hu) ((hPeq u).mpr hP)⟩
        exact IsLeastWith.unique h1 h2'
    rw [hlo, hhi]

/-! ### any sorting permutation will do -/

/-- what `argsort` promises: a permutation of the row indices that puts the values in ascending order -/
def ValidOrder (order : List Nat) (p : List (Rat × Rat)) : Prop :=
  order.Perm (List.range p.length) ∧ SortedByValue (permute order p)

theorem ValidOrder.idx {order : List Nat} {p : List (Rat × Rat)} (h : ValidOrder order p) : ∀ i ∈ order, i < p.length :=
  fun i hi => List.mem_range.mp (h.1.mem_iff.mp hi)

theorem ValidOrder.ne_nil {order : List Nat} {p : List (Rat × Rat)} (h : ValidOrder order p) (hp : p ≠ []) : order ≠ [] := by
  intro ho
  have := h.1.length_eq
  rw [ho] at this
  simp at this
  exact hp (List.length_eq_zero_iff.mp this.symm)

theorem ValidOrder.shift {order : List Nat} {p : List (Rat × Rat)} (h : ValidOrder order p) (c : Rat) :
    ValidOrder order (shiftP c p) := by
  refine ⟨by rw [length_shiftP]; exact h.1, ?_⟩
  rw [permute_shiftP order c p h.idx]
  unfold shiftP
  exact List.pairwise_map.mpr (h.2.imp (fun hab => by simpa using hab))

theorem ValidOrder.unshift {order : List Nat} {p : List (Rat × Rat)} (c : Rat) (h : ValidOrder order (shiftP c p)) :
    ValidOrder order p := by
  have hidx : ∀ i ∈ order, i < p.length := fun i hi => by have := h.idx i hi; rwa [length_shiftP] at this
  refine ⟨by have := h.1; rwa [length_shiftP] at this, ?_⟩
  have h2 := h.2
  rw [permute_shiftP order c p hidx] at h2
  unfold shiftP at h2
  exact (List.pairwise_map.mp h2).imp (fun hab => by simpa using hab)

theorem ValidOrder.scale {order : List Nat} {p : List (Rat × Rat)} (h : ValidOrder order p) (k : Rat) (hk : 0 ≤ k) :
    ValidOrder order (scaleP k p) := by
  refine ⟨by rw [length_scaleP]; exact h.1, ?_⟩
  rw [permute_scaleP]
  unfold scaleP
  exact List.pairwise_map.mpr (h.2.imp (fun hab => mul_le_mul_of_nonneg_left hab hk))

/-- the weighted median is the same for every sorting permutation `argsort` may return -/
theorem weightedMedianCore_order_independent (o o' : List Nat) (p : List (Rat × Rat)) (hw : ∀ q ∈ p, 0 ≤ q.2)
    (h : ValidOrder o p) (h' : ValidOrder o' p) : weightedMedianCore false o p = weightedMedianCore false o' p := by
  have hp := permute_perm o p h.1
  have hp' := permute_perm o' p h'.1
  have hw1 : ∀ q ∈ permute o p, 0 ≤ q.2 := fun q hq => hw q (hp.mem_iff.mp hq)
  rw [weightedMedianCore_def, weightedMedianCore_def, wmedTol_perm hp, wmedTol_perm hp']
  exact wmedSorted_perm _ _ _ (hp.trans hp'.symm) h.2 h'.2 hw1 (wmedTol_nonneg p hw)

theorem weightedMadCore_order_independent (o1 o2 o1' o2' : List Nat) (p : List (Rat × Rat)) (b : Bool) (hw : ∀ q ∈ p, 0 ≤ q.2)
    (h1 : ValidOrder o1 p) (h1' : ValidOrder o1' p)
    (h2 : ValidOrder o2 (devP (weightedMedianCore false o1 p) p))
    (h2' : ValidOrder o2' (devP (weightedMedianCore false o1' p) p)) :
    weightedMadCore false o1 o2 p b = weightedMadCore false o1' o2' p b := by
  have hm := weightedMedianCore_order_independent o1 o1' p hw h1 h1'
  rw [weightedMadCore_def, weightedMadCore_def, ← hm]
  rw [← hm] at h2'
  have hwd : ∀ q ∈ devP (weightedMedianCore false o1 p) p, 0 ≤ q.2 := by
    intro q hq; unfold devP at hq; obtain ⟨r, hr, rfl⟩ := List.mem_map.mp hq; exact hw r hr
  rw [weightedMedianCore_order_independent o2 o2' _ hwd h2 h2']

/-- weighted MAD is unchanged by adding a constant, whatever sorting permutations `argsort` returns before and after -/
theorem weightedMadCore_shift_any_order (o1 o2 o1' o2' : List Nat) (p : List (Rat × Rat)) (b : Bool) (c : Rat)
    (hp : p ≠ []) (hw : ∀ q ∈ p, 0 ≤ q.2)
    (h1 : ValidOrder o1 p) (h2 : ValidOrder o2 (devP (weightedMedianCore false o1 p) p))
    (h1' : ValidOrder o1' (shiftP c p))
    (h2' : ValidOrder o2' (devP (weightedMedianCore false o1' (shiftP c p)) (shiftP c p))) :
    weightedMadCore false o1' o2' (shiftP c p) b = weightedMadCore false o1 o2 p b := by
  have hws : ∀ q ∈ shiftP c p, 0 ≤ q.2 := by
    intro q hq; unfold shiftP at hq; obtain ⟨r, hr, rfl⟩ := List.mem_map.mp hq; exact hw r hr
  have e1 : weightedMedianCore false o1' (shiftP c p) = weightedMedianCore false o1 p + c := by
    rw [weightedMedianCore_order_independent o1' o1 (shiftP c p) hws h1' (h1.shift c)]
    exact weightedMedianCore_shift o1 c p (h1.ne_nil hp) h1.idx hw
  rw [e1, devP_shiftP] at h2'
  rw [weightedMadCore_def, weightedMadCore_def, e1, devP_shiftP]
  have hwd : ∀ q ∈ devP (weightedMedianCore false o1 p) p, 0 ≤ q.2 := by
    intro q hq; unfold devP at hq; obtain ⟨r, hr, rfl⟩ := List.mem_map.mp hq; exact hw r hr
  rw [weightedMedianCore_order_independent o2' o2 _ hwd h2' h2]

/-- … and proportional under rescaling by `k ≥ 0` -/
theorem weightedMadCore_scale_any_order (o1 o2 o1' o2' : List Nat) (p : List (Rat × Rat)) (b : Bool) (k : Rat) (hk : 0 ≤ k)
    (hw : ∀ q ∈ p, 0 ≤ q.2)
    (h1 : ValidOrder o1 p) (h2 : ValidOrder o2 (devP (weightedMedianCore false o1 p) p))
    (h1' : ValidOrder o1' (scaleP k p))
    (h2' : ValidOrder o2' (devP (weightedMedianCore false o1' (scaleP k p)) (scaleP k p))) :
    weightedMadCore false o1' o2' (scaleP k p) b = k * weightedMadCore false o1 o2 p b := by
  have hws : ∀ q ∈ scaleP k p, 0 ≤ q.2 := by
    intro q hq; unfold scaleP at hq; obtain ⟨r, hr, rfl⟩ := List.mem_map.mp hq; exact hw r hr
  have e1 : weightedMedianCore false o1' (scaleP k p) = k * weightedMedianCore false o1 p := by
    rw [weightedMedianCore_order_independent o1' o1 (scaleP k p) hws h1' (h1.scale k hk)]
    exact weightedMedianCore_scale o1 k p
  rw [e1, devP_scaleP _ k hk] at h2'
  have hwd : ∀ q ∈ scaleP k (devP (weightedMedianCore false o1 p) p), 0 ≤ q.2 := by
    intro q hq; unfold scaleP devP at hq
    obtain ⟨r, hr, rfl⟩ := List.mem_map.mp hq
    obtain ⟨r', hr', rfl⟩ := List.mem_map.mp hr
    exact hw r' hr'
  rw [weightedMadCore_def, weightedMadCore_def, e1, devP_scaleP _ k hk,
    weightedMedianCore_order_independent o2' o2 _ hwd h2' (h2.scale k hk), weightedMedianCore_scale o2 k]
  split <;> ring

/-- translation equivariance of the weighted median for any two sorting permutations -/
theorem weightedMedianCore_shift_any_order (o o' : List Nat) (p : List (Rat × Rat)) (c : Rat) (hp : p ≠ [])
    (hw : ∀ q ∈ p, 0 ≤ q.2) (h : ValidOrder o p) (h' : ValidOrder o' (shiftP c p)) :
    weightedMedianCore false o' (shiftP c p) = weightedMedianCore false o p + c := by
  have hws : ∀ q ∈ shiftP c p, 0 ≤ q.2 := by
    intro q hq; unfold shiftP at hq; obtain ⟨r, hr, rfl⟩ := List.mem_map.mp hq; exact hw r hr
  rw [weightedMedianCore_order_independent o' o (shiftP c p) hws h' (h.shift c)]
  exact weightedMedianCore_shift o c p (h.ne_nil hp) h.idx hw

end CnvVerif.Desc
