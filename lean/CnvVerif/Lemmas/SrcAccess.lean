/-
  The hand-written scanner / join models equal the loop bodies the translator reads off the current source
  (Generated/ExprsAccess.lean, regenerated from /repo on every run by harness/looptrans.py).
-/
import CnvVerif.Generated.ExprsAccess
import CnvVerif.Model.Access
import CnvVerif.Lemmas.Access
set_option linter.unusedSimpArgs false
namespace CnvVerif.Src
open CnvVerif CnvVerif.Generated

/-! ### numpy primitives against the model's list expressions -/

theorem whereEqFrom_N (k : Nat) (l : List Char) : Py.whereEqFrom k 'N' l = nIdxFrom k l := by
  induction l generalizing k with
  | nil => rfl
  | cons x xs ih => simp only [Py.whereEqFrom, nIdxFrom, ih]

theorem whereEq_N (l : List Char) : Py.whereEq l 'N' = nIndices l := whereEqFrom_N 0 l

theorem zip_dropLast {α : Type} (l : List α) : List.zip l.dropLast (l.drop 1) = List.zip l (l.drop 1) := by
  induction l with
  | nil => rfl
  | cons x xs ih =>
    cases xs with
    | nil => rfl
    | cons y ys =>
      simp only [List.dropLast_cons_cons, List.drop_one, List.tail_cons, List.zip_cons_cons] at ih ⊢
      rw [ih]

theorem select_zip {α β : Type} (a : List α) (b : List β) (f : α × β → Bool) :
    List.zip (Py.select a ((List.zip a b).map f)) (Py.select b ((List.zip a b).map f)) =
      (List.zip a b).filter f := by
  induction a generalizing b with
  | nil => simp [Py.select]
  | cons x xs ih =>
    cases b with
    | nil => simp [Py.select]
    | cons y ys =>
      simp only [List.zip_cons_cons, List.map_cons, Py.select, List.filter_cons]
      cases f (x, y) <;> simp [ih]

theorem anyTrue_false {α : Type} (l : List α) (f : α → Bool) (h : Py.anyTrue (l.map f) = false) :
    l.filter f = [] := by
  rw [List.filter_eq_nil_iff]
  intro a ha hf
  have : Py.anyTrue (l.map f) = true := by
    simp only [Py.anyTrue, List.any_map, List.any_eq_true]
    exact ⟨a, ha, by simpa using hf⟩
  rw [h] at this
  exact Bool.noConfusion this


/-! ### `get_regions` -/

/-- a yielded triple of `get_regions` while the sequence name is `c` -/
def tag (c : List Char) (r : Run) : List Char × Nat × Nat := (c, r.1, r.2)

theorem startsWith_header (rest : List Char) : Py.startsWith ('>' :: rest) ['>'] = true := by
  simp [Py.startsWith]

theorem startsWith_body (l : List Char) (h : l.head? ≠ some '>') : Py.startsWith l ['>'] = false := by
  cases l with
  | nil => simp [Py.startsWith]
  | cons x xs =>
    have h2 : ('>' == x) = false := by
      rw [beq_eq_false_iff_ne]
      exact fun hx => h (by simp [← hx])
    simp [Py.startsWith, List.isPrefixOf, h2]

theorem mask_eq (idx : List Nat) :
    Py.gtMask (Py.diff idx) 1 =
      (List.zip idx.dropLast (idx.drop 1)).map (fun p => decide (p.2 - p.1 > 1)) := by
  unfold Py.gtMask Py.diff
  rw [zip_dropLast, List.map_map]
  apply List.map_congr_left
  intro p _
  simp only [Function.comp]
  exact decide_eq_decide.mpr (by omega)

/-- the intermediate blocks of a mixed line: numpy's masked vectors = the model's filtered pairs -/
theorem mid_is_source (c : List Char) (cursor : Nat) (idx : List Nat) :
    List.map (fun (p : Nat × Nat) => (c, p.1, p.2))
      ((Py.addScalar (Py.addScalar (Py.select idx.dropLast (Py.gtMask (Py.diff idx) 1)) 1) cursor).zip
        (Py.addScalar (Py.select (idx.drop 1) (Py.gtMask (Py.diff idx) 1)) cursor)) =
    List.map (tag c) (((idx.zip (idx.drop 1)).filter (fun p => p.2 - p.1 > 1)).map
      (fun p => (p.1 + 1 + cursor, p.2 + cursor))) := by
  rw [mask_eq]
  simp only [Py.addScalar, List.map_map]
  rw [List.zip_map, select_zip, zip_dropLast]
  simp only [List.map_map]
  apply List.map_congr_left
  intro p _
  rfl

theorem mid_none (idx : List Nat) (h : ¬ Py.anyTrue (Py.gtMask (Py.diff idx) 1) = true) :
    (idx.zip (idx.drop 1)).filter (fun p => decide (p.2 - p.1 > 1)) = [] := by
  rw [mask_eq, zip_dropLast] at h
  exact anyTrue_false _ _ (by simpa using h)

/-- the shape of a mixed line's result, with the vectors abstracted -/
theorem mixed_shape (c : List Char) (cursor len n0 nl : Nat) (rs : Option Nat) (M : List Run) :
    (if nl + 1 < len then
      ((match rs with
          | some v => [(c, v, cursor + n0)]
          | none => if n0 ≠ 0 then [(c, cursor, cursor + n0)] else []) ++ List.map (tag c) M,
        c, cursor + len, some (cursor + nl + 1))
    else
      ((match rs with
          | some v => [(c, v, cursor + n0)]
          | none => if n0 ≠ 0 then [(c, cursor, cursor + n0)] else []) ++ List.map (tag c) M,
        c, cursor + len, none)) =
    (List.map (tag c)
        ((match rs with
          | some s => [(s, cursor + n0)]
          | none => if (n0 != 0) = true then [(cursor, cursor + n0)] else []) ++ M),
      c, cursor + len, if nl + 1 < len then some (cursor + nl + 1) else none) := by
  by_cases ht : nl + 1 < len <;> by_cases hn : n0 = 0 <;> cases rs <;> simp [tag, hn, ht]

/-- the sequence-line branch (after `rstrip`) is `stepLine` -/
theorem step_body (c : List Char) (cursor : Nat) (rs : Option Nat) (l : List Char)
    (h : l.head? ≠ some '>') :
    src_get_regions_step c cursor rs l =
      ((stepLine ⟨cursor, rs⟩ (rstripChars l)).1.map (tag c),
       (c, (stepLine ⟨cursor, rs⟩ (rstripChars l)).2.cursor,
           (stepLine ⟨cursor, rs⟩ (rstripChars l)).2.runStart)) := by
  unfold src_get_regions_step
  simp only [startsWith_body l h, Py.rstrip, Bool.false_eq_true, if_false]
  obtain ⟨b, hb⟩ : ∃ b, b = rstripChars l := ⟨_, rfl⟩
  simp only [← hb]
  clear hb h l
  unfold stepLine
  by_cases he : b.isEmpty = true
  · simp only [he, if_true, List.map_nil]
  · simp only [he, Bool.false_eq_true, if_false]
    by_cases hN : b.contains 'N' = true
    · simp only [hN, if_true]
      have hall : (b.all fun c => decide (c = 'N')) = b.all (· == 'N') := by
        congr 1
      rw [hall]
      by_cases ha : b.all (· == 'N') = true
      · simp only [ha, if_true]
        cases rs <;> simp [emitOpen, tag]
      · simp only [ha, Bool.false_eq_true, if_false, whereEq_N]
        by_cases hm : Py.anyTrue (Py.gtMask (Py.diff (nIndices b)) 1) = true
        · simp only [hm, if_true, mid_is_source, Py.first, Py.last]
          exact mixed_shape c cursor b.length _ _ rs _
        · simp only [hm, Bool.false_eq_true, if_false, mid_none _ hm, Py.first, Py.last,
            List.map_nil, List.append_nil]
          have key := mixed_shape c cursor b.length ((nIndices b).headD 0) ((nIndices b).getLastD 0) rs []
          simp only [List.map_nil, List.append_nil] at key
          exact key
    · simp only [hN, Bool.false_eq_true, if_false]
      cases rs <;> simp


/-- the header branch: flush the open run, read the name, reset -/
theorem step_header (c : List Char) (cursor : Nat) (rs : Option Nat) (rest : List Char) :
    src_get_regions_step c cursor rs ('>' :: rest) =
      ((emitOpen rs cursor).map (tag c), (rest.takeWhile (fun ch => !isPySpace ch), 0, none)) := by
  unfold src_get_regions_step
  have hsp : isPySpace '>' = false := by decide
  have hw : (Py.firstWord ('>' :: rest)).drop 1 = rest.takeWhile (fun ch => !isPySpace ch) := by
    simp [Py.firstWord, List.dropWhile, hsp]
  simp only [startsWith_header, if_true, hw]
  cases rs <;> simp [emitOpen, tag]

theorem final_is_source (c : List Char) (cursor : Nat) (rs : Option Nat) :
    src_get_regions_final c cursor rs = (emitOpen rs cursor).map (tag c) := by
  unfold src_get_regions_final
  cases rs <;> simp [emitOpen, tag]

theorem parseLine_body (l : List Char) (h : l.head? ≠ some '>') : parseLine l = .body (rstripChars l) := by
  unfold parseLine
  split
  · exact absurd rfl h
  · rfl

/-- the loop body / the flush as functions of the loop-carried triple (`chrom`, `cursor`, `run_start`) -/
def stepFn (st : List Char × Nat × Option Nat) (l : List Char) :
    List (List Char × Nat × Nat) × (List Char × Nat × Option Nat) :=
  src_get_regions_step st.1 st.2.1 st.2.2 l

def finalFn (st : List Char × Nat × Option Nat) : List (List Char × Nat × Nat) :=
  src_get_regions_final st.1 st.2.1 st.2.2

/-- a yielded triple as the model's `Region` (the name as a `String`) -/
def toRegion (r : List Char × Nat × Nat) : Region := (String.ofList r.1, r.2.1, r.2.2)

theorem map_toRegion_tag (c : List Char) (l : List Run) :
    (l.map (tag c)).map toRegion = l.map (fun x => (String.ofList c, x.1, x.2)) := by
  simp [List.map_map, Function.comp_def, tag, toRegion]

/-- **the file loop of the model is the source's loop**: once a header has been read (`chrom` is a string),
    `scanFile` on the parsed lines yields what the generated loop body, iterated over the raw lines and
    followed by the generated flush, yields -/
theorem scanFile_is_source (c : List Char) (st : Scan) (ls : List (List Char)) :
    scanFile (some (String.ofList c)) st (ls.map parseLine) =
      .ok ((Py.genLoop stepFn finalFn (c, st.cursor, st.runStart) ls).map toRegion) := by
  induction ls generalizing c st with
  | nil =>
    simp only [List.map_nil, scanFile, Py.genLoop, finalFn, final_is_source, map_toRegion_tag,
      Option.getD_some]
    rfl
  | cons l ls ih =>
    by_cases hh : l.head? = some '>'
    · obtain ⟨rest, rfl⟩ : ∃ rest, l = '>' :: rest := by
        cases l with
        | nil => simp at hh
        | cons x xs => simp at hh; exact ⟨xs, by rw [hh]⟩
      have hp : parseLine ('>' :: rest) =
          .header (String.ofList (rest.takeWhile (fun ch => !isPySpace ch))) := rfl
      simp only [List.map_cons, hp, scanFile, Py.genLoop, stepFn, step_header]
      rw [ih (rest.takeWhile (fun ch => !isPySpace ch)) ⟨0, none⟩]
      simp only [List.map_append, map_toRegion_tag, Option.getD_some]
      rfl
    · simp only [List.map_cons, parseLine_body l hh, Py.genLoop, stepFn, step_body _ _ _ l hh]
      by_cases he : (rstripChars l).isEmpty = true
      · have hnil : rstripChars l = [] := by simpa using he
        simp only [scanFile, hnil]
        have : stepLine st [] = ([], st) := by simp [stepLine]
        rw [this]
        simp only [List.map_nil, List.nil_append]
        exact ih c st
      · simp only [scanFile, he, Bool.false_eq_true, if_false]
        rw [ih c (stepLine st (rstripChars l)).2]
        simp only [List.map_append, map_toRegion_tag]
        rfl

/-- the whole function: a file that is empty or starts with a header line -/
theorem getRegions_is_source (ls : List (List Char))
    (h : ∀ l, ls.head? = some l → l.head? = some '>') :
    getRegions (ls.map parseLine) = .ok ((Py.genLoop stepFn finalFn ([], 0, none) ls).map toRegion) := by
  cases ls with
  | nil =>
    simp [getRegions, scanFile, Py.genLoop, finalFn, final_is_source, emitOpen]
    rfl
  | cons l ls =>
    obtain ⟨rest, rfl⟩ : ∃ rest, l = '>' :: rest := by
      have := h l rfl
      cases l with
      | nil => simp at this
      | cons x xs => simp at this; exact ⟨xs, by rw [this]⟩
    have hp : parseLine ('>' :: rest) =
        .header (String.ofList (rest.takeWhile (fun ch => !isPySpace ch))) := rfl
    simp only [getRegions, List.map_cons, hp, scanFile, Py.genLoop, stepFn, step_header]
    rw [scanFile_is_source (rest.takeWhile (fun ch => !isPySpace ch)) ⟨0, none⟩]
    simp [emitOpen]

end CnvVerif.Src
