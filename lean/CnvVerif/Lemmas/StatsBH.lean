/-
  Lemmas behind Props/C17.lean, Benjamini–Hochberg part: the sort / running-minimum algorithm of
  `p_adjust_bh` (Model/Stats.lean `padjustBH`) equals the closed form `bhClosed`, and what follows
  from the closed form (bounds, monotone, ties, length).
-/
import CnvVerif.Model.Stats
import Mathlib.Tactic.Linarith
import Mathlib.Tactic.Ring
import Mathlib.Tactic.Positivity
import Mathlib.Tactic.FieldSimp
namespace CnvVerif.Stats

theorem foldl_min_le_init (l : List Rat) (a : Rat) : l.foldl min a ≤ a := by
  induction l generalizing a with
  | nil => simp
  | cons x xs ih => exact le_trans (ih _) (min_le_left _ _)

theorem foldl_min_le_mem (l : List Rat) (a : Rat) (x : Rat) (hx : x ∈ l) : l.foldl min a ≤ x := by
  induction l generalizing a with
  | nil => simp at hx
  | cons y ys ih =>
    rcases List.mem_cons.mp hx with rfl | h
    · exact le_trans (foldl_min_le_init ys (min a x)) (min_le_right _ _)
    · exact ih _ h

theorem foldl_min_attained (l : List Rat) (a : Rat) : l.foldl min a = a ∨ l.foldl min a ∈ l := by
  induction l generalizing a with
  | nil => simp
  | cons y ys ih =>
    rcases ih (min a y) with h | h
    · rcases min_choice a y with h2 | h2
      · left; simp only [List.foldl_cons]; rw [h, h2]
      · right; simp only [List.foldl_cons]; rw [h, h2]; simp
    · right; exact List.mem_cons_of_mem _ h

theorem le_foldl_min (l : List Rat) (a v : Rat) (ha : v ≤ a) (hl : ∀ x ∈ l, v ≤ x) : v ≤ l.foldl min a := by
  rcases foldl_min_attained l a with h | h
  · rw [h]; exact ha
  · exact hl _ h

/-- the closed form is bounded by 1 … -/
theorem bhClosedAt_le_one (p : List Rat) (v : Rat) : bhClosedAt p v ≤ 1 :=
  foldl_min_le_init _ _

/-- the closed form is attained: it is 1 or one of the terms `n·p_j / #{k | p_k ≤ p_j}` with `p_j ≥ v`,
    and it is below every such term -/
theorem bhClosedAt_spec (p : List Rat) (v : Rat) :
    (bhClosedAt p v = 1 ∨ ∃ x ∈ p, v ≤ x ∧ bhClosedAt p v = bhTerm p x) ∧
    (∀ x ∈ p, v ≤ x → bhClosedAt p v ≤ bhTerm p x) := by
  constructor
  · rcases foldl_min_attained ((p.filter (fun x => v ≤ x)).map (bhTerm p)) 1 with h | h
    · left; exact h
    · right
      obtain ⟨x, hx, hxe⟩ := List.mem_map.mp h
      obtain ⟨hxp, hvx⟩ := List.mem_filter.mp hx
      exact ⟨x, hxp, of_decide_eq_true hvx, hxe.symm⟩
  · intro x hx hvx
    apply foldl_min_le_mem
    exact List.mem_map.mpr ⟨x, List.mem_filter.mpr ⟨hx, decide_eq_true hvx⟩, rfl⟩

/-- the three properties of `bhClosedAt_spec` + `bhClosedAt_le_one` determine the value -/
theorem bhClosedAt_unique (p : List Rat) (v c : Rat) (h1 : c ≤ 1)
    (hle : ∀ x ∈ p, v ≤ x → c ≤ bhTerm p x)
    (hat : c = 1 ∨ ∃ x ∈ p, v ≤ x ∧ c = bhTerm p x) : c = bhClosedAt p v := by
  obtain ⟨hat', hle'⟩ := bhClosedAt_spec p v
  apply le_antisymm
  · rcases hat' with h | ⟨x, hx, hvx, h⟩
    · rw [h]; exact h1
    · rw [h]; exact hle x hx hvx
  · rcases hat with h | ⟨x, hx, hvx, h⟩
    · rw [h]; exact bhClosedAt_le_one p v
    · rw [h]; exact hle' x hx hvx

/-- monotone in the raw p-value -/
theorem bhClosedAt_mono (p : List Rat) (u v : Rat) (h : u ≤ v) : bhClosedAt p u ≤ bhClosedAt p v := by
  obtain ⟨hat, -⟩ := bhClosedAt_spec p v
  rcases hat with h1 | ⟨x, hx, hvx, h1⟩
  · rw [h1]; exact bhClosedAt_le_one p u
  · rw [h1]; exact (bhClosedAt_spec p u).2 x hx (le_trans h hvx)

theorem countP_le_pos (p : List Rat) (x : Rat) (hx : x ∈ p) : 0 < p.countP (fun y => decide (y ≤ x)) :=
  List.countP_pos_iff.mpr ⟨x, hx, by simp⟩

theorem le_bhTerm (p : List Rat) (h0 : ∀ x ∈ p, 0 ≤ x) (x : Rat) (hx : x ∈ p) : x ≤ bhTerm p x := by
  unfold bhTerm
  have hc : 0 < p.countP (fun y => decide (y ≤ x)) := countP_le_pos p x hx
  have hn : p.countP (fun y => decide (y ≤ x)) ≤ p.length := List.countP_le_length
  have hc' : (0 : Rat) < ((p.countP (fun y => decide (y ≤ x)) : Nat) : Rat) := by exact_mod_cast hc
  have hn' : ((p.countP (fun y => decide (y ≤ x)) : Nat) : Rat) ≤ (p.length : Rat) := by exact_mod_cast hn
  rw [le_div_iff₀ hc']
  have := h0 x hx
  nlinarith

/-- … and never below the raw p-value -/
theorem le_bhClosedAt (p : List Rat) (h0 : ∀ x ∈ p, 0 ≤ x) (v : Rat) (hv : v ≤ 1) : v ≤ bhClosedAt p v := by
  obtain ⟨hat, -⟩ := bhClosedAt_spec p v
  rcases hat with h1 | ⟨x, hx, hvx, h1⟩
  · rw [h1]; exact hv
  · rw [h1]; exact le_trans hvx (le_bhTerm p h0 x hx)

theorem zip_filter_map_snd {α β : Type} (l : List α) (g : α → β) (P : α → Bool) :
    ((l.zip (l.map g)).filter (fun e => P e.1)).map (·.2) = (l.filter P).map g := by
  induction l with
  | nil => rfl
  | cons a t ih =>
    simp only [List.map_cons, List.zip_cons_cons, List.filter_cons]
    by_cases h : P a
    · simp [h, ih]
    · simp [h, ih]

/-- the driver's term-sharing evaluation is the closed form -/
theorem bhClosedFast_eq (p : List Rat) : bhClosedFast p = bhClosed p := by
  unfold bhClosedFast bhClosed
  apply List.map_congr_left
  intro v _
  show _ = bhClosedAt p v
  unfold bhClosedAt
  rw [zip_filter_map_snd p (bhTerm p) (fun x => decide (v ≤ x))]

theorem bhTerm_perm {L p : List Rat} (h : L.Perm p) (x : Rat) : bhTerm L x = bhTerm p x := by
  unfold bhTerm
  rw [h.length_eq, h.countP_eq]

theorem bhClosedAt_perm {L p : List Rat} (h : L.Perm p) (v : Rat) : bhClosedAt L v = bhClosedAt p v := by
  obtain ⟨hat, hle⟩ := bhClosedAt_spec L v
  apply bhClosedAt_unique p v _ (bhClosedAt_le_one L v)
  · intro x hx hvx
    rw [← bhTerm_perm h]
    exact hle x (h.mem_iff.mpr hx) hvx
  · rcases hat with h1 | ⟨x, hx, hvx, h1⟩
    · left; exact h1
    · right; exact ⟨x, h.mem_iff.mp hx, hvx, by rw [← bhTerm_perm h]; exact h1⟩

abbrev Desc (l : List Rat) : Prop := l.Pairwise (fun a b => b ≤ a)

/-- in a descending list `pre ++ x :: xs`, the number of values `≤ x` -/
theorem countP_desc (pre xs : List Rat) (x : Rat) (hs : Desc (pre ++ x :: xs)) :
    (pre ++ x :: xs).countP (fun y => decide (y ≤ x)) =
      pre.countP (fun y => decide (y ≤ x)) + (xs.length + 1) := by
  obtain ⟨-, hxs, -⟩ := List.pairwise_append.mp hs
  obtain ⟨hx, -⟩ := List.pairwise_cons.mp hxs
  have : xs.countP (fun y => decide (y ≤ x)) = xs.length :=
    List.countP_eq_length.mpr (fun a ha => decide_eq_true (hx a ha))
  rw [List.countP_append, List.countP_cons, this]
  simp

theorem scan_step (pre xs : List Rat) (x cur : Rat) (hs : Desc (pre ++ x :: xs)) (h0 : 0 ≤ x)
    (hle : ∀ y ∈ pre, cur ≤ bhTerm (pre ++ x :: xs) y) :
    min cur (((pre ++ x :: xs).length : Rat) / ((xs.length + 1 : Nat) : Rat) * x) ≤ bhTerm (pre ++ x :: xs) x ∧
    (min cur (((pre ++ x :: xs).length : Rat) / ((xs.length + 1 : Nat) : Rat) * x) = cur ∨
     min cur (((pre ++ x :: xs).length : Rat) / ((xs.length + 1 : Nat) : Rat) * x) = bhTerm (pre ++ x :: xs) x) := by
  have hT : bhTerm (pre ++ x :: xs) x = ((pre ++ x :: xs).length : Rat) * x /
      ((pre.countP (fun y => decide (y ≤ x)) + (xs.length + 1) : Nat) : Rat) := by
    unfold bhTerm; rw [countP_desc pre xs x hs]
  generalize hN : ((pre ++ x :: xs).length : Rat) = N at *
  have hN0 : 0 ≤ N := by rw [← hN]; exact Nat.cast_nonneg _
  have hm : (0 : Rat) < ((xs.length + 1 : Nat) : Rat) := by exact_mod_cast Nat.succ_pos _
  by_cases hj : pre.countP (fun y => decide (y ≤ x)) = 0
  · have : bhTerm (pre ++ x :: xs) x = N / ((xs.length + 1 : Nat) : Rat) * x := by
      rw [hT, hj, Nat.zero_add, div_mul_eq_mul_div]
    rw [this]
    exact ⟨min_le_right _ _, min_choice _ _⟩
  · have hpos : 0 < pre.countP (fun y => decide (y ≤ x)) := Nat.pos_of_ne_zero hj
    obtain ⟨y, hy, hyx⟩ := List.countP_pos_iff.mp hpos
    have hyx : y ≤ x := of_decide_eq_true hyx
    obtain ⟨-, -, hpx⟩ := List.pairwise_append.mp hs
    have hxy : x ≤ y := hpx y hy x (by simp)
    have hyeq : y = x := le_antisymm hyx hxy
    have hcur : cur ≤ bhTerm (pre ++ x :: xs) x := hyeq ▸ hle y hy
    have hTa : bhTerm (pre ++ x :: xs) x ≤ N / ((xs.length + 1 : Nat) : Rat) * x := by
      rw [hT, div_mul_eq_mul_div]
      apply div_le_div_of_nonneg_left (mul_nonneg hN0 h0) hm
      exact_mod_cast Nat.le_add_left _ _
    have : min cur (N / ((xs.length + 1 : Nat) : Rat) * x) = cur := min_eq_left (le_trans hcur hTa)
    rw [this]
    exact ⟨hcur, Or.inl rfl⟩

theorem head_eq (pre xs : List Rat) (x c : Rat) (hs : Desc (pre ++ x :: xs))
    (hle : ∀ y ∈ pre ++ [x], c ≤ bhTerm (pre ++ x :: xs) y)
    (hat : ∃ y ∈ pre ++ [x], c = bhTerm (pre ++ x :: xs) y) :
    min 1 c = bhClosedAt (pre ++ x :: xs) x := by
  obtain ⟨-, hxs, hpx⟩ := List.pairwise_append.mp hs
  obtain ⟨hx, -⟩ := List.pairwise_cons.mp hxs
  apply bhClosedAt_unique _ _ _ (min_le_left _ _)
  · intro y hy hxy
    apply le_trans (min_le_right _ _)
    rcases List.mem_append.mp hy with h | h
    · exact hle y (List.mem_append_left _ h)
    · have hyx : y ≤ x := by
        rcases List.mem_cons.mp h with rfl | h
        · exact le_refl _
        · exact hx y h
      have : y = x := le_antisymm hyx hxy
      rw [this]; exact hle x (by simp)
  · rcases min_choice 1 c with h | h
    · left; exact h
    · right
      obtain ⟨y, hy, hc⟩ := hat
      refine ⟨y, ?_, ?_, by rw [h]; exact hc⟩
      · rcases List.mem_append.mp hy with h | h
        · exact List.mem_append_left _ h
        · apply List.mem_append_right
          have : y = x := by simpa using h
          rw [this]; simp
      · rcases List.mem_append.mp hy with h | h
        · exact hpx y h x (by simp)
        · have : y = x := by simpa using h
          rw [this]

theorem bhScan_eq (L : List Rat) (h0 : ∀ x ∈ L, 0 ≤ x) (hs : Desc L) (pre rest : List Rat) (cur : Rat)
    (hL : L = pre ++ rest)
    (hle : ∀ y ∈ pre, cur ≤ bhTerm L y) (hat : ∃ y ∈ pre, cur = bhTerm L y) :
    (bhScan L.length cur rest).map (fun x => min 1 x) = rest.map (bhClosedAt L) := by
  induction rest generalizing pre cur with
  | nil => rfl
  | cons x xs ih =>
    subst hL
    obtain ⟨hcx, hch⟩ := scan_step pre xs x cur hs (h0 x (by simp)) hle
    have hle' : ∀ y ∈ pre ++ [x], min cur (((pre ++ x :: xs).length : Rat) / ((xs.length + 1 : Nat) : Rat) * x)
        ≤ bhTerm (pre ++ x :: xs) y := by
      intro y hy
      rcases List.mem_append.mp hy with h | h
      · exact le_trans (min_le_left _ _) (hle y h)
      · have : y = x := by simpa using h
        rw [this]; exact hcx
    have hat' : ∃ y ∈ pre ++ [x], min cur (((pre ++ x :: xs).length : Rat) / ((xs.length + 1 : Nat) : Rat) * x)
        = bhTerm (pre ++ x :: xs) y := by
      rcases hch with h | h
      · obtain ⟨y, hy, hc⟩ := hat
        exact ⟨y, List.mem_append_left _ hy, by rw [h]; exact hc⟩
      · exact ⟨x, by simp, h⟩
    simp only [bhScan, List.map_cons]
    rw [head_eq pre xs x _ hs hle' hat']
    rw [ih (pre ++ [x]) _ (by simp) hle' hat']

theorem bhAccumulate_eq (L : List Rat) (h0 : ∀ x ∈ L, 0 ≤ x) (hs : Desc L) :
    (bhAccumulate L.length L).map (fun x => min 1 x) = L.map (bhClosedAt L) := by
  cases L with
  | nil => rfl
  | cons x xs =>
    have hT : bhTerm (x :: xs) x = (((x :: xs).length : Nat) : Rat) / ((xs.length + 1 : Nat) : Rat) * x := by
      have := countP_desc [] xs x hs
      simp only [List.nil_append, List.countP_nil, Nat.zero_add] at this
      unfold bhTerm
      rw [this, div_mul_eq_mul_div]
    have hle' : ∀ y ∈ [] ++ [x], (((x :: xs).length : Nat) : Rat) / ((xs.length + 1 : Nat) : Rat) * x
        ≤ bhTerm ([] ++ x :: xs) y := by
      intro y hy
      have : y = x := by simpa using hy
      rw [this, List.nil_append, hT]
    have hat' : ∃ y ∈ [] ++ [x], (((x :: xs).length : Nat) : Rat) / ((xs.length + 1 : Nat) : Rat) * x
        = bhTerm ([] ++ x :: xs) y := ⟨x, by simp, by rw [List.nil_append, hT]⟩
    simp only [bhAccumulate, List.map_cons]
    have h1 := head_eq [] xs x _ hs hle' hat'
    have h2 := bhScan_eq (x :: xs) h0 hs [x] xs _ rfl hle' hat'
    rw [List.nil_append] at h1
    rw [h1, h2]

theorem bhDescending_perm (p : List Rat) : (bhDescending p).Perm p.zipIdx :=
  List.mergeSort_perm _ _

theorem bhDescending_fst_perm (p : List Rat) : ((bhDescending p).map (·.1)).Perm p := by
  have := (bhDescending_perm p).map Prod.fst
  rwa [List.zipIdx_map_fst] at this

theorem bhDescending_desc (p : List Rat) : Desc ((bhDescending p).map (·.1)) := by
  have h : (bhDescending p).Pairwise (fun a b => decide (b.1 ≤ a.1) = true) :=
    List.pairwise_mergeSort
      (le := fun (a b : Rat × Nat) => decide (b.1 ≤ a.1))
      (fun a b c hab hbc => decide_eq_true (le_trans (of_decide_eq_true hbc) (of_decide_eq_true hab)))
      (fun a b => by
        rcases le_total a.1 b.1 with h | h
        · simp [h]
        · simp [h])
      _
  rw [Desc, List.pairwise_map]
  exact h.imp (fun h => of_decide_eq_true h)

theorem bhDescending_length (p : List Rat) : (bhDescending p).length = p.length := by
  rw [(bhDescending_perm p).length_eq, List.length_zipIdx]

/-- the value at the position of original index `i` in the descending order is `p[i]` -/
theorem bhDescending_idxOf (p : List Rat) (i : Nat) (hi : i < p.length) :
    ∃ h : ((bhDescending p).map (·.2)).idxOf i < (bhDescending p).length,
      ((bhDescending p)[((bhDescending p).map (·.2)).idxOf i]).1 = p[i] := by
  have hmem : (p[i], i) ∈ bhDescending p := by
    rw [(bhDescending_perm p).mem_iff, List.mem_zipIdx_iff_getElem?]
    simp [hi]
  have hi2 : i ∈ (bhDescending p).map (·.2) := List.mem_map.mpr ⟨_, hmem, rfl⟩
  have hr := List.idxOf_lt_length_iff.mpr hi2
  have hr' : ((bhDescending p).map (·.2)).idxOf i < (bhDescending p).length := by
    simpa using hr
  refine ⟨hr', ?_⟩
  have h2 : ((bhDescending p).map (·.2))[((bhDescending p).map (·.2)).idxOf i] = i :=
    List.getElem_idxOf hr
  rw [List.getElem_map] at h2
  have h3 : (bhDescending p)[((bhDescending p).map (·.2)).idxOf i] ∈ p.zipIdx :=
    (bhDescending_perm p).mem_iff.mp (List.getElem_mem hr')
  rw [List.mem_zipIdx_iff_getElem?, h2] at h3
  rw [List.getElem?_eq_getElem hi] at h3
  exact (Option.some.inj h3).symm

theorem padjustBH_length (p : List Rat) : (padjustBH p).length = p.length := by
  simp [padjustBH]

/-- the algorithm computes the closed form: `q_i = min(1, min_{j : p_j ≥ p_i} n·p_j / #{k | p_k ≤ p_j})` -/
theorem padjustBH_eq_closed (p : List Rat) (h0 : ∀ x ∈ p, 0 ≤ x) : padjustBH p = bhClosed p := by
  have hperm := bhDescending_fst_perm p
  have hacc := bhAccumulate_eq ((bhDescending p).map (·.1))
    (fun x hx => h0 x (hperm.mem_iff.mp hx)) (bhDescending_desc p)
  rw [List.length_map, bhDescending_length] at hacc
  have hfun : bhClosedAt ((bhDescending p).map (·.1)) = bhClosedAt p := funext (bhClosedAt_perm hperm)
  rw [hfun] at hacc
  unfold padjustBH bhClosed
  simp only []
  rw [hacc]
  apply List.ext_getElem
  · simp
  · intro i h1 h2
    have hi : i < p.length := by simpa using h2
    obtain ⟨hr, hv⟩ := bhDescending_idxOf p i hi
    simp only [List.getElem_map, List.getElem_range]
    rw [List.getD_eq_getElem?_getD, List.getElem?_eq_getElem (by simpa using hr)]
    simp only [List.getElem_map, Option.getD_some]
    rw [hv]

end CnvVerif.Stats
