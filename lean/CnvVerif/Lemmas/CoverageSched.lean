/-
  Lemmas behind Props/C09Sched.lean: the pool invariant of Model/CoverageSched.lean holds along EVERY schedule,
  a quiescent pool has every result in its submission slot, what `Executor.map` has yielded so far is always a
  prefix of the serial result, every schedule can be completed (no deadlock), and the two coverage commands
  under an arbitrary schedule equal their serial runs.  Core Lean only.
-/
import CnvVerif.Model.CoverageSched
import CnvVerif.Lemmas.Coverage
set_option linter.unusedSimpArgs false
set_option linter.unusedVariables false
namespace CnvVerif.Cov.Sched
open CnvVerif CnvVerif.Cov

variable {α β : Type}

/-! ## list facts -/

theorem lt_of_getElem?_some {γ} (l : List γ) (i : Nat) (x : γ) (h : l[i]? = some x) : i < l.length := by
  obtain ⟨hlt, _⟩ := List.getElem?_eq_some_iff.mp h
  exact hlt

theorem mem_enum (xs : List α) (i : Nat) (x : α) :
    (i, x) ∈ (List.range xs.length).zip xs ↔ xs[i]? = some x := by
  rw [List.mem_iff_getElem?]
  constructor
  · rintro ⟨k, hk⟩
    rw [List.getElem?_zip_eq_some] at hk
    obtain ⟨h1, h2⟩ := hk
    simp only at h1 h2
    have hk : k < xs.length := lt_of_getElem?_some _ _ _ h2
    rw [List.getElem?_range hk] at h1
    simp only [Option.some.injEq] at h1; rw [← h1]; exact h2
  · intro h
    refine ⟨i, ?_⟩
    rw [List.getElem?_zip_eq_some]
    have hlt : i < xs.length := lt_of_getElem?_some _ _ _ h
    exact ⟨by simp [List.getElem?_range hlt], h⟩

theorem mem_split_eraseIdx (l : List α) (k : Nat) (t a : α) (hk : l[k]? = some t) (ha : a ∈ l) :
    a = t ∨ a ∈ l.eraseIdx k := by
  obtain ⟨j, hj⟩ := List.mem_iff_getElem?.mp ha
  by_cases hjk : j = k
  · left
    rw [hjk, hk] at hj
    exact (Option.some.inj hj).symm
  · right
    rw [List.mem_eraseIdx_iff_getElem?]
    exact ⟨j, hjk, hj⟩

theorem countP_set_some (l : List (Option α)) (w : Nat) (t : α) (h : l[w]? = some none) :
    (l.set w (some t)).countP Option.isSome = l.countP Option.isSome + 1 := by
  induction l generalizing w with
  | nil => simp at h
  | cons a tl ih =>
    cases w with
    | zero =>
      simp only [List.getElem?_cons_zero, Option.some.injEq] at h
      subst h
      simp [List.set, List.countP_cons]
    | succ w =>
      simp only [List.getElem?_cons_succ] at h
      simp only [List.set, List.countP_cons, ih w h]
      omega

theorem countP_set_none (l : List (Option α)) (w : Nat) (v : α) (h : l[w]? = some (some v)) :
    (l.set w none).countP Option.isSome + 1 = l.countP Option.isSome := by
  induction l generalizing w with
  | nil => simp at h
  | cons a tl ih =>
    cases w with
    | zero =>
      simp only [List.getElem?_cons_zero, Option.some.injEq] at h
      subst h
      simp [List.set, List.countP_cons]
    | succ w =>
      simp only [List.getElem?_cons_succ] at h
      simp only [List.set, List.countP_cons]
      have := ih w h
      omega

/-! ## the invariant -/

/-- what is true of the pool at every moment, relative to the submitted tasks `xs` -/
structure Inv (f : α → β) (xs : List α) (st : St α β) : Prop where
  pend_ok : ∀ (i : Nat) (x : α), (i, x) ∈ st.pending → xs[i]? = some x
  run_ok : ∀ (w i : Nat) (x : α), st.running[w]? = some (some (i, x)) → xs[i]? = some x
  len : st.slots.length = xs.length
  slot_ok : ∀ (i : Nat) (y : β), st.slots[i]? = some (some y) → (xs[i]?).map f = some y
  acct : ∀ (i : Nat) (x : α), xs[i]? = some x →
    (i, x) ∈ st.pending ∨ (∃ w : Nat, st.running[w]? = some (some (i, x))) ∨ st.slots[i]? = some (some (f x))

theorem inv_init (f : α → β) (xs : List α) (nw : Nat) : Inv f xs (init nw xs : St α β) where
  pend_ok := fun i x h => (mem_enum xs i x).mp h
  run_ok := by
    intro w i x h
    simp only [init] at h
    rw [List.getElem?_replicate] at h
    split at h <;> simp at h
  len := by simp [init]
  slot_ok := by
    intro i y h
    simp only [init] at h
    rw [List.getElem?_replicate] at h
    split at h <;> simp at h
  acct := fun i x h => Or.inl ((mem_enum xs i x).mpr h)

theorem step_take_cases (f : α → β) (st : St α β) (w k : Nat) :
    step f st (.take w k) = st ∨ ∃ t, st.running[w]? = some none ∧ st.pending[k]? = some t ∧
      step f st (.take w k) =
        { st with pending := st.pending.eraseIdx k, running := st.running.set w (some t) } := by
  cases hw : st.running[w]? with
  | none => left; simp [step, hw]
  | some r =>
    cases r with
    | some v => left; simp [step, hw]
    | none =>
      cases hk : st.pending[k]? with
      | none => left; simp [step, hw, hk]
      | some t => right; exact ⟨t, rfl, rfl, by simp [step, hw, hk]⟩

theorem step_finish_cases (f : α → β) (st : St α β) (w : Nat) :
    step f st (.finish w) = st ∨ ∃ (i : Nat) (x : α), st.running[w]? = some (some (i, x)) ∧
      step f st (.finish w) =
        { st with running := st.running.set w none, slots := st.slots.set i (some (f x)),
                  log := st.log ++ [(i, f x)] } := by
  cases hw : st.running[w]? with
  | none => left; simp [step, hw]
  | some r =>
    cases r with
    | none => left; simp [step, hw]
    | some v => right; exact ⟨v.1, v.2, rfl, by simp [step, hw]⟩

theorem inv_step (f : α → β) (xs : List α) (st : St α β) (ev : Ev) (h : Inv f xs st) : Inv f xs (step f st ev) := by
  cases ev with
  | take w k =>
    rcases step_take_cases f st w k with he | ⟨t, hw, hk, he⟩
    · rw [he]; exact h
    · rw [he]
      refine ⟨?_, ?_, h.len, h.slot_ok, ?_⟩
      · intro i x hm
        exact h.pend_ok i x (List.mem_of_mem_eraseIdx hm)
      · intro w' i x hr
        by_cases hww : w = w'
        · subst hww
          have hr' : (st.running.set w (some t))[w]? = some (some (i, x)) := hr
          rw [List.getElem?_set_self (lt_of_getElem?_some _ _ _ hw)] at hr'
          have ht : t = (i, x) := Option.some.inj (Option.some.inj hr')
          have : t ∈ st.pending := List.mem_of_getElem? hk
          rw [ht] at this
          exact h.pend_ok i x this
        · have hr' : (st.running.set w (some t))[w']? = some (some (i, x)) := hr
          rw [List.getElem?_set_ne hww] at hr'
          exact h.run_ok w' i x hr'
      · intro i x hx
        rcases h.acct i x hx with hp | ⟨w', hr⟩ | hs
        · rcases mem_split_eraseIdx _ _ _ _ hk hp with he | he
          · right; left
            refine ⟨w, ?_⟩
            show (st.running.set w (some t))[w]? = some (some (i, x))
            rw [List.getElem?_set_self (lt_of_getElem?_some _ _ _ hw), he]
          · left; exact he
        · right; left
          refine ⟨w', ?_⟩
          have hne : w ≠ w' := by
            intro he; subst he; rw [hw] at hr; exact absurd hr (by simp)
          show (st.running.set w (some t))[w']? = some (some (i, x))
          rw [List.getElem?_set_ne hne]; exact hr
        · right; right; exact hs
  | finish w =>
    rcases step_finish_cases f st w with he | ⟨i, x, hw, he⟩
    · rw [he]; exact h
    · rw [he]
      have hxi : xs[i]? = some x := h.run_ok w i x hw
      have hil : i < st.slots.length := by rw [h.len]; exact lt_of_getElem?_some _ _ _ hxi
      refine ⟨h.pend_ok, ?_, ?_, ?_, ?_⟩
      · intro w' i' x' hr
        have hr' : (st.running.set w none)[w']? = some (some (i', x')) := hr
        by_cases hww : w = w'
        · subst hww
          rw [List.getElem?_set_self (lt_of_getElem?_some _ _ _ hw)] at hr'
          exact absurd hr' (by simp)
        · rw [List.getElem?_set_ne hww] at hr'
          exact h.run_ok w' i' x' hr'
      · show (st.slots.set i (some (f x))).length = xs.length
        rw [List.length_set]; exact h.len
      · intro j y hs
        have hs' : (st.slots.set i (some (f x)))[j]? = some (some y) := hs
        by_cases hij : i = j
        · subst hij
          rw [List.getElem?_set_self hil] at hs'
          rw [hxi]
          simpa using hs'
        · rw [List.getElem?_set_ne hij] at hs'
          exact h.slot_ok j y hs'
      · intro j x' hx'
        rcases h.acct j x' hx' with hp | ⟨w', hr⟩ | hs
        · left; exact hp
        · by_cases hww : w = w'
          · subst hww
            rw [hw] at hr
            have he : (i, x) = (j, x') := Option.some.inj (Option.some.inj hr)
            have hi : i = j := congrArg Prod.fst he
            have hxx : x = x' := congrArg Prod.snd he
            right; right
            show (st.slots.set i (some (f x)))[j]? = some (some (f x'))
            rw [← hi, ← hxx, List.getElem?_set_self hil]
          · right; left
            refine ⟨w', ?_⟩
            show (st.running.set w none)[w']? = some (some (j, x'))
            rw [List.getElem?_set_ne hww]; exact hr
        · right; right
          show (st.slots.set i (some (f x)))[j]? = some (some (f x'))
          by_cases hij : i = j
          · subst hij
            rw [hxi] at hx'
            rw [List.getElem?_set_self hil, Option.some.inj hx']
          · rw [List.getElem?_set_ne hij]; exact hs

theorem inv_run (f : α → β) (xs : List α) (st : St α β) (evs : List Ev) (h : Inv f xs st) :
    Inv f xs (run f st evs) := by
  induction evs generalizing st with
  | nil => exact h
  | cons e t ih => exact ih _ (inv_step f xs st e h)

/-! ## what the consumer sees -/

theorem quiescent_iff (st : St α β) :
    quiescent st = true ↔ st.pending = [] ∧ ∀ (w : Nat) v, st.running[w]? = some v → v = none := by
  unfold quiescent
  rw [Bool.and_eq_true, List.isEmpty_iff, List.all_eq_true]
  constructor
  · rintro ⟨hp, hr⟩
    refine ⟨hp, fun w v hv => ?_⟩
    have := hr v (List.mem_of_getElem? hv)
    cases v with
    | none => rfl
    | some _ => simp at this
  · rintro ⟨hp, hr⟩
    refine ⟨hp, fun v hv => ?_⟩
    obtain ⟨w, hw⟩ := List.mem_iff_getElem?.mp hv
    rw [hr w v hw]; rfl

/-- a quiescent pool holds exactly the serial results, slot by slot -/
theorem slots_of_quiescent (f : α → β) (xs : List α) (st : St α β) (h : Inv f xs st)
    (hq : quiescent st = true) : st.slots = (xs.map f).map some := by
  obtain ⟨hp, hr⟩ := (quiescent_iff st).mp hq
  apply List.ext_getElem?
  intro i
  by_cases hi : i < xs.length
  · have hx : xs[i]? = some xs[i] := List.getElem?_eq_getElem hi
    rcases h.acct i xs[i] hx with hm | ⟨w, hw⟩ | hs
    · rw [hp] at hm; exact absurd hm (by simp)
    · exact absurd (hr w _ hw) (by simp)
    · rw [hs]; simp [hx]
  · rw [List.getElem?_eq_none (by rw [h.len]; omega), List.getElem?_eq_none (by simp; omega)]

theorem filterMap_id_map_some (ys : List β) : (ys.map some).filterMap id = ys := by
  induction ys with
  | nil => rfl
  | cons a t ih => simp [List.filterMap_cons, ih]

theorem gatherOrdered_of_quiescent (f : α → β) (xs : List α) (st : St α β) (h : Inv f xs st)
    (hq : quiescent st = true) : gatherOrdered st = xs.map f := by
  unfold gatherOrdered
  rw [slots_of_quiescent f xs st h hq, filterMap_id_map_some]

/-- generic: slots that are empty or right yield a prefix of the right answers -/
theorem yielded_prefix_aux (sl : List (Option β)) (ys : List β)
    (hok : ∀ (i : Nat) (y : β), sl[i]? = some (some y) → ys[i]? = some y) :
    ((sl.takeWhile Option.isSome).filterMap id) <+: ys := by
  induction sl generalizing ys with
  | nil => exact List.nil_prefix
  | cons a t ih =>
    cases a with
    | none => simp [List.takeWhile_cons]
    | some y =>
      have h0 := hok 0 y (by simp)
      cases ys with
      | nil => simp at h0
      | cons b u =>
        simp only [List.getElem?_cons_zero, Option.some.injEq] at h0
        subst h0
        simp only [List.takeWhile_cons, Option.isSome_some, if_true, List.filterMap_cons, id]
        rw [List.cons_prefix_cons]
        refine ⟨rfl, ih u ?_⟩
        intro i z hz
        have := hok (i + 1) z (by simpa using hz)
        simpa using this

theorem yielded_prefix (f : α → β) (xs : List α) (st : St α β) (h : Inv f xs st) :
    yieldedSoFar st <+: xs.map f := by
  unfold yieldedSoFar
  apply yielded_prefix_aux
  intro i y hy
  have := h.slot_ok i y hy
  rw [List.getElem?_map]; exact this

/-! ## progress: no deadlock, every schedule can be completed -/

theorem running_length_step (f : α → β) (st : St α β) (ev : Ev) :
    (step f st ev).running.length = st.running.length := by
  cases ev with
  | take w k =>
    rcases step_take_cases f st w k with he | ⟨t, _, _, he⟩ <;> rw [he]
    show (st.running.set w (some t)).length = _
    rw [List.length_set]
  | finish w =>
    rcases step_finish_cases f st w with he | ⟨i, x, _, he⟩ <;> rw [he]
    show (st.running.set w none).length = _
    rw [List.length_set]

theorem progress (f : α → β) (st : St α β) (hq : quiescent st = false) (hw : 0 < st.running.length) :
    ∃ ev, measure (step f st ev) < measure st := by
  by_cases hbusy : ∃ (w : Nat) (v : Nat × α), st.running[w]? = some (some v)
  · obtain ⟨w, ⟨i, x⟩, hv⟩ := hbusy
    refine ⟨.finish w, ?_⟩
    have he : (step f st (.finish w)).pending = st.pending ∧
        (step f st (.finish w)).running = st.running.set w none := by simp [step, hv]
    unfold measure
    rw [he.1, he.2]
    have := countP_set_none st.running w (i, x) hv
    show 2 * st.pending.length + (st.running.set w none).countP Option.isSome <
      2 * st.pending.length + st.running.countP Option.isSome
    omega
  · have hidle : ∀ (w : Nat) v, st.running[w]? = some v → v = none := by
      intro w v hv
      cases v with
      | none => rfl
      | some v => exact absurd ⟨w, v, hv⟩ hbusy
    have hp : st.pending ≠ [] := by
      intro hp
      have : quiescent st = true := (quiescent_iff st).mpr ⟨hp, hidle⟩
      rw [this] at hq; exact absurd hq (by simp)
    obtain ⟨t, tl, hpt⟩ := List.exists_cons_of_ne_nil hp
    have h0 : st.running[0]? = some none := by
      have : st.running[0]? = some st.running[0] := List.getElem?_eq_getElem hw
      rw [this, hidle 0 _ this]
    refine ⟨.take 0 0, ?_⟩
    have hk : st.pending[0]? = some t := by rw [hpt]; rfl
    have he : (step f st (.take 0 0)).pending = st.pending.eraseIdx 0 ∧
        (step f st (.take 0 0)).running = st.running.set 0 (some t) := by simp [step, h0, hk]
    unfold measure
    rw [he.1, he.2]
    have := countP_set_some st.running 0 t h0
    show 2 * (st.pending.eraseIdx 0).length + (st.running.set 0 (some t)).countP Option.isSome <
      2 * st.pending.length + st.running.countP Option.isSome
    rw [this, hpt]
    simp only [List.eraseIdx_cons_zero, List.length_cons]
    omega

theorem exists_completion (f : α → β) (n : Nat) (st : St α β) (hm : measure st ≤ n)
    (hw : 0 < st.running.length) : ∃ evs, quiescent (run f st evs) = true := by
  induction n generalizing st with
  | zero =>
    by_cases hq : quiescent st = true
    · exact ⟨[], hq⟩
    · obtain ⟨ev, hlt⟩ := progress f st (by simpa using hq) hw
      omega
  | succ n ih =>
    by_cases hq : quiescent st = true
    · exact ⟨[], hq⟩
    · obtain ⟨ev, hlt⟩ := progress f st (by simpa using hq) hw
      obtain ⟨evs, he⟩ := ih (step f st ev) (by omega) (by rw [running_length_step]; exact hw)
      exact ⟨ev :: evs, he⟩

theorem run_append (f : α → β) (st : St α β) (e1 e2 : List Ev) :
    run f st (e1 ++ e2) = run f (run f st e1) e2 := by
  unfold run; rw [List.foldl_append]

theorem running_length_run (f : α → β) (st : St α β) (evs : List Ev) :
    (run f st evs).running.length = st.running.length := by
  induction evs generalizing st with
  | nil => rfl
  | cons e t ih =>
    show (run f (step f st e) t).running.length = _
    rw [ih, running_length_step]

/-! ## `pool.map` under a schedule -/

theorem schedMap_ordered (f : α → β) (xs : List α) (nw : Nat) (evs : List Ev) (ys : List β)
    (h : schedMap "ordered" f xs nw evs = some ys) : ys = xs.map f := by
  unfold schedMap at h
  simp only at h
  split at h
  · rename_i hq
    have hinv := inv_run f xs _ evs (inv_init f xs nw)
    have := gatherOrdered_of_quiescent f xs _ hinv hq
    simp only [gatherBy, beq_self_eq_true, if_true] at h
    rw [← Option.some.inj h, this]
  · exact absurd h (by simp)

/-- any prefix of events can be continued to a finished pool, whose result is the serial one -/
theorem schedMap_completable (f : α → β) (xs : List α) (nw : Nat) (hnw : 0 < nw) (evs : List Ev) :
    ∃ more, schedMap "ordered" f xs nw (evs ++ more) = some (xs.map f) := by
  have hlen : (run f (init nw xs : St α β) evs).running.length = nw := by
    rw [running_length_run]; simp [init]
  obtain ⟨more, hq⟩ := exists_completion f _ (run f (init nw xs) evs) (Nat.le_refl _) (by omega)
  refine ⟨more, ?_⟩
  have hq' : quiescent (run f (init nw xs : St α β) (evs ++ more)) = true := by rw [run_append]; exact hq
  have hinv := inv_run f xs _ (evs ++ more) (inv_init f xs nw)
  unfold schedMap
  simp only [hq', if_true, gatherBy, beq_self_eq_true]
  rw [gatherOrdered_of_quiescent f xs _ hinv hq']

/-! ## the commands -/

theorem modes_ordered : Generated.COVERAGE_GATHER_MODES.getD 0 "" = "ordered" ∧
    Generated.COVERAGE_GATHER_MODES.getD 1 "" = "ordered" := ⟨rfl, rfl⟩

theorem countTableSched_eq (contigs : List (String × Nat)) (reads : List ARead) (q : Nat) (lines : List BedLine)
    (procs nw : Nat) (evs : List Ev) (t : List OutRow)
    (h : countTableSched contigs reads q lines procs nw evs = some t) :
    t = countTable contigs reads q lines 1 [] := by
  unfold countTableSched at h
  unfold countTable
  simp only at h ⊢
  split at h
  · simp only [beq_self_eq_true, if_true]
    exact (Option.some.inj h).symm
  · rw [modes_ordered.1] at h
    simp only [beq_self_eq_true, if_true]
    rw [Option.map_eq_some_iff] at h
    obtain ⟨ys, hys, ht⟩ := h
    rw [schedMap_ordered _ _ _ _ _ hys] at ht
    rw [← ht, List.flatMap_def]

theorem pileupTableSched_eq (contigs : List (String × Nat)) (reads : List ARead) (q : Nat) (lines : List BedLine)
    (procs size nw : Nat) (evs : List Ev) (hs : 0 < size) (t : List OutRow)
    (h : pileupTableSched contigs reads q lines procs size nw evs = some t) :
    t = pileupTable contigs reads q lines 1 1 [] := by
  unfold pileupTableSched at h
  unfold pileupTable
  simp only at h ⊢
  simp only [beq_self_eq_true, if_true]
  rw [Option.map_eq_some_iff] at h
  obtain ⟨raw, hraw, ht⟩ := h
  rw [← ht]
  congr 1
  split at hraw
  · exact (Option.some.inj hraw).symm
  · rw [modes_ordered.2, Option.map_eq_some_iff] at hraw
    obtain ⟨ys, hys, hr⟩ := hraw
    rw [schedMap_ordered _ _ _ _ _ hys] at hr
    rw [← hr, bedcov_chunks _ _ _ _ _ hs]

theorem coverageSched_eq_serial (contigs : List (String × Nat)) (reads : List Read) (q : Nat)
    (lines : List BedLine) (algo : Algo) (procs size nw : Nat) (evs : List Ev) (hs : 0 < size)
    (t : List OutRow) (h : coverageSched contigs reads q lines algo procs size nw evs = .ok (some t)) :
    coverage contigs reads q lines algo 1 1 [] = .ok t := by
  unfold coverageSched at h
  unfold coverage
  cases hv : validate contigs lines with
  | some e => rw [hv] at h; simp at h
  | none =>
    rw [hv] at h
    simp only at h ⊢
    cases algo with
    | count =>
      simp only at h ⊢
      have := Except.ok.inj h
      rw [countTableSched_eq _ _ _ _ _ _ _ _ this]
    | pileup =>
      simp only at h ⊢
      have := Except.ok.inj h
      rw [pileupTableSched_eq _ _ _ _ _ _ _ _ hs _ this]

theorem coverageSched_error_iff (contigs : List (String × Nat)) (reads : List Read) (q : Nat)
    (lines : List BedLine) (algo : Algo) (procs size nw : Nat) (evs : List Ev) (e : String) :
    coverageSched contigs reads q lines algo procs size nw evs = .error e ↔
      coverage contigs reads q lines algo 1 1 [] = .error e := by
  unfold coverageSched coverage
  cases validate contigs lines with
  | some e' => simp
  | none => cases algo <;> simp

/-- every prefix of worker events can be continued so that the command finishes -/
theorem coverageSched_completable (contigs : List (String × Nat)) (reads : List Read) (q : Nat)
    (lines : List BedLine) (algo : Algo) (procs size nw : Nat) (hnw : 0 < nw) (evs : List Ev)
    (hv : validate contigs lines = none) :
    ∃ more t, coverageSched contigs reads q lines algo procs size nw (evs ++ more) = .ok (some t) := by
  unfold coverageSched
  rw [hv]
  cases algo with
  | count =>
    simp only [countTableSched]
    by_cases hp : (procs == 1) = true
    · exact ⟨[], _, by rw [if_pos hp]⟩
    · rw [modes_ordered.1]
      obtain ⟨more, hm⟩ := schedMap_completable (rdcChunk contigs (reads.map align) q)
        ((groupByChrom (sortTable ((records lines).map BedRec.toRow))).map (·.2)) nw hnw evs
      exact ⟨more, _, by rw [if_neg hp, hm]; rfl⟩
  | pileup =>
    simp only [pileupTableSched]
    by_cases hp : (procs == 1) = true
    · exact ⟨[], _, by rw [if_pos hp]; rfl⟩
    · rw [modes_ordered.2]
      obtain ⟨more, hm⟩ := schedMap_completable (bedcov contigs (reads.map align) q)
        (toChunks BedLine.isComment size lines) nw hnw evs
      exact ⟨more, _, by rw [if_neg hp, hm]; rfl⟩

end CnvVerif.Cov.Sched
