/-
  Lemmas behind Props/C19.lean, part 1: order statistics (sort, median, quantile) under
  translation and positive rescaling; the unweighted scale estimators.
-/
import Mathlib.Data.List.Sort
import Mathlib.Tactic.Linarith
import Mathlib.Tactic.Ring
import Mathlib.Tactic.Positivity
import Mathlib.Tactic.FieldSimp
import Mathlib.Algebra.Order.BigOperators.Group.List
import Mathlib.Algebra.Order.Field.Basic
import Mathlib.Algebra.Order.Floor.Ring
import Mathlib.Data.Rat.Floor
import CnvVerif.Model.Descriptives
set_option linter.unusedSimpArgs false
set_option linter.unusedVariables false
namespace CnvVerif.Desc

/-! ### basic vocabulary -/

theorem absR_eq_abs (q : Rat) : absR q = |q| := by
  unfold absR
  split
  · rename_i h; rw [abs_of_neg h]
  · rename_i h; rw [abs_of_nonneg (not_lt.mp h)]

theorem absR_nonneg (q : Rat) : 0 ≤ absR q := by rw [absR_eq_abs]; exact abs_nonneg q

theorem sq_nonneg' (x : Rat) : 0 ≤ sq x := by unfold sq; exact mul_self_nonneg x

theorem nth_eq_getElem (l : List Rat) (i : Nat) (h : i < l.length) : nth l i = l[i] := by
  unfold nth; simp [List.getD, h]

theorem nth_mem (l : List Rat) (i : Nat) (h : i < l.length) : nth l i ∈ l := by
  rw [nth_eq_getElem l i h]; exact List.getElem_mem h

theorem nth_map (f : Rat → Rat) (l : List Rat) (i : Nat) (h : i < l.length) :
    nth (l.map f) i = f (nth l i) := by
  rw [nth_eq_getElem _ _ (by simpa using h), nth_eq_getElem _ _ h]; simp

/-! ### sorting -/

theorem sortR_perm (l : List Rat) : (sortR l).Perm l := List.mergeSort_perm l _

theorem sortR_length (l : List Rat) : (sortR l).length = l.length := (sortR_perm l).length_eq

theorem sortR_sorted (l : List Rat) : (sortR l).Pairwise (· ≤ ·) := by
  have := List.pairwise_mergeSort (le := fun a b : Rat => decide (a ≤ b))
    (fun a b c h₁ h₂ => by simp at *; exact le_trans h₁ h₂)
    (fun a b => by simp; exact le_total a b) l
  unfold sortR
  simpa using this

theorem mem_sortR {l : List Rat} {x : Rat} : x ∈ sortR l ↔ x ∈ l := (sortR_perm l).mem_iff

/-- a sorted permutation is *the* sorted list -/
theorem sorted_perm_unique {l₁ l₂ : List Rat} (h₁ : l₁.Pairwise (· ≤ ·)) (h₂ : l₂.Pairwise (· ≤ ·))
    (hp : l₁.Perm l₂) : l₁ = l₂ := List.Perm.eq_of_pairwise' h₁ h₂ hp

theorem sortR_eq_of_perm {l₁ l₂ : List Rat} (hp : l₁.Perm l₂) : sortR l₁ = sortR l₂ :=
  sorted_perm_unique (sortR_sorted _) (sortR_sorted _) ((sortR_perm l₁).trans (hp.trans (sortR_perm l₂).symm))

theorem sortR_of_sorted {l : List Rat} (h : l.Pairwise (· ≤ ·)) : sortR l = l :=
  sorted_perm_unique (sortR_sorted _) h (sortR_perm l)

/-- sorting commutes with any monotone map -/
theorem sortR_map_mono (f : Rat → Rat) (hf : Monotone f) (l : List Rat) :
    sortR (l.map f) = (sortR l).map f := by
  apply sorted_perm_unique (sortR_sorted _)
  · exact (List.pairwise_map).mpr ((sortR_sorted l).imp (fun h => hf h))
  · exact (sortR_perm _).trans ((sortR_perm l).map f).symm

theorem sortR_map_add (c : Rat) (l : List Rat) : sortR (l.map (· + c)) = (sortR l).map (· + c) :=
  sortR_map_mono _ (fun a b h => by simpa using h) l

theorem sortR_map_mul (k : Rat) (hk : 0 ≤ k) (l : List Rat) : sortR (l.map (k * ·)) = (sortR l).map (k * ·) :=
  sortR_map_mono _ (fun a b h => mul_le_mul_of_nonneg_left h hk) l

theorem sorted_nth_le {s : List Rat} (hs : s.Pairwise (· ≤ ·)) {i j : Nat} (hij : i ≤ j) (hj : j < s.length) :
    nth s i ≤ nth s j := by
  rw [nth_eq_getElem s i (by omega), nth_eq_getElem s j hj]
  rcases Nat.lt_or_eq_of_le hij with h | h
  · exact List.pairwise_iff_getElem.mp hs i j (by omega) hj h
  · subst h; exact le_refl _

/-! ### median -/

theorem median_def (l : List Rat) : median l =
    if (sortR l).length % 2 = 1 then nth (sortR l) ((sortR l).length / 2)
    else (nth (sortR l) ((sortR l).length / 2 - 1) + nth (sortR l) ((sortR l).length / 2)) / 2 := rfl

theorem median_eq_of_perm {l₁ l₂ : List Rat} (hp : l₁.Perm l₂) : median l₁ = median l₂ := by
  rw [median_def, median_def, sortR_eq_of_perm hp]

/-- translation equivariance of the median -/
theorem median_map_add (c : Rat) (l : List Rat) (hl : l ≠ []) : median (l.map (· + c)) = median l + c := by
  have hn : 0 < (sortR l).length := by rw [sortR_length]; exact List.length_pos_iff.mpr hl
  rw [median_def, median_def, sortR_map_add, List.length_map]
  split
  · rw [nth_map _ _ _ (by omega)]
  · rw [nth_map _ _ _ (by omega), nth_map _ _ _ (by omega)]; ring

/-- positive-scale equivariance of the median -/
theorem median_map_mul (k : Rat) (hk : 0 ≤ k) (l : List Rat) : median (l.map (k * ·)) = k * median l := by
  by_cases hl : l = []
  · subst hl; simp [median, sortR, nth]
  have hn : 0 < (sortR l).length := by rw [sortR_length]; exact List.length_pos_iff.mpr hl
  rw [median_def, median_def, sortR_map_mul k hk, List.length_map]
  split
  · rw [nth_map _ _ _ (by omega)]
  · rw [nth_map _ _ _ (by omega), nth_map _ _ _ (by omega)]; ring

theorem median_mem_range (l : List Rat) (hl : l ≠ []) (lo hi : Rat) (h : ∀ x ∈ l, lo ≤ x ∧ x ≤ hi) :
    lo ≤ median l ∧ median l ≤ hi := by
  have hn : 0 < (sortR l).length := by rw [sortR_length]; exact List.length_pos_iff.mpr hl
  have hm : ∀ i, i < (sortR l).length → lo ≤ nth (sortR l) i ∧ nth (sortR l) i ≤ hi :=
    fun i hi' => h _ (mem_sortR.mp (nth_mem _ _ hi'))
  rw [median_def]
  split
  · exact hm _ (by omega)
  · have h1 := hm ((sortR l).length / 2 - 1) (by omega)
    have h2 := hm ((sortR l).length / 2) (by omega)
    constructor <;> linarith [h1.1, h1.2, h2.1, h2.2]

theorem median_nonneg (l : List Rat) (h : ∀ x ∈ l, 0 ≤ x) : 0 ≤ median l := by
  by_cases hl : l = []
  · subst hl; simp [median, sortR, nth]
  · have hhi : ∀ x ∈ l, x ≤ (l.map (fun x => |x|)).sum := fun x hx =>
      le_trans (le_abs_self x)
        (List.single_le_sum (by intro y hy; simp at hy; obtain ⟨z, _, rfl⟩ := hy; exact abs_nonneg z) _
          (List.mem_map_of_mem hx))
    exact (median_mem_range _ hl 0 _ (fun x hx => ⟨h x hx, hhi x hx⟩)).1

theorem median_replicate (n : Nat) (hn : 0 < n) (c : Rat) : median (List.replicate n c) = c := by
  have h := median_mem_range (List.replicate n c) (by intro h; simp at h; omega) c c
    (fun x hx => by rw [List.mem_replicate] at hx; rw [hx.2]; exact ⟨le_refl _, le_refl _⟩)
  exact le_antisymm h.2 h.1

theorem median_const (l : List Rat) (hl : l ≠ []) (c : Rat) (h : ∀ x ∈ l, x = c) : median l = c := by
  have := median_mem_range l hl c c (fun x hx => by rw [h x hx]; exact ⟨le_refl _, le_refl _⟩)
  exact le_antisymm this.2 this.1

/-! ### MAD -/

theorem MAD_SCALE_pos : 0 < Generated.MAD_SCALE := by unfold Generated.MAD_SCALE; norm_num

theorem madCore_def (a : List Rat) (b : Bool) : madCore a b =
    if b = true then median (a.map (fun x => absR (x - median a))) * Generated.MAD_SCALE
    else median (a.map (fun x => absR (x - median a))) := rfl

theorem madCore_nonneg (a : List Rat) (b : Bool) : 0 ≤ madCore a b := by
  rw [madCore_def]
  have h : 0 ≤ median (a.map (fun x => absR (x - median a))) :=
    median_nonneg _ (by intro x hx; simp at hx; obtain ⟨y, _, rfl⟩ := hx; exact absR_nonneg _)
  split
  · exact mul_nonneg h (le_of_lt MAD_SCALE_pos)
  · exact h

theorem madCore_const (a : List Rat) (c : Rat) (h : ∀ x ∈ a, x = c) (b : Bool) : madCore a b = 0 := by
  rw [madCore_def]
  by_cases hl : a = []
  · subst hl; simp [median, sortR, nth]
  have hm : median a = c := median_const a hl c h
  have hz : median (a.map (fun x => absR (x - median a))) = 0 :=
    median_const _ (by simpa using hl) 0 (by
      intro x hx; simp at hx; obtain ⟨y, hy, rfl⟩ := hx
      rw [hm, h y hy]; simp [absR])
  rw [hz]; simp

theorem madCore_shift (a : List Rat) (c : Rat) (b : Bool) : madCore (a.map (· + c)) b = madCore a b := by
  by_cases hl : a = []
  · subst hl; rfl
  rw [madCore_def, madCore_def]
  rw [median_map_add c a hl, List.map_map]
  have : ((fun x => absR (x - (median a + c))) ∘ fun x => x + c) = fun x => absR (x - median a) := by
    funext x; simp only [Function.comp]; congr 1; ring
  rw [this]

theorem madCore_scale (a : List Rat) (k : Rat) (hk : 0 ≤ k) (b : Bool) :
    madCore (a.map (k * ·)) b = k * madCore a b := by
  rw [madCore_def, madCore_def]
  rw [median_map_mul k hk a, List.map_map]
  have : ((fun x => absR (x - k * median a)) ∘ fun x => k * x) = (fun x => k * x) ∘ fun x => absR (x - median a) := by
    funext x; simp only [Function.comp]
    rw [absR_eq_abs, absR_eq_abs, ← mul_sub, abs_mul, abs_of_nonneg hk]
  rw [this, ← List.map_map, median_map_mul k hk]
  split <;> ring

/-! ### quantiles (numpy "linear") -/

/-- index arithmetic of `quantileSorted`: for `0 ≤ q ≤ 1` and `n ≥ 1` the lower index is `< n` and the
    interpolation weight lies in `[0, 1)` -/
theorem quantile_index (n : Nat) (hn : 0 < n) (q : Rat) (h0 : 0 ≤ q) (h1 : q ≤ 1) :
    (q * ((n : Rat) - 1)).floor.toNat < n ∧
    0 ≤ q * ((n : Rat) - 1) - ((q * ((n : Rat) - 1)).floor.toNat : Rat) ∧
    q * ((n : Rat) - 1) - ((q * ((n : Rat) - 1)).floor.toNat : Rat) < 1 := by
  have hn1 : (1 : Rat) ≤ (n : Rat) := by exact_mod_cast hn
  have hpos : 0 ≤ q * ((n : Rat) - 1) := mul_nonneg h0 (by linarith)
  have hfl : 0 ≤ (q * ((n : Rat) - 1)).floor := Int.floor_nonneg.mpr hpos
  have hcast : (((q * ((n : Rat) - 1)).floor.toNat : Nat) : Rat) = ((q * ((n : Rat) - 1)).floor : Rat) := by
    have : (((q * ((n : Rat) - 1)).floor.toNat : Nat) : Int) = (q * ((n : Rat) - 1)).floor := Int.toNat_of_nonneg hfl
    exact_mod_cast this
  have hle : ((q * ((n : Rat) - 1)).floor : Rat) ≤ q * ((n : Rat) - 1) := Int.floor_le _
  have hlt : q * ((n : Rat) - 1) < ((q * ((n : Rat) - 1)).floor : Rat) + 1 := Int.lt_floor_add_one _
  refine ⟨?_, by rw [hcast]; linarith, by rw [hcast]; linarith⟩
  have hub : q * ((n : Rat) - 1) ≤ (n : Rat) - 1 := by nlinarith
  have : (((q * ((n : Rat) - 1)).floor.toNat : Nat) : Rat) < (n : Rat) := by rw [hcast]; linarith
  exact_mod_cast this

theorem quantileSorted_map (f : Rat → Rat) (a b : Rat) (hf : ∀ x, f x = a * x + b) (s : List Rat) (q : Rat)
    (hs : s ≠ []) (h0 : 0 ≤ q) (h1 : q ≤ 1) :
    quantileSorted (s.map f) q = f (quantileSorted s q) := by
  have hn : 0 < s.length := List.length_pos_iff.mpr hs
  obtain ⟨hlo, _, _⟩ := quantile_index s.length hn q h0 h1
  unfold quantileSorted
  simp only [List.length_map]
  rw [nth_map f s _ hlo, nth_map f s _ (by omega), hf, hf, hf]
  ring

theorem quantile_map_add (c : Rat) (l : List Rat) (q : Rat) (hl : l ≠ []) (h0 : 0 ≤ q) (h1 : q ≤ 1) :
    quantile (l.map (· + c)) q = quantile l q + c := by
  unfold quantile
  rw [sortR_map_add]
  have hs : sortR l ≠ [] := by intro h; apply hl; have := sortR_length l; rw [h] at this; exact List.length_eq_zero_iff.mp this.symm
  rw [quantileSorted_map (· + c) 1 c (fun x => by ring) _ q hs h0 h1]

theorem quantile_map_mul (k : Rat) (hk : 0 ≤ k) (l : List Rat) (q : Rat) (hl : l ≠ []) (h0 : 0 ≤ q) (h1 : q ≤ 1) :
    quantile (l.map (k * ·)) q = k * quantile l q := by
  unfold quantile
  rw [sortR_map_mul k hk]
  have hs : sortR l ≠ [] := by intro h; apply hl; have := sortR_length l; rw [h] at this; exact List.length_eq_zero_iff.mp this.symm
  rw [quantileSorted_map (k * ·) k 0 (fun x => by ring) _ q hs h0 h1]

/-- a quantile lies between its two neighbouring order statistics -/
theorem quantileSorted_between (s : List Rat) (hs : s.Pairwise (· ≤ ·)) (hne : s ≠ []) (q : Rat) (h0 : 0 ≤ q) (h1 : q ≤ 1) :
    nth s (q * ((s.length : Rat) - 1)).floor.toNat ≤ quantileSorted s q ∧
    quantileSorted s q ≤ nth s (min ((q * ((s.length : Rat) - 1)).floor.toNat + 1) (s.length - 1)) := by
  have hn : 0 < s.length := List.length_pos_iff.mpr hne
  obtain ⟨hlo, hg0, hg1⟩ := quantile_index s.length hn q h0 h1
  have hmono : nth s (q * ((s.length : Rat) - 1)).floor.toNat ≤
      nth s (min ((q * ((s.length : Rat) - 1)).floor.toNat + 1) (s.length - 1)) :=
    sorted_nth_le hs (by omega) (by omega)
  unfold quantileSorted
  constructor <;> nlinarith

theorem quantile_mem_range (l : List Rat) (hl : l ≠ []) (q : Rat) (h0 : 0 ≤ q) (h1 : q ≤ 1) (lo hi : Rat)
    (h : ∀ x ∈ l, lo ≤ x ∧ x ≤ hi) : lo ≤ quantile l q ∧ quantile l q ≤ hi := by
  have hs : sortR l ≠ [] := by intro h; apply hl; have := sortR_length l; rw [h] at this; exact List.length_eq_zero_iff.mp this.symm
  have hn : 0 < (sortR l).length := List.length_pos_iff.mpr hs
  obtain ⟨hlo, _, _⟩ := quantile_index _ hn q h0 h1
  obtain ⟨hb1, hb2⟩ := quantileSorted_between (sortR l) (sortR_sorted l) hs q h0 h1
  have m1 := h _ (mem_sortR.mp (nth_mem (sortR l) _ hlo))
  have m2 := h _ (mem_sortR.mp (nth_mem (sortR l) (min ((q * (((sortR l).length : Rat) - 1)).floor.toNat + 1) ((sortR l).length - 1)) (by omega)))
  unfold quantile
  exact ⟨le_trans m1.1 hb1, le_trans hb2 m2.2⟩

/-- quantiles are monotone in the level -/
theorem quantile_mono (l : List Rat) (hl : l ≠ []) (q₁ q₂ : Rat) (h0 : 0 ≤ q₁) (h12 : q₁ ≤ q₂) (h1 : q₂ ≤ 1) :
    quantile l q₁ ≤ quantile l q₂ := by
  have hs : sortR l ≠ [] := by intro h; apply hl; have := sortR_length l; rw [h] at this; exact List.length_eq_zero_iff.mp this.symm
  have hsorted := sortR_sorted l
  have hn : 0 < (sortR l).length := List.length_pos_iff.mpr hs
  have hn1 : (1 : Rat) ≤ ((sortR l).length : Rat) := by exact_mod_cast hn
  obtain ⟨hlo1, hg01, hg11⟩ := quantile_index _ hn q₁ h0 (le_trans h12 h1)
  obtain ⟨hlo2, hg02, hg12⟩ := quantile_index _ hn q₂ (le_trans h0 h12) h1
  obtain ⟨_, hb1⟩ := quantileSorted_between _ hsorted hs q₁ h0 (le_trans h12 h1)
  obtain ⟨hb2, _⟩ := quantileSorted_between _ hsorted hs q₂ (le_trans h0 h12) h1
  have hpos : q₁ * (((sortR l).length : Rat) - 1) ≤ q₂ * (((sortR l).length : Rat) - 1) :=
    mul_le_mul_of_nonneg_right h12 (by linarith)
  have hfl : (q₁ * (((sortR l).length : Rat) - 1)).floor.toNat ≤ (q₂ * (((sortR l).length : Rat) - 1)).floor.toNat :=
    Int.toNat_le_toNat (Int.floor_le_floor hpos)
  unfold quantile
  rcases Nat.lt_or_eq_of_le hfl with hlt | heq
  · exact le_trans hb1 (le_trans (sorted_nth_le hsorted (by omega) hlo2) hb2)
  · unfold quantileSorted
    simp only []
    rw [← heq]
    have hd : 0 ≤ nth (sortR l) (min ((q₁ * (((sortR l).length : Rat) - 1)).floor.toNat + 1) ((sortR l).length - 1))
        - nth (sortR l) (q₁ * (((sortR l).length : Rat) - 1)).floor.toNat := by
      have := sorted_nth_le hsorted (i := (q₁ * (((sortR l).length : Rat) - 1)).floor.toNat)
        (j := min ((q₁ * (((sortR l).length : Rat) - 1)).floor.toNat + 1) ((sortR l).length - 1)) (by omega) (by omega)
      linarith
    nlinarith

/-! ### interquartile range -/

theorem iqr_levels : (0 : Rat) ≤ (Generated.IQR_Q_LO : Rat) / 100 ∧ (Generated.IQR_Q_LO : Rat) / 100 ≤ (Generated.IQR_Q_HI : Rat) / 100 ∧
    (Generated.IQR_Q_HI : Rat) / 100 ≤ 1 := by
  unfold Generated.IQR_Q_LO Generated.IQR_Q_HI; norm_num

theorem iqrCore_nonneg (a : List Rat) (ha : a ≠ []) : 0 ≤ iqrCore a := by
  obtain ⟨h0, h12, h1⟩ := iqr_levels
  unfold iqrCore
  linarith [quantile_mono a ha _ _ h0 h12 h1]

theorem iqrCore_const (a : List Rat) (ha : a ≠ []) (c : Rat) (h : ∀ x ∈ a, x = c) : iqrCore a = 0 := by
  obtain ⟨h0, h12, h1⟩ := iqr_levels
  have r1 := quantile_mem_range a ha _ (le_trans h0 h12) h1 c c (fun x hx => by rw [h x hx]; exact ⟨le_refl _, le_refl _⟩)
  have r2 := quantile_mem_range a ha _ h0 (le_trans h12 h1) c c (fun x hx => by rw [h x hx]; exact ⟨le_refl _, le_refl _⟩)
  unfold iqrCore
  linarith [r1.1, r1.2, r2.1, r2.2]

theorem iqrCore_shift (a : List Rat) (ha : a ≠ []) (c : Rat) : iqrCore (a.map (· + c)) = iqrCore a := by
  obtain ⟨h0, h12, h1⟩ := iqr_levels
  unfold iqrCore
  rw [quantile_map_add c a _ ha (le_trans h0 h12) h1, quantile_map_add c a _ ha h0 (le_trans h12 h1)]
  ring

theorem iqrCore_scale (a : List Rat) (ha : a ≠ []) (k : Rat) (hk : 0 ≤ k) : iqrCore (a.map (k * ·)) = k * iqrCore a := by
  obtain ⟨h0, h12, h1⟩ := iqr_levels
  unfold iqrCore
  rw [quantile_map_mul k hk a _ ha (le_trans h0 h12) h1, quantile_map_mul k hk a _ ha h0 (le_trans h12 h1)]
  ring

/-! ### gapper -/

theorem diffs_nil : diffs [] = [] := rfl
theorem diffs_single (a : Rat) : diffs [a] = [] := rfl
theorem diffs_cons_cons (a b : Rat) (t : List Rat) : diffs (a :: b :: t) = (b - a) :: diffs (b :: t) := rfl

theorem diffs_nonneg (s : List Rat) (hs : s.Pairwise (· ≤ ·)) : ∀ d ∈ diffs s, 0 ≤ d := by
  induction s with
  | nil => intro d hd; simp [diffs] at hd
  | cons a t ih =>
    cases t with
    | nil => intro d hd; simp [diffs] at hd
    | cons b t' =>
      obtain ⟨h1, h2⟩ := List.pairwise_cons.mp hs
      intro d hd
      rw [diffs_cons_cons] at hd
      rcases List.mem_cons.mp hd with rfl | hd
      · have := h1 b (by simp); linarith
      · exact ih h2 d hd

theorem diffs_map_add (c : Rat) (s : List Rat) : diffs (s.map (· + c)) = diffs s := by
  induction s with
  | nil => rfl
  | cons a t ih =>
    cases t with
    | nil => rfl
    | cons b t' =>
      simp only [List.map_cons] at ih ⊢
      rw [diffs_cons_cons, diffs_cons_cons, ih]
      congr 1; ring

theorem diffs_map_mul (k : Rat) (s : List Rat) : diffs (s.map (k * ·)) = (diffs s).map (k * ·) := by
  induction s with
  | nil => rfl
  | cons a t ih =>
    cases t with
    | nil => rfl
    | cons b t' =>
      simp only [List.map_cons] at ih ⊢
      rw [diffs_cons_cons, diffs_cons_cons, ih, List.map_cons]
      congr 1; ring

theorem diffs_const (s : List Rat) (c : Rat) (h : ∀ x ∈ s, x = c) : ∀ d ∈ diffs s, d = 0 := by
  induction s with
  | nil => intro d hd; simp [diffs] at hd
  | cons a t ih =>
    cases t with
    | nil => intro d hd; simp [diffs] at hd
    | cons b t' =>
      intro d hd
      rw [diffs_cons_cons] at hd
      rcases List.mem_cons.mp hd with rfl | hd
      · rw [h a (by simp), h b (by simp)]; ring
      · exact ih (fun x hx => h x (List.mem_cons_of_mem _ hx)) d hd

/-- the weighted gaps `gapᵢ·i·(n−i)` -/
def gapTerms (g : List Rat) (n : Nat) : List Rat :=
  (g.zip (List.range g.length)).map (fun p => p.1 * (((p.2 + 1) * (n - (p.2 + 1)) : Nat) : Rat))

theorem gapperCore_def (a : List Rat) : gapperCore a =
    (gapTerms (diffs (sortR a)) (sortR a).length).sum / (((sortR a).length * ((sortR a).length - 1) : Nat) : Rat) := rfl

theorem gapTerms_map_mul (k : Rat) (g : List Rat) (n : Nat) : gapTerms (g.map (k * ·)) n = (gapTerms g n).map (k * ·) := by
  unfold gapTerms
  rw [List.length_map, List.zip_map_left, List.map_map, List.map_map]
  apply List.map_congr_left
  intro p _
  simp only [Function.comp, Prod.map, id]
  ring

theorem gapTerms_nonneg (g : List Rat) (n : Nat) (hg : ∀ d ∈ g, 0 ≤ d) : ∀ t ∈ gapTerms g n, 0 ≤ t := by
  intro t ht
  unfold gapTerms at ht
  obtain ⟨p, hp, rfl⟩ := List.mem_map.mp ht
  exact mul_nonneg (hg _ (List.of_mem_zip hp).1) (Nat.cast_nonneg _)

theorem gapTerms_zero (g : List Rat) (n : Nat) (hg : ∀ d ∈ g, d = 0) : ∀ t ∈ gapTerms g n, t = 0 := by
  intro t ht
  unfold gapTerms at ht
  obtain ⟨p, hp, rfl⟩ := List.mem_map.mp ht
  rw [hg _ (List.of_mem_zip hp).1]; ring

theorem sum_eq_zero_of_all_zero (l : List Rat) (h : ∀ t ∈ l, t = 0) : l.sum = 0 := by
  induction l with
  | nil => rfl
  | cons a t ih => rw [List.sum_cons, h a (by simp), ih (fun x hx => h x (List.mem_cons_of_mem _ hx))]; ring

theorem sum_map_mul (k : Rat) (l : List Rat) : (l.map (k * ·)).sum = k * l.sum := by
  induction l with
  | nil => simp
  | cons a t ih => rw [List.map_cons, List.sum_cons, List.sum_cons, ih]; ring

theorem gapperCore_nonneg (a : List Rat) : 0 ≤ gapperCore a := by
  rw [gapperCore_def]
  exact div_nonneg (List.sum_nonneg (gapTerms_nonneg _ _ (diffs_nonneg _ (sortR_sorted a)))) (Nat.cast_nonneg _)

theorem gapperCore_const (a : List Rat) (c : Rat) (h : ∀ x ∈ a, x = c) : gapperCore a = 0 := by
  rw [gapperCore_def, sum_eq_zero_of_all_zero _ (gapTerms_zero _ _ (diffs_const _ c (fun x hx => h x (mem_sortR.mp hx))))]
  simp

theorem gapperCore_shift (a : List Rat) (c : Rat) : gapperCore (a.map (· + c)) = gapperCore a := by
  rw [gapperCore_def, gapperCore_def, sortR_map_add, diffs_map_add, List.length_map]

theorem gapperCore_scale (a : List Rat) (k : Rat) (hk : 0 ≤ k) : gapperCore (a.map (k * ·)) = k * gapperCore a := by
  rw [gapperCore_def, gapperCore_def, sortR_map_mul k hk, diffs_map_mul, List.length_map, gapTerms_map_mul,
    sum_map_mul]
  ring

/-! ### Qn -/

theorem pairDiffs_cons (x : Rat) (xs : List Rat) :
    pairDiffs (x :: xs) = xs.map (fun y => absR (x - y)) ++ pairDiffs xs := rfl

theorem pairDiffs_map_add (c : Rat) (a : List Rat) : pairDiffs (a.map (· + c)) = pairDiffs a := by
  induction a with
  | nil => rfl
  | cons x xs ih =>
    rw [List.map_cons, pairDiffs_cons, pairDiffs_cons, ih, List.map_map]
    congr 1
    apply List.map_congr_left
    intro y _
    simp only [Function.comp]; congr 1; ring

theorem pairDiffs_map_mul (k : Rat) (hk : 0 ≤ k) (a : List Rat) : pairDiffs (a.map (k * ·)) = (pairDiffs a).map (k * ·) := by
  induction a with
  | nil => rfl
  | cons x xs ih =>
    rw [List.map_cons, pairDiffs_cons, pairDiffs_cons, ih, List.map_map, List.map_append, List.map_map]
    congr 1
    apply List.map_congr_left
    intro y _
    simp only [Function.comp]
    rw [absR_eq_abs, absR_eq_abs, ← mul_sub, abs_mul, abs_of_nonneg hk]

theorem pairDiffs_nonneg (a : List Rat) : ∀ d ∈ pairDiffs a, 0 ≤ d := by
  induction a with
  | nil => intro d hd; simp [pairDiffs] at hd
  | cons x xs ih =>
    intro d hd
    rw [pairDiffs_cons] at hd
    rcases List.mem_append.mp hd with h | h
    · obtain ⟨y, _, rfl⟩ := List.mem_map.mp h; exact absR_nonneg _
    · exact ih d h

theorem pairDiffs_const (a : List Rat) (c : Rat) (h : ∀ x ∈ a, x = c) : ∀ d ∈ pairDiffs a, d = 0 := by
  induction a with
  | nil => intro d hd; simp [pairDiffs] at hd
  | cons x xs ih =>
    intro d hd
    rw [pairDiffs_cons] at hd
    rcases List.mem_append.mp hd with h' | h'
    · obtain ⟨y, hy, rfl⟩ := List.mem_map.mp h'
      rw [h x (by simp), h y (List.mem_cons_of_mem _ hy)]; simp [absR]
    · exact ih (fun z hz => h z (List.mem_cons_of_mem _ hz)) d h'

theorem pairDiffs_ne_nil (a : List Rat) (h : 2 ≤ a.length) : pairDiffs a ≠ [] := by
  match a, h with
  | x :: y :: t, _ => rw [pairDiffs_cons]; simp

theorem qnScale_pos (n : Nat) : 0 < qnScale n := by
  unfold qnScale
  split
  · unfold Generated.QN_SCALE_SMALL; norm_num
  · split
    · have : (0 : Rat) ≤ (Generated.QN_NUM : Rat) / (n : Rat) := div_nonneg (Nat.cast_nonneg _) (Nat.cast_nonneg _)
      unfold Generated.QN_SCALE_MID_BASE; linarith
    · unfold Generated.QN_SCALE_LARGE; norm_num

theorem qn_level : (0 : Rat) ≤ (Generated.QN_Q : Rat) / 100 ∧ (Generated.QN_Q : Rat) / 100 ≤ 1 := by
  unfold Generated.QN_Q; norm_num

theorem qnCore_nonneg (a : List Rat) (h : 2 ≤ a.length) : 0 ≤ qnCore a := by
  unfold qnCore
  have hq := quantile_mem_range (pairDiffs a) (pairDiffs_ne_nil a h) _ qn_level.1 qn_level.2 0 ((pairDiffs a).map (fun x => |x|)).sum
    (fun x hx => ⟨pairDiffs_nonneg a x hx, le_trans (le_abs_self x)
        (List.single_le_sum (by intro y hy; simp at hy; obtain ⟨z, _, rfl⟩ := hy; exact abs_nonneg z) _
          (List.mem_map_of_mem hx))⟩)
  exact div_nonneg hq.1 (le_of_lt (qnScale_pos _))

theorem qnCore_const (a : List Rat) (h : 2 ≤ a.length) (c : Rat) (hc : ∀ x ∈ a, x = c) : qnCore a = 0 := by
  unfold qnCore
  have hq := quantile_mem_range (pairDiffs a) (pairDiffs_ne_nil a h) _ qn_level.1 qn_level.2 0 0
    (fun x hx => by rw [pairDiffs_const a c hc x hx]; exact ⟨le_refl _, le_refl _⟩)
  rw [le_antisymm hq.2 hq.1]; simp

theorem qnCore_shift (a : List Rat) (c : Rat) : qnCore (a.map (· + c)) = qnCore a := by
  unfold qnCore
  rw [pairDiffs_map_add, List.length_map]

theorem qnCore_scale (a : List Rat) (h : 2 ≤ a.length) (k : Rat) (hk : 0 ≤ k) : qnCore (a.map (k * ·)) = k * qnCore a := by
  unfold qnCore
  rw [pairDiffs_map_mul k hk, List.length_map, quantile_map_mul k hk _ _ (pairDiffs_ne_nil a h) qn_level.1 qn_level.2]
  ring

end CnvVerif.Desc
