/-
  The model's one-bin weight formula `weightOf` equals the composition of the formulas the translator reads off the
  statements of `fix.apply_weights` (Generated/ExprsFixWeight.lean, regenerated from /repo on every run).
-/
import CnvVerif.Generated.ExprsFixWeight
import CnvVerif.Model.Fix
import CnvVerif.Lemmas.Fix
import Mathlib.Tactic.Ring
import Mathlib.Tactic.Linarith
import Mathlib.Tactic.NormNum
set_option linter.unusedTactic false
set_option linter.unreachableTactic false
set_option linter.unusedSimpArgs false
namespace CnvVerif.Src
open CnvVerif CnvVerif.Generated

/-- the class size enters through the MEAN of sqrt(size) over the class (the reduction is a parameter of the generated
    formulas; this pins which one the source uses) -/
theorem simple_weight_uses_class_mean :
    src_weight_simple_target_reductions = ["mean"] ∧ src_weight_simple_antitarget_reductions = ["mean"] := by
  constructor <;> decide

/-- `apply_weights`: both classes of bins get the same size/variance formula -/
theorem simple_weight_same_for_both_classes (v sq m : Rat) :
    src_weight_simple_antitarget v sq m = src_weight_simple_target v sq m := by
  unfold src_weight_simple_antitarget src_weight_simple_target
  first | rfl | ring

/-- `apply_weights`: the model's per-bin weight is the composition of the source's formulas -/
theorem weightOf_is_source (pooled : Bool) (spread sq m v : Rat) :
    weightOf pooled spread sq m v =
      src_weight_clip WEIGHT_EPSILON
        (if pooled then src_weight_pooled spread (src_weight_simple_target v sq m)
         else src_weight_flat (src_weight_simple_target v sq m)) := by
  cases pooled
  · show clipQ _ _ _ = _
    unfold clipQ src_weight_clip src_weight_flat src_weight_simple_target
    simp only [WEIGHT_MAX, Bool.false_eq_true, if_false]
  · show clipQ _ _ _ = _
    unfold clipQ src_weight_clip src_weight_pooled src_weight_simple_target src_weight_fancy
    simp only [WEIGHT_MAX, WEIGHT_REF_EMPHASIS, if_true]
    first
    | done
    | (congr 2; ring)

end CnvVerif.Src
