/-
  The hand-written model functions of the pooled / flat reference equal the expressions the translator reads off
  the current source (Generated/ExprsRef.lean, regenerated from /repo on every run): `calculate_gc_lo`,
  `shift_sex_chroms`, `CopyNumArray.expect_flat_log2`.  An edit to one of these functions in the code changes the
  generated term; unless the edit keeps its meaning, the theorem below stops checking.
-/
import CnvVerif.Generated.ExprsRef
import CnvVerif.Generated.RefConsts
import CnvVerif.Model.Reference
import CnvVerif.Model.ReferenceExt
import Mathlib.Tactic.Ring
import Mathlib.Tactic.Linarith
import Mathlib.Tactic.SplitIfs
import Mathlib.Tactic.NormNum
import Mathlib.Tactic.FieldSimp
import Mathlib.Tactic.Push
set_option linter.unusedTactic false
set_option linter.unreachableTactic false
set_option linter.unusedSimpArgs false
namespace CnvVerif.Src
open CnvVerif CnvVerif.Generated CnvVerif.Ref

/-- counting with a disjunction of two predicates that exclude each other -/
theorem countP_or_disj {α : Type} (p q : α → Bool) (l : List α) (h : ∀ x, p x = true → q x = true → False) :
    l.countP (fun x => p x || q x) = l.countP p + l.countP q := by
  induction l with
  | nil => simp
  | cons a t ih =>
    simp only [List.countP_cons, ih]
    have := h a
    cases hp : p a <;> cases hq : q a <;> simp_all <;> omega

/-- Python's `s.count("c")` for a one-character string: the number of occurrences of that character -/
def cnt (seq : List Char) (c : Char) : Rat := ((seq.count c : Nat) : Rat)

theorem count_four (seq : List Char) (a b c d : Char) (hab : a ≠ b) (hac : a ≠ c) (had : a ≠ d) (hbc : b ≠ c)
    (hbd : b ≠ d) (hcd : c ≠ d) :
    seq.countP (fun x => x == a || x == b || x == c || x == d)
      = seq.count a + seq.count b + seq.count c + seq.count d := by
  have e1 := countP_or_disj (fun x => x == a || x == b || x == c) (fun x => x == d) seq (by
    intro x h1 h2
    simp only [beq_iff_eq, Bool.or_eq_true] at h1 h2
    subst h2
    rcases h1 with (h | h) | h
    · exact had h.symm
    · exact hbd h.symm
    · exact hcd h.symm)
  have e2 := countP_or_disj (fun x => x == a || x == b) (fun x => x == c) seq (by
    intro x h1 h2
    simp only [beq_iff_eq, Bool.or_eq_true] at h1 h2
    subst h2
    rcases h1 with h | h
    · exact hac h.symm
    · exact hbc h.symm)
  have e3 := countP_or_disj (fun x => x == a) (fun x => x == b) seq (by
    intro x h1 h2
    simp only [beq_iff_eq] at h1 h2
    subst h2
    exact hab h1.symm)
  simp only [List.count] at *
  rw [e1, e2, e3]

/-- `calculate_gc_lo`: the model's (gc, rmask) of a sequence IS the source expression applied to the counts of the
    eight letters `a t A T g c G C` -/
theorem gcRmask_is_source (seq : List Char) :
    gcRmask seq = src_calculate_gc_lo (cnt seq 'a') (cnt seq 't') (cnt seq 'A') (cnt seq 'T')
      (cnt seq 'g') (cnt seq 'c') (cnt seq 'G') (cnt seq 'C') := by
  have hgc := count_four seq 'G' 'C' 'g' 'c' (by decide) (by decide) (by decide) (by decide) (by decide) (by decide)
  have hat := count_four seq 'A' 'T' 'a' 't' (by decide) (by decide) (by decide) (by decide) (by decide) (by decide)
  have hlo := count_four seq 'a' 'c' 'g' 't' (by decide) (by decide) (by decide) (by decide) (by decide) (by decide)
  unfold gcRmask src_calculate_gc_lo cnt
  simp only [hgc, hat, hlo]
  have hn : ∀ n : Nat, (0 : Rat) ≤ (n : Rat) := fun n => Nat.cast_nonneg n
  have h1 := hn (seq.count 'a'); have h2 := hn (seq.count 't'); have h3 := hn (seq.count 'A')
  have h4 := hn (seq.count 'T'); have h5 := hn (seq.count 'g'); have h6 := hn (seq.count 'c')
  have h7 := hn (seq.count 'G'); have h8 := hn (seq.count 'C')
  by_cases ht : seq.count 'G' + seq.count 'C' + seq.count 'g' + seq.count 'c' +
      (seq.count 'A' + seq.count 'T' + seq.count 'a' + seq.count 't') = 0
  · -- no unambiguous base: every count is 0 and both sides are (0, 0)
    have z1 : seq.count 'a' = 0 := by omega
    have z2 : seq.count 't' = 0 := by omega
    have z3 : seq.count 'A' = 0 := by omega
    have z4 : seq.count 'T' = 0 := by omega
    have z5 : seq.count 'g' = 0 := by omega
    have z6 : seq.count 'c' = 0 := by omega
    have z7 : seq.count 'G' = 0 := by omega
    have z8 : seq.count 'C' = 0 := by omega
    simp [z1, z2, z3, z4, z5, z6, z7, z8]
  · have hq : ((seq.count 'G' + seq.count 'C' + seq.count 'g' + seq.count 'c' +
        (seq.count 'A' + seq.count 'T' + seq.count 'a' + seq.count 't') : Nat) : Rat) ≠ 0 := by
      exact_mod_cast ht
    push_cast at hq
    simp only [ht, if_false]
    split_ifs with hc <;>
    first
    | (exfalso; apply hq; first | linarith | (push Not at hc; linarith))
    | (push_cast; refine Prod.ext ?_ ?_ <;> simp only [] <;> ring)

/-- `shift_sex_chroms`, one bin: the model's decision table IS the source's in-place update of `cnarr["log2"]`
    (masks: the bin is on X / on Y outside the PARs; `is_xx`: the truthiness of the sample's recorded sex) -/
theorem sexAdjust_is_source (isXX : Bool) (cls : CClass) (flat v : Rat) :
    sexAdjust isXX cls flat v = src_shift_sex_chroms (cls == .x) (cls == .y) isXX flat v := by
  unfold sexAdjust src_shift_sex_chroms
  cases isXX <;> cases cls <;> simp <;> first | rfl | ring

/-- `expect_flat_log2`: every value of the model's flat profile IS the source expression on the bin's masks -/
theorem expectFlat_is_source (hapX : Bool) (par : Option String) (t : List CBin) :
    expectFlat hapX par t = t.map (fun b =>
      src_expect_flat_log2 hapX
        (classOf ((t.head?.map (·.chrom)).getD "") par b.chrom b.s b.e == .x)
        (classOf ((t.head?.map (·.chrom)).getD "") par b.chrom b.s b.e == .y)
        (b.chrom == yLabel ((t.head?.map (·.chrom)).getD ""))) := by
  unfold expectFlat src_expect_flat_log2
  apply List.map_congr_left
  intro b _
  cases hapX <;> simp <;> split_ifs <;> first | rfl | simp_all

/-! ### the structure of `bias_correct_logr` / `combine_probes` (Generated/RefConsts.lean) -/

/-- the model's correction pipeline IS the sequence of `center_by_window` calls of `bias_correct_logr` in source
    order, skipped under the source's test (`(log2 > NULL_LOG2_COVERAGE - MIN_REF_COVERAGE).sum() <= len // 2`) -/
theorem correctLogr_is_source (cfg : CorrCfg) (rows : List CovRow) (logr : List Rat) :
    correctLogr cfg rows logr =
      correctLogrBy (REF_CORRECTION_STEPS.map (·.1)) REF_LOWCOV_THRESHOLD REF_LOWCOV_TEST.2.2 cfg rows logr := by
  have hthr : NULL_LOG2_COVERAGE - MIN_REF_COVERAGE = REF_LOWCOV_THRESHOLD := by
    unfold NULL_LOG2_COVERAGE MIN_REF_COVERAGE REF_LOWCOV_THRESHOLD; norm_num
  have hsteps : REF_CORRECTION_STEPS.map (·.1) = ["gc", "rmask", "edge"] := by decide
  have hdiv : REF_LOWCOV_TEST.2.2 = 2 := by decide
  unfold correctLogr correctLogrBy
  rw [hthr, hsteps, hdiv]
  rfl

/-- each step runs under its own flag, with the window fraction 0.1 the harness computes the half window from, and
    the skip test compares the way the model does -/
theorem correction_guards_are_source :
    REF_CORRECTION_STEPS.map (·.2.1) = ["fix_gc", "fix_rmask", "fix_edge"] ∧
    REF_CORRECTION_STEPS.all (fun s => s.2.2 == 1 / 10) = true ∧
    REF_LOWCOV_TEST.1 = "Gt" ∧ REF_LOWCOV_TEST.2.1 = "LtE" := by
  refine ⟨by decide, by decide +kernel, by decide, by decide⟩

/-- which corrections a block gets IS what `combine_probes` writes in its two `load_sample_block` calls -/
theorem blockCfg_is_source (doGc doEdge doRmask : Bool) (k : BlockKeys) :
    blockCfg true doGc doEdge doRmask k = blockCfgBy REF_TARGET_FLAGS doGc doEdge doRmask k ∧
    blockCfg false doGc doEdge doRmask k = blockCfgBy REF_ANTITARGET_FLAGS doGc doEdge doRmask k := by
  unfold blockCfg blockCfgBy REF_TARGET_FLAGS REF_ANTITARGET_FLAGS
  cases doGc <;> cases doEdge <;> cases doRmask <;> simp [flagOf]

end CnvVerif.Src
