/-
  `reference.calculate_gc_lo`: the model's gcRmask equals the expression the translator reads off the current source
  (Generated/ExprsRef.lean, regenerated from /repo on every run).
-/
import CnvVerif.Generated.ExprsRef
import CnvVerif.Model.Reference
import Mathlib.Tactic.Ring
import Mathlib.Tactic.Linarith
import Mathlib.Tactic.SplitIfs
import Mathlib.Tactic.NormNum
import Mathlib.Tactic.FieldSimp
import Mathlib.Tactic.Push
set_option linter.unusedTactic false
set_option linter.unreachableTactic false
set_option linter.unusedSimpArgs false
namespace CnvVerif.Src
open CnvVerif CnvVerif.Generated CnvVerif.Ref

/-- counting with a disjunction of two predicates that exclude each other -/
theorem countP_or_disj {α : Type} (p q : α → Bool) (l : List α) (h : ∀ x, p x = true → q x = true → False) :
    l.countP (fun x => p x || q x) = l.countP p + l.countP q := by
  induction l with
  | nil => simp
  | cons a t ih =>
    simp only [List.countP_cons, ih]
    have := h a
    cases hp : p a <;> cases hq : q a <;> simp_all <;> omega

/-- Python's `s.count("c")` for a one-character string: the number of occurrences of that character -/
def cnt (seq : List Char) (c : Char) : Rat := ((seq.count c : Nat) : Rat)

theorem count_four (seq : List Char) (a b c d : Char) (hab : a ≠ b) (hac : a ≠ c) (had : a ≠ d) (hbc : b ≠ c)
    (hbd : b ≠ d) (hcd : c ≠ d) :
    seq.countP (fun x => x == a || x == b || x == c || x == d)
      = seq.count a + seq.count b + seq.count c + seq.count d := by
  have e1 := countP_or_disj (fun x => x == a || x == b || x == c) (fun x => x == d) seq (by
    intro x h1 h2
    simp only [beq_iff_eq, Bool.or_eq_true] at h1 h2
    subst h2
    rcases h1 with (h | h) | h
    · exact had h.symm
    · exact hbd h.symm
    · exact hcd h.symm)
  have e2 := countP_or_disj (fun x => x == a || x == b) (fun x => x == c) seq (by
    intro x h1 h2
    simp only [beq_iff_eq, Bool.or_eq_true] at h1 h2
    subst h2
    rcases h1 with h | h
    · exact hac h.symm
    · exact hbc h.symm)
  have e3 := countP_or_disj (fun x => x == a) (fun x => x == b) seq (by
    intro x h1 h2
    simp only [beq_iff_eq] at h1 h2
    subst h2
    exact hab h1.symm)
  simp only [List.count] at *
  rw [e1, e2, e3]

/-- `calculate_gc_lo`: the model's (gc, rmask) of a sequence IS the source expression applied to the counts of the
    eight letters `a t A T g c G C` -/
theorem gcRmask_is_source (seq : List Char) :
    gcRmask seq = src_calculate_gc_lo (cnt seq 'a') (cnt seq 't') (cnt seq 'A') (cnt seq 'T')
      (cnt seq 'g') (cnt seq 'c') (cnt seq 'G') (cnt seq 'C') := by
  have hgc := count_four seq 'G' 'C' 'g' 'c' (by decide) (by decide) (by decide) (by decide) (by decide) (by decide)
  have hat := count_four seq 'A' 'T' 'a' 't' (by decide) (by decide) (by decide) (by decide) (by decide) (by decide)
  have hlo := count_four seq 'a' 'c' 'g' 't' (by decide) (by decide) (by decide) (by decide) (by decide) (by decide)
  unfold gcRmask src_calculate_gc_lo cnt
  simp only [hgc, hat, hlo]
  have hn : ∀ n : Nat, (0 : Rat) ≤ (n : Rat) := fun n => Nat.cast_nonneg n
  have h1 := hn (seq.count 'a'); have h2 := hn (seq.count 't'); have h3 := hn (seq.count 'A')
  have h4 := hn (seq.count 'T'); have h5 := hn (seq.count 'g'); have h6 := hn (seq.count 'c')
  have h7 := hn (seq.count 'G'); have h8 := hn (seq.count 'C')
  by_cases ht : seq.count 'G' + seq.count 'C' + seq.count 'g' + seq.count 'c' +
      (seq.count 'A' + seq.count 'T' + seq.count 'a' + seq.count 't') = 0
  · -- no unambiguous base: every count is 0 and both sides are (0, 0)
    have z1 : seq.count 'a' = 0 := by omega
    have z2 : seq.count 't' = 0 := by omega
    have z3 : seq.count 'A' = 0 := by omega
    have z4 : seq.count 'T' = 0 := by omega
    have z5 : seq.count 'g' = 0 := by omega
    have z6 : seq.count 'c' = 0 := by omega
    have z7 : seq.count 'G' = 0 := by omega
    have z8 : seq.count 'C' = 0 := by omega
    simp [z1, z2, z3, z4, z5, z6, z7, z8]
  · have hq : ((seq.count 'G' + seq.count 'C' + seq.count 'g' + seq.count 'c' +
        (seq.count 'A' + seq.count 'T' + seq.count 'a' + seq.count 't') : Nat) : Rat) ≠ 0 := by
      exact_mod_cast ht
    push_cast at hq
    simp only [ht, if_false]
    split_ifs with hc <;>
    first
    | (exfalso; apply hq; first | linarith | (push Not at hc; linarith))
    | (push_cast; refine Prod.ext ?_ ?_ <;> simp only [] <;> ring)

end CnvVerif.Src
