/-
  Lemmas behind Props/C17.lean, order-statistics part: numpy's linear percentile on a sorted list is
  monotone in `q`, stays inside the data's range, and at q = 50 is the median; weighted averages with
  positive weights stay inside the range of their values.  Consequences for `piFunc` and `ciBoot`.
-/
import CnvVerif.Model.Stats
import Mathlib.Tactic.Linarith
import Mathlib.Tactic.Ring
import Mathlib.Tactic.Positivity
import Mathlib.Tactic.FieldSimp
import Mathlib.Data.Rat.Floor
namespace CnvVerif.Stats

theorem sortR_sorted (l : List Rat) : (sortR l).Pairwise (· ≤ ·) := by
  have h := List.pairwise_mergeSort (le := fun a b : Rat => decide (a ≤ b))
    (fun a b c hab hbc => by
      simp only [decide_eq_true_eq] at *
      exact le_trans hab hbc)
    (fun a b => by
      simp only [Bool.or_eq_true, decide_eq_true_eq]
      exact le_total a b) l
  unfold sortR
  exact h.imp (fun hab => by simpa using hab)

theorem sortR_perm (l : List Rat) : (sortR l).Perm l := by
  unfold sortR
  exact List.mergeSort_perm l _

theorem sortR_length (l : List Rat) : (sortR l).length = l.length :=
  (sortR_perm l).length_eq

/-- abstract interpolation on an index function -/
def interpAt (f : Nat → Rat) (N : Nat) (vi : Rat) : Rat :=
  f vi.floor.toNat + (f (min (vi.floor.toNat + 1) N) - f vi.floor.toNat) * (vi - (vi.floor.toNat : Rat))

theorem percentileSorted_eq_interpAt (s : List Rat) (q : Rat) :
    percentileSorted s q = interpAt (fun i => s.getD i 0) (s.length - 1) (q / 100 * ((s.length : Rat) - 1)) := rfl

theorem floorNat_spec (vi : Rat) (h0 : 0 ≤ vi) :
    ((vi.floor.toNat : Nat) : Rat) ≤ vi ∧ vi < ((vi.floor.toNat : Nat) : Rat) + 1 := by
  have hf : (0 : Int) ≤ vi.floor := Int.floor_nonneg.mpr h0
  have hc : ((vi.floor.toNat : Nat) : Rat) = ((vi.floor : Int) : Rat) := by
    have : ((vi.floor.toNat : Nat) : Int) = vi.floor := Int.toNat_of_nonneg hf
    calc ((vi.floor.toNat : Nat) : Rat) = (((vi.floor.toNat : Nat) : Int) : Rat) := (Int.cast_natCast _).symm
      _ = ((vi.floor : Int) : Rat) := by rw [this]
  rw [hc]
  exact ⟨Int.floor_le vi, Int.lt_floor_add_one vi⟩

theorem floorNat_le_of_le (vi : Rat) (N : Nat) (h0 : 0 ≤ vi) (h : vi ≤ N) : vi.floor.toNat ≤ N := by
  have h1 := (floorNat_spec vi h0).1
  have : ((vi.floor.toNat : Nat) : Rat) ≤ (N : Rat) := le_trans h1 h
  exact_mod_cast this

theorem floorNat_mono (v1 v2 : Rat) (h : v1 ≤ v2) : v1.floor.toNat ≤ v2.floor.toNat :=
  Int.toNat_le_toNat (Int.floor_le_floor h)

theorem interpAt_bounds (f : Nat → Rat) (N : Nat) (hf : ∀ i j, i ≤ j → j ≤ N → f i ≤ f j)
    (vi : Rat) (h0 : 0 ≤ vi) (h1 : vi ≤ N) :
    f vi.floor.toNat ≤ interpAt f N vi ∧ interpAt f N vi ≤ f (min (vi.floor.toNat + 1) N) := by
  obtain ⟨hg0, hg1⟩ := floorNat_spec vi h0
  have hlo := floorNat_le_of_le vi N h0 h1
  have hab : f vi.floor.toNat ≤ f (min (vi.floor.toNat + 1) N) :=
    hf _ _ (by omega) (by omega)
  unfold interpAt
  generalize f vi.floor.toNat = a at *
  generalize f (min (vi.floor.toNat + 1) N) = b at *
  generalize ((vi.floor.toNat : Nat) : Rat) = L at *
  constructor
  · have : 0 ≤ (b - a) * (vi - L) := mul_nonneg (by linarith) (by linarith)
    linarith
  · have : (b - a) * (vi - L) ≤ (b - a) * 1 :=
      mul_le_mul_of_nonneg_left (by linarith) (by linarith)
    linarith

theorem interpAt_mono (f : Nat → Rat) (N : Nat) (hf : ∀ i j, i ≤ j → j ≤ N → f i ≤ f j)
    (v1 v2 : Rat) (h0 : 0 ≤ v1) (h12 : v1 ≤ v2) (h2 : v2 ≤ N) :
    interpAt f N v1 ≤ interpAt f N v2 := by
  have h02 : 0 ≤ v2 := le_trans h0 h12
  have h1N : v1 ≤ N := le_trans h12 h2
  have hlo := floorNat_mono v1 v2 h12
  have hlo2 := floorNat_le_of_le v2 N h02 h2
  rcases Nat.lt_or_ge v1.floor.toNat v2.floor.toNat with hlt | hge
  · have b1 := (interpAt_bounds f N hf v1 h0 h1N).2
    have b2 := (interpAt_bounds f N hf v2 h02 h2).1
    have hmid : f (min (v1.floor.toNat + 1) N) ≤ f v2.floor.toNat :=
      hf _ _ (by omega) hlo2
    linarith
  · have heq : v1.floor.toNat = v2.floor.toNat := Nat.le_antisymm hlo hge
    have hab : f v2.floor.toNat ≤ f (min (v2.floor.toNat + 1) N) :=
      hf _ _ (by omega) (by omega)
    unfold interpAt
    rw [heq]
    have : (f (min (v2.floor.toNat + 1) N) - f v2.floor.toNat) * (v1 - (v2.floor.toNat : Rat))
        ≤ (f (min (v2.floor.toNat + 1) N) - f v2.floor.toNat) * (v2 - (v2.floor.toNat : Rat)) :=
      mul_le_mul_of_nonneg_left (by linarith) (by linarith)
    linarith

theorem getD_of_lt (s : List Rat) (i : Nat) (h : i < s.length) : s.getD i 0 = s[i] := by
  rw [List.getD_eq_getElem?_getD, List.getElem?_eq_getElem h]; rfl

theorem getD_mono_of_sorted (s : List Rat) (hs : s.Pairwise (· ≤ ·)) (i j : Nat) (hij : i ≤ j)
    (hj : j ≤ s.length - 1) (hne : s ≠ []) : s.getD i 0 ≤ s.getD j 0 := by
  have hpos : 0 < s.length := List.length_pos_iff.mpr hne
  have hj' : j < s.length := by omega
  have hi' : i < s.length := by omega
  rw [getD_of_lt _ _ hi', getD_of_lt _ _ hj']
  rcases Nat.lt_or_ge i j with h | h
  · exact (List.pairwise_iff_getElem.mp hs) i j hi' hj' h
  · have : i = j := by omega
    subst this; exact le_refl _

theorem vi_range (n : Nat) (hn : 0 < n) (q : Rat) (h0 : 0 ≤ q) (h1 : q ≤ 100) :
    0 ≤ q / 100 * ((n : Rat) - 1) ∧ q / 100 * ((n : Rat) - 1) ≤ ((n - 1 : Nat) : Rat) := by
  have hc : ((n - 1 : Nat) : Rat) = (n : Rat) - 1 := by
    rw [Nat.cast_sub hn]; simp
  rw [hc]
  have hn1 : (0 : Rat) ≤ (n : Rat) - 1 := by
    have : (1 : Rat) ≤ (n : Rat) := by exact_mod_cast hn
    linarith
  constructor
  · exact mul_nonneg (by positivity) hn1
  · have : q / 100 * ((n : Rat) - 1) ≤ 1 * ((n : Rat) - 1) :=
      mul_le_mul_of_nonneg_right (by linarith) hn1
    linarith

/-- numpy's linear percentile is monotone in `q` on `[0, 100]` -/
theorem percentileSorted_mono (s : List Rat) (hs : s.Pairwise (· ≤ ·)) (q1 q2 : Rat)
    (h0 : 0 ≤ q1) (h12 : q1 ≤ q2) (h2 : q2 ≤ 100) :
    percentileSorted s q1 ≤ percentileSorted s q2 := by
  by_cases hne : s = []
  · subst hne
    simp [percentileSorted]
  · have hpos : 0 < s.length := List.length_pos_iff.mpr hne
    rw [percentileSorted_eq_interpAt, percentileSorted_eq_interpAt]
    have r2 := vi_range s.length hpos q2 (le_trans h0 h12) h2
    have r1 := vi_range s.length hpos q1 h0 (le_trans h12 h2)
    apply interpAt_mono _ _ (fun i j hij hj => getD_mono_of_sorted s hs i j hij hj hne) _ _ r1.1 _ r2.2
    have hn1 : (0 : Rat) ≤ (s.length : Rat) - 1 := by
      have : (1 : Rat) ≤ (s.length : Rat) := by exact_mod_cast hpos
      linarith
    exact mul_le_mul_of_nonneg_right (by linarith) hn1

theorem floorNat_eq (vi : Rat) (k : Nat) (h1 : (k : Rat) ≤ vi) (h2 : vi < (k : Rat) + 1) :
    vi.floor.toNat = k := by
  have : vi.floor = (k : Int) := by
    show ⌊vi⌋ = (k : Int)
    apply Int.floor_eq_iff.mpr
    constructor
    · simpa using h1
    · simpa using h2
  rw [this]; simp

/-- the median is the 50th percentile -/
theorem medianSorted_eq_percentile (s : List Rat) (hne : s ≠ []) :
    medianSorted s = percentileSorted s 50 := by
  have hpos : 0 < s.length := List.length_pos_iff.mpr hne
  unfold medianSorted percentileSorted
  simp only
  generalize hn : s.length = n at *
  by_cases hodd : n % 2 = 1
  · rw [if_pos hodd]
    obtain ⟨m, rfl⟩ : ∃ m, n = 2 * m + 1 := ⟨n / 2, by omega⟩
    have hvi : (50 : Rat) / 100 * (((2 * m + 1 : Nat) : Rat) - 1) = (m : Rat) := by
      push_cast; ring
    rw [hvi]
    have hfl : (m : Rat).floor.toNat = m := floorNat_eq _ m (le_refl _) (by linarith)
    rw [hfl]
    have : (2 * m + 1) / 2 = m := by omega
    rw [this]
    ring
  · rw [if_neg hodd]
    obtain ⟨m, rfl⟩ : ∃ m, n = 2 * (m + 1) := ⟨n / 2 - 1, by omega⟩
    have hvi : (50 : Rat) / 100 * (((2 * (m + 1) : Nat) : Rat) - 1) = (m : Rat) + 1 / 2 := by
      push_cast; ring
    rw [hvi]
    have hfl : ((m : Rat) + 1 / 2).floor.toNat = m := floorNat_eq _ m (by linarith) (by linarith)
    rw [hfl]
    have e1 : 2 * (m + 1) / 2 - 1 = m := by omega
    have e2 : 2 * (m + 1) / 2 = m + 1 := by omega
    have e3 : min (m + 1) (2 * (m + 1) - 1) = m + 1 := by omega
    rw [e1, e2, e3]
    ring

/-- a percentile lies between any bounds of the data -/
theorem percentileSorted_bounds (s : List Rat) (hne : s ≠ []) (q : Rat) (h0 : 0 ≤ q) (h1 : q ≤ 100)
    (lo hi : Rat) (hb : ∀ x ∈ s, lo ≤ x ∧ x ≤ hi) :
    lo ≤ percentileSorted s q ∧ percentileSorted s q ≤ hi := by
  have hpos : 0 < s.length := List.length_pos_iff.mpr hne
  obtain ⟨r0, r1⟩ := vi_range s.length hpos q h0 h1
  unfold percentileSorted
  simp only
  generalize q / 100 * ((s.length : Rat) - 1) = vi at *
  obtain ⟨hg0, hg1⟩ := floorNat_spec vi r0
  have hlo := floorNat_le_of_le vi _ r0 r1
  have hi1 : vi.floor.toNat < s.length := by omega
  have hi2 : min (vi.floor.toNat + 1) (s.length - 1) < s.length := by omega
  rw [getD_of_lt _ _ hi1, getD_of_lt _ _ hi2]
  have ha := hb _ (List.getElem_mem hi1)
  have hbb := hb _ (List.getElem_mem hi2)
  generalize s[vi.floor.toNat] = a at *
  generalize s[min (vi.floor.toNat + 1) (s.length - 1)] = b at *
  generalize ((vi.floor.toNat : Nat) : Rat) = L at *
  have e : a + (b - a) * (vi - L) = a * (1 - (vi - L)) + b * (vi - L) := by ring
  rw [e]
  have g0 : 0 ≤ vi - L := by linarith
  have g1 : 0 ≤ 1 - (vi - L) := by linarith
  constructor
  · have := mul_le_mul_of_nonneg_right ha.1 g1
    have := mul_le_mul_of_nonneg_right hbb.1 g0
    linarith
  · have := mul_le_mul_of_nonneg_right ha.2 g1
    have := mul_le_mul_of_nonneg_right hbb.2 g0
    linarith

theorem wavg_sums (v w : List Rat) (hlen : v.length = w.length)
    (hw : ∀ x ∈ w, 0 < x) (lo hi : Rat) (hb : ∀ x ∈ v, lo ≤ x ∧ x ≤ hi) :
    lo * w.sum ≤ ((v.zip w).map (fun p => p.1 * p.2)).sum ∧
      ((v.zip w).map (fun p => p.1 * p.2)).sum ≤ hi * w.sum := by
  induction v generalizing w with
  | nil =>
    cases w with
    | nil => simp
    | cons _ _ => simp at hlen
  | cons a t ih =>
    cases w with
    | nil => simp at hlen
    | cons c u =>
      have hlen' : t.length = u.length := by simpa using hlen
      have hc : 0 < c := hw c (by simp)
      have ha := hb a (by simp)
      obtain ⟨i1, i2⟩ := ih u hlen' (fun x hx => hw x (by simp [hx])) (fun x hx => hb x (by simp [hx]))
      simp only [List.zip_cons_cons, List.map_cons, List.sum_cons]
      have := mul_le_mul_of_nonneg_right ha.1 hc.le
      have := mul_le_mul_of_nonneg_right ha.2 hc.le
      constructor <;> linarith

theorem sum_pos_of_pos (w : List Rat) (hne : w ≠ []) (hw : ∀ x ∈ w, 0 < x) : 0 < w.sum := by
  induction w with
  | nil => exact absurd rfl hne
  | cons c u ih =>
    have hc : 0 < c := hw c (by simp)
    rw [List.sum_cons]
    by_cases hu : u = []
    · subst hu; simpa using hc
    · have := ih hu (fun x hx => hw x (by simp [hx]))
      linarith

/-- a weighted average with positive weights lies between any bounds of the values -/
theorem wavg_bounds (v w : List Rat) (hlen : v.length = w.length) (hne : v ≠ [])
    (hw : ∀ x ∈ w, 0 < x) (lo hi : Rat) (hb : ∀ x ∈ v, lo ≤ x ∧ x ≤ hi) :
    lo ≤ wavg v w ∧ wavg v w ≤ hi := by
  have hwne : w ≠ [] := by
    intro h; subst h
    exact hne (List.length_eq_zero_iff.mp (by simpa using hlen))
  have hpos := sum_pos_of_pos w hwne hw
  obtain ⟨i1, i2⟩ := wavg_sums v w hlen hw lo hi hb
  unfold wavg
  exact ⟨(le_div_iff₀ hpos).mpr i1, (div_le_iff₀ hpos).mpr i2⟩

/-- the prediction interval brackets the median -/
theorem piFunc_brackets_median (l : List Rat) (hne : l ≠ []) (alpha : Rat) (h0 : 0 < alpha) (h1 : alpha < 1) :
    (piFunc l alpha).1 ≤ median l ∧ median l ≤ (piFunc l alpha).2 := by
  have hsne : sortR l ≠ [] := by
    intro h
    have := sortR_length l
    rw [h] at this
    exact hne (List.length_eq_zero_iff.mp this.symm)
  have hs := sortR_sorted l
  unfold piFunc median percentile
  rw [medianSorted_eq_percentile _ hsne]
  exact ⟨percentileSorted_mono _ hs _ _ (by linarith) (by linarith) (by norm_num),
    percentileSorted_mono _ hs _ _ (by norm_num) (by linarith) (by linarith)⟩

/-- the bootstrap confidence interval is ordered, whatever the draws -/
theorem ciBoot_ordered (vals wts : List Rat) (alpha : Rat) (h0 : 0 < alpha) (h1 : alpha < 1)
    (boot : List BootRow) : (ciBoot vals wts alpha boot).1 ≤ (ciBoot vals wts alpha boot).2 := by
  unfold ciBoot
  split
  · exact le_refl _
  · exact percentileSorted_mono _ (sortR_sorted _) _ _ (by linarith) (by linarith) (by linarith)

/-- a replicate list is well formed for `k` bins: positions below `k`, at least one position, no noise
    (plain, unsmoothed bootstrap) -/
def BootWF (k : Nat) (boot : List BootRow) : Prop :=
  boot ≠ [] ∧ ∀ r ∈ boot, r.idx ≠ [] ∧ r.noise = [] ∧ ∀ i ∈ r.idx, i < k

theorem replicateMean_bounds (vals wts : List Rat) (hlen : vals.length = wts.length)
    (hw : ∀ x ∈ wts, 0 < x) (r : BootRow) (hidx : r.idx ≠ []) (hnoise : r.noise = [])
    (hlt : ∀ i ∈ r.idx, i < vals.length) (lo hi : Rat) (hr : ∀ x ∈ vals, lo ≤ x ∧ x ≤ hi) :
    lo ≤ replicateMean vals wts r ∧ replicateMean vals wts r ≤ hi := by
  unfold replicateMean
  simp only [hnoise, List.nil_append]
  apply wavg_bounds
  · simp
  · intro h
    have := congrArg List.length h
    simp at this
    exact hidx this
  · intro x hx
    obtain ⟨i, hi, rfl⟩ := List.mem_map.mp hx
    have : i < wts.length := hlen ▸ hlt i hi
    rw [getD_of_lt _ _ this]
    exact hw _ (List.getElem_mem this)
  · intro x hx
    obtain ⟨p, hp, rfl⟩ := List.mem_map.mp hx
    obtain ⟨hp1, hp2⟩ := List.of_mem_zip hp
    have h2 : p.2 = 0 := List.eq_of_mem_replicate hp2
    have : p.1 < vals.length := hlt _ hp1
    rw [h2, getD_of_lt _ _ this, add_zero]
    exact hr _ (List.getElem_mem this)

/-- the unsmoothed bootstrap confidence interval lies inside the range of the bins' values when all
    weights are positive -/
theorem ciBoot_within_range (vals wts : List Rat) (hlen : vals.length = wts.length) (hne : vals ≠ [])
    (hw : ∀ x ∈ wts, 0 < x) (alpha : Rat) (h0 : 0 < alpha) (h1 : alpha < 1)
    (boot : List BootRow) (hb : BootWF vals.length boot) (lo hi : Rat) (hr : ∀ x ∈ vals, lo ≤ x ∧ x ≤ hi) :
    lo ≤ (ciBoot vals wts alpha boot).1 ∧ (ciBoot vals wts alpha boot).2 ≤ hi := by
  have hpos : 0 < vals.length := List.length_pos_iff.mpr hne
  unfold ciBoot
  split
  · rw [getD_of_lt _ _ hpos]
    have := hr _ (List.getElem_mem hpos)
    exact ⟨this.1, this.2⟩
  · obtain ⟨hbne, hball⟩ := hb
    have hdist : ∀ x ∈ sortR (boot.map (replicateMean vals wts)), lo ≤ x ∧ x ≤ hi := by
      intro x hx
      have hx' := (sortR_perm _).mem_iff.mp hx
      obtain ⟨r, hrm, rfl⟩ := List.mem_map.mp hx'
      obtain ⟨a, b, c⟩ := hball r hrm
      exact replicateMean_bounds vals wts hlen hw r a b c lo hi hr
    have hsne : sortR (boot.map (replicateMean vals wts)) ≠ [] := by
      intro h
      have := sortR_length (boot.map (replicateMean vals wts))
      rw [h] at this
      simp at this
      exact hbne (List.length_eq_zero_iff.mp this.symm)
    unfold percentile
    exact ⟨(percentileSorted_bounds _ hsne _ (by linarith) (by linarith) lo hi hdist).1,
      (percentileSorted_bounds _ hsne _ (by linarith) (by linarith) lo hi hdist).2⟩

end CnvVerif.Stats
