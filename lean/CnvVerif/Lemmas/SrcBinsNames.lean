/-
  C12: `filter_names` -- the hand-written model equals the expression the translators read off the current source
  (Generated/ExprsBins.lean, regenerated from /repo on every run by harness/extractors/exprs_bins.py).
  Each proof tries `rfl` first and falls back to case analysis + `simp`, so that equivalent spellings of the
  source (a flipped comparison, a negated test with swapped branches, renamed locals) keep it green.
  One lemma file and one Props module per source function group: an edit breaks exactly the obligations about it.
-/
import CnvVerif.Generated.ExprsBins
import CnvVerif.Model.Bins
import Mathlib.Tactic.SplitIfs
set_option linter.unusedSimpArgs false
namespace CnvVerif.Src
open CnvVerif CnvVerif.Generated

/-- `filter_names` with its default `exclude` -/
theorem length_pos_decide {α} (l : List α) : decide (l.length > 0) = !l.isEmpty := by
  cases l <;> simp

theorem length_ge_two_decide {α} (l : List α) : decide (l.length ≥ 2) = decide (l.length > 1) := by
  apply decide_eq_decide.mpr
  omega

theorem filterNames_is_source (names : List String) :
    filterNames names = src_filter_names names SHORTEN_EXCLUDE := by
  unfold filterNames src_filter_names
  first
  | rfl
  | (have hp : ∀ n : String, (!(SHORTEN_EXCLUDE.any (fun ex => n.startsWith ex))) =
         SHORTEN_EXCLUDE.all (fun ex => !(n.startsWith ex)) := fun n => List.not_any_eq_all_not
     simp only [hp, length_pos_decide, length_ge_two_decide, gt_iff_lt, decide_eq_true_eq]
     generalize names.filter (fun n => SHORTEN_EXCLUDE.all (fun ex => !(n.startsWith ex))) = ok
     by_cases h1 : 1 < names.length <;> cases h2 : ok.isEmpty <;>
       simp only [h1, h2, if_true, if_false, Bool.not_true, Bool.not_false, Bool.false_eq_true,
         decide_true, decide_false])

end CnvVerif.Src
