/-
  C06 tie to the source TEXT -- subdivide: the LOOP STRUCTURE of `_split_targets` (Generated/ExprsSplitLoop.lean, read by
  harness/splitloop.py): guard, `nbins == 1` branch, the inner `for i in range(1, nbins)` loop carrying `bin_start`, the
  yield after it.  The model's `splitRow` (Model/Interval.lean), read as the list of its (start, end) pairs, EQUALS it.
-/
import CnvVerif.Generated.ExprsSplitLoop
import CnvVerif.Lemmas.SrcIntervalSubdivide
set_option linter.unusedTactic false
set_option linter.unreachableTactic false
set_option linter.unusedSimpArgs false
namespace CnvVerif.Src
open CnvVerif CnvVerif.Generated

/-- a generator loop `for i in range(a+1, a+1+k): yield (cur, g i); cur = g i` followed by `yield (cur, e)`, started
    with `cur = g a`, yields the consecutive pairs `(g i, g (i+1))`, `a ≤ i < a+k`, and then `(g (a+k), e)` -/
theorem splitLoop_genLoop_chain (g : Nat → Rat) (e : Rat)
    (step : Rat → Nat → List (Rat × Rat) × Rat) (final : Rat → List (Rat × Rat))
    (hstep : ∀ b i, step b i = ([(b, g i)], g i)) (hfinal : ∀ b, final b = [(b, e)]) :
    ∀ (k a : Nat), Py.genLoop step final (g a) (List.range' (a + 1) k) =
      (List.range' a k).map (fun i => (g i, g (i + 1))) ++ [(g (a + k), e)]
  | 0, a => by simp [Py.genLoop, hfinal]
  | k + 1, a => by
    rw [List.range'_succ, List.range'_succ]
    simp only [Py.genLoop, hstep, List.map_cons, List.cons_append, List.nil_append, List.singleton_append]
    rw [splitLoop_genLoop_chain g e step final hstep hfinal k (a + 1)]
    have : a + 1 + k = a + (k + 1) := by omega
    rw [this]

/-- the cut positions of the model, as rationals -/
def splitCut (avg : Rat) (r : Row) (i : Nat) : Rat :=
  ((r.s + ((i : Int) * (r.e - r.s)) / ((binCount avg r : Nat) : Int) : Int) : Rat)

theorem splitCut_zero (avg : Rat) (r : Row) : splitCut avg r 0 = (r.s : Rat) := by
  simp [splitCut]

theorem splitCut_last (avg : Rat) (r : Row) (hpos : 1 ≤ binCount avg r) :
    splitCut avg r (binCount avg r) = (r.e : Rat) := by
  unfold splitCut
  have hn : ((binCount avg r : Nat) : Int) ≠ 0 := by omega
  rw [Int.mul_ediv_cancel_left _ hn]
  push_cast; ring

/-- the (start, end) pairs of `splitInto r n` -/
theorem splitInto_pairs (avg : Rat) (r : Row) :
    (splitInto r (binCount avg r)).map (fun x => ((x.s : Rat), (x.e : Rat))) =
      (List.range (binCount avg r)).map (fun i => (splitCut avg r i, splitCut avg r (i + 1))) := by
  simp only [splitInto, List.map_map, splitCut]
  apply List.map_congr_left
  intro i _
  first
  | (simp only [Function.comp]; done)
  | (simp only [Function.comp]; push_cast; rfl)

/-- every bin of `splitInto` is its row with `start` / `end` replaced (`row._replace(start=.., end=..)`) -/
theorem splitInto_fields (r : Row) (n : Nat) : ∀ x ∈ splitInto r n, { x with s := r.s, e := r.e } = r := by
  intro x hx
  simp only [splitInto, List.mem_map, List.mem_range] at hx
  obtain ⟨i, _, rfl⟩ := hx
  rfl

theorem splitRow_fields (avg : Rat) (minSize : Int) (r : Row) :
    ∀ x ∈ splitRow avg minSize r, { x with s := r.s, e := r.e } = r := by
  intro x hx
  rw [splitRow_binCount] at hx
  split at hx
  · split at hx
    · simp only [List.mem_singleton] at hx; subst hx; rfl
    · exact splitInto_fields r _ x hx
  · simp at hx

/-- `_split_targets`, the body of the row loop: the model's `splitRow` yields the (start, end) pairs the source loop yields -/
theorem splitRow_is_source_loop (avg : Rat) (havg : 0 < avg) (minSize : Int) (r : Row) (hlen : r.s ≤ r.e) :
    (splitRow avg minSize r).map (fun x => ((x.s : Rat), (x.e : Rat))) = src_splitloop_row r.s r.e avg minSize := by
  obtain ⟨_, hpos⟩ := binCount_cast avg havg r hlen
  have hnb := src_split_nbins_eq avg havg r hlen
  rw [splitRow_binCount]
  unfold src_splitloop_row
  by_cases hk : src_split_keeps r.s r.e minSize = true
  · simp only [hk, if_true, hnb]
    by_cases h1 : binCount avg r = 1
    · have h1' : ((binCount avg r : Nat) : Rat) = 1 := by rw [h1]; norm_num
      have h1'' : (1 : Rat) = ((binCount avg r : Nat) : Rat) := h1'.symm
      simp [h1, h1', ← h1'']
    · have h1' : ¬ ((binCount avg r : Nat) : Rat) = 1 := by
        intro h; exact h1 (by exact_mod_cast h)
      have hb : (binCount avg r == 1) = false := by simpa using h1
      have h1'' : ¬ (1 : Rat) = ((binCount avg r : Nat) : Rat) := fun h => h1' h.symm
      -- robust against `1 == nbins`, `nbins != 1` with the branches exchanged
      simp only [hb, h1', h1'', if_false, if_true, ne_eq, not_false_eq_true, not_true_eq_false, Bool.false_eq_true,
        ite_not]
      have hfl : (((binCount avg r : Nat) : Rat)).floor.toNat = binCount avg r := by
        have hc : ((binCount avg r : Nat) : Rat) = (((binCount avg r : Nat) : Int) : Rat) := by push_cast; rfl
        rw [hc, Rat.floor_intCast]; simp
      rw [hfl, splitInto_pairs]
      have hstep : ∀ (b : Rat) (i : Nat), src_splitloop_step r.s r.e avg minSize b i
          = ([(b, splitCut avg r i)], splitCut avg r i) := by
        intro b i
        simp only [src_splitloop_step, src_split_bin_end_eq avg havg r hlen i, splitCut]
      have hfinal : ∀ b : Rat, src_splitloop_final r.s r.e avg minSize b = [(b, (r.e : Rat))] := by
        intro b; simp only [src_splitloop_final]
      have h0 := splitLoop_genLoop_chain (splitCut avg r) (r.e : Rat) _ _ hstep hfinal (binCount avg r - 1) 0
      rw [splitCut_zero] at h0
      simp only [Nat.zero_add] at h0
      rw [h0]
      obtain ⟨m, hm⟩ : ∃ m, binCount avg r = m + 1 := ⟨binCount avg r - 1, by omega⟩
      have hl := splitCut_last avg r hpos
      rw [hm] at hl ⊢
      simp only [Nat.add_sub_cancel, List.range_succ, List.map_append, List.map_cons, List.map_nil, hl,
        List.range_eq_range', Nat.zero_add]
  · simp [hk]

end CnvVerif.Src
