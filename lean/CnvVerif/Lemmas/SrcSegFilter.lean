/-
  The level functions of the model equal the expressions the translator reads off cnvlib/segfilters.py
  (Generated/ExprsSegFilters.lean, regenerated from /repo on every run).
-/
import CnvVerif.Generated.ExprsSegFilters
import CnvVerif.Generated.SegFilterConsts
import CnvVerif.Model.SegFilterExt
import CnvVerif.Lemmas.SegFilter
import Mathlib.Tactic.Linarith
import Mathlib.Tactic.SplitIfs
import Mathlib.Algebra.Order.Field.Rat
set_option linter.unusedTactic false
set_option linter.unreachableTactic false
set_option linter.unusedSimpArgs false
namespace CnvVerif.Src
open CnvVerif CnvVerif.Generated

theorem levelAmpdel_form (r : Seg) (c : Rat) (hc : r.cn = some c) :
    levelAmpdel r = some (if c ≥ 5 then 1 else if c = 0 then -1 else 0) := by
  have h5 : ((5 : Int) : Rat) = 5 := rfl
  have h0 : ((0 : Int) : Rat) = 0 := rfl
  simp [levelAmpdel, hc, Generated.AMPDEL_AMP_MIN, Generated.AMPDEL_DEL_EQ, h5, h0]

/-- `ampdel`: the model's level of a row is the source's -/
theorem levelAmpdel_is_source (r : Seg) (c : Rat) (hc : r.cn = some c) :
    levelAmpdel r = some (src_level_ampdel c) := by
  rw [levelAmpdel_form r c hc]
  unfold src_level_ampdel
  first
    | rfl
    | (refine congrArg some ?_
       split_ifs <;> first | rfl | (exfalso; linarith) | (exfalso; simp_all) | simp_all)

/-- `ci` -/
theorem levelCi_is_source (r : Seg) (lo hi : Rat) (hlo : r.ciLo = some lo) (hhi : r.ciHi = some hi) :
    levelCi r = some (src_level_ci hi lo) := by
  unfold levelCi src_level_ci
  simp only [hlo, hhi, Option.getD_some]
  all_goals first
    | rfl
    | (refine congrArg some ?_
       split_ifs <;> first | rfl | (exfalso; linarith) | simp_all)

/-- `sem`, with the z-score the source names as default -/
theorem levelSem_is_source (r : Seg) (s : Rat) (hs : r.sem = some s) :
    levelSem r = some (src_level_sem r.log2 s SEM_ZSCORE) := by
  unfold levelSem src_level_sem
  simp only [hs]
  all_goals first
    | rfl
    | (refine congrArg some ?_
       split_ifs <;> first | rfl | (exfalso; linarith) | simp_all)

/-- `cn` -/
theorem levelCn_is_source (r : Seg) (c : Rat) (hc : r.cn = some c) : levelCn r = some (src_level_cn c) := by
  unfold levelCn src_level_cn
  first
    | exact hc
    | (rw [hc]; rfl)

/-- the final selection of `ampdel` keeps a squashed row iff its cn is 0 or at least 5 -/
theorem ampdel_keep_is_source (c : Rat) : src_ampdel_keep c = 1 ↔ (c = 0 ∨ c ≥ 5) := by
  unfold src_ampdel_keep
  constructor
  · intro h
    by_contra hn
    have : ¬ (c = 0 ∨ c ≥ 5) := hn
    first
      | (simp only [if_neg this] at h; exact absurd h (by decide))
      | (split_ifs at h <;> simp_all <;> (try (rcases ‹_› with h1 | h1 <;> first | (exact Or.inl h1) | (exact Or.inr h1) | linarith)))
  · intro h
    first
      | (rw [if_pos h])
      | (split_ifs <;> first | rfl | (exfalso; rcases h with h | h <;> simp_all <;> linarith))

end CnvVerif.Src
