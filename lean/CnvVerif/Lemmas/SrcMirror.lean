/-
  The hand-written model formulas equal the expressions the translator reads off the current source
  (Generated/ExprsMirror.lean, regenerated from /repo on every run).  An edit to one of these formulas in the code
  changes the generated term; unless the edit keeps the term, the theorem below stops checking.
-/
import CnvVerif.Generated.ExprsMirror
import CnvVerif.Model.Vcf
namespace CnvVerif.Src
open CnvVerif CnvVerif.Generated

/-- `_mirrored_baf` with the side left to the median test, one element -/
theorem mirrorOne_is_source (v m : Rat) :
    Vcf.mirrorOne (decide (m > 1/2)) v = src_mirrored_baf_auto v m := by
  simp only [Vcf.mirrorOne, src_mirrored_baf_auto, Vcf.absQ]
  by_cases h : m > 1/2 <;> simp

end CnvVerif.Src
