/-
  C08, round 5: the backtracking semantics of `re_label` collapses to the deterministic parser `Fmt.fromLabel`.
  Key fact: a greedy class-star followed by a continuation that cannot succeed after giving a character back
  never backtracks, so `p* k` = `k (dropWhile p)`.
-/
import CnvVerif.Model.FormatsExt5Label
import CnvVerif.Generated.RegexLabel

namespace CnvVerif.Fmt.C08L
open CnvVerif CnvVerif.Generated

/-- giving back a character of the run never helps the continuation -/
def NoGiveBack (p : Char → Bool) (k : List Char → Option Caps) : Prop :=
  ∀ c t, p c = true → k (t.dropWhile p) = none → k (c :: t) = none

theorem starGo_eq (p : Char → Bool) (k : List Char → Option Caps) (h : NoGiveBack p k) (l : List Char) :
    starGo p l k = k (l.dropWhile p) := by
  induction l with
  | nil => simp [starGo]
  | cons c t ih =>
    unfold starGo
    by_cases hp : p c = true
    · simp only [hp, ↓reduceIte, List.dropWhile_cons_of_pos]
      rw [ih]
      cases hk : k (t.dropWhile p) with
      | some r => rfl
      | none => exact h c t hp hk
    · simp [hp]

theorem noGiveBack_total (p : Char → Bool) (k : List Char → Option Caps) (h : ∀ l, k l ≠ none) : NoGiveBack p k :=
  fun _ t _ hk => absurd hk (h _)

theorem noGiveBack_block (p : Char → Bool) (k : List Char → Option Caps) (h : ∀ c t, p c = true → k (c :: t) = none) :
    NoGiveBack p k :=
  fun c t hp _ => h c t hp

theorem noGiveBack_map (p : Char → Bool) (k : List Char → Option Caps) (f : List Char → Caps → Caps)
    (h : NoGiveBack p k) : NoGiveBack p (fun l' => (k l').map (f l')) := by
  intro c t hp hk
  have : k (t.dropWhile p) = none := by
    cases hkk : k (t.dropWhile p) with
    | none => rfl
    | some r => simp [hkk] at hk
  simp [h c t hp this]

/-- what a group contributes: nothing when it took no part -/
def capsCons (n : Nat) (x : List Char) (caps : Caps) : Caps := if x.isEmpty then caps else (n, x) :: caps

theorem take_consumed (c : Char) (t : List Char) (p : Char → Bool) :
    (c :: t).take ((c :: t).length - (t.dropWhile p).length) = c :: t.takeWhile p := by
  have h : c :: t = (c :: t.takeWhile p) ++ t.dropWhile p := by simp
  have hl : (c :: t).length - (t.dropWhile p).length = (c :: t.takeWhile p).length := by
    have := congrArg List.length h
    simp only [List.length_append, List.length_cons] at this ⊢
    omega
  rw [hl]
  conv => lhs; rw [h]
  exact List.take_left' rfl

/-- `(p+)?` as capture group n, followed by a continuation to which giving back never helps -/
theorem run_opt_grp_plus (n : Nat) (c : Cls) (k : List Char → Option Caps) (h : NoGiveBack (clsTest c) k) (l : List Char) :
    (Re.opt (.grp n (.plus c))).run l k =
      (k (l.dropWhile (clsTest c))).map (capsCons n (l.takeWhile (clsTest c))) := by
  cases l with
  | nil =>
    simp only [Re.run, List.dropWhile_nil, List.takeWhile_nil]
    cases k [] <;> simp [capsCons]
  | cons x t =>
    by_cases hp : clsTest c x = true
    · simp only [Re.run, hp, ↓reduceIte, List.dropWhile_cons_of_pos, List.takeWhile_cons_of_pos]
      rw [starGo_eq _ _ (noGiveBack_map _ k _ h)]
      rw [take_consumed]
      cases hk : k (t.dropWhile (clsTest c)) with
      | some r => simp [capsCons]
      | none => simpa using h x t hp hk
    · have hp' : clsTest c x = false := by simpa using hp
      simp only [Re.run, hp', List.dropWhile_cons_of_neg, List.takeWhile_cons_of_neg, Bool.false_eq_true,
        ↓reduceIte, not_false_eq_true]
      cases k (x :: t) <;> simp [capsCons]

/-- `(p1 p2*)?` as capture group n with p1 ⊆ p2 -/
theorem run_opt_grp_one_star (n : Nat) (c1 c2 : Cls) (k : List Char → Option Caps)
    (hsub : ∀ x, clsTest c1 x = true → clsTest c2 x = true)
    (h : NoGiveBack (clsTest c2) k) (l : List Char) :
    (Re.opt (.grp n (.seq (.one c1) (.star c2)))).run l k =
      match l with
      | x :: t => if clsTest c1 x then (k (t.dropWhile (clsTest c2))).map (fun caps => (n, x :: t.takeWhile (clsTest c2)) :: caps)
                  else k (x :: t)
      | [] => k [] := by
  cases l with
  | nil => simp only [Re.run]
  | cons x t =>
    by_cases hp : clsTest c1 x = true
    · simp only [Re.run, hp, ↓reduceIte]
      rw [starGo_eq _ _ (noGiveBack_map _ k _ h)]
      rw [take_consumed]
      cases hk : k (t.dropWhile (clsTest c2)) with
      | some r => simp
      | none => simpa using h x t (hsub x hp) hk
    · have hp' : clsTest c1 x = false := by simpa using hp
      simp only [Re.run, hp', Bool.false_eq_true, ↓reduceIte]

theorem run_star (c : Cls) (k : List Char → Option Caps) (h : NoGiveBack (clsTest c) k) (l : List Char) :
    (Re.star c).run l k = k (l.dropWhile (clsTest c)) := by
  simp only [Re.run]; exact starGo_eq _ _ h l

/-! ## the pattern of `re_label`, stage by stage (continuations from the inside out) -/

namespace LabelRe

def acc : List Char → Option Caps := fun _ => some []
def k6 : List Char → Option Caps := fun l => (Re.opt (.grp 4 (.plus [.notSpace]))).run l acc
def k5 : List Char → Option Caps := fun l => (Re.star [.space]).run l k6
def k4 : List Char → Option Caps := fun l => (Re.opt (.grp 3 (.plus [.digit]))).run l k5
def k3 : List Char → Option Caps := fun l => (Re.one [.ch '-']).run l k4
def k2 : List Char → Option Caps := fun l => (Re.opt (.grp 2 (.plus [.digit]))).run l k3
def k1 : List Char → Option Caps := fun l => (Re.one [.ch ':']).run l k2
def k0 : List Char → Option Caps :=
  fun l => (Re.opt (.grp 1 (.seq (.one [.word]) (.star [.word, .ch '.'])))).run l k1

theorem reMatch_src (l : List Char) : reMatch src_re_label l = k0 l := rfl

theorem cls_digit : clsTest [.digit] = Char.isDigit := by funext c; simp [clsTest, Atom.test]
theorem cls_space : clsTest [.space] = isSpaceCh := by funext c; simp [clsTest, Atom.test]
theorem cls_notSpace : clsTest [.notSpace] = (fun c => !isSpaceCh c) := by funext c; simp [clsTest, Atom.test]
theorem cls_word : clsTest [.word] = isWordCh := by funext c; simp [clsTest, Atom.test]
theorem cls_wordDot : clsTest [.word, .ch '.'] = (fun c => isWordCh c || c == '.') := by
  funext c; simp [clsTest, Atom.test]

theorem k6_eq (l : List Char) : k6 l = some (capsCons 4 (l.takeWhile (fun c => !isSpaceCh c)) []) := by
  unfold k6
  rw [run_opt_grp_plus _ _ _ (noGiveBack_total _ _ (by intro l; simp [acc])), cls_notSpace]
  simp [acc]

theorem k5_eq (l : List Char) :
    k5 l = some (capsCons 4 ((l.dropWhile isSpaceCh).takeWhile (fun c => !isSpaceCh c)) []) := by
  unfold k5
  rw [run_star _ _ (noGiveBack_total _ _ (by intro l; simp [k6_eq])), cls_space, k6_eq]

theorem k4_eq (l : List Char) :
    k4 l = some (capsCons 3 (l.takeWhile Char.isDigit)
      (capsCons 4 (((l.dropWhile Char.isDigit).dropWhile isSpaceCh).takeWhile (fun c => !isSpaceCh c)) [])) := by
  unfold k4
  rw [run_opt_grp_plus _ _ _ (noGiveBack_total _ _ (by intro l; simp [k5_eq])), cls_digit, k5_eq]
  simp

theorem k3_eq (l : List Char) : k3 l = match l with
    | x :: t => if x == '-' then k4 t else none
    | [] => none := by
  unfold k3
  cases l <;> simp [Re.run, clsTest, Atom.test]

theorem k3_block (c : Char) (t : List Char) (h : Char.isDigit c = true) : k3 (c :: t) = none := by
  rw [k3_eq]
  have : (c == '-') = false := by
    cases hc : (c == '-')
    · rfl
    · have : c = '-' := by simpa using hc
      subst this; revert h; decide
  simp [this]

theorem k2_eq (l : List Char) :
    k2 l = (k3 (l.dropWhile Char.isDigit)).map (capsCons 2 (l.takeWhile Char.isDigit)) := by
  unfold k2
  rw [run_opt_grp_plus _ _ _ (noGiveBack_block _ _ (by rw [cls_digit]; exact k3_block)), cls_digit]

theorem k1_eq (l : List Char) : k1 l = match l with
    | x :: t => if x == ':' then k2 t else none
    | [] => none := by
  unfold k1
  cases l <;> simp [Re.run, clsTest, Atom.test]

theorem k1_block (c : Char) (t : List Char) (h : (isWordCh c || c == '.') = true) : k1 (c :: t) = none := by
  rw [k1_eq]
  have : (c == ':') = false := by
    cases hc : (c == ':')
    · rfl
    · have : c = ':' := by simpa using hc
      subst this; revert h; decide
  simp [this]

theorem k0_eq (l : List Char) : k0 l = match l with
    | x :: t => if isWordCh x
        then (k1 (t.dropWhile (fun c => isWordCh c || c == '.'))).map
               (fun caps => (1, x :: t.takeWhile (fun c => isWordCh c || c == '.')) :: caps)
        else k1 (x :: t)
    | [] => k1 [] := by
  unfold k0
  rw [run_opt_grp_one_star _ _ _ _ (by intro x; rw [cls_word, cls_wordDot]; intro h; simp [h])
    (noGiveBack_block _ _ (by rw [cls_wordDot]; exact k1_block)), cls_word, cls_wordDot]
  try (cases l <;> rfl)

/-- the groups 1..4 of a capture list built by the optional groups 2, 3, 4 -/
theorem capOf_234 (a b c : List Char) :
    capOf (capsCons 2 a (capsCons 3 b (capsCons 4 c []))) 1 = [] ∧
    capOf (capsCons 2 a (capsCons 3 b (capsCons 4 c []))) 2 = a ∧
    capOf (capsCons 2 a (capsCons 3 b (capsCons 4 c []))) 3 = b ∧
    capOf (capsCons 2 a (capsCons 3 b (capsCons 4 c []))) 4 = c := by
  cases a <;> cases b <;> cases c <;> simp [capsCons, capOf, List.lookup]

theorem capOf_1234 (x a b c : List Char) :
    capOf ((1, x) :: capsCons 2 a (capsCons 3 b (capsCons 4 c []))) 1 = x ∧
    capOf ((1, x) :: capsCons 2 a (capsCons 3 b (capsCons 4 c []))) 2 = a ∧
    capOf ((1, x) :: capsCons 2 a (capsCons 3 b (capsCons 4 c []))) 3 = b ∧
    capOf ((1, x) :: capsCons 2 a (capsCons 3 b (capsCons 4 c []))) 4 = c := by
  cases a <;> cases b <;> cases c <;> simp [capsCons, capOf, List.lookup]

/-- what follows the chromosome part, as `Fmt.fromLabel` reads it -/
def tailOf (chrom : List Char) (m : List Char) : Except String (List Char × List Char × List Char × List Char) :=
  match m with
  | ':' :: r1 =>
    match r1.dropWhile Char.isDigit with
    | '-' :: r3 =>
      .ok (chrom, r1.takeWhile Char.isDigit, r3.takeWhile Char.isDigit,
           ((r3.dropWhile Char.isDigit).dropWhile isSpaceCh).takeWhile (fun c => !isSpaceCh c))
    | _ => .error "ValueError: Invalid range spec"
  | _ => .error "ValueError: Invalid range spec"

theorem fromLabel_tail (l : List Char) :
    fromLabel l = match l with
      | x :: t => if isWordCh x
          then tailOf (x :: t.takeWhile (fun c => isWordCh c || c == '.')) (t.dropWhile (fun c => isWordCh c || c == '.'))
          else tailOf [] (x :: t)
      | [] => tailOf [] [] := by
  cases l with
  | nil => rfl
  | cons x t =>
    by_cases hw : isWordCh x = true
    · have e1 : (x :: t).takeWhile (fun c => isWordCh c || c == '.') =
          x :: t.takeWhile (fun c => isWordCh c || c == '.') := by simp [hw]
      have e2 : (x :: t).dropWhile (fun c => isWordCh c || c == '.') =
          t.dropWhile (fun c => isWordCh c || c == '.') := by simp [hw]
      simp only [fromLabel, tailOf, hw, ↓reduceIte]
      rw [e1, e2]
      rfl
    · have hw' : isWordCh x = false := by simpa using hw
      simp only [fromLabel, tailOf, hw', Bool.false_eq_true, ↓reduceIte]
      rfl

/-- the tail under the regex semantics -/
theorem k1_tail (pre : Caps → Caps) (chrom : List Char) (m : List Char)
    (hpre : ∀ a b c, capOf (pre (capsCons 2 a (capsCons 3 b (capsCons 4 c [])))) 1 = chrom ∧
      capOf (pre (capsCons 2 a (capsCons 3 b (capsCons 4 c [])))) 2 = a ∧
      capOf (pre (capsCons 2 a (capsCons 3 b (capsCons 4 c [])))) 3 = b ∧
      capOf (pre (capsCons 2 a (capsCons 3 b (capsCons 4 c [])))) 4 = c) :
    (match (k1 m).map pre with
      | some caps => Except.ok (capOf caps 1, capOf caps 2, capOf caps 3, capOf caps 4)
      | none => Except.error "ValueError: Invalid range spec") = tailOf chrom m := by
  cases m with
  | nil => simp [k1_eq, tailOf]
  | cons x t =>
    by_cases hx : x = ':'
    · subst hx
      simp only [k1_eq, k2_eq, tailOf, beq_self_eq_true, ↓reduceIte]
      cases hd : t.dropWhile Char.isDigit with
      | nil => simp [k3_eq]
      | cons y r3 =>
        by_cases hy : y = '-'
        · subst hy
          simp [k3_eq, k4_eq, hpre]
        · simp [k3_eq, hy]
    · simp [k1_eq, hx, tailOf]

end LabelRe

end CnvVerif.Fmt.C08L
