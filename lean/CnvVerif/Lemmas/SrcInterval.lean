/-
  C06 tie to the source TEXT: the pieces of skgenome's interval arithmetic that the translator re-reads on every run
  (Generated/ExprsInterval.lean) are the expressions the hand-written model (Model/Interval.lean) is built from.

  Each generated piece is first brought to a NORMAL FORM (`src_*_nf`, proved by `omega` / rewriting, so that an
  equivalent spelling of the same test or formula in the source keeps them green); the model functions are then
  shown to be those normal forms put together.
-/
import CnvVerif.Generated.ExprsInterval
import CnvVerif.Model.Interval
import CnvVerif.Lemmas.IntervalSubdivide
import Mathlib.Data.Rat.Floor
import Mathlib.Tactic.Ring
import Mathlib.Tactic.FieldSimp
set_option linter.unusedTactic false
set_option linter.unreachableTactic false
namespace CnvVerif.Src
open CnvVerif CnvVerif.Generated

/-! ### decisions over `Int`: normal forms -/

theorem src_merge_new_group_nf (a b bp : Int) : src_merge_new_group a b bp = decide (a - b > -bp) := by
  unfold src_merge_new_group
  first
  | rfl
  | (simp only [decide_eq_decide]; omega)

theorem src_merge_fast_path_nf (a b bp : Int) : src_merge_fast_path a b bp = decide (a - b > -bp) := by
  unfold src_merge_fast_path
  first
  | rfl
  | (simp only [decide_eq_decide]; omega)

theorem src_flatten_fast_path_nf (a b : Int) : src_flatten_fast_path a b = decide (a ≥ b) := by
  unfold src_flatten_fast_path
  first
  | rfl
  | (simp only [decide_eq_decide]; omega)

theorem src_flatten_in_play_nf (rs re a b : Int) : src_flatten_in_play rs re a b = (decide (rs ≤ a) && decide (re ≥ b)) := by
  unfold src_flatten_in_play
  first
  | (rw [Bool.decide_and])
  | (rw [← Bool.decide_and, decide_eq_decide]; omega)

theorem src_subtract_keep_left_nf (a b : Int) : src_subtract_keep_left a b = decide (a < b) := by
  unfold src_subtract_keep_left
  first
  | rfl
  | (simp only [decide_eq_decide]; omega)

theorem src_subtract_keep_right_nf (a b : Int) : src_subtract_keep_right a b = decide (a > b) := by
  unfold src_subtract_keep_right
  first
  | rfl
  | (simp only [decide_eq_decide]; omega)

theorem src_subtract_keep_piece_nf (s e : Int) : src_subtract_keep_piece s e = decide (e > s) := by
  unfold src_subtract_keep_piece
  first
  | rfl
  | (simp only [decide_eq_decide]; omega)

theorem src_split_keeps_nf (s e m : Int) : src_split_keeps s e m = decide (e - s ≥ m) := by
  unfold src_split_keeps
  first
  | rfl
  | (simp only [decide_eq_decide]; omega)

theorem src_resize_drops_nf (bp : Int) : src_resize_drops bp = decide (bp < 0) := by
  unfold src_resize_drops
  first
  | rfl
  | (simp only [decide_eq_decide]; omega)

theorem src_resize_ok_size_nf (s e : Int) : src_resize_ok_size s e = decide (e - s > 0) := by
  unfold src_resize_ok_size
  first
  | rfl
  | (simp only [decide_eq_decide]; omega)

theorem src_resize_start_nf (s bp hi : Int) : src_resize_start s bp hi = clipInt 0 (some hi) (s - bp) := by
  unfold src_resize_start clipInt
  first
  | rfl
  | (simp only []; omega)

theorem src_resize_end_nf (e bp hi : Int) : src_resize_end e bp hi = clipInt 0 (some hi) (e + bp) := by
  unfold src_resize_end clipInt
  first
  | rfl
  | (simp only []; omega)

theorem src_resize_start_nosizes_nf (s bp : Int) : src_resize_start_nosizes s bp = clipInt 0 none (s - bp) := by
  unfold src_resize_start_nosizes clipInt
  first
  | rfl
  | (simp only []; omega)

theorem src_resize_end_nosizes_nf (e bp : Int) : src_resize_end_nosizes e bp = clipInt 0 none (e + bp) := by
  unfold src_resize_end_nosizes clipInt
  first
  | rfl
  | (simp only []; omega)

/-! ### merge / flatten -/

/-- one step of the grouping loop, with the source's gap test -/
theorem mergeGo_step_src (bp : Int) (cur : Row) (genes : List String) (x : Row) (xs : List Row) :
    mergeGo bp cur genes (x :: xs) =
      if src_merge_new_group x.s cur.e bp = true then
        { cur with gene := joinStrings genes.reverse } :: mergeGo bp x [x.gene] xs
      else mergeGo bp { cur with e := max cur.e x.e } (x.gene :: genes) xs := by
  rw [src_merge_new_group_nf, mergeGo]
  simp only [decide_eq_true_eq]

/-- the fast path of `merge`, with the source's elementwise test -/
theorem mergeTable_src (bp : Int) (t : Table) :
    mergeTable bp t =
      if t.isEmpty then t
      else if (((t.map (·.s)).drop 1).zip (cummax (t.map (·.e)))).all
          (fun p => src_merge_fast_path p.1 p.2 bp) then t
      else resortChrom ((groupByChrom (sortLex t)).flatMap (fun g => mergeChrom bp g.2)) := by
  unfold mergeTable gapSizes
  simp only [src_merge_fast_path_nf, List.all_map]
  rfl

theorem overlapGroupsGo_step_src (cur : List Row) (mx : Int) (x : Row) (xs : List Row) :
    overlapGroupsGo cur mx (x :: xs) =
      if src_merge_new_group x.s mx 0 = true then cur.reverse :: overlapGroupsGo [x] x.e xs
      else overlapGroupsGo (x :: cur) (max mx x.e) xs := by
  rw [src_merge_new_group_nf, overlapGroupsGo]
  simp only [decide_eq_true_eq, Int.neg_zero]

theorem flattenTable_src (t : Table) :
    flattenTable t =
      if t.isEmpty then t
      else if (((t.map (·.s)).drop 1).zip (cummax (t.map (·.e)))).all
          (fun p => src_flatten_fast_path p.1 p.2) then t
      else resortChrom ((groupByChrom (sortLex t)).flatMap
        (fun g => (overlapGroups g.2).flatMap flattenGroup)) := by
  unfold flattenTable
  simp only [src_flatten_fast_path_nf]

theorem flattenGroup_src (first second : Row) (rest : List Row) :
    flattenGroup (first :: second :: rest) =
      (let rows := first :: second :: rest
       let breaks := sortDedupInts (rows.flatMap (fun r => [r.s, r.e]))
       (breaks.zip (breaks.drop 1)).map fun ab =>
         let inPlay := rows.filter (fun r => src_flatten_in_play r.s r.e ab.1 ab.2)
         { first with s := ab.1, e := ab.2, gene := joinStrings (inPlay.map (·.gene)) }) := by
  simp only [flattenGroup, src_flatten_in_play_nf]

/-! ### subtract -/

theorem subtractRow_src (k f : Row) (t : List Row) :
    subtractRow k (f :: t) =
      (let ex := f :: t
       let l := ex.getLast?.getD f
       let keepLeft := src_subtract_keep_left k.s f.s
       let keepRight := src_subtract_keep_right k.e l.e
       let exS := ex.map (·.s)
       let exE := ex.map (·.e)
       let pairs : List (Int × Int) :=
         if keepLeft && keepRight then (k.s :: exE).zip (exS ++ [k.e])
         else if keepLeft then (k.s :: exE.dropLast).zip exS
         else if keepRight then exE.zip (exS.drop 1 ++ [k.e])
         else if ex.length > 1 then exE.dropLast.zip (exS.drop 1)
         else []
       (pairs.filter (fun p => src_subtract_keep_piece p.1 p.2)).map (fun p => { k with s := p.1, e := p.2 })) := by
  simp only [subtractRow, src_subtract_keep_left_nf, src_subtract_keep_right_nf, src_subtract_keep_piece_nf,
    decide_eq_true_eq]

/-! ### resize_ranges -/

theorem resizeTable_src (bp : Int) (sizes : String → Option Int) (t : Table) :
    resizeTable bp sizes t =
      (let moved := t.map fun r =>
        match sizes r.chrom with
        | some hi => { r with s := src_resize_start r.s bp hi, e := src_resize_end r.e bp hi }
        | none => { r with s := src_resize_start_nosizes r.s bp, e := src_resize_end_nosizes r.e bp }
       if src_resize_drops bp = true then moved.filter (fun q => src_resize_ok_size q.s q.e) else moved) := by
  unfold resizeTable
  simp only [src_resize_drops_nf, src_resize_ok_size_nf, src_resize_start_nf, src_resize_end_nf,
    src_resize_start_nosizes_nf, src_resize_end_nosizes_nf, decide_eq_true_eq]
  have hmap : (t.map fun r =>
      ({ r with s := clipInt 0 (sizes r.chrom) (r.s - bp), e := clipInt 0 (sizes r.chrom) (r.e + bp) } : Row)) =
      (t.map fun r => match sizes r.chrom with
        | some hi => ({ r with s := clipInt 0 (some hi) (r.s - bp), e := clipInt 0 (some hi) (r.e + bp) } : Row)
        | none => { r with s := clipInt 0 none (r.s - bp), e := clipInt 0 none (r.e + bp) }) := by
    apply List.map_congr_left
    intro r _
    cases sizes r.chrom <;> rfl
  rw [hmap]

/-! ### subdivide: Python's `round`, `int`, `or` -/

/-- the translator's spelling of one-argument `round` is the model's `roundHalfEven` -/
theorem pyRound_eq (x : Rat) :
    (if x - ((x.floor : Int) : Rat) < (1 : Rat) / 2 then ((x.floor : Int) : Rat)
      else if x - ((x.floor : Int) : Rat) > (1 : Rat) / 2 then ((x.floor : Int) : Rat) + 1
      else if x.floor % 2 = 0 then ((x.floor : Int) : Rat) else ((x.floor : Int) : Rat) + 1) =
    ((roundHalfEven x : Int) : Rat) := by
  unfold roundHalfEven
  simp only [beq_iff_eq]
  split_ifs <;> push_cast <;> rfl

/-- the translator's spelling of `int(e)` applied to a value that is already an integer -/
theorem pyTrunc_intCast (z : Int) :
    (if (z : Rat) < 0 then ((((z : Rat)).ceil : Int) : Rat) else ((((z : Rat)).floor : Int) : Rat)) = (z : Rat) := by
  rw [Rat.ceil_intCast, Rat.floor_intCast]; split <;> rfl

/-- the bin count of the model: `int(round(span / avg)) or 1` -/
def binCount (avg : Rat) (r : Row) : Nat :=
  let nb0 := roundHalfEven (((r.e - r.s : Int) : Rat) / avg)
  if nb0 == 0 then 1 else nb0.toNat

/-- `splitRow` is: keep-test, bin count, equal split -/
theorem splitRow_binCount (avg : Rat) (minSize : Int) (r : Row) :
    splitRow avg minSize r =
      if src_split_keeps r.s r.e minSize = true then
        (if binCount avg r == 1 then [r] else splitInto r (binCount avg r))
      else [] := by
  rw [src_split_keeps_nf]
  simp only [splitRow, binCount, decide_eq_true_eq]
  rfl

theorem binCount_cast (avg : Rat) (havg : 0 < avg) (r : Row) (hlen : r.s ≤ r.e) :
    ((binCount avg r : Nat) : Rat) =
      (if ((roundHalfEven (((r.e - r.s : Int) : Rat) / avg) : Int) : Rat) ≠ 0
        then ((roundHalfEven (((r.e - r.s : Int) : Rat) / avg) : Int) : Rat) else 1) ∧ 1 ≤ binCount avg r := by
  have hq : 0 ≤ ((r.e - r.s : Int) : Rat) / avg :=
    div_nonneg (by exact_mod_cast (by omega : 0 ≤ r.e - r.s)) (le_of_lt havg)
  have hnn := roundHalfEven_nonneg _ hq
  unfold binCount
  simp only
  generalize roundHalfEven (((r.e - r.s : Int) : Rat) / avg) = z at hnn ⊢
  by_cases hz : z = 0
  · subst hz; simp
  · have hb : (z == 0) = false := by simpa using hz
    have hz' : ((z : Int) : Rat) ≠ 0 := by exact_mod_cast hz
    simp only [hb, Bool.false_eq_true, if_false, hz', ne_eq, not_false_eq_true, if_true]
    refine ⟨?_, by omega⟩
    have : ((z.toNat : Nat) : Int) = z := Int.toNat_of_nonneg hnn
    rw [← Int.cast_natCast, this]

/-- `nbins = int(round(span / avg_size)) or 1` is the model's bin count -/
theorem src_split_nbins_eq (avg : Rat) (havg : 0 < avg) (r : Row) (hlen : r.s ≤ r.e) :
    src_split_nbins (r.s : Rat) (r.e : Rat) avg = ((binCount avg r : Nat) : Rat) := by
  rw [(binCount_cast avg havg r hlen).1]
  unfold src_split_nbins
  simp only [pyRound_eq, pyTrunc_intCast, Int.cast_sub]

/-- the translator's spelling of `int(e)` on a non-negative quotient of integers, however the quotient is spelled -/
theorem pyTrunc_of_eq (x : Rat) (z : Int) (n : Nat) (hz : 0 ≤ z) (h : x = (z : Rat) / (n : Rat)) :
    (if x < 0 then ((x.ceil : Int) : Rat) else ((x.floor : Int) : Rat)) = ((z / (n : Int) : Int) : Rat) := by
  have hnn : (0 : Rat) ≤ x := by
    rw [h]; exact div_nonneg (by exact_mod_cast hz) (by exact_mod_cast (Nat.zero_le n))
  rw [if_neg (not_lt.mpr hnn), h]
  have hfl : ((z : Rat) / (n : Rat)).floor = z / (n : Int) := Rat.floor_intCast_div_natCast z n
  rw [hfl]

/-- `bin_end = row.start + int(i * bin_size)` is the model's cut `start + ⌊i·span/n⌋` -/
theorem src_split_bin_end_eq (avg : Rat) (havg : 0 < avg) (r : Row) (hlen : r.s ≤ r.e) (i : Nat) :
    src_split_bin_end (r.s : Rat) (r.e : Rat) avg (i : Rat) =
      ((r.s + ((i : Int) * (r.e - r.s)) / ((binCount avg r : Nat) : Int) : Int) : Rat) := by
  obtain ⟨hcast, hpos⟩ := binCount_cast avg havg r hlen
  have hn0 : ((binCount avg r : Nat) : Rat) ≠ 0 := by
    have : (0 : Rat) < ((binCount avg r : Nat) : Rat) := by exact_mod_cast hpos
    exact ne_of_gt this
  have hz : (0 : Int) ≤ (i : Int) * (r.e - r.s) := Int.mul_nonneg (by omega) (by omega)
  unfold src_split_bin_end
  simp only [pyRound_eq, pyTrunc_intCast]
  rw [← Int.cast_sub, ← hcast, Int.cast_add]
  -- robust against equivalent spellings of the sum and of the argument of `int( )`
  first
  | (congr 1
     apply pyTrunc_of_eq _ _ _ hz
     push_cast
     first | ring | (field_simp))
  | (rw [add_comm]
     congr 1
     apply pyTrunc_of_eq _ _ _ hz
     push_cast
     first | ring | (field_simp))

end CnvVerif.Src
