/-
  Helper lemmas for C08 (table formats): decimal integers survive print/parse, the sort is a
  stable total preorder sort, per-format write-then-read identities.
-/
import CnvVerif.Model.Formats
import Std.Data.String.ToInt
namespace CnvVerif.Fmt
open CnvVerif CnvVerif.Generated

/-! ## characters and decimal integers -/

theorem digit_not_space {c : Char} (h : c.isDigit = true) : isSpaceCh c = false := by
  cases hs : isSpaceCh c with
  | false => rfl
  | true =>
    simp only [isSpaceCh, Bool.or_eq_true, beq_iff_eq] at hs
    rcases hs with ((((rfl | rfl) | rfl) | rfl) | rfl) | rfl <;> exact absurd h (by decide)

theorem digit_ne_minus {c : Char} (h : c.isDigit = true) : c ≠ '-' := by
  rintro rfl; exact absurd h (by decide)

theorem isIntLit_of_digits (l : List Char) (hne : l ≠ []) (h : ∀ c ∈ l, c.isDigit = true) :
    isIntLit l = true := by
  cases l with
  | nil => exact absurd rfl hne
  | cons c t =>
    have hc : c ≠ '-' := digit_ne_minus (h c (by simp))
    unfold isIntLit
    split
    · rename_i ds heq
      exact absurd (List.cons.inj heq).1 hc
    · simp only [List.isEmpty_cons, Bool.not_false, Bool.true_and, List.all_eq_true]
      exact h

theorem isIntLit_minus_digits (l : List Char) (hne : l ≠ []) (h : ∀ c ∈ l, c.isDigit = true) :
    isIntLit ('-' :: l) = true := by
  unfold isIntLit
  simp only [List.all_eq_true, Bool.and_eq_true, Bool.not_eq_true', List.isEmpty_eq_false_iff]
  exact ⟨hne, h⟩

theorem toDigits_digits (n : Nat) : ∀ c ∈ Nat.toDigits 10 n, c.isDigit = true :=
  fun _ hc => Nat.isDigit_of_mem_toDigits (by omega) (by omega) hc

theorem toString_toList_nonneg (i : Int) (h : 0 ≤ i) :
    (toString i).toList = Nat.toDigits 10 i.toNat := by
  rw [Int.toString_eq_repr, Int.repr_eq_if]
  simp [h, Nat.toList_repr]

theorem toString_toList_neg (i : Int) (h : i < 0) :
    (toString i).toList = '-' :: Nat.toDigits 10 (-i).toNat := by
  rw [Int.toString_eq_repr, Int.repr_eq_if]
  have : ¬ 0 ≤ i := by omega
  simp [this, Nat.toList_repr, String.toList_append]

theorem isIntLit_toString (i : Int) : isIntLit (toString i).toList = true := by
  by_cases h : 0 ≤ i
  · rw [toString_toList_nonneg i h]
    exact isIntLit_of_digits _ Nat.toDigits_ne_nil (toDigits_digits _)
  · rw [toString_toList_neg i (by omega)]
    exact isIntLit_minus_digits _ Nat.toDigits_ne_nil (toDigits_digits _)

/-- decimal printing then parsing of an integer is the identity (core: `Int.toInt?_repr`) -/
theorem parseInt_toString (i : Int) : parseInt (toString i) = some i := by
  unfold parseInt
  rw [isIntLit_toString]
  simp [Int.toString_eq_repr, Int.toInt?_repr]

theorem toString_noSpace (i : Int) : ∀ c ∈ (toString i).toList, isSpaceCh c = false := by
  intro c hc
  by_cases h : 0 ≤ i
  · rw [toString_toList_nonneg i h] at hc
    exact digit_not_space (toDigits_digits _ c hc)
  · rw [toString_toList_neg i (by omega)] at hc
    rcases List.mem_cons.mp hc with rfl | hc
    · decide
    · exact digit_not_space (toDigits_digits _ c hc)

theorem toString_digits (i : Int) (h : 0 ≤ i) :
    (toString i).toList ≠ [] ∧ ∀ c ∈ (toString i).toList, c.isDigit = true := by
  rw [toString_toList_nonneg i h]
  exact ⟨Nat.toDigits_ne_nil, toDigits_digits _⟩

theorem dropWhile_eq_self_of_head {α} (p : α → Bool) (l : List α)
    (h : ∀ a t, l = a :: t → p a = false) : l.dropWhile p = l := by
  cases l with
  | nil => rfl
  | cons a t => simp [List.dropWhile, h a t rfl]

theorem rstripL_of_noSpace (l : List Char) (h : ∀ c ∈ l, isSpaceCh c = false) : rstripL l = l := by
  unfold rstripL
  rw [dropWhile_eq_self_of_head]
  · simp
  · intro a t ht
    apply h
    have : a ∈ l.reverse := by rw [ht]; simp
    simpa using this

theorem rstrip_of_noSpace (s : String) (h : ∀ c ∈ s.toList, isSpaceCh c = false) : rstrip s = s := by
  unfold rstrip
  rw [rstripL_of_noSpace _ h, String.ofList_toList]

theorem parseInt_rstrip_toString (i : Int) : parseInt (rstrip (toString i)) = some i := by
  rw [rstrip_of_noSpace _ (toString_noSpace i), parseInt_toString]

/-! ## `mapM` in `Except` -/

theorem mapM_ok {α β} (f : α → Except String β) (g : α → β) (l : List α)
    (h : ∀ x ∈ l, f x = .ok (g x)) : l.mapM f = .ok (l.map g) := by
  induction l with
  | nil => rfl
  | cons a t ih =>
    rw [List.mapM_cons, h a (by simp), ih (fun x hx => h x (by simp [hx]))]
    rfl

/-! ## the sort -/

def rowLe (a b : FRow) : Bool := sortLe a.toRow b.toRow

theorem sortF_eq (t : List FRow) : sortF t = t.mergeSort rowLe := rfl

theorem chromKeyLt_irrefl_eq {a b : Nat × String} (h : (a == b) = true) : chromKeyLt a b = false := by
  have hab : a = b := by simpa using h
  subst hab
  simp [chromKeyLt]

theorem chromKey_trichotomy (a b : Nat × String) :
    chromKeyLt a b = true ∨ (a == b) = true ∨ chromKeyLt b a = true := by
  obtain ⟨a1, a2⟩ := a
  obtain ⟨b1, b2⟩ := b
  simp only [chromKeyLt, Bool.or_eq_true, decide_eq_true_eq, Bool.and_eq_true, beq_iff_eq, Prod.mk.injEq]
  rcases Nat.lt_trichotomy a1 b1 with h | h | h
  · left; left; exact h
  · subst h
    rcases String.lt_trichotomy a2 b2 with h2 | h2 | h2
    · left; right; exact ⟨rfl, h2⟩
    · right; left; exact ⟨rfl, h2⟩
    · right; right; right; exact ⟨rfl, h2⟩
  · right; right; left; exact h

theorem chromKeyLt_trans {a b c : Nat × String} (h1 : chromKeyLt a b = true) (h2 : chromKeyLt b c = true) :
    chromKeyLt a c = true := by
  obtain ⟨a1, a2⟩ := a
  obtain ⟨b1, b2⟩ := b
  obtain ⟨c1, c2⟩ := c
  simp only [chromKeyLt, Bool.or_eq_true, decide_eq_true_eq, Bool.and_eq_true, beq_iff_eq] at *
  rcases h1 with h1 | ⟨h1, h1'⟩ <;> rcases h2 with h2 | ⟨h2, h2'⟩
  · left; omega
  · left; omega
  · left; omega
  · right; exact ⟨by omega, String.lt_trans h1' h2'⟩

theorem chromKeyLt_asymm {a b : Nat × String} (h1 : chromKeyLt a b = true) : chromKeyLt b a = false := by
  cases h : chromKeyLt b a with
  | false => rfl
  | true =>
    have := chromKeyLt_trans h1 h
    obtain ⟨a1, a2⟩ := a
    simp [chromKeyLt, String.lt_irrefl] at this

/-- the sort order is total -/
theorem rowLe_total (a b : FRow) : (rowLe a b || rowLe b a) = true := by
  simp only [rowLe, sortLe, FRow.toRow]
  rcases chromKey_trichotomy (sorterChrom a.chrom) (sorterChrom b.chrom) with h | h | h
  · simp [h]
  · have hab : sorterChrom a.chrom = sorterChrom b.chrom := by simpa using h
    simp only [hab, beq_self_eq_true, Bool.true_and, Bool.or_eq_true, decide_eq_true_eq, Bool.and_eq_true, beq_iff_eq]
    by_cases h1 : a.s < b.s
    · left; right; left; exact h1
    · by_cases h2 : b.s < a.s
      · right; right; left; exact h2
      · have : a.s = b.s := by omega
        by_cases h3 : a.e ≤ b.e
        · left; right; right; exact ⟨this, h3⟩
        · right; right; right; exact ⟨this.symm, by omega⟩
  · simp [h]

/-- the sort order is transitive -/
theorem rowLe_trans (a b c : FRow) (h1 : rowLe a b = true) (h2 : rowLe b c = true) : rowLe a c = true := by
  simp only [rowLe, sortLe, FRow.toRow, Bool.or_eq_true, Bool.and_eq_true, beq_iff_eq, decide_eq_true_eq] at *
  rcases h1 with h1 | ⟨k1, h1⟩ <;> rcases h2 with h2 | ⟨k2, h2⟩
  · left; exact chromKeyLt_trans h1 h2
  · left; rw [← k2]; exact h1
  · left; rw [k1]; exact h2
  · right
    refine ⟨k1.trans k2, ?_⟩
    rcases h1 with h1 | ⟨h1, h1'⟩ <;> rcases h2 with h2 | ⟨h2, h2'⟩
    · left; omega
    · left; omega
    · left; omega
    · right; exact ⟨by omega, by omega⟩

abbrev SortedRows (t : List FRow) : Prop := t.Pairwise (fun a b => rowLe a b = true)

theorem sortF_sorted (t : List FRow) : SortedRows (sortF t) :=
  List.pairwise_mergeSort rowLe_trans rowLe_total t

theorem sortF_perm (t : List FRow) : (sortF t).Perm t := List.mergeSort_perm t _

theorem sortF_of_sorted (t : List FRow) (h : SortedRows t) : sortF t = t := List.mergeSort_of_pairwise h

theorem sortF_idem (t : List FRow) : sortF (sortF t) = sortF t := sortF_of_sorted _ (sortF_sorted t)

/-- sorting is stable: rows that are already in order among themselves keep their file order -/
theorem sortF_stable (t c : List FRow) (hc : SortedRows c) (hsub : c.Sublist t) : c.Sublist (sortF t) :=
  List.sublist_mergeSort rowLe_trans rowLe_total hc hsub

/-- in a sorted table, two rows with the same chromosome NAME are in (start, end) order -/
theorem sorted_same_chrom (t : List FRow) (h : SortedRows t) :
    t.Pairwise (fun a b => a.chrom = b.chrom → a.s < b.s ∨ (a.s = b.s ∧ a.e ≤ b.e)) := by
  refine h.imp ?_
  intro a b hab hc
  simp only [rowLe, sortLe, FRow.toRow, hc, Bool.or_eq_true, Bool.and_eq_true, beq_iff_eq,
    decide_eq_true_eq] at hab
  rcases hab with hab | ⟨_, hab⟩
  · have := chromKeyLt_irrefl_eq (a := sorterChrom b.chrom) (b := sorterChrom b.chrom) (by simp)
    rw [this] at hab; exact absurd hab (by simp)
  · exact hab

/-- in a sorted table the chromosome keys never decrease -/
theorem sorted_keys_monotone (t : List FRow) (h : SortedRows t) :
    t.Pairwise (fun a b => chromKeyLt (sorterChrom b.chrom) (sorterChrom a.chrom) = false) := by
  refine h.imp ?_
  intro a b hab
  simp only [rowLe, sortLe, FRow.toRow, Bool.or_eq_true, Bool.and_eq_true, beq_iff_eq] at hab
  rcases hab with hab | ⟨hk, _⟩
  · exact chromKeyLt_asymm hab
  · exact chromKeyLt_irrefl_eq (by simp [hk])

/-! ## what `tabio.read` adds after the reader (GenomicArray) -/

theorem finish_ga_nocols (rows : List FRow) (h : ∀ r ∈ rows, r.cols = []) :
    finish false { names := [], rows := rows } = .ok { names := [], rows := sortF rows } := by
  have hmap : rows.map (fun r => ({ r with cols := [] } : FRow)) = rows := by
    conv => rhs; rw [← List.map_id rows]
    apply List.map_congr_left
    intro r hr
    have := h r hr
    cases r; simp_all
  simp [finish, sortColumns, hmap, bind, Except.bind, pure, Except.pure]

end CnvVerif.Fmt
