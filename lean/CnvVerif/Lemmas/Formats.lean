/-
  Helper lemmas for C08 (table formats): decimal integers survive print/parse, the sort is a
  stable total preorder sort, per-format write-then-read identities.
-/
import CnvVerif.Model.Formats
import Std.Data.String.ToInt
namespace CnvVerif.Fmt
open CnvVerif CnvVerif.Generated

/-! ## characters and decimal integers -/

theorem digit_not_space {c : Char} (h : c.isDigit = true) : isSpaceCh c = false := by
  cases hs : isSpaceCh c with
  | false => rfl
  | true =>
    simp only [isSpaceCh, Bool.or_eq_true, beq_iff_eq] at hs
    rcases hs with ((((rfl | rfl) | rfl) | rfl) | rfl) | rfl <;> exact absurd h (by decide)

theorem digit_ne_minus {c : Char} (h : c.isDigit = true) : c ≠ '-' := by
  rintro rfl; exact absurd h (by decide)

theorem isIntLit_of_digits (l : List Char) (hne : l ≠ []) (h : ∀ c ∈ l, c.isDigit = true) :
    isIntLit l = true := by
  cases l with
  | nil => exact absurd rfl hne
  | cons c t =>
    have hc : c ≠ '-' := digit_ne_minus (h c (by simp))
    unfold isIntLit
    split
    · rename_i ds heq
      exact absurd (List.cons.inj heq).1 hc
    · simp only [List.isEmpty_cons, Bool.not_false, Bool.true_and, List.all_eq_true]
      exact h

theorem isIntLit_minus_digits (l : List Char) (hne : l ≠ []) (h : ∀ c ∈ l, c.isDigit = true) :
    isIntLit ('-' :: l) = true := by
  unfold isIntLit
  simp only [List.all_eq_true, Bool.and_eq_true, Bool.not_eq_true', List.isEmpty_eq_false_iff]
  exact ⟨hne, h⟩

theorem toDigits_digits (n : Nat) : ∀ c ∈ Nat.toDigits 10 n, c.isDigit = true :=
  fun _ hc => Nat.isDigit_of_mem_toDigits (by omega) (by omega) hc

theorem toString_toList_nonneg (i : Int) (h : 0 ≤ i) :
    (toString i).toList = Nat.toDigits 10 i.toNat := by
  rw [Int.toString_eq_repr, Int.repr_eq_if]
  simp [h, Nat.toList_repr]

theorem toString_toList_neg (i : Int) (h : i < 0) :
    (toString i).toList = '-' :: Nat.toDigits 10 (-i).toNat := by
  rw [Int.toString_eq_repr, Int.repr_eq_if]
  have : ¬ 0 ≤ i := by omega
  simp [this, Nat.toList_repr, String.toList_append]

theorem isIntLit_toString (i : Int) : isIntLit (toString i).toList = true := by
  by_cases h : 0 ≤ i
  · rw [toString_toList_nonneg i h]
    exact isIntLit_of_digits _ Nat.toDigits_ne_nil (toDigits_digits _)
  · rw [toString_toList_neg i (by omega)]
    exact isIntLit_minus_digits _ Nat.toDigits_ne_nil (toDigits_digits _)

/-- decimal printing then parsing of an integer is the identity (core: `Int.toInt?_repr`) -/
theorem parseInt_toString (i : Int) : parseInt (toString i) = some i := by
  unfold parseInt
  rw [isIntLit_toString]
  simp [Int.toString_eq_repr, Int.toInt?_repr]

theorem toString_noSpace (i : Int) : ∀ c ∈ (toString i).toList, isSpaceCh c = false := by
  intro c hc
  by_cases h : 0 ≤ i
  · rw [toString_toList_nonneg i h] at hc
    exact digit_not_space (toDigits_digits _ c hc)
  · rw [toString_toList_neg i (by omega)] at hc
    rcases List.mem_cons.mp hc with rfl | hc
    · decide
    · exact digit_not_space (toDigits_digits _ c hc)

theorem toString_digits (i : Int) (h : 0 ≤ i) :
    (toString i).toList ≠ [] ∧ ∀ c ∈ (toString i).toList, c.isDigit = true := by
  rw [toString_toList_nonneg i h]
  exact ⟨Nat.toDigits_ne_nil, toDigits_digits _⟩

theorem dropWhile_eq_self_of_head {α} (p : α → Bool) (l : List α)
    (h : ∀ a t, l = a :: t → p a = false) : l.dropWhile p = l := by
  cases l with
  | nil => rfl
  | cons a t => simp [List.dropWhile, h a t rfl]

theorem rstripL_of_noSpace (l : List Char) (h : ∀ c ∈ l, isSpaceCh c = false) : rstripL l = l := by
  unfold rstripL
  rw [dropWhile_eq_self_of_head]
  · simp
  · intro a t ht
    apply h
    have : a ∈ l.reverse := by rw [ht]; simp
    simpa using this

theorem rstrip_of_noSpace (s : String) (h : ∀ c ∈ s.toList, isSpaceCh c = false) : rstrip s = s := by
  unfold rstrip
  rw [rstripL_of_noSpace _ h, String.ofList_toList]

theorem parseInt_rstrip_toString (i : Int) : parseInt (rstrip (toString i)) = some i := by
  rw [rstrip_of_noSpace _ (toString_noSpace i), parseInt_toString]

/-! ## `mapM` in `Except` -/

theorem mapM_ok {α β} (f : α → Except String β) (g : α → β) (l : List α)
    (h : ∀ x ∈ l, f x = .ok (g x)) : l.mapM f = .ok (l.map g) := by
  induction l with
  | nil => rfl
  | cons a t ih =>
    rw [List.mapM_cons, h a (by simp), ih (fun x hx => h x (by simp [hx]))]
    rfl

/-! ## the sort -/

def rowLe (a b : FRow) : Bool := sortLe a.toRow b.toRow

theorem sortF_eq (t : List FRow) : sortF t = t.mergeSort rowLe := rfl

theorem string_trichotomy (a b : String) : a < b ∨ a = b ∨ b < a := by
  by_cases h1 : a < b
  · exact Or.inl h1
  · by_cases h2 : b < a
    · exact Or.inr (Or.inr h2)
    · exact Or.inr (Or.inl (String.le_antisymm (String.not_lt.mp h2) (String.not_lt.mp h1)))

theorem chromKeyLt_iff (a b : Nat × String) :
    chromKeyLt a b = true ↔ a.1 < b.1 ∨ (a.1 = b.1 ∧ a.2 < b.2) := by
  simp [chromKeyLt]

theorem chromKey_trichotomy (a b : Nat × String) :
    chromKeyLt a b = true ∨ a = b ∨ chromKeyLt b a = true := by
  obtain ⟨a1, a2⟩ := a
  obtain ⟨b1, b2⟩ := b
  simp only [chromKeyLt_iff, Prod.mk.injEq]
  rcases Nat.lt_trichotomy a1 b1 with h | h | h
  · left; left; exact h
  · subst h
    rcases string_trichotomy a2 b2 with h2 | h2 | h2
    · left; right; exact ⟨rfl, h2⟩
    · right; left; exact ⟨rfl, h2⟩
    · right; right; right; exact ⟨rfl, h2⟩
  · right; right; left; exact h

theorem chromKeyLt_trans {a b c : Nat × String} (h1 : chromKeyLt a b = true) (h2 : chromKeyLt b c = true) :
    chromKeyLt a c = true := by
  rw [chromKeyLt_iff] at *
  rcases h1 with h1 | ⟨h1, h1'⟩ <;> rcases h2 with h2 | ⟨h2, h2'⟩
  · left; omega
  · left; omega
  · left; omega
  · right; exact ⟨by omega, String.lt_trans h1' h2'⟩

theorem chromKeyLt_irrefl (a : Nat × String) : chromKeyLt a a = false := by
  cases h : chromKeyLt a a with
  | false => rfl
  | true =>
    rw [chromKeyLt_iff] at h
    rcases h with h | ⟨_, h⟩
    · omega
    · exact absurd h (String.lt_irrefl _)

theorem chromKeyLt_asymm {a b : Nat × String} (h1 : chromKeyLt a b = true) : chromKeyLt b a = false := by
  cases h : chromKeyLt b a with
  | false => rfl
  | true =>
    have := chromKeyLt_trans h1 h
    rw [chromKeyLt_irrefl] at this
    exact absurd this (by simp)

theorem rowLe_iff (a b : FRow) :
    rowLe a b = true ↔ chromKeyLt (sorterChrom a.chrom) (sorterChrom b.chrom) = true ∨
      (sorterChrom a.chrom = sorterChrom b.chrom ∧ (a.s < b.s ∨ (a.s = b.s ∧ a.e ≤ b.e))) := by
  simp only [rowLe, sortLe, FRow.toRow, Bool.or_eq_true, Bool.and_eq_true, beq_iff_eq]
  grind

/-- the sort order is total -/
theorem rowLe_total (a b : FRow) : (rowLe a b || rowLe b a) = true := by
  rw [Bool.or_eq_true, rowLe_iff, rowLe_iff]
  rcases chromKey_trichotomy (sorterChrom a.chrom) (sorterChrom b.chrom) with h | h | h
  · left; left; exact h
  · by_cases h1 : a.s < b.s
    · left; right; exact ⟨h, Or.inl h1⟩
    · by_cases h2 : b.s < a.s
      · right; right; exact ⟨h.symm, Or.inl h2⟩
      · have hs : a.s = b.s := by omega
        by_cases h3 : a.e ≤ b.e
        · left; right; exact ⟨h, Or.inr ⟨hs, h3⟩⟩
        · right; right; exact ⟨h.symm, Or.inr ⟨hs.symm, by omega⟩⟩
  · right; left; exact h

/-- the sort order is transitive -/
theorem rowLe_trans (a b c : FRow) (h1 : rowLe a b = true) (h2 : rowLe b c = true) : rowLe a c = true := by
  rw [rowLe_iff] at *
  rcases h1 with h1 | ⟨k1, h1⟩ <;> rcases h2 with h2 | ⟨k2, h2⟩
  · left; exact chromKeyLt_trans h1 h2
  · left; rw [← k2]; exact h1
  · left; rw [k1]; exact h2
  · right
    refine ⟨k1.trans k2, ?_⟩
    rcases h1 with h1 | ⟨h1, h1'⟩ <;> rcases h2 with h2 | ⟨h2, h2'⟩
    · left; omega
    · left; omega
    · left; omega
    · right; exact ⟨by omega, by omega⟩

abbrev SortedRows (t : List FRow) : Prop := t.Pairwise (fun a b => rowLe a b = true)

theorem sortF_sorted (t : List FRow) : SortedRows (sortF t) :=
  List.pairwise_mergeSort rowLe_trans rowLe_total t

theorem sortF_perm (t : List FRow) : (sortF t).Perm t := List.mergeSort_perm t _

theorem sortF_of_sorted (t : List FRow) (h : SortedRows t) : sortF t = t := List.mergeSort_of_pairwise h

theorem sortF_idem (t : List FRow) : sortF (sortF t) = sortF t := sortF_of_sorted _ (sortF_sorted t)

/-- sorting is stable: rows that are already in order among themselves keep their file order -/
theorem sortF_stable (t c : List FRow) (hc : SortedRows c) (hsub : c.Sublist t) : c.Sublist (sortF t) :=
  List.sublist_mergeSort rowLe_trans rowLe_total hc hsub

/-- in a sorted table, two rows with the same chromosome NAME are in (start, end) order -/
theorem sorted_same_chrom (t : List FRow) (h : SortedRows t) :
    t.Pairwise (fun a b => a.chrom = b.chrom → a.s < b.s ∨ (a.s = b.s ∧ a.e ≤ b.e)) := by
  refine h.imp ?_
  intro a b hab hc
  rw [rowLe_iff, hc, chromKeyLt_irrefl] at hab
  rcases hab with hab | ⟨_, hab⟩
  · exact absurd hab (by simp)
  · exact hab

/-- in a sorted table the chromosome keys never decrease -/
theorem sorted_keys_monotone (t : List FRow) (h : SortedRows t) :
    t.Pairwise (fun a b => chromKeyLt (sorterChrom b.chrom) (sorterChrom a.chrom) = false) := by
  refine h.imp ?_
  intro a b hab
  rw [rowLe_iff] at hab
  rcases hab with hab | ⟨hk, _⟩
  · exact chromKeyLt_asymm hab
  · rw [hk]; exact chromKeyLt_irrefl _

/-! ## what `tabio.read` adds after the reader (GenomicArray) -/

theorem finish_ga_nocols (rows : List FRow) (h : ∀ r ∈ rows, r.cols = []) :
    finish false { names := [], rows := rows } = .ok { names := [], rows := sortF rows } := by
  have hmap : rows.map (fun r => ({ r with cols := [] } : FRow)) = rows := by
    conv => rhs; rw [← List.map_id rows]
    apply List.map_congr_left
    intro r hr
    have := h r hr
    cases r; simp_all
  simp [finish, sortColumns, sortNames, hmap, bind, Except.bind, pure, Except.pure]

theorem mapM_map_ok {α β γ} (m : α → β) (f : β → Except String γ) (g : α → γ) (l : List α)
    (h : ∀ x ∈ l, f (m x) = .ok (g x)) : (l.map m).mapM f = .ok (l.map g) := by
  induction l with
  | nil => rfl
  | cons a t ih =>
    rw [List.map_cons, List.mapM_cons, h a (by simp), ih (fun x hx => h x (by simp [hx]))]
    rfl

theorem takeWhile_eq_self_of_all {α} (p : α → Bool) (l : List α) (h : ∀ a ∈ l, p a = true) :
    l.takeWhile p = l := by
  induction l with
  | nil => rfl
  | cons a t ih =>
    simp [List.takeWhile, h a (by simp), ih (fun x hx => h x (by simp [hx]))]

theorem dropWhile_eq_nil_of_all {α} (p : α → Bool) (l : List α) (h : ∀ a ∈ l, p a = true) :
    l.dropWhile p = [] := by
  induction l with
  | nil => rfl
  | cons a t ih =>
    simp [List.dropWhile, h a (by simp), ih (fun x hx => h x (by simp [hx]))]

theorem takeWhile_append_stop {α} (p : α → Bool) (a : List α) (y : α) (b : List α)
    (ha : ∀ x ∈ a, p x = true) (hy : p y = false) : (a ++ y :: b).takeWhile p = a := by
  induction a with
  | nil => simp [hy]
  | cons x t ih =>
    simp [ha x (by simp), ih (fun z hz => ha z (by simp [hz]))]

theorem dropWhile_append_stop {α} (p : α → Bool) (a : List α) (y : α) (b : List α)
    (ha : ∀ x ∈ a, p x = true) (hy : p y = false) : (a ++ y :: b).dropWhile p = y :: b := by
  induction a with
  | nil => simp [hy]
  | cons x t ih =>
    simp [ha x (by simp), ih (fun z hz => ha z (by simp [hz]))]

/-! ## BED -/

/-- a chromosome name the BED reader does not mistake for a `track` / `browser` line -/
def NoTrackName (c : String) : Prop := sw "track" c = false ∧ sw "browser " c = false

theorem track2track_id (lines : List Line)
    (h : ∀ l ∈ lines, NoTrackName (l.headD "")) : track2track lines = lines := by
  cases lines with
  | nil => rfl
  | cons l rest =>
    have hl := h l (by simp)
    have hrest : rest.takeWhile (fun l => !sw "track" (l.headD "")) = rest :=
      takeWhile_eq_self_of_all _ _ (fun x hx => by
        have := (h x (by simp [hx])).1
        simp only [this, Bool.not_false])
    have h1 := hl.1
    have h2 := hl.2
    simp only [track2track]
    simp only [List.headD_eq_head?_getD] at h1 h2 hrest ⊢
    simp [h1, h2, hrest]

def coordsOnly (r : FRow) : FRow := { r with cols := [] }

theorem renderLines_writeBed3 (t : FTab) :
    renderLines (writeBed3 t) =
      t.rows.map (fun r => [r.chrom, toString (r.s + WRITE_SHIFT_bed3), toString r.e]) := by
  simp [renderLines, writeBed3, renderCellD, renderCell, List.map_map, Function.comp_def]

theorem parseBedLine_three (c : String) (s e : Int) :
    parseBedLine [c, toString s, toString e] = .ok ⟨c, s + READ_SHIFT_bed, e, [.str "-", .str "."]⟩ := by
  simp only [parseBedLine, parseInt_rstrip_toString]

theorem parseBedLine_four (c : String) (s e : Int) (g : String) :
    parseBedLine [c, toString s, toString e, g] =
      .ok ⟨c, s + READ_SHIFT_bed, e, [.str (rstrip g), .str "."]⟩ := by
  simp only [parseBedLine, parseInt_rstrip_toString]

/-- BED3: what `write_bed3` prints, `read_bed3` + sort reads back as the same regions -/
theorem bed3_roundtrip (t : FTab) (hn : ∀ r ∈ t.rows, NoTrackName r.chrom) (sel : SampleSel) :
    readFmt "bed3" false sel (renderLines (writeBed3 t)) =
      .ok { names := [], rows := sortF (t.rows.map coordsOnly) } := by
  have hshift : ∀ s : Int, s + WRITE_SHIFT_bed3 + READ_SHIFT_bed = s := by
    intro s; simp only [WRITE_SHIFT_bed3, READ_SHIFT_bed]; omega
  have htt : track2track (renderLines (writeBed3 t)) = renderLines (writeBed3 t) := by
    apply track2track_id
    rw [renderLines_writeBed3]
    intro l hl
    obtain ⟨r, hr, rfl⟩ := List.mem_map.mp hl
    exact hn r hr
  have hparse : (renderLines (writeBed3 t)).mapM parseBedLine =
      .ok (t.rows.map (fun r => (⟨r.chrom, r.s, r.e, [.str "-", .str "."]⟩ : FRow))) := by
    rw [renderLines_writeBed3]
    apply mapM_map_ok
    intro r _
    rw [parseBedLine_three, hshift]
  have hfin := finish_ga_nocols (t.rows.map coordsOnly) (by
    intro r hr; obtain ⟨x, _, rfl⟩ := List.mem_map.mp hr; rfl)
  simp only [readFmt, readBed, htt, hparse, bind, Except.bind, pure, Except.pure]
  simp only [List.map_map, Function.comp_def, List.take_zero, Nat.sub_self]
  exact hfin

/-- the gene label of a row as `write_bed4` / `write_interval` print it (`-` when there is no gene column) -/
def geneStr (t : FTab) (r : FRow) : String :=
  match (colCell t "gene" r).getD (.str "-") with
  | .str g => g
  | _ => ""

/-- gene labels are strings without trailing white space -/
def WFGene (t : FTab) : Prop :=
  ∀ r ∈ t.rows, ∃ g, (colCell t "gene" r).getD (.str "-") = .str g ∧ rstrip g = g

theorem geneStr_of {t : FTab} {r : FRow} {g : String}
    (h : (colCell t "gene" r).getD (.str "-") = .str g) : geneStr t r = g := by
  simp [geneStr, h]

theorem renderLines_writeBed4 (t : FTab) (h : WFGene t) :
    renderLines (writeBed4 t) =
      t.rows.map (fun r => [r.chrom, toString (r.s + WRITE_SHIFT_bed4), toString r.e, geneStr t r]) := by
  simp only [renderLines, writeBed4, List.map_map]
  apply List.map_congr_left
  intro r hr
  obtain ⟨g, hg, _⟩ := h r hr
  simp [renderCellD, renderCell, cellOut, hg, geneStr_of hg]

theorem finish_ga_gene (rows : List FRow) (h : ∀ r ∈ rows, ∃ c, r.cols = [c]) :
    finish false { names := ["gene"], rows := rows } = .ok { names := ["gene"], rows := sortF rows } := by
  have hmap : rows.map (fun r => ({ r with cols := [r.cols.getD 0 .na] } : FRow)) = rows := by
    conv => rhs; rw [← List.map_id rows]
    apply List.map_congr_left
    intro r hr
    obtain ⟨c, hc⟩ := h r hr
    cases r; simp_all
  have hmap' : rows.map (fun r => ({ r with cols := [r.cols[0]?.getD .na] } : FRow)) = rows := by
    rw [← hmap]; simp
  simp [finish, sortColumns, sortNames, insertName, bind, Except.bind, pure, Except.pure]
  rw [hmap']

/-- BED4: coordinates and gene labels survive `write_bed4` then `read_bed4` -/
theorem bed4_roundtrip (t : FTab) (hn : ∀ r ∈ t.rows, NoTrackName r.chrom) (hg : WFGene t)
    (sel : SampleSel) :
    readFmt "bed4" false sel (renderLines (writeBed4 t)) =
      .ok { names := ["gene"],
            rows := sortF (t.rows.map fun r => ⟨r.chrom, r.s, r.e, [.str (geneStr t r)]⟩) } := by
  have hshift : ∀ s : Int, s + WRITE_SHIFT_bed4 + READ_SHIFT_bed = s := by
    intro s; simp only [WRITE_SHIFT_bed4, READ_SHIFT_bed]; omega
  have htt : track2track (renderLines (writeBed4 t)) = renderLines (writeBed4 t) := by
    apply track2track_id
    rw [renderLines_writeBed4 t hg]
    intro l hl
    obtain ⟨r, hr, rfl⟩ := List.mem_map.mp hl
    exact hn r hr
  have hparse : (renderLines (writeBed4 t)).mapM parseBedLine =
      .ok (t.rows.map (fun r => (⟨r.chrom, r.s, r.e, [.str (geneStr t r), .str "."]⟩ : FRow))) := by
    rw [renderLines_writeBed4 t hg]
    apply mapM_map_ok
    intro r hr
    obtain ⟨g, hg1, hg2⟩ := hg r hr
    rw [parseBedLine_four, hshift, geneStr_of hg1, hg2]
  have hfin := finish_ga_gene (t.rows.map fun r => (⟨r.chrom, r.s, r.e, [.str (geneStr t r)]⟩ : FRow)) (by
    intro r hr; obtain ⟨x, _, rfl⟩ := List.mem_map.mp hr; exact ⟨_, rfl⟩)
  simp only [readFmt, readBed, htt, hparse, bind, Except.bind, pure, Except.pure]
  simp only [List.map_map, Function.comp_def]
  exact hfin

/-! ## chr:start-end text -/

/-- chromosome names the label pattern `\w[\w.]*` accepts -/
def LabelName (c : String) : Prop :=
  (∃ c0 rest, c.toList = c0 :: rest ∧ isWordCh c0 = true) ∧
  ∀ x ∈ c.toList, (isWordCh x || x == '.') = true

theorem fromLabel_parts (c ds de : List Char) (c0 : Char) (rest : List Char) (hc : c = c0 :: rest)
    (hw : isWordCh c0 = true) (hall : ∀ x ∈ c, (isWordCh x || x == '.') = true)
    (hds : ∀ x ∈ ds, x.isDigit = true) (hde : ∀ x ∈ de, x.isDigit = true) :
    fromLabel (c ++ ':' :: (ds ++ '-' :: de)) = .ok (c, ds, de, []) := by
  have hcolon : (isWordCh ':' || ':' == '.') = false := by decide
  have hminus : Char.isDigit '-' = false := by decide
  have h1 : (c ++ ':' :: (ds ++ '-' :: de)).takeWhile (fun c => isWordCh c || c == '.') = c :=
    takeWhile_append_stop _ c ':' _ hall hcolon
  have h2 : (c ++ ':' :: (ds ++ '-' :: de)).dropWhile (fun c => isWordCh c || c == '.') = ':' :: (ds ++ '-' :: de) :=
    dropWhile_append_stop _ c ':' _ hall hcolon
  have h3 : (ds ++ '-' :: de).takeWhile Char.isDigit = ds := takeWhile_append_stop _ ds '-' de hds hminus
  have h4 : (ds ++ '-' :: de).dropWhile Char.isDigit = '-' :: de := dropWhile_append_stop _ ds '-' de hds hminus
  have h5 : de.takeWhile Char.isDigit = de := takeWhile_eq_self_of_all _ _ hde
  have h6 : de.dropWhile Char.isDigit = [] := dropWhile_eq_nil_of_all _ _ hde
  unfold fromLabel
  rw [h1, h2]
  subst hc
  simp only [List.cons_append, hw, ↓reduceIte, h3, h4, h5, h6, List.dropWhile_nil, List.takeWhile_nil]

theorem toLabel_toList (c : String) (a b : Int) :
    (toLabel c a b).toList =
      c.toList ++ ':' :: ((toString (a + WRITE_SHIFT_to_label)).toList ++ '-' :: (toString b).toList) := by
  simp only [toLabel, String.toList_append]
  have h1 : ":".toList = [':'] := by decide
  have h2 : "-".toList = ['-'] := by decide
  rw [h1, h2]
  simp

/-- one text line: what `to_label` prints, `from_label` parses back -/
theorem parseTextLine_toLabel (c : String) (a b : Int) (hc : LabelName c)
    (ha : 0 ≤ a + WRITE_SHIFT_to_label) (hb : 0 ≤ b) :
    parseTextLine (toLabel c a b) =
      .ok ⟨c, a + WRITE_SHIFT_to_label + READ_SHIFT_from_label + READ_SHIFT_text_reader, b, [.str "-"]⟩ := by
  obtain ⟨⟨c0, rest, hc0, hw⟩, hall⟩ := hc
  have hfl := fromLabel_parts c.toList (toString (a + WRITE_SHIFT_to_label)).toList (toString b).toList
    c0 rest hc0 hw hall (toString_digits _ ha).2 (toString_digits _ hb).2
  unfold parseTextLine
  rw [toLabel_toList, hfl]
  have hne : c.toList.isEmpty = false := by rw [hc0]; rfl
  simp only [bind, Except.bind, hne, Bool.false_eq_true, ↓reduceIte, String.ofList_toList, parseInt_toString,
    List.isEmpty_nil, pure, Except.pure]

theorem renderLines_writeText (t : FTab) :
    renderLines (writeText t) = t.rows.map (fun r => [toLabel r.chrom (r.s + WRITE_SHIFT_text_writer) r.e]) := by
  simp [renderLines, writeText, renderCellD, renderCell, List.map_map, Function.comp_def]

/-- text: `write_text` then `read_text` returns the same regions -/
theorem text_roundtrip (t : FTab) (hn : ∀ r ∈ t.rows, LabelName r.chrom)
    (hpos : ∀ r ∈ t.rows, 0 ≤ r.s ∧ 0 ≤ r.e) (sel : SampleSel) :
    readFmt "text" false sel (renderLines (writeText t)) =
      .ok { names := ["gene"], rows := sortF (t.rows.map fun r => ⟨r.chrom, r.s, r.e, [.str "-"]⟩) } := by
  have hshift : ∀ s : Int, s + WRITE_SHIFT_text_writer + WRITE_SHIFT_to_label + READ_SHIFT_from_label
      + READ_SHIFT_text_reader = s := by
    intro s; simp only [WRITE_SHIFT_text_writer, WRITE_SHIFT_to_label, READ_SHIFT_from_label, READ_SHIFT_text_reader]; omega
  have hparse : (renderLines (writeText t)).mapM (fun l => parseTextLine (joinTab l)) =
      .ok (t.rows.map (fun r => (⟨r.chrom, r.s, r.e, [.str "-"]⟩ : FRow))) := by
    rw [renderLines_writeText]
    apply mapM_map_ok
    intro r hr
    have hp := hpos r hr
    have hnn : 0 ≤ r.s + WRITE_SHIFT_text_writer + WRITE_SHIFT_to_label := by
      simp only [WRITE_SHIFT_text_writer, WRITE_SHIFT_to_label]; omega
    simp only [joinTab]
    rw [parseTextLine_toLabel _ _ _ (hn r hr) hnn hp.2, hshift]
  have hfin := finish_ga_gene (t.rows.map fun r => (⟨r.chrom, r.s, r.e, [.str "-"]⟩ : FRow)) (by
    intro r hr; obtain ⟨x, _, rfl⟩ := List.mem_map.mp hr; exact ⟨_, rfl⟩)
  simp only [readFmt, readText, hparse, bind, Except.bind, pure, Except.pure]
  exact hfin

end CnvVerif.Fmt
