/-
  Lemmas behind Props/C11W.lean, part 1: the weighted `HaarConv` loop computes the window sums `lowWin` /
  `highWin` (Model/HaarExt.lean), for every signal and every weights.
-/
import CnvVerif.Model.HaarExt
import CnvVerif.Lemmas.Haar
set_option linter.unusedSimpArgs false
set_option linter.unusedVariables false
namespace CnvVerif.Haar

theorem pre_succ (x : Nat → Rat) (i : Nat) : pre x (i + 1) = pre x i + x i := rfl

/-- `lowWeightSum += weight[k-1] - weight[lowEnd]` keeps the low-window sum -/
theorem lowWin_step (x : Nat → Rat) (h k : Nat) (hk : 1 ≤ k) :
    lowWin x h k = lowWin x h (k - 1) + (x (k - 1) - x (loIdx h k)) := by
  obtain ⟨j, rfl⟩ : ∃ j, k = j + 1 := ⟨k - 1, by omega⟩
  simp only [Nat.add_sub_cancel]
  unfold lowWin loIdx
  by_cases c1 : j + 1 ≤ h
  · have c2 : j ≤ h := by omega
    have c3 : ¬ h + 1 ≤ j + 1 := by omega
    have e : h - j = (h - (j + 1)) + 1 := by omega
    rw [if_pos c1, if_pos c2, if_neg c3, e, pre_succ, pre_succ]
    ring
  · by_cases c2 : j ≤ h
    · have e : j = h := by omega
      subst e
      have c3 : j + 1 ≤ j + 1 := le_refl _
      rw [if_neg c1, if_pos c2, if_pos c3]
      have e1 : j + 1 - j = 0 + 1 := by omega
      have e2 : j + 1 - j - 1 = 0 := by omega
      have e3 : j - j = 0 := by omega
      rw [e2, e1, e3, pre_succ, pre_succ]
      simp [pre]
      ring
    · have c3 : h + 1 ≤ j + 1 := by omega
      have e : j + 1 - h = (j - h) + 1 := by omega
      have e2 : j + 1 - h - 1 = j - h := by omega
      rw [if_neg c1, if_neg c2, if_pos c3, e2, e, pre_succ, pre_succ]
      ring

/-- `highWeightSum += weight[highEnd] - weight[k-1]` keeps the high-window sum -/
theorem highWin_step (x : Nat → Rat) (n h k : Nat) (hk : 1 ≤ k) (hkn : k < n) (hh : h ≤ n) (h1 : 1 ≤ h) :
    highWin x n h k = highWin x n h (k - 1) + (x (hiIdx n h k) - x (k - 1)) := by
  obtain ⟨j, rfl⟩ : ∃ j, k = j + 1 := ⟨k - 1, by omega⟩
  simp only [Nat.add_sub_cancel]
  unfold highWin hiIdx
  by_cases c1 : j + 1 + h ≤ n
  · have c2 : j + h ≤ n := by omega
    have c3 : ¬ n ≤ j + 1 + h - 1 := by omega
    have e : j + 1 + h = (j + h) + 1 := by omega
    have e2 : j + 1 + h - 1 = j + h := by omega
    rw [if_pos c1, if_pos c2, if_neg c3, e2, e, pre_succ, pre_succ]
    ring
  · by_cases c2 : j + h ≤ n
    · have en : j + h = n := by omega
      have c3 : n ≤ j + 1 + h - 1 := by omega
      obtain ⟨m, rfl⟩ : ∃ m, n = m + 1 := ⟨n - 1, by omega⟩
      have e1 : 2 * (m + 1) - (j + 1) - h = m := by omega
      have e2 : m + 1 - 1 - (j + 1 + h - 1 - (m + 1)) = m := by omega
      rw [if_neg c1, if_pos c2, if_pos c3, e1, e2, en, pre_succ, pre_succ]
      ring
    · have c3 : n ≤ j + 1 + h - 1 := by omega
      have e1 : 2 * n - j - h = (2 * n - (j + 1) - h) + 1 := by omega
      have e2 : n - 1 - (j + 1 + h - 1 - n) = 2 * n - (j + 1) - h := by omega
      rw [if_neg c1, if_neg c2, if_pos c3, e1, e2, pre_succ, pre_succ]
      ring

/-- the weights / the products `signal * weight` as functions of the index -/
def wOf (w : Array Rat) : Nat → Rat := fun i => nth w i
def swOf (s w : Array Rat) : Nat → Rat := fun i => nth s i * nth w i

/-- value the loop stores at `k`, in terms of the window sums -/
def respW (s w : Array Rat) (n h : Nat) (fac : Rat) (k : Nat) : Rat :=
  fac * (-(lowWin (swOf s w) h k) / lowWin (wOf w) h k + highWin (swOf s w) n h k / highWin (wOf w) n h k)

/-- **loop invariant**: as long as no window's weight sum vanishes, the weighted loop stores
`sqrt(h/2) * (high-window mean - low-window mean)` at every position -/
theorem haarWGo_eq (s w : Array Rat) (n h : Nat) (fac : Rat) (hh : h ≤ n) (h1 : 1 ≤ h) :
    ∀ (fuel k0 : Nat) (acc : WAcc), 1 ≤ k0 → k0 + fuel ≤ n →
      acc.lowN = -(lowWin (swOf s w) h (k0 - 1)) → acc.highN = highWin (swOf s w) n h (k0 - 1) →
      acc.lowW = lowWin (wOf w) h (k0 - 1) → acc.highW = highWin (wOf w) n h (k0 - 1) →
      (∀ k, k0 ≤ k → k < k0 + fuel → lowWin (wOf w) h k ≠ 0 ∧ highWin (wOf w) n h k ≠ 0) →
      haarWGo s w n h fac fuel k0 acc = some ((List.range' k0 fuel).map (respW s w n h fac)) := by
  intro fuel
  induction fuel with
  | zero => intro k0 acc _ _ _ _ _ _ _; simp [haarWGo]
  | succ fu ih =>
    intro k0 acc hk0 hend a1 a2 a3 a4 hnz
    have hkn : k0 < n := by omega
    have e1 : acc.lowN + (nth s (loIdx h k0) * nth w (loIdx h k0) - nth s (k0 - 1) * nth w (k0 - 1))
        = -(lowWin (swOf s w) h k0) := by
      rw [a1, lowWin_step (swOf s w) h k0 hk0]; simp only [swOf]; ring
    have e2 : acc.highN + (nth s (hiIdx n h k0) * nth w (hiIdx n h k0) - nth s (k0 - 1) * nth w (k0 - 1))
        = highWin (swOf s w) n h k0 := by
      rw [a2, highWin_step (swOf s w) n h k0 hk0 hkn hh h1]; simp only [swOf]
    have e3 : acc.lowW + (nth w (k0 - 1) - nth w (loIdx h k0)) = lowWin (wOf w) h k0 := by
      rw [a3, lowWin_step (wOf w) h k0 hk0]; simp only [wOf]
    have e4 : acc.highW + (nth w (hiIdx n h k0) - nth w (k0 - 1)) = highWin (wOf w) n h k0 := by
      rw [a4, highWin_step (wOf w) n h k0 hk0 hkn hh h1]; simp only [wOf]
    obtain ⟨z1, z2⟩ := hnz k0 (le_refl _) (by omega)
    have hrec := ih (k0 + 1)
      ⟨-(lowWin (swOf s w) h k0), highWin (swOf s w) n h k0, lowWin (wOf w) h k0, highWin (wOf w) n h k0⟩
      (by omega) (by omega) (by simp) (by simp) (by simp) (by simp)
      (fun k hk1 hk2 => hnz k (by omega) (by omega))
    simp only [haarWGo, e1, e2, e3, e4]
    rw [if_neg (by simp [z1, z2]), hrec]
    simp [List.range'_succ, respW]

/-! ### the initial sums -/

theorem pre_zero (h : Nat) : pre (fun _ => (0 : Rat)) h = 0 := by
  induction h with
  | zero => rfl
  | succ m ih => rw [pre_succ, ih]; simp

theorem pre_shift (x : Nat → Rat) (h : Nat) : pre x (h + 1) = x 0 + pre (fun i => x (i + 1)) h := by
  induction h with
  | zero => simp [pre]
  | succ m ih => rw [pre_succ, ih, pre_succ]; ring

theorem take_sum_pre : ∀ (l : List Rat) (h : Nat), (l.take h).sum = pre (fun i => l.getD i 0) h := by
  intro l
  induction l with
  | nil => intro h; induction h with
    | zero => rfl
    | succ m ih => rw [pre_succ, ← ih]; simp
  | cons a t ih =>
    intro h
    cases h with
    | zero => rfl
    | succ m =>
      rw [pre_shift, List.take_succ_cons, List.sum_cons, ih m]
      simp

theorem zip_foldl_pre : ∀ (wl sl : List Rat) (h : Nat) (a : Rat),
    ((wl.take h).zip (sl.take h)).foldl (fun acc p => acc + p.1 * p.2) a
      = a + pre (fun i => sl.getD i 0 * wl.getD i 0) h := by
  intro wl
  induction wl with
  | nil =>
    intro sl h a
    simp [pre_zero]
  | cons x xs ih =>
    intro sl h a
    cases h with
    | zero => simp [pre]
    | succ m =>
      cases sl with
      | nil =>
        simp [pre_zero]
      | cons y ys =>
        rw [pre_shift]
        simp only [List.take_succ_cons, List.zip_cons_cons, List.foldl_cons]
        rw [ih ys m]
        simp
        ring

/-- `HaarConv(signal, weight, h)` of a signal of `n >= h >= 1` bins whose window weight sums never vanish -/
theorem haarConvW_eq (fac : Rat) (sig wt : List Rat) (h n : Nat) (hlen : sig.length = n) (h1 : 1 ≤ h) (hh : h ≤ n)
    (hnz : ∀ k, 1 ≤ k → k < n → lowWin (wOf wt.toArray) h k ≠ 0 ∧ highWin (wOf wt.toArray) n h k ≠ 0) :
    haarConvW fac sig wt h
      = some (0 :: (List.range' 1 (n - 1)).map (respW sig.toArray wt.toArray n h fac)) := by
  unfold haarConvW
  rw [hlen, if_neg (by omega)]
  obtain ⟨m, rfl⟩ : ∃ m, n = m + 1 := ⟨n - 1, by omega⟩
  have hw0 : (wt.take h).sum = pre (wOf wt.toArray) h := by
    rw [take_sum_pre]; congr 1; funext i; simp [wOf, nth_toArray]
  have hn0 : ((wt.take h).zip (sig.take h)).foldl (fun acc p => acc + p.1 * p.2) 0
      = pre (swOf sig.toArray wt.toArray) h := by
    rw [zip_foldl_pre, zero_add]; congr 1; funext i; simp [swOf, nth_toArray]
  simp only [hw0, hn0, Nat.add_sub_cancel]
  rw [haarWGo_eq sig.toArray wt.toArray (m + 1) h fac hh h1 m 1 _ (le_refl _) (by omega)
    (by simp [lowWin, pre]) (by simp [highWin, pre, hh]) (by simp [lowWin, pre]) (by simp [highWin, pre, hh])
    (fun k hk1 hk2 => hnz k hk1 (by omega))]

end CnvVerif.Haar
