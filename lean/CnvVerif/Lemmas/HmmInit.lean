/-
  Lemma behind Props/C11Hmm.lean: what a "sticky" transition row means once normalised.
-/
import CnvVerif.Model.HaarExt
import Mathlib.Tactic.Ring
import Mathlib.Tactic.Linarith
namespace CnvVerif.Src
open CnvVerif

/-! ### the initial HMM -/

/-- a sticky matrix row, once normalised by pomegranate: staying has probability at least `k / (k + n - 1)` -/
theorem sticky_stay_probability (k d o : Rat) (n : Nat) (hk : 0 < k) (ho : 0 < o) (hd : k * o ≤ d) (hn : 1 ≤ n) :
    k / (k + ((n : Rat) - 1)) ≤ d / (d + ((n : Rat) - 1) * o) := by
  have hn' : (0 : Rat) ≤ (n : Rat) - 1 := by
    have : (1 : Rat) ≤ (n : Rat) := by exact_mod_cast hn
    linarith
  have hd0 : 0 < d := lt_of_lt_of_le (mul_pos hk ho) hd
  have p1 : 0 < k + ((n : Rat) - 1) := by linarith
  have p2 : 0 < d + ((n : Rat) - 1) * o := by nlinarith [mul_nonneg hn' (le_of_lt ho)]
  rw [div_le_div_iff₀ p1 p2]
  nlinarith [mul_nonneg hn' (sub_nonneg.mpr hd)]

end CnvVerif.Src
