/-
  C17 (round 5), lemmas behind Props/C17SrcBh.lean: the model's recursive running minimum with the Benjamini–Hochberg
  factors (`bhScan` / `bhAccumulate`, Model/Stats.lean) is `np.minimum.accumulate(steps * values)` in the reading of
  Model/NpVecBh.lean, and `p[by_descend]` is the list of sorted values.
-/
import CnvVerif.Generated.ExprsBh
import CnvVerif.Lemmas.StatsBH
namespace CnvVerif.Src.Bh
open CnvVerif CnvVerif.Stats

theorem arangeDown_zero (lo : Nat) : NpBh.arangeDown 0 lo = [] := rfl

theorem arangeDown_succ (k : Nat) :
    NpBh.arangeDown (k + 1) 0 = ((k + 1 : Nat) : Rat) :: NpBh.arangeDown k 0 := by
  simp [NpBh.arangeDown]

theorem arangeDown_length (k : Nat) : (NpBh.arangeDown k 0).length = k := by
  induction k with
  | zero => rfl
  | succ k ih => rw [arangeDown_succ, List.length_cons, ih]

/-- the BH factors `n / (n - i)` over a list of `k` remaining values -/
def steps (n k : Nat) : List Rat := (NpBh.arangeDown k 0).map (fun v => ((n : Nat) : Rat) / v)

theorem bhScan_is_minScan (n : Nat) (cur : Rat) (xs : List Rat) :
    bhScan n cur xs = NpBh.minScan cur (List.zipWith (fun u v => u * v) (steps n xs.length) xs) := by
  induction xs generalizing cur with
  | nil => simp [bhScan, NpBh.minScan]
  | cons x xs ih =>
    simp only [steps, List.length_cons, arangeDown_succ, List.map_cons, List.zipWith_cons_cons, bhScan,
      NpBh.minScan]
    rw [ih]
    rfl

theorem bhAccumulate_is_minAccumulate (n k : Nat) (L : List Rat) (hk : L.length = k) :
    bhAccumulate n L = NpBh.minAccumulate (List.zipWith (fun u v => u * v) (steps n k) L) := by
  subst hk
  cases L with
  | nil => simp [bhAccumulate, NpBh.minAccumulate]
  | cons x xs =>
    simp only [steps, List.length_cons, arangeDown_succ, List.map_cons, List.zipWith_cons_cons, bhAccumulate,
      NpBh.minAccumulate]
    rw [bhScan_is_minScan]
    rfl

theorem zipWith_mul_comm (a b : List Rat) :
    List.zipWith (fun u v => u * v) a b = List.zipWith (fun u v => u * v) b a := by
  induction a generalizing b with
  | nil => simp
  | cons x xs ih =>
    cases b with
    | nil => simp
    | cons y ys => simp only [List.zipWith_cons_cons, ih ys, mul_comm]

/-- the same with the factors written the other way round (`values * steps`) -/
theorem bhAccumulate_is_minAccumulate' (n k : Nat) (L : List Rat) (hk : L.length = k) :
    bhAccumulate n L = NpBh.minAccumulate (List.zipWith (fun u v => u * v) L (steps n k)) := by
  rw [zipWith_mul_comm]
  exact bhAccumulate_is_minAccumulate n k L hk

/-- `(range n).map (p[·])` is `p` -/
theorem take_range (p : List Rat) : (List.range p.length).map (fun i => p.getD i 0) = p := by
  apply List.ext_getElem
  · simp
  · intro i h1 h2
    simp [List.getD_eq_getElem?_getD, List.getElem?_eq_getElem h2]

/-- `p[by_descend]` are the sorted values -/
theorem take_bhDescending (p : List Rat) :
    Np.take p ((bhDescending p).map (·.2)) = (bhDescending p).map (·.1) := by
  unfold Np.take
  rw [List.map_map]
  apply List.map_congr_left
  intro x hx
  have h3 : x ∈ p.zipIdx := (bhDescending_perm p).mem_iff.mp hx
  rw [List.mem_zipIdx_iff_getElem?] at h3
  simp only [Function.comp, List.getD_eq_getElem?_getD, h3, Option.getD_some]

end CnvVerif.Src.Bh
