/-
  Lemmas behind Props/C13.lean: the FASTA scanner of cnvlib/access.py emits exactly the maximal
  non-'N' runs whatever the line splitting; `join_regions`; the scan → subtract → join pipeline on
  one sequence; the contig-name rule.
-/
import CnvVerif.Model.Access
import CnvVerif.Model.IntervalSpec
import CnvVerif.Lemmas.Interval
import CnvVerif.Lemmas.Interval2
namespace CnvVerif

/-! ### character-level scanner (the specification the line-level scanner is compared with) -/

/-- one character at a time: an 'N' closes the open run, anything else opens/continues one -/
def charScan (pos : Nat) (rs : Option Nat) : List Char → List Run × Option Nat
  | [] => ([], rs)
  | c :: cs =>
    if c = 'N' then
      let r := charScan (pos + 1) none cs
      (emitOpen rs pos ++ r.1, r.2)
    else charScan (pos + 1) (some (rs.getD pos)) cs

/-- intermediate blocks between consecutive absolute N positions -/
def gapsAbs : List Nat → List Run
  | a :: b :: t => (if b - a > 1 then [(a + 1, b)] else []) ++ gapsAbs (b :: t)
  | _ => []

theorem nIdxFrom_ge (k : Nat) (line : List Char) : ∀ i ∈ nIdxFrom k line, k ≤ i := by
  induction line generalizing k with
  | nil => simp [nIdxFrom]
  | cons c cs ih =>
    intro i hi
    unfold nIdxFrom at hi
    split at hi
    · rcases List.mem_cons.mp hi with rfl | h
      · exact Nat.le_refl _
      · have := ih (k + 1) i h; omega
    · have := ih (k + 1) i hi; omega

theorem nIdxFrom_nil_iff (k : Nat) (line : List Char) :
    nIdxFrom k line = [] ↔ ∀ c ∈ line, c ≠ 'N' := by
  induction line generalizing k with
  | nil => simp [nIdxFrom]
  | cons c cs ih =>
    unfold nIdxFrom
    by_cases h : c = 'N'
    · simp [h]
    · simp [h, ih (k + 1)]

theorem nIdxFrom_shift (k : Nat) (line : List Char) :
    nIdxFrom k line = (nIdxFrom 0 line).map (· + k) := by
  induction line generalizing k with
  | nil => simp [nIdxFrom]
  | cons c cs ih =>
    unfold nIdxFrom
    rw [ih (k + 1), ih (0 + 1)]
    by_cases h : c = 'N'
    · simp only [h, if_true, List.map_cons, List.map_map, Nat.zero_add]
      congr 1
      apply List.map_congr_left
      intro a _
      simp only [Function.comp]
      omega
    · simp only [h, if_false, List.map_map]
      apply List.map_congr_left
      intro a _
      simp only [Function.comp]
      omega

/-- a non-empty line without 'N' -/
theorem charScan_noN (pos : Nat) (rs : Option Nat) (line : List Char) (hne : line ≠ [])
    (h : ∀ c ∈ line, c ≠ 'N') : charScan pos rs line = ([], some (rs.getD pos)) := by
  induction line generalizing pos rs with
  | nil => exact absurd rfl hne
  | cons c cs ih =>
    have hc : c ≠ 'N' := h c (by simp)
    unfold charScan
    rw [if_neg hc]
    cases cs with
    | nil => rfl
    | cons d ds =>
      rw [ih (pos + 1) (some (rs.getD pos)) (by simp) (fun x hx => h x (by simp [hx]))]
      rfl

/-- a non-empty line of 'N' only -/
theorem charScan_allN (pos : Nat) (rs : Option Nat) (line : List Char) (hne : line ≠ [])
    (h : ∀ c ∈ line, c = 'N') : charScan pos rs line = (emitOpen rs pos, none) := by
  induction line generalizing pos rs with
  | nil => exact absurd rfl hne
  | cons c cs ih =>
    have hc : c = 'N' := h c (by simp)
    unfold charScan
    rw [if_pos hc]
    cases cs with
    | nil => simp [charScan]
    | cons d ds =>
      rw [ih (pos + 1) none (by simp) (fun x hx => h x (by simp [hx]))]
      simp [emitOpen]

/-- what the "slow route" computes from the absolute N positions `idx` of a line of length `len`
    starting at `pos` -/
def lineFormula (pos : Nat) (rs : Option Nat) (len : Nat) (idx : List Nat) : List Run × Option Nat :=
  let i0 := idx.headD 0
  let il := idx.getLastD 0
  ((match rs with
    | some s => [(s, i0)]
    | none => if i0 ≠ pos then [(pos, i0)] else []) ++ gapsAbs idx,
   if il + 1 < pos + len then some (il + 1) else none)

theorem getLastD_cons_cons (a b : Nat) (t : List Nat) (d : Nat) :
    (a :: b :: t).getLastD d = (b :: t).getLastD d := by
  simp [List.getLastD]

/-- any line containing an 'N': the character scanner computes the slow-route formula -/
theorem charScan_formula (pos : Nat) (rs : Option Nat) (line : List Char)
    (h : nIdxFrom pos line ≠ []) :
    charScan pos rs line = lineFormula pos rs line.length (nIdxFrom pos line) := by
  induction line generalizing pos rs with
  | nil => simp [nIdxFrom] at h
  | cons c cs ih =>
    by_cases hc : c = 'N'
    · -- the line starts with N
      have hidx : nIdxFrom pos (c :: cs) = pos :: nIdxFrom (pos + 1) cs := by
        simp [nIdxFrom, hc]
      have hcs : charScan pos rs (c :: cs) =
          (emitOpen rs pos ++ (charScan (pos + 1) none cs).1, (charScan (pos + 1) none cs).2) := by
        simp [charScan, hc]
      rw [hidx, hcs]
      by_cases ht : nIdxFrom (pos + 1) cs = []
      · -- no further N
        rw [ht]
        cases cs with
        | nil =>
          cases rs <;> simp [charScan, lineFormula, emitOpen, gapsAbs]
        | cons d ds =>
          rw [charScan_noN (pos + 1) none (d :: ds) (by simp) ((nIdxFrom_nil_iff _ _).mp ht)]
          cases rs <;> simp [lineFormula, emitOpen, gapsAbs] <;> omega
      · rw [ih (pos + 1) none ht]
        obtain ⟨j, js, hj⟩ := List.exists_cons_of_ne_nil ht
        have hjge : pos + 1 ≤ j := nIdxFrom_ge (pos + 1) cs j (by rw [hj]; simp)
        rw [hj]
        simp only [lineFormula, List.headD_cons, getLastD_cons_cons, List.length_cons, gapsAbs]
        have e1 : (j ≠ pos + 1) = (j - pos > 1) := by
          apply propext; constructor <;> intro <;> omega
        have e2 : pos + 1 + cs.length = pos + (cs.length + 1) := by omega
        rw [e2]
        cases rs <;> simp [emitOpen, e1]
    · -- the line starts with a non-N character
      have hidx : nIdxFrom pos (c :: cs) = nIdxFrom (pos + 1) cs := by
        simp [nIdxFrom, hc]
      have hcs : charScan pos rs (c :: cs) = charScan (pos + 1) (some (rs.getD pos)) cs := by
        simp [charScan, hc]
      rw [hidx] at h ⊢
      rw [hcs, ih (pos + 1) (some (rs.getD pos)) h]
      obtain ⟨j, js, hj⟩ := List.exists_cons_of_ne_nil h
      have hjge : pos + 1 ≤ j := nIdxFrom_ge (pos + 1) cs j (by rw [hj]; simp)
      rw [hj]
      simp only [lineFormula, List.headD_cons, List.length_cons]
      have e2 : pos + 1 + cs.length = pos + (cs.length + 1) := by omega
      rw [e2]
      have e3 : j ≠ pos := by omega
      cases rs <;> simp [e3]

/-- `zip` / mask / shift formulation of the intermediate blocks (relative indices + cursor)
    = the recursion over absolute positions -/
theorem mid_eq_gapsAbs (c : Nat) (idx : List Nat) :
    ((idx.zip (idx.drop 1)).filter (fun p => p.2 - p.1 > 1)).map
        (fun p => (p.1 + 1 + c, p.2 + c)) = gapsAbs (idx.map (· + c)) := by
  induction idx with
  | nil => rfl
  | cons a t ih =>
    cases t with
    | nil => rfl
    | cons b u =>
      simp only [List.drop_succ_cons, List.drop_zero, List.zip_cons_cons, List.map_cons, gapsAbs] at ih ⊢
      rw [List.filter_cons]
      have e : (b + c - (a + c) > 1) = (b - a > 1) := by
        apply propext; constructor <;> intro <;> omega
      by_cases hg : b - a > 1
      · have hg' : b + c - (a + c) > 1 := by omega
        simp only [hg, hg', decide_true, if_true, List.map_cons, List.cons_append, List.nil_append]
        rw [ih]
        congr 2
        omega
      · have hg' : ¬ (b + c - (a + c) > 1) := by omega
        simp only [hg, hg', decide_false, if_false, List.nil_append, Bool.false_eq_true]
        rw [ih]

theorem headD_map_add (idx : List Nat) (c : Nat) (h : idx ≠ []) :
    (idx.map (· + c)).headD 0 = idx.headD 0 + c := by
  cases idx with
  | nil => exact absurd rfl h
  | cons a t => rfl

theorem getLastD_map_add (idx : List Nat) (c : Nat) (h : idx ≠ []) :
    (idx.map (· + c)).getLastD 0 = idx.getLastD 0 + c := by
  induction idx with
  | nil => exact absurd rfl h
  | cons a t ih =>
    cases t with
    | nil => rfl
    | cons b u =>
      have := ih (by simp)
      simp only [List.map_cons, getLastD_cons_cons] at this ⊢
      exact this

/-- **one line**: every branch of `get_regions` (blank line, all-N shortcut, mixed line via
    `n_indices`, N-free line) does what the character scanner does on that line -/
theorem stepLine_eq_charScan (st : Scan) (line : List Char) :
    stepLine st line =
      ((charScan st.cursor st.runStart line).1,
       ⟨st.cursor + line.length, (charScan st.cursor st.runStart line).2⟩) := by
  unfold stepLine
  by_cases he : line = []
  · subst he; cases st; simp [charScan]
  · have hemp : line.isEmpty = false := by cases line <;> simp_all
    simp only [hemp, Bool.false_eq_true, if_false]
    by_cases hN : line.contains 'N' = true
    · simp only [hN, if_true]
      have hidx0 : nIdxFrom 0 line ≠ [] := by
        intro h0
        have := (nIdxFrom_nil_iff 0 line).mp h0
        simp only [List.contains_iff_mem] at hN
        exact this 'N' hN rfl
      by_cases hall : line.all (· == 'N') = true
      · simp only [hall, if_true]
        have : ∀ c ∈ line, c = 'N' := by
          intro c hc
          have := List.all_eq_true.mp hall c hc
          simpa using this
        rw [charScan_allN st.cursor st.runStart line he this]
      · simp only [hall, Bool.false_eq_true, if_false]
        have hidx : nIdxFrom st.cursor line ≠ [] := by
          rw [nIdxFrom_shift]; simpa using hidx0
        rw [charScan_formula st.cursor st.runStart line hidx, nIdxFrom_shift st.cursor line]
        simp only [lineFormula, mid_eq_gapsAbs, headD_map_add _ _ hidx0,
          getLastD_map_add _ _ hidx0]
        generalize (nIdxFrom 0 line).headD 0 = a
        generalize (nIdxFrom 0 line).getLastD 0 = b
        generalize gapsAbs _ = G
        have e1 : st.cursor + a = a + st.cursor := by omega
        have e4 : st.cursor + b + 1 = b + st.cursor + 1 := by omega
        rw [e1, e4]
        refine Prod.ext ?_ ?_
        · show _ ++ G = _ ++ G
          congr 1
          cases st.runStart with
          | some s => rfl
          | none =>
            by_cases hz : a = 0
            · simp [hz]
            · simp [hz]
        · show Scan.mk _ _ = Scan.mk _ _
          congr 1
          by_cases hb : b + 1 < line.length
          · have : b + st.cursor + 1 < st.cursor + line.length := by omega
            simp [hb, this]
          · have : ¬ (b + st.cursor + 1 < st.cursor + line.length) := by omega
            simp [hb, this]
    · have hN' : line.contains 'N' = false := by simpa using hN
      simp only [hN', Bool.false_eq_true, if_false]
      have : ∀ c ∈ line, c ≠ 'N' := by
        intro c hc hcn
        subst hcn
        have : line.contains 'N' = true := List.contains_iff_mem.mpr hc
        rw [hN'] at this; cases this
      rw [charScan_noN st.cursor st.runStart line he this]
      cases st.runStart <;> rfl

theorem charScan_append (pos : Nat) (rs : Option Nat) (a b : List Char) :
    charScan pos rs (a ++ b) =
      ((charScan pos rs a).1 ++ (charScan (pos + a.length) (charScan pos rs a).2 b).1,
       (charScan (pos + a.length) (charScan pos rs a).2 b).2) := by
  induction a generalizing pos rs with
  | nil => simp [charScan]
  | cons c cs ih =>
    have e : pos + 1 + cs.length = pos + (cs.length + 1) := by omega
    by_cases hc : c = 'N'
    · simp only [List.cons_append, charScan, hc, if_true, List.length_cons]
      rw [ih (pos + 1) none, e]
      simp [List.append_assoc]
    · simp only [List.cons_append, charScan, hc, if_false, List.length_cons]
      rw [ih (pos + 1) _, e]

/-- **all lines of a sequence**: any splitting into lines, ragged widths and blank lines
    included, is scanned like the concatenation -/
theorem scanLines_eq_charScan (st : Scan) (lines : List (List Char)) :
    scanLines st lines =
      ((charScan st.cursor st.runStart lines.flatten).1,
       ⟨st.cursor + lines.flatten.length, (charScan st.cursor st.runStart lines.flatten).2⟩) := by
  induction lines generalizing st with
  | nil => cases st; simp [scanLines, charScan]
  | cons l ls ih =>
    simp only [scanLines, List.flatten_cons, List.length_append]
    rw [stepLine_eq_charScan, ih, charScan_append]
    simp [Nat.add_assoc]

/-! ### position-level maximal runs of a predicate -/

/-- the maximal runs of non-'N' characters of `w`, by position -/
def maxRuns (w : List Char) : List Run := accRunsGo (nonN w) w.length 0 none

theorem nonN_cons_zero (c : Char) (cs : List Char) : nonN (c :: cs) 0 = (c != 'N') := by
  simp [nonN]

theorem nonN_cons_succ (c : Char) (cs : List Char) (j : Nat) : nonN (c :: cs) (j + 1) = nonN cs j := by
  simp [nonN]

theorem charScan_eq_accRunsGo (f : Nat → Bool) (pos : Nat) (rs : Option Nat) (suf : List Char)
    (hf : ∀ j, j < suf.length → f (pos + j) = nonN suf j) :
    (charScan pos rs suf).1 ++ emitOpen (charScan pos rs suf).2 (pos + suf.length) =
      accRunsGo f suf.length pos rs := by
  induction suf generalizing pos rs with
  | nil => simp [charScan, accRunsGo]
  | cons c cs ih =>
    have h0 : f pos = (c != 'N') := by
      have := hf 0 (by simp); simpa [nonN_cons_zero] using this
    have hf' : ∀ j, j < cs.length → f (pos + 1 + j) = nonN cs j := by
      intro j hj
      have := hf (j + 1) (by simp; omega)
      rw [nonN_cons_succ] at this
      rw [← this]; congr 1; omega
    have e : pos + 1 + cs.length = pos + (cs.length + 1) := by omega
    simp only [List.length_cons, accRunsGo]
    by_cases hc : c = 'N'
    · have hfp : f pos = false := by rw [h0]; simp [hc]
      simp only [charScan, hc, if_true, hfp, Bool.false_eq_true, if_false]
      rw [← ih (pos + 1) none hf', e, List.append_assoc]
    · have hfp : f pos = true := by rw [h0]; simp [hc]
      simp only [charScan, hc, if_false, hfp, if_true]
      rw [← ih (pos + 1) _ hf', e]
      cases rs <;> rfl

/-- **headline**: for any splitting of a sequence into lines the scanner state machine emits
    exactly the position-level maximal runs of the concatenation -/
theorem scanSeq_eq_maxRuns (lines : List (List Char)) : scanSeq lines = maxRuns lines.flatten := by
  unfold scanSeq maxRuns
  rw [scanLines_eq_charScan]
  have := charScan_eq_accRunsGo (nonN lines.flatten) 0 none lines.flatten (by intro j _; simp)
  simpa using this

/-- position `i` lies in one of the runs -/
def covN (l : List Run) (i : Nat) : Prop := ∃ r ∈ l, r.1 ≤ i ∧ i < r.2

/-- sorted, non-empty, separated by at least one position -/
def CanonN (l : List Run) : Prop := (∀ r ∈ l, r.1 < r.2) ∧ l.Pairwise (fun a b => a.2 < b.1)

theorem covN_nil (i : Nat) : covN [] i ↔ False := by simp [covN]

theorem covN_append (a b : List Run) (i : Nat) : covN (a ++ b) i ↔ covN a i ∨ covN b i := by
  simp only [covN, List.mem_append]
  constructor
  · rintro ⟨r, hr | hr, h⟩
    · exact Or.inl ⟨r, hr, h⟩
    · exact Or.inr ⟨r, hr, h⟩
  · rintro (⟨r, hr, h⟩ | ⟨r, hr, h⟩)
    · exact ⟨r, Or.inl hr, h⟩
    · exact ⟨r, Or.inr hr, h⟩

theorem covN_emitOpen (rs : Option Nat) (e i : Nat) :
    covN (emitOpen rs e) i ↔ ∃ s, rs = some s ∧ s ≤ i ∧ i < e := by
  cases rs <;> simp [emitOpen, covN]

/-- the bases covered by the runs: the still-open run plus every `f`-position ahead -/
theorem covN_accRunsGo (f : Nat → Bool) (k pos : Nat) (rs : Option Nat)
    (hrs : ∀ s, rs = some s → s ≤ pos) (i : Nat) :
    covN (accRunsGo f k pos rs) i ↔
      (pos ≤ i ∧ i < pos + k ∧ f i = true) ∨ (∃ s, rs = some s ∧ s ≤ i ∧ i < pos) := by
  induction k generalizing pos rs with
  | zero =>
    simp only [accRunsGo, covN_emitOpen]
    constructor
    · intro h; exact Or.inr h
    · rintro (h | h)
      · omega
      · exact h
  | succ k ih =>
    unfold accRunsGo
    by_cases hf : f pos = true
    · simp only [hf, if_true]
      rw [ih (pos + 1) _ (by
        intro s hs
        cases rs with
        | none => simp at hs; omega
        | some t => simp at hs; have := hrs t rfl; omega)]
      cases rs with
      | none =>
        simp only [Option.some.injEq, exists_eq_left', reduceCtorEq, false_and, exists_false, or_false]
        constructor
        · rintro (⟨h1, h2, h3⟩ | ⟨h1, h2⟩)
          · exact ⟨by omega, by omega, h3⟩
          · have : i = pos := by omega
            subst this; exact ⟨by omega, by omega, hf⟩
        · rintro ⟨h1, h2, h3⟩
          by_cases hi : i = pos
          · right; omega
          · left; exact ⟨by omega, by omega, h3⟩
      | some t =>
        have ht := hrs t rfl
        simp only [Option.some.injEq, exists_eq_left']
        constructor
        · rintro (⟨h1, h2, h3⟩ | ⟨h1, h2⟩)
          · left; exact ⟨by omega, by omega, h3⟩
          · by_cases hi : i = pos
            · subst hi; left; exact ⟨by omega, by omega, hf⟩
            · right; omega
        · rintro (⟨h1, h2, h3⟩ | ⟨h1, h2⟩)
          · by_cases hi : i = pos
            · right; omega
            · left; exact ⟨by omega, by omega, h3⟩
          · right; omega
    · simp only [hf, Bool.false_eq_true, if_false]
      rw [covN_append, covN_emitOpen, ih (pos + 1) none (by simp)]
      simp only [reduceCtorEq, false_and, exists_false, or_false]
      constructor
      · rintro (h | ⟨h1, h2, h3⟩)
        · exact Or.inr h
        · left; exact ⟨by omega, by omega, h3⟩
      · rintro (⟨h1, h2, h3⟩ | h)
        · right
          have : i ≠ pos := by intro h; subst h; exact hf h3
          exact ⟨by omega, by omega, h3⟩
        · exact Or.inl h

/-- every run is non-empty and starts no earlier than the open run (or the cursor) -/
theorem accRunsGo_bounds (f : Nat → Bool) (k pos : Nat) (rs : Option Nat)
    (hrs : ∀ s, rs = some s → s < pos) :
    ∀ r ∈ accRunsGo f k pos rs, r.1 < r.2 ∧ rs.getD pos ≤ r.1 := by
  induction k generalizing pos rs with
  | zero =>
    intro r hr
    cases rs with
    | none => simp [accRunsGo, emitOpen] at hr
    | some s =>
      simp [accRunsGo, emitOpen] at hr
      subst hr
      have := hrs s rfl
      simp; omega
  | succ k ih =>
    intro r hr
    unfold accRunsGo at hr
    by_cases hf : f pos = true
    · simp only [hf, if_true] at hr
      have := ih (pos + 1) _ (by
        intro s hs
        cases rs with
        | none => simp at hs; omega
        | some t => simp at hs; have := hrs t rfl; omega) r hr
      cases rs with
      | none => simpa using this
      | some t => simpa using this
    · simp only [hf, Bool.false_eq_true, if_false] at hr
      rcases List.mem_append.mp hr with h | h
      · cases rs with
        | none => simp [emitOpen] at h
        | some s =>
          simp [emitOpen] at h
          subst h
          have := hrs s rfl
          simp; omega
      · have := ih (pos + 1) none (by simp) r h
        simp at this
        cases rs with
        | none => simp; omega
        | some s => have := hrs s rfl; simp; omega

theorem accRunsGo_pairwise (f : Nat → Bool) (k pos : Nat) (rs : Option Nat)
    (hrs : ∀ s, rs = some s → s < pos) :
    (accRunsGo f k pos rs).Pairwise (fun a b => a.2 < b.1) := by
  induction k generalizing pos rs with
  | zero => cases rs <;> simp [accRunsGo, emitOpen]
  | succ k ih =>
    unfold accRunsGo
    by_cases hf : f pos = true
    · simp only [hf, if_true]
      exact ih (pos + 1) _ (by
        intro s hs
        cases rs with
        | none => simp at hs; omega
        | some t => simp at hs; have := hrs t rfl; omega)
    · simp only [hf, Bool.false_eq_true, if_false]
      rw [List.pairwise_append]
      refine ⟨by cases rs <;> simp [emitOpen], ih (pos + 1) none (by simp), ?_⟩
      intro a ha b hb
      have hb' := (accRunsGo_bounds f k (pos + 1) none (by simp) b hb).2
      cases rs with
      | none => simp [emitOpen] at ha
      | some s =>
        simp [emitOpen] at ha
        subst ha
        simp at hb' ⊢; omega

/-- the position-level runs of `f` on `[0, n)` are canonical and cover exactly the `f`-positions -/
theorem accRuns_canon (f : Nat → Bool) (n : Nat) : CanonN (accRunsGo f n 0 none) :=
  ⟨fun r hr => (accRunsGo_bounds f n 0 none (by simp) r hr).1, accRunsGo_pairwise f n 0 none (by simp)⟩

theorem accRuns_cov (f : Nat → Bool) (n i : Nat) :
    covN (accRunsGo f n 0 none) i ↔ i < n ∧ f i = true := by
  rw [covN_accRunsGo f n 0 none (by simp)]
  simp

/-- `(s, e)` is a maximal run of `f`-positions within `[0, n)` -/
def IsMaxRun (f : Nat → Bool) (n s e : Nat) : Prop :=
  s < e ∧ e ≤ n ∧ (∀ i, s ≤ i → i < e → f i = true) ∧
  (s = 0 ∨ f (s - 1) = false) ∧ (e = n ∨ f e = false)

theorem pairwise_sep {l : List Run} (h : l.Pairwise (fun a b => a.2 < b.1)) {a b : Run}
    (ha : a ∈ l) (hb : b ∈ l) : a = b ∨ a.2 < b.1 ∨ b.2 < a.1 := by
  induction l with
  | nil => cases ha
  | cons x xs ih =>
    obtain ⟨hx, hxs⟩ := List.pairwise_cons.mp h
    rcases List.mem_cons.mp ha with rfl | ha' <;> rcases List.mem_cons.mp hb with rfl | hb'
    · exact Or.inl rfl
    · exact Or.inr (Or.inl (hx b hb'))
    · exact Or.inr (Or.inr (hx a ha'))
    · exact ih hxs ha' hb'

/-- a canonical list that covers exactly the `f`-positions below `n` consists of exactly the
    maximal runs of `f` -/
theorem mem_iff_isMaxRun (f : Nat → Bool) (n : Nat) (l : List Run) (hc : CanonN l)
    (hcov : ∀ i, covN l i ↔ i < n ∧ f i = true) (s e : Nat) :
    (s, e) ∈ l ↔ IsMaxRun f n s e := by
  constructor
  · intro hm
    have hpos : s < e := hc.1 (s, e) hm
    have hin : ∀ i, s ≤ i → i < e → i < n ∧ f i = true :=
      fun i h1 h2 => (hcov i).mp ⟨(s, e), hm, h1, h2⟩
    refine ⟨hpos, ?_, fun i h1 h2 => (hin i h1 h2).2, ?_, ?_⟩
    · have := (hin (e - 1) (by omega) (by omega)).1; omega
    · by_cases hs : s = 0
      · exact Or.inl hs
      · right
        cases hfs : f (s - 1) with
        | false => rfl
        | true =>
          exfalso
          have hlt : s - 1 < n := by have := (hin s (by omega) hpos).1; omega
          obtain ⟨r, hr, h1, h2⟩ := (hcov (s - 1)).mpr ⟨hlt, hfs⟩
          rcases pairwise_sep hc.2 hr hm with h | h | h
          · subst h; simp at h1; omega
          · simp at h; omega
          · simp at h; omega
    · by_cases he : e = n
      · exact Or.inl he
      · right
        cases hfe : f e with
        | false => rfl
        | true =>
          exfalso
          have hlt : e < n := by have := (hin (e - 1) (by omega) (by omega)).1; omega
          obtain ⟨r, hr, h1, h2⟩ := (hcov e).mpr ⟨hlt, hfe⟩
          rcases pairwise_sep hc.2 hr hm with h | h | h
          · subst h; simp at h2
          · simp at h; omega
          · simp at h; omega
  · rintro ⟨hpos, hen, hall, hs, he⟩
    obtain ⟨r, hr, h1, h2⟩ := (hcov s).mpr ⟨by omega, hall s (Nat.le_refl _) hpos⟩
    have hrin : ∀ i, r.1 ≤ i → i < r.2 → i < n ∧ f i = true :=
      fun i a b => (hcov i).mp ⟨r, hr, a, b⟩
    have hr1 : r.1 = s := by
      apply Classical.byContradiction
      intro hne
      have hlt : r.1 < s := by omega
      have := (hrin (s - 1) (by omega) (by omega)).2
      rcases hs with h | h
      · omega
      · rw [h] at this; cases this
    have hr2 : r.2 = e := by
      apply Classical.byContradiction
      intro hne
      rcases Nat.lt_or_gt_of_ne hne with hlt | hgt
      · -- the run stops early: position r.2 is an f-position covered by another run
        obtain ⟨r', hr', h1', h2'⟩ := (hcov r.2).mpr ⟨by omega, hall r.2 (by omega) hlt⟩
        rcases pairwise_sep hc.2 hr hr' with h | h | h
        · subst h; omega
        · omega
        · omega
      · have := hrin e (by omega) hgt
        rcases he with h | h
        · omega
        · rw [h] at this; cases this.2
    have : r = (s, e) := by cases r; simp_all
    rw [← this]; exact hr

/-- the scanner's output in the property's words: `(s, e)` is reported iff it is a maximal run of
    characters other than 'N' (0-based, half-open) -/
theorem mem_maxRuns_iff (w : List Char) (s e : Nat) :
    (s, e) ∈ maxRuns w ↔ IsMaxRun (nonN w) w.length s e :=
  mem_iff_isMaxRun (nonN w) w.length (maxRuns w) (accRuns_canon _ _) (accRuns_cov _ _) s e

theorem nonN_lt_length (w : List Char) (i : Nat) (h : nonN w i = true) : i < w.length := by
  unfold nonN at h
  split at h
  · rename_i c hc
    exact (List.getElem?_eq_some_iff.mp hc).1
  · cases h

theorem maxRuns_cov (w : List Char) (i : Nat) : covN (maxRuns w) i ↔ nonN w i = true := by
  unfold maxRuns
  rw [accRuns_cov]
  exact ⟨fun h => h.2, fun h => ⟨nonN_lt_length w i h, h⟩⟩

/-! ### `join_regions` on one chromosome -/

/-- `p` lies in a gap between two consecutive rows that is shorter than `g` -/
def bridgedL (g : Int) : List Row → Int → Prop
  | a :: b :: t, p => (a.e ≤ p ∧ p < b.s ∧ b.s - a.e < g) ∨ bridgedL g (b :: t) p
  | _, _ => False

theorem bridgedL_head (g : Int) (a a' : Row) (t : List Row) (p : Int) (h : a.e = a'.e) :
    bridgedL g (a :: t) p ↔ bridgedL g (a' :: t) p := by
  cases t with
  | nil => simp [bridgedL]
  | cons b u => simp [bridgedL, h]

theorem canon_cons {x : Row} {xs : List Row} (h : Canon (x :: xs)) :
    x.s < x.e ∧ (∀ y ∈ xs, x.e < y.s) ∧ Canon xs :=
  ⟨h.head_pos, (List.pairwise_cons.mp h.2).1, h.tail⟩

theorem canon_mk {x : Row} {xs : List Row} (h1 : x.s < x.e) (h2 : ∀ y ∈ xs, x.e < y.s)
    (h3 : Canon xs) : Canon (x :: xs) :=
  ⟨fun r hr => by
      rcases List.mem_cons.mp hr with rfl | h
      · exact h1
      · exact h3.1 r h,
   List.pairwise_cons.mpr ⟨h2, h3.2⟩⟩

/-- what is covered after joining: the input plus the gaps shorter than `g` -/
theorem joinGo_cov (g : Int) (prev : Row) (l : List Row) (hc : Canon (prev :: l)) (p : Int) :
    cov (joinGo g prev l) p ↔ cov (prev :: l) p ∨ bridgedL g (prev :: l) p := by
  induction l generalizing prev with
  | nil => simp [joinGo, bridgedL]
  | cons x xs ih =>
    obtain ⟨hp, hsep, hcx⟩ := canon_cons hc
    obtain ⟨hxp, hxsep, hcxs⟩ := canon_cons hcx
    have hpx := hsep x (by simp)
    unfold joinGo
    by_cases hj : x.s - prev.e < g
    · rw [if_pos hj]
      have hc' : Canon ({ prev with e := x.e } :: xs) :=
        canon_mk (by show prev.s < x.e; omega) (fun y hy => hxsep y hy) hcxs
      rw [ih _ hc', bridgedL_head g { prev with e := x.e } x xs p rfl]
      simp only [cov_cons, bridgedL]
      show ((prev.s ≤ p ∧ p < x.e) ∨ cov xs p) ∨ bridgedL g (x :: xs) p ↔ _
      constructor
      · rintro ((⟨h1, h2⟩ | h) | h)
        · by_cases ha : p < prev.e
          · exact Or.inl (Or.inl ⟨h1, ha⟩)
          · by_cases hb : p < x.s
            · exact Or.inr (Or.inl ⟨by omega, hb, hj⟩)
            · exact Or.inl (Or.inr (Or.inl ⟨by omega, h2⟩))
        · exact Or.inl (Or.inr (Or.inr h))
        · exact Or.inr (Or.inr h)
      · rintro ((⟨h1, h2⟩ | ⟨h1, h2⟩ | h) | (⟨h1, h2, _⟩ | h))
        · exact Or.inl (Or.inl ⟨h1, by omega⟩)
        · exact Or.inl (Or.inl ⟨by omega, h2⟩)
        · exact Or.inl (Or.inr h)
        · exact Or.inl (Or.inl ⟨by omega, by omega⟩)
        · exact Or.inr h
    · rw [if_neg hj]
      rw [cov_cons, ih x hcx]
      simp only [cov_cons, bridgedL]
      constructor
      · rintro (h | (h | h) | h)
        · exact Or.inl (Or.inl h)
        · exact Or.inl (Or.inr (Or.inl h))
        · exact Or.inl (Or.inr (Or.inr h))
        · exact Or.inr (Or.inr h)
      · rintro ((h | h | h) | (⟨_, _, h⟩ | h))
        · exact Or.inl h
        · exact Or.inr (Or.inl (Or.inl h))
        · exact Or.inr (Or.inl (Or.inr h))
        · exact absurd h hj
        · exact Or.inr (Or.inr h)

/-- the joined regions are non-empty, sorted, and every remaining gap is at least
    `max 1 g` bases wide -/
theorem joinGo_canon (g : Int) (prev : Row) (l : List Row) (hc : Canon (prev :: l)) :
    (∀ r ∈ joinGo g prev l, r.s < r.e ∧ prev.s ≤ r.s) ∧
    (joinGo g prev l).Pairwise (fun a b => a.e + max 1 g ≤ b.s) := by
  induction l generalizing prev with
  | nil =>
    have := hc.head_pos
    simp [joinGo]; exact this
  | cons x xs ih =>
    obtain ⟨hp, hsep, hcx⟩ := canon_cons hc
    obtain ⟨hxp, hxsep, hcxs⟩ := canon_cons hcx
    have hpx := hsep x (by simp)
    unfold joinGo
    by_cases hj : x.s - prev.e < g
    · rw [if_pos hj]
      have hc' : Canon ({ prev with e := x.e } :: xs) :=
        canon_mk (by show prev.s < x.e; omega) (fun y hy => hxsep y hy) hcxs
      exact ih _ hc'
    · rw [if_neg hj]
      obtain ⟨h1, h2⟩ := ih x hcx
      constructor
      · intro r hr
        rcases List.mem_cons.mp hr with rfl | h
        · exact ⟨hp, Int.le_refl _⟩
        · have := h1 r h; omega
      · refine List.pairwise_cons.mpr ⟨?_, h2⟩
        intro r hr
        have := (h1 r hr).2
        omega

theorem joinChrom_cov (g : Int) (l : List Row) (hc : Canon l) (p : Int) :
    cov (joinChrom g l) p ↔ cov l p ∨ bridgedL g l p := by
  cases l with
  | nil => simp [joinChrom, bridgedL]
  | cons x xs => exact joinGo_cov g x xs hc p

theorem joinChrom_canon (g : Int) (l : List Row) (hc : Canon l) :
    (∀ r ∈ joinChrom g l, r.s < r.e) ∧ (joinChrom g l).Pairwise (fun a b => a.e + max 1 g ≤ b.s) := by
  cases l with
  | nil => simp [joinChrom]
  | cons x xs =>
    have := joinGo_canon g x xs hc
    exact ⟨fun r hr => (this.1 r hr).1, this.2⟩

/-- the `assert gap > 0` of `join_regions` cannot fire on a canonical table -/
theorem gapsPositive_of_canon (l : List Row) (hc : Canon l) : gapsPositive l = true := by
  induction l with
  | nil => rfl
  | cons a t ih =>
    cases t with
    | nil => rfl
    | cons b u =>
      obtain ⟨_, hsep, hct⟩ := canon_cons hc
      have := hsep b (by simp)
      simp only [gapsPositive, Bool.and_eq_true, decide_eq_true_eq]
      exact ⟨by omega, ih hct⟩

/-! #### the bridged gaps in the property's words -/

/-- `p` lies in a stretch `[g1, g2)` of inaccessible bases, shorter than `g`, with an accessible
    base immediately on either side -/
def InSmallGap (acc : Int → Prop) (g : Int) (p : Int) : Prop :=
  ∃ g1 g2, g1 ≤ p ∧ p < g2 ∧ g2 - g1 < g ∧ acc (g1 - 1) ∧ acc g2 ∧ ∀ q, g1 ≤ q → q < g2 → ¬ acc q

theorem canon_cov_ge {x : Row} {xs : List Row} (h : Canon (x :: xs)) {p : Int}
    (hp : cov (x :: xs) p) : x.s ≤ p := by
  rcases (cov_cons x xs p).mp hp with h1 | h1
  · exact h1.1
  · have := h.tail_gt h1; have := h.head_pos; omega

theorem bridgedL_iff_inSmallGap (acc : Int → Prop) (g : Int) (l : List Row) (hc : Canon l)
    (hagree : ∀ q, (∀ x ∈ l.head?, x.s ≤ q) → (acc q ↔ cov l q)) (p : Int) :
    bridgedL g l p ↔ (InSmallGap acc g p ∧ ∀ x ∈ l.head?, x.s < p) := by
  induction l with
  | nil =>
    simp only [bridgedL, false_iff]
    rintro ⟨⟨g1, g2, _, _, _, h4, _⟩, _⟩
    have := (hagree (g1 - 1) (by simp)).mp h4
    simp [cov] at this
  | cons a t ih =>
    obtain ⟨hap, hsep, hct⟩ := canon_cons hc
    have hag : ∀ q, a.s ≤ q → (acc q ↔ cov (a :: t) q) := fun q hq => hagree q (by simpa using hq)
    cases t with
    | nil =>
      simp only [bridgedL, false_iff]
      rintro ⟨⟨g1, g2, h1, h2, _, h4, h5, h6⟩, hh⟩
      have hh : a.s < p := hh a (by simp)
      -- acc g2 with g2 > p > a.s: covered by `a`, so g2 < a.e; but then p is covered too
      have c2 := (hag g2 (by omega)).mp h5
      simp only [cov_cons, cov_nil, or_false] at c2
      exact h6 p h1 h2 ((hag p (by omega)).mpr ((cov_cons a [] p).mpr (Or.inl ⟨by omega, by omega⟩)))
    | cons b u =>
      obtain ⟨hbp, hbsep, hcu⟩ := canon_cons hct
      have hab := hsep b (by simp)
      have hagt : ∀ q, (∀ x ∈ (b :: u).head?, x.s ≤ q) → (acc q ↔ cov (b :: u) q) := by
        intro q hq
        have hq : b.s ≤ q := hq b (by simp)
        rw [hag q (by omega), cov_cons]
        constructor
        · rintro (h | h)
          · omega
          · exact h
        · exact Or.inr
      have IH := ih hct hagt
      simp only [bridgedL]
      constructor
      · rintro (⟨h1, h2, h3⟩ | h)
        · refine ⟨⟨a.e, b.s, h1, h2, h3, ?_, ?_, ?_⟩, ?_⟩
          · exact (hag (a.e - 1) (by omega)).mpr ((cov_cons _ _ _).mpr (Or.inl ⟨by omega, by omega⟩))
          · exact (hag b.s (by omega)).mpr
              ((cov_cons _ _ _).mpr (Or.inr ((cov_cons _ _ _).mpr (Or.inl ⟨by omega, hbp⟩))))
          · intro q hq1 hq2 hacc
            have := (hag q (by omega)).mp hacc
            rcases (cov_cons _ _ _).mp this with h | h
            · omega
            · have := canon_cov_ge hct h; omega
          · intro x hx; simp at hx; subst hx; omega
        · obtain ⟨hgap, hh⟩ := IH.mp h
          refine ⟨hgap, ?_⟩
          intro x hx; simp at hx; subst hx
          have := hh b (by simp); omega
      · rintro ⟨⟨g1, g2, h1, h2, h3, h4, h5, h6⟩, hh⟩
        have hh : a.s < p := hh a (by simp)
        -- where is g1 - 1 ?
        by_cases hlow : a.s ≤ g1 - 1
        · have c1 := (hag (g1 - 1) hlow).mp h4
          rcases (cov_cons _ _ _).mp c1 with ha | hrest
          · -- `a` covers g1 - 1: then a.e = g1 and b.s = g2
            have hae : a.e = g1 := by
              apply Classical.byContradiction
              intro hne
              exact h6 g1 (Int.le_refl _) (by omega)
                ((hag g1 (by omega)).mpr ((cov_cons _ _ _).mpr (Or.inl ⟨by omega, by omega⟩)))
            have c2 := (hag g2 (by omega)).mp h5
            have c2' : cov (b :: u) g2 := by
              rcases (cov_cons _ _ _).mp c2 with h | h
              · omega
              · exact h
            have hb2 := canon_cov_ge hct c2'
            have hbs : b.s = g2 := by
              apply Classical.byContradiction
              intro hne
              exact h6 b.s (by omega) (by omega)
                ((hag b.s (by omega)).mpr
                  ((cov_cons _ _ _).mpr (Or.inr ((cov_cons _ _ _).mpr (Or.inl ⟨by omega, hbp⟩)))))
            left
            exact ⟨by omega, by omega, by omega⟩
          · right
            have hb1 := canon_cov_ge hct hrest
            exact IH.mpr ⟨⟨g1, g2, h1, h2, h3, h4, h5, h6⟩, by
              intro x hx; simp at hx; subst hx; omega⟩
        · -- g1 ≤ a.s < p < g2: a.s itself would be an accessible base inside the gap
          exfalso
          exact h6 a.s (by omega) (by omega)
            ((hag a.s (Int.le_refl _)).mpr ((cov_cons _ _ _).mpr (Or.inl ⟨by omega, hap⟩)))

theorem bridgedL_iff_inSmallGap' (acc : Int → Prop) (g : Int) (l : List Row) (hc : Canon l)
    (hagree : ∀ q, acc q ↔ cov l q) (p : Int) : bridgedL g l p ↔ InSmallGap acc g p := by
  rw [bridgedL_iff_inSmallGap acc g l hc (fun q _ => hagree q) p]
  constructor
  · exact fun h => h.1
  · intro h
    refine ⟨h, ?_⟩
    obtain ⟨g1, g2, h1, _, _, h4, _, _⟩ := h
    intro x hx
    cases l with
    | nil => simp at hx
    | cons a t =>
      simp at hx; subst hx
      have := canon_cov_ge hc ((hagree (g1 - 1)).mp h4)
      omega

/-! ### subtraction keeps the table canonical -/

theorem gapsR_fst_ge (lo hi : Int) (ex : List Row) (hc : Canon ex) (ho : ∀ x ∈ ex, lo ≤ x.e) :
    ∀ q ∈ gapsR lo hi ex, lo ≤ q.1 := by
  induction ex generalizing lo with
  | nil => intro q hq; simp [gapsR] at hq; subst hq; exact Int.le_refl _
  | cons x xs ih =>
    obtain ⟨hxp, hsep, hcx⟩ := canon_cons hc
    intro q hq
    simp only [gapsR, List.mem_cons] at hq
    rcases hq with rfl | hq
    · exact Int.le_refl _
    · have := ih x.e hcx (fun y hy => by have := hsep y hy; have := hcx.1 y hy; omega) q hq
      have := ho x (by simp)
      omega

theorem gapsN_fst_ge (lo : Int) (ex : List Row) (hc : Canon ex) (ho : ∀ x ∈ ex, lo ≤ x.e) :
    ∀ q ∈ gapsN lo ex, lo ≤ q.1 := by
  induction ex generalizing lo with
  | nil => intro q hq; simp [gapsN] at hq
  | cons x xs ih =>
    obtain ⟨hxp, hsep, hcx⟩ := canon_cons hc
    intro q hq
    simp only [gapsN, List.mem_cons] at hq
    rcases hq with rfl | hq
    · exact Int.le_refl _
    · have := ih x.e hcx (fun y hy => by have := hsep y hy; have := hcx.1 y hy; omega) q hq
      have := ho x (by simp)
      omega

theorem gapsR_pairwise (lo hi : Int) (ex : List Row) (hc : Canon ex) :
    (gapsR lo hi ex).Pairwise (fun a b => a.2 < b.1) := by
  induction ex generalizing lo with
  | nil => simp [gapsR]
  | cons x xs ih =>
    obtain ⟨hxp, hsep, hcx⟩ := canon_cons hc
    simp only [gapsR]
    refine List.pairwise_cons.mpr ⟨?_, ih x.e hcx⟩
    intro q hq
    have := gapsR_fst_ge x.e hi xs hcx
      (fun y hy => by have := hsep y hy; have := hcx.1 y hy; omega) q hq
    show x.s < q.1
    omega

theorem gapsN_pairwise (lo : Int) (ex : List Row) (hc : Canon ex) :
    (gapsN lo ex).Pairwise (fun a b => a.2 < b.1) := by
  induction ex generalizing lo with
  | nil => simp [gapsN]
  | cons x xs ih =>
    obtain ⟨hxp, hsep, hcx⟩ := canon_cons hc
    simp only [gapsN]
    refine List.pairwise_cons.mpr ⟨?_, ih x.e hcx⟩
    intro q hq
    have := gapsN_fst_ge x.e xs hcx
      (fun y hy => by have := hsep y hy; have := hcx.1 y hy; omega) q hq
    show x.s < q.1
    omega

theorem pieces_pairwise (k : Row) (G : List (Int × Int)) (h : G.Pairwise (fun a b => a.2 < b.1)) :
    ((G.filter (fun q => q.2 > q.1)).map (fun q => ({ k with s := q.1, e := q.2 } : Row))).Pairwise
      (fun a b => a.e < b.s) := by
  rw [List.pairwise_map]
  exact h.sublist List.filter_sublist

/-- the pieces left of one keeper are canonical and lie inside the keeper -/
theorem subtractRow_canon (k : Row) (hk : k.s < k.e) (ex : List Row) (hc : Canon ex)
    (ho : ∀ x ∈ ex, x.e > k.s ∧ x.s < k.e) :
    Canon (subtractRow k ex) ∧ ∀ q ∈ subtractRow k ex, k.s ≤ q.s ∧ q.e ≤ k.e := by
  have hpos : ∀ q ∈ subtractRow k ex, q.s < q.e := by
    intro q hq
    rcases subtractRow_carry k ex q hq with h | h
    · exact h.2.2
    · subst h; exact hk
  have hin : ∀ q ∈ subtractRow k ex, k.s ≤ q.s ∧ q.e ≤ k.e := by
    intro q hq
    have hq' := hpos q hq
    have c1 := (subtractRow_cov k ex hc ho q.s).mp ⟨q, hq, Int.le_refl _, hq'⟩
    have c2 := (subtractRow_cov k ex hc ho (q.e - 1)).mp ⟨q, hq, by omega, by omega⟩
    omega
  refine ⟨⟨hpos, ?_⟩, hin⟩
  cases ex with
  | nil => simp [subtractRow]
  | cons f t =>
    rw [subtractRow_cons]
    apply pieces_pairwise
    have hct := hc.tail
    split
    · exact gapsR_pairwise _ _ _ hc
    · split
      · exact gapsN_pairwise _ _ hc
      · split
        · exact gapsR_pairwise _ _ _ hct
        · exact gapsN_pairwise _ _ hct

theorem cov_flatMap (t : List Row) (f : Row → List Row) (p : Int) :
    cov (t.flatMap f) p ↔ ∃ k ∈ t, cov (f k) p := by
  simp only [cov, List.mem_flatMap]
  constructor
  · rintro ⟨r, ⟨k, hk, hr⟩, h⟩; exact ⟨k, hk, r, hr, h⟩
  · rintro ⟨k, hk, r, hr, h⟩; exact ⟨r, ⟨k, hk, hr⟩, h⟩

theorem canon_flatMap (t : List Row) (f : Row → List Row) (hc : Canon t)
    (hf : ∀ k ∈ t, Canon (f k) ∧ ∀ q ∈ f k, k.s ≤ q.s ∧ q.e ≤ k.e) : Canon (t.flatMap f) := by
  induction t with
  | nil => exact ⟨by simp, by simp⟩
  | cons k ks ih =>
    obtain ⟨_, hsep, hcks⟩ := canon_cons hc
    have hk := hf k (by simp)
    have IH := ih hcks (fun k' hk' => hf k' (by simp [hk']))
    rw [List.flatMap_cons]
    refine ⟨?_, ?_⟩
    · intro r hr
      rcases List.mem_append.mp hr with h | h
      · exact hk.1.1 r h
      · exact IH.1 r h
    · rw [List.pairwise_append]
      refine ⟨hk.1.2, IH.2, ?_⟩
      intro a ha b hb
      obtain ⟨k', hk', hb'⟩ := List.mem_flatMap.mp hb
      have h1 := (hk.2 a ha).2
      have h2 := ((hf k' (by simp [hk'])).2 b hb').1
      have := hsep k' hk'
      omega

/-- one exclude file (any rows: overlapping, nested, duplicated, touching), one chromosome:
    exactly the excluded bases disappear, and the table stays canonical -/
theorem subtractChrom_spec (t b : List Row) (hc : Canon t) (hs : StartSorted b)
    (hp : ∀ r ∈ b, r.s < r.e) :
    Canon (subtractChrom t b) ∧ ∀ p, cov (subtractChrom t b) p ↔ cov t p ∧ ¬ cov b p := by
  have hex : ∀ k : Row, Canon (overlapping k (mergeChrom 0 b)) ∧
      ∀ x ∈ overlapping k (mergeChrom 0 b), x.e > k.s ∧ x.s < k.e := by
    intro k
    refine ⟨(mergeChrom_canon b hs hp).filter _, ?_⟩
    intro x hx
    have := (List.mem_filter.mp hx).2
    simpa using this
  constructor
  · apply canon_flatMap t _ hc
    intro k hk
    exact subtractRow_canon k (hc.1 k hk) _ (hex k).1 (hex k).2
  · intro p
    unfold subtractChrom
    rw [cov_flatMap]
    constructor
    · rintro ⟨k, hk, h⟩
      have := (subtractRow_cov_merged k b hs hp p).mp h
      exact ⟨⟨k, hk, this.1⟩, this.2⟩
    · rintro ⟨⟨k, hk, h⟩, hn⟩
      exact ⟨k, hk, (subtractRow_cov_merged k b hs hp p).mpr ⟨h, hn⟩⟩

/-- every exclude file in turn -/
theorem foldl_subtractChrom_spec (excl : List (List Row)) (t : List Row) (hc : Canon t)
    (hex : ∀ b ∈ excl, StartSorted b ∧ ∀ r ∈ b, r.s < r.e) :
    Canon (excl.foldl subtractChrom t) ∧
      ∀ p, cov (excl.foldl subtractChrom t) p ↔ cov t p ∧ ∀ b ∈ excl, ¬ cov b p := by
  induction excl generalizing t with
  | nil => exact ⟨hc, fun p => by simp⟩
  | cons b bs ih =>
    have hb := hex b (by simp)
    obtain ⟨c1, v1⟩ := subtractChrom_spec t b hc hb.1 hb.2
    obtain ⟨c2, v2⟩ := ih (subtractChrom t b) c1 (fun b' hb' => hex b' (by simp [hb']))
    refine ⟨c2, ?_⟩
    intro p
    rw [List.foldl_cons, v2 p, v1 p]
    simp only [List.mem_cons, forall_eq_or_imp]
    constructor
    · rintro ⟨⟨h1, h2⟩, h3⟩; exact ⟨h1, h2, h3⟩
    · rintro ⟨h1, h2, h3⟩; exact ⟨⟨h1, h2⟩, h3⟩

/-! ### one sequence end to end: scan → subtract every exclude file → join -/

/-- position `p` of the sequence holds a character other than 'N' -/
def NonNAt (w : List Char) (p : Int) : Prop := 0 ≤ p ∧ nonN w p.toNat = true

/-- neither 'N' nor inside a region of any exclude file -/
def Accessible (w : List Char) (excl : List (List Row)) (p : Int) : Prop :=
  NonNAt w p ∧ ∀ b ∈ excl, ¬ cov b p

def runRows (name : String) (runs : List Run) : List Row :=
  runs.map (fun r => regionRow (name, r.1, r.2))

theorem runRows_canon (name : String) (runs : List Run) (h : CanonN runs) : Canon (runRows name runs) := by
  refine ⟨?_, ?_⟩
  · intro r hr
    obtain ⟨x, hx, rfl⟩ := List.mem_map.mp hr
    have := h.1 x hx
    show (x.1 : Int) < (x.2 : Int)
    omega
  · unfold runRows
    rw [List.pairwise_map]
    refine h.2.imp ?_
    intro a b hab
    show (a.2 : Int) < (b.1 : Int)
    omega

theorem runRows_cov (name : String) (runs : List Run) (p : Int) :
    cov (runRows name runs) p ↔ 0 ≤ p ∧ covN runs p.toNat := by
  unfold runRows cov covN
  constructor
  · rintro ⟨r, hr, h1, h2⟩
    obtain ⟨x, hx, rfl⟩ := List.mem_map.mp hr
    have h1 : (x.1 : Int) ≤ p := h1
    have h2 : p < (x.2 : Int) := h2
    exact ⟨by omega, x, hx, by omega, by omega⟩
  · rintro ⟨h0, x, hx, h1, h2⟩
    refine ⟨_, List.mem_map.mpr ⟨x, hx, rfl⟩, ?_, ?_⟩
    · show (x.1 : Int) ≤ p; omega
    · show p < (x.2 : Int); omega

/-- **the pipeline on one sequence**, for any line splitting, any exclude files (rows sorted by
    start as `tabio.read` leaves them, positive length; overlapping / nested / touching allowed)
    and any minimum gap -/
theorem accessChrom_spec (name : String) (lines : List (List Char)) (excl : List (List Row)) (g : Int)
    (hex : ∀ b ∈ excl, StartSorted b ∧ ∀ r ∈ b, r.s < r.e) :
    (∀ r ∈ accessChrom name lines excl g, r.s < r.e) ∧
    (accessChrom name lines excl g).Pairwise (fun a b => a.e + max 1 g ≤ b.s) ∧
    ∀ p, cov (accessChrom name lines excl g) p ↔
      Accessible lines.flatten excl p ∨ InSmallGap (Accessible lines.flatten excl) g p := by
  have hruns : Canon (runRows name (scanSeq lines)) := by
    rw [scanSeq_eq_maxRuns]; exact runRows_canon _ _ (accRuns_canon _ _)
  obtain ⟨hc, hv⟩ := foldl_subtractChrom_spec excl (runRows name (scanSeq lines)) hruns hex
  have hagree : ∀ q, Accessible lines.flatten excl q ↔
      cov (excl.foldl subtractChrom (runRows name (scanSeq lines))) q := by
    intro q
    rw [hv q, runRows_cov, scanSeq_eq_maxRuns, maxRuns_cov]
    rfl
  have hj := joinChrom_canon g _ hc
  refine ⟨hj.1, hj.2, ?_⟩
  intro p
  show cov (joinChrom g (excl.foldl subtractChrom (runRows name (scanSeq lines)))) p ↔ _
  rw [joinChrom_cov g _ hc p, ← hagree p, bridgedL_iff_inSmallGap' _ g _ hc hagree p]

/-- a stretch of at least `g` inaccessible bases is never reported, bridged or not -/
theorem large_gap_kept (acc : Int → Prop) (g g1 g2 p : Int)
    (hgap : ∀ q, g1 ≤ q → q < g2 → ¬ acc q) (hsize : g ≤ g2 - g1) (h1 : g1 ≤ p) (h2 : p < g2) :
    ¬ (acc p ∨ InSmallGap acc g p) := by
  rintro (h | ⟨a, b, ha, hb, hlt, hacc1, hacc2, hin⟩)
  · exact hgap p h1 h2 h
  · -- the small gap [a, b) contains p and is flanked by accessible bases, so it contains [g1, g2)
    have ha' : a ≤ g1 := by
      apply Classical.byContradiction
      intro hn
      exact hgap (a - 1) (by omega) (by omega) hacc1
    have hb' : g2 ≤ b := by
      apply Classical.byContradiction
      intro hn
      exact hgap b (by omega) (by omega) hacc2
    omega

/-! ### the file loop: records in, per-record scans out -/

/-- a FASTA file as the scanner sees it: a header, then that sequence's lines -/
def renderRecords (recs : List (String × List (List Char))) : List FLine :=
  recs.flatMap (fun r => FLine.header r.1 :: r.2.map FLine.body)

def tagRuns (c : String) (l : List Run) : List Region := l.map (fun x => (c, x.1, x.2))

theorem scanFile_bodies (c : String) (st : Scan) (ls : List (List Char)) (rest : List FLine) :
    scanFile (some c) st (ls.map FLine.body ++ rest) =
      (match scanFile (some c) (scanLines st ls).2 rest with
       | .ok tail => .ok (tagRuns c (scanLines st ls).1 ++ tail)
       | .error e => .error e) := by
  induction ls generalizing st with
  | nil =>
    simp only [List.map_nil, List.nil_append, scanLines, tagRuns, List.map_nil]
    cases scanFile (some c) st rest <;> rfl
  | cons l ls ih =>
    simp only [List.map_cons, List.cons_append, scanLines]
    by_cases hl : l = []
    · subst hl
      have : stepLine st [] = ([], st) := by simp [stepLine]
      rw [this]
      simp only [scanFile, List.isEmpty_nil, if_true, List.nil_append]
      exact ih st
    · have hemp : l.isEmpty = false := by cases l <;> simp_all
      simp only [scanFile, hemp, Bool.false_eq_true, if_false]
      rw [ih]
      cases scanFile (some c) (scanLines (stepLine st l).2 ls).2 rest with
      | error e => rfl
      | ok tail =>
        simp only [tagRuns, List.map_append, List.append_assoc]
        rfl

/-- **the whole file**: `get_regions` reports, record after record, the scan of each record -/
theorem scanFile_records (chrom : Option String) (st : Scan)
    (recs : List (String × List (List Char))) :
    scanFile chrom st (renderRecords recs) =
      .ok (tagRuns (chrom.getD "") (emitOpen st.runStart st.cursor) ++
           recs.flatMap (fun r => tagRuns r.1 (scanSeq r.2))) := by
  induction recs generalizing chrom st with
  | nil => simp [renderRecords, scanFile, tagRuns]; rfl
  | cons r rs ih =>
    have hr : renderRecords (r :: rs) = FLine.header r.1 :: (r.2.map FLine.body ++ renderRecords rs) := by
      simp [renderRecords]
    rw [hr]
    simp only [scanFile]
    rw [scanFile_bodies, ih]
    simp only [List.flatMap_cons, scanSeq, tagRuns, List.map_append, List.append_assoc,
      Option.getD_some]
    rfl

theorem getRegions_records (recs : List (String × List (List Char))) :
    getRegions (renderRecords recs) = .ok (recs.flatMap (fun r => tagRuns r.1 (maxRuns r.2.flatten))) := by
  unfold getRegions
  rw [scanFile_records]
  simp only [emitOpen, tagRuns, List.map_nil, List.nil_append, scanSeq_eq_maxRuns]

/-! ### the contig-name rule (`re_noncanonical.search`) -/

/-- the atoms match the string `m` exactly -/
def atomsAccept : List (Option Char) → List Char → Bool
  | [], [] => true
  | a :: as, c :: cs => atomOk a c && atomsAccept as cs
  | _, _ => false

theorem matchAtoms_iff (atoms : List (Option Char)) (s rest : List Char) :
    matchAtoms atoms s = some rest ↔ ∃ m, s = m ++ rest ∧ atomsAccept atoms m = true := by
  induction atoms generalizing s with
  | nil =>
    simp only [matchAtoms, Option.some.injEq]
    constructor
    · rintro rfl; exact ⟨[], rfl, rfl⟩
    · rintro ⟨m, hm, ha⟩
      cases m with
      | nil => simpa using hm
      | cons c cs => simp [atomsAccept] at ha
  | cons a as ih =>
    cases s with
    | nil =>
      simp only [matchAtoms, reduceCtorEq, false_iff]
      rintro ⟨m, hm, ha⟩
      cases m with
      | nil => simp [atomsAccept] at ha
      | cons c cs => simp at hm
    | cons c cs =>
      simp only [matchAtoms]
      by_cases h : atomOk a c = true
      · simp only [h, if_true]
        rw [ih cs]
        constructor
        · rintro ⟨m, hm, ha⟩
          exact ⟨c :: m, by simp [hm], by simp [atomsAccept, h, ha]⟩
        · rintro ⟨m, hm, ha⟩
          cases m with
          | nil => simp [atomsAccept] at ha
          | cons d ds =>
            simp only [List.cons_append, List.cons.injEq] at hm
            simp only [atomsAccept, Bool.and_eq_true] at ha
            exact ⟨ds, hm.2, ha.2⟩
      · simp only [h, Bool.false_eq_true, if_false, reduceCtorEq, false_iff]
        rintro ⟨m, hm, ha⟩
        cases m with
        | nil => simp [atomsAccept] at ha
        | cons d ds =>
          simp only [List.cons_append, List.cons.injEq] at hm
          simp only [atomsAccept, Bool.and_eq_true] at ha
          rw [← hm.1] at ha
          exact h ha.1

theorem mem_suffixes (s n : List Char) : s ∈ suffixes n ↔ ∃ pre, n = pre ++ s := by
  induction n with
  | nil =>
    simp only [suffixes, List.mem_singleton]
    constructor
    · rintro rfl; exact ⟨[], rfl⟩
    · rintro ⟨pre, h⟩
      have := congrArg List.length h
      simp at this
      exact List.eq_nil_of_length_eq_zero (by omega)
  | cons c cs ih =>
    simp only [suffixes, List.mem_cons, ih]
    constructor
    · rintro (rfl | ⟨pre, h⟩)
      · exact ⟨[], rfl⟩
      · exact ⟨c :: pre, by simp [h]⟩
    · rintro ⟨pre, h⟩
      cases pre with
      | nil => left; simpa using h.symm
      | cons d ds =>
        right
        simp only [List.cons_append, List.cons.injEq] at h
        exact ⟨ds, h.2⟩

/-- semantics of one alternative under `search`: some substring is accepted by the atoms, at the
    very start if `^`-anchored, up to the very end if `$`-anchored -/
theorem altMatches_iff (aS aE : Bool) (atoms : List (Option Char)) (n : List Char) :
    altMatches (aS, atoms, aE) n = true ↔
      ∃ pre m post, n = pre ++ m ++ post ∧ atomsAccept atoms m = true ∧
        (aS = true → pre = []) ∧ (aE = true → post = []) := by
  unfold altMatches
  simp only [List.any_eq_true]
  constructor
  · rintro ⟨s, hs, hm⟩
    split at hm
    · rename_i rest hrest
      obtain ⟨m, hsm, hacc⟩ := (matchAtoms_iff atoms s rest).mp hrest
      have hpre : ∃ pre, n = pre ++ s ∧ (aS = true → pre = []) := by
        cases aS with
        | true => simp at hs; subst hs; exact ⟨[], rfl, fun _ => rfl⟩
        | false =>
          simp at hs
          obtain ⟨pre, h⟩ := (mem_suffixes s n).mp hs
          exact ⟨pre, h, fun h => by cases h⟩
      obtain ⟨pre, hn, hp⟩ := hpre
      refine ⟨pre, m, rest, by rw [hn, hsm, List.append_assoc], hacc, hp, ?_⟩
      intro he
      subst he
      simpa using hm
    · cases hm
  · rintro ⟨pre, m, post, hn, hacc, hp, he⟩
    refine ⟨m ++ post, ?_, ?_⟩
    · cases aS with
      | true => have := hp rfl; subst this; simp [hn]
      | false =>
        simp only [Bool.false_eq_true, if_false]
        exact (mem_suffixes _ _).mpr ⟨pre, by rw [hn, List.append_assoc]⟩
    · have : matchAtoms atoms (m ++ post) = some post :=
        (matchAtoms_iff atoms (m ++ post) post).mpr ⟨m, rfl, hacc⟩
      rw [this]
      cases aE with
      | true => have := he rfl; subst this; rfl
      | false => rfl

theorem atomsAccept_lits (lits m : List Char) : atomsAccept (lits.map some) m = true ↔ m = lits := by
  induction lits generalizing m with
  | nil => cases m <;> simp [atomsAccept]
  | cons a as ih =>
    cases m with
    | nil => simp [atomsAccept]
    | cons c cs => simp [atomsAccept, atomOk, ih]

/-- `^lits` -/
theorem alt_prefix (lits n : List Char) :
    altMatches (true, lits.map some, false) n = true ↔ lits <+: n := by
  rw [altMatches_iff]
  constructor
  · rintro ⟨pre, m, post, hn, hacc, hp, _⟩
    have := hp rfl; subst this
    rw [(atomsAccept_lits lits m).mp hacc] at hn
    exact ⟨post, by simp [hn]⟩
  · rintro ⟨t, ht⟩
    exact ⟨[], lits, t, by simp [ht], (atomsAccept_lits _ _).mpr rfl, fun _ => rfl, (fun h => by cases h)⟩

/-- `^lits$` -/
theorem alt_exact (lits n : List Char) :
    altMatches (true, lits.map some, true) n = true ↔ n = lits := by
  rw [altMatches_iff]
  constructor
  · rintro ⟨pre, m, post, hn, hacc, hp, he⟩
    have := hp rfl; subst this
    have := he rfl; subst this
    rw [(atomsAccept_lits lits m).mp hacc] at hn
    simpa using hn
  · rintro rfl
    exact ⟨[], n, [], by simp, (atomsAccept_lits _ _).mpr rfl, fun _ => rfl, fun _ => rfl⟩

/-- `lits$` -/
theorem alt_suffix (lits n : List Char) :
    altMatches (false, lits.map some, true) n = true ↔ lits <:+ n := by
  rw [altMatches_iff]
  constructor
  · rintro ⟨pre, m, post, hn, hacc, _, he⟩
    have := he rfl; subst this
    rw [(atomsAccept_lits lits m).mp hacc] at hn
    exact ⟨pre, by simp [hn]⟩
  · rintro ⟨t, ht⟩
    exact ⟨t, lits, [], by simp [ht], (atomsAccept_lits _ _).mpr rfl, (fun h => by cases h), fun _ => rfl⟩

/-- `lits` anywhere -/
theorem alt_infix (lits n : List Char) :
    altMatches (false, lits.map some, false) n = true ↔ lits <:+: n := by
  rw [altMatches_iff]
  constructor
  · rintro ⟨pre, m, post, hn, hacc, _, _⟩
    rw [(atomsAccept_lits lits m).mp hacc] at hn
    exact ⟨pre, post, hn.symm⟩
  · rintro ⟨s, t, ht⟩
    exact ⟨s, lits, t, ht.symm, (atomsAccept_lits _ _).mpr rfl, (fun h => by cases h), (fun h => by cases h)⟩

/-- `lits\d$` -/
theorem alt_suffix_digit (lits n : List Char) :
    altMatches (false, lits.map some ++ [none], true) n = true ↔
      ∃ d, d.isDigit = true ∧ (lits ++ [d]) <:+ n := by
  have hacc : ∀ m, atomsAccept (lits.map some ++ [none]) m = true ↔
      ∃ d, d.isDigit = true ∧ m = lits ++ [d] := by
    intro m
    induction lits generalizing m with
    | nil =>
      cases m with
      | nil => simp [atomsAccept]
      | cons c cs =>
        cases cs with
        | nil => simp [atomsAccept, atomOk]
        | cons d ds => simp [atomsAccept]
    | cons a as ih =>
      cases m with
      | nil => simp [atomsAccept]
      | cons c cs =>
        simp only [List.map_cons, List.cons_append, atomsAccept, atomOk, Bool.and_eq_true, beq_iff_eq,
          ih cs, List.cons.injEq]
        constructor
        · rintro ⟨rfl, d, hd, rfl⟩; exact ⟨d, hd, rfl, rfl⟩
        · rintro ⟨d, hd, rfl, rfl⟩; exact ⟨rfl, d, hd, rfl⟩
  rw [altMatches_iff]
  constructor
  · rintro ⟨pre, m, post, hn, ha, _, he⟩
    have := he rfl; subst this
    obtain ⟨d, hd, rfl⟩ := (hacc m).mp ha
    exact ⟨d, hd, pre, by simp [hn]⟩
  · rintro ⟨d, hd, t, ht⟩
    exact ⟨t, lits ++ [d], [], by simp [ht], (hacc _).mpr ⟨d, hd, rfl⟩, (fun h => by cases h), fun _ => rfl⟩

/-- the rule read from the source, in words: a name is non-canonical iff it is `chrEBV`, starts
    with `NC` or `HLA-`, ends in `_random`, `_alt` or `hap<digit>`, or contains `Un_`, `chrM` or `MT` -/
theorem noncanonical_iff (n : List Char) :
    ruleMatches Generated.NONCANONICAL_RULE n = true ↔
      n = "chrEBV".toList ∨ "NC".toList <+: n ∨ "_random".toList <:+ n ∨ "Un_".toList <:+: n ∨
      "HLA-".toList <+: n ∨ "_alt".toList <:+ n ∨
      (∃ d, d.isDigit = true ∧ ("hap".toList ++ [d]) <:+ n) ∨
      "chrM".toList <:+: n ∨ "MT".toList <:+: n := by
  have e1 := alt_exact "chrEBV".toList n
  have e2 := alt_prefix "NC".toList n
  have e3 := alt_suffix "_random".toList n
  have e4 := alt_infix "Un_".toList n
  have e5 := alt_prefix "HLA-".toList n
  have e6 := alt_suffix "_alt".toList n
  have e7 := alt_suffix_digit "hap".toList n
  have e8 := alt_infix "chrM".toList n
  have e9 := alt_infix "MT".toList n
  have t1 : "chrEBV".toList = ['c', 'h', 'r', 'E', 'B', 'V'] := by decide
  have t2 : "NC".toList = ['N', 'C'] := by decide
  have t3 : "_random".toList = ['_', 'r', 'a', 'n', 'd', 'o', 'm'] := by decide
  have t4 : "Un_".toList = ['U', 'n', '_'] := by decide
  have t5 : "HLA-".toList = ['H', 'L', 'A', '-'] := by decide
  have t6 : "_alt".toList = ['_', 'a', 'l', 't'] := by decide
  have t7 : "hap".toList = ['h', 'a', 'p'] := by decide
  have t8 : "chrM".toList = ['c', 'h', 'r', 'M'] := by decide
  have t9 : "MT".toList = ['M', 'T'] := by decide
  rw [t1] at e1 ⊢; rw [t2] at e2 ⊢; rw [t3] at e3 ⊢; rw [t4] at e4 ⊢; rw [t5] at e5 ⊢
  rw [t6] at e6 ⊢; rw [t7] at e7 ⊢; rw [t8] at e8 ⊢; rw [t9] at e9 ⊢
  simp only [List.map_cons, List.map_nil, List.cons_append, List.nil_append] at e1 e2 e3 e4 e5 e6 e7 e8 e9
  simp only [ruleMatches, Generated.NONCANONICAL_RULE, List.any_cons, List.any_nil, Bool.or_false,
    Bool.or_eq_true, e1, e2, e3, e4, e5, e6, e7, e8, e9]
  simp only [List.cons_append, List.nil_append]

end CnvVerif
