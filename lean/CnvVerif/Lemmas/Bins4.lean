/-
  Lemmas behind Props/C12.lean (fourth part): on tables that live on ONE chromosome the
  table-level model (`doTargetCore`, `getAntitargets`: pandas `groupby` / `sort_values` /
  `searchsorted` plumbing of Model/Interval.lean and Model/Ranges.lean) computes the same bin
  coordinates as the per-chromosome functions `targetChrom` / `antiChrom` the theorems are about.
-/
import CnvVerif.Model.Bins
import CnvVerif.Lemmas.Bins
import CnvVerif.Lemmas.Bins2
import CnvVerif.Lemmas.Bins3
namespace CnvVerif

/-- `merge(bp=0)` of a one-chromosome table of positive-length rows yields the same intervals as
    sorting by (start, end) and merging -/
theorem mergeTable_single_ivOf (c : String) (t : Table) (hc : ∀ r ∈ t, r.chrom = c)
    (hp : ∀ r ∈ t, r.s < r.e) :
    (mergeTable 0 t).map ivOf = (mergeSorted t).map ivOf ∧ ∀ r ∈ mergeTable 0 t, r.chrom = c := by
  sorry

/-- `do_target --split` on a one-chromosome bait table -/
theorem target_single_chrom (c : String) (baits : Table) (avg : Rat) (havg : 0 < avg)
    (hc : ∀ r ∈ baits, r.chrom = c) (hb : ∀ r ∈ baits, r.s ≤ r.e) :
    (doTargetCore baits true avg).map ivOf = (targetChrom avg baits).map ivOf := by
  sorry

/-- `get_antitargets` on one-chromosome tables (`a` = the accessible table it works on) -/
theorem antitarget_single_chrom (c : String) (a tg : Table) (avg : Rat) (havg : 0 < avg) (m : Int)
    (ha : ∀ r ∈ a, r.chrom = c) (ht : ∀ r ∈ tg, r.chrom = c) (hwf : WFTargets tg) :
    (nameAnti (subdivideTable avg m (antiRegions a tg))).map ivOf =
      (antiChrom Generated.ANTI_PAD avg m a tg).map ivOf := by
  sorry

end CnvVerif
