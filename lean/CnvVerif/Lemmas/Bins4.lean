/-
  Lemmas behind Props/C12.lean (fourth part): on tables that live on ONE chromosome the
  table-level model (`doTargetCore`, `getAntitargets`: pandas `groupby` / `sort_values` /
  `searchsorted` plumbing of Model/Interval.lean and Model/Ranges.lean) computes the same bin
  coordinates as the per-chromosome functions `targetChrom` / `antiChrom` the theorems are about.
-/
import CnvVerif.Model.Bins
import CnvVerif.Lemmas.Bins
import CnvVerif.Lemmas.Bins2
import CnvVerif.Lemmas.Bins3
namespace CnvVerif

/-! ### sorting a one-chromosome table -/

theorem mergeSort_congr {α} (le₁ le₂ : α → α → Bool) (l : List α)
    (h : ∀ a ∈ l, ∀ b ∈ l, le₁ a b = le₂ a b) : l.mergeSort le₁ = l.mergeSort le₂ := by
  have := List.map_mergeSort (r := le₁) (s := le₂) (f := id) (l := l) (by simpa using h)
  simpa using this

theorem sortLex_single (c : String) (t : Table) (hc : ∀ r ∈ t, r.chrom = c) :
    sortLex t = sortSE t := by
  unfold sortLex sortSE
  apply mergeSort_congr
  intro a ha b hb
  have h1 := hc a ha
  have h2 := hc b hb
  unfold lexLe seLe
  rw [h1, h2]
  simp [String.lt_irrefl]

theorem resortChrom_single (c : String) (t : Table) (hc : ∀ r ∈ t, r.chrom = c) :
    resortChrom t = t := by
  unfold resortChrom
  apply List.mergeSort_of_pairwise
  rw [List.pairwise_iff_forall_sublist]
  intro a b hab
  have ha : a ∈ t := hab.subset (by simp)
  have hb : b ∈ t := hab.subset (by simp)
  unfold chromOnlyLe chromKeyLe
  rw [hc a ha, hc b hb]
  simp

theorem mergeGo_chrom (bp : Int) (c : String) (cur : Row) (genes : List String) (l : List Row)
    (hcur : cur.chrom = c) (hl : ∀ r ∈ l, r.chrom = c) :
    ∀ r ∈ mergeGo bp cur genes l, r.chrom = c := by
  induction l generalizing cur genes with
  | nil =>
    intro r hr
    simp only [mergeGo, List.mem_singleton] at hr
    subst hr; exact hcur
  | cons x xs ih =>
    unfold mergeGo
    split
    · intro r hr
      rcases List.mem_cons.mp hr with h | h
      · subst h; exact hcur
      · exact ih x [x.gene] (hl x (by simp)) (fun r hr => hl r (by simp [hr])) r h
    · exact ih _ _ hcur (fun r hr => hl r (by simp [hr]))

theorem mergeChrom_chrom (bp : Int) (c : String) (l : List Row) (hl : ∀ r ∈ l, r.chrom = c) :
    ∀ r ∈ mergeChrom bp l, r.chrom = c := by
  cases l with
  | nil => simp [mergeChrom]
  | cons x xs =>
    exact mergeGo_chrom bp c x [x.gene] xs (hl x (by simp)) (fun r hr => hl r (by simp [hr]))

theorem mergeSorted_chrom (c : String) (l : List Row) (hl : ∀ r ∈ l, r.chrom = c) :
    ∀ r ∈ mergeSorted l, r.chrom = c :=
  mergeChrom_chrom 0 c _ (fun r hr => hl r ((mem_sortSE l r).mp hr))

/-- the slow path of `merge` on a non-empty one-chromosome table is `mergeSorted` -/
theorem mergeSlow_single (c : String) (t : Table) (hc : ∀ r ∈ t, r.chrom = c) (hne : t ≠ []) :
    resortChrom ((groupByChrom (sortLex t)).flatMap (fun g => mergeChrom 0 g.2)) = mergeSorted t := by
  rw [sortLex_single c t hc]
  have hs : ∀ r ∈ sortSE t, r.chrom = c := fun r hr => hc r ((mem_sortSE t r).mp hr)
  have hsne : sortSE t ≠ [] := by
    cases t with
    | nil => exact absurd rfl hne
    | cons x xs =>
      intro h
      have : x ∈ sortSE (x :: xs) := (mem_sortSE _ x).mpr (by simp)
      rw [h] at this; simp at this
  have hf : (sortSE t).filter (fun r => r.chrom == c) = sortSE t :=
    List.filter_eq_self.mpr (fun r hr => by simp [hs r hr])
  unfold groupByChrom
  rw [chromsInOrder_const (sortSE t) c hs hsne]
  simp only [List.map_cons, List.map_nil, List.flatMap_cons, List.flatMap_nil, List.append_nil, hf]
  exact resortChrom_single c _ (mergeSorted_chrom c t hc)

/-! ### the fast path: positive gaps w.r.t. the running maximum mean `Canon` -/

theorem gaps_pos (m : Int) (xs : List Row)
    (h : ∀ p ∈ (xs.map (·.s)).zip (m :: cummaxGo m (xs.map (·.e))), p.1 - p.2 > 0) :
    (∀ r ∈ xs, m < r.s) ∧ xs.Pairwise (fun a b => a.e < b.s) := by
  induction xs generalizing m with
  | nil => simp
  | cons y ys ih =>
    simp only [List.map_cons, cummaxGo, List.zip_cons_cons, List.mem_cons, forall_eq_or_imp] at h
    obtain ⟨h1, h2⟩ := h
    obtain ⟨i1, i2⟩ := ih (max m y.e) h2
    refine ⟨?_, List.pairwise_cons.mpr ⟨?_, i2⟩⟩
    · intro r hr
      rcases List.mem_cons.mp hr with h | h
      · subst h; omega
      · have := i1 r h; omega
    · intro r hr
      have := i1 r hr; omega

theorem fast_canon (t : Table) (hp : ∀ r ∈ t, r.s < r.e)
    (h : (gapSizes t).all (fun g => g > -0) = true) : Canon t := by
  refine ⟨hp, ?_⟩
  cases t with
  | nil => simp
  | cons x xs =>
    have hg : ∀ p ∈ (xs.map (·.s)).zip (x.e :: cummaxGo x.e (xs.map (·.e))), p.1 - p.2 > 0 := by
      intro p hp'
      simp only [gapSizes, List.map_cons, List.drop_succ_cons, List.drop_zero, cummax, List.all_map,
        List.all_eq_true, Function.comp_apply, decide_eq_true_eq] at h
      have := h p hp'
      omega
    obtain ⟨g1, g2⟩ := gaps_pos x.e xs hg
    exact List.pairwise_cons.mpr ⟨g1, g2⟩

theorem mergeSorted_nil : mergeSorted [] = [] := by
  simp [mergeSorted, sortSE, mergeChrom]

/-- everything the later steps need about `merge(bp=0)` on a one-chromosome table -/
theorem mergeTable_single_facts (c : String) (t : Table) (hc : ∀ r ∈ t, r.chrom = c)
    (hp : ∀ r ∈ t, r.s < r.e) :
    Canon (mergeTable 0 t) ∧ (∀ p, cov (mergeTable 0 t) p ↔ cov t p) ∧
      ∀ r ∈ mergeTable 0 t, r.chrom = c := by
  unfold mergeTable
  split
  · exact ⟨⟨hp, by
      cases t with
      | nil => simp
      | cons x xs => simp at *⟩, fun _ => Iff.rfl, hc⟩
  · rename_i hne
    split
    · rename_i hfast
      exact ⟨fast_canon t hp hfast, fun _ => Iff.rfl, hc⟩
    · have hne' : t ≠ [] := by
        intro h; subst h; simp at hne
      simp only
      rw [mergeSlow_single c t hc hne']
      exact ⟨mergeSorted_canon t hp, mergeSorted_cov t, mergeSorted_chrom c t hc⟩

/-- `merge(bp=0)` of a one-chromosome table of positive-length rows yields the same intervals as
    sorting by (start, end) and merging -/
theorem mergeTable_single_ivOf (c : String) (t : Table) (hc : ∀ r ∈ t, r.chrom = c)
    (hp : ∀ r ∈ t, r.s < r.e) :
    (mergeTable 0 t).map ivOf = (mergeSorted t).map ivOf ∧ ∀ r ∈ mergeTable 0 t, r.chrom = c := by
  obtain ⟨h1, h2, h3⟩ := mergeTable_single_facts c t hc hp
  refine ⟨canon_unique _ _ h1 (mergeSorted_canon t hp) ?_, h3⟩
  intro p
  rw [h2 p, mergeSorted_cov]

/-! ### coordinates only: rows stripped of chromosome and gene -/

def normRow (r : Row) : Row := { chrom := "", s := r.s, e := r.e, gene := "" }

theorem map_normRow_of_ivOf {l l' : List Row} (h : l.map ivOf = l'.map ivOf) :
    l.map normRow = l'.map normRow := by
  have e : normRow = (fun p : Int × Int => ({ chrom := "", s := p.1, e := p.2, gene := "" } : Row)) ∘ ivOf := by
    funext r; rfl
  rw [e, ← List.map_map, ← List.map_map, h]

theorem splitInto_norm (r : Row) (n : Nat) :
    (splitInto r n).map ivOf = (splitInto (normRow r) n).map ivOf := by
  simp only [splitInto, List.map_map]
  apply List.map_congr_left
  intro i _
  rfl

theorem splitRow_norm (avg : Rat) (m : Int) (r : Row) :
    (splitRow avg m r).map ivOf = (splitRow avg m (normRow r)).map ivOf := by
  have e1 : (normRow r).s = r.s := rfl
  have e2 : (normRow r).e = r.e := rfl
  unfold splitRow
  simp only [e1, e2]
  by_cases h : r.e - r.s ≥ m
  · simp only [h, if_true]
    generalize (if (roundHalfEven (((r.e - r.s : Int) : Rat) / avg) == 0) = true then 1
      else (roundHalfEven (((r.e - r.s : Int) : Rat) / avg)).toNat) = n
    by_cases h2 : (n == 1) = true
    · simp only [h2, if_true]; rfl
    · simp only [h2]; exact splitInto_norm r n
  · simp only [h, if_false]

theorem flatMap_splitRow_norm (avg : Rat) (m : Int) (l : List Row) :
    (l.flatMap (splitRow avg m)).map ivOf = ((l.map normRow).flatMap (splitRow avg m)).map ivOf := by
  induction l with
  | nil => rfl
  | cons x xs ih =>
    simp only [List.flatMap_cons, List.map_append, List.map_cons, ih, splitRow_norm avg m x]

theorem flatMap_splitRow_congr (avg : Rat) (m : Int) (l l' : List Row) (h : l.map ivOf = l'.map ivOf) :
    (l.flatMap (splitRow avg m)).map ivOf = (l'.flatMap (splitRow avg m)).map ivOf := by
  rw [flatMap_splitRow_norm avg m l, flatMap_splitRow_norm avg m l', map_normRow_of_ivOf h]

/-- `subdivide` on a one-chromosome table of positive rows -/
theorem subdivide_single (c : String) (t : Table) (avg : Rat) (m : Int) (hc : ∀ r ∈ t, r.chrom = c)
    (hp : ∀ r ∈ t, r.s < r.e) :
    (subdivideTable avg m t).map ivOf = ((mergeSorted t).flatMap (splitRow avg m)).map ivOf :=
  flatMap_splitRow_congr avg m _ _ (mergeTable_single_ivOf c t hc hp).1

/-- `do_target --split` on a one-chromosome bait table -/
theorem target_single_chrom (c : String) (baits : Table) (avg : Rat)
    (hc : ∀ r ∈ baits, r.chrom = c) (hb : ∀ r ∈ baits, r.s ≤ r.e) :
    (doTargetCore baits true avg).map ivOf = (targetChrom avg baits).map ivOf := by
  unfold doTargetCore targetChrom
  simp only [if_true]
  exact subdivide_single c _ avg _ (fun r hr => hc r (List.mem_filter.mp hr).1)
    (nonempty_baits_pos baits hb)

/-! ### subtraction sees only the coordinates of the excluded rows -/

theorem subtractRow_norm (k : Row) (ex : List Row) :
    subtractRow k ex = subtractRow k (ex.map normRow) := by
  cases ex with
  | nil => rfl
  | cons f t =>
    have hl : ((f :: t).getLast?.getD f).e = (((f :: t).map normRow).getLast?.getD (normRow f)).e := by
      rw [List.getLast?_map]
      cases (f :: t).getLast? <;> rfl
    have hs : (f :: t).map (·.s) = ((f :: t).map normRow).map (·.s) := by
      rw [List.map_map]; rfl
    have he : (f :: t).map (·.e) = ((f :: t).map normRow).map (·.e) := by
      rw [List.map_map]; rfl
    have hlen : (f :: t).length = ((f :: t).map normRow).length := by simp
    have hfs : f.s = (normRow f).s := rfl
    simp only [subtractRow, List.map_cons] at *
    rw [hl, hs, he, hlen, hfs]

theorem subtractRow_congr (k : Row) (ex ex' : List Row) (h : ex.map ivOf = ex'.map ivOf) :
    subtractRow k ex = subtractRow k ex' := by
  rw [subtractRow_norm k ex, subtractRow_norm k ex', map_normRow_of_ivOf h]

theorem overlapping_norm (k : Row) (b : List Row) :
    (overlapping k b).map normRow = overlapping k (b.map normRow) := by
  unfold overlapping
  rw [List.filter_map]
  rfl

theorem overlapping_congr (k : Row) (b b' : List Row) (h : b.map ivOf = b'.map ivOf) :
    (overlapping k b).map ivOf = (overlapping k b').map ivOf := by
  have e : ivOf = ivOf ∘ normRow := by funext r; rfl
  rw [e, ← List.map_map, ← List.map_map, overlapping_norm, overlapping_norm, map_normRow_of_ivOf h]

/-! ### `resize_ranges` without chromosome sizes -/

theorem resize_shrink (pad : Int) (hpad : 0 < pad) (a : Table) :
    resizeTable (-1 * pad) noSizes a = shrinkRows pad a := by
  unfold resizeTable shrinkRows
  simp only [noSizes, clipInt]
  rw [if_pos (by omega)]
  congr 1
  apply List.map_congr_left
  intro r _
  have e1 : r.s - -1 * pad = r.s + pad := by omega
  have e2 : r.e + -1 * pad = r.e - pad := by omega
  rw [e1, e2]

theorem resize_grow (pad : Int) (hpad : 0 < pad) (tg : Table) :
    resizeTable (1 * pad) noSizes tg = growRows pad tg := by
  unfold resizeTable growRows
  simp only [noSizes, clipInt]
  rw [if_neg (by omega)]
  apply List.map_congr_left
  intro r _
  have e1 : r.s - 1 * pad = r.s - pad := by omega
  have e2 : r.e + 1 * pad = r.e + pad := by omega
  rw [e1, e2]

/-! ### `subtract` on one-chromosome tables -/

theorem canon_startSorted (l : List Row) (h : Canon l) : StartSorted l := by
  obtain ⟨hp, hpw⟩ := h
  induction l with
  | nil => exact List.Pairwise.nil
  | cons x xs ih =>
    obtain ⟨h1, h2⟩ := List.pairwise_cons.mp hpw
    refine List.pairwise_cons.mpr ⟨?_, ih (fun r hr => hp r (by simp [hr])) h2⟩
    intro b hb
    have := h1 b hb
    have := hp x (by simp)
    omega

theorem flatMap_congr_mem {α β} (l : List α) (f g : α → List β) (h : ∀ a ∈ l, f a = g a) :
    l.flatMap f = l.flatMap g := by
  induction l with
  | nil => rfl
  | cons x xs ih =>
    rw [List.flatMap_cons, List.flatMap_cons, h x (by simp), ih (fun a ha => h a (by simp [ha]))]

theorem subtract_single (c : String) (A T : Table) (hA : ∀ r ∈ A, r.chrom = c)
    (hT : ∀ r ∈ T, r.chrom = c) (hApos : ∀ k ∈ A, 0 ≤ k.s)
    (hTpos : ∀ r ∈ T, 0 ≤ r.s ∧ r.s < r.e) :
    subtractTable A T = A.flatMap (fun k => subtractRow k (overlapping k (mergeSorted T))) := by
  unfold subtractTable
  split
  · rename_i he
    have : T = [] := by simpa using he
    subst this
    simp [mergeSorted_nil, overlapping, subtractRow]
  · rename_i he
    have hTne : T ≠ [] := by
      intro h; subst h; simp at he
    by_cases hAe : A = []
    · subst hAe
      simp [byRangesDf, bySharedChroms, chromsInOrder, groupByChrom]
    · obtain ⟨hcan, hcov, hchr⟩ := mergeTable_single_facts c T hT (fun r hr => (hTpos r hr).2)
      have hiv := (mergeTable_single_ivOf c T hT (fun r hr => (hTpos r hr).2)).1
      have hne : mergeTable 0 T ≠ [] := by
        cases T with
        | nil => exact absurd rfl hTne
        | cons x xs =>
          intro h
          have hx := hTpos x (by simp)
          have : cov (x :: xs) x.s := ⟨x, by simp, Int.le_refl _, hx.2⟩
          have := (hcov x.s).mpr this
          rw [h] at this
          exact (cov_nil _).mp this
      have hwf : WFTable (mergeTable 0 T) := by
        refine ⟨canon_startSorted _ hcan, ?_⟩
        intro r hr
        have hpos := hcan.1 r hr
        refine ⟨?_, hpos⟩
        have : cov (mergeTable 0 T) r.s := ⟨r, hr, Int.le_refl _, hpos⟩
        obtain ⟨q, hq, h1, _⟩ := (hcov r.s).mp this
        have := (hTpos q hq).1
        omega
      simp only
      rw [byRangesDf_single c (mergeTable 0 T) A hchr hA hne hAe .outer true]
      rw [List.flatMap_map]
      apply flatMap_congr_mem
      intro k hk
      simp only
      rw [selectRange_outer _ hwf k.s k.e (hApos k hk)]
      apply subtractRow_congr
      exact overlapping_congr k _ _ hiv

theorem antiRegions_single (c : String) (a tg : Table)
    (ha : ∀ r ∈ a, r.chrom = c) (ht : ∀ r ∈ tg, r.chrom = c) (hwf : WFTargets tg) :
    antiRegions a tg = antiRegionsChrom Generated.ANTI_PAD a tg := by
  have hpad : (0 : Int) < Generated.ANTI_PAD := by decide
  unfold antiRegions antiRegionsChrom
  have e1 : Generated.ANTI_ACCESS_RESIZE_SIGN = -1 := rfl
  have e2 : Generated.ANTI_TARGET_RESIZE_SIGN = 1 := rfl
  rw [e1, e2, resize_shrink _ hpad, resize_grow _ hpad]
  apply subtract_single c
  · intro r hr
    simp only [shrinkRows, List.mem_filter, List.mem_map] at hr
    obtain ⟨⟨q, hq, rfl⟩, _⟩ := hr
    exact ha q hq
  · intro r hr
    simp only [growRows, List.mem_map] at hr
    obtain ⟨q, hq, rfl⟩ := hr
    exact ht q hq
  · intro k hk
    exact (shrinkRows_pos _ a k hk).1
  · intro r hr
    refine ⟨?_, growRows_pos _ hpad tg hwf r hr⟩
    simp only [growRows, List.mem_map] at hr
    obtain ⟨q, hq, rfl⟩ := hr
    show 0 ≤ max 0 (q.s - Generated.ANTI_PAD)
    omega

theorem antiRegionsChrom_chrom (c : String) (pad : Int) (a tg : Table) (ha : ∀ r ∈ a, r.chrom = c) :
    ∀ r ∈ antiRegionsChrom pad a tg, r.chrom = c := by
  intro r hr
  simp only [antiRegionsChrom, List.mem_flatMap] at hr
  obtain ⟨k, hk, hr⟩ := hr
  have hkc : k.chrom = c := by
    simp only [shrinkRows, List.mem_filter, List.mem_map] at hk
    obtain ⟨⟨q, hq, rfl⟩, _⟩ := hk
    exact ha q hq
  rcases subtractRow_carry k _ r hr with h | h
  · rw [h.1, hkc]
  · rw [h, hkc]

theorem nameAnti_ivOf (t : Table) : (nameAnti t).map ivOf = t.map ivOf := by
  unfold nameAnti
  rw [List.map_map]
  rfl

/-- `get_antitargets` on one-chromosome tables (`a` = the accessible table it works on) -/
theorem antitarget_single_chrom (c : String) (a tg : Table) (avg : Rat) (m : Int)
    (ha : ∀ r ∈ a, r.chrom = c) (ht : ∀ r ∈ tg, r.chrom = c) (hwf : WFTargets tg) :
    (nameAnti (subdivideTable avg m (antiRegions a tg))).map ivOf =
      (antiChrom Generated.ANTI_PAD avg m a tg).map ivOf := by
  rw [antiRegions_single c a tg ha ht hwf]
  unfold antiChrom
  rw [nameAnti_ivOf, nameAnti_ivOf]
  exact subdivide_single c _ avg m (antiRegionsChrom_chrom c _ a tg ha)
    (antiRegionsChrom_pos _ a tg)
end CnvVerif
