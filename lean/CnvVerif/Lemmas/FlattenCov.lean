import CnvVerif.Model.Interval
import CnvVerif.Model.IntervalSpec
import CnvVerif.Lemmas.Interval
namespace CnvVerif

/-- the flattened rows of one chromosome (`_flatten_overlapping` on rows sorted by start): -/
def flattenChrom (l : List Row) : List Row := (overlapGroups l).flatMap flattenGroup

/-! ### `sortDedupInts`: same members, strictly increasing -/

theorem fc_mem_sortDedupInts (l : List Int) (x : Int) : x ∈ sortDedupInts l ↔ x ∈ l := by
  unfold sortDedupInts
  rw [List.mem_eraseDups, List.mem_mergeSort]

theorem fc_eraseDups_strict (n : Nat) :
    ∀ l : List Int, l.length ≤ n → l.Pairwise (fun a b => a ≤ b) →
      l.eraseDups.Pairwise (fun a b => a < b) := by
  induction n with
  | zero =>
    intro l hl _
    have : l = [] := List.length_eq_zero_iff.mp (by omega)
    subst this
    simp
  | succ n ih =>
    intro l hl hs
    cases l with
    | nil => simp
    | cons a t =>
      rw [List.eraseDups_cons]
      obtain ⟨ha, ht⟩ := List.pairwise_cons.mp hs
      refine List.pairwise_cons.mpr ⟨?_, ih _ ?_ (ht.filter _)⟩
      · intro b hb
        rw [List.mem_eraseDups, List.mem_filter] at hb
        have h1 := ha b hb.1
        have hne : b ≠ a := by simpa using hb.2
        omega
      · have h1 := List.length_filter_le (fun b => !b == a) t
        have h2 : t.length + 1 ≤ n + 1 := by simpa using hl
        omega

theorem fc_sortDedupInts_strict (l : List Int) : (sortDedupInts l).Pairwise (fun a b => a < b) := by
  unfold sortDedupInts
  apply fc_eraseDups_strict _ _ (Nat.le_refl _)
  have h := List.pairwise_mergeSort (le := fun (a b : Int) => decide (a ≤ b))
    (by intro a b c h1 h2; simp at h1 h2 ⊢; omega)
    (by intro a b; simp; omega) l
  exact h.imp (by intro a b h; simpa using h)

/-! ### pieces between consecutive breaks -/

theorem fc_zip_drop_cons2 (x y : Int) (rest : List Int) :
    (x :: y :: rest).zip ((x :: y :: rest).drop 1) = (x, y) :: (y :: rest).zip ((y :: rest).drop 1) := rfl

/-- consecutive, strictly increasing breaks tile `[min, max)` -/
theorem fc_pieces_cov (f : Int × Int → Row) (hf : ∀ q, (f q).s = q.1 ∧ (f q).e = q.2)
    (b : List Int) (hb : b.Pairwise (fun a b => a < b)) (p : Int) :
    cov ((b.zip (b.drop 1)).map f) p ↔ (∃ u ∈ b, u ≤ p) ∧ (∃ v ∈ b, p < v) := by
  induction b with
  | nil => simp [cov]
  | cons x t ih =>
    cases t with
    | nil =>
      simp only [cov, List.drop_one, List.tail_cons, List.zip_nil_right, List.map_nil, List.not_mem_nil,
        false_and, exists_false, List.mem_singleton, exists_eq_left, false_iff]
      omega
    | cons y rest =>
      obtain ⟨hx, ht⟩ := List.pairwise_cons.mp hb
      have hxy := hx y (by simp)
      obtain ⟨hy, _⟩ := List.pairwise_cons.mp ht
      rw [fc_zip_drop_cons2, List.map_cons, cov_cons, ih ht, (hf _).1, (hf _).2]
      constructor
      · rintro (⟨h1, h2⟩ | ⟨⟨u, hu, hup⟩, ⟨v, hv, hvp⟩⟩)
        · exact ⟨⟨x, by simp, h1⟩, ⟨y, by simp, h2⟩⟩
        · exact ⟨⟨u, List.mem_cons_of_mem _ hu, hup⟩, ⟨v, List.mem_cons_of_mem _ hv, hvp⟩⟩
      · rintro ⟨⟨u, hu, hup⟩, ⟨v, hv, hvp⟩⟩
        have hv' : v ∈ y :: rest := by
          rcases List.mem_cons.mp hv with h | h
          · exfalso
            subst h
            rcases List.mem_cons.mp hu with h' | h'
            · omega
            · have := hx u h'; omega
          · exact h
        by_cases hyp : y ≤ p
        · right; exact ⟨⟨y, by simp, hyp⟩, ⟨v, hv', hvp⟩⟩
        · left
          rcases List.mem_cons.mp hu with h | h
          · subst h; exact ⟨hup, by omega⟩
          · exfalso
            rcases List.mem_cons.mp h with h' | h'
            · omega
            · have := hy u h'; omega

/-- a piece runs between two consecutive breaks: nothing lies strictly inside it -/
theorem fc_pieces_mem (f : Int × Int → Row) (hf : ∀ q, (f q).s = q.1 ∧ (f q).e = q.2)
    (b : List Int) (hb : b.Pairwise (fun a b => a < b)) (z : Row)
    (hz : z ∈ (b.zip (b.drop 1)).map f) :
    z.s ∈ b ∧ z.e ∈ b ∧ z.s < z.e ∧ ∀ u ∈ b, u ≤ z.s ∨ z.e ≤ u := by
  induction b with
  | nil => simp at hz
  | cons x t ih =>
    cases t with
    | nil => simp at hz
    | cons y rest =>
      obtain ⟨hx, ht⟩ := List.pairwise_cons.mp hb
      have hxy := hx y (by simp)
      obtain ⟨hy, _⟩ := List.pairwise_cons.mp ht
      rw [fc_zip_drop_cons2, List.map_cons] at hz
      rcases List.mem_cons.mp hz with h | h
      · subst h
        rw [(hf _).1, (hf _).2]
        refine ⟨by simp, by simp, hxy, ?_⟩
        intro u hu
        rcases List.mem_cons.mp hu with h | h
        · left; show u ≤ x; omega
        · right
          show y ≤ u
          rcases List.mem_cons.mp h with h' | h'
          · omega
          · have := hy u h'; omega
      · obtain ⟨h1, h2, h3, h4⟩ := ih ht h
        refine ⟨List.mem_cons_of_mem _ h1, List.mem_cons_of_mem _ h2, h3, ?_⟩
        intro u hu
        rcases List.mem_cons.mp hu with h' | h'
        · left
          subst h'
          rcases List.mem_cons.mp h1 with h'' | h''
          · omega
          · have := hy _ h''; omega
        · exact h4 u h'

theorem fc_pieces_pairwise (f : Int × Int → Row) (hf : ∀ q, (f q).s = q.1 ∧ (f q).e = q.2)
    (b : List Int) (hb : b.Pairwise (fun a b => a < b)) :
    ((b.zip (b.drop 1)).map f).Pairwise (fun a c => a.e ≤ c.s) := by
  induction b with
  | nil => simp
  | cons x t ih =>
    cases t with
    | nil => simp
    | cons y rest =>
      obtain ⟨hx, ht⟩ := List.pairwise_cons.mp hb
      obtain ⟨hy, _⟩ := List.pairwise_cons.mp ht
      rw [fc_zip_drop_cons2, List.map_cons]
      refine List.pairwise_cons.mpr ⟨?_, ih ht⟩
      intro z hz
      obtain ⟨h1, _, _, _⟩ := fc_pieces_mem f hf _ ht z hz
      rw [(hf _).2]
      show y ≤ z.s
      rcases List.mem_cons.mp h1 with h' | h'
      · omega
      · have := hy _ h'; omega

/-! ### one group -/

def fcBreaks (g : List Row) : List Int := sortDedupInts (g.flatMap (fun r => [r.s, r.e]))

theorem fc_mem_breaks (g : List Row) (u : Int) : u ∈ fcBreaks g ↔ ∃ r ∈ g, u = r.s ∨ u = r.e := by
  unfold fcBreaks
  rw [fc_mem_sortDedupInts, List.mem_flatMap]
  simp

theorem fc_breaks_strict (g : List Row) : (fcBreaks g).Pairwise (fun a b => a < b) :=
  fc_sortDedupInts_strict _

theorem fc_flattenGroup_cases (g : List Row) :
    (g = [] ∧ flattenGroup g = []) ∨ (∃ r, g = [r] ∧ flattenGroup g = [r]) ∨
    ∃ f : Int × Int → Row, (∀ q, (f q).s = q.1 ∧ (f q).e = q.2) ∧
      flattenGroup g = ((fcBreaks g).zip ((fcBreaks g).drop 1)).map f := by
  unfold flattenGroup
  split
  · left; exact ⟨rfl, rfl⟩
  · right; left; exact ⟨_, rfl, rfl⟩
  · right; right
    exact ⟨_, fun ⟨a, b⟩ => ⟨rfl, rfl⟩, rfl⟩

/-- the union of the rows of `g` is an interval -/
def FcConn (g : List Row) : Prop :=
  ∀ p, (∃ r ∈ g, r.s ≤ p) → (∃ r ∈ g, p < r.e) → cov g p

/-- every row of `g` ends before every row of `h` starts -/
def FcBefore (g h : List Row) : Prop := ∀ a ∈ g, ∀ b ∈ h, a.e < b.s

theorem fc_flattenGroup_mem (g : List Row) (hwf : ∀ r ∈ g, r.s < r.e) (z : Row)
    (hz : z ∈ flattenGroup g) :
    (∃ a ∈ g, a.s ≤ z.s) ∧ (∃ a ∈ g, z.e ≤ a.e) ∧ z.s < z.e ∧
    ∀ r ∈ g, (r.s ≤ z.s ∨ z.e ≤ r.s) ∧ (r.e ≤ z.s ∨ z.e ≤ r.e) := by
  rcases fc_flattenGroup_cases g with ⟨_, h⟩ | ⟨r, hg, h⟩ | ⟨f, hf, h⟩
  · rw [h] at hz; simp at hz
  · rw [h] at hz
    have hzr : z = r := by simpa using hz
    subst hzr
    subst hg
    have := hwf z (by simp)
    refine ⟨⟨z, by simp, Int.le_refl _⟩, ⟨z, by simp, Int.le_refl _⟩, this, ?_⟩
    intro r hr
    have : r = z := by simpa using hr
    subst this
    exact ⟨Or.inl (Int.le_refl _), Or.inr (Int.le_refl _)⟩
  · rw [h] at hz
    obtain ⟨h1, h2, h3, h4⟩ := fc_pieces_mem f hf _ (fc_breaks_strict g) z hz
    obtain ⟨a, ha, hsa⟩ := (fc_mem_breaks g _).mp h1
    obtain ⟨c, hc, hec⟩ := (fc_mem_breaks g _).mp h2
    have hawf := hwf a ha
    have hcwf := hwf c hc
    refine ⟨⟨a, ha, by omega⟩, ⟨c, hc, by omega⟩, h3, ?_⟩
    intro r hr
    exact ⟨h4 r.s ((fc_mem_breaks g _).mpr ⟨r, hr, Or.inl rfl⟩),
      h4 r.e ((fc_mem_breaks g _).mpr ⟨r, hr, Or.inr rfl⟩)⟩

theorem fc_flattenGroup_pairwise (g : List Row) :
    (flattenGroup g).Pairwise (fun a c => a.e ≤ c.s) := by
  rcases fc_flattenGroup_cases g with ⟨_, h⟩ | ⟨r, _, h⟩ | ⟨f, hf, h⟩
  · rw [h]; simp
  · rw [h]; simp
  · rw [h]; exact fc_pieces_pairwise f hf _ (fc_breaks_strict g)

theorem fc_flattenGroup_cov (g : List Row) (hwf : ∀ r ∈ g, r.s < r.e) (hc : FcConn g) (p : Int) :
    cov (flattenGroup g) p ↔ cov g p := by
  rcases fc_flattenGroup_cases g with ⟨hg, h⟩ | ⟨r, hg, h⟩ | ⟨f, hf, h⟩
  · rw [h, hg]
  · rw [h, hg]
  · rw [h, fc_pieces_cov f hf _ (fc_breaks_strict g)]
    constructor
    · rintro ⟨⟨u, hu, hup⟩, ⟨v, hv, hvp⟩⟩
      obtain ⟨a, ha, hua⟩ := (fc_mem_breaks g _).mp hu
      obtain ⟨c, hcm, hvc⟩ := (fc_mem_breaks g _).mp hv
      have hawf := hwf a ha
      have hcwf := hwf c hcm
      exact hc p ⟨a, ha, by omega⟩ ⟨c, hcm, by omega⟩
    · rintro ⟨r, hr, h1, h2⟩
      exact ⟨⟨r.s, (fc_mem_breaks g _).mpr ⟨r, hr, Or.inl rfl⟩, h1⟩,
        ⟨r.e, (fc_mem_breaks g _).mpr ⟨r, hr, Or.inr rfl⟩, h2⟩⟩

/-! ### the grouping walk -/

theorem fc_conn_congr (g h : List Row) (hm : ∀ r, r ∈ g ↔ r ∈ h) (hc : FcConn h) : FcConn g := by
  intro p ⟨r, hr, h1⟩ ⟨r', hr', h2⟩
  obtain ⟨c, hcm, h3⟩ := hc p ⟨r, (hm r).mp hr, h1⟩ ⟨r', (hm r').mp hr', h2⟩
  exact ⟨c, (hm c).mpr hcm, h3⟩

theorem fc_conn_singleton (x : Row) : FcConn [x] := by
  intro p ⟨r, hr, h1⟩ ⟨r', hr', h2⟩
  have e1 : r = x := by simpa using hr
  have e2 : r' = x := by simpa using hr'
  rw [e1] at h1; rw [e2] at h2
  exact ⟨x, by simp, h1, h2⟩

theorem fc_go_spec (xs : List Row) :
    ∀ (cur : List Row) (mx : Int), cur ≠ [] → (∀ r ∈ cur, r.e ≤ mx) → (∃ r ∈ cur, mx ≤ r.e) →
      FcConn cur → (∀ r ∈ cur, ∀ x ∈ xs, r.s ≤ x.s) → xs.Pairwise (fun a b => a.s ≤ b.s) →
      (∀ r, (∃ g ∈ overlapGroupsGo cur mx xs, r ∈ g) ↔ r ∈ cur ∨ r ∈ xs) ∧
      (∀ g ∈ overlapGroupsGo cur mx xs, FcConn g) ∧
      (overlapGroupsGo cur mx xs).Pairwise FcBefore := by
  induction xs with
  | nil =>
    intro cur mx _ _ _ hc _ _
    refine ⟨?_, ?_, ?_⟩
    · intro r; simp [overlapGroupsGo]
    · intro g hg
      have : g = cur.reverse := by simpa [overlapGroupsGo] using hg
      subst this
      exact fc_conn_congr _ _ (fun r => List.mem_reverse) hc
    · simp [overlapGroupsGo]
  | cons x xs ih =>
    intro cur mx hne hmx1 hmx2 hc hle hs
    obtain ⟨hxle, hs'⟩ := List.pairwise_cons.mp hs
    unfold overlapGroupsGo
    split
    · rename_i hgap
      have hcx : FcConn [x] := fc_conn_singleton x
      obtain ⟨im, ic, ip⟩ := ih [x] x.e (by simp)
        (by intro r hr; have : r = x := by simpa using hr
            subst this; exact Int.le_refl _)
        ⟨x, by simp, Int.le_refl _⟩ hcx
        (by intro r hr y hy; have : r = x := by simpa using hr
            subst this; exact hxle y hy)
        hs'
      refine ⟨?_, ?_, ?_⟩
      · intro r
        constructor
        · rintro ⟨g, hg, hrg⟩
          rcases List.mem_cons.mp hg with h | h
          · subst h; left; exact List.mem_reverse.mp hrg
          · rcases (im r).mp ⟨g, h, hrg⟩ with h' | h'
            · right; have : r = x := by simpa using h'
              subst this; simp
            · right; exact List.mem_cons_of_mem _ h'
        · rintro (h | h)
          · exact ⟨cur.reverse, by simp, List.mem_reverse.mpr h⟩
          · have : r ∈ [x] ∨ r ∈ xs := by
              rcases List.mem_cons.mp h with h' | h'
              · left; simp [h']
              · right; exact h'
            obtain ⟨g, hg, hrg⟩ := (im r).mpr this
            exact ⟨g, List.mem_cons_of_mem _ hg, hrg⟩
      · intro g hg
        rcases List.mem_cons.mp hg with h | h
        · subst h
          exact fc_conn_congr _ _ (fun r => List.mem_reverse) hc
        · exact ic g h
      · refine List.pairwise_cons.mpr ⟨?_, ip⟩
        intro h hh a ha b hb
        have ha' := hmx1 a (List.mem_reverse.mp ha)
        have hb' : x.s ≤ b.s := by
          rcases (im b).mp ⟨h, hh, hb⟩ with h' | h'
          · have : b = x := by simpa using h'
            subst this; exact Int.le_refl _
          · exact hxle b h'
        omega
    · rename_i hgap
      obtain ⟨c0, hc0⟩ := List.exists_mem_of_ne_nil cur hne
      have hconn : FcConn (x :: cur) := by
        intro p ⟨r, hr, h1⟩ ⟨r', hr', h2⟩
        have hcur : cov cur p → cov (x :: cur) p := fun h => (cov_cons x cur p).mpr (Or.inr h)
        by_cases hxp : x.s ≤ p
        · by_cases hpe : p < x.e
          · exact (cov_cons x cur p).mpr (Or.inl ⟨hxp, hpe⟩)
          · apply hcur
            have h0 := hle c0 hc0 x (by simp)
            refine hc p ⟨c0, hc0, by omega⟩ ?_
            rcases List.mem_cons.mp hr' with h | h
            · subst h; omega
            · exact ⟨r', h, h2⟩
        · apply hcur
          obtain ⟨m, hm, hmm⟩ := hmx2
          refine hc p ?_ ⟨m, hm, by omega⟩
          rcases List.mem_cons.mp hr with h | h
          · subst h; omega
          · exact ⟨r, h, h1⟩
      obtain ⟨im, ic, ip⟩ := ih (x :: cur) (max mx x.e) (by simp)
        (by intro r hr
            rcases List.mem_cons.mp hr with h | h
            · subst h; omega
            · have := hmx1 r h; omega)
        (by obtain ⟨m, hm, hmm⟩ := hmx2
            by_cases h : mx ≤ x.e
            · exact ⟨x, by simp, by omega⟩
            · exact ⟨m, List.mem_cons_of_mem _ hm, by omega⟩)
        hconn
        (by intro r hr y hy
            rcases List.mem_cons.mp hr with h | h
            · subst h; exact hxle y hy
            · exact hle r h y (List.mem_cons_of_mem _ hy))
        hs'
      refine ⟨?_, ic, ip⟩
      intro r
      rw [im r]
      simp only [List.mem_cons]
      constructor
      · rintro ((h | h) | h)
        · right; left; exact h
        · left; exact h
        · right; right; exact h
      · rintro (h | h | h)
        · left; right; exact h
        · left; left; exact h
        · right; exact h

theorem fc_groups_spec (l : List Row) (hs : l.Pairwise (fun a b => a.s ≤ b.s)) :
    (∀ r, (∃ g ∈ overlapGroups l, r ∈ g) ↔ r ∈ l) ∧
    (∀ g ∈ overlapGroups l, FcConn g) ∧
    (overlapGroups l).Pairwise FcBefore := by
  cases l with
  | nil => simp [overlapGroups]
  | cons x xs =>
    obtain ⟨hxle, hs'⟩ := List.pairwise_cons.mp hs
    have hcx : FcConn [x] := fc_conn_singleton x
    obtain ⟨im, ic, ip⟩ := fc_go_spec xs [x] x.e (by simp)
      (by intro r hr; have : r = x := by simpa using hr
          subst this; exact Int.le_refl _)
      ⟨x, by simp, Int.le_refl _⟩ hcx
      (by intro r hr y hy; have : r = x := by simpa using hr
          subst this; exact hxle y hy)
      hs'
    refine ⟨?_, ic, ip⟩
    intro r
    show (∃ g ∈ overlapGroupsGo [x] x.e xs, r ∈ g) ↔ _
    rw [im r]
    simp

theorem fc_pairwise_mem {α} (R : α → α → Prop) (l : List α) (h : l.Pairwise R) (a b : α)
    (ha : a ∈ l) (hb : b ∈ l) : a = b ∨ R a b ∨ R b a := by
  induction l with
  | nil => simp at ha
  | cons x t ih =>
    obtain ⟨hx, ht⟩ := List.pairwise_cons.mp h
    rcases List.mem_cons.mp ha with h1 | h1 <;> rcases List.mem_cons.mp hb with h2 | h2
    · left; rw [h1, h2]
    · right; left; rw [h1]; exact hx b h2
    · right; right; rw [h2]; exact hx a h1
    · exact ih ht h1 h2

/-! ### the three theorems -/

/-- flatten covers exactly the union of its input … -/
theorem flattenChrom_cov (l : List Row) (hs : l.Pairwise (fun a b => a.s ≤ b.s)) (hwf : ∀ r ∈ l, r.s < r.e)
    (p : Int) : cov (flattenChrom l) p ↔ cov l p := by
  obtain ⟨im, ic, _⟩ := fc_groups_spec l hs
  have hgwf : ∀ g ∈ overlapGroups l, ∀ r ∈ g, r.s < r.e :=
    fun g hg r hr => hwf r ((im r).mp ⟨g, hg, hr⟩)
  unfold flattenChrom
  constructor
  · rintro ⟨z, hz, h1, h2⟩
    obtain ⟨g, hg, hzg⟩ := List.mem_flatMap.mp hz
    obtain ⟨r, hr, h3⟩ := (fc_flattenGroup_cov g (hgwf g hg) (ic g hg) p).mp ⟨z, hzg, h1, h2⟩
    exact ⟨r, (im r).mp ⟨g, hg, hr⟩, h3⟩
  · rintro ⟨r, hr, h3⟩
    obtain ⟨g, hg, hrg⟩ := (im r).mpr hr
    obtain ⟨z, hzg, h4⟩ := (fc_flattenGroup_cov g (hgwf g hg) (ic g hg) p).mpr ⟨r, hrg, h3⟩
    exact ⟨z, List.mem_flatMap.mpr ⟨g, hg, hzg⟩, h4⟩

/-- … with pieces of positive length that are pairwise disjoint and in order … -/
theorem flattenChrom_disjoint (l : List Row) (hs : l.Pairwise (fun a b => a.s ≤ b.s)) (hwf : ∀ r ∈ l, r.s < r.e) :
    (∀ x ∈ flattenChrom l, x.s < x.e) ∧ (flattenChrom l).Pairwise (fun a b => a.e ≤ b.s) := by
  obtain ⟨im, _, ip⟩ := fc_groups_spec l hs
  have hgwf : ∀ g ∈ overlapGroups l, ∀ r ∈ g, r.s < r.e :=
    fun g hg r hr => hwf r ((im r).mp ⟨g, hg, hr⟩)
  unfold flattenChrom
  constructor
  · intro z hz
    obtain ⟨g, hg, hzg⟩ := List.mem_flatMap.mp hz
    exact (fc_flattenGroup_mem g (hgwf g hg) z hzg).2.2.1
  · rw [List.pairwise_flatMap]
    refine ⟨fun g _ => fc_flattenGroup_pairwise g, ?_⟩
    refine List.Pairwise.imp_of_mem ?_ ip
    intro g h hg hh hb z hz w hw
    obtain ⟨_, ⟨a, ha, h1⟩, _, _⟩ := fc_flattenGroup_mem g (hgwf g hg) z hz
    obtain ⟨⟨c, hc, h2⟩, _, _, _⟩ := fc_flattenGroup_mem h (hgwf h hh) w hw
    have := hb a ha c hc
    omega

/-- … and cut at every input boundary: no piece has an input start or end strictly inside it.  (A run that
    consists of a single row -- nothing overlaps or abuts it -- is passed through unchanged.) -/
theorem flattenChrom_cut_at_boundaries (l : List Row) (hs : l.Pairwise (fun a b => a.s ≤ b.s))
    (hwf : ∀ r ∈ l, r.s < r.e) :
    ∀ x ∈ flattenChrom l, ∀ r ∈ l, ¬ (x.s < r.s ∧ r.s < x.e) ∧ ¬ (x.s < r.e ∧ r.e < x.e) := by
  obtain ⟨im, _, ip⟩ := fc_groups_spec l hs
  have hgwf : ∀ g ∈ overlapGroups l, ∀ r ∈ g, r.s < r.e :=
    fun g hg r hr => hwf r ((im r).mp ⟨g, hg, hr⟩)
  intro x hx r hr
  unfold flattenChrom at hx
  obtain ⟨g, hg, hxg⟩ := List.mem_flatMap.mp hx
  obtain ⟨h, hh, hrh⟩ := (im r).mpr hr
  obtain ⟨⟨a, ha, h1⟩, ⟨c, hc, h2⟩, h3, h4⟩ := fc_flattenGroup_mem g (hgwf g hg) x hxg
  have hrwf := hwf r hr
  rcases fc_pairwise_mem FcBefore _ ip g h hg hh with e | hb | hb
  · subst e
    have := h4 r hrh
    omega
  · have := hb c hc r hrh
    omega
  · have := hb r hrh a ha
    omega

end CnvVerif
