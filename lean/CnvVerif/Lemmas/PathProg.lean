/-
  The generated program of `core.ensure_path` against the hand-written model; directories.
-/
import CnvVerif.Model.PathProg
import CnvVerif.Lemmas.Effects
namespace CnvVerif.Effects

/-- the counting loop `while isfile(bak): cnt += 1; bak = f"{fname}.{cnt}"` computes `firstFree` -/
theorem loop_firstFree (fuel : Nat) (n : Nat) (s : PState) (hb : s.bak = bakName s.arg.name s.cnt) :
    loop fuel .bak (.seq (.incCnt 1) .setBak) n s =
      { s with cnt := firstFree s.fs.files s.arg.name n s.cnt,
               bak := bakName s.arg.name (firstFree s.fs.files s.arg.name n s.cnt) } := by
  induction n generalizing s with
  | zero =>
    obtain ⟨fs, arg, cnt, bak, dname⟩ := s
    simp only at hb
    subst hb
    simp [loop, firstFree]
  | succ k ih =>
    obtain ⟨fs, arg, cnt, bak, dname⟩ := s
    simp only at hb
    subst hb
    rw [loop]
    simp only [PState.eval, firstFree]
    by_cases h : isFile fs.files (bakName arg.name cnt) = true
    · simp only [h, if_true]
      rw [run, run, run]
      exact ih _ rfl
    · simp [h]

/-- running the statements of `ensure_path` (as generated from the current source) = the hand-written model -/
theorem run_ensure_path_prog (fs : FSD) (p : PathArg) :
    runEnsurePath (.seq (.ifSlash (.seq .setDname (.ifDir true .makedirs)))
      (.ifFile .fname (.seq (.setCnt 1) (.seq .setBak
        (.seq (.whileFile .bak (.seq (.incCnt 1) .setBak)) (.rename .fname .bak)))))) fs p = ensurePathD fs p := by
  unfold runEnsurePath ensurePathD ensureDir ensurePath
  rw [run]
  -- the directory block
  have hdir : run fs.files.length (.ifSlash (.seq .setDname (.ifDir true .makedirs))) { fs := fs, arg := p } =
      { fs := (if p.slash && !isDir fs p.dir then makedirs fs p.dir else fs), arg := p,
        dname := if p.slash then some p.dir else none } := by
    rw [run]
    cases hs : p.slash
    · simp
    · simp only [if_true, Bool.true_and]
      rw [run, run, run]
      cases hd : isDir fs p.dir
      · simp [run, hd]
      · simp [hd]
  rw [hdir]
  generalize hfs1 : (if p.slash && !isDir fs p.dir then makedirs fs p.dir else fs) = fs1
  have hlen : fs1.files = fs.files := by
    subst hfs1; split <;> simp [makedirs]
  rw [run]
  simp only [PState.eval]
  by_cases hf : isFile fs1.files p.name = true
  · simp only [hf, if_true]
    rw [run, run, run, run, run, run]
    rw [loop_firstFree _ _ _ rfl]
    rw [run]
    simp only [PState.eval]
    rw [hlen]
  · simp only [hf]
    simp

/-- once the bounded search has found a free suffix, more fuel changes nothing -/
theorem firstFree_more_fuel (fs : FS) (p : String) (f e c : Nat)
    (h : isFile fs (bakName p (firstFree fs p f c)) = false) : firstFree fs p (f + e) c = firstFree fs p f c := by
  induction f generalizing c with
  | zero =>
    simp only [firstFree] at h
    cases e with
    | zero => rfl
    | succ e => simp [firstFree, h]
  | succ f ih =>
    have : f + 1 + e = (f + e) + 1 := by omega
    rw [this]
    unfold firstFree
    unfold firstFree at h
    by_cases hc : isFile fs (bakName p c) = true
    · simp only [hc, if_true] at h ⊢
      exact ih (c + 1) h
    · simp [hc]

theorem mem_ancestors_self (d : Dir) : d ∈ ancestors d := by
  simp only [ancestors, List.mem_map, List.mem_range]
  exact ⟨d.length, by omega, by simp⟩

theorem isDir_makedirs_self (fs : FSD) (d : Dir) : isDir (makedirs fs d) d = true := by
  simp only [isDir, makedirs, List.contains_iff_mem, List.mem_append, List.mem_filter]
  by_cases h : d ∈ fs.dirs
  · exact Or.inl h
  · exact Or.inr ⟨mem_ancestors_self d, by simpa using h⟩

theorem isDir_makedirs_ancestor (fs : FSD) (d : Dir) (k : Nat) : isDir (makedirs fs d) (d.take k) = true := by
  simp only [isDir, makedirs, List.contains_iff_mem, List.mem_append, List.mem_filter]
  by_cases h : d.take k ∈ fs.dirs
  · exact Or.inl h
  · refine Or.inr ⟨?_, by simpa using h⟩
    simp only [ancestors, List.mem_map, List.mem_range]
    by_cases hk : k < d.length + 1
    · exact ⟨k, hk, rfl⟩
    · exact ⟨d.length, by omega, by rw [List.take_length, List.take_of_length_le (by omega)]⟩

theorem isDir_makedirs_of_isDir {fs : FSD} {a : Dir} (h : isDir fs a = true) (d : Dir) : isDir (makedirs fs d) a = true := by
  simp only [isDir, makedirs, List.contains_iff_mem, List.mem_append] at *
  exact Or.inl h

theorem isDir_makedirs_inv {fs : FSD} {a d : Dir} (h : isDir (makedirs fs d) a = true) :
    isDir fs a = true ∨ a ∈ ancestors d := by
  simp only [isDir, makedirs, List.contains_iff_mem, List.mem_append, List.mem_filter] at *
  rcases h with h | h
  · exact Or.inl h
  · exact Or.inr h.1

theorem ensureDir_files (fs : FSD) (p : PathArg) : (ensureDir fs p).files = fs.files := by
  unfold ensureDir; split <;> simp [makedirs]

/-- after the directory block the directory of the path exists: created when the path names one, the working
    directory otherwise (`hcwd`: a path without a directory part lies in a directory that exists) -/
theorem ensureDir_isDir (fs : FSD) (p : PathArg) (hcwd : p.slash = false → isDir fs p.dir = true) :
    isDir (ensureDir fs p) p.dir = true := by
  unfold ensureDir
  cases hs : p.slash
  · simpa using hcwd hs
  · cases hd : isDir fs p.dir
    · simpa using isDir_makedirs_self fs p.dir
    · simpa using hd

theorem ensureDir_keeps {fs : FSD} {a : Dir} (h : isDir fs a = true) (p : PathArg) : isDir (ensureDir fs p) a = true := by
  unfold ensureDir; split
  · exact isDir_makedirs_of_isDir h _
  · exact h

theorem ensureDir_inv {fs : FSD} {a : Dir} {p : PathArg} (h : isDir (ensureDir fs p) a = true) :
    isDir fs a = true ∨ a ∈ ancestors p.dir := by
  unfold ensureDir at h; split at h
  · exact isDir_makedirs_inv h
  · exact Or.inl h

/-- one guarded write on the file system with directories: never fails for a missing directory, does to the files
    exactly what the flat model does, creates at most the ancestors of the target directory and removes none -/
theorem guardedWriteD_ok (fs : FSD) (p : PathArg) (c : String) (hcwd : p.slash = false → isDir fs p.dir = true) :
    ∃ fs', guardedWriteD fs p c = .ok fs' ∧ fs'.files = guardedWrite fs.files p.name c ∧ isDir fs' p.dir = true ∧
      (∀ a, isDir fs a = true → isDir fs' a = true) ∧ (∀ a, isDir fs' a = true → isDir fs a = true ∨ a ∈ ancestors p.dir) := by
  have hd : isDir (ensurePathD fs p) p.dir = true := by
    simpa [ensurePathD, isDir] using ensureDir_isDir fs p hcwd
  refine ⟨{ (ensurePathD fs p) with files := writeFile (ensurePathD fs p).files p.name c }, ?_, ?_, ?_, ?_, ?_⟩
  · simp [guardedWriteD, writeFileD, hd]
  · simp [ensurePathD, guardedWrite, ensureDir_files]
  · simpa [isDir] using hd
  · intro a ha; simpa [ensurePathD, isDir] using ensureDir_keeps ha p
  · intro a ha
    have : isDir (ensureDir fs p) a = true := by simpa [ensurePathD, isDir] using ha
    exact ensureDir_inv this

theorem guardedWritesD_ok (fs : FSD) (p : PathArg) (ws : List String) (hcwd : p.slash = false → isDir fs p.dir = true) :
    ∃ fs', guardedWritesD fs p ws = .ok fs' ∧ fs'.files = guardedWrites fs.files p.name ws ∧
      (ws ≠ [] → isDir fs' p.dir = true) ∧
      (∀ a, isDir fs a = true → isDir fs' a = true) ∧ (∀ a, isDir fs' a = true → isDir fs a = true ∨ a ∈ ancestors p.dir) := by
  induction ws generalizing fs with
  | nil => exact ⟨fs, rfl, rfl, fun h => absurd rfl h, fun _ h => h, fun _ h => Or.inl h⟩
  | cons c ws ih =>
    obtain ⟨fs1, h1, hf1, hd1, hk1, hi1⟩ := guardedWriteD_ok fs p c hcwd
    obtain ⟨fs2, h2, hf2, hd2, hk2, hi2⟩ := ih fs1 (fun _ => hd1)
    refine ⟨fs2, ?_, ?_, ?_, ?_, ?_⟩
    · simp [guardedWritesD, h1, h2]
    · rw [hf2, hf1, guardedWrites_cons]
    · intro _; exact hk2 _ hd1
    · intro a ha; exact hk2 a (hk1 a ha)
    · intro a ha
      rcases hi2 a ha with h | h
      · exact hi1 a h
      · exact Or.inr h

end CnvVerif.Effects
