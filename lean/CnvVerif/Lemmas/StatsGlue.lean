/-
  Lemmas behind Props/C17Glue.lean: reading a column back after a sequence of pandas-style assignments.
-/
import CnvVerif.Model.StatsGlue
namespace CnvVerif.Stats

variable {α : Type}

theorem find_map_same (t : Frame α) (k : String) (v : α) (h : t.any (fun c => c.1 == k) = true) :
    (t.map (fun c => if c.1 == k then (k, v) else c)).find? (fun c => c.1 == k) = some (k, v) := by
  induction t with
  | nil => simp at h
  | cons c t ih =>
    by_cases hc : (c.1 == k) = true
    · rw [List.map_cons, if_pos hc, List.find?_cons]
      show (match (k == k) with | true => _ | false => _) = _
      rw [beq_self_eq_true]
    · have hc' : (c.1 == k) = false := by simpa using hc
      have ht : t.any (fun c => c.1 == k) = true := by simpa [List.any_cons, hc'] using h
      rw [List.map_cons, if_neg hc, List.find?_cons, hc']
      exact ih ht

theorem find_map_other (t : Frame α) (k k' : String) (v : α) (hk : (k == k') = false) :
    (t.map (fun c => if c.1 == k then (k, v) else c)).find? (fun c => c.1 == k') =
      t.find? (fun c => c.1 == k') := by
  induction t with
  | nil => rfl
  | cons c t ih =>
    by_cases hc : (c.1 == k) = true
    · have hck : (c.1 == k') = false := by
        have : c.1 = k := by simpa using hc
        rw [this]; exact hk
      rw [List.map_cons, if_pos hc, List.find?_cons, List.find?_cons, hck]
      show (match (k == k') with | true => _ | false => _) = _
      rw [hk]
      exact ih
    · rw [List.map_cons, if_neg hc, List.find?_cons, List.find?_cons, ih]

theorem Frame.get?_assign_same (f : Frame α) (k : String) (v : α) : (f.assign k v).get? k = some v := by
  unfold Frame.assign Frame.get?
  split
  · rename_i h
    rw [find_map_same f k v h]; rfl
  · rename_i h
    have hn : f.find? (fun c => c.1 == k) = none := by
      rw [List.find?_eq_none]
      intro x hx hxe
      exact h (List.any_eq_true.mpr ⟨x, hx, hxe⟩)
    simp [List.find?_append, hn]

theorem Frame.get?_assign_other (f : Frame α) (k k' : String) (v : α) (h : k' ≠ k) :
    (f.assign k v).get? k' = f.get? k' := by
  have hk : (k == k') = false := by simpa using (Ne.symm h)
  unfold Frame.assign Frame.get?
  split
  · rw [find_map_other f k k' v hk]
  · rw [List.find?_append]
    cases f.find? (fun c => c.1 == k') with
    | some b => rfl
    | none => simp [hk]

/-- reading column `k` after a series of assignments: the LAST assignment to `k` if there is one, otherwise what
    the frame held -/
theorem Frame.get?_assignAll (f : Frame α) (as : List (String × α)) (k : String) :
    (f.assignAll as).get? k =
      match as.reverse.find? (fun a => a.1 == k) with
      | some a => some a.2
      | none => f.get? k := by
  induction as generalizing f with
  | nil => rfl
  | cons a t ih =>
    show ((f.assign a.1 a.2).assignAll t).get? k = _
    rw [ih, List.reverse_cons, List.find?_append]
    cases ht : t.reverse.find? (fun a => a.1 == k) with
    | some b => rfl
    | none =>
      by_cases hak : a.1 = k
      · subst hak
        simp [Frame.get?_assign_same]
      · have : (a.1 == k) = false := by simpa using hak
        simp [this, Frame.get?_assign_other f a.1 k a.2 (Ne.symm hak)]

theorem Frame.names_assign (f : Frame α) (k : String) (v : α) :
    (f.assign k v).names = if f.names.contains k then f.names else f.names ++ [k] := by
  unfold Frame.assign Frame.names
  have hany : f.any (fun c => c.1 == k) = (f.map (·.1)).contains k := by
    rw [Bool.eq_iff_iff]
    simp only [List.any_eq_true, List.contains_iff_mem, List.mem_map, beq_iff_eq]
  rw [hany]
  split
  · rw [List.map_map]
    apply List.map_congr_left
    intro c _
    simp only [Function.comp]
    split
    · rename_i h; exact (by simpa using h : c.1 = k).symm
    · rfl
  · simp

/-- the frame's own columns stay where they were: the result's names start with the input's names -/
theorem Frame.names_assignAll_prefix (f : Frame α) (as : List (String × α)) :
    f.names <+: (f.assignAll as).names := by
  induction as generalizing f with
  | nil => exact List.prefix_refl _
  | cons a t ih =>
    show f.names <+: ((f.assign a.1 a.2).assignAll t).names
    refine List.IsPrefix.trans ?_ (ih (f.assign a.1 a.2))
    rw [Frame.names_assign]
    split
    · exact List.prefix_refl _
    · exact List.prefix_append _ _

/-- every name of the result is an input column or an assigned name, and all of those are there -/
theorem Frame.mem_names_assignAll (f : Frame α) (as : List (String × α)) (k : String) :
    k ∈ (f.assignAll as).names ↔ k ∈ f.names ∨ k ∈ as.map (·.1) := by
  induction as generalizing f with
  | nil => simp [Frame.assignAll]
  | cons a t ih =>
    show k ∈ ((f.assign a.1 a.2).assignAll t).names ↔ _
    rw [ih, Frame.names_assign]
    by_cases hc : f.names.contains a.1
    · have hm : a.1 ∈ f.names := by simpa using hc
      simp only [hc, if_true, List.map_cons, List.mem_cons]
      constructor
      · rintro (h | h)
        · exact Or.inl h
        · exact Or.inr (Or.inr h)
      · rintro (h | h | h)
        · exact Or.inl h
        · exact Or.inl (h ▸ hm)
        · exact Or.inr h
    · simp only [hc, Bool.false_eq_true, if_false, List.mem_append, List.map_cons, List.mem_cons,
        List.not_mem_nil, or_false]
      constructor
      · rintro ((h | h) | h)
        · exact Or.inl h
        · exact Or.inr (Or.inl h)
        · exact Or.inr (Or.inr h)
      · rintro (h | h | h)
        · exact Or.inl (Or.inl h)
        · exact Or.inl (Or.inr h)
        · exact Or.inr h

end CnvVerif.Stats
