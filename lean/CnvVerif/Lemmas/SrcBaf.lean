/-
  The hand-written model formulas equal the expressions the translator reads off the current source
  (Generated/ExprsBaf.lean, regenerated from /repo on every run).  An edit to one of these formulas in the code
  changes the generated term; unless the edit keeps the term, the theorem below stops checking.
-/
import CnvVerif.Generated.ExprsBaf
import CnvVerif.Model.Call
namespace CnvVerif.Src
open CnvVerif CnvVerif.Generated

/-- `rescale_baf` (normal BAF 0.5) -/
theorem callRescaleBaf_is_source (p b : Rat) : callRescaleBaf p b = src_rescale_baf p b (1/2) := by
  simp [callRescaleBaf, src_rescale_baf]

end CnvVerif.Src
