/-
  The hand-written model formulas equal the expressions the translator reads off the current source
  (Generated/ExprsBaf.lean, regenerated from /repo on every run).  An edit to one of these formulas in the code
  changes the generated term; unless the edit keeps the term, the theorem below stops checking.
-/
import CnvVerif.Generated.ExprsBaf
import CnvVerif.Model.Call
import Mathlib.Tactic.Ring
set_option linter.unusedTactic false
set_option linter.unreachableTactic false
namespace CnvVerif.Src
open CnvVerif CnvVerif.Generated

/-- `rescale_baf` (normal BAF 0.5) -/
theorem callRescaleBaf_is_source (p b : Rat) : callRescaleBaf p b = src_rescale_baf p b (1/2) := by
  -- robust against algebraically equivalent rewrites of the source expression
  unfold callRescaleBaf src_rescale_baf
  first | rfl | ring

end CnvVerif.Src
