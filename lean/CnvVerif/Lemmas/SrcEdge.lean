/-
  The hand-written model formulas equal the expressions the translator reads off the current source
  (Generated/ExprsEdge.lean, regenerated from /repo on every run).  An edit to one of these formulas in the code
  changes the generated term; unless the edit keeps the term, the theorem below stops checking.
-/
import CnvVerif.Generated.ExprsEdge
import CnvVerif.Model.Fix
import Mathlib.Tactic.Ring
import Mathlib.Tactic.Linarith
import Mathlib.Tactic.SplitIfs
set_option linter.unusedTactic false
set_option linter.unreachableTactic false
namespace CnvVerif.Src
open CnvVerif CnvVerif.Generated

/-- `edge_losses`, one element -/
theorem edgeLoss_is_source (t i : Rat) : edgeLoss t i = src_edge_losses t i := by
  -- robust against algebraically equivalent rewrites of the source expression (flipped comparison, reordered factors)
  unfold edgeLoss src_edge_losses
  first
  | rfl
  | (simp only []; split_ifs <;> first | ring | (exfalso; linarith))

/-- `edge_gains`, one element -/
theorem edgeGain_is_source (t g i : Rat) : edgeGain t g i = src_edge_gains t g i := by
  unfold edgeGain src_edge_gains
  first
  | rfl
  | (simp only []; split_ifs <;> first | ring | (exfalso; linarith))

end CnvVerif.Src
