/-
  The hand-written model formulas equal the expressions the translator reads off the current source
  (Generated/ExprsEdge.lean, regenerated from /repo on every run).  An edit to one of these formulas in the code
  changes the generated term; unless the edit keeps the term, the theorem below stops checking.
-/
import CnvVerif.Generated.ExprsEdge
import CnvVerif.Model.Fix
namespace CnvVerif.Src
open CnvVerif CnvVerif.Generated

/-- `edge_losses`, one element -/
theorem edgeLoss_is_source (t i : Rat) : edgeLoss t i = src_edge_losses t i := by
  simp only [edgeLoss, src_edge_losses]

/-- `edge_gains`, one element -/
theorem edgeGain_is_source (t g i : Rat) : edgeGain t g i = src_edge_gains t g i := by
  simp only [edgeGain, src_edge_gains]

end CnvVerif.Src
