/-
  C08 (table formats), third batch: the readers of 1-based formats (GFF, SEG, Picard per-target
  coverage, VCF) return 0-based half-open regions.
-/
import CnvVerif.Lemmas.Formats2
namespace CnvVerif.Fmt
open CnvVerif CnvVerif.Generated

/-- a region in 0-based half-open coordinates -/
abbrev Region := String × Int × Int
def regRow (g : Region) : FRow := ⟨g.1, g.2.1, g.2.2, []⟩

/-- reading `lines` as format `fmt` gives exactly the regions `regs` (0-based, half-open), sorted -/
def ReadsAs (fmt : String) (sel : SampleSel) (lines : List Line) (regs : List Region) : Prop :=
  ∃ t, readFmt fmt false sel lines = .ok t ∧ (t.rows.map coordsOnly).Perm (regs.map regRow) ∧ SortedRows t.rows

def noChar (ch : Char) (s : String) : Prop := s.toList.contains ch = false

/-! ## shared pieces -/

/-- the coordinates of assembled rows do not depend on the payload columns -/
theorem mkRows_coords {α} (rows : List α) (c : α → String) (s e : α → Int) (extra : List (List Cell)) :
    (mkRows (rows.map c) (rows.map s) (rows.map e) extra).map coordsOnly =
      rows.map fun r => (⟨c r, s r, e r, []⟩ : FRow) := by
  induction rows generalizing extra with
  | nil => rfl
  | cons a t ih =>
    simp only [List.map_cons, mkRows, List.headD_cons, List.tail_cons]
    rw [ih]
    rfl

theorem mkRows_length (cs : List String) (ss es : List Int) (extra : List (List Cell)) :
    (mkRows cs ss es extra).length = cs.length := by
  induction cs generalizing ss es extra with
  | nil => rfl
  | cons a t ih => simp only [mkRows, List.length_cons, ih]

/-- `sort_columns` + `sort` of a `GenomicArray`: never fails, keeps the coordinates of every row -/
theorem finish_false_coords (t : FTab) :
    ∃ names' rows', finish false t = .ok ⟨names', sortF rows'⟩ ∧
      rows'.map coordsOnly = t.rows.map coordsOnly := by
  unfold finish sortColumns
  simp only [Bool.false_eq_true, ↓reduceIte, List.all_nil, Bool.not_true, bind, Except.bind, pure, Except.pure]
  refine ⟨_, _, rfl, ?_⟩
  rw [List.map_map]
  apply List.map_congr_left
  intro r _
  rfl

theorem readsAs_of_reader (t : FTab) (regs : List Region)
    (h : (t.rows.map coordsOnly).Perm (regs.map regRow)) :
    ∃ t', finish false t = .ok t' ∧ (t'.rows.map coordsOnly).Perm (regs.map regRow) ∧ SortedRows t'.rows := by
  obtain ⟨n, rows', hf, hr⟩ := finish_false_coords t
  refine ⟨_, hf, ?_, sortF_sorted _⟩
  show ((sortF rows').map coordsOnly).Perm _
  rw [← hr] at h
  exact ((sortF_perm rows').map coordsOnly).trans h

theorem sw_hash_false (c : String) (h : noChar '#' c) : sw "#" c = false := by
  unfold noChar at h
  unfold sw
  have h1 : "#".toList = ['#'] := by decide
  rw [h1]
  cases hc : c.toList with
  | nil => rfl
  | cons x xs =>
    rw [hc] at h
    simp only [List.contains_cons, Bool.or_eq_false_iff] at h
    simp only [List.isPrefixOf]
    have : (('#' : Char) == x) = false := by
      cases hx : ('#' == x) with
      | false => rfl
      | true =>
        have := beq_iff_eq.mp hx
        subst this
        simp at h
    rw [this]; rfl

/-- comment lines go, data lines stay -/
theorem strip_hash (hdr L : List Line) (hh : ∀ l ∈ hdr, sw "#" (l.headD "") = true)
    (hL : ∀ l ∈ L, l ≠ [""] ∧ l ≠ [] ∧ sw "#" (l.headD "") = false) :
    (dropBlank (hdr ++ L)).filter (fun l => !sw "#" (l.headD "")) = L := by
  unfold dropBlank
  rw [List.filter_append, List.filter_append]
  have h1 : (hdr.filter (fun l => l != [""] && l != [])).filter (fun l => !sw "#" (l.headD "")) = [] := by
    rw [List.filter_eq_nil_iff]
    intro l hl
    rw [hh l (List.mem_filter.mp hl).1]
    decide
  have h2 : L.filter (fun l => l != [""] && l != []) = L := by
    rw [List.filter_eq_self]
    intro l hl
    obtain ⟨a, b, _⟩ := hL l hl
    simp only [Bool.and_eq_true, bne_iff_ne, ne_eq]
    exact ⟨a, b⟩
  have h3 : L.filter (fun l => !sw "#" (l.headD "")) = L := by
    rw [List.filter_eq_self]
    intro l hl
    rw [(hL l hl).2.2]
    rfl
  rw [h1, h2, h3, List.nil_append]

theorem intColumn_toString {α} (what : String) (rows : List α) (f : α → Int) :
    intColumn what (rows.map fun r => toString (f r)) = .ok (rows.map f) := by
  unfold intColumn
  apply mapM_map_ok
  intro r _
  rw [parseInt_toString]

/-! ## GFF -/

/-- GFF: columns 4-5 are 1-based inclusive; `x` = (source, type, score, strand, phase, attribute) -/
def gffLine (g : Region) (x : String × String × String × String × String × String) : Line :=
  [g.1, x.1, x.2.1, toString (g.2.1 + 1), toString g.2.2, x.2.2.1, x.2.2.2.1, x.2.2.2.2.1, x.2.2.2.2.2]

theorem readGff_lines (items : List (Region × (String × String × String × String × String × String)))
    (hdr : List Line) (hh : ∀ l ∈ hdr, sw "#" (l.headD "") = true)
    (hc : ∀ p ∈ items, ∀ f ∈ gffLine p.1 p.2, noChar '#' f) :
    ∃ rows, readGff (hdr ++ items.map (fun p => gffLine p.1 p.2)) = .ok ⟨["strand", "type"], rows⟩ ∧
      (rows.map coordsOnly).Perm ((items.map (·.1)).map regRow) := by
  generalize hL : (items.map fun p => gffLine p.1 p.2) = L
  have hmem : ∀ l ∈ L, ∃ p ∈ items, l = gffLine p.1 p.2 := by
    intro l hl
    rw [← hL] at hl
    obtain ⟨p, hp, rfl⟩ := List.mem_map.mp hl
    exact ⟨p, hp, rfl⟩
  have hbody : (dropBlank (hdr ++ L)).filter (fun l => !sw "#" (l.headD "")) = L := by
    apply strip_hash _ _ hh
    intro l hl
    obtain ⟨p, hp, rfl⟩ := hmem l hl
    refine ⟨by simp [gffLine], by simp [gffLine], ?_⟩
    exact sw_hash_false _ (hc p hp _ (by simp [gffLine]))
  have hany1 : L.any (fun l => l.any (fun f => f.toList.contains '#')) = false := by
    rw [List.any_eq_false]
    intro l hl
    obtain ⟨p, hp, rfl⟩ := hmem l hl
    rw [Bool.not_eq_true, List.any_eq_false]
    intro f hf
    rw [Bool.not_eq_true]
    exact hc p hp f hf
  have hany2 : L.any (fun l => l.length != 9) = false := by
    rw [List.any_eq_false]
    intro l hl
    obtain ⟨p, hp, rfl⟩ := hmem l hl
    simp [gffLine]
  have hc0 : column 0 L = items.map (fun p => p.1.1) := by
    rw [← hL]; unfold column; rw [List.map_map]; rfl
  have hc3 : column 3 L = items.map (fun p => toString (p.1.2.1 + 1)) := by
    rw [← hL]; unfold column; rw [List.map_map]; rfl
  have hc4 : column 4 L = items.map (fun p => toString p.1.2.2) := by
    rw [← hL]; unfold column; rw [List.map_map]; rfl
  have hss := intColumn_toString "start" items (fun p => p.1.2.1 + 1)
  have hes := intColumn_toString "end" items (fun p => p.1.2.2)
  unfold readGff
  simp only [hbody, hany1, hany2, hc0, hc3, hc4, hss, hes, bind, Except.bind, pure, Except.pure,
    Bool.false_eq_true, ↓reduceIte, List.map_map, Function.comp_def]
  refine ⟨_, rfl, ?_⟩
  refine ((List.mergeSort_perm _ _).map coordsOnly).trans ?_
  have hmk := mkRows_coords items (fun p => p.1.1) (fun p => p.1.2.1 + 1 + READ_SHIFT_gff) (fun p => p.1.2.2)
    [strColumn (column 6 L), strColumn (column 2 L)]
  rw [hmk]
  apply List.Perm.of_eq
  apply List.map_congr_left
  intro p _
  have : p.1.2.1 + 1 + READ_SHIFT_gff = p.1.2.1 := by simp only [READ_SHIFT_gff]; omega
  rw [this]
  rfl

theorem gff_reads_one_based (items : List (Region × (String × String × String × String × String × String)))
    (hdr : List Line) (hh : ∀ l ∈ hdr, sw "#" (l.headD "") = true)
    (hc : ∀ p ∈ items, ∀ f ∈ gffLine p.1 p.2, noChar '#' f) (sel : SampleSel) :
    ReadsAs "gff" sel (hdr ++ items.map (fun p => gffLine p.1 p.2)) (items.map (·.1)) := by
  obtain ⟨rows, hr, hp⟩ := readGff_lines items hdr hh hc
  obtain ⟨t', hf, hp', hs⟩ := readsAs_of_reader ⟨["strand", "type"], rows⟩ _ hp
  refine ⟨t', ?_, hp', hs⟩
  simp only [readFmt, hr, bind, Except.bind]
  exact hf

/-! ## SEG -/

/-- SEG, one sample, 5 columns (ID chrom loc.start loc.end seg.mean), 1-based start; leading
    lines without a tab are skipped -/
def segLine (sid : String) (g : Region) (mean : String) : Line :=
  [sid, g.1, toString (g.2.1 + 1), toString g.2.2, mean]

/-- a column of plain labels, typed and turned back into strings, is unchanged -/
theorem asStr_plain (f : Cell → Except String String) (hs : ∀ s, f (.str s) = .ok s)
    (vals : List String) (h : ∀ v ∈ vals, PlainLabel v) : (typeColumn vals).mapM f = .ok vals := by
  rw [typeColumn_plain vals h]
  have := mapM_map_ok Cell.str f id vals (fun x _ => hs x)
  rw [List.map_id] at this
  exact this

/-- a chromosome column, typed and turned back into strings (`astype(str)`), is unchanged -/
theorem asStr_chrom (f : Cell → Except String String) (hi : ∀ i, f (.int i) = .ok (toString i))
    (hs : ∀ s, f (.str s) = .ok s) (cs : List String) (h : ∀ c ∈ cs, ChromName c) :
    (typeColumn cs).mapM f = .ok cs := by
  unfold typeColumn
  by_cases hall : cs.all (fun c => isIntLit c.toList) = true
  · rw [if_pos hall]
    have := mapM_map_ok (fun v => match parseInt v with
      | some i => Cell.int i
      | none => Cell.na) f id cs (by
        intro c hc
        rcases h c hc with ⟨n, rfl⟩ | hp
        · rw [← toString_natCast, parseInt_toString]
          exact hi _
        · have := List.all_eq_true.mp hall c hc
          rw [hp.1] at this
          exact absurd this (by decide))
    rw [List.map_id] at this
    exact this
  · rw [if_neg hall]
    have hdec : cs.all (fun v => isNA v || (parseDec v.toList).isSome) = false := by
      cases hd : cs.all (fun v => isNA v || (parseDec v.toList).isSome) with
      | false => rfl
      | true =>
        exfalso
        apply hall
        rw [List.all_eq_true]
        intro c hc
        rcases h c hc with ⟨n, rfl⟩ | hp
        · exact isIntLit_toString_nat n
        · have := List.all_eq_true.mp hd c hc
          rw [hp.2.1, hp.2.2] at this
          exact absurd this (by decide)
    rw [hdec]
    simp only [Bool.false_eq_true, ↓reduceIte]
    have := mapM_map_ok (fun v => if isNA v = true then Cell.na else Cell.str v) f id cs (by
        intro c hc
        rw [chromName_notNA c (h c hc)]
        exact hs c)
    rw [List.map_id] at this
    exact this

theorem groupBySample_const (sid : String) (n : Nat) (rows : List FRow) (hn : 0 < n) (hl : rows.length = n) :
    groupBySample (List.replicate n sid) rows = [(sid, rows)] := by
  have hed : (List.replicate n sid).eraseDups = [sid] := by
    obtain ⟨m, rfl⟩ : ∃ m, n = m + 1 := ⟨n - 1, by omega⟩
    rw [List.replicate_succ, List.eraseDups_cons, List.filter_replicate]
    simp
  have hfilt : ((List.replicate n sid).zip rows).filter (fun p => p.1 == sid) = (List.replicate n sid).zip rows := by
    rw [List.filter_eq_self]
    intro p hp
    have := (List.of_mem_zip (a := p.1) (b := p.2) hp).1
    rw [(List.mem_replicate.mp this).2]
    exact beq_self_eq_true _
  unfold groupBySample
  simp only [hed, List.map_cons, List.map_nil, hfilt]
  have : ((List.replicate n sid).zip rows).map (·.2) = rows := by
    apply List.map_snd_zip
    rw [List.length_replicate]; omega
  rw [this]

theorem parseSeg_lines (sid : String) (hs : PlainLabel sid) (items : List (Region × String))
    (hne : items ≠ []) (junk : List Line) (hj : ∀ l ∈ junk, l.length ≤ 1) (hdr : Line) (hh : hdr.length = 5)
    (hc : ∀ p ∈ items, ChromName p.1.1) :
    ∃ rows, parseSeg (junk ++ hdr :: items.map (fun p => segLine sid p.1 p.2)) [] none =
        .ok (["log2", "gene"], [(sid, rows)]) ∧
      rows.map coordsOnly = (items.map (·.1)).map regRow := by
  generalize hL : (items.map fun p => segLine sid p.1 p.2) = L
  have hmem : ∀ l ∈ L, ∃ p ∈ items, l = segLine sid p.1 p.2 := by
    intro l hl
    rw [← hL] at hl
    obtain ⟨p, hp, rfl⟩ := List.mem_map.mp hl
    exact ⟨p, hp, rfl⟩
  have hdw : (junk ++ hdr :: L).dropWhile (fun l => decide (l.length ≤ 1)) = hdr :: L := by
    apply dropWhile_append_stop
    · intro l hl; exact decide_eq_true (hj l hl)
    · rw [hh]; rfl
  have hdb : dropBlank L = L := by
    unfold dropBlank
    rw [List.filter_eq_self]
    intro l hl
    obtain ⟨p, _, rfl⟩ := hmem l hl
    simp [segLine]
  have hrag : L.any (fun l => l.length != 5) = false := by
    rw [List.any_eq_false]
    intro l hl
    obtain ⟨p, _, rfl⟩ := hmem l hl
    simp [segLine]
  have hempty : L.isEmpty = false := by
    rw [← hL]
    cases items with
    | nil => exact absurd rfl hne
    | cons a t => rfl
  have hc0 : column 0 L = items.map (fun _ => sid) := by
    rw [← hL]; unfold column; rw [List.map_map]; rfl
  have hc1 : column 1 L = items.map (fun p => p.1.1) := by
    rw [← hL]; unfold column; rw [List.map_map]; rfl
  have hc2 : column 2 L = items.map (fun p => toString (p.1.2.1 + 1)) := by
    rw [← hL]; unfold column; rw [List.map_map]; rfl
  have hc3 : column 3 L = items.map (fun p => toString p.1.2.2) := by
    rw [← hL]; unfold column; rw [List.map_map]; rfl
  have hss := intColumn_toString "start" items (fun p => p.1.2.1 + 1)
  have hes := intColumn_toString "end" items (fun p => p.1.2.2)
  have hsid : ∀ v ∈ items.map (fun _ => sid), PlainLabel v := by
    intro v hv
    obtain ⟨_, _, rfl⟩ := List.mem_map.mp hv
    exact hs
  have hchr : ∀ c ∈ items.map (fun p => p.1.1), ChromName c := by
    intro c hc'
    obtain ⟨p, hp, rfl⟩ := List.mem_map.mp hc'
    exact hc p hp
  unfold parseSeg
  simp only [hdw, hh, hdb, hrag, hempty, hc0, hc1, hc2, hc3, hss, hes, bind, Except.bind, pure, Except.pure,
    Bool.false_eq_true, ↓reduceIte, List.map_map, Function.comp_def]
  rw [asStr_plain _ (fun _ => rfl) _ hsid, asStr_chrom _ (fun _ => rfl) (fun _ => rfl) _ hchr]
  have h56 : ((5 : Nat) == 6) = false := rfl
  have h55 : ((5 : Nat) == 5) = true := rfl
  simp only [h56, h55, Bool.false_eq_true, ↓reduceIte, List.lookup_nil, List.map_id', List.nil_append,
    List.map_const']
  refine ⟨mkRows (items.map (fun p => p.1.1)) (items.map (fun p => p.1.2.1 + 1 + READ_SHIFT_seg))
    (items.map (fun p => p.1.2.2)) [typeColumn (column (5 - 1) L), List.replicate L.length (Cell.str "-")], ?_, ?_⟩
  · rw [groupBySample_const sid items.length _ (List.length_pos_iff.mpr hne)]
    rw [mkRows_length, List.length_map]
  · have hmk := mkRows_coords items (fun p => p.1.1) (fun p => p.1.2.1 + 1 + READ_SHIFT_seg) (fun p => p.1.2.2)
      [typeColumn (column (5 - 1) L), List.replicate L.length (Cell.str "-")]
    rw [hmk]
    apply List.map_congr_left
    intro p _
    have : p.1.2.1 + 1 + READ_SHIFT_seg = p.1.2.1 := by simp only [READ_SHIFT_seg]; omega
    rw [this]
    rfl

theorem seg_reads_one_based (sid : String) (hs : PlainLabel sid) (items : List (Region × String))
    (hne : items ≠ []) (junk : List Line) (hj : ∀ l ∈ junk, l.length ≤ 1) (hdr : Line) (hh : hdr.length = 5)
    (hc : ∀ p ∈ items, ChromName p.1.1) :
    ReadsAs "seg" .first (junk ++ hdr :: items.map (fun p => segLine sid p.1 p.2)) (items.map (·.1)) := by
  obtain ⟨rows, hr, hp⟩ := parseSeg_lines sid hs items hne junk hj hdr hh hc
  obtain ⟨t', hf, hp', hs'⟩ := readsAs_of_reader ⟨["log2", "gene"], rows⟩ (items.map (·.1)) (List.Perm.of_eq hp)
  refine ⟨t', ?_, hp', hs'⟩
  simp only [readFmt, readSeg, hr, bind, Except.bind, pure, Except.pure]
  exact hf

/-! ## VCF -/

theorem digit_ne_semicolon {c : Char} (h : c.isDigit = true) : c ≠ ';' := by
  rintro rfl; exact absurd h (by decide)

theorem toString_no_semicolon (i : Int) : ∀ c ∈ (toString i).toList, (c != ';') = true := by
  intro c hc
  rw [bne_iff_ne]
  by_cases h : 0 ≤ i
  · rw [toString_toList_nonneg i h] at hc
    exact digit_ne_semicolon (toDigits_digits _ c hc)
  · rw [toString_toList_neg i (by omega)] at hc
    rcases List.mem_cons.mp hc with rfl | hc
    · decide
    · exact digit_ne_semicolon (toDigits_digits _ c hc)

/-- `END=<e>` in the INFO column -/
theorem parseEndFromInfo_END (e : Int) : parseEndFromInfo ("END=" ++ toString e) = .ok (some e) := by
  have h1 : "END=".toList = ['E', 'N', 'D', '='] := by decide
  have hfind : findSub ['E', 'N', 'D', '='] ('E' :: 'N' :: 'D' :: '=' :: (toString e).toList) =
      some (toString e).toList := by
    simp only [findSub, List.isPrefixOf, beq_self_eq_true, Bool.and_self, ↓reduceIte, List.length_cons,
      List.length_nil, List.drop_succ_cons, List.drop_zero]
  unfold parseEndFromInfo
  rw [String.toList_append, h1]
  simp only [List.cons_append, List.nil_append, hfind]
  rw [takeWhile_eq_self_of_all _ _ (toString_no_semicolon e), String.ofList_toList, parseInt_toString]

/-- VCF sites: POS is 1-based, INFO/END is the (1-based inclusive = 0-based exclusive) end;
    `x` = (id, ref, alt, qual, filter) -/
def vcfLine (g : Region) (x : String × String × String × String × String) : Line :=
  [g.1, toString (g.2.1 + 1), x.1, x.2.1, x.2.2.1, x.2.2.2.1, x.2.2.2.2, "END=" ++ toString g.2.2]

theorem readVcf_lines (items : List (Region × (String × String × String × String × String)))
    (hdr : List Line) (hh : ∀ l ∈ hdr, sw "#" (l.headD "") = true)
    (hc : ∀ p ∈ items, ∀ f ∈ vcfLine p.1 p.2, noChar '#' f)
    (he : ∀ p ∈ items, p.1.2.2 ≠ -1) :
    ∃ rows, readVcf false (hdr ++ items.map (fun p => vcfLine p.1 p.2)) = .ok ⟨["alt", "ref"], rows⟩ ∧
      rows.map coordsOnly = (items.map (·.1)).map regRow := by
  generalize hL : (items.map fun p => vcfLine p.1 p.2) = L
  have hmem : ∀ l ∈ L, ∃ p ∈ items, l = vcfLine p.1 p.2 := by
    intro l hl
    rw [← hL] at hl
    obtain ⟨p, hp, rfl⟩ := List.mem_map.mp hl
    exact ⟨p, hp, rfl⟩
  have hbody : (dropBlank (hdr ++ L)).filter (fun l => !sw "#" (l.headD "")) = L := by
    apply strip_hash _ _ hh
    intro l hl
    obtain ⟨p, hp, rfl⟩ := hmem l hl
    refine ⟨by simp [vcfLine], by simp [vcfLine], ?_⟩
    exact sw_hash_false _ (hc p hp _ (by simp [vcfLine]))
  have hany1 : L.any (fun l => l.any (fun f => f.toList.contains '#')) = false := by
    rw [List.any_eq_false]
    intro l hl
    obtain ⟨p, hp, rfl⟩ := hmem l hl
    rw [Bool.not_eq_true, List.any_eq_false]
    intro f hf
    rw [Bool.not_eq_true]
    exact hc p hp f hf
  have hany2 : L.any (fun l => decide (l.length < 8)) = false := by
    rw [List.any_eq_false]
    intro l hl
    obtain ⟨p, hp, rfl⟩ := hmem l hl
    simp [vcfLine]
  have hc1 : column 1 L = items.map (fun p => toString (p.1.2.1 + 1)) := by
    rw [← hL]; unfold column; rw [List.map_map]; rfl
  have hpos := intColumn_toString "POS" items (fun p => p.1.2.1 + 1)
  unfold readVcf
  simp only [hbody, hany1, hany2, hc1, hpos, bind, Except.bind, pure, Except.pure,
    Bool.false_eq_true, ↓reduceIte, Bool.not_false, Bool.and_false]
  rw [← hL, List.zip_map']
  rw [mapM_map_ok _ _ (fun p : Region × (String × String × String × String × String) =>
    (⟨p.1.1, p.1.2.1 + 1 + READ_SHIFT_vcf_sites, p.1.2.2, [.str p.2.2.2.1, .str p.2.2.1]⟩ : FRow)) items]
  · refine ⟨_, rfl, ?_⟩
    rw [List.map_map, List.map_map]
    apply List.map_congr_left
    intro p _
    have : p.1.2.1 + 1 + READ_SHIFT_vcf_sites = p.1.2.1 := by simp only [READ_SHIFT_vcf_sites]; omega
    simp only [Function.comp_def, coordsOnly, regRow, this]
  · intro p hp
    have hne : (p.1.2.2 == -1) = false := by
      rw [beq_eq_false_iff_ne]; exact he p hp
    have h7 : List.getD (vcfLine p.1 p.2, p.1.2.1 + 1).fst 7 "" = "END=" ++ toString p.1.2.2 := rfl
    simp only [h7, parseEndFromInfo_END, hne, Bool.false_eq_true, ↓reduceIte]
    rfl

theorem vcf_reads_one_based (items : List (Region × (String × String × String × String × String)))
    (hdr : List Line) (hh : ∀ l ∈ hdr, sw "#" (l.headD "") = true)
    (hc : ∀ p ∈ items, ∀ f ∈ vcfLine p.1 p.2, noChar '#' f)
    (he : ∀ p ∈ items, p.1.2.2 ≠ -1) (sel : SampleSel) :
    ReadsAs "vcf-sites" sel (hdr ++ items.map (fun p => vcfLine p.1 p.2)) (items.map (·.1)) := by
  obtain ⟨rows, hr, hp⟩ := readVcf_lines items hdr hh hc he
  obtain ⟨t', hf, hp', hs⟩ := readsAs_of_reader ⟨["alt", "ref"], rows⟩ (items.map (·.1)) (List.Perm.of_eq hp)
  refine ⟨t', ?_, hp', hs⟩
  simp only [readFmt, hr, bind, Except.bind]
  exact hf

/-! ## Picard per-target coverage -/

/-- Picard per-target coverage: header row, 1-based start; `x` = (length, name, %gc, mean, normalized) -/
def picardLine (g : Region) (x : Int × String × String × String × String) : Line :=
  [g.1, toString (g.2.1 + 1), toString g.2.2, toString x.1, x.2.1, x.2.2.1, x.2.2.2.1, x.2.2.2.2]

theorem fltColumn_ok (vals : List String) (h : ∀ v ∈ vals, (parseDec v.toList).isSome) :
    ∃ cells, fltColumn vals = .ok cells := by
  refine ⟨vals.map (fun v => Cell.flt ((parseDec v.toList).getD 0)), ?_⟩
  unfold fltColumn
  apply mapM_ok
  intro v hv
  obtain ⟨q, hq⟩ := Option.isSome_iff_exists.mp (h v hv)
  rw [hq]
  rfl

theorem readPicard_lines (items : List (Region × (Int × String × String × String × String)))
    (hdr : Line) (hh : hdr.length = 8)
    (hnum : ∀ p ∈ items, (parseDec p.2.2.2.1.toList).isSome ∧ (parseDec p.2.2.2.2.1.toList).isSome ∧
                          (parseDec p.2.2.2.2.2.toList).isSome) :
    ∃ rows, readPicard (hdr :: items.map (fun p => picardLine p.1 p.2)) =
        .ok ⟨["gene", "gc", "depth", "ratio"], rows⟩ ∧
      rows.map coordsOnly = (items.map (·.1)).map regRow := by
  generalize hL : (items.map fun p => picardLine p.1 p.2) = L
  have hmem : ∀ l ∈ L, ∃ p ∈ items, l = picardLine p.1 p.2 := by
    intro l hl
    rw [← hL] at hl
    obtain ⟨p, hp, rfl⟩ := List.mem_map.mp hl
    exact ⟨p, hp, rfl⟩
  have hdb : dropBlank (hdr :: L) = hdr :: L := by
    unfold dropBlank
    rw [List.filter_eq_self]
    intro l hl
    rcases List.mem_cons.mp hl with rfl | hl
    · simp only [Bool.and_eq_true, bne_iff_ne, ne_eq]
      constructor
      · intro h; rw [h] at hh; exact absurd hh (by decide)
      · intro h; rw [h] at hh; exact absurd hh (by decide)
    · obtain ⟨p, _, rfl⟩ := hmem l hl
      simp [picardLine]
  have hrag : L.any (fun l => l.length != 8) = false := by
    rw [List.any_eq_false]
    intro l hl
    obtain ⟨p, _, rfl⟩ := hmem l hl
    simp [picardLine]
  have h88 : (hdr.length != 8) = false := by rw [hh]; rfl
  have hc0 : column 0 L = items.map (fun p => p.1.1) := by
    rw [← hL]; unfold column; rw [List.map_map]; rfl
  have hc1 : column 1 L = items.map (fun p => toString (p.1.2.1 + 1)) := by
    rw [← hL]; unfold column; rw [List.map_map]; rfl
  have hc2 : column 2 L = items.map (fun p => toString p.1.2.2) := by
    rw [← hL]; unfold column; rw [List.map_map]; rfl
  have hc3 : column 3 L = items.map (fun p => toString p.2.1) := by
    rw [← hL]; unfold column; rw [List.map_map]; rfl
  have hc5 : column 5 L = items.map (fun p => p.2.2.2.1) := by
    rw [← hL]; unfold column; rw [List.map_map]; rfl
  have hc6 : column 6 L = items.map (fun p => p.2.2.2.2.1) := by
    rw [← hL]; unfold column; rw [List.map_map]; rfl
  have hc7 : column 7 L = items.map (fun p => p.2.2.2.2.2) := by
    rw [← hL]; unfold column; rw [List.map_map]; rfl
  have hss := intColumn_toString "start" items (fun p => p.1.2.1 + 1)
  have hes := intColumn_toString "end" items (fun p => p.1.2.2)
  have hls := intColumn_toString "length" items (fun p => p.2.1)
  obtain ⟨gc, hgc⟩ := fltColumn_ok (items.map (fun p => p.2.2.2.1)) (by
    intro v hv; obtain ⟨p, hp, rfl⟩ := List.mem_map.mp hv; exact (hnum p hp).1)
  obtain ⟨dp, hdp⟩ := fltColumn_ok (items.map (fun p => p.2.2.2.2.1)) (by
    intro v hv; obtain ⟨p, hp, rfl⟩ := List.mem_map.mp hv; exact (hnum p hp).2.1)
  obtain ⟨ra, hra⟩ := fltColumn_ok (items.map (fun p => p.2.2.2.2.2)) (by
    intro v hv; obtain ⟨p, hp, rfl⟩ := List.mem_map.mp hv; exact (hnum p hp).2.2)
  unfold readPicard
  simp only [hdb, h88, hrag, hc0, hc1, hc2, hc3, hc5, hc6, hc7, hss, hes, hls, hgc, hdp, hra, bind, Except.bind,
    pure, Except.pure, Bool.false_eq_true, ↓reduceIte, Bool.or_self, List.map_map, Function.comp_def]
  refine ⟨_, rfl, ?_⟩
  have hmk := mkRows_coords items (fun p => p.1.1) (fun p => p.1.2.1 + 1 + READ_SHIFT_picardhs) (fun p => p.1.2.2)
    [strColumn (column 4 L), gc, dp, ra]
  rw [hmk]
  apply List.map_congr_left
  intro p _
  have : p.1.2.1 + 1 + READ_SHIFT_picardhs = p.1.2.1 := by simp only [READ_SHIFT_picardhs]; omega
  rw [this]
  rfl

theorem picard_reads_one_based (items : List (Region × (Int × String × String × String × String)))
    (hdr : Line) (hh : hdr.length = 8) (hb : hdr ≠ [""])
    (hnum : ∀ p ∈ items, (parseDec p.2.2.2.1.toList).isSome ∧ (parseDec p.2.2.2.2.1.toList).isSome ∧
                          (parseDec p.2.2.2.2.2.toList).isSome) (sel : SampleSel) :
    ReadsAs "picardhs" sel (hdr :: items.map (fun p => picardLine p.1 p.2)) (items.map (·.1)) := by
  have _ := hb   -- implied by `hh`
  obtain ⟨rows, hr, hp⟩ := readPicard_lines items hdr hh hnum
  obtain ⟨t', hf, hp', hs⟩ := readsAs_of_reader ⟨["gene", "gc", "depth", "ratio"], rows⟩ (items.map (·.1))
    (List.Perm.of_eq hp)
  refine ⟨t', ?_, hp', hs⟩
  simp only [readFmt, hr, bind, Except.bind]
  exact hf


end CnvVerif.Fmt
