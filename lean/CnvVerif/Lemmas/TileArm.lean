/-
  `GenomicArray.by_arm`: the exact centromere choice.  `cmereIdx` (Model/Tile.lean) returns the position the
  specification `ByArmChoice` (Model/TileExt.lean) demands: the largest admissible gap, the first one on ties,
  at least `minGap` wide; no split iff the chromosome is too short or no admissible gap is that wide.
-/
import CnvVerif.Model.Tile
import CnvVerif.Model.TileExt
import CnvVerif.Lemmas.Tile
namespace CnvVerif

theorem getD_lt (l : List Int) (k : Nat) (h : k < l.length) : l.getD k 0 = l[k] := by
  simp [List.getD_eq_getElem?_getD, h]

theorem argmaxGo_spec (xs : List Int) (i best : Nat) (bv : Int) (hb : best < i) :
    (argmaxGo xs i best bv = best ∧ ∀ x ∈ xs, x ≤ bv) ∨
    (∃ k, k < xs.length ∧ argmaxGo xs i best bv = i + k ∧ bv < xs.getD k 0 ∧
      (∀ j, j < xs.length → xs.getD j 0 ≤ xs.getD k 0) ∧ (∀ j, j < k → xs.getD j 0 < xs.getD k 0)) := by
  induction xs generalizing i best bv with
  | nil => left; exact ⟨rfl, by simp⟩
  | cons x t ih =>
    unfold argmaxGo
    by_cases hx : x > bv
    · rw [if_pos hx]
      rcases ih (i + 1) i x (Nat.lt_succ_self i) with ⟨hr, hall⟩ | ⟨k, hk, hr, hlt, hmax, hfirst⟩
      · right
        refine ⟨0, by simp, by rw [hr]; rfl, by simpa using hx, ?_, by intro j hj; omega⟩
        intro j hj
        cases j with
        | zero => simp
        | succ j =>
          simp only [List.length_cons, Nat.add_lt_add_iff_right] at hj
          simp only [List.getD_cons_succ, List.getD_cons_zero]
          rw [getD_lt _ _ hj]
          exact hall _ (List.getElem_mem hj)
      · right
        refine ⟨k + 1, by simp [hk], by rw [hr]; omega, ?_, ?_, ?_⟩
        · simp only [List.getD_cons_succ]; omega
        · intro j hj
          cases j with
          | zero => simp only [List.getD_cons_succ, List.getD_cons_zero]; omega
          | succ j =>
            simp only [List.length_cons, Nat.add_lt_add_iff_right] at hj
            simp only [List.getD_cons_succ]
            exact hmax j hj
        · intro j hj
          cases j with
          | zero => simp only [List.getD_cons_succ, List.getD_cons_zero]; omega
          | succ j =>
            simp only [List.getD_cons_succ]
            exact hfirst j (by omega)
    · rw [if_neg hx]
      rcases ih (i + 1) best bv (by omega) with ⟨hr, hall⟩ | ⟨k, hk, hr, hlt, hmax, hfirst⟩
      · left
        refine ⟨hr, ?_⟩
        intro y hy
        rcases List.mem_cons.mp hy with rfl | hy
        · omega
        · exact hall y hy
      · right
        refine ⟨k + 1, by simp [hk], by rw [hr]; omega, ?_, ?_, ?_⟩
        · simp only [List.getD_cons_succ]; exact hlt
        · intro j hj
          cases j with
          | zero => simp only [List.getD_cons_succ, List.getD_cons_zero]; omega
          | succ j =>
            simp only [List.length_cons, Nat.add_lt_add_iff_right] at hj
            simp only [List.getD_cons_succ]
            exact hmax j hj
        · intro j hj
          cases j with
          | zero => simp only [List.getD_cons_succ, List.getD_cons_zero]; omega
          | succ j =>
            simp only [List.getD_cons_succ]
            exact hfirst j (by omega)

/-- numpy `argmax`: a position holding the maximum, the first such position -/
theorem argmax_spec (l : List Int) (hne : l ≠ []) :
    argmax l < l.length ∧ (∀ j, j < l.length → l.getD j 0 ≤ l.getD (argmax l) 0) ∧
      (∀ j, j < argmax l → l.getD j 0 < l.getD (argmax l) 0) := by
  cases l with
  | nil => exact absurd rfl hne
  | cons x t =>
    show argmaxGo t 1 0 x < (x :: t).length ∧
      (∀ j, j < (x :: t).length → (x :: t).getD j 0 ≤ (x :: t).getD (argmaxGo t 1 0 x) 0) ∧
      (∀ j, j < argmaxGo t 1 0 x → (x :: t).getD j 0 < (x :: t).getD (argmaxGo t 1 0 x) 0)
    rcases argmaxGo_spec t 1 0 x (by omega) with ⟨hr, hall⟩ | ⟨k, hk, hr, hlt, hmax, hfirst⟩
    · rw [hr]
      refine ⟨by simp, ?_, by intro j hj; omega⟩
      intro j hj
      cases j with
      | zero => simp
      | succ j =>
        simp only [List.length_cons, Nat.add_lt_add_iff_right] at hj
        simp only [List.getD_cons_succ, List.getD_cons_zero]
        rw [getD_lt _ _ hj]
        exact hall _ (List.getElem_mem hj)
    · rw [hr]
      have h1k : 1 + k = k + 1 := by omega
      rw [h1k]
      refine ⟨by simp [hk], ?_, ?_⟩
      · intro j hj
        cases j with
        | zero => simp only [List.getD_cons_succ, List.getD_cons_zero]; omega
        | succ j =>
          simp only [List.length_cons, Nat.add_lt_add_iff_right] at hj
          simp only [List.getD_cons_succ]
          exact hmax j hj
      · intro j hj
        cases j with
        | zero => simp only [List.getD_cons_succ, List.getD_cons_zero]; omega
        | succ j =>
          simp only [List.getD_cons_succ]
          exact hfirst j (by omega)

/-- the gap list of `by_arm`: entry `k` is `start[margin+1+k] − end[margin+k]` -/
theorem gaps_getD (starts ends : List Int) (m L k : Nat) (hk : k < L)
    (hs : m + 1 + L ≤ starts.length) (he : m + L ≤ ends.length) :
    ((((starts.drop (m + 1)).take L).zip ((ends.drop m).take L)).map (fun p => p.1 - p.2)).getD k 0 =
      starts.getD (m + 1 + k) 0 - ends.getD (m + k) 0 := by
  have hlen : k < ((((starts.drop (m + 1)).take L).zip ((ends.drop m).take L)).map (fun p => p.1 - p.2)).length := by
    simp only [List.length_map, List.length_zip, List.length_take, List.length_drop]; omega
  rw [getD_lt _ _ hlen, getD_lt _ _ (by omega), getD_lt _ _ (by omega)]
  simp only [List.getElem_map, List.getElem_zip, List.getElem_take, List.getElem_drop]

theorem gaps_length (starts ends : List Int) (m L : Nat)
    (hs : m + 1 + L ≤ starts.length) (he : m + L ≤ ends.length) :
    ((((starts.drop (m + 1)).take L).zip ((ends.drop m).take L)).map (fun p => p.1 - p.2)).length = L := by
  simp only [List.length_map, List.length_zip, List.length_take, List.length_drop]; omega

/-- `by_arm` chooses exactly the split the specification demands -/
theorem cmereIdx_choice (starts ends : List Int) (hlen : ends.length = starts.length) (minGap : Int)
    (minArmBins : Nat) :
    ByArmChoice starts ends minGap (max minArmBins (roundTenth starts.length))
      (cmereIdx starts ends minGap minArmBins) := by
  unfold ByArmChoice cmereIdx
  simp only []
  generalize hm : max minArmBins (roundTenth starts.length) = m
  generalize hn : starts.length = n at *
  by_cases hcand : n > 2 * m + 1
  · rw [if_pos hcand]
    have hL1 : n - m - (m + 1) = n - 2 * m - 1 := by omega
    have hL2 : n - m - 1 - m = n - 2 * m - 1 := by omega
    rw [hL1, hL2]
    generalize hL : n - 2 * m - 1 = L
    have hLpos : 0 < L := by omega
    have hs : m + 1 + L ≤ starts.length := by omega
    have he : m + L ≤ ends.length := by omega
    generalize hg : ((((starts.drop (m + 1)).take L).zip ((ends.drop m).take L)).map (fun p => p.1 - p.2)) = gaps
    have hglen : gaps.length = L := by rw [← hg]; exact gaps_length starts ends m L hs he
    have hgget : ∀ k, k < L → gaps.getD k 0 = starts.getD (m + 1 + k) 0 - ends.getD (m + k) 0 := by
      intro k hk; rw [← hg]; exact gaps_getD starts ends m L k hk hs he
    have hgne : gaps ≠ [] := by
      intro h; rw [h] at hglen; simp at hglen; omega
    obtain ⟨hlt, hmax, hfirst⟩ := argmax_spec gaps hgne
    rw [hglen] at hlt hmax
    generalize argmax gaps = i at hlt hmax hfirst
    have hgi := hgget i hlt
    have gapAt : ∀ j, m + 1 ≤ j → j + m + 1 ≤ n →
        starts.getD j 0 - ends.getD (j - 1) 0 = gaps.getD (j - (m + 1)) 0 := by
      intro j h1 h2
      rw [hgget (j - (m + 1)) (by omega)]
      have e1 : m + 1 + (j - (m + 1)) = j := by omega
      have e2 : m + (j - (m + 1)) = j - 1 := by omega
      rw [e1, e2]
    by_cases hsz : gaps.getD i 0 ≥ minGap
    · rw [if_pos hsz]
      refine ⟨fun _ => ⟨⟨by omega, by omega⟩, ?_, ?_, ?_⟩, fun h => by omega⟩
      · rw [gapAt (i + m + 1) (by omega) (by omega)]
        have : i + m + 1 - (m + 1) = i := by omega
        rw [this]; exact hsz
      · intro j hj
        rw [gapAt j hj.1 hj.2, gapAt (i + m + 1) (by omega) (by omega)]
        have : i + m + 1 - (m + 1) = i := by omega
        rw [this]
        exact hmax _ (by omega)
      · intro j hj hji
        rw [gapAt j hj.1 hj.2, gapAt (i + m + 1) (by omega) (by omega)]
        have : i + m + 1 - (m + 1) = i := by omega
        rw [this]
        exact hfirst _ (by omega)
    · rw [if_neg hsz]
      refine ⟨fun h => absurd rfl h, fun _ j hj => ?_⟩
      rw [gapAt j hj.1 hj.2]
      have := hmax (j - (m + 1)) (by omega)
      omega
  · rw [if_neg hcand]
    refine ⟨fun h => absurd rfl h, fun _ j hj => ?_⟩
    omega

/-- the arms are the rows before and from the chosen position -/
theorem armsOfChrom_eq {α} (rows : List α) (s e : α → Int) (minGap : Int) (minArmBins : Nat) :
    armsOfChrom rows s e minGap minArmBins =
      if cmereIdx (rows.map s) (rows.map e) minGap minArmBins = 0 then [rows]
      else [rows.take (cmereIdx (rows.map s) (rows.map e) minGap minArmBins),
            rows.drop (cmereIdx (rows.map s) (rows.map e) minGap minArmBins)] := rfl

/-- when `by_arm` splits, both arms keep more than `margin` bins (so at least `min_arm_bins + 1`) -/
theorem cmereIdx_bounds (starts ends : List Int) (minGap : Int) (minArmBins : Nat)
    (h : cmereIdx starts ends minGap minArmBins ≠ 0) (hlen : ends.length = starts.length) :
    max minArmBins (roundTenth starts.length) + 1 ≤ cmereIdx starts ends minGap minArmBins ∧
    cmereIdx starts ends minGap minArmBins + max minArmBins (roundTenth starts.length) + 1 ≤ starts.length :=
  ((cmereIdx_choice starts ends hlen minGap minArmBins).1 h).1

end CnvVerif
