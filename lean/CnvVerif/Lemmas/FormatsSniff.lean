/-
  C08 — format auto-detection (`tabio.sniff_region_format`) recognises what the writers print.
  Only the first data line decides; every proof evaluates the cascade `SNIFF_ORDER` step by step on
  that line, so a reordered cascade (or a changed pattern predicate) breaks the proofs.
-/
import CnvVerif.Lemmas.Formats
namespace CnvVerif.Fmt
open CnvVerif CnvVerif.Generated

/-! ## statements' vocabulary -/

/-- the file name carries no (mis-sliced) format hint: `ext[1:]` is not a key of `format_patterns` -/
def NoHint (ext : String) : Prop :=
  (SNIFF_PATTERNS.map (·.1)).contains (String.ofList (ext.toList.drop 1)) = false

/-- chromosome names made of letters, digits and underscores — the alphabet of `\w`, for which the
    property claims auto-detection — that do not read as a `track` / `browser` line -/
def WordName (c : String) : Prop := isWord c = true ∧ NoTrackName c

/-- rows have non-negative coordinates (so that they print as digit strings) -/
def NonNegRows (t : FTab) : Prop := ∀ r ∈ t.rows, 0 ≤ r.s ∧ 0 ≤ r.e

/-- interval lists: the strand column is `+`, `-` or `.` and the gene label has no white space -/
def WFIntervalSniff (t : FTab) : Prop :=
  ∀ r ∈ t.rows, (∃ g, (colCell t "gene" r).getD (.str "-") = .str g ∧ isNonSpace g = true) ∧
    (∃ s, (colCell t "strand" r).getD (.str "+") = .str s ∧ isOneOf ['.', '+', '-'] s = true)

/-! ## characters and fields -/

theorem word_beq_false {c d : Char} (h : isWordCh c = true) (hd : isWordCh d = false) :
    (d == c) = false := by
  cases hdc : d == c with
  | false => rfl
  | true =>
    have := eq_of_beq hdc
    subst this
    rw [h] at hd
    exact absurd hd (by decide)

theorem word_not_space {c : Char} (h : isWordCh c = true) : isSpaceCh c = false := by
  cases hs : isSpaceCh c with
  | false => rfl
  | true =>
    simp only [isSpaceCh, Bool.or_eq_true, beq_iff_eq] at hs
    rcases hs with ((((rfl | rfl) | rfl) | rfl) | rfl) | rfl <;> exact absurd h (by decide)

theorem isWord_iff (s : String) :
    isWord s = true ↔ s.toList ≠ [] ∧ ∀ x ∈ s.toList, isWordCh x = true := by
  unfold isWord
  simp only [Bool.and_eq_true, Bool.not_eq_true', List.isEmpty_eq_false_iff, List.all_eq_true]

theorem isDigits_iff (s : String) :
    isDigits s = true ↔ s.toList ≠ [] ∧ ∀ x ∈ s.toList, x.isDigit = true := by
  unfold isDigits
  simp only [Bool.and_eq_true, Bool.not_eq_true', List.isEmpty_eq_false_iff, List.all_eq_true]

theorem isNonSpace_iff (s : String) :
    isNonSpace s = true ↔ s.toList ≠ [] ∧ ∀ x ∈ s.toList, isSpaceCh x = false := by
  unfold isNonSpace
  simp only [Bool.and_eq_true, Bool.not_eq_true', List.isEmpty_eq_false_iff, List.all_eq_true]

theorem isDigits_toString (i : Int) (h : 0 ≤ i) : isDigits (toString i) = true :=
  (isDigits_iff _).mpr (toString_digits i h)

theorem isNonSpace_of_isWord {s : String} (h : isWord s = true) : isNonSpace s = true := by
  obtain ⟨hne, hall⟩ := (isWord_iff s).mp h
  exact (isNonSpace_iff s).mpr ⟨hne, fun x hx => word_not_space (hall x hx)⟩

/-- a field whose first character is a word character -/
def FirstWord (s : String) : Prop := ∃ c0 r, s.toList = c0 :: r ∧ isWordCh c0 = true

theorem firstWord_of_isWord {s : String} (h : isWord s = true) : FirstWord s := by
  obtain ⟨hne, hall⟩ := (isWord_iff s).mp h
  cases hs : s.toList with
  | nil => exact absurd hs hne
  | cons c0 r => exact ⟨c0, r, hs, hall c0 (by rw [hs]; exact List.mem_cons_self)⟩

/-- a field starting with a word character does not start with a literal whose first character is
    not a word character (`#`, `@`, …) -/
theorem FirstWord.sw_false {s : String} (h : FirstWord s) (p : String)
    (hp : p.toList.head?.map isWordCh = some false) : sw p s = false := by
  obtain ⟨c0, r, hs, hw⟩ := h
  unfold sw
  cases hpl : p.toList with
  | nil => rw [hpl] at hp; exact absurd hp (by simp)
  | cons d r' =>
    rw [hpl] at hp
    have hd : isWordCh d = false := by simpa using hp
    rw [hs]
    simp only [List.isPrefixOf, word_beq_false hw hd, Bool.false_and]

theorem FirstWord.beq_false {s : String} (h : FirstWord s) (p : String)
    (hp : p.toList.head?.map isWordCh = some false) : (s == p) = false := by
  cases hb : s == p with
  | false => rfl
  | true =>
    have := eq_of_beq hb
    subst this
    have h1 := h.sw_false s hp
    have h2 : sw s s = true := by
      unfold sw
      exact List.isPrefixOf_iff_prefix.mpr (List.prefix_refl _)
    rw [h1] at h2
    exact absurd h2 (by decide)

theorem FirstWord.not_allSpace {s : String} (h : FirstWord s) : s.toList.all isSpaceCh = false := by
  obtain ⟨c0, r, hs, hw⟩ := h
  rw [hs]
  simp only [List.all_cons, word_not_space hw, Bool.false_and]

theorem isDigits_ne_start {s : String} (h : isDigits s = true) : (s == "start") = false := by
  cases hb : s == "start" with
  | false => rfl
  | true =>
    have := eq_of_beq hb
    subst this
    exact absurd h (by decide)

/-- a literal without the character `y` that is a prefix of `a ++ y :: b` is a prefix of `a` -/
theorem isPrefixOf_append_stop (p a : List Char) (y : Char) (b : List Char) (hy : y ∉ p)
    (h : p.isPrefixOf (a ++ y :: b) = true) : p.isPrefixOf a = true := by
  induction p generalizing a with
  | nil => simp [List.isPrefixOf]
  | cons x p' ih =>
    cases a with
    | nil =>
      simp only [List.nil_append, List.isPrefixOf, Bool.and_eq_true, beq_iff_eq] at h
      exact absurd (by rw [h.1]; exact List.mem_cons_self) hy
    | cons a0 a' =>
      simp only [List.cons_append, List.isPrefixOf, Bool.and_eq_true] at h ⊢
      exact ⟨h.1, ih a' (fun hm => hy (List.mem_cons_of_mem _ hm)) h.2⟩

/-! ## the cascade, one step at a time -/

theorem steps_eq :
    (SNIFF_ORDER.flatMap (fun k => if k == "gff" then ["gff", "vcf", "#"] else [k])) =
      ["gff", "vcf", "#", "text", "tab", "interval", "refflat", "bed"] := by
  unfold SNIFF_ORDER
  decide

theorem sniffLine_none (f : Line) :
    sniffLine SNIFF_ORDER none f =
      sniffLine.go f (f.headD "") ["gff", "vcf", "#", "text", "tab", "interval", "refflat", "bed"] := by
  unfold sniffLine
  simp only [steps_eq]

theorem go_gff (f : Line) (f0 : String) (ks : List String) :
    sniffLine.go f f0 ("gff" :: ks) =
      if sw "##gff-version" f0 || patMatch "gff" f then .found "gff" else sniffLine.go f f0 ks := by
  rw [sniffLine.go]; rfl

theorem go_vcf (f : Line) (f0 : String) (ks : List String) :
    sniffLine.go f f0 ("vcf" :: ks) =
      if sw "##fileformat=VCF" f0 || (f0 == "#CHROM" && f.getD 1 "" == "POS" && sw "ID" (f.getD 2 "")) then
        .found "vcf" else sniffLine.go f f0 ks := by
  rw [sniffLine.go]; rfl

theorem go_hash (f : Line) (f0 : String) (ks : List String) :
    sniffLine.go f f0 ("#" :: ks) = if sw "#" f0 then .skip else sniffLine.go f f0 ks := by
  rw [sniffLine.go]; rfl

theorem go_text (f : Line) (f0 : String) (ks : List String) :
    sniffLine.go f f0 ("text" :: ks) =
      if patMatch "text" f then .found "text" else sniffLine.go f f0 ks := by
  rw [sniffLine.go]; rfl

theorem go_tab (f : Line) (f0 : String) (ks : List String) :
    sniffLine.go f f0 ("tab" :: ks) =
      if patMatch "tab" f then .found "tab" else sniffLine.go f f0 ks := by
  rw [sniffLine.go]; rfl

theorem go_interval (f : Line) (f0 : String) (ks : List String) :
    sniffLine.go f f0 ("interval" :: ks) =
      if sw "@" f0 || patMatch "interval" f then .found "interval" else sniffLine.go f f0 ks := by
  rw [sniffLine.go]; rfl

theorem go_refflat (f : Line) (f0 : String) (ks : List String) :
    sniffLine.go f f0 ("refflat" :: ks) =
      if patMatch "refflat" f then .found "refflat" else sniffLine.go f f0 ks := by
  rw [sniffLine.go]; rfl

theorem go_bed (f : Line) (f0 : String) (ks : List String) :
    sniffLine.go f f0 ("bed" :: ks) =
      if patMatch "bed" f then .found "bed" else sniffLine.go f f0 ks := by
  rw [sniffLine.go]; rfl

/-! ## the patterns on fields -/

theorem patMatch_gff_eq (f : Line) : patMatch "gff" f =
    (decide (f.length ≥ 9) && isWord (f.getD 0 "") && isNonSpace (f.getD 1 "") && isWord (f.getD 2 "")
      && isDigits (f.getD 3 "") && isDigits (f.getD 4 "") && isNonSpace (f.getD 5 "")
      && isOneOf ['.', '?', '+', '-'] (f.getD 6 "") && isOneOf ['0', '1', '2', '.'] (f.getD 7 "")) := rfl

theorem patMatch_gff_short (f : Line) (h : f.length < 9) : patMatch "gff" f = false := by
  have hd : decide (f.length ≥ 9) = false := decide_eq_false (by omega)
  rw [patMatch_gff_eq, hd]
  simp only [Bool.false_and]

theorem patMatch_gff_nodigits (f : Line) (h : isDigits (f.getD 3 "") = false) :
    patMatch "gff" f = false := by
  rw [patMatch_gff_eq, h]
  simp only [Bool.false_and, Bool.and_false]

theorem patMatch_text_eq (f : Line) : patMatch "text" f =
    (!((f.getD 0 "").toList.takeWhile isWordCh).isEmpty &&
      (match (f.getD 0 "").toList.dropWhile isWordCh with
        | ':' :: r => (match r.dropWhile Char.isDigit with
          | '-' :: _ => true
          | _ => false)
        | _ => false)) := rfl

/-- `\w+:` does not match a field made of word characters only -/
theorem patMatch_text_word (f : Line) (h : ∀ x ∈ (f.getD 0 "").toList, isWordCh x = true) :
    patMatch "text" f = false := by
  rw [patMatch_text_eq, dropWhile_eq_nil_of_all _ _ h]
  simp only [Bool.and_false]

/-- `\w+:\d*-` matches `chrom:digits-…` -/
theorem patMatch_text_label (f : Line) (w ds rest : List Char) (hne : w ≠ [])
    (hw : ∀ x ∈ w, isWordCh x = true) (hds : ∀ x ∈ ds, x.isDigit = true)
    (h : (f.getD 0 "").toList = w ++ ':' :: (ds ++ '-' :: rest)) : patMatch "text" f = true := by
  have hcolon : isWordCh ':' = false := by decide
  have hminus : Char.isDigit '-' = false := by decide
  rw [patMatch_text_eq, h, takeWhile_append_stop _ w ':' _ hw hcolon,
    dropWhile_append_stop _ w ':' _ hw hcolon]
  simp only [dropWhile_append_stop _ ds '-' rest hds hminus, Bool.and_true, Bool.not_eq_true',
    List.isEmpty_eq_false_iff]
  exact hne

theorem patMatch_tab_eq (f : Line) : patMatch "tab" f =
    (decide (f.length ≥ 3) && f.getD 0 "" == "chromosome" && f.getD 1 "" == "start" &&
      sw "end" (f.getD 2 "")) := rfl

theorem patMatch_tab_nostart (f : Line) (h : (f.getD 1 "" == "start") = false) :
    patMatch "tab" f = false := by
  rw [patMatch_tab_eq, h]
  simp only [Bool.false_and, Bool.and_false]

theorem patMatch_interval_eq (f : Line) : patMatch "interval" f =
    (f.length == 5 && isWord (f.getD 0 "") && isDigits (f.getD 1 "") && isDigits (f.getD 2 "")
      && isOneOf ['.', '+', '-'] (f.getD 3 "") && isNonSpace (f.getD 4 "")) := rfl

theorem patMatch_interval_len (f : Line) (h : f.length ≠ 5) : patMatch "interval" f = false := by
  have hd : (f.length == 5) = false := by
    cases hb : f.length == 5 with
    | false => rfl
    | true => exact absurd (eq_of_beq hb) h
  rw [patMatch_interval_eq, hd]
  simp only [Bool.false_and]

theorem patMatch_refflat_len (f : Line) (h : f.length ≠ 11) : patMatch "refflat" f = false := by
  have hd : (f.length == 11) = false := by
    cases hb : f.length == 11 with
    | false => rfl
    | true => exact absurd (eq_of_beq hb) h
  have he : patMatch "refflat" f =
    (f.length == 11 && isNonSpace (f.getD 0 "") && isNonSpace (f.getD 1 "") && isWord (f.getD 2 "")
      && isOneOf ['+', '-'] (f.getD 3 "") && isDigits (f.getD 4 "") && isDigits (f.getD 5 "")
      && isDigits (f.getD 6 "") && isDigits (f.getD 7 "") && isDigits (f.getD 8 "")
      && isCommaDigits (f.getD 9 "").toList && isCommaDigits (f.getD 10 "").toList) := rfl
  rw [he, hd]
  simp only [Bool.false_and]

theorem patMatch_bed_eq (f : Line) : patMatch "bed" f =
    (decide (f.length ≥ 3) && isNonSpace (f.getD 0 "") && isDigits (f.getD 1 "") &&
      (match (f.getD 2 "").toList with
       | c :: _ => c.isDigit
       | [] => false)) := rfl

theorem patMatch_bed_of (f : Line) (hlen : 3 ≤ f.length) (h0 : isNonSpace (f.getD 0 "") = true)
    (h1 : isDigits (f.getD 1 "") = true) (h2 : isDigits (f.getD 2 "") = true) :
    patMatch "bed" f = true := by
  have hd : decide (f.length ≥ 3) = true := decide_eq_true hlen
  obtain ⟨hne, hall⟩ := (isDigits_iff _).mp h2
  rw [patMatch_bed_eq, hd, h0, h1]
  cases hs : (f.getD 2 "").toList with
  | nil => exact absurd hs hne
  | cons c r =>
    simp only [Bool.and_self, Bool.true_and]
    exact hall c (by rw [hs]; exact List.mem_cons_self)

/-! ## the first data line decides -/

theorem autoFormat_first (ext : String) (hx : NoHint ext) (f : Line) (rest : List Line) (k : String)
    (h1 : f.all (fun x => x.toList.all isSpaceCh) = false)
    (h2 : sw "track" (f.headD "") = false) (h3 : sw "browser " (f.headD "") = false)
    (h4 : sniffLine SNIFF_ORDER none f = .found k) :
    autoFormat ext (f :: rest) = .ok k := by
  unfold NoHint at hx
  unfold autoFormat sniff
  simp only [hx, Bool.false_eq_true, ↓reduceIte]
  rw [sniff.go]
  simp only [h1, h2, h3, h4, Bool.or_self, Bool.false_eq_true, ↓reduceIte]
  rfl

/-- the tests up to and including `tab` fail on a line `chrom, digits, …` -/
theorem sniffLine_coords (c ds : String) (rest : List String) (hc : isWord c = true)
    (hds : isDigits ds = true) (hlen : rest.length < 7) :
    sniffLine SNIFF_ORDER none (c :: ds :: rest) =
      sniffLine.go (c :: ds :: rest) c ["interval", "refflat", "bed"] := by
  have hfw := firstWord_of_isWord hc
  have e1 : sw "##gff-version" c = false := hfw.sw_false _ (by decide)
  have e2 : sw "##fileformat=VCF" c = false := hfw.sw_false _ (by decide)
  have e3 : (c == "#CHROM") = false := hfw.beq_false _ (by decide)
  have e4 : sw "#" c = false := hfw.sw_false _ (by decide)
  have p1 : patMatch "gff" (c :: ds :: rest) = false :=
    patMatch_gff_short _ (by simp only [List.length_cons]; omega)
  have p2 : patMatch "text" (c :: ds :: rest) = false :=
    patMatch_text_word _ ((isWord_iff c).mp hc).2
  have p3 : patMatch "tab" (c :: ds :: rest) = false :=
    patMatch_tab_nostart _ (isDigits_ne_start hds)
  rw [sniffLine_none, go_gff, go_vcf, go_hash, go_text, go_tab]
  simp only [List.headD_cons, e1, e2, e3, e4, p1, p2, p3, Bool.or_self, Bool.false_and,
    Bool.false_eq_true, ↓reduceIte]

/-- a line `chrom, start, end [, name]` is BED -/
theorem sniffLine_bed (c ds de : String) (rest : List String) (hlen : rest.length < 2)
    (hc : isWord c = true) (hds : isDigits ds = true) (hde : isDigits de = true) :
    sniffLine SNIFF_ORDER none (c :: ds :: de :: rest) = .found "bed" := by
  have hfw := firstWord_of_isWord hc
  have e1 : sw "@" c = false := hfw.sw_false _ (by decide)
  have p1 : patMatch "interval" (c :: ds :: de :: rest) = false :=
    patMatch_interval_len _ (by simp only [List.length_cons]; omega)
  have p2 : patMatch "refflat" (c :: ds :: de :: rest) = false :=
    patMatch_refflat_len _ (by simp only [List.length_cons]; omega)
  have p3 : patMatch "bed" (c :: ds :: de :: rest) = true :=
    patMatch_bed_of _ (by simp only [List.length_cons]; omega) (isNonSpace_of_isWord hc) hds hde
  rw [sniffLine_coords c ds (de :: rest) hc hds (by simp only [List.length_cons]; omega),
    go_interval, go_refflat, go_bed]
  simp only [e1, p1, p2, p3, Bool.or_self, Bool.false_eq_true, ↓reduceIte]

/-- a line `chrom, start, end, strand, name` is a Picard interval -/
theorem sniffLine_interval (c ds de st g : String)
    (hc : isWord c = true) (hds : isDigits ds = true) (hde : isDigits de = true)
    (hst : isOneOf ['.', '+', '-'] st = true) (hg : isNonSpace g = true) :
    sniffLine SNIFF_ORDER none [c, ds, de, st, g] = .found "interval" := by
  have p1 : patMatch "interval" [c, ds, de, st, g] = true := by
    rw [patMatch_interval_eq]
    show ((5 == 5) && isWord c && isDigits ds && isDigits de && isOneOf ['.', '+', '-'] st
      && isNonSpace g) = true
    rw [hc, hds, hde, hst, hg]
    rfl
  rw [sniffLine_coords c ds [de, st, g] hc hds (by simp only [List.length_cons, List.length_nil]; omega),
    go_interval]
  simp only [p1, Bool.or_true, ↓reduceIte]

/-! ## the written first line is a data line -/

theorem skip_conds (c : String) (rest : List String) (hw : WordName c) :
    (c :: rest).all (fun x => x.toList.all isSpaceCh) = false ∧
    sw "track" ((c :: rest).headD "") = false ∧ sw "browser " ((c :: rest).headD "") = false := by
  refine ⟨?_, hw.2.1, hw.2.2⟩
  simp only [List.all_cons, (firstWord_of_isWord hw.1).not_allSpace, Bool.false_and]

/-! ## BED -/

theorem sniff_written_bed3 (t : FTab) (ext : String) (hx : NoHint ext) (hne : t.rows ≠ [])
    (hw : ∀ r ∈ t.rows, WordName r.chrom) (hp : NonNegRows t) :
    autoFormat ext (renderLines (writeBed3 t)) = .ok "bed" := by
  rw [renderLines_writeBed3]
  cases hr : t.rows with
  | nil => exact absurd hr hne
  | cons r rs =>
    have hmem : r ∈ t.rows := by rw [hr]; exact List.mem_cons_self
    have hwr := hw r hmem
    have hpr := hp r hmem
    obtain ⟨s1, s2, s3⟩ := skip_conds r.chrom [toString (r.s + WRITE_SHIFT_bed3), toString r.e] hwr
    rw [List.map_cons]
    refine autoFormat_first ext hx _ _ "bed" s1 s2 s3 ?_
    exact sniffLine_bed _ _ _ [] (by decide) hwr.1
      (isDigits_toString _ (by simp only [WRITE_SHIFT_bed3]; omega)) (isDigits_toString _ hpr.2)

theorem sniff_written_bed4 (t : FTab) (ext : String) (hx : NoHint ext) (hne : t.rows ≠ [])
    (hw : ∀ r ∈ t.rows, WordName r.chrom) (hp : NonNegRows t) (hg : WFGene t) :
    autoFormat ext (renderLines (writeBed4 t)) = .ok "bed" := by
  rw [renderLines_writeBed4 t hg]
  cases hr : t.rows with
  | nil => exact absurd hr hne
  | cons r rs =>
    have hmem : r ∈ t.rows := by rw [hr]; exact List.mem_cons_self
    have hwr := hw r hmem
    have hpr := hp r hmem
    obtain ⟨s1, s2, s3⟩ :=
      skip_conds r.chrom [toString (r.s + WRITE_SHIFT_bed4), toString r.e, geneStr t r] hwr
    rw [List.map_cons]
    refine autoFormat_first ext hx _ _ "bed" s1 s2 s3 ?_
    exact sniffLine_bed _ _ _ [geneStr t r] (by simp only [List.length_cons, List.length_nil]; omega) hwr.1
      (isDigits_toString _ (by simp only [WRITE_SHIFT_bed4]; omega)) (isDigits_toString _ hpr.2)

/-- an empty BED file is read with the 3-column BED reader -/
theorem sniff_empty (ext : String) : autoFormat ext [] = .ok "bed3" := rfl

/-! ## chr:start-end text -/

theorem sniffLine_text (c : String) (a b : Int) (hc : isWord c = true)
    (ha : 0 ≤ a + WRITE_SHIFT_to_label) :
    sniffLine SNIFF_ORDER none [toLabel c a b] = .found "text" := by
  obtain ⟨hcne, hcall⟩ := (isWord_iff c).mp hc
  have hfw : FirstWord (toLabel c a b) := by
    obtain ⟨c0, r, hs, hw0⟩ := firstWord_of_isWord hc
    exact ⟨c0, _, by rw [toLabel_toList, hs]; rfl, hw0⟩
  have e1 : sw "##gff-version" (toLabel c a b) = false := hfw.sw_false _ (by decide)
  have e2 : sw "##fileformat=VCF" (toLabel c a b) = false := hfw.sw_false _ (by decide)
  have e3 : (toLabel c a b == "#CHROM") = false := hfw.beq_false _ (by decide)
  have e4 : sw "#" (toLabel c a b) = false := hfw.sw_false _ (by decide)
  have p1 : patMatch "gff" [toLabel c a b] = false :=
    patMatch_gff_short _ (by simp only [List.length_cons, List.length_nil]; omega)
  have p2 : patMatch "text" [toLabel c a b] = true :=
    patMatch_text_label _ c.toList (toString (a + WRITE_SHIFT_to_label)).toList (toString b).toList
      hcne hcall (toString_digits _ ha).2 (toLabel_toList c a b)
  rw [sniffLine_none, go_gff, go_vcf, go_hash, go_text]
  simp only [List.headD_cons, e1, e2, e3, e4, p1, p2, Bool.or_self, Bool.false_and,
    Bool.false_eq_true, ↓reduceIte]

theorem skip_conds_label (c : String) (a b : Int) (hw : WordName c) :
    [toLabel c a b].all (fun x => x.toList.all isSpaceCh) = false ∧
    sw "track" ([toLabel c a b].headD "") = false ∧ sw "browser " ([toLabel c a b].headD "") = false := by
  obtain ⟨hc, ht, hb⟩ := hw
  obtain ⟨hcne, hcall⟩ := (isWord_iff c).mp hc
  have hfw : FirstWord (toLabel c a b) := by
    obtain ⟨c0, r, hs, hw0⟩ := firstWord_of_isWord hc
    exact ⟨c0, _, by rw [toLabel_toList, hs]; rfl, hw0⟩
  refine ⟨?_, ?_, ?_⟩
  · simp only [List.all_cons, hfw.not_allSpace, Bool.false_and]
  · show sw "track" (toLabel c a b) = false
    cases h : sw "track" (toLabel c a b) with
    | false => rfl
    | true =>
      unfold sw at h ht
      rw [toLabel_toList] at h
      rw [isPrefixOf_append_stop _ _ ':' _ (by decide) h] at ht
      exact absurd ht (by decide)
  · show sw "browser " (toLabel c a b) = false
    cases h : sw "browser " (toLabel c a b) with
    | false => rfl
    | true =>
      unfold sw at h hb
      rw [toLabel_toList] at h
      rw [isPrefixOf_append_stop _ _ ':' _ (by decide) h] at hb
      exact absurd hb (by decide)

theorem sniff_written_text (t : FTab) (ext : String) (hx : NoHint ext) (hne : t.rows ≠ [])
    (hw : ∀ r ∈ t.rows, WordName r.chrom) (hp : NonNegRows t) :
    autoFormat ext (renderLines (writeText t)) = .ok "text" := by
  rw [renderLines_writeText]
  cases hr : t.rows with
  | nil => exact absurd hr hne
  | cons r rs =>
    have hmem : r ∈ t.rows := by rw [hr]; exact List.mem_cons_self
    have hwr := hw r hmem
    have hpr := hp r hmem
    obtain ⟨s1, s2, s3⟩ := skip_conds_label r.chrom (r.s + WRITE_SHIFT_text_writer) r.e hwr
    rw [List.map_cons]
    refine autoFormat_first ext hx _ _ "text" s1 s2 s3 ?_
    exact sniffLine_text _ _ _ hwr.1
      (by simp only [WRITE_SHIFT_text_writer, WRITE_SHIFT_to_label]; omega)

/-! ## Picard interval lists -/

theorem sniff_written_interval (t : FTab) (ext : String) (hx : NoHint ext) (hne : t.rows ≠ [])
    (hw : ∀ r ∈ t.rows, WordName r.chrom) (hp : NonNegRows t) (hi : WFIntervalSniff t) :
    autoFormat ext (renderLines (writeInterval t)) = .ok "interval" := by
  cases hr : t.rows with
  | nil => exact absurd hr hne
  | cons r rs =>
    have hmem : r ∈ t.rows := by rw [hr]; exact List.mem_cons_self
    have hwr := hw r hmem
    have hpr := hp r hmem
    obtain ⟨⟨g, hg, hgs⟩, ⟨st, hst, hsts⟩⟩ := hi r hmem
    have hline : renderLines (writeInterval t) =
        [r.chrom, toString (r.s + WRITE_SHIFT_interval), toString r.e, st, g] ::
          renderLines (rs.map fun r =>
            [.str r.chrom, .int (r.s + WRITE_SHIFT_interval), .int r.e,
             cellOut ((colCell t "strand" r).getD (.str "+")),
             cellOut ((colCell t "gene" r).getD (.str "-"))]) := by
      simp only [writeInterval, hr, List.map_cons, renderLines, hg, hst, cellOut, renderCellD,
        renderCell, Option.getD_some, List.map_nil]
    obtain ⟨s1, s2, s3⟩ :=
      skip_conds r.chrom [toString (r.s + WRITE_SHIFT_interval), toString r.e, st, g] hwr
    rw [hline]
    refine autoFormat_first ext hx _ _ "interval" s1 s2 s3 ?_
    exact sniffLine_interval _ _ _ _ _ hwr.1
      (isDigits_toString _ (by simp only [WRITE_SHIFT_interval]; omega)) (isDigits_toString _ hpr.2)
      hsts hgs

/-! ## tab -/

theorem sniffLine_tab_header (names : List String) (hn : ∀ n ∈ names, isDigits n = false) :
    sniffLine SNIFF_ORDER none ("chromosome" :: "start" :: "end" :: names) = .found "tab" := by
  have e1 : sw "##gff-version" "chromosome" = false := by decide
  have e2 : sw "##fileformat=VCF" "chromosome" = false := by decide
  have e4 : sw "#" "chromosome" = false := by decide
  have p1 : patMatch "gff" ("chromosome" :: "start" :: "end" :: names) = false := by
    cases names with
    | nil => exact patMatch_gff_short _ (by decide)
    | cons n ns => exact patMatch_gff_nodigits _ (hn n List.mem_cons_self)
  have p2 : patMatch "text" ("chromosome" :: "start" :: "end" :: names) = false :=
    patMatch_text_word _ (by
      show ∀ x ∈ "chromosome".toList, isWordCh x = true
      decide)
  have p3 : patMatch "tab" ("chromosome" :: "start" :: "end" :: names) = true := by
    rw [patMatch_tab_eq]
    have hd : decide (("chromosome" :: "start" :: "end" :: names).length ≥ 3) = true :=
      decide_eq_true (by simp only [List.length_cons]; omega)
    rw [hd]
    show (true && "chromosome" == "chromosome" && "start" == "start" && sw "end" "end") = true
    decide
  rw [sniffLine_none, go_gff, go_vcf, go_hash, go_text, go_tab]
  have e3 : ("chromosome" == "#CHROM") = false := by decide
  simp only [List.headD_cons, e1, e2, e3, e4, p1, p2, p3, Bool.or_self, Bool.false_and,
    Bool.false_eq_true, ↓reduceIte]

/-- tab files are recognised by their header, whatever the rows (column names are not all-digit strings) -/
theorem sniff_written_tab (t : FTab) (ext : String) (hx : NoHint ext)
    (hn : ∀ n ∈ t.names, isDigits n = false) :
    autoFormat ext (renderLines (writeTab t)) = .ok "tab" := by
  have hline : renderLines (writeTab t) =
      ("chromosome" :: "start" :: "end" :: t.names) ::
        renderLines (t.rows.map fun r =>
          [.str r.chrom, .int (r.s + WRITE_SHIFT_tab), .int r.e] ++ r.cols.map cellOut) := by
    have hm : ∀ l : List String, (l.map Cell.str).map renderCellD = l := by
      intro l
      induction l with
      | nil => rfl
      | cons a l ih => rw [List.map_cons, List.map_cons, ih]; rfl
    simp only [writeTab, renderLines, List.map_cons, hm]
    rfl
  rw [hline]
  refine autoFormat_first ext hx _ _ "tab" ?_ (show sw "track" "chromosome" = false by decide)
    (show sw "browser " "chromosome" = false by decide) (sniffLine_tab_header _ hn)
  simp only [List.all_cons, show "chromosome".toList.all isSpaceCh = false by decide, Bool.false_and]

end CnvVerif.Fmt
