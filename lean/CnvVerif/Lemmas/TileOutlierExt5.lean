/-
  Proofs about the outlier filter of `segment` (Model/TileOutlierExt5.lean).
-/
import CnvVerif.Model.TileOutlierExt5
import CnvVerif.Lemmas.Tile
import CnvVerif.Lemmas.TileRuns
import Mathlib.Data.Rat.Floor
import Mathlib.Tactic.Linarith
namespace CnvVerif.C03Outl
open CnvVerif

theorem absQ_nonneg (e : Rat) : 0 ≤ absQ e := by
  unfold absQ; split_ifs with h <;> linarith

theorem absQ_gt_iff (e c : Rat) : absQ e > c ↔ (e > c ∨ -e > c) := by
  unfold absQ
  split_ifs with h
  · constructor
    · intro h1; right; exact h1
    · rintro (h1 | h1)
      · linarith
      · exact h1
  · constructor
    · intro h1; left; exact h1
    · rintro (h1 | h1)
      · exact h1
      · linarith

theorem isOutlier_iff (m x trend quants : Rat) :
    isOutlier m x trend quants = true ↔ (x - trend > quants * m ∨ trend - x > quants * m) := by
  unfold isOutlier
  rw [decide_eq_true_iff, absQ_gt_iff]
  constructor
  · rintro (h | h)
    · left; exact h
    · right; linarith
  · rintro (h | h)
    · left; exact h
    · right; linarith

theorem on_trend_not_outlier (m t quants : Rat) (h : 0 ≤ quants * m) : isOutlier m t t quants = false := by
  rw [Bool.eq_false_iff]
  intro hc
  rw [isOutlier_iff] at hc
  rcases hc with hc | hc <;> linarith

theorem isOutlier_antitone (m m' x trend quants : Rat) (hq : 0 ≤ quants) (hm : m ≤ m')
    (h : isOutlier m' x trend quants = true) : isOutlier m x trend quants = true := by
  rw [isOutlier_iff] at h ⊢
  have : quants * m ≤ quants * m' := mul_le_mul_of_nonneg_left hm hq
  rcases h with h | h
  · left; linarith
  · right; linarith

theorem outlierMask_length (width : Nat) (m : Rat) (pts : List Pt) :
    (outlierMask width m pts).length = pts.length := by
  unfold outlierMask; split_ifs <;> simp

theorem outlierMask_short (width : Nat) (m : Rat) (pts : List Pt) (h : pts.length ≤ width) :
    outlierMask width m pts = List.replicate pts.length false := by
  unfold outlierMask; rw [if_pos h]

theorem outlierMask_long (width : Nat) (m : Rat) (pts : List Pt) (h : width < pts.length) :
    outlierMask width m pts = pts.map fun p => isOutlier m p.x p.trend p.quants := by
  unfold outlierMask; rw [if_neg (by omega)]

theorem flatMap_length_of {α β} (f : List α → List β) (hf : ∀ g, (f g).length = g.length) (gs : List (List α)) :
    (gs.flatMap f).length = gs.flatten.length := by
  induction gs with
  | nil => simp
  | cons g t ih => simp [List.flatMap_cons, hf, ih]

theorem dropMask_length (width : Nat) (factor : Rat) (rows : List (String × Pt)) :
    (dropMask width factor rows).length = rows.length := by
  unfold dropMask chromRuns
  have hfl := (splitRunsBy_spec (fun (a b : String × Pt) => a.1 == b.1) (fun a => a.1)
    (by intro a b h; simpa using h) rows).2.1
  have h := flatMap_length_of (fun g : List (String × Pt) => outlierMask width factor (g.map (·.2)))
    (by intro g; simp [outlierMask_length]) (splitRunsBy (fun (a b : String × Pt) => a.1 == b.1) rows)
  rw [hfl] at h
  exact h

theorem chromRuns_spec (rows : List (String × Pt)) :
    (chromRuns rows).flatten = rows ∧ (∀ g ∈ chromRuns rows, g ≠ []) ∧
      ∀ g ∈ chromRuns rows, ∀ a ∈ g, ∀ b ∈ g, a.1 = b.1 := by
  have h := splitRunsBy_spec (fun (a b : String × Pt) => a.1 == b.1) (fun a => a.1)
    (by intro a b h; simpa using h) rows
  exact ⟨h.2.1, h.1, h.2.2.1⟩

theorem dropOutliers_all_false {α} (rows : List α) :
    dropOutliers (List.replicate rows.length false) rows = rows := by
  unfold dropOutliers
  induction rows with
  | nil => simp
  | cons a t ih =>
    simp only [List.length_cons, List.replicate_succ, List.zip_cons_cons, List.filter_cons, Bool.not_false,
      if_true, List.map_cons]
    rw [ih]

theorem dropOutliers_mem {α} (mask : List Bool) (rows : List α) (a : α) (h : a ∈ dropOutliers mask rows) :
    a ∈ rows := by
  unfold dropOutliers at h
  simp only [List.mem_map, List.mem_filter] at h
  obtain ⟨p, ⟨hp, _⟩, rfl⟩ := h
  exact (List.of_mem_zip hp).1

theorem dropOutliers_sublist {α} (mask : List Bool) (rows : List α) :
    (dropOutliers mask rows).Sublist rows := by
  unfold dropOutliers
  induction rows generalizing mask with
  | nil => simp
  | cons a t ih =>
    cases mask with
    | nil => simp
    | cons m ms =>
      simp only [List.zip_cons_cons, List.filter_cons]
      cases m
      · simpa using (ih ms).cons_cons a
      · simpa using (ih ms).cons a

theorem filterKeep_outlier (skipLow : Bool) (minWeight skipOutliers : Rat) (b : Bin) (h : skipOutliers ≠ 0) :
    filterKeep skipLow minWeight skipOutliers (some true) b = false := by
  unfold filterKeep surviveMask
  have : (skipOutliers != 0) = true := by simpa using h
  simp [this]

theorem filterKeep_off (skipLow : Bool) (minWeight : Rat) (o : Option Bool) (b : Bin) :
    filterKeep skipLow minWeight 0 o b = surviveMask skipLow minWeight false b.log2 b.depth b.weight := by
  unfold filterKeep; simp

theorem countP_split {α} (p q : α → Bool) (l : List α) :
    (l.filter fun c => p c && q c).length + (l.filter fun c => !p c && q c).length = (l.filter q).length := by
  induction l with
  | nil => simp
  | cons a t ih =>
    simp only [List.filter_cons]
    cases hp : p a <;> cases hq : q a <;> simp <;> omega

/-- probes + filtered-out bins inside the segment = all input bins inside the segment -/
theorem probes_plus_dropped (u : List Bin) (hw : WFUnit u) (runs : List Nat) :
    ∀ g ∈ assembleUnit u runs,
      g.probes + ((u.filter (fun b => !b.keep && containedIn b g)).length : Int) =
        ((u.filter (fun b => containedIn b g)).length : Int) := by
  intro g hg
  rw [assembleUnit_probes_count u hw runs g hg]
  have := countP_split (fun b : Bin => b.keep) (fun b => containedIn b g) u
  exact_mod_cast this

end CnvVerif.C03Outl
