/-
  C16, tie to the source TEXT (cnvlib/reports.py): the selection rules of `genemetrics` / `breaks` in the hand-written
  model (Model/Genes.lean) equal the definitions the translator reads off the current source
  (Generated/ExprsGeneMetrics.lean; regenerated from /repo on every run).
-/
import CnvVerif.Generated.ExprsGeneMetrics
import CnvVerif.Model.Genes
namespace CnvVerif.Genes
open CnvVerif CnvVerif.Generated

/-- a row of `breaks` from the tuple the generated loop body appends -/
def toBrk (x : String × String × Int × Rat × Nat × Nat) : Brk :=
  { gene := x.1, chrom := x.2.1, loc := x.2.2.1, change := x.2.2.2.1, left := x.2.2.2.2.1, right := x.2.2.2.2.2 }


theorem reaches_src (v thr : Rat) (gene : String) :
    (reaches (some v) thr && gene != "") = src_gene_metrics_by_gene_keep v thr gene := by
  unfold reaches src_gene_metrics_by_gene_keep ratAbs
  by_cases h1 : (if v < 0 then -v else v) ≥ thr <;> by_cases h2 : gene = "" <;> simp [h1, h2]

theorem metricsByGene_src (t : List Bin) (thr : Rat) (skip : Bool) :
    metricsByGene t thr skip =
      (groupByGenes t skip).filter (fun r => match r.log2 with
        | some v => src_gene_metrics_by_gene_keep v thr r.gene
        | none => false) := by
  unfold metricsByGene
  congr 1
  funext r
  cases h : r.log2 with
  | none => simp [reaches]
  | some v => exact reaches_src v thr r.gene

theorem segment_reaches_src (v thr : Rat) :
    decide (ratAbs v ≥ thr) = src_gene_metrics_by_segment_keep v thr := by
  unfold src_gene_metrics_by_segment_keep ratAbs
  rfl

theorem metricsBySegment_src (t : List Bin) (segs : List SegRow) (thr : Rat) (skip : Bool) :
    metricsBySegment t segs thr skip =
      ((segsInOrder segs).filter (fun sg => src_gene_metrics_by_segment_keep sg.log2 thr)).flatMap
        (segmentPart t skip false) := by
  unfold metricsBySegment
  congr 2

theorem minProbesFilter_src (rows : List GRow) (m : Nat) :
    minProbesFilter rows m =
      if src_min_probes_applies m rows.length then
        (if rows.any (fun r => r.segProbes.isSome) then
          rows.filter (fun r => match r.segProbes with
            | some p => src_min_probes_keep p (m : Int)
            | none => false)
        else rows.filter (fun r => src_min_probes_keep (r.probes : Int) (m : Int)))
      else rows := by
  unfold minProbesFilter src_min_probes_applies src_min_probes_keep
  by_cases hm : m = 0
  · simp [hm]
  · by_cases hr : rows = []
    · simp [hr]
    · have hl : rows.length ≠ 0 := by simpa using hr
      have he : rows.isEmpty = false := by simpa using hr
      have hb : (m == 0) = false := by simpa using hm
      have hk : ∀ r : GRow, decide (r.probes ≥ m) = decide ((r.probes : Int) ≥ (m : Int)) := by
        intro r; simp
      simp only [hb, he, Bool.or_self, Bool.false_eq_true, ↓reduceIte, ne_eq, hm, not_false_eq_true, hl,
        and_self, decide_true, hk]
      split <;> first | rfl | (congr 1; funext r; cases r.segProbes <;> rfl)

theorem filterMap_eq_flatMap_toList' {α β} (f : α → Option β) (l : List α) :
    l.filterMap f = l.flatMap (fun a => (f a).toList) := by
  induction l with
  | nil => rfl
  | cons a l ih =>
    rw [List.flatMap_cons, ← ih]
    cases h : f a <;> simp [h]

theorem breaksAt_src (t : List Bin) (m : Nat) (cur nxt : SegRow) :
    breaksAt t m cur nxt =
      if src_get_breakpoints_skip nxt.chrom cur.chrom then []
      else (geneIntervals t cur.chrom).flatMap (fun g =>
        (src_get_breakpoints_gene g.starts cur.e g.stop m g.gene cur.chrom nxt.log2 cur.log2).map toBrk) := by
  unfold breaksAt src_get_breakpoints_skip
  by_cases hc : nxt.chrom = cur.chrom
  · simp only [hc, bne_self_eq_false, Bool.false_eq_true, ↓reduceIte, ne_eq, not_true_eq_false, decide_false]
    rw [filterMap_eq_flatMap_toList']
    congr 1
    funext g
    unfold src_get_breakpoints_gene
    by_cases h1 : g.starts.head?.getD 0 < cur.e <;> by_cases h2 : cur.e < g.stop <;>
      by_cases h3 : m ≤ g.starts.countP (fun s => decide (s < cur.e)) <;>
      by_cases h4 : m ≤ g.starts.countP (fun s => decide (s ≥ cur.e)) <;>
      simp [h1, h2, h3, h4, toBrk]
  · have : (nxt.chrom != cur.chrom) = true := by simpa using hc
    simp [this, hc]

end CnvVerif.Genes
