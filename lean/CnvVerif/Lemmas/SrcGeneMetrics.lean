/-
  C16, tie to the source TEXT (cnvlib/reports.py): the selection rules of `genemetrics` / `breaks` in the hand-written
  model (Model/Genes.lean) equal the definitions the translator reads off the current source
  (Generated/ExprsGeneMetrics.lean; regenerated from /repo on every run).
-/
import CnvVerif.Generated.ExprsGeneMetrics
import CnvVerif.Model.Genes
import CnvVerif.Lemmas.Genes
set_option linter.unusedSimpArgs false
namespace CnvVerif.Genes
open CnvVerif CnvVerif.Generated

/-- a row of `breaks` from the tuple the generated loop body appends -/
def toBrk (x : String × String × Int × Rat × Nat × Nat) : Brk :=
  { gene := x.1, chrom := x.2.1, loc := x.2.2.1, change := x.2.2.2.1, left := x.2.2.2.2.1, right := x.2.2.2.2.2 }


theorem reaches_src (v thr : Rat) (gene : String) :
    (reaches (some v) thr && gene != "") = src_gene_metrics_by_gene_keep thr gene v := by
  unfold reaches src_gene_metrics_by_gene_keep ratAbs
  by_cases h1 : (if v < 0 then -v else v) ≥ thr <;> by_cases h2 : gene = "" <;> simp [h1, h2]

theorem metricsByGene_src (t : List Bin) (thr : Rat) (skip : Bool) :
    metricsByGene t thr skip =
      (groupByGenes t skip).filter (fun r => match r.log2 with
        | some v => src_gene_metrics_by_gene_keep thr r.gene v
        | none => false) := by
  unfold metricsByGene
  congr 1
  funext r
  cases h : r.log2 with
  | none => simp [reaches]
  | some v => exact reaches_src v thr r.gene

theorem segment_reaches_src (v thr : Rat) :
    decide (ratAbs v ≥ thr) = src_gene_metrics_by_segment_keep thr v := by
  unfold src_gene_metrics_by_segment_keep ratAbs
  rfl

theorem metricsBySegment_src (t : List Bin) (segs : List SegRow) (thr : Rat) (skip : Bool) :
    metricsBySegment t segs thr skip =
      ((segsInOrder segs).filter (fun sg => src_gene_metrics_by_segment_keep thr sg.log2)).flatMap
        (segmentPart t skip false) := by
  unfold metricsBySegment
  congr 2

theorem minProbesFilter_src (rows : List GRow) (m : Nat) :
    minProbesFilter rows m =
      if src_min_probes_applies m rows.length then
        (if rows.any (fun r => r.segProbes.isSome) then
          rows.filter (fun r => match r.segProbes with
            | some p => src_min_probes_keep (m : Int) p
            | none => false)
        else rows.filter (fun r => src_min_probes_keep (m : Int) (r.probes : Int)))
      else rows := by
  unfold minProbesFilter src_min_probes_applies src_min_probes_keep
  by_cases hm : m = 0
  · simp [hm]
  · by_cases hr : rows = []
    · simp [hr]
    · have hl : rows.length ≠ 0 := by simpa using hr
      have he : rows.isEmpty = false := by simpa using hr
      have hb : (m == 0) = false := by simpa using hm
      have hk : ∀ r : GRow, decide (r.probes ≥ m) = decide ((r.probes : Int) ≥ (m : Int)) := by
        intro r; simp
      simp only [hb, he, Bool.or_self, Bool.false_eq_true, ↓reduceIte, ne_eq, hm, not_false_eq_true, hl,
        and_self, decide_true, hk]
      split <;> first | rfl | (congr 1; funext r; cases r.segProbes <;> rfl)

theorem filterMap_eq_flatMap_toList' {α β} (f : α → Option β) (l : List α) :
    l.filterMap f = l.flatMap (fun a => (f a).toList) := by
  induction l with
  | nil => rfl
  | cons a l ih =>
    rw [List.flatMap_cons, ← ih]
    cases h : f a <;> simp [h]

theorem breaksAt_src (t : List Bin) (m : Nat) (cur nxt : SegRow) :
    breaksAt t m cur nxt =
      if src_get_breakpoints_skip nxt.chrom cur.chrom then []
      else (geneIntervals t cur.chrom).flatMap (fun g =>
        (src_get_breakpoints_gene m g.gene g.starts g.stop cur.chrom cur.e nxt.log2 cur.log2).map toBrk) := by
  unfold breaksAt src_get_breakpoints_skip
  by_cases hc : nxt.chrom = cur.chrom
  · simp only [hc, bne_self_eq_false, Bool.false_eq_true, ↓reduceIte, ne_eq, not_true_eq_false, decide_false]
    rw [filterMap_eq_flatMap_toList']
    congr 1
    funext g
    unfold src_get_breakpoints_gene
    by_cases h1 : g.starts.head?.getD 0 < cur.e <;> by_cases h2 : cur.e < g.stop <;>
      by_cases h3 : m ≤ g.starts.countP (fun s => decide (s < cur.e)) <;>
      by_cases h4 : m ≤ g.starts.countP (fun s => decide (s ≥ cur.e)) <;>
      simp [h1, h2, h3, h4, toBrk]
  · have : (nxt.chrom != cur.chrom) = true := by simpa using hc
    simp [this, hc]

/-! ### segmetrics.segment_mean -/

theorem sumRat_eq_sum (l : List Rat) : sumRat l = l.sum := by
  induction l with
  | nil => rfl
  | cons a l ih => simp [sumRat] at ih ⊢; rw [ih]

theorem zipWith_cols (kept : List Bin) :
    List.zipWith (· * ·) (kept.map (·.log2)) (kept.map (·.weight)) = kept.map (fun b => b.log2 * b.weight) := by
  induction kept with
  | nil => rfl
  | cons a l ih => simp [ih]

theorem any_weight (kept : List Bin) :
    (kept.map (·.weight)).any (fun x => decide (x ≠ 0)) = kept.any (fun b => b.weight != 0) := by
  rw [List.any_map]
  congr 1
  funext b
  by_cases h : b.weight = 0 <;> simp [h]

/-- the rows `segment_mean` averages: all of them, or with `skip_low` those `drop_low_coverage` keeps -/
def keptRows (rows : List Bin) (skip : Bool) : List Bin := if skip then rows.filter keptLow else rows

theorem segmentMean_core (kept : List Bin) :
    (if kept.isEmpty = true then none
      else if (kept.any fun b => b.weight != 0) = true then
        some (sumRat (kept.map (fun b => b.log2 * b.weight)) / sumRat (kept.map (·.weight)))
      else some (sumRat (kept.map (·.log2)) / (kept.length : Rat))) =
    src_segment_mean kept.length (kept.map (·.log2)) (kept.map (·.weight)) := by
  unfold src_segment_mean
  rcases kept with _ | ⟨a, l⟩
  · rfl
  · have hw := any_weight (a :: l)
    have hz := zipWith_cols (a :: l)
    simp only [List.map_cons] at hw hz
    simp [hw, hz, sumRat_eq_sum]

theorem segmentMean_src (rows : List Bin) (skip : Bool) :
    segmentMean rows skip =
      src_segment_mean (keptRows rows skip).length ((keptRows rows skip).map (·.log2))
        ((keptRows rows skip).map (·.weight)) := by
  cases skip
  · simp only [segmentMean, keptRows, Bool.false_eq_true, ↓reduceIte]
    exact segmentMean_core rows
  · simp only [segmentMean, keptRows, ↓reduceIte]
    exact segmentMean_core (rows.filter keptLow)

/-! ### reports.group_by_genes: the row of a group -/

theorem zipWith_depth (rows : List Bin) :
    List.zipWith (· * ·) (rows.map (·.depth)) (rows.map (·.weight)) = rows.map (fun b => b.depth * b.weight) := by
  induction rows with
  | nil => rfl
  | cons a l ih => simp [ih]

/-- the tuple (chromosome, start, end, gene, log2, depth, weight, probes) of a genemetrics row with depth `d` -/
def rowTuple (r : GRow) (d : Rat) : String × Int × Int × String × Option Rat × Rat × Rat × Nat :=
  (r.chrom, r.s, r.e, r.gene, r.log2, d, r.weight, r.probes)

theorem groupRow_src (g : String) (rows : List Bin) (skip : Bool) (r : GRow)
    (h : groupRow g rows skip = some r) (hs : skipNames.contains g = false) (hw : r.weight ≠ 0) :
    ∃ d, r.depth = some d ∧
      src_group_by_genes_row g rows.length (rows.map (·.chrom)) (rows.map (·.s)) (rows.map (·.e))
        (rows.map (·.depth)) (rows.map (·.weight)) (segmentMean rows skip) = [rowTuple r d] := by
  obtain ⟨first, last, hf, hl, hg, hc, hs', he, hp, hwt, hlog, _, _, hd⟩ := groupRow_fields h
  refine ⟨_, hd hw, ?_⟩
  have hne : rows ≠ [] := by rintro rfl; simp at hf
  have hlen : rows.length ≠ 0 := by simpa using hne
  have hmem : ¬ g ∈ ([""] ++ ANTITARGET_ALIASES) := by
    intro hm
    have : skipNames.contains g = true := List.contains_iff_mem.mpr (by simpa [skipNames] using hm)
    rw [this] at hs; cases hs
  unfold src_group_by_genes_row rowTuple
  simp only [ne_eq, hlen, not_false_eq_true, not_true_eq_false, hmem, or_self, ↓reduceIte, List.cons.injEq, and_true]
  have h1 : (rows.map (·.chrom)).headD "" = r.chrom := by
    rw [hc]; cases rows with
    | nil => exact absurd rfl hne
    | cons a l => simp at hf; simp [hf]
  have h2 : (rows.map (·.s)).headD 0 = r.s := by
    rw [hs']; cases rows with
    | nil => exact absurd rfl hne
    | cons a l => simp at hf; simp [hf]
  have h3 : (rows.map (·.e)).getLastD 0 = r.e := by
    rw [he, List.getLastD_eq_getLast?, List.getLast?_map, hl]; rfl
  rw [h1, h2, h3, hg, hp, zipWith_depth, ← sumRat_eq_sum, ← sumRat_eq_sum, ← hwt, ← hlog]

theorem groupRow_src_skipped (g : String) (n : Nat) (m : Option Rat) (e : List Int) (w d : List Rat)
    (c : List String) (s : List Int) (hs : skipNames.contains g = true) :
    src_group_by_genes_row g n c s e d w m = [] := by
  have hm : g ∈ ([""] ++ ANTITARGET_ALIASES) := by
    have := List.contains_iff_mem.mp hs
    simpa [skipNames] using this
  unfold src_group_by_genes_row
  rw [if_pos (Or.inr hm)]


end CnvVerif.Genes
