/-
  Lemmas behind Props/C19.lean, part 2: the weighted estimators (`weighted_std`, `weighted_median`,
  `weighted_mad`).
-/
import CnvVerif.Lemmas.Descriptives
set_option linter.unusedSimpArgs false
set_option linter.unusedVariables false
namespace CnvVerif.Desc

/-! ### weighted mean and variance -/

/-- total weight -/
def totalW (p : List (Rat × Rat)) : Rat := (p.map (·.2)).sum

def shiftP (c : Rat) (p : List (Rat × Rat)) : List (Rat × Rat) := p.map (fun q => (q.1 + c, q.2))
def scaleP (k : Rat) (p : List (Rat × Rat)) : List (Rat × Rat) := p.map (fun q => (k * q.1, q.2))

theorem totalW_shiftP (c : Rat) (p : List (Rat × Rat)) : totalW (shiftP c p) = totalW p := by
  unfold totalW shiftP; rw [List.map_map]; rfl

theorem totalW_scaleP (k : Rat) (p : List (Rat × Rat)) : totalW (scaleP k p) = totalW p := by
  unfold totalW scaleP; rw [List.map_map]; rfl

theorem wavg_def (p : List (Rat × Rat)) : wavg p =
    if totalW p = 0 then none else some ((p.map (fun q => q.1 * q.2)).sum / totalW p) := rfl

theorem sum_map_add_mul (c : Rat) (p : List (Rat × Rat)) :
    (p.map (fun q => (q.1 + c) * q.2)).sum = (p.map (fun q => q.1 * q.2)).sum + c * totalW p := by
  unfold totalW
  induction p with
  | nil => simp
  | cons a t ih => simp only [List.map_cons, List.sum_cons, ih]; ring

theorem sum_map_mul_mul (k : Rat) (p : List (Rat × Rat)) :
    (p.map (fun q => (k * q.1) * q.2)).sum = k * (p.map (fun q => q.1 * q.2)).sum := by
  induction p with
  | nil => simp
  | cons a t ih => simp only [List.map_cons, List.sum_cons, ih]; ring

theorem wavg_shift (c : Rat) (p : List (Rat × Rat)) (m : Rat) (h : wavg p = some m) :
    wavg (shiftP c p) = some (m + c) := by
  rw [wavg_def] at h ⊢
  rw [totalW_shiftP]
  split at h
  · cases h
  · rename_i ht
    rw [if_neg ht]
    injection h with h
    unfold shiftP; rw [List.map_map]
    have : ((fun q : Rat × Rat => q.1 * q.2) ∘ fun q : Rat × Rat => (q.1 + c, q.2)) = fun q : Rat × Rat => (q.1 + c) * q.2 := rfl
    rw [this, sum_map_add_mul, ← h]
    congr 1; field_simp

theorem wavg_scale (k : Rat) (p : List (Rat × Rat)) (m : Rat) (h : wavg p = some m) :
    wavg (scaleP k p) = some (k * m) := by
  rw [wavg_def] at h ⊢
  rw [totalW_scaleP]
  split at h
  · cases h
  · rename_i ht
    rw [if_neg ht]
    injection h with h
    unfold scaleP; rw [List.map_map]
    have : ((fun q : Rat × Rat => q.1 * q.2) ∘ fun q : Rat × Rat => (k * q.1, q.2)) = fun q : Rat × Rat => (k * q.1) * q.2 := rfl
    rw [this, sum_map_mul_mul, ← h]
    congr 1; ring

theorem weightedVarCore_def (p : List (Rat × Rat)) : weightedVarCore p =
    match wavg p with
    | none => none
    | some mean => wavg (p.map (fun q => (sq (q.1 - mean), q.2))) := rfl

/-- adding a constant leaves the weighted variance unchanged -/
theorem weightedVar_shift (c : Rat) (p : List (Rat × Rat)) : weightedVarCore (shiftP c p) = weightedVarCore p := by
  rw [weightedVarCore_def, weightedVarCore_def]
  cases h : wavg p with
  | none =>
    have : wavg (shiftP c p) = none := by
      rw [wavg_def] at h ⊢; rw [totalW_shiftP]; split at h
      · rename_i ht; rw [if_pos ht]
      · cases h
    rw [this]
  | some m =>
    rw [wavg_shift c p m h]
    simp only [shiftP, List.map_map]
    congr 1
    apply List.map_congr_left
    intro q _
    simp only [Function.comp]
    congr 2; ring

/-- rescaling by `k` multiplies the weighted variance by `k²` (the standard deviation by `|k|`) -/
theorem weightedVar_scale (k : Rat) (p : List (Rat × Rat)) :
    weightedVarCore (scaleP k p) = (weightedVarCore p).map (fun v => k * k * v) := by
  rw [weightedVarCore_def, weightedVarCore_def]
  cases h : wavg p with
  | none =>
    have : wavg (scaleP k p) = none := by
      rw [wavg_def] at h ⊢; rw [totalW_scaleP]; split at h
      · rename_i ht; rw [if_pos ht]
      · cases h
    rw [this]; rfl
  | some m =>
    rw [wavg_scale k p m h]
    simp only [scaleP, List.map_map]
    have hfun : ((fun q : Rat × Rat => (sq (q.1 - k * m), q.2)) ∘ fun q => (k * q.1, q.2)) =
        (fun q => ((k * k) * q.1, q.2)) ∘ (fun q : Rat × Rat => (sq (q.1 - m), q.2)) := by
      funext q; simp only [Function.comp, sq]; congr 1; ring
    rw [hfun, ← List.map_map]
    cases h2 : wavg (p.map (fun q => (sq (q.1 - m), q.2))) with
    | none =>
      have : wavg (scaleP (k * k) (p.map (fun q => (sq (q.1 - m), q.2)))) = none := by
        rw [wavg_def] at h2 ⊢; rw [totalW_scaleP]; split at h2
        · rename_i ht; rw [if_pos ht]
        · cases h2
      simpa [scaleP] using this
    | some v =>
      have := wavg_scale (k * k) _ v h2
      simpa [scaleP] using this

theorem wavg_nonneg (p : List (Rat × Rat)) (hv : ∀ q ∈ p, 0 ≤ q.1) (hw : ∀ q ∈ p, 0 ≤ q.2) (v : Rat)
    (h : wavg p = some v) : 0 ≤ v := by
  rw [wavg_def] at h
  split at h
  · cases h
  · injection h with h
    rw [← h]
    apply div_nonneg
    · apply List.sum_nonneg
      intro x hx
      obtain ⟨q, hq, rfl⟩ := List.mem_map.mp hx
      exact mul_nonneg (hv q hq) (hw q hq)
    · unfold totalW
      apply List.sum_nonneg
      intro x hx
      obtain ⟨q, hq, rfl⟩ := List.mem_map.mp hx
      exact hw q hq

/-- the weighted variance is non-negative when the weights are -/
theorem weightedVar_nonneg (p : List (Rat × Rat)) (hw : ∀ q ∈ p, 0 ≤ q.2) (v : Rat)
    (h : weightedVarCore p = some v) : 0 ≤ v := by
  rw [weightedVarCore_def] at h
  cases hm : wavg p with
  | none => rw [hm] at h; cases h
  | some m =>
    rw [hm] at h
    apply wavg_nonneg _ _ _ v h
    · intro q hq; obtain ⟨r, _, rfl⟩ := List.mem_map.mp hq; exact sq_nonneg' _
    · intro q hq; obtain ⟨r, hr, rfl⟩ := List.mem_map.mp hq; exact hw r hr

theorem wavg_const (p : List (Rat × Rat)) (c : Rat) (hc : ∀ q ∈ p, q.1 = c) (ht : totalW p ≠ 0) :
    wavg p = some c := by
  rw [wavg_def, if_neg ht]
  have : (p.map (fun q => q.1 * q.2)).sum = c * totalW p := by
    unfold totalW
    clear ht
    induction p with
    | nil => simp
    | cons a t ih =>
      simp only [List.map_cons, List.sum_cons]
      rw [ih (fun q hq => hc q (List.mem_cons_of_mem _ hq)), hc a (by simp)]; ring
  rw [this]; congr 1; field_simp

/-- constant data have weighted variance 0 -/
theorem weightedVar_const (p : List (Rat × Rat)) (c : Rat) (hc : ∀ q ∈ p, q.1 = c) (ht : totalW p ≠ 0) :
    weightedVarCore p = some 0 := by
  rw [weightedVarCore_def, wavg_const p c hc ht]
  simp only []
  apply wavg_const
  · intro q hq; obtain ⟨r, hr, rfl⟩ := List.mem_map.mp hq; simp [hc r hr, sq]
  · unfold totalW; rw [List.map_map]; exact ht

/-- the weighted variance is the weight-averaged squared distance from the weighted mean -/
theorem weightedVar_published (p : List (Rat × Rat)) (ht : totalW p ≠ 0) :
    weightedVarCore p = some ((p.map (fun q => q.2 * (q.1 - (p.map (fun r => r.2 * r.1)).sum / totalW p) ^ 2)).sum / totalW p) := by
  rw [weightedVarCore_def, wavg_def, if_neg ht]
  simp only []
  rw [wavg_def]
  have ht' : totalW (p.map (fun q => (sq (q.1 - (p.map (fun q => q.1 * q.2)).sum / totalW p), q.2))) = totalW p := by
    unfold totalW; rw [List.map_map]; rfl
  rw [ht', if_neg ht, List.map_map]
  congr 2
  have e1 : (p.map (fun q => q.1 * q.2)) = (p.map (fun r => r.2 * r.1)) :=
    List.map_congr_left (fun q _ => mul_comm _ _)
  rw [e1]
  congr 1
  apply List.map_congr_left
  intro q _
  simp only [Function.comp, sq]; ring

/-! ### first index, arg max -/

theorem firstIdx_le (P : Nat → Bool) (n : Nat) : firstIdx P n ≤ n := by
  unfold firstIdx
  have := List.findIdx_le_length (p := P) (xs := List.range n)
  simpa using this

theorem firstIdx_spec_lt (P : Nat → Bool) (n i : Nat) (h : i < firstIdx P n) : P i = false := by
  unfold firstIdx at h
  have hle := List.findIdx_le_length (p := P) (xs := List.range n)
  have hi : i < (List.range n).length := by omega
  have := List.not_of_lt_findIdx h
  simpa using this

theorem firstIdx_spec_at (P : Nat → Bool) (n : Nat) (h : firstIdx P n < n) : P (firstIdx P n) = true := by
  unfold firstIdx at h ⊢
  have hlt : (List.range n).findIdx P < (List.range n).length := by simpa using h
  have := List.findIdx_getElem (w := hlt)
  simpa using this

theorem firstIdx_lt_of (P : Nat → Bool) (n i : Nat) (hi : i < n) (h : P i = true) : firstIdx P n ≤ i := by
  by_contra hc
  have := firstIdx_spec_lt P n i (by omega)
  rw [h] at this; cases this

theorem firstIdx_eq (P : Nat → Bool) (n k : Nat) (hk : k < n) (h : P k = true) (hb : ∀ i < k, P i = false) :
    firstIdx P n = k := by
  apply le_antisymm (firstIdx_lt_of P n k hk h)
  by_contra hc
  have hlt : firstIdx P n < k := by omega
  have := firstIdx_spec_at P n (by omega)
  rw [hb _ hlt] at this; cases this

theorem firstIdx_mono (P Q : Nat → Bool) (n : Nat) (h : ∀ i, Q i = true → P i = true) : firstIdx P n ≤ firstIdx Q n := by
  by_contra hc
  have hq : firstIdx Q n < n := by have := firstIdx_le P n; omega
  have h1 := h _ (firstIdx_spec_at Q n hq)
  have h2 := firstIdx_spec_lt P n (firstIdx Q n) (by omega)
  rw [h1] at h2; cases h2

/-- invariant of the arg-max scan -/
theorem argmaxGo_spec (pre xs : List Rat) (best : Rat) (bi : Nat) (hbi : bi < pre.length)
    (hbest : best = nth (pre ++ xs) bi) (hpre : ∀ x ∈ pre, x ≤ best) :
    argmaxGo xs best bi pre.length < (pre ++ xs).length ∧
    ∀ x ∈ pre ++ xs, x ≤ nth (pre ++ xs) (argmaxGo xs best bi pre.length) := by
  induction xs generalizing pre best bi with
  | nil =>
    unfold argmaxGo
    simp only [List.append_nil] at hbest ⊢
    exact ⟨hbi, fun x hx => by rw [← hbest]; exact hpre x hx⟩
  | cons y ys ih =>
    unfold argmaxGo
    have hlen : (pre ++ [y]).length = pre.length + 1 := by simp
    have happ : pre ++ y :: ys = (pre ++ [y]) ++ ys := by simp
    split
    · rename_i hlt
      have := ih (pre ++ [y]) y pre.length (by simp) (by
          rw [← happ, nth_eq_getElem _ _ (by simp)]; simp) (by
          intro x hx
          rcases List.mem_append.mp hx with h | h
          · exact le_trans (hpre x h) (le_of_lt hlt)
          · simp at h; rw [h])
      rw [hlen, ← happ] at this
      exact this
    · rename_i hnlt
      have := ih (pre ++ [y]) best bi (by simp; omega) (by rw [← happ]; exact hbest) (by
          intro x hx
          rcases List.mem_append.mp hx with h | h
          · exact hpre x h
          · simp at h; rw [h]; exact not_lt.mp hnlt)
      rw [hlen, ← happ] at this
      exact this

theorem argmax_spec (l : List Rat) (hl : l ≠ []) : argmax l < l.length ∧ ∀ x ∈ l, x ≤ nth l (argmax l) := by
  match l, hl with
  | x :: xs, _ =>
    have := argmaxGo_spec [x] xs x 0 (by simp) (by simp [nth]) (by simp)
    simpa [argmax] using this

/-! ### weight on either side of a value -/

abbrev SortedByValue (p : List (Rat × Rat)) : Prop := p.Pairwise (fun x y => x.1 ≤ y.1)

/-- total weight of the values strictly below `m` -/
def wBelow (m : Rat) (p : List (Rat × Rat)) : Rat := ((p.filter (fun q => decide (q.1 < m))).map (·.2)).sum
/-- total weight of the values strictly above `m` -/
def wAbove (m : Rat) (p : List (Rat × Rat)) : Rat := ((p.filter (fun q => decide (m < q.1))).map (·.2)).sum

theorem sum_weights_nonneg (p : List (Rat × Rat)) (hw : ∀ q ∈ p, 0 ≤ q.2) : 0 ≤ (p.map (·.2)).sum := by
  apply List.sum_nonneg
  intro x hx; obtain ⟨q, hq, rfl⟩ := List.mem_map.mp hx; exact hw q hq

theorem sum_filter_le (p : List (Rat × Rat)) (hw : ∀ q ∈ p, 0 ≤ q.2) (f : Rat × Rat → Bool) :
    ((p.filter f).map (·.2)).sum ≤ (p.map (·.2)).sum := by
  induction p with
  | nil => simp
  | cons a t ih =>
    have iht := ih (fun q hq => hw q (List.mem_cons_of_mem _ hq))
    have ha := hw a (by simp)
    rw [List.filter_cons]
    split
    · simp only [List.map_cons, List.sum_cons]; linarith
    · simp only [List.map_cons, List.sum_cons]; linarith

theorem filter_eq_nil_of (p : List (Rat × Rat)) (f : Rat × Rat → Bool) (h : ∀ q ∈ p, f q = false) : p.filter f = [] := by
  rw [List.filter_eq_nil_iff]; intro q hq; rw [h q hq]; simp

theorem wBelow_perm {p₁ p₂ : List (Rat × Rat)} (h : p₁.Perm p₂) (m : Rat) : wBelow m p₁ = wBelow m p₂ :=
  ((h.filter _).map _).sum_eq

theorem wAbove_perm {p₁ p₂ : List (Rat × Rat)} (h : p₁.Perm p₂) (m : Rat) : wAbove m p₁ = wAbove m p₂ :=
  ((h.filter _).map _).sum_eq

theorem totalW_perm {p₁ p₂ : List (Rat × Rat)} (h : p₁.Perm p₂) : totalW p₁ = totalW p₂ := (h.map _).sum_eq

/-- in a value-sorted list everything from position `k` on is `≥ m`: the weight below `m` sits in the first `k` rows -/
theorem wBelow_le_take (p : List (Rat × Rat)) (hw : ∀ q ∈ p, 0 ≤ q.2) (m : Rat) (k : Nat)
    (h : ∀ q ∈ p.drop k, m ≤ q.1) : wBelow m p ≤ ((p.take k).map (·.2)).sum := by
  unfold wBelow
  conv_lhs => rw [← List.take_append_drop k p]
  rw [List.filter_append, filter_eq_nil_of (p.drop k) _ (fun q hq => by simpa using h q hq), List.append_nil]
  exact sum_filter_le _ (fun q hq => hw q (List.mem_of_mem_take hq)) _

/-- … and the weight above `m` sits after the first `k` rows when those are all `≤ m` -/
theorem wAbove_le_drop (p : List (Rat × Rat)) (hw : ∀ q ∈ p, 0 ≤ q.2) (m : Rat) (k : Nat)
    (h : ∀ q ∈ p.take k, q.1 ≤ m) : wAbove m p ≤ ((p.drop k).map (·.2)).sum := by
  unfold wAbove
  conv_lhs => rw [← List.take_append_drop k p]
  rw [List.filter_append, filter_eq_nil_of (p.take k) _ (fun q hq => by simpa using h q hq), List.nil_append]
  exact sum_filter_le _ (fun q hq => hw q (List.mem_of_mem_drop hq)) _

theorem sorted_drop_ge (p : List (Rat × Rat)) (hs : SortedByValue p) (k : Nat) (hk : k < p.length) :
    ∀ q ∈ p.drop k, nth (p.map (·.1)) k ≤ q.1 := by
  intro q hq
  obtain ⟨i, hi, rfl⟩ := List.getElem_of_mem hq
  rw [nth_eq_getElem _ _ (by simpa using hk)]
  simp only [List.getElem_map, List.getElem_drop]
  rw [List.length_drop] at hi
  rcases Nat.eq_zero_or_pos i with rfl | hpos
  · simp
  · exact List.pairwise_iff_getElem.mp hs k (k + i) hk (by omega) (by omega)

theorem sorted_take_le (p : List (Rat × Rat)) (hs : SortedByValue p) (k : Nat) (hk : k < p.length) :
    ∀ q ∈ p.take (k + 1), q.1 ≤ nth (p.map (·.1)) k := by
  intro q hq
  obtain ⟨i, hi, rfl⟩ := List.getElem_of_mem hq
  rw [nth_eq_getElem _ _ (by simpa using hk)]
  simp only [List.getElem_map, List.getElem_take]
  rw [List.length_take] at hi
  rcases Nat.lt_or_eq_of_le (show i ≤ k by omega) with hlt | rfl
  · exact List.pairwise_iff_getElem.mp hs i k (by omega) hk hlt
  · exact le_refl _

theorem cumAt_eq (p : List (Rat × Rat)) (i : Nat) : cumAt (p.map (·.2)) i = ((p.take (i + 1)).map (·.2)).sum := by
  unfold cumAt; rw [List.map_take]

theorem sum_take_add_drop (p : List (Rat × Rat)) (k : Nat) :
    ((p.take k).map (·.2)).sum + ((p.drop k).map (·.2)).sum = totalW p := by
  unfold totalW
  conv_rhs => rw [← List.take_append_drop k p]
  rw [List.map_append, List.sum_append]

theorem cumAt_last (p : List (Rat × Rat)) (i : Nat) (h : p.length ≤ i + 1) : cumAt (p.map (·.2)) i = totalW p := by
  rw [cumAt_eq, List.take_of_length_le h]; rfl

/-! ### the weighted median -/

/-- index of the lower weighted median -/
def loIdx (tol : Rat) (p : List (Rat × Rat)) : Nat :=
  firstIdx (fun i => decide (totalW p / 2 - tol ≤ cumAt (p.map (·.2)) i)) p.length
/-- index of the upper weighted median -/
def hiIdx (tol : Rat) (p : List (Rat × Rat)) : Nat :=
  min (firstIdx (fun i => decide (totalW p / 2 + tol < cumAt (p.map (·.2)) i)) p.length) (p.length - 1)

def dominated (p : List (Rat × Rat)) : Bool := (p.map (·.2)).any (fun x => decide (totalW p / 2 < x))

theorem wmedSorted_def (tol : Rat) (p : List (Rat × Rat)) : wmedSorted tol p =
    if dominated p = true then nth (p.map (·.1)) (argmax (p.map (·.2)))
    else (nth (p.map (·.1)) (loIdx tol p) + nth (p.map (·.1)) (hiIdx tol p)) / 2 := by
  unfold wmedSorted dominated loIdx hiIdx totalW
  simp only [List.length_map]

theorem loIdx_lt (tol : Rat) (p : List (Rat × Rat)) (hne : p ≠ []) (hW : 0 ≤ totalW p) (htol : 0 ≤ tol) :
    loIdx tol p < p.length := by
  have hn : 0 < p.length := List.length_pos_iff.mpr hne
  unfold loIdx
  have := firstIdx_lt_of (fun i => decide (totalW p / 2 - tol ≤ cumAt (p.map (·.2)) i)) p.length (p.length - 1) (by omega)
    (by rw [cumAt_last p _ (by omega)]; simp; linarith)
  omega

theorem loIdx_spec (tol : Rat) (p : List (Rat × Rat)) (hne : p ≠ []) (hW : 0 ≤ totalW p) (htol : 0 ≤ tol) :
    totalW p / 2 - tol ≤ cumAt (p.map (·.2)) (loIdx tol p) := by
  have := firstIdx_spec_at (fun i => decide (totalW p / 2 - tol ≤ cumAt (p.map (·.2)) i)) p.length (loIdx_lt tol p hne hW htol)
  simpa [loIdx] using this

theorem hiIdx_lt (tol : Rat) (p : List (Rat × Rat)) (hne : p ≠ []) : hiIdx tol p < p.length := by
  have hn : 0 < p.length := List.length_pos_iff.mpr hne
  unfold hiIdx; omega

theorem loIdx_le_hiIdx (tol : Rat) (p : List (Rat × Rat)) (hne : p ≠ []) (hW : 0 ≤ totalW p) (htol : 0 ≤ tol) :
    loIdx tol p ≤ hiIdx tol p := by
  have h1 := loIdx_lt tol p hne hW htol
  have h2 : loIdx tol p ≤ firstIdx (fun i => decide (totalW p / 2 + tol < cumAt (p.map (·.2)) i)) p.length := by
    unfold loIdx
    apply firstIdx_mono
    intro i hi
    simp at hi ⊢
    linarith
  unfold hiIdx; omega

/-- the rows before the upper weighted median hold at most half the weight (plus the allowance) -/
theorem take_hiIdx_le (tol : Rat) (p : List (Rat × Rat)) (hne : p ≠ []) (hw : ∀ q ∈ p, 0 ≤ q.2) (htol : 0 ≤ tol) :
    ((p.take (hiIdx tol p)).map (·.2)).sum ≤ totalW p / 2 + tol := by
  have hW : 0 ≤ totalW p := sum_weights_nonneg p hw
  rcases Nat.eq_zero_or_pos (hiIdx tol p) with h0 | hpos
  · rw [h0]; simp; linarith
  · have hlt : hiIdx tol p - 1 < firstIdx (fun i => decide (totalW p / 2 + tol < cumAt (p.map (·.2)) i)) p.length := by
      unfold hiIdx at hpos ⊢; omega
    have := firstIdx_spec_lt _ _ _ hlt
    simp at this
    rw [cumAt_eq] at this
    have he : hiIdx tol p - 1 + 1 = hiIdx tol p := by omega
    rw [he] at this
    exact this

theorem wmedSorted_between (tol : Rat) (p : List (Rat × Rat)) (hs : SortedByValue p) (hne : p ≠ [])
    (hW : 0 ≤ totalW p) (htol : 0 ≤ tol) (hd : dominated p = false) :
    nth (p.map (·.1)) (loIdx tol p) ≤ wmedSorted tol p ∧ wmedSorted tol p ≤ nth (p.map (·.1)) (hiIdx tol p) := by
  have hsa : (p.map (·.1)).Pairwise (· ≤ ·) := List.pairwise_map.mpr hs
  have := sorted_nth_le hsa (loIdx_le_hiIdx tol p hne hW htol) (by simpa using hiIdx_lt tol p hne)
  rw [wmedSorted_def, hd]
  simp only [Bool.false_eq_true, if_false]
  constructor <;> linarith

/-- **half weights**: the weighted median of a value-sorted table with non-negative weights of positive
    total leaves at most half of the total weight (plus the rounding allowance `tol`) strictly below it and
    at most as much strictly above it -/
theorem wmedSorted_half_weights (tol : Rat) (p : List (Rat × Rat)) (hs : SortedByValue p)
    (hw : ∀ q ∈ p, 0 ≤ q.2) (hpos : 0 < totalW p) (htol : 0 ≤ tol) :
    wBelow (wmedSorted tol p) p ≤ totalW p / 2 + tol ∧ wAbove (wmedSorted tol p) p ≤ totalW p / 2 + tol := by
  have hne : p ≠ [] := by intro h; subst h; simp [totalW] at hpos
  have hW : 0 ≤ totalW p := le_of_lt hpos
  cases hd : dominated p with
  | true =>
    -- one row holds more than half of the weight: it is excluded from both sides
    have hwne : p.map (·.2) ≠ [] := by simpa using hne
    obtain ⟨hj, hmax⟩ := argmax_spec (p.map (·.2)) hwne
    have hjp : argmax (p.map (·.2)) < p.length := by simpa using hj
    have hbig : totalW p / 2 < nth (p.map (·.2)) (argmax (p.map (·.2))) := by
      unfold dominated at hd
      rw [List.any_eq_true] at hd
      obtain ⟨x, hx, hlt⟩ := hd
      simp at hlt
      exact lt_of_lt_of_le hlt (hmax x hx)
    rw [wmedSorted_def, hd]
    simp only [if_true]
    have hsplit := sum_take_add_drop p (argmax (p.map (·.2)))
    have hsplit2 : ((p.drop (argmax (p.map (·.2)))).map (·.2)).sum =
        nth (p.map (·.2)) (argmax (p.map (·.2))) + ((p.drop (argmax (p.map (·.2)) + 1)).map (·.2)).sum := by
      rw [List.drop_eq_getElem_cons hjp, List.map_cons, List.sum_cons, nth_eq_getElem _ _ hj]; simp
    have hsplit3 := sum_take_add_drop p (argmax (p.map (·.2)) + 1)
    have hd1 : 0 ≤ ((p.drop (argmax (p.map (·.2)) + 1)).map (·.2)).sum :=
      sum_weights_nonneg _ (fun q hq => hw q (List.mem_of_mem_drop hq))
    have ht1 : 0 ≤ ((p.take (argmax (p.map (·.2)))).map (·.2)).sum :=
      sum_weights_nonneg _ (fun q hq => hw q (List.mem_of_mem_take hq))
    constructor
    · have := wBelow_le_take p hw (nth (p.map (·.1)) (argmax (p.map (·.2)))) (argmax (p.map (·.2)))
        (sorted_drop_ge p hs _ hjp)
      linarith
    · have := wAbove_le_drop p hw (nth (p.map (·.1)) (argmax (p.map (·.2)))) (argmax (p.map (·.2)) + 1)
        (sorted_take_le p hs _ hjp)
      linarith
  | false =>
    obtain ⟨hlo, hhi⟩ := wmedSorted_between tol p hs hne hW htol hd
    constructor
    · have := wBelow_le_take p hw (wmedSorted tol p) (hiIdx tol p)
        (fun q hq => le_trans hhi (sorted_drop_ge p hs _ (hiIdx_lt tol p hne) q hq))
      exact le_trans this (take_hiIdx_le tol p hne hw htol)
    · have := wAbove_le_drop p hw (wmedSorted tol p) (loIdx tol p + 1)
        (fun q hq => le_trans (sorted_take_le p hs _ (loIdx_lt tol p hne hW htol) q hq) hlo)
      have hsplit := sum_take_add_drop p (loIdx tol p + 1)
      have hspec := loIdx_spec tol p hne hW htol
      rw [cumAt_eq] at hspec
      linarith

/-- the weighted median lies within the range of the values -/
theorem wmedSorted_in_range (tol : Rat) (p : List (Rat × Rat)) (hne : p ≠ []) (hW : 0 ≤ totalW p) (htol : 0 ≤ tol)
    (lo hi : Rat) (h : ∀ q ∈ p, lo ≤ q.1 ∧ q.1 ≤ hi) : lo ≤ wmedSorted tol p ∧ wmedSorted tol p ≤ hi := by
  have hmem : ∀ i, i < p.length → lo ≤ nth (p.map (·.1)) i ∧ nth (p.map (·.1)) i ≤ hi := by
    intro i hi'
    have := nth_mem (p.map (·.1)) i (by simpa using hi')
    obtain ⟨q, hq, hq'⟩ := List.mem_map.mp this
    rw [← hq']; exact h q hq
  rw [wmedSorted_def]
  split
  · have hwne : p.map (·.2) ≠ [] := by simpa using hne
    exact hmem _ (by simpa using (argmax_spec (p.map (·.2)) hwne).1)
  · have h1 := hmem _ (loIdx_lt tol p hne hW htol)
    have h2 := hmem _ (hiIdx_lt tol p hne)
    constructor <;> linarith [h1.1, h1.2, h2.1, h2.2]

theorem map_snd_shiftP (c : Rat) (p : List (Rat × Rat)) : (shiftP c p).map (·.2) = p.map (·.2) := by
  unfold shiftP; rw [List.map_map]; rfl
theorem map_fst_shiftP (c : Rat) (p : List (Rat × Rat)) : (shiftP c p).map (·.1) = (p.map (·.1)).map (· + c) := by
  unfold shiftP; rw [List.map_map, List.map_map]; rfl
theorem map_snd_scaleP (k : Rat) (p : List (Rat × Rat)) : (scaleP k p).map (·.2) = p.map (·.2) := by
  unfold scaleP; rw [List.map_map]; rfl
theorem map_fst_scaleP (k : Rat) (p : List (Rat × Rat)) : (scaleP k p).map (·.1) = (p.map (·.1)).map (k * ·) := by
  unfold scaleP; rw [List.map_map, List.map_map]; rfl
theorem length_shiftP (c : Rat) (p : List (Rat × Rat)) : (shiftP c p).length = p.length := by simp [shiftP]
theorem length_scaleP (k : Rat) (p : List (Rat × Rat)) : (scaleP k p).length = p.length := by simp [scaleP]

theorem wmedTol_shiftP (c : Rat) (p : List (Rat × Rat)) : wmedTol (shiftP c p) = wmedTol p := by
  unfold wmedTol; rw [map_snd_shiftP, length_shiftP]
theorem wmedTol_scaleP (k : Rat) (p : List (Rat × Rat)) : wmedTol (scaleP k p) = wmedTol p := by
  unfold wmedTol; rw [map_snd_scaleP, length_scaleP]

theorem wmedTol_nonneg (p : List (Rat × Rat)) (hw : ∀ q ∈ p, 0 ≤ q.2) : 0 ≤ wmedTol p := by
  unfold wmedTol FLOAT_EPS
  have := sum_weights_nonneg p hw
  positivity

/-- translation equivariance of the weighted median -/
theorem wmedSorted_shift (tol c : Rat) (p : List (Rat × Rat)) (hne : p ≠ []) (hW : 0 ≤ totalW p) (htol : 0 ≤ tol) :
    wmedSorted tol (shiftP c p) = wmedSorted tol p + c := by
  have hd : dominated (shiftP c p) = dominated p := by unfold dominated; rw [map_snd_shiftP, totalW_shiftP]
  have hlo : loIdx tol (shiftP c p) = loIdx tol p := by unfold loIdx; rw [map_snd_shiftP, totalW_shiftP, length_shiftP]
  have hhi : hiIdx tol (shiftP c p) = hiIdx tol p := by unfold hiIdx; rw [map_snd_shiftP, totalW_shiftP, length_shiftP]
  rw [wmedSorted_def, wmedSorted_def, hd, hlo, hhi, map_fst_shiftP, map_snd_shiftP]
  split
  · have hwne : p.map (·.2) ≠ [] := by simpa using hne
    rw [nth_map _ _ _ (by simpa using (argmax_spec (p.map (·.2)) hwne).1)]
  · rw [nth_map _ _ _ (by simpa using loIdx_lt tol p hne hW htol), nth_map _ _ _ (by simpa using hiIdx_lt tol p hne)]
    ring

theorem nth_map_mul (k : Rat) (l : List Rat) (i : Nat) : nth (l.map (k * ·)) i = k * nth l i := by
  by_cases h : i < l.length
  · exact nth_map _ l i h
  · unfold nth; simp [List.getD, h]

/-- scale equivariance of the weighted median -/
theorem wmedSorted_scale (tol k : Rat) (p : List (Rat × Rat)) : wmedSorted tol (scaleP k p) = k * wmedSorted tol p := by
  have hd : dominated (scaleP k p) = dominated p := by unfold dominated; rw [map_snd_scaleP, totalW_scaleP]
  have hlo : loIdx tol (scaleP k p) = loIdx tol p := by unfold loIdx; rw [map_snd_scaleP, totalW_scaleP, length_scaleP]
  have hhi : hiIdx tol (scaleP k p) = hiIdx tol p := by unfold hiIdx; rw [map_snd_scaleP, totalW_scaleP, length_scaleP]
  rw [wmedSorted_def, wmedSorted_def, hd, hlo, hhi, map_fst_scaleP, map_snd_scaleP]
  split
  · rw [nth_map_mul]
  · rw [nth_map_mul, nth_map_mul]; ring

/-! ### equal weights: the ordinary median -/

theorem sum_replicate (n : Nat) (c : Rat) : (List.replicate n c).sum = (n : Rat) * c := by
  induction n with
  | zero => simp
  | succ m ih => rw [List.replicate_succ, List.sum_cons, ih]; push_cast; ring

/-- with equal positive weights and an allowance below half a weight, the weighted median of sorted values is
    their ordinary median -/
theorem wmedSorted_equal_weights (tol c : Rat) (p : List (Rat × Rat)) (hs : SortedByValue p) (hn : 2 ≤ p.length)
    (hc : 0 < c) (hw : ∀ q ∈ p, q.2 = c) (htol0 : 0 ≤ tol) (htol : tol < c / 2) :
    wmedSorted tol p = median (p.map (·.1)) := by
  have hne : p ≠ [] := by intro h; subst h; simp at hn
  have hwrep : p.map (·.2) = List.replicate p.length c := by
    apply List.eq_replicate_iff.mpr
    refine ⟨by simp, ?_⟩
    intro x hx; obtain ⟨q, hq, rfl⟩ := List.mem_map.mp hx; exact hw q hq
  have hW : totalW p = (p.length : Rat) * c := by unfold totalW; rw [hwrep, sum_replicate]
  have hcum : ∀ i, i < p.length → cumAt (p.map (·.2)) i = ((i : Rat) + 1) * c := by
    intro i hi
    unfold cumAt
    rw [hwrep, List.take_replicate, sum_replicate, min_eq_left (by omega)]; push_cast; ring
  have hn2 : (2 : Rat) ≤ (p.length : Rat) := by exact_mod_cast hn
  have hnd : dominated p = false := by
    unfold dominated
    rw [Bool.eq_false_iff]
    intro h
    rw [List.any_eq_true] at h
    obtain ⟨x, hx, hlt⟩ := h
    rw [hwrep, List.mem_replicate] at hx
    simp at hlt
    rw [hx.2, hW] at hlt
    nlinarith
  have hsa : (p.map (·.1)).Pairwise (· ≤ ·) := List.pairwise_map.mpr hs
  rw [wmedSorted_def, hnd, median_def, sortR_of_sorted hsa]
  simp only [Bool.false_eq_true, if_false, List.length_map]
  -- the two indices
  obtain ⟨h, hh⟩ : ∃ h, p.length = 2 * h ∨ p.length = 2 * h + 1 := ⟨p.length / 2, by omega⟩
  rcases hh with he | ho
  · -- even length 2h: lo = h-1, hi = h
    have hh1 : 1 ≤ h := by omega
    have hcast : (p.length : Rat) = 2 * (h : Rat) := by rw [he]; push_cast; ring
    have hlo : loIdx tol p = h - 1 := by
      unfold loIdx
      apply firstIdx_eq _ _ _ (by omega)
      · rw [hcum _ (by omega), hW, hcast]
        have : ((h - 1 : Nat) : Rat) = (h : Rat) - 1 := by rw [Nat.cast_sub hh1]; simp
        rw [this]; simp; nlinarith
      · intro i hi
        have hi' : (i : Rat) + 1 ≤ (h : Rat) - 1 := by
          have : i + 1 ≤ h - 1 := by omega
          have h2 : ((i + 1 : Nat) : Rat) ≤ ((h - 1 : Nat) : Rat) := by exact_mod_cast this
          rw [Nat.cast_sub hh1] at h2; push_cast at h2; linarith
        rw [hcum _ (by omega), hW, hcast]; simp; nlinarith
    have hhi : hiIdx tol p = h := by
      unfold hiIdx
      have : firstIdx (fun i => decide (totalW p / 2 + tol < cumAt (p.map (·.2)) i)) p.length = h := by
        apply firstIdx_eq _ _ _ (by omega)
        · rw [hcum _ (by omega), hW, hcast]; simp; nlinarith
        · intro i hi
          have hi' : (i : Rat) + 1 ≤ (h : Rat) := by exact_mod_cast (show i + 1 ≤ h by omega)
          rw [hcum _ (by omega), hW, hcast]; simp; nlinarith
      rw [this]; omega
    have hmod : ¬ (p.length % 2 = 1) := by omega
    rw [if_neg hmod, hlo, hhi]
    have e1 : p.length / 2 = h := by omega
    rw [e1]
  · -- odd length 2h+1: lo = hi = h
    have hcast : (p.length : Rat) = 2 * (h : Rat) + 1 := by rw [ho]; push_cast; ring
    have hlo : loIdx tol p = h := by
      unfold loIdx
      apply firstIdx_eq _ _ _ (by omega)
      · rw [hcum _ (by omega), hW, hcast]; simp; nlinarith
      · intro i hi
        have hi' : (i : Rat) + 1 ≤ (h : Rat) := by exact_mod_cast (show i + 1 ≤ h by omega)
        rw [hcum _ (by omega), hW, hcast]; simp; nlinarith
    have hhi : hiIdx tol p = h := by
      unfold hiIdx
      have : firstIdx (fun i => decide (totalW p / 2 + tol < cumAt (p.map (·.2)) i)) p.length = h := by
        apply firstIdx_eq _ _ _ (by omega)
        · rw [hcum _ (by omega), hW, hcast]; simp; nlinarith
        · intro i hi
          have hi' : (i : Rat) + 1 ≤ (h : Rat) := by exact_mod_cast (show i + 1 ≤ h by omega)
          rw [hcum _ (by omega), hW, hcast]; simp; nlinarith
      rw [this]; omega
    have hmod : p.length % 2 = 1 := by omega
    rw [if_pos hmod, hlo, hhi]
    have e1 : p.length / 2 = h := by omega
    rw [e1]; ring

/-- the allowance the code computes stays below half a weight for fewer than 2²⁶ equally weighted values -/
theorem wmedTol_small (c : Rat) (p : List (Rat × Rat)) (hc : 0 < c) (hw : ∀ q ∈ p, q.2 = c) (hn : p.length < 2 ^ 26) :
    wmedTol p < c / 2 := by
  have hwrep : p.map (·.2) = List.replicate p.length c := by
    apply List.eq_replicate_iff.mpr
    refine ⟨by simp, ?_⟩
    intro x hx; obtain ⟨q, hq, rfl⟩ := List.mem_map.mp hx; exact hw q hq
  unfold wmedTol FLOAT_EPS
  rw [hwrep, sum_replicate]
  have hn' : (p.length : Rat) < 2 ^ 26 := by exact_mod_cast hn
  have hn0 : (0 : Rat) ≤ (p.length : Rat) := Nat.cast_nonneg _
  have hsq : (p.length : Rat) * (p.length : Rat) < 2 ^ 26 * 2 ^ 26 := by nlinarith
  have : (p.length : Rat) * c / 2 * (p.length : Rat) * (1 / 4503599627370496) =
      c / 2 * ((p.length : Rat) * (p.length : Rat) / 4503599627370496) := by ring
  rw [this]
  have hlt : (p.length : Rat) * (p.length : Rat) / 4503599627370496 < 1 := by
    rw [div_lt_one (by norm_num)]; norm_num at hsq ⊢; linarith
  nlinarith

/-! ### the `argsort` permutation -/

theorem permute_perm (order : List Nat) (p : List (Rat × Rat)) (h : order.Perm (List.range p.length)) :
    (permute order p).Perm p := by
  unfold permute
  have h1 := h.map (fun i => p.getD i default)
  have h2 : (List.range p.length).map (fun i => p.getD i default) = p := by
    apply List.ext_getElem (by simp)
    intro i h1 h2
    simp at h1 ⊢
    simp [List.getD, h2]
  rw [h2] at h1
  exact h1

theorem permute_shiftP (order : List Nat) (c : Rat) (p : List (Rat × Rat)) (h : ∀ i ∈ order, i < p.length) :
    permute order (shiftP c p) = shiftP c (permute order p) := by
  unfold permute shiftP
  rw [List.map_map]
  apply List.map_congr_left
  intro i hi
  have := h i hi
  simp [List.getD, this]

theorem permute_scaleP (order : List Nat) (k : Rat) (p : List (Rat × Rat)) :
    permute order (scaleP k p) = scaleP k (permute order p) := by
  unfold permute scaleP
  rw [List.map_map]
  apply List.map_congr_left
  intro i _
  by_cases h : i < p.length
  · simp [List.getD, h]
  · simp [List.getD, h]
    show ((0 : Rat), (0 : Rat)) = (k * 0, 0)
    simp

theorem mem_permute (order : List Nat) (p : List (Rat × Rat)) (h : ∀ i ∈ order, i < p.length) :
    ∀ q ∈ permute order p, q ∈ p := by
  intro q hq
  unfold permute at hq
  obtain ⟨i, hi, rfl⟩ := List.mem_map.mp hq
  have := h i hi
  simp [List.getD, this]

theorem wmedTol_perm {p₁ p₂ : List (Rat × Rat)} (h : p₁.Perm p₂) : wmedTol p₁ = wmedTol p₂ := by
  unfold wmedTol
  rw [(h.map _).sum_eq, h.length_eq]

theorem weightedMedianCore_def (order : List Nat) (p : List (Rat × Rat)) :
    weightedMedianCore false order p = wmedSorted (wmedTol (permute order p)) (permute order p) := rfl

/-- half weights, stated for the unsorted input and whatever sorting permutation `argsort` returned -/
theorem weightedMedianCore_half_weights (order : List Nat) (p : List (Rat × Rat))
    (hperm : order.Perm (List.range p.length)) (hsorted : SortedByValue (permute order p))
    (hw : ∀ q ∈ p, 0 ≤ q.2) (hpos : 0 < totalW p) :
    wBelow (weightedMedianCore false order p) p ≤ totalW p / 2 + wmedTol p ∧
    wAbove (weightedMedianCore false order p) p ≤ totalW p / 2 + wmedTol p := by
  have hp := permute_perm order p hperm
  have hw' : ∀ q ∈ permute order p, 0 ≤ q.2 := fun q hq => hw q (hp.mem_iff.mp hq)
  have := wmedSorted_half_weights (wmedTol (permute order p)) (permute order p) hsorted hw'
    (by rw [totalW_perm hp]; exact hpos) (wmedTol_nonneg _ hw')
  rw [weightedMedianCore_def]
  rw [wBelow_perm hp, wAbove_perm hp, totalW_perm hp, wmedTol_perm hp] at this
  rw [wmedTol_perm hp]
  exact this

theorem weightedMedianCore_in_range (order : List Nat) (p : List (Rat × Rat)) (hne : order ≠ [])
    (hidx : ∀ i ∈ order, i < p.length) (hw : ∀ q ∈ p, 0 ≤ q.2) (lo hi : Rat) (h : ∀ q ∈ p, lo ≤ q.1 ∧ q.1 ≤ hi) :
    lo ≤ weightedMedianCore false order p ∧ weightedMedianCore false order p ≤ hi := by
  have hmem := mem_permute order p hidx
  have hw' : ∀ q ∈ permute order p, 0 ≤ q.2 := fun q hq => hw q (hmem q hq)
  rw [weightedMedianCore_def]
  exact wmedSorted_in_range _ _ (by unfold permute; simpa using hne) (sum_weights_nonneg _ hw') (wmedTol_nonneg _ hw')
    lo hi (fun q hq => h q (hmem q hq))

theorem weightedMedianCore_shift (order : List Nat) (c : Rat) (p : List (Rat × Rat)) (hne : order ≠ [])
    (hidx : ∀ i ∈ order, i < p.length) (hw : ∀ q ∈ p, 0 ≤ q.2) :
    weightedMedianCore false order (shiftP c p) = weightedMedianCore false order p + c := by
  have hmem := mem_permute order p hidx
  have hw' : ∀ q ∈ permute order p, 0 ≤ q.2 := fun q hq => hw q (hmem q hq)
  rw [weightedMedianCore_def, weightedMedianCore_def, permute_shiftP order c p hidx, wmedTol_shiftP]
  exact wmedSorted_shift _ c _ (by unfold permute; simpa using hne) (sum_weights_nonneg _ hw') (wmedTol_nonneg _ hw')

theorem weightedMedianCore_scale (order : List Nat) (k : Rat) (p : List (Rat × Rat)) :
    weightedMedianCore false order (scaleP k p) = k * weightedMedianCore false order p := by
  rw [weightedMedianCore_def, weightedMedianCore_def, permute_scaleP, wmedTol_scaleP]
  exact wmedSorted_scale _ k _

/-- equal positive weights: the ordinary median of the values -/
theorem weightedMedianCore_equal_weights (order : List Nat) (p : List (Rat × Rat)) (c : Rat)
    (hperm : order.Perm (List.range p.length)) (hsorted : SortedByValue (permute order p))
    (hn : 2 ≤ p.length) (hn' : p.length < 2 ^ 26) (hc : 0 < c) (hw : ∀ q ∈ p, q.2 = c) :
    weightedMedianCore false order p = median (p.map (·.1)) := by
  have hp := permute_perm order p hperm
  have hw' : ∀ q ∈ permute order p, q.2 = c := fun q hq => hw q (hp.mem_iff.mp hq)
  rw [weightedMedianCore_def]
  rw [wmedSorted_equal_weights _ c _ hsorted (by rw [hp.length_eq]; exact hn) hc hw'
    (wmedTol_nonneg _ (fun q hq => by rw [hw' q hq]; exact le_of_lt hc))
    (wmedTol_small c _ hc hw' (by rw [hp.length_eq]; exact hn'))]
  exact median_eq_of_perm (hp.map _)

/-! ### weighted MAD -/

theorem MAD_SCALE_WEIGHTED_pos : 0 < Generated.MAD_SCALE_WEIGHTED := by unfold Generated.MAD_SCALE_WEIGHTED; norm_num

/-- absolute deviations from `m`, weights kept -/
def devP (m : Rat) (p : List (Rat × Rat)) : List (Rat × Rat) := p.map (fun q => (absR (q.1 - m), q.2))

theorem weightedMadCore_def (o1 o2 : List Nat) (p : List (Rat × Rat)) (b : Bool) :
    weightedMadCore false o1 o2 p b =
      if b = true then weightedMedianCore false o2 (devP (weightedMedianCore false o1 p) p) * Generated.MAD_SCALE_WEIGHTED
      else weightedMedianCore false o2 (devP (weightedMedianCore false o1 p) p) := rfl

theorem length_devP (m : Rat) (p : List (Rat × Rat)) : (devP m p).length = p.length := by simp [devP]

theorem exists_upper (p : List (Rat × Rat)) : ∃ hi, ∀ q ∈ p, q.1 ≤ hi := by
  refine ⟨(p.map (fun q => |q.1|)).sum, fun q hq => ?_⟩
  exact le_trans (le_abs_self q.1)
    (List.single_le_sum (by intro y hy; simp at hy; obtain ⟨a, b, _, rfl⟩ := hy; exact abs_nonneg a) _
      (List.mem_map_of_mem (f := fun q : Rat × Rat => |q.1|) hq))

theorem weightedMadCore_nonneg (o1 o2 : List Nat) (p : List (Rat × Rat)) (b : Bool) (hne : o2 ≠ [])
    (hidx : ∀ i ∈ o2, i < p.length) (hw : ∀ q ∈ p, 0 ≤ q.2) : 0 ≤ weightedMadCore false o1 o2 p b := by
  obtain ⟨hi, hhi⟩ := exists_upper (devP (weightedMedianCore false o1 p) p)
  have h := (weightedMedianCore_in_range o2 (devP (weightedMedianCore false o1 p) p) hne
    (by rw [length_devP]; exact hidx)
    (by intro q hq; unfold devP at hq; obtain ⟨r, hr, rfl⟩ := List.mem_map.mp hq; exact hw r hr)
    0 hi (fun q hq => ⟨by unfold devP at hq; obtain ⟨r, hr, rfl⟩ := List.mem_map.mp hq; exact absR_nonneg _, hhi q hq⟩)).1
  rw [weightedMadCore_def]
  split
  · exact mul_nonneg h (le_of_lt MAD_SCALE_WEIGHTED_pos)
  · exact h

theorem weightedMadCore_const (o1 o2 : List Nat) (p : List (Rat × Rat)) (b : Bool) (hne1 : o1 ≠ []) (hne2 : o2 ≠ [])
    (hidx1 : ∀ i ∈ o1, i < p.length) (hidx2 : ∀ i ∈ o2, i < p.length) (hw : ∀ q ∈ p, 0 ≤ q.2)
    (c : Rat) (hc : ∀ q ∈ p, q.1 = c) : weightedMadCore false o1 o2 p b = 0 := by
  have hm : weightedMedianCore false o1 p = c := by
    have := weightedMedianCore_in_range o1 p hne1 hidx1 hw c c (fun q hq => by rw [hc q hq]; exact ⟨le_refl _, le_refl _⟩)
    exact le_antisymm this.2 this.1
  have h := weightedMedianCore_in_range o2 (devP c p) hne2 (by rw [length_devP]; exact hidx2)
    (by intro q hq; unfold devP at hq; obtain ⟨r, hr, rfl⟩ := List.mem_map.mp hq; exact hw r hr)
    0 0 (fun q hq => by
      unfold devP at hq; obtain ⟨r, hr, rfl⟩ := List.mem_map.mp hq
      simp only []; rw [hc r hr]; simp [absR])
  rw [weightedMadCore_def, hm, le_antisymm h.2 h.1]
  simp

theorem devP_shiftP (m c : Rat) (p : List (Rat × Rat)) : devP (m + c) (shiftP c p) = devP m p := by
  unfold devP shiftP
  rw [List.map_map]
  apply List.map_congr_left
  intro q _
  simp only [Function.comp]
  congr 2; ring

theorem devP_scaleP (m k : Rat) (hk : 0 ≤ k) (p : List (Rat × Rat)) : devP (k * m) (scaleP k p) = scaleP k (devP m p) := by
  unfold devP scaleP
  rw [List.map_map, List.map_map]
  apply List.map_congr_left
  intro q _
  simp only [Function.comp]
  congr 1
  rw [absR_eq_abs, absR_eq_abs, ← mul_sub, abs_mul, abs_of_nonneg hk]

/-- adding a constant leaves the weighted MAD unchanged -/
theorem weightedMadCore_shift (o1 o2 : List Nat) (p : List (Rat × Rat)) (b : Bool) (c : Rat) (hne1 : o1 ≠ [])
    (hidx1 : ∀ i ∈ o1, i < p.length) (hw : ∀ q ∈ p, 0 ≤ q.2) :
    weightedMadCore false o1 o2 (shiftP c p) b = weightedMadCore false o1 o2 p b := by
  rw [weightedMadCore_def, weightedMadCore_def, weightedMedianCore_shift o1 c p hne1 hidx1 hw, devP_shiftP]

/-- rescaling by `k ≥ 0` rescales the weighted MAD by `k` -/
theorem weightedMadCore_scale (o1 o2 : List Nat) (p : List (Rat × Rat)) (b : Bool) (k : Rat) (hk : 0 ≤ k) :
    weightedMadCore false o1 o2 (scaleP k p) b = k * weightedMadCore false o1 o2 p b := by
  rw [weightedMadCore_def, weightedMadCore_def, weightedMedianCore_scale o1 k p, devP_scaleP _ k hk,
    weightedMedianCore_scale o2 k]
  split <;> ring

/-! ### mode; decorators -/

/-- whatever the density estimate, the mode reported is one of the data values -/
theorem modalCore_mem (sarr dens : List Rat) (hne : dens ≠ []) (hlen : dens.length = sarr.length) :
    modalCore sarr dens ∈ sarr := by
  unfold modalCore
  exact nth_mem _ _ (by rw [← hlen]; exact (argmax_spec dens hne).1)

/-- … and moves with the data when the densities do (a translation-invariant density estimate) -/
theorem modalCore_shift (sarr dens : List Rat) (c : Rat) (hne : dens ≠ []) (hlen : dens.length = sarr.length) :
    modalCore (sarr.map (· + c)) dens = modalCore sarr dens + c := by
  unfold modalCore
  exact nth_map _ _ _ (by rw [← hlen]; exact (argmax_spec dens hne).1)

theorem filterMap_id_map_some (l : List Rat) : (l.map some).filterMap id = l := by
  induction l with
  | nil => rfl
  | cons a t ih => simp [List.filterMap_cons, ih]

/-- NaN entries are ignored -/
theorem onArray_ignores_nan (d : Option Rat) (f : List Rat → Option Rat) (a : List (Option Rat)) :
    onArray d f a = onArray d f ((a.filterMap id).map some) := by
  unfold onArray
  rw [filterMap_id_map_some]

theorem onArray_single (d : Rat) (f : List Rat → Option Rat) (x : Rat) : onArray (some d) f [some x] = some d := rfl

theorem onWeighted_single (d : Rat) (f : List (Rat × Rat) → Option Rat) (x w : Rat) :
    onWeighted (some d) f [some x] [some w] = .val (some d) := rfl

end CnvVerif.Desc
