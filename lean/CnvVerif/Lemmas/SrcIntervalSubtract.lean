/-
  C06 tie to the source TEXT -- subtract: the edge tests and the keep-test of `_subtraction`.
  The pieces that the translator re-reads on every run (Generated/ExprsInterval.lean) are the expressions the hand-written
  model (Model/Interval.lean) is built from.  Each generated piece is first brought to a NORMAL FORM (`src_*_nf`, proved
  by `rfl`, else `omega` / rewriting, so that an equivalent spelling of the same test or formula in the source keeps it
  green); the model functions are then shown to be those normal forms put together.  One lemma file per source function
  so that an edit names exactly the obligations about that function.
-/
import CnvVerif.Generated.ExprsInterval
import CnvVerif.Model.Interval
namespace CnvVerif.Src
open CnvVerif CnvVerif.Generated

theorem src_subtract_keep_left_nf (a b : Int) : src_subtract_keep_left a b = decide (a < b) := by
  unfold src_subtract_keep_left
  first
  | rfl
  | (simp only [decide_eq_decide]; omega)

theorem src_subtract_keep_right_nf (a b : Int) : src_subtract_keep_right a b = decide (a > b) := by
  unfold src_subtract_keep_right
  first
  | rfl
  | (simp only [decide_eq_decide]; omega)

theorem src_subtract_keep_piece_nf (s e : Int) : src_subtract_keep_piece s e = decide (e > s) := by
  unfold src_subtract_keep_piece
  first
  | rfl
  | (simp only [decide_eq_decide]; omega)

theorem subtractRow_src (k f : Row) (t : List Row) :
    subtractRow k (f :: t) =
      (let ex := f :: t
       let l := ex.getLast?.getD f
       let keepLeft := src_subtract_keep_left k.s f.s
       let keepRight := src_subtract_keep_right k.e l.e
       let exS := ex.map (·.s)
       let exE := ex.map (·.e)
       let pairs : List (Int × Int) :=
         if keepLeft && keepRight then (k.s :: exE).zip (exS ++ [k.e])
         else if keepLeft then (k.s :: exE.dropLast).zip exS
         else if keepRight then exE.zip (exS.drop 1 ++ [k.e])
         else if ex.length > 1 then exE.dropLast.zip (exS.drop 1)
         else []
       (pairs.filter (fun p => src_subtract_keep_piece p.1 p.2)).map (fun p => { k with s := p.1, e := p.2 })) := by
  simp only [subtractRow, src_subtract_keep_left_nf, src_subtract_keep_right_nf, src_subtract_keep_piece_nf,
    decide_eq_true_eq]

end CnvVerif.Src
