/-
  Tie of the outlier rule to the source text (Generated/ExprsOutlier.lean) -- in a module of its own, so that an edit to
  `rolling_outlier_quantile` / `drop_outliers` breaks exactly the obligations of Props/C03SrcOutlier.lean.
-/
import CnvVerif.Generated.ExprsOutlier
import CnvVerif.Lemmas.TileOutlierExt5
namespace CnvVerif.C03Outl
open CnvVerif CnvVerif.Generated

theorem src_abs_eq (e : Rat) : src_outl_abs e = absQ e := rfl

theorem elem_is_source (x width q m trend quants : Rat) :
    src_outl_elem x width q m trend quants = isOutlier m x trend quants := by
  unfold src_outl_elem isOutlier
  rw [decide_eq_decide]
  constructor
  · intro h; rw [src_abs_eq] at h; linarith
  · intro h; rw [src_abs_eq]; linarith

theorem short_is_source (n width : Nat) :
    src_outl_short (n : Rat) (width : Rat) = decide (n ≤ width) := by
  unfold src_outl_short
  simp only [Nat.cast_le]

end CnvVerif.C03Outl
