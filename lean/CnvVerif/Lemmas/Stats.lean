/-
  Lemmas behind Props/C17.lean, table part: the groups of bins `do_segmetrics` / `residuals` obtain
  from `iter_slices` are, segment by segment and in segment order, exactly the bins the property
  names (overlapping resp. contained, same chromosome); consequences for `doSegmetrics` and
  `doBintest`.
-/
import CnvVerif.Model.Stats
import CnvVerif.Lemmas.Ranges
namespace CnvVerif.Stats
open CnvVerif

/-! ### well-formedness -/

/-- every chromosome's bins are sorted by start with `0 ≤ start < end` (C07's `WFTable`) -/
def BinsWF (bins : List Bin) : Prop :=
  ∀ c, WFTable ((bins.map (·.row)).filter (fun r => r.chrom == c))

/-- each chromosome's rows are adjacent: regrouping the table by chromosome (in order of first
    appearance) gives the table back -/
def ChromBlocks (l : Table) : Prop := (groupByChrom l).flatMap (·.2) = l

/-- a segmentation: chromosome blocks, non-negative starts -/
def SegsWF (segs : List Seg) : Prop :=
  ChromBlocks (segs.map (·.row)) ∧ ∀ sg ∈ segs, 0 ≤ sg.row.s

/-- the bins the property attaches to a segment: same chromosome and
    outer: `end > seg.start ∧ start < seg.end`; inner: `start ≥ seg.start ∧ end ≤ seg.end` -/
def selBins (inner : Bool) (bins : List Bin) (sg : Seg) : List Bin :=
  bins.filter (fun b => b.row.chrom == sg.row.chrom &&
    selFilter (some sg.row.s) (some sg.row.e) inner b.row)

theorem selBins_outer (bins : List Bin) (sg : Seg) : selBins false bins sg = overlapping bins sg := by
  unfold selBins overlapping
  apply List.filter_congr
  intro b _
  simp [selFilter, Bool.and_assoc]

instance (l : Table) : Decidable (ChromBlocks l) := by unfold ChromBlocks; infer_instance

/-- enough for `BinsWF`: within a chromosome later rows do not start earlier, and every bin has
    `0 ≤ start < end` (what a sorted `.cnr` table satisfies; chromosomes may even interleave) -/
theorem binsWF_of_pairwise (bins : List Bin)
    (hp : (bins.map (·.row)).Pairwise (fun a b => a.chrom = b.chrom → a.s ≤ b.s))
    (hr : ∀ b ∈ bins, 0 ≤ b.row.s ∧ b.row.s < b.row.e) : BinsWF bins := by
  intro c
  constructor
  · have h1 := hp.filter (fun r => r.chrom == c)
    refine List.Pairwise.imp_of_mem ?_ h1
    intro a b ha hb hab
    have hac : a.chrom = c := by simpa using (List.mem_filter.mp ha).2
    have hbc : b.chrom = c := by simpa using (List.mem_filter.mp hb).2
    exact hab (by rw [hac, hbc])
  · intro r hrm
    have := (List.mem_filter.mp hrm).1
    rw [List.mem_map] at this
    obtain ⟨b, hb, rfl⟩ := this
    exact hr b hb

/-! ### `iter_slices` on tables -/

theorem mem_of_chromsInOrder_eq (t : Table) (c : String) (h : chromsInOrder t = [c]) :
    ∀ r ∈ t, r.chrom = c := by
  intro r hr
  have : r.chrom ∈ chromsInOrder t := by
    unfold chromsInOrder
    rw [List.mem_eraseDups]
    exact List.mem_map_of_mem hr
  rw [h] at this
  simpa using this

/-- the selection the property names, at table level -/
def selRows (inner : Bool) (T : Table) (q : Row) : Table :=
  T.filter (fun r => r.chrom == q.chrom && selFilter (some q.s) (some q.e) inner r)

theorem idxSelect_group (T : Table) (hT : ∀ c, WFTable (T.filter (fun r => r.chrom == c)))
    (c : String) (q : Row) (hq : q.chrom = c) (h0 : 0 ≤ q.s) (inner : Bool) :
    idxSelect (T.filter (fun r => r.chrom == c)) (some q.s) (some q.e) inner = selRows inner T q := by
  rw [idxSelect_exact _ (hT c) _ _ (by intro s hs; cases hs; exact h0)]
  unfold selRows
  rw [List.filter_filter, hq]
  apply List.filter_congr
  intro r _
  rw [Bool.and_comm]

/-- the grouping step of `by_shared_chroms(other, table, keep_empty=True)` for one chromosome group -/
def grpF (T : Table) (x : String × Table) : Option (String × Table × Option Table) :=
  let ot := T.filter (fun r => r.chrom == x.1)
  if !ot.isEmpty then some (x.1, x.2, some ot)
  else if true then some (x.1, x.2, none)
  else none

/-- the slicing step of `iter_slices(…, keep_empty=True)` for one chromosome group -/
def grpH (inner : Bool) (x : String × Table × Option Table) : List Table :=
  match x.2.2 with
  | none => x.2.1.map (fun _ => ([] : Table))
  | some srcRows =>
    (x.2.1.map (fun b => idxSelect srcRows (some b.s) (some b.e) inner)).filter
      (fun sel => true || !sel.isEmpty)

theorem grpF_empty (T : Table) (x : String × Table)
    (he : (T.filter (fun r => r.chrom == x.1)).isEmpty = true) : grpF T x = some (x.1, x.2, none) := by
  unfold grpF
  simp [he]

theorem grpF_nonempty (T : Table) (x : String × Table)
    (he : ¬ (T.filter (fun r => r.chrom == x.1)).isEmpty = true) :
    grpF T x = some (x.1, x.2, some (T.filter (fun r => r.chrom == x.1))) := by
  unfold grpF
  simp [he]

theorem grpH_none (inner : Bool) (c : String) (ct : Table) :
    grpH inner (c, ct, none) = ct.map (fun _ => ([] : Table)) := rfl

theorem grpH_some (inner : Bool) (c : String) (ct src : Table) :
    grpH inner (c, ct, some src) = ct.map (fun b => idxSelect src (some b.s) (some b.e) inner) := by
  unfold grpH
  simp only [Bool.true_or]
  exact filter_const_true _

theorem groups_flatMap (T : Table) (hT : ∀ c, WFTable (T.filter (fun r => r.chrom == c)))
    (inner : Bool) (G : List (String × Table))
    (hG : ∀ g ∈ G, ∀ q ∈ g.2, q.chrom = g.1 ∧ 0 ≤ q.s) :
    (G.filterMap (grpF T)).flatMap (grpH inner) = (G.flatMap (·.2)).map (selRows inner T) := by
  induction G with
  | nil => rfl
  | cons g G ih =>
    have ihG := ih (fun g' hg' => hG g' (List.mem_cons_of_mem _ hg'))
    have hg := hG g (List.mem_cons_self ..)
    by_cases he : (T.filter (fun r => r.chrom == g.1)).isEmpty = true
    · rw [List.filterMap_cons, grpF_empty T g he]
      simp only
      rw [List.flatMap_cons, ihG, List.flatMap_cons, List.map_append, grpH_none]
      congr 1
      apply List.map_congr_left
      intro q hq
      have hempty : T.filter (fun r => r.chrom == g.1) = [] := List.isEmpty_iff.mp he
      unfold selRows
      symm
      rw [List.filter_eq_nil_iff]
      intro r hr
      have hno := List.filter_eq_nil_iff.mp hempty r hr
      rw [(hg q hq).1]
      simp only [Bool.and_eq_true, not_and]
      intro hc
      exact absurd hc hno
    · rw [List.filterMap_cons, grpF_nonempty T g he]
      simp only
      rw [List.flatMap_cons, ihG, List.flatMap_cons, List.map_append, grpH_some]
      congr 1
      apply List.map_congr_left
      intro q hq
      exact idxSelect_group T hT g.1 q (hg q hq).1 (hg q hq).2 inner

theorem iterSlices_unfold (T S : Table) (mode : Mode) :
    iterSlices T S mode true =
      (if ((chromsInOrder S).length == 1 && (chromsInOrder T).length == 1
          && chromsInOrder S == chromsInOrder T) = true
        then [((chromsInOrder S).headD "", S, some T)]
        else (groupByChrom S).filterMap (grpF T)).flatMap (grpH (mode == .inner)) := rfl

theorem iterSlices_exact (T S : Table) (hT : ∀ c, WFTable (T.filter (fun r => r.chrom == c)))
    (hS : ChromBlocks S) (h0 : ∀ q ∈ S, 0 ≤ q.s) (mode : Mode) :
    iterSlices T S mode true = S.map (selRows (mode == .inner) T) := by
  rw [iterSlices_unfold]
  by_cases hc : ((chromsInOrder S).length == 1 && (chromsInOrder T).length == 1
      && chromsInOrder S == chromsInOrder T) = true
  · rw [if_pos hc]
    simp only [Bool.and_eq_true, beq_iff_eq] at hc
    obtain ⟨⟨h1, _⟩, h3⟩ := hc
    obtain ⟨c, hcS⟩ : ∃ c, chromsInOrder S = [c] := by
      match hl : chromsInOrder S, h1 with
      | [c], _ => exact ⟨c, rfl⟩
    have hcT : chromsInOrder T = [c] := by rw [← h3, hcS]
    have hSc := mem_of_chromsInOrder_eq S c hcS
    have hTc := mem_of_chromsInOrder_eq T c hcT
    rw [List.flatMap_cons, List.flatMap_nil, List.append_nil, grpH_some]
    apply List.map_congr_left
    intro q hq
    have hTf : T.filter (fun r => r.chrom == c) = T :=
      List.filter_eq_self.mpr (fun r hr => by simp [hTc r hr])
    have := idxSelect_group T hT c q (hSc q hq) (h0 q hq) (mode == .inner)
    rw [hTf] at this
    exact this
  · rw [if_neg hc]
    have := groups_flatMap T hT (mode == .inner) (groupByChrom S) (by
      intro g hg q hq
      unfold groupByChrom at hg
      rw [List.mem_map] at hg
      obtain ⟨c, _, rfl⟩ := hg
      rw [List.mem_filter] at hq
      exact ⟨by simpa using hq.2, h0 q hq.1⟩)
    rw [hS] at this
    exact this

/-! ### bins per segment -/

theorem pick_filter (bins : List Bin) (P : Row → Bool) :
    pick bins ((bins.map (·.row)).filter P) = bins.filter (fun b => P b.row) := by
  unfold pick
  apply List.filter_congr
  intro b hb
  by_cases hp : P b.row = true
  · rw [hp, List.contains_iff_mem, List.mem_filter]
    exact ⟨List.mem_map_of_mem hb, hp⟩
  · have hp' : P b.row = false := by simpa using hp
    rw [hp']
    apply Bool.eq_false_iff.mpr
    intro hcon
    rw [List.contains_iff_mem, List.mem_filter] at hcon
    exact hp hcon.2

/-- `iter_ranges_of(segarr, "log2", mode, True)` yields, in segment order, exactly the bins the
    property attaches to each segment -/
theorem segBins_exact (bins : List Bin) (segs : List Seg) (hb : BinsWF bins) (hs : SegsWF segs)
    (mode : Mode) : segBins bins segs mode = segs.map (selBins (mode == .inner) bins) := by
  unfold segBins
  rw [iterSlices_exact _ _ hb hs.1 (by
        intro q hq
        rw [List.mem_map] at hq
        obtain ⟨sg, hsg, rfl⟩ := hq
        exact hs.2 sg hsg),
      List.map_map, List.map_map]
  apply List.map_congr_left
  intro sg _
  show pick bins (selRows _ _ _) = _
  unfold selRows selBins
  exact pick_filter bins _

theorem segBins_length (bins : List Bin) (segs : List Seg) (mode : Mode) :
    (segBins bins segs mode).length = segs.length := by
  unfold segBins
  rw [List.length_map, iterSlices_length, List.length_map]

/-! ### do_segmetrics -/

theorem zip_map_fst_of_le {α β} (l : List α) (m : List β) (h : l.length ≤ m.length) :
    (l.zip m).map (·.1) = l := by
  induction l generalizing m with
  | nil => simp
  | cons a l ih =>
    cases m with
    | nil => simp at h
    | cons b m =>
      simp only [List.zip_cons_cons, List.map_cons, List.cons.injEq, true_and]
      exact ih m (by simpa using h)

theorem segRow_seg (cfg : Cfg) (sg : Seg) (bs : List Bin) (boot : List BootRow) :
    (segRow cfg sg bs boot).seg = sg := rfl

/-- the rows of the result carry the input segments, unchanged and in order -/
theorem doSegmetrics_segs (cfg : Cfg) (bins : List Bin) (segs : List Seg) (boots : List (List BootRow)) :
    (doSegmetrics cfg bins segs boots).map (·.seg) = segs := by
  unfold doSegmetrics
  simp only [List.map_map]
  have : ((fun (x : SegStats) => x.seg) ∘ fun (x : Seg × List Bin × List BootRow) =>
      segRow cfg x.1 x.2.1 x.2.2) = fun x => x.1 := by
    funext x; rfl
  rw [this]
  apply zip_map_fst_of_le
  rw [List.length_zip, segBins_length, List.length_append, List.length_replicate]
  omega

theorem zip3_map {α β γ δ} (l : List α) (f : α → β) (m : List γ) (F : α → β → γ → δ)
    (h : l.length ≤ m.length) :
    (l.zip ((l.map f).zip m)).map (fun x => F x.1 x.2.1 x.2.2) =
      (l.zip m).map (fun x => F x.1 (f x.1) x.2) := by
  induction l generalizing m with
  | nil => simp
  | cons a l ih =>
    cases m with
    | nil => simp at h
    | cons b m =>
      simp only [List.map_cons, List.zip_cons_cons, List.cons.injEq, true_and]
      exact ih m (by simpa using h)

/-- on well-formed tables every output row is computed from exactly the bins overlapping its own
    segment (after the `skip_low` filter when asked) -/
theorem doSegmetrics_rows (cfg : Cfg) (bins : List Bin) (segs : List Seg) (boots : List (List BootRow))
    (hb : BinsWF (if cfg.skipLow then dropLow bins else bins)) (hs : SegsWF segs) :
    doSegmetrics cfg bins segs boots =
      (segs.zip (boots ++ List.replicate segs.length [])).map
        (fun x => segRow cfg x.1 (overlapping (if cfg.skipLow then dropLow bins else bins) x.1) x.2) := by
  unfold doSegmetrics
  simp only
  rw [segBins_exact _ _ hb hs]
  have e : (segmetricsMode == Mode.inner) = false := by decide
  rw [e]
  have := zip3_map segs (selBins false (if cfg.skipLow then dropLow bins else bins))
    (boots ++ List.replicate segs.length []) (fun sg bs boot => segRow cfg sg bs boot)
    (by rw [List.length_append, List.length_replicate]; omega)
  rw [this]
  apply List.map_congr_left
  intro x _
  rw [selBins_outer]

/-! ### the statistics table -/

theorem mem_stats_location (cfg : Cfg) (sg : Seg) (bs : List Bin) (boot : List BootRow)
    (nm : String) (f : List Rat → StatOut) (hf : locationStat nm = some f) (hn : nm ∈ cfg.loc) :
    (nm, f (bs.map (·.log2))) ∈ (segRow cfg sg bs boot).stats := by
  unfold segRow
  simp only [List.mem_append, List.mem_filterMap]
  left
  exact ⟨nm, hn, by simp [hf]⟩

theorem mem_stats_spread (cfg : Cfg) (sg : Seg) (bs : List Bin) (boot : List BootRow)
    (nm : String) (f : List Rat → StatOut) (hf : spreadStat nm = some f) (hn : nm ∈ cfg.spread) :
    (nm, f ((bs.map (·.log2)).map (· - sg.log2))) ∈ (segRow cfg sg bs boot).stats := by
  unfold segRow
  simp only [List.mem_append, List.mem_filterMap]
  right
  exact ⟨nm, hn, by simp [hf]⟩

/-! ### bintest -/

theorem bh_len (p : List Rat) : (padjustBH p).length = p.length := by
  unfold padjustBH
  simp

theorem zip_map_snd_of_le {α β} (l : List α) (m : List β) (h : m.length ≤ l.length) :
    (l.zip m).map (·.2) = m := by
  induction m generalizing l with
  | nil => simp
  | cons b m ih =>
    cases l with
    | nil => simp at h
    | cons a l =>
      simp only [List.zip_cons_cons, List.map_cons, List.cons.injEq, true_and]
      exact ih l (by simpa using h)

/-- the rows `do_bintest` tests (after the on-target filter) -/
def testedRows (bins : List Bin) (segs : List Seg) (targetOnly : Bool) : List (Bin × Rat) :=
  let rows := bintestRows bins segs
  if targetOnly then rows.filter (fun r => !Generated.ANTITARGET_ALIASES.contains r.1.gene) else rows

theorem bintestAll_eq (tail : Rat → Rat) (bins : List Bin) (segs : List Seg) (t : Bool) :
    bintestAll tail bins segs t =
      ((testedRows bins segs t).zip (padjustBH ((testedRows bins segs t).map
        (fun r => pRaw tail r.2 r.1.weight)))).map
        (fun x => { bin := x.1.1, resid := x.1.2, q := x.2 }) := by
  unfold bintestAll testedRows
  cases t <;> rfl

/-- the adjusted p-values are Benjamini–Hochberg of the raw two-sided tails, in row order -/
theorem bintestAll_q (tail : Rat → Rat) (bins : List Bin) (segs : List Seg) (t : Bool) :
    (bintestAll tail bins segs t).map (·.q) =
      padjustBH ((testedRows bins segs t).map (fun r => pRaw tail r.2 r.1.weight)) := by
  rw [bintestAll_eq, List.map_map]
  have : ((fun (h : Hit) => h.q) ∘ fun (x : (Bin × Rat) × Rat) =>
      ({ bin := x.1.1, resid := x.1.2, q := x.2 } : Hit)) = fun x => x.2 := by
    funext x; rfl
  rw [this]
  apply zip_map_snd_of_le
  rw [bh_len, List.length_map]
  exact Nat.le_refl _

theorem bintestAll_bins (tail : Rat → Rat) (bins : List Bin) (segs : List Seg) (t : Bool) :
    (bintestAll tail bins segs t).map (fun h => (h.bin, h.resid)) = testedRows bins segs t := by
  rw [bintestAll_eq, List.map_map]
  have : ((fun (h : Hit) => (h.bin, h.resid)) ∘ fun (x : (Bin × Rat) × Rat) =>
      ({ bin := x.1.1, resid := x.1.2, q := x.2 } : Hit)) = fun x => x.1 := by
    funext x; rfl
  rw [this]
  apply zip_map_fst_of_le
  rw [bh_len, List.length_map]
  exact Nat.le_refl _

/-- the hits are exactly the tested bins whose adjusted p is below alpha -/
theorem mem_doBintest (tail : Rat → Rat) (bins : List Bin) (segs : List Seg) (alpha : Rat) (t : Bool)
    (h : Hit) : h ∈ doBintest tail bins segs alpha t ↔ h ∈ bintestAll tail bins segs t ∧ h.q < alpha := by
  unfold doBintest
  rw [List.mem_filter]
  simp

/-- with `target_only` no off-target bin is tested (hence none is returned) -/
theorem bintestAll_on_target (tail : Rat → Rat) (bins : List Bin) (segs : List Seg) (h : Hit)
    (hh : h ∈ bintestAll tail bins segs true) : h.bin.gene ∉ Generated.ANTITARGET_ALIASES := by
  have hm : (h.bin, h.resid) ∈ testedRows bins segs true := by
    rw [← bintestAll_bins tail]
    exact List.mem_map_of_mem hh
  unfold testedRows at hm
  simp only [if_true, List.mem_filter] at hm
  intro hcon
  have := hm.2
  simp [hcon] at this

theorem dedupFirst_subset (l : List (Bin × Rat)) : ∀ y ∈ dedupFirst l, y ∈ l := by
  induction l with
  | nil => intro y hy; exact hy
  | cons x xs ih =>
    intro y hy
    unfold dedupFirst at hy
    rcases List.mem_cons.mp hy with h | h
    · rw [h]; exact List.mem_cons_self ..
    · exact List.mem_cons_of_mem _ (ih y (List.mem_filter.mp h).1)

theorem mem_zip_map_self {α β} (f : α → β) (l : List α) (x : β × α) (h : x ∈ (l.map f).zip l) :
    x.2 ∈ l ∧ x.1 = f x.2 := by
  induction l with
  | nil => simp at h
  | cons a l ih =>
    simp only [List.map_cons, List.zip_cons_cons, List.mem_cons] at h
    rcases h with h | h
    · subst h; exact ⟨List.mem_cons_self .., rfl⟩
    · exact ⟨List.mem_cons_of_mem _ (ih h).1, (ih h).2⟩

theorem mem_zip_map_self' {α β} (f : α → β) (l : List α) (x : α × β) (h : x ∈ l.zip (l.map f)) :
    x.1 ∈ l ∧ x.2 = f x.1 := by
  induction l with
  | nil => simp at h
  | cons a l ih =>
    simp only [List.map_cons, List.zip_cons_cons, List.mem_cons] at h
    rcases h with h | h
    · subst h; exact ⟨List.mem_cons_self .., rfl⟩
    · exact ⟨List.mem_cons_of_mem _ (ih h).1, (ih h).2⟩

theorem mem_residuals (bins : List Bin) (segs : List Seg) (hb : BinsWF bins) (hs : SegsWF segs)
    (b : Bin) (r : Rat) (h : (b, r) ∈ residuals bins segs) :
    b ∈ bins ∧ ∃ sg ∈ segs, b.row.chrom = sg.row.chrom ∧ sg.row.s ≤ b.row.s ∧ b.row.e ≤ sg.row.e ∧
      r = b.log2 - sg.log2 := by
  unfold residuals at h
  rw [segBins_exact bins segs hb hs, List.mem_flatMap] at h
  obtain ⟨x, hx, hbr⟩ := h
  obtain ⟨hsg, hx1⟩ := mem_zip_map_self _ segs x hx
  have e : (Mode.inner == Mode.inner) = true := rfl
  rw [e] at hx1
  simp only [List.mem_map] at hbr
  obtain ⟨b', hb', heq⟩ := hbr
  simp only [Prod.mk.injEq] at heq
  obtain ⟨rfl, rfl⟩ := heq
  rw [hx1] at hb'
  unfold selBins at hb'
  rw [List.mem_filter] at hb'
  obtain ⟨hmem, hp⟩ := hb'
  simp only [selFilter, if_true, Option.all_some, Bool.and_eq_true, beq_iff_eq, decide_eq_true_eq] at hp
  exact ⟨hmem, x.2, hsg, hp.1, hp.2.1, hp.2.2, rfl⟩

theorem bintestRows_subset (bins : List Bin) (segs : List Seg) :
    ∀ y ∈ bintestRows bins segs, y ∈ residuals bins segs := by
  intro y hy
  unfold bintestRows at hy
  simp only at hy
  have hr1 : ∀ z ∈ (if ((residuals bins segs).map (·.1.row)).eraseDups.length == (residuals bins segs).length
      then residuals bins segs else dedupFirst (residuals bins segs)), z ∈ residuals bins segs := by
    intro z hz
    split at hz
    · exact hz
    · exact dedupFirst_subset _ z hz
  split at hy
  · rw [List.mem_filterMap] at hy
    obtain ⟨b, _, hf⟩ := hy
    exact hr1 y (List.mem_of_find?_eq_some hf)
  · exact hr1 y hy

/-- the residual of every tested bin is its log2 minus the log2 of a segment that contains it -/
theorem testedRows_residual (bins : List Bin) (segs : List Seg) (hb : BinsWF bins) (hs : SegsWF segs)
    (t : Bool) (b : Bin) (r : Rat) (h : (b, r) ∈ testedRows bins segs t) :
    b ∈ bins ∧ ∃ sg ∈ segs, b.row.chrom = sg.row.chrom ∧ sg.row.s ≤ b.row.s ∧ b.row.e ≤ sg.row.e ∧
      r = b.log2 - sg.log2 := by
  apply mem_residuals bins segs hb hs
  apply bintestRows_subset
  unfold testedRows at h
  simp only at h
  split at h
  · exact (List.mem_filter.mp h).1
  · exact h

end CnvVerif.Stats
