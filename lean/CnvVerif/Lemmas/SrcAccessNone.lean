/-
  `get_regions` from the state the source initialises (`chrom = cursor = run_start = None`): the loop body as the
  translator reads it IN THAT STATE (Generated/ExprsAccessNone.lean, harness/looptrans_none.py: `None + int` raises
  `TypeError`) chained with the loop body for the states after a header (Generated/ExprsAccess.lean) is the hand
  model `getRegions` -- for every file, with no hypothesis on its first line.
-/
import CnvVerif.Model.AccessNoneExt5
import CnvVerif.Lemmas.SrcAccess
set_option linter.unusedSimpArgs false
namespace CnvVerif.SrcNone
open CnvVerif CnvVerif.Generated CnvVerif.Src CnvVerif.C13N

theorem c13n_stepFn : C13N.stepFn = Src.stepFn := rfl
theorem c13n_finalFn : C13N.finalFn = Src.finalFn := rfl
theorem c13n_toRegion : (fun (r : List Char × Nat × Nat) => (String.ofList r.1, r.2.1, r.2.2)) = Src.toRegion := rfl

/-- a header line in the `None` state: nothing to flush, name read, `cursor = 0`, `run_start = None` -/
theorem none_step_header (rest : List Char) :
    src_get_regions_none_step ('>' :: rest) =
      .ok ([], (some (rest.takeWhile (fun ch => !isPySpace ch)), some 0, none)) := by
  unfold src_get_regions_none_step
  have hsp : isPySpace '>' = false := by decide
  have hw : (Py.firstWord ('>' :: rest)).drop 1 = rest.takeWhile (fun ch => !isPySpace ch) := by
    simp [Py.firstWord, List.dropWhile, hsp]
  simp only [startsWith_header, if_true, hw]

/-- any other line in the `None` state: a blank line (after `rstrip`) is skipped, EVERY other line raises
    `TypeError` (all-N: `cursor += len(line)`; mixed: `cursor + n_indices[0]`, the broadcast `+ cursor`,
    `cursor + n_indices[-1] + 1` or `cursor += ...`; N-free: `cursor += len(line)`) -/
theorem none_step_body (l : List Char) (h : l.head? ≠ some '>') :
    src_get_regions_none_step l =
      if (rstripChars l).isEmpty = true then .ok ([], (none, none, none)) else .error "TypeError" := by
  unfold src_get_regions_none_step
  simp only [startsWith_body l h, Bool.false_eq_true, if_false]
  have hr : rstripChars l = Py.rstrip l := rfl
  rw [hr]
  generalize Py.rstrip l = b
  by_cases he : b.isEmpty = true
  · simp only [he, if_true]
  · simp only [he, Bool.false_eq_true, if_false, ite_self]

/-- the generated `None`-state step never produces a partly-`None` state -/
theorem none_step_states (l : List Char) :
    src_get_regions_none_step l = .error "TypeError" ∨
    src_get_regions_none_step l = .ok ([], (none, none, none)) ∨
    ∃ c, src_get_regions_none_step l = .ok ([], (some c, some 0, none)) := by
  by_cases hh : l.head? = some '>'
  · obtain ⟨rest, rfl⟩ : ∃ rest, l = '>' :: rest := by
      cases l with
      | nil => simp at hh
      | cons x xs => simp at hh; exact ⟨xs, by rw [hh]⟩
    exact Or.inr (Or.inr ⟨_, none_step_header rest⟩)
  · rw [none_step_body l hh]
    by_cases he : (rstripChars l).isEmpty = true
    · exact Or.inr (Or.inl (by simp only [he, if_true]))
    · exact Or.inl (by simp only [he, Bool.false_eq_true, if_false])

/-- **the whole function, every file**: `getRegions` on the parsed lines is the source's loop run from
    `chrom = cursor = run_start = None` -/
theorem getRegions_is_source_none (ls : List (List Char)) :
    getRegions (ls.map parseLine) = c13nRegions ls := by
  unfold getRegions
  induction ls with
  | nil =>
    simp only [c13nRegions, c13nLoop, src_get_regions_none_final, List.map_nil, scanFile, emitOpen]
    rfl
  | cons l ls ih =>
    by_cases hh : l.head? = some '>'
    · obtain ⟨rest, rfl⟩ : ∃ rest, l = '>' :: rest := by
        cases l with
        | nil => simp at hh
        | cons x xs => simp at hh; exact ⟨xs, by rw [hh]⟩
      have hp : parseLine ('>' :: rest) =
          .header (String.ofList (rest.takeWhile (fun ch => !isPySpace ch))) := rfl
      simp only [c13nRegions, c13nLoop, none_step_header, List.map_cons, hp, scanFile, c13n_stepFn, c13n_finalFn, c13n_toRegion]
      rw [scanFile_is_source (rest.takeWhile (fun ch => !isPySpace ch)) ⟨0, none⟩]
      simp [emitOpen]
    · simp only [List.map_cons, parseLine_body l hh, c13nRegions, c13nLoop, none_step_body l hh]
      by_cases he : (rstripChars l).isEmpty = true
      · simp only [scanFile, he, if_true]
        rw [ih]
        simp only [c13nRegions]
        cases c13nLoop ls <;> simp
      · simp only [scanFile, he, Bool.false_eq_true, if_false]
        rfl

end CnvVerif.SrcNone
