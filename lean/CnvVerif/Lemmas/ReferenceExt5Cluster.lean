/-
  Lemmas behind Props/C05Cluster.lean: the per-cluster columns of `reference --cluster` are the same biweight
  summaries as the pooled columns, over exactly the member samples (no pseudo-sample).
-/
import CnvVerif.Model.ReferenceExt5Cluster
import CnvVerif.Lemmas.ReferencePerm
import CnvVerif.Lemmas.ReferenceValues
set_option linter.unusedSimpArgs false
set_option linter.unusedVariables false
namespace CnvVerif.Ref.C05Cl
open CnvVerif CnvVerif.Ref

theorem clusterColumn_length (n : Nat) (logr : List (List Rat)) (idx : List Nat) :
    (clusterColumn n logr idx).length = n := by
  simp [clusterColumn, columns]

theorem clusterColumn_get (n : Nat) (logr : List (List Rat)) (idx : List Nat) (j : Nat) (hj : j < n) :
    (clusterColumn n logr idx)[j]? = some (cellOf (idx.map fun s => (logr.getD s []).getD j 0)) := by
  simp [clusterColumn, columns, memberRows, List.getElem?_map, List.getElem?_range hj, List.map_map,
    Function.comp_def]

theorem mem_clusterCols (members : List (List Nat)) (minSize n : Nat) (logr : List (List Rat))
    (lbl : Nat) (col : List (Rat × Desc.ScaleOut)) :
    (lbl, col) ∈ clusterCols members minSize n logr ↔
      ∃ i idx, members[i]? = some idx ∧ minSize ≤ idx.length ∧ lbl = i + 1 ∧ col = clusterColumn n logr idx := by
  unfold clusterCols
  simp only [List.mem_filterMap]
  constructor
  · rintro ⟨⟨idx, i⟩, hm, hp⟩
    have hm' := List.mk_mem_zipIdx_iff_getElem?.mp hm
    by_cases hlt : idx.length < minSize
    · simp [hlt] at hp
    · simp only [hlt, if_false, Option.some.injEq, Prod.mk.injEq] at hp
      exact ⟨i, idx, hm', by omega, hp.1.symm, hp.2.symm⟩
  · rintro ⟨i, idx, hm, hsz, rfl, rfl⟩
    refine ⟨(idx, i), List.mk_mem_zipIdx_iff_getElem?.mpr hm, ?_⟩
    have : ¬ idx.length < minSize := by omega
    simp [this]

theorem clusterColumn_congr (n : Nat) (logr logr' : List (List Rat)) (idx : List Nat)
    (h : ∀ s ∈ idx, logr.getD s [] = logr'.getD s []) :
    clusterColumn n logr idx = clusterColumn n logr' idx := by
  unfold clusterColumn memberRows
  rw [List.map_congr_left h]

theorem columns_map_cellOf_perm (n : Nat) {mat mat' : List (List Rat)} (h : mat.Perm mat') :
    (columns n mat).map cellOf = (columns n mat').map cellOf := by
  unfold columns
  simp only [List.map_map]
  apply List.map_congr_left
  intro j _
  have hp : (mat.map (fun row => row.getD j 0)).Perm (mat'.map (fun row => row.getD j 0)) := h.map _
  simp only [Function.comp_def, cellOf]
  rw [locOf_perm hp, spreadOf_perm hp]

theorem clusterColumn_perm (n : Nat) (logr : List (List Rat)) {idx idx' : List Nat} (h : idx.Perm idx') :
    clusterColumn n logr idx = clusterColumn n logr idx' := by
  unfold clusterColumn memberRows
  exact columns_map_cellOf_perm n (h.map _)

theorem memberRows_range (logr : List (List Rat)) : memberRows logr (List.range logr.length) = logr := by
  unfold memberRows
  apply List.ext_getElem
  · simp
  · intro i h1 h2
    simp at h1
    simp [List.getD_eq_getElem?_getD, h1]

theorem clusterColumn_all (n : Nat) (logr : List (List Rat)) :
    clusterColumn n logr (List.range logr.length) = (columns n logr).map cellOf := by
  unfold clusterColumn
  rw [memberRows_range]

/-- the pooled cell of a bin is the cluster cell formula on the column with the pseudo-sample value put first -/
theorem columns_cons (n : Nat) (flat : List Rat) (mat : List (List Rat)) :
    columns n (flat :: mat) = (List.range n).map fun j => flat.getD j 0 :: mat.map (fun row => row.getD j 0) := by
  simp [columns]

/-- a block is accepted by the cluster path exactly when the pooled path accepts it -/
theorem blockLogr_ok_iff (hapX : Bool) (par : Option String) (skipLow : Bool) (sexes : List (String × Bool))
    (samples : List Sample) :
    (∃ x, blockLogr hapX par skipLow sexes samples = .ok x) ↔ (∃ y, refBlock hapX par skipLow sexes samples = .ok y) := by
  unfold blockLogr refBlock
  cases hs : sortSamples samples with
  | nil => simp
  | cons first rest =>
    simp only []
    by_cases he : first.rows.isEmpty
    · simp [he]
    · simp only [he]
      cases hf : rest.find? (fun s => s.rows.map binKey != first.rows.map binKey) with
      | none => simp
      | some bad => simp

/-- when the block is accepted: the bins are those of the pooled block and the pooled (log2, spread) columns are the
    summaries of the SAME sample rows with the pseudo-sample row on top -/
theorem blockLogr_pooled (hapX : Bool) (par : Option String) (skipLow : Bool) (sexes : List (String × Bool))
    (samples : List Sample) (bins : List CovRow) (logr : List (List Rat))
    (h : blockLogr hapX par skipLow sexes samples = .ok (bins, logr)) :
    ∃ outs, refBlock hapX par skipLow sexes samples = .ok outs ∧
      outs.map (fun o => (o.chrom, o.s, o.e, o.gene)) = bins.map binKey ∧
      (bins ≠ [] → outs.map (fun o => (o.log2, o.spread)) =
        (columns bins.length (expectFlat hapX par (bins.map toC) :: logr)).map cellOf) := by
  unfold blockLogr at h
  cases hs : sortSamples samples with
  | nil =>
    rw [hs] at h
    simp only [Except.ok.injEq, Prod.mk.injEq] at h
    obtain ⟨rfl, rfl⟩ := h
    refine ⟨[], ?_, rfl, fun hne => absurd rfl hne⟩
    unfold refBlock; rw [hs]
  | cons first rest =>
    rw [hs] at h
    simp only [] at h
    by_cases he : first.rows.isEmpty
    · simp only [he, if_true, Except.ok.injEq, Prod.mk.injEq] at h
      obtain ⟨rfl, _⟩ := h
      refine ⟨[], ?_, rfl, fun hne => absurd rfl hne⟩
      unfold refBlock; rw [hs]; simp [he]
    · simp only [he] at h
      cases hf : rest.find? (fun s => s.rows.map binKey != first.rows.map binKey) with
      | some bad => rw [hf] at h; simp at h
      | none =>
        rw [hf] at h
        simp only [Bool.false_eq_true, if_false, Except.ok.injEq, Prod.mk.injEq] at h
        obtain ⟨rfl, rfl⟩ := h
        have hrb : ∃ outs, refBlock hapX par skipLow sexes samples = .ok outs := by
          unfold refBlock; rw [hs]; simp [he, hf]
        obtain ⟨outs, ho⟩ := hrb
        have hne : first.rows.isEmpty = false := by simpa using he
        have hv := refBlock_values hapX par skipLow sexes samples outs first rest hs hne ho
        refine ⟨outs, ho, refBlock_bins hapX par skipLow sexes samples outs first rest hs ho, fun _ => ?_⟩
        have h2 := hv.2
        rw [h2, List.map_map]
        have hl : ∀ (l₁ : List (List Rat)) (l₂ : List (List Rat)), l₁.length = first.rows.length →
            l₂.length = first.rows.length →
            ((first.rows.zip l₁).zip l₂).map (fun p => cellOf p.1.2) = l₁.map cellOf := by
          intro l₁ l₂ h₁ h₂
          have : (fun p : (CovRow × List Rat) × List Rat => cellOf p.1.2) = cellOf ∘ Prod.snd ∘ Prod.fst := rfl
          rw [this, ← List.map_map, ← List.map_map, List.map_fst_zip (by simp; omega),
            List.map_snd_zip (by omega)]
        exact hl _ _ (columns_length _ _) (columns_length _ _)

/-- the cluster table of an accepted run: its columns are `clusterCols` over its own bins and some sample matrix -/
theorem doCluster_cols (hapX : Bool) (par : Option String) (sexes : List (String × Bool))
    (targets : List Sample) (antitargets : Option (List Sample)) (members : List (List Nat)) (minSize : Nat)
    (tbl : ClusterTable) (h : doCluster hapX par sexes targets antitargets members minSize = .ok tbl) :
    ∃ mat, tbl.cols = clusterCols members minSize tbl.bins.length mat := by
  unfold doCluster at h
  simp only [bind, Except.bind, pure, Except.pure, throw, throwThe, MonadExceptOf.throw] at h
  repeat' split at h
  all_goals cases h
  all_goals exact ⟨_, rfl⟩

end CnvVerif.Ref.C05Cl
