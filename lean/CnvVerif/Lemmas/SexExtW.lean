/-
  The robustness margin of the sex inference for ANY location estimator that stays within the range of its data
  and moves with it — instantiated for the unweighted median and for `descriptives.weighted_median` (C19's model),
  i.e. for tables with and without a weight column.
-/
import CnvVerif.Lemmas.SexExt
import CnvVerif.Lemmas.DescWeighted
set_option linter.unusedTactic false
set_option linter.unreachableTactic false
set_option linter.unnecessarySeqFocus false
namespace CnvVerif

theorem sexIsMaleOfEstimates_within_margin (hapX female : Bool) (a d A XF XM : Rat) (Y : Option (Rat × Rat))
    (hd : 4 * d < 1) (hA : |A - a| ≤ d)
    (hXF : |XF - (a + expectedX hapX female + (xShifts hapX).1)| ≤ d)
    (hXM : |XM - (a + expectedX hapX female + (xShifts hapX).2)| ≤ d)
    (hY : ∀ p, Y = some p →
      if female then (|p.1 - (p.2 + 3)| ≤ d ∧ p.2 ≤ a - 2) else (|p.1 - (a + 3)| ≤ d ∧ |p.2 - a| ≤ d)) :
    sexIsMaleOfEstimates A XF XM Y = !female := by
  have hA' := abs_le.mp hA
  have hXF' := abs_le.mp hXF
  have hXM' := abs_le.mp hXM
  unfold sexIsMaleOfEstimates
  simp only [absR_eq_abs]
  cases female
  · -- male: the X ratio exceeds 1, and so does the Y ratio
    have eF : a + expectedX hapX false + (xShifts hapX).1 = a - 1 := by
      cases hapX <;> norm_num [xShifts, expectedX] <;> ring
    have eM : a + expectedX hapX false + (xShifts hapX).2 = a := by
      cases hapX <;> norm_num [xShifts, expectedX]
    rw [eF] at hXF'; rw [eM] at hXM'
    have hx : 1 < |A - XF| / max |A - XM| (1/100) := by
      apply ratio_gt_one
      · have h1 : |A - XM| ≤ 2 * d := by rw [abs_le]; constructor <;> linarith [hA'.1, hA'.2, hXM'.1, hXM'.2]
        have h2 : 1 - 2 * d ≤ |A - XF| := le_trans (by linarith [hA'.1, hXF'.2]) (le_abs_self _)
        linarith
      · have h2 : 1 - 2 * d ≤ |A - XF| := le_trans (by linarith [hA'.1, hXF'.2]) (le_abs_self _)
        linarith
    cases Y with
    | none => exact decide_eq_true hx
    | some p =>
      have hp := hY p rfl
      simp only [Bool.false_eq_true, if_false] at hp
      have h1 := abs_le.mp hp.1
      have h2 := abs_le.mp hp.2
      have hy : 1 < |A - p.1| / max |A - p.2| (1/100) := by
        have hm : |A - p.2| ≤ 2 * d := by rw [abs_le]; constructor <;> linarith [hA'.1, hA'.2, h2.1, h2.2]
        have hf : 3 - 2 * d ≤ |A - p.1| := by
          rw [abs_sub_comm]; exact le_trans (by linarith [hA'.2, h1.1]) (le_abs_self _)
        apply ratio_gt_one <;> linarith
      exact decide_eq_true (by
        show |A - XF| / max |A - XM| (1/100) * (|A - p.1| / max |A - p.2| (1/100)) > 1
        nlinarith)
  · have eF : a + expectedX hapX true + (xShifts hapX).1 = a := by
      cases hapX <;> norm_num [xShifts, expectedX]
    have eM : a + expectedX hapX true + (xShifts hapX).2 = a + 1 := by
      cases hapX <;> norm_num [xShifts, expectedX] <;> ring
    rw [eF] at hXF'; rw [eM] at hXM'
    have hx : 0 ≤ |A - XF| / max |A - XM| (1/100) ∧ |A - XF| / max |A - XM| (1/100) < 1 := by
      apply ratio_lt_one _ _ (abs_nonneg _)
      have h1 : |A - XF| ≤ 2 * d := by rw [abs_le]; constructor <;> linarith [hA'.1, hA'.2, hXF'.1, hXF'.2]
      have h2 : 1 - 2 * d ≤ |A - XM| := by
        rw [abs_sub_comm]; exact le_trans (by linarith [hA'.2, hXM'.1]) (le_abs_self _)
      linarith
    cases Y with
    | none => exact decide_eq_false (not_lt.mpr (le_of_lt hx.2))
    | some p =>
      have hp := hY p rfl
      simp only [if_true] at hp
      have hD : 2 - d ≤ A - p.2 := by linarith [hA'.1, hp.2]
      have hy : 0 ≤ |A - p.1| / max |A - p.2| (1/100) ∧ |A - p.1| / max |A - p.2| (1/100) < 1 := by
        apply ratio_lt_one _ _ (abs_nonneg _)
        have he := abs_le.mp hp.1
        rw [abs_of_nonneg (by linarith : (0 : Rat) ≤ A - p.2), abs_lt]
        constructor <;> linarith [he.1, he.2]
      exact decide_eq_false (not_lt.mpr (by
        show |A - XF| / max |A - XM| (1/100) * (|A - p.1| / max |A - p.2| (1/100)) ≤ 1
        nlinarith [hx.1, hx.2, hy.1, hy.2]))

open Desc in
/-- WEIGHTED tables: `compare_to_auto` takes `descriptives.weighted_median` of the values with the bins' weights
    (C19's exact model; `oA oX oY` = the argsort permutations numpy returned).  Same margin, any non-negative
    weights. -/
theorem sexIsMaleWeighted_within_margin (hapX female : Bool) (a d : Rat) (oA oX oY : List Nat)
    (pA pX pY : List (Rat × Rat)) (hd : 4 * d < 1)
    (hoA : oA ≠ [] ∧ ∀ i ∈ oA, i < pA.length) (hoX : oX ≠ [] ∧ ∀ i ∈ oX, i < pX.length)
    (hoY : pY ≠ [] → oY ≠ [] ∧ ∀ i ∈ oY, i < pY.length)
    (hwA : ∀ q ∈ pA, 0 ≤ q.2) (hwX : ∀ q ∈ pX, 0 ≤ q.2) (hwY : ∀ q ∈ pY, 0 ≤ q.2)
    (hA : ∀ q ∈ pA, |q.1 - a| ≤ d) (hX : ∀ q ∈ pX, |q.1 - (a + expectedX hapX female)| ≤ d)
    (hY : if female then ∀ q ∈ pY, q.1 ≤ a - 2 else ∀ q ∈ pY, |q.1 - a| ≤ d) :
    sexIsMaleOfEstimates (weightedMedianCore false oA pA)
      (weightedMedianCore false oX (shiftP (xShifts hapX).1 pX))
      (weightedMedianCore false oX (shiftP (xShifts hapX).2 pX))
      (if pY.isEmpty then none else
        some (weightedMedianCore false oY (shiftP yShifts.1 pY), weightedMedianCore false oY (shiftP yShifts.2 pY)))
      = !female := by
  have rng : ∀ (o : List Nat) (p : List (Rat × Rat)) (L : Rat), (o ≠ [] ∧ ∀ i ∈ o, i < p.length) →
      (∀ q ∈ p, 0 ≤ q.2) → (∀ q ∈ p, |q.1 - L| ≤ d) → |weightedMedianCore false o p - L| ≤ d := by
    intro o p L ho hw h
    have := weightedMedianCore_in_range o p ho.1 ho.2 hw (L - d) (L + d) (fun q hq => by
      have := abs_le.mp (h q hq); constructor <;> linarith [this.1, this.2])
    rw [abs_le]; constructor <;> linarith [this.1, this.2]
  apply sexIsMaleOfEstimates_within_margin hapX female a d _ _ _ _ hd (rng oA pA a hoA hwA hA)
  · rw [weightedMedianCore_shift oX _ pX hoX.1 hoX.2 hwX]
    have := rng oX pX _ hoX hwX hX
    have e : weightedMedianCore false oX pX + (xShifts hapX).1 - (a + expectedX hapX female + (xShifts hapX).1)
        = weightedMedianCore false oX pX - (a + expectedX hapX female) := by ring
    rw [e]; exact this
  · rw [weightedMedianCore_shift oX _ pX hoX.1 hoX.2 hwX]
    have := rng oX pX _ hoX hwX hX
    have e : weightedMedianCore false oX pX + (xShifts hapX).2 - (a + expectedX hapX female + (xShifts hapX).2)
        = weightedMedianCore false oX pX - (a + expectedX hapX female) := by ring
    rw [e]; exact this
  · intro p hp
    by_cases hE : pY = []
    · subst hE; simp at hp
    · have hoY' := hoY hE
      have hne : pY.isEmpty = false := by simpa using hE
      simp only [hne, Bool.false_eq_true, if_false, Option.some.injEq] at hp
      subst hp
      simp only [yShifts]
      rw [weightedMedianCore_shift oY 3 pY hoY'.1 hoY'.2 hwY, weightedMedianCore_shift oY 0 pY hoY'.1 hoY'.2 hwY]
      cases female
      · simp only [Bool.false_eq_true, if_false] at hY ⊢
        have := rng oY pY a hoY' hwY hY
        constructor
        · have e : weightedMedianCore false oY pY + 3 - (a + 3) = weightedMedianCore false oY pY - a := by ring
          rw [e]; exact this
        · rw [add_zero]; exact this
      · simp only [if_true] at hY ⊢
        refine ⟨?_, ?_⟩
        · have e : weightedMedianCore false oY pY + 3 - (weightedMedianCore false oY pY + 0 + 3) = 0 := by ring
          rw [e, abs_zero]
          have := abs_nonneg (weightedMedianCore false oA pA - a)
          linarith [rng oA pA a hoA hwA hA]
        rw [add_zero]
        -- upper bound a − 2; any lower bound will do
        obtain ⟨lo, hlo⟩ : ∃ lo : Rat, ∀ q ∈ pY, lo ≤ q.1 := by
          refine ⟨-(pY.map (fun q => |q.1|)).sum, fun q hq => ?_⟩
          have : |q.1| ≤ (pY.map (fun q => |q.1|)).sum :=
            List.single_le_sum (by intro y hy'; simp at hy'; obtain ⟨z, w, _, rfl⟩ := hy'; exact abs_nonneg z) _
              (List.mem_map_of_mem (f := fun q : Rat × Rat => |q.1|) hq)
          linarith [neg_abs_le q.1]
        exact (weightedMedianCore_in_range oY pY hoY'.1 hoY'.2 hwY lo (a - 2) (fun q hq => ⟨hlo q hq, hY q hq⟩)).2

/-- the unweighted decision is the same function of its medians -/
theorem sexIsMaleFallback_eq_estimates (hapX : Bool) (auto xs ys : List Rat) :
    sexIsMaleFallback hapX auto xs ys =
      sexIsMaleOfEstimates (medianR auto) (medianR (shiftVals xs (xShifts hapX).1))
        (medianR (shiftVals xs (xShifts hapX).2))
        (if ys.isEmpty then none else
          some (medianR (shiftVals ys yShifts.1), medianR (shiftVals ys yShifts.2))) := by
  unfold sexIsMaleFallback sexIsMaleOfEstimates compareChromOf fallbackCmp compareChrom
  cases ys.isEmpty <;> rfl

end CnvVerif
