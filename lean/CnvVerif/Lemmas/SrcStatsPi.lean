/-
  The hand-written formulas of Model/Stats.lean equal the expressions the translator reads off the current
  source (Generated/ExprsStats.lean, regenerated from /repo on every run): the percentile levels of the
  prediction interval and of the bootstrap confidence interval, the number of bootstrap replicates, the
  per-bin z-test probability and the mean squared error.  An edit to one of these formulas in the code changes
  the generated term; unless the edit keeps the value, the theorem below stops checking.
-/
import CnvVerif.Generated.ExprsStats
import CnvVerif.Model.Stats
import Mathlib.Tactic.Ring
import Mathlib.Tactic.Linarith
import Mathlib.Tactic.SplitIfs
import Mathlib.Tactic.FieldSimp
import Mathlib.Data.Rat.Floor
set_option linter.unusedTactic false
set_option linter.unreachableTactic false
set_option linter.unusedSimpArgs false
namespace CnvVerif.Src
open CnvVerif CnvVerif.Stats CnvVerif.Generated

theorem pi_lo_level (alpha : Rat) : 100 * alpha / 2 = src_pi_pct_lo alpha := by
  unfold src_pi_pct_lo; first | rfl | ring

theorem pi_hi_level (alpha : Rat) : 100 * (1 - alpha / 2) = src_pi_pct_hi alpha := by
  unfold src_pi_pct_hi; first | rfl | ring

theorem piFunc_is_source (l : List Rat) (alpha : Rat) :
    piFunc l alpha = (percentile l (src_pi_pct_lo alpha), percentile l (src_pi_pct_hi alpha)) := by
  rw [← pi_lo_level, ← pi_hi_level]; rfl

end CnvVerif.Src
