/-
  The model's record-level decisions (`depthOf`, `zygosityOf`, `altCountOf`, `safesum` of Model/Vcf.lean) ARE the decision
  structures the translator reads off skgenome/tabio/vcfio.py (`_extract_genotype`, `_get_alt_count`, `_safesum`;
  Generated/VcfDecisions.lean, regenerated from /repo on every run; reading: harness/dectrans.py).  The atoms of those
  structures are read on the model's data as stated by the definitions below.
-/
import CnvVerif.Generated.VcfDecisions
import CnvVerif.Model.Vcf
set_option linter.unusedSimpArgs false
set_option linter.unusedVariables false
namespace CnvVerif.Src
open CnvVerif CnvVerif.Vcf CnvVerif.Generated

/-! ### the atoms, on the model's view of a sample column -/

/-- `"AD" in sample` -/
def hasAD (s : Smp) : Bool := match s.ad with
  | .absent => false
  | _ => true

/-- `isinstance(sample["AD"], tuple)` -/
def adIsTuple (s : Smp) : Bool := match s.ad with
  | .tuple _ => true
  | _ => false

/-- `sample.get("AD") not in (None, (None,))` -/
def adGiven (s : Smp) : Bool := match s.ad with
  | .absent => false
  | .scalar none => false
  | .tuple [none] => false
  | _ => true

/-- `len(sample["AD"]) > 1` -/
def adHasSecond (s : Smp) : Bool := match s.ad with
  | .tuple l => decide (l.length > 1)
  | _ => false

/-- `len(set(sample["GT"])) > 1`: the genotype names more than one distinct allele ("." is one) -/
def severalAlleles (gt : List (Option Int)) : Bool := decide (gt.eraseDups.length > 1)

/-- `set(sample["GT"]).pop() == 0` for a genotype naming one allele: that allele is the reference -/
def onlyAlleleIsRef (gt : List (Option Int)) : Bool := gt.head? == some (some 0)

/-! ### the leaves -/

/-- the value each depth source stands for -/
def depthFrom (s : Smp) (r : Rec) : DepthSrc → Option Int
  | .sampleDP => s.dp
  | .sumAD => match s.ad with
    | .tuple l => some (safesum l)
    | _ => none
  | .infoDP => r.infoDP
  | .missing => none

/-- the value each alt-count source stands for; the CLCAD2 / AO sources do not occur in files with GT, AD, DP only -/
def altFrom (s : Smp) : AltSrc → Option Int
  | .adSecond => match s.ad with
    | .tuple l => (l[1]?).getD none
    | _ => none
  | .zero => some 0
  | .adScalar => match s.ad with
    | .scalar v => v
    | _ => none
  | .missing => none
  | _ => none

/-- `sum(filter(None, tup))`: the sum of the entries that are neither missing nor zero -/
def sumOfTruthy (l : List (Option Int)) : Int := ((l.filterMap id).filter (fun x => x != 0)).sum

def sumFrom (l : List (Option Int)) : SumSrc → Int
  | .sumOfTruthy => sumOfTruthy l

/-! ### the theorems -/

theorem depthOf_is_source (s : Smp) (r : Rec) :
    depthOf s r = depthFrom s r (src_extract_genotype_depth s.hasDP (hasAD s) (adIsTuple s) r.infoDP.isSome) := by
  obtain ⟨gt, hasDP, dp, ad⟩ := s
  cases hasDP <;> cases ad <;> cases h : r.infoDP <;>
    simp [depthOf, depthFrom, src_extract_genotype_depth, hasAD, adIsTuple, h]

theorem zygosityOf_is_source (gt : List (Option Int)) :
    zygosityOf gt = src_extract_genotype_zygosity (severalAlleles gt) (onlyAlleleIsRef gt) := by
  unfold zygosityOf src_extract_genotype_zygosity severalAlleles onlyAlleleIsRef
  by_cases h1 : gt.eraseDups.length > 1 <;> by_cases h2 : (gt.head? == some (some 0)) = true <;> simp [h1, h2]

theorem altCountOf_is_source (s : Smp) :
    altCountOf s = altFrom s (src_extract_genotype_alt_count (adGiven s) (adIsTuple s) (adHasSecond s)
      false false false false) := by
  obtain ⟨gt, hasDP, dp, ad⟩ := s
  cases ad with
  | absent => simp [altCountOf, altFrom, src_extract_genotype_alt_count, adGiven, adIsTuple, adHasSecond]
  | scalar v => cases v <;> simp [altCountOf, altFrom, src_extract_genotype_alt_count, adGiven, adIsTuple, adHasSecond]
  | tuple l =>
    match l with
    | [] => simp [altCountOf, altFrom, src_extract_genotype_alt_count, adGiven, adIsTuple, adHasSecond]
    | [none] => simp [altCountOf, altFrom, src_extract_genotype_alt_count, adGiven, adIsTuple, adHasSecond]
    | [some a] => simp [altCountOf, altFrom, src_extract_genotype_alt_count, adGiven, adIsTuple, adHasSecond]
    | a :: b :: t =>
      cases a <;> simp [altCountOf, altFrom, src_extract_genotype_alt_count, adGiven, adIsTuple, adHasSecond]

theorem foldl_add_eq (l : List Int) (acc : Int) : l.foldl (· + ·) acc = acc + l.sum := by
  induction l generalizing acc with
  | nil => simp
  | cons a t ih => simp [List.foldl_cons, ih, Int.add_assoc]

theorem safesum_eq_sumOfTruthy (l : List (Option Int)) : safesum l = sumOfTruthy l := by
  unfold safesum sumOfTruthy
  rw [foldl_add_eq]
  induction l with
  | nil => simp
  | cons a t ih =>
    cases a with
    | none => simpa using ih
    | some x =>
      by_cases hx : x = 0
      · subst hx
        simpa using ih
      · simp only [List.map_cons, Option.getD_some, List.sum_cons, List.filterMap_cons, id]
        simp only [Int.zero_add] at ih
        simp [List.filter_cons, hx, ih]

theorem safesum_is_source (l : List (Option Int)) : safesum l = sumFrom l src_safesum := by
  unfold src_safesum
  exact safesum_eq_sumOfTruthy l

end CnvVerif.Src
