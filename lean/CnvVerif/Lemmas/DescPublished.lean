/-
  The run-time oracle of the C19 driver (`Drv.C19.Spec`: definitions written a second time from the
  published formulas) computes the same functions as the model (`Desc`), for all inputs.
-/
import CnvVerif.Lemmas.Descriptives
import CnvVerif.Driver.Descriptives
set_option linter.unusedSimpArgs false
set_option linter.unusedVariables false
namespace CnvVerif.Desc
open CnvVerif.Generated CnvVerif.Drv.C19

/-! ### sorting -/

theorem spec_insertSorted_perm (x : Rat) (l : List Rat) : (Spec.insertSorted x l).Perm (x :: l) := by
  induction l with
  | nil => exact List.Perm.refl _
  | cons y ys ih =>
    unfold Spec.insertSorted
    split
    · exact List.Perm.refl _
    · exact (List.Perm.cons y ih).trans (List.Perm.swap x y ys)

theorem spec_insertSorted_sorted (x : Rat) (l : List Rat) (h : l.Pairwise (· ≤ ·)) :
    (Spec.insertSorted x l).Pairwise (· ≤ ·) := by
  induction l with
  | nil => simp [Spec.insertSorted]
  | cons y ys ih =>
    obtain ⟨h1, h2⟩ := List.pairwise_cons.mp h
    unfold Spec.insertSorted
    split
    · rename_i hxy
      refine List.pairwise_cons.mpr ⟨fun b hb => ?_, h⟩
      rcases List.mem_cons.mp hb with rfl | hb
      · exact hxy
      · exact le_trans hxy (h1 b hb)
    · rename_i hxy
      have hyx : y ≤ x := le_of_lt (not_le.mp hxy)
      refine List.pairwise_cons.mpr ⟨fun b hb => ?_, ih h2⟩
      have hb' := (spec_insertSorted_perm x ys).mem_iff.mp hb
      rcases List.mem_cons.mp hb' with rfl | hb'
      · exact hyx
      · exact h1 b hb'

theorem spec_isort_cons (x : Rat) (l : List Rat) : Spec.isort (x :: l) = Spec.insertSorted x (Spec.isort l) := rfl

theorem spec_isort_perm (l : List Rat) : (Spec.isort l).Perm l := by
  induction l with
  | nil => exact List.Perm.refl _
  | cons x xs ih =>
    rw [spec_isort_cons]
    exact (spec_insertSorted_perm x _).trans (List.Perm.cons x ih)

theorem spec_isort_sorted (l : List Rat) : (Spec.isort l).Pairwise (· ≤ ·) := by
  induction l with
  | nil => exact List.Pairwise.nil
  | cons x xs ih =>
    rw [spec_isort_cons]
    exact spec_insertSorted_sorted x _ ih

theorem spec_isort_eq_sortR (l : List Rat) : Spec.isort l = sortR l :=
  sorted_perm_unique (spec_isort_sorted l) (sortR_sorted l) ((spec_isort_perm l).trans (sortR_perm l).symm)

theorem spec_absQ_eq (q : Rat) : absQ q = absR q := rfl

theorem spec_orderStat_eq (s : List Rat) (k : Nat) : Spec.orderStat s k = nth s k := rfl

/-! ### median, quantile -/

theorem spec_median_eq (l : List Rat) : Spec.median l = median l := by
  rw [median_def]
  unfold Spec.median
  simp only [spec_isort_eq_sortR, spec_orderStat_eq, beq_iff_eq]

theorem sortR_ne_nil {l : List Rat} (hl : l ≠ []) : sortR l ≠ [] := by
  intro h; apply hl
  have := sortR_length l
  rw [h] at this
  exact List.length_eq_zero_iff.mp this.symm

theorem spec_quantile7_eq (l : List Rat) (hl : l ≠ []) (q : Rat) (h0 : 0 ≤ q) (h1 : q ≤ 1) :
    Spec.quantile7 l q = quantile l q := by
  have hs : sortR l ≠ [] := sortR_ne_nil hl
  have hn : 0 < (sortR l).length := List.length_pos_iff.mpr hs
  have hn1 : (1 : Rat) ≤ ((sortR l).length : Rat) := by exact_mod_cast hn
  obtain ⟨hlo, hg0, hg1⟩ := quantile_index _ hn q h0 h1
  have hub : q * (((sortR l).length : Rat) - 1) ≤ ((sortR l).length : Rat) - 1 := by nlinarith
  unfold Spec.quantile7 quantile quantileSorted
  simp only [spec_isort_eq_sortR, spec_orderStat_eq, beq_iff_eq]
  rw [mul_comm (((sortR l).length : Rat) - 1) q]
  split
  · rename_i heq
    rw [← heq]; ring
  · rename_i hne
    have hlt : (((q * (((sortR l).length : Rat) - 1)).floor.toNat : Nat) : Rat) < q * (((sortR l).length : Rat) - 1) :=
      lt_of_le_of_ne (by linarith) (fun h => hne h.symm)
    have hlt' : (((q * (((sortR l).length : Rat) - 1)).floor.toNat + 1 : Nat) : Rat) < ((sortR l).length : Rat) := by
      push_cast; linarith
    have hlt'' : (q * (((sortR l).length : Rat) - 1)).floor.toNat + 1 < (sortR l).length := by exact_mod_cast hlt'
    rw [Nat.min_eq_left (by omega)]

/-! ### MAD, IQR -/

theorem spec_absQ_fun : (absQ : Rat → Rat) = absR := rfl

theorem spec_mad_eq (a : List Rat) : Spec.mad a = (7413 / 5000) * madCore a false := by
  rw [madCore_def]
  unfold Spec.mad
  simp only [spec_median_eq, spec_absQ_eq, Bool.false_eq_true, if_false]

theorem spec_iqr_eq (a : List Rat) (ha : a ≠ []) : Spec.iqr a = iqrCore a := by
  unfold Spec.iqr iqrCore
  rw [spec_quantile7_eq a ha _ (by norm_num) (by norm_num), spec_quantile7_eq a ha _ (by norm_num) (by norm_num)]
  have e1 : ((IQR_Q_HI : Nat) : Rat) / 100 = 3 / 4 := by unfold IQR_Q_HI; norm_num
  have e2 : ((IQR_Q_LO : Nat) : Rat) / 100 = 1 / 4 := by unfold IQR_Q_LO; norm_num
  rw [e1, e2]

/-! ### gapper -/

theorem foldl_add_eq_sum (l : List Rat) (a : Rat) : l.foldl (· + ·) a = a + l.sum := by
  induction l generalizing a with
  | nil => simp
  | cons x xs ih => rw [List.foldl_cons, ih, List.sum_cons]; ring

theorem diffs_length (s : List Rat) : (diffs s).length = s.length - 1 := by
  unfold diffs; simp

theorem diffs_eq_range (s : List Rat) :
    diffs s = (List.range (s.length - 1)).map (fun i => nth s (i + 1) - nth s i) := by
  apply List.ext_getElem
  · rw [diffs_length]; simp
  · intro i h1 h2
    rw [diffs_length] at h1
    rw [List.getElem_map, List.getElem_range, nth_eq_getElem s (i + 1) (by omega), nth_eq_getElem s i (by omega)]
    simp only [diffs, List.getElem_map, List.getElem_zip, List.getElem_tail]

theorem zip_map_range {α} (f : Nat → α) (m : Nat) :
    ((List.range m).map f).zip (List.range m) = (List.range m).map (fun i => (f i, i)) := by
  apply List.ext_getElem
  · simp
  · intro i h1 h2
    simp

theorem spec_gapper_eq (a : List Rat) : Spec.gapper a = gapperCore a := by
  rw [gapperCore_def]
  unfold Spec.gapper
  simp only [spec_isort_eq_sortR, spec_orderStat_eq]
  congr 1
  rw [foldl_add_eq_sum, zero_add]
  unfold gapTerms
  rw [diffs_length, diffs_eq_range, zip_map_range, List.map_map]
  congr 1
  apply List.map_congr_left
  intro i _
  simp only [Function.comp]
  ring

/-! ### weighted mean and variance -/

theorem foldl_add_map_eq_sum {α} (f : α → Rat) (l : List α) (a : Rat) :
    l.foldl (fun s q => s + f q) a = a + (l.map f).sum := by
  induction l generalizing a with
  | nil => simp
  | cons x xs ih => rw [List.foldl_cons, ih, List.map_cons, List.sum_cons]; ring

theorem spec_wmean_eq (p : List (Rat × Rat)) (v : Rat) (h : wavg p = some v) : Spec.wmean p = v := by
  unfold wavg at h
  simp only at h
  split at h
  · exact absurd h (by simp)
  · unfold Spec.wmean
    rw [foldl_add_map_eq_sum (fun q : Rat × Rat => q.1 * q.2), foldl_add_map_eq_sum (fun q : Rat × Rat => q.2),
      zero_add, zero_add]
    exact Option.some.inj h

theorem spec_wvar_eq (p : List (Rat × Rat)) (v : Rat) (h : weightedVarCore p = some v) : Spec.wvar p = v := by
  unfold weightedVarCore at h
  split at h
  · exact absurd h (by simp)
  · rename_i mean hm
    unfold Spec.wvar
    simp only [spec_wmean_eq p mean hm]
    exact spec_wmean_eq _ v h

/-! ### Qn -/

theorem map_getD_range (xs : List Rat) : (List.range xs.length).map (fun j => xs.getD j 0) = xs := by
  apply List.ext_getElem
  · simp
  · intro i h1 h2
    simp at h1
    simp [List.getD, h1]

theorem spec_qn_pairs (x : List Rat) :
    ((List.range x.length).flatMap (fun i => ((List.range x.length).filter (fun j => i < j)).map
      (fun j => absQ (x.getD i 0 - x.getD j 0)))) = pairDiffs x := by
  induction x with
  | nil => rfl
  | cons a xs ih =>
    rw [pairDiffs_cons, ← ih, List.length_cons, List.range_succ_eq_map, List.flatMap_cons, List.flatMap_map]
    congr 1
    · simp only [List.filter_cons, lt_irrefl, decide_false, List.filter_map, List.map_map]
      conv_rhs => rw [← map_getD_range xs, List.map_map]
      have : (List.range xs.length).filter ((fun j => decide (0 < j)) ∘ Nat.succ) = List.range xs.length := by
        rw [List.filter_eq_self]; intro j _; simp
      simp only [Bool.false_eq_true, if_false]
      rw [this, List.map_map]
      apply List.map_congr_left
      intro j _
      simp [spec_absQ_eq]
    · apply List.flatMap_congr
      intro i _
      simp only [List.filter_cons, List.filter_map, List.map_map]
      have h0 : ¬ (i + 1 < 0) := by omega
      simp only [Nat.succ_eq_add_one, h0, decide_false, Bool.false_eq_true, if_false]
      have : (List.range xs.length).filter ((fun j => decide (i + 1 < j)) ∘ Nat.succ)
          = (List.range xs.length).filter (fun j => decide (i < j)) := by
        apply List.filter_congr; intro j _; simp
      rw [this, List.map_map]
      apply List.map_congr_left
      intro j _
      simp

theorem spec_qn_eq (a : List Rat) (h : 2 ≤ a.length) :
    Spec.qn a = quantile (pairDiffs a) (1 / 4) /
      (if a.length ≤ 10 then 174 / 125 else if a.length < 400 then 1 + 4 / (a.length : Rat) else 1) := by
  unfold Spec.qn
  simp only []
  rw [spec_qn_pairs, spec_quantile7_eq _ (pairDiffs_ne_nil a h) _ (by norm_num) (by norm_num)]

theorem spec_qn_const_pos (n : Nat) :
    (0 : Rat) < (if n ≤ 10 then 174 / 125 else if n < 400 then 1 + 4 / (n : Rat) else 1) := by
  split
  · norm_num
  · split
    · have : (0 : Rat) ≤ 4 / (n : Rat) := div_nonneg (by norm_num) (Nat.cast_nonneg _)
      linarith
    · norm_num

theorem spec_qn_model (a : List Rat) (h : 2 ≤ a.length) :
    Spec.qn a * (if a.length ≤ 10 then 174 / 125 else if a.length < 400 then 1 + 4 / (a.length : Rat) else 1)
      = qnCore a * qnScale a.length := by
  rw [spec_qn_eq a h, div_mul_cancel₀ _ (ne_of_gt (spec_qn_const_pos a.length))]
  unfold qnCore
  rw [div_mul_cancel₀ _ (ne_of_gt (qnScale_pos a.length))]
  have e : ((QN_Q : Nat) : Rat) / 100 = 1 / 4 := by unfold QN_Q; norm_num
  rw [e]

end CnvVerif.Desc
